#!/bin/bash
# Runs the repository's pinned test suite with the verif guard OFF (no -tags, no overlay),
# the way /root/.vp/BASELINE.json does, and prints pass/fail counts.
# usage: baseline.sh [repo-dir]
export GOFLAGS=-mod=mod GOPROXY=off GOSUMDB=off GOTOOLCHAIN=local
R=${1:-/repo}
tot_pass=0; tot_fail=0
for m in attachment protocol service shared terminal; do
  out=$(cd $R/$m && go test -json -vet=off -count=1 -timeout 25m ./... 2>&1)
  p=$(echo "$out" | grep -c '"Action":"pass","Package":"[^"]*","Test"')
  f=$(echo "$out" | grep -c '"Action":"fail"')
  echo "$m pass=$p fail=$f"
  tot_pass=$((tot_pass+p)); tot_fail=$((tot_fail+f))
done
echo "TOTAL pass=$tot_pass fail=$tot_fail"
[ $tot_fail -eq 0 ]
