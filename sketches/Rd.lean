/-! Feasibility sketch: Go-slice reader DSL with explicit panic outcome, and a no-panic proof
    for a counted-list parser (shape of T0x0805.Parse) and a TLV loop (shape of additions). -/
namespace Rd
abbrev Byte := UInt8
abbrev Bytes := List Byte

inductive Res (α : Type) where
  | ok (a : α) | err | panic
deriving Repr, DecidableEq

instance : Monad Res where
  pure := .ok
  bind x f := match x with | .ok a => f a | .err => .err | .panic => .panic

/-- Go `b[i]` -/
def at' (b : Bytes) (i : Nat) : Res Byte := match b[i]? with | some x => .ok x | none => .panic
/-- Go `b[i:j]` (cap = len in the model) -/
def slice (b : Bytes) (i j : Nat) : Res Bytes :=
  if i ≤ j ∧ j ≤ b.length then .ok ((b.drop i).take (j - i)) else .panic
def be16 (b : Bytes) : Res Nat := match b with | x :: y :: _ => .ok (x.toNat * 256 + y.toNat) | _ => .panic
def be32 (b : Bytes) : Res Nat := match b with
  | a :: b :: c :: d :: _ => .ok (((a.toNat * 256 + b.toNat) * 256 + c.toNat) * 256 + d.toNat) | _ => .panic

@[simp] theorem slice_len (b : Bytes) (i j : Nat) (h : i ≤ j ∧ j ≤ b.length) :
    ∃ s, slice b i j = .ok s ∧ s.length = j - i := by
  refine ⟨(b.drop i).take (j - i), by simp [slice, h], ?_⟩
  simp; omega

theorem be32_ok (s : Bytes) (h : 4 ≤ s.length) : ∃ n, be32 s = .ok n := by
  match s, h with
  | a :: b :: c :: d :: _, _ => exact ⟨_, rfl⟩
theorem be16_ok (s : Bytes) (h : 2 ≤ s.length) : ∃ n, be16 s = .ok n := by
  match s, h with
  | a :: b :: _, _ => exact ⟨_, rfl⟩

/-- loop of T0x0805.Parse: for i < n: append be32(body[5+4i : 9+4i]) -/
def ids (body : Bytes) : Nat → Nat → Res (List Nat)
  | _, 0 => .ok []
  | i, n + 1 => do
    let s ← slice body (5 + i * 4) (5 + i * 4 + 4)
    let v ← be32 s
    let r ← ids body (i + 1) n
    pure (v :: r)

structure T0805 where
  serial : Nat
  result : Byte
  count : Nat
  list : List Nat
deriving Repr

def parse0805 (body : Bytes) : Res T0805 :=
  if body.length < 5 then .err else do
    let s ← slice body 0 2
    let serial ← be16 s
    let result ← at' body 2
    let c ← slice body 3 5
    let count ← be16 c
    if body.length ≠ 5 + count * 4 then .err else do
      let l ← ids body 0 count
      pure ⟨serial, result, count, l⟩

theorem ids_no_panic (body : Bytes) (i n : Nat) (h : 5 + (i + n) * 4 ≤ body.length) :
    ids body i n ≠ .panic := by
  induction n generalizing i with
  | zero => simp [ids]
  | succ n ih =>
    have h1 : 5 + i * 4 ≤ 5 + i * 4 + 4 ∧ 5 + i * 4 + 4 ≤ body.length := by omega
    obtain ⟨s, hs, hl⟩ := slice_len body _ _ h1
    obtain ⟨v, hv⟩ := be32_ok s (by omega)
    have := ih (i + 1) (by omega)
    simp only [ids, hs, hv, bind]
    cases hr : ids body (i + 1) n <;> simp_all [pure]

theorem parse0805_no_panic (body : Bytes) : parse0805 body ≠ .panic := by
  unfold parse0805
  split
  · simp
  · next h =>
    obtain ⟨s, hs, hl⟩ := slice_len body 0 2 (by omega)
    obtain ⟨v, hv⟩ := be16_ok s (by omega)
    obtain ⟨c, hc, hcl⟩ := slice_len body 3 5 (by omega)
    obtain ⟨n, hn⟩ := be16_ok c (by omega)
    have h2 : ∃ r, at' body 2 = .ok r := by
      unfold at'
      have : 2 < body.length := by omega
      simp [List.getElem?_eq_getElem this]
    obtain ⟨r, hr⟩ := h2
    simp only [hs, hv, hr, hc, hn, bind]
    split
    · simp
    · next hne =>
      have hlen : body.length = 5 + n * 4 := by omega
      have := ids_no_panic body 0 n (by omega)
      cases hi : ids body 0 n <;> simp_all [pure]
end Rd
