namespace Esc
abbrev Byte := UInt8

def escBody : List Byte → List Byte
  | [] => []
  | b :: r =>
    if b = 0x7e then 0x7d :: 0x02 :: escBody r
    else if b = 0x7d then 0x7d :: 0x01 :: escBody r
    else b :: escBody r

/-- inner part (between delimiters) -/
def unescBody : List Byte → Option (List Byte)
  | [] => some []
  | [b] => some [b]                -- a lone trailing 0x7d is tolerated (unescaped checksum)
  | b :: c :: r =>
    if b = 0x7d then
      if c = 0x01 then (unescBody r).map (0x7d :: ·)
      else if c = 0x02 then (unescBody r).map (0x7e :: ·)
      else none
    else (unescBody (c :: r)).map (b :: ·)

theorem unesc_cons_ne (b : Byte) (l : List Byte) (h : b ≠ 0x7d) :
    unescBody (b :: l) = (unescBody l).map (b :: ·) := by
  cases l with
  | nil => simp [unescBody]
  | cons c r => simp [unescBody, h]

theorem unesc_esc (d : List Byte) : unescBody (escBody d) = some d := by
  induction d with
  | nil => rfl
  | cons b r ih =>
    unfold escBody
    split
    · next h => subst h; simp [unescBody, ih]
    · split
      · next h => subst h; simp [unescBody, ih]
      · next h1 h2 => rw [unesc_cons_ne _ _ h2, ih]; rfl

theorem esc_no7e (d : List Byte) : ∀ x ∈ escBody d, x ≠ 0x7e := by
  induction d with
  | nil => simp [escBody]
  | cons b r ih =>
    unfold escBody
    split
    · intro x hx; simp at hx; rcases hx with h | h | h
      · subst h; decide
      · subst h; decide
      · exact ih x h
    · split
      · intro x hx; simp at hx; rcases hx with h | h | h
        · subst h; decide
        · subst h; decide
        · exact ih x h
      · next h1 h2 =>
        intro x hx; simp at hx; rcases hx with h | h
        · subst h; exact h1
        · exact ih x h
end Esc
