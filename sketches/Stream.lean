/-! Feasibility sketch for C04: packageParse.unpack (buffered path) over a value model. -/
namespace Stream
abbrev Byte := UInt8

def idx7e : List Byte → Option Nat
  | [] => none
  | b :: r => if b = 0x7e then some 0 else (idx7e r).map (· + 1)

variable {Msg : Type} (dec : List Byte → Option Msg)

/-- buffered loop of unpack; `fuel` bounds iterations (call with `h.length`) -/
def extract : Nat → List Byte → List Msg → List Msg × Bool × List Byte
  | 0, h, acc => (acc, false, h)
  | fuel + 1, h, acc =>
    if h.length > 2 ∧ h.head? = some 0x7e then
      match idx7e h.tail with
      | none => (acc, false, h)
      | some i =>
        let e := i + 2
        match dec (h.take e) with
        | none => (acc, true, h.drop e)
        | some m =>
          if e = h.length then (acc ++ [m], false, [])
          else extract fuel (h.drop e) (acc ++ [m])
    else (acc, false, h)

structure Valid (f : List Byte) : Prop where
  shape : ∃ inner, f = 0x7e :: (inner ++ [0x7e]) ∧ (∀ x ∈ inner, x ≠ 0x7e) ∧ inner ≠ []
  ok : (dec f).isSome

theorem idx7e_inner (inner rest : List Byte) (h : ∀ x ∈ inner, x ≠ 0x7e) :
    idx7e (inner ++ 0x7e :: rest) = some inner.length := by
  induction inner with
  | nil => simp [idx7e]
  | cons b r ih =>
    have hb : b ≠ 0x7e := h b (by simp)
    have hr : ∀ x ∈ r, x ≠ 0x7e := fun x hx => h x (by simp [hx])
    simp [idx7e, hb, ih hr]

/-- one valid frame at the front of the buffer is extracted whole -/
theorem extract_frame (fuel : Nat) (f rest : List Byte) (acc : List Msg) (hv : Valid dec f)
    (hrest : rest ≠ []) :
    ∃ m, dec f = some m ∧
      extract dec (fuel + 1) (f ++ rest) acc = extract dec fuel rest (acc ++ [m]) := by
  obtain ⟨⟨inner, hf, hin, hne⟩, hok⟩ := hv
  obtain ⟨m, hm⟩ := Option.isSome_iff_exists.mp hok
  refine ⟨m, hm, ?_⟩
  subst hf
  have hlen : (0x7e :: (inner ++ [0x7e]) ++ rest).length > 2 := by
    cases inner with
    | nil => exact absurd rfl hne
    | cons a t => simp; omega
  have hidx : idx7e ((0x7e :: (inner ++ [0x7e]) ++ rest).tail) = some inner.length := by
    simpa using idx7e_inner inner rest hin
  have htake : (0x7e :: (inner ++ [0x7e]) ++ rest).take (inner.length + 2) = 0x7e :: (inner ++ [0x7e]) := by
    have : (0x7e :: (inner ++ [0x7e])).length = inner.length + 2 := by simp
    rw [← this, List.take_left']
    rfl
  have hdrop : (0x7e :: (inner ++ [0x7e]) ++ rest).drop (inner.length + 2) = rest := by
    have : (0x7e :: (inner ++ [0x7e])).length = inner.length + 2 := by simp
    rw [← this, List.drop_left']
    rfl
  have hnee : ¬ (inner.length + 2 = (0x7e :: (inner ++ [0x7e]) ++ rest).length) := by
    cases rest with
    | nil => exact absurd rfl hrest
    | cons a t => simp
  rw [extract]
  have hhead : (0x7e :: (inner ++ [0x7e]) ++ rest).head? = some 0x7e := rfl
  rw [if_pos ⟨hlen, hhead⟩]
  simp only [hidx, htake, hm, hdrop, if_neg hnee]
end Stream
