//go:build verif

// Add-only test accessor for the verification harness (/verif). Compiled into package terminal only
// with `-tags verif` through `go build -overlay`; nothing here changes existing behaviour.
package terminal

import "github.com/cuteLittleDevil/go-jt808/shared/consts"

// VerifDefaultHandles exposes the simulator's default command table for one protocol version.
func VerifDefaultHandles(v consts.ProtocolVersionType) map[consts.JT808CommandType]Handler {
	return defaultProtocolHandles(v)
}
