//go:build verif

// Add-only test accessors for the verification harness (/verif). Compiled into package service only
// with `-tags verif` through `go build -overlay`; nothing here changes existing behaviour.
package service

import (
	"time"
	"unsafe"
)

// VerifParser exposes the per-connection packageParse to the harness.
type VerifParser struct{ p *packageParse }

func VerifNewParser() *VerifParser { return &VerifParser{p: newPackageParse()} }

// Parse feeds one read to packageParse.parse, exactly as connection.reader does.
func (v *VerifParser) Parse(data []byte) ([]*Message, error) { return v.p.parse(data) }

// HistLen is the number of buffered bytes that do not form a complete frame yet.
func (v *VerifParser) HistLen() int { return len(v.p.historyData) }

// ShiftTimes moves every stored sub-package timestamp d into the past (instead of sleeping).
func (v *VerifParser) ShiftTimes(d time.Duration) {
	for _, r := range v.p.timeoutRecord {
		r.createTime = r.createTime.Add(-d)
		r.updateTime = r.updateTime.Add(-d)
	}
}

// Transfers is the number of incomplete sub-package transfers.
func (v *VerifParser) Transfers() int { return len(v.p.subcontractingRecord) }

// HistRange returns the address range [lo,hi) of the backing array of the history buffer (cap, not len).
func (v *VerifParser) HistRange() (uintptr, uintptr) {
	h := v.p.historyData
	if cap(h) == 0 {
		return 0, 0
	}
	lo := uintptr(unsafe.Pointer(unsafe.SliceData(h[:cap(h)])))
	return lo, lo + uintptr(cap(h))
}

// SlotRanges returns the address ranges of every stored sub-package slot.
func (v *VerifParser) SlotRanges() [][2]uintptr {
	var out [][2]uintptr
	for _, slots := range v.p.subcontractingRecord {
		for _, s := range slots {
			if len(s) > 0 {
				lo := uintptr(unsafe.Pointer(unsafe.SliceData(s)))
				out = append(out, [2]uintptr{lo, lo + uintptr(len(s))})
			}
		}
	}
	return out
}

// VerifDefaultHandlers returns a fresh copy of the default handler table (one per connection in the server).
func VerifDefaultHandlers() map[uint16]Handler {
	g := &GoJT808{}
	out := map[uint16]Handler{}
	for k, v := range g.createDefaultHandle() {
		out[uint16(k)] = v
	}
	return out
}

// Clear runs packageParse.clear(), as the reader does when the connection ends.
func (v *VerifParser) Clear() { v.p.clear() }
