#!/usr/bin/env python3
"""debug helper: lib/dbg.py Cnn [seed] [tier] — run correspondence without the Lean proof build, print divergences and oracle failures"""
import importlib.util, importlib.machinery, sys, os, collections
pid = sys.argv[1]; seed = int(sys.argv[2]) if len(sys.argv) > 2 else 1; tier = sys.argv[3] if len(sys.argv) > 3 else 'quick'
sys.argv = ['check']
loader = importlib.machinery.SourceFileLoader('check', '/verif/check')
spec = importlib.util.spec_from_loader('check', loader)
m = importlib.util.module_from_spec(spec); loader.exec_module(m)
ok, log = m.build_go(); print('go build', ok, log[-3000:] if not ok else '')
rd = f'/verif/.build/run/{pid}'
rc, out = m.run_corr(pid, seed, tier, rd); print('corr rc', rc, out[-800:])
ops, model = m.run_driver(rd); impl = m.load_impl(rd)
d = [i for i in range(len(ops)) if impl[i] != model[i]]
print(len(ops), 'cases; divergent', len(d))
for i in d[:int(os.environ.get('N', '3'))]:
    print('OP', ops[i][:600]); print(' IMPL ', impl[i][:600]); print(' MODEL', model[i][:600])
orc = open(rd + '/oracle.txt').read().splitlines()
print('oracle failures', len(orc), collections.Counter(l.split(' ')[1] for l in orc))
for l in orc[:int(os.environ.get('N', '3'))]:
    print('  ', l[:700])
import json; print(json.load(open(rd + '/stats.json'))['classes'])
