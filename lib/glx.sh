#!/bin/bash
# usage: glx.sh [outdir]  — rebuilds the extractor (tag verif, overlay hooks) and runs the Go->Lean translator into outdir (default lean/JT/Gen)
export GOFLAGS=-mod=mod GOPROXY=off GOSUMDB=off GOTOOLCHAIN=local
cd /verif/harness && go build -tags verif -overlay /verif/.build/overlay.json -o /verif/.build/extract ./cmd/extract || exit 1
out=${1:-/verif/lean/JT/Gen}; mkdir -p $out
/verif/.build/extract golean -repo /repo -out $out
