#!/usr/bin/env python3
"""Applies every behaviour-preserving rewrite under seeded/refac-*/patch.diff to the repository in turn, checks that the
pinned suite still passes, runs EVERY quick check and records which ones raise an alarm (and of which kind).
A broken proof obligation or correspondence on a harmless rewrite is allowed by the rules (reported with
no-failing-input-found), but each one is a cost: this script measures it. usage: quiettest.py [name-substring ...]"""
import json, os, subprocess, sys, glob, time
ROOT = os.path.dirname(os.path.dirname(os.path.abspath(__file__)))
REPO = os.environ.get("VERIF_REPO", "/repo")
PROPS = ["C%02d" % i for i in range(1, 21)]
names = sys.argv[1:]
saved = {f: open(f, "rb").read() for f in glob.glob(ROOT + "/evidence/*.json")}
import atexit
atexit.register(lambda: subprocess.run([ROOT + "/check", "--extract"], cwd=ROOT, capture_output=True))  # generated files back to the clean tree
atexit.register(lambda: [open(f, "wb").write(b) for f, b in saved.items()])
out = {}
rp = ROOT + "/seeded/quiet_results.json"
if os.path.exists(rp):
    out = json.load(open(rp))
for d in sorted(glob.glob(ROOT + "/seeded/refac-*/"), key=lambda x: int(x.rstrip("/").split("-")[-1])):
    name = os.path.basename(d.rstrip("/"))
    if names and not any(n in name for n in names):
        continue
    assert subprocess.run(["git", "-C", REPO, "status", "--porcelain"], capture_output=True, text=True).stdout.strip() == "", "repo not clean"
    r = subprocess.run(["git", "-C", REPO, "apply", d + "patch.diff"], capture_output=True, text=True)
    if r.returncode != 0:
        print(name, "PATCH DOES NOT APPLY", r.stderr[:200], flush=True); continue
    alarms = []
    try:
        for p in PROPS:
            q = subprocess.run([ROOT + "/check", p, "--tier", "quick"], cwd=ROOT, capture_output=True, text=True)
            v = [l for l in q.stdout.splitlines() if l.startswith("VIOLATION")]
            if q.returncode != 0 or v:
                kind = "no-failing-input-found" if v and all("no-failing-input-found" in l for l in v) else "with-failing-input"
                alarms.append([p, kind, (v[0] if v else "exit %d" % q.returncode)[:200]])
    finally:
        subprocess.run(["git", "-C", REPO, "checkout", "--", "."])
        subprocess.run(["git", "-C", REPO, "clean", "-fdq"])
    out[name] = alarms
    json.dump(out, open(rp, "w"), indent=1, sort_keys=True)
    print(name, "QUIET" if not alarms else "ALARMS " + json.dumps(alarms), flush=True)
