#!/usr/bin/env python3
"""Regenerates /verif/MANIFEST.json from lib/propcfg.py (run after editing propcfg)."""
import json, os, sys
ROOT = os.path.dirname(os.path.dirname(os.path.abspath(__file__)))
sys.path.insert(0, os.path.join(ROOT, "lib"))
from propcfg import PROPS, NOT_APPLICABLE

base = "for m in attachment protocol service shared terminal; do (cd /repo/$m && GOFLAGS=-mod=mod go test -json -vet=off -count=1 -timeout 25m ./...); done"
ids = [json.loads(l)["id"] for l in open(os.path.join(ROOT, "properties.jsonl"))]
checks = []
for pid in ids:
    if pid not in PROPS:
        continue
    c = PROPS[pid]
    checks.append({
        "property_id": pid,
        "quick_cmd": f"./check {pid} --tier quick",
        "thorough_cmd": f"./check {pid} --tier thorough",
        "evidence_file": f"/verif/evidence/{pid}.json",
        "replay_cmd_template": f"./check {pid} --replay {{path}}",
        "engine": "lean-proof+correspondence",
        "level_claimed": {"category": "proof", "text": c["level_text"], "design_ref": c.get("design_ref", "DESIGN.md §6 " + pid)},
        "level_note": c["level_note"],
        "technique": c["technique"],
    })
na = [{"property_id": p, "reason": NOT_APPLICABLE.get(p, "no check registered yet in this revision: model and correspondence harness for this property are still being built (see DESIGN.md §6); nothing is claimed")}
      for p in ids if p not in PROPS]
man = {
    "version": 1,
    "setup_cmd": "./check --setup",
    "hooks": {
        "guard": "verif",
        "enable": "go build -tags verif -overlay /verif/.build/overlay.json  (the overlay adds /verif/hooks/<pkg>/*.go, all `//go:build verif`, to the packages of /repo at build time; nothing is written into /repo)",
        "baseline_off_cmd": base,
        "source_commits": [],
        "add_only": True,
    },
    "engines": [{"name": "lean-proof+correspondence", "path": "/verif/check", "serves_properties": [c["property_id"] for c in checks],
                 "kind_free_text": "Lean 4 theorems about a hand-written executable model (lean/JT), tied to /repo on every run by differential execution (harness/cmd/corr in-process vs the native Lean driver) plus source extractors that regenerate tables and a Go->Lean translator (extract golean) that regenerates the frame codec itself, proved equal to the model"}],
    "checks": checks,
    "not_applicable": na,
    "notes": "See DESIGN.md. Known findings: known_findings.json. Repairs of genuine defects are 'fix:' commits in /repo. Seeded breaking changes used to test the checks: seeded/.",
}
json.dump(man, open(os.path.join(ROOT, "MANIFEST.json"), "w"), indent=1)
print("checks:", [c["property_id"] for c in checks], "not_applicable:", [n["property_id"] for n in na])
