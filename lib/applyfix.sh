#!/bin/bash
# usage: applyfix.sh <Dnn> <commit message file>   (the edit to /repo must already be in the working tree)
set -e
ID=$1; MSG=$2
cd /repo
git diff --stat
/verif/baseline.sh | tail -1; /verif/baseline.sh >/dev/null 2>&1 || { echo "BASELINE FAILS - not committing"; exit 1; }
mkdir -p /verif/seeded/revert-$ID
git diff -R > /verif/seeded/revert-$ID/patch.diff
git commit -qaF "$MSG"
git log --oneline | head -1
