#!/bin/bash
# Regenerates /verif/seeded/revert-<ID>/patch.diff against /repo's current HEAD (a later fix may have touched
# neighbouring lines). usage: regen_reverts.sh   (reads the table below)
cd /repo || exit 1
while read id sha; do
  [ -z "$id" ] && continue
  if git revert -n $sha >/dev/null 2>&1; then
    mkdir -p /verif/seeded/revert-$id
    git diff HEAD > /verif/seeded/revert-$id/patch.diff
    echo "$id ok"
  else
    echo "$id CONFLICT"
  fi
  git reset -q --hard HEAD
done <<'TAB'
D1 29a7476
D13 1fdaefd
D12 37bd2a5
D11 4fcf419
D2 71bdff1
D3 a8d722d
D4 1c516a5
D6 ea07dff
D24 4959329
D8 3c51e61
D5 09b9800
F16 6116601
D9-lists f03e517
D9-flags e873108
D9-maps a8fd683
D15 8c6840b
D25 9f8e0a7
D9-videoframe cac520a
D9-subpackage 0cd3884
D9-rtpfields dca27f9
D14 19a875f
F15 a57418b
D9-pkgfields cffc758
D9-noitems e7290a9
F02 ceb5b67
D17-D18 e7a7a75
D16 e2e745d
D19 078c91a
D20 886dbaf
D22 5648d1e
D26 6e387c3
D27 7ac08f8
R1 0b48008
D29 f72142c
TAB
