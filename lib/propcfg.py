"""Per-property configuration of the orchestrator."""

KERNEL = "Lean 4.33.0 kernel (lake build re-checks every proof; thorough tier adds leanchecker)"
AXIOMS = "axioms allowed in property theorems: propext, Classical.choice, Quot.sound only (audited on every run with #print axioms; no native_decide, bv_decide, sorry, admit or own axioms)"
TIE = "the model is hand-written; it is tied to /repo by the sampled correspondence check (same op lines executed by the Go implementation in-process and by the native Lean driver, results diffed)"
HARNESS = "Go harness (generators, canonicalisation, oracle), Lean driver line protocol, Go toolchain"

PROPS = {
    "C01": {
        "id": "C01",
        "lean_modules": ["JT.Props.C01"],
        "functional_ops": [],
        "rule": ("`enc`: source frame (random header of both layouts, fragmented/encrypted/reserved bits, BCD phone incl. zeros and hex nibbles) "
                 "x reply ID x platform serial (special values 0,1,7d,7e,7d7e,ffff) x body 0..1023 bytes (boundary lengths 0,1,999,1000,1001,1022,1023; "
                 "dense in 7e/7d/01/02; specials at both ends; last byte solved so that the checksum is 7e/7d/01/02); "
                 "`dec`: the produced frames. A case is counted once per distinct op line; non-trivial = source header decodes."),
        "trusted_base": [KERNEL, AXIOMS, TIE, HARNESS,
                         "modelled rather than verified: Go slices/append/bytes.Buffer as value lists; bytes.ContainsRune(0x7d) as byte membership; uint16 arithmetic of BodyProperty.encode as Nat arithmetic with explicit mod 65536"],
        "technique": "Lean 4 proof (induction on the body) about a model of Header.Encode/JTMessage.Decode + differential correspondence check",
        "level_text": ("Machine-checked Lean 4 theorems, unbounded in body length and over all byte values: escape is inverted by unescape, "
                       "no 0x7e occurs strictly inside an encoded frame whatever body and checksum are, and decode(encode(h, id, serial, body)) returns exactly id, BCD phone, "
                       "version, serial and body for every decodable header and every body of <= 1023 bytes. The model is tied to the Go code on every run by executing both on "
                       "the same generated cases, and the round-trip oracle is evaluated on the implementation itself."),
        "level_note": "Trusted: Lean kernel; hand-written model of protocol/jt808 (sampled tie, not a proof about Go); harness and generators. Axioms: propext, Classical.choice, Quot.sound.",
        "assumptions": ["the Lean model JT/Model/Frame.lean mirrors protocol/jt808 (validated by the correspondence check on every run, not proved)",
                        "headers are those a decoder can produce (HeaderWF, proved to hold for every decoded message)"],
    },
}

# properties that are not claimed, with the reason (anything not listed and not in PROPS gets a generic "not built yet")
NOT_APPLICABLE = {}
