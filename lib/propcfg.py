"""Per-property configuration of the orchestrator."""

KERNEL = "Lean 4.33.0 kernel (lake build re-checks every proof; thorough tier adds leanchecker)"
AXIOMS = "axioms allowed in property theorems: propext, Classical.choice, Quot.sound only (audited on every run with #print axioms; no native_decide, bv_decide, sorry, admit or own axioms)"
TIE = "the model is hand-written; it is tied to /repo by the sampled correspondence check (same op lines executed by the Go implementation in-process and by the native Lean driver, results diffed)"
TRANSL = ("the frame codec (unescape, escape, CreateVerifyCode, Bcd2Dec, BodyProperty.decode/encode, Header.decode, JTMessage.Decode, Header.Encode) is TRANSLATED from /repo into Lean on every run "
          "(extract golean -> JT/Gen/GoFrame.lean) and proved equal to the hand-written model (JT/Proof/GoFrame.lean); trusted there: JT/Go/Sem.lean (meaning of the Go operations), the translator, go/types, "
          "int without 64-bit overflow, exact-capacity slicing, value semantics of slices (aliasing writes are refused by the translator)")
HARNESS = "Go harness (generators, canonicalisation, oracle), Lean driver line protocol, Go toolchain"

PROPS = {
    "C01": {
        "id": "C01",
        "lean_modules": ["JT.Props.C01", "JT.Props.C01Src"],
        "extractors": ["golean"],
        "functional_ops": [],
        "rule": ("`enc`: source frame (random header of both layouts, fragmented/encrypted/reserved bits, BCD phone incl. zeros and hex nibbles) "
                 "x reply ID x platform serial (special values 0,1,7d,7e,7d7e,ffff) x body 0..1023 bytes (boundary lengths 0,1,999,1000,1001,1022,1023; "
                 "dense in 7e/7d/01/02; specials at both ends; last byte solved so that the checksum is 7e/7d/01/02); "
                 "`dec`: the produced frames. A case is counted once per distinct op line; non-trivial = source header decodes."),
        "trusted_base": [KERNEL, AXIOMS, TRANSL, TIE, HARNESS,
                         "modelled rather than verified: Go slices/append/bytes.Buffer as value lists; bytes.ContainsRune(0x7d) as byte membership"],
        "technique": "Lean 4 proof (induction on the body) about Header.Encode/JTMessage.Decode as translated from the Go source on every run (translated functions proved equal to the model) + differential correspondence check",
        "level_text": ("Machine-checked Lean 4 theorems, unbounded in body length and over all byte values: escape is inverted by unescape, "
                       "no 0x7e occurs strictly inside an encoded frame whatever body and checksum are, and decode(encode(h, id, serial, body)) returns exactly id, BCD phone, "
                       "version, serial and body for every decodable header and every body of <= 1023 bytes. The same round trip is proved about the functions TRANSLATED from the Go source on every run "
                       "(source_roundtrip: translated Decode o translated Encode, 0x7e only at the ends, nothing panics), through theorems that the translated functions equal the model. "
                       "In addition the model is executed against the Go code on every run on the same generated cases, and the round-trip oracle is evaluated on the implementation itself."),
        "level_note": "Trusted: Lean kernel; the Go->Lean translator and JT/Go/Sem.lean (the translated frame codec is proved equal to the model); harness and generators for what the value model cannot express (spare capacity, receiver and buffer history). Axioms: propext, Classical.choice, Quot.sound.",
        "assumptions": ["the Lean model JT/Model/Frame.lean mirrors protocol/jt808 (validated by the correspondence check on every run, not proved)",
                        "headers are those a decoder can produce (HeaderWF, proved to hold for every decoded message)"],
    },
}

PROPS["C02"] = {
    "id": "C02",
    "lean_modules": ["JT.Props.C02", "JT.Props.C02Src"],
    "extractors": ["golean"],
    "functional_ops": ["dec", "decv"],
    "rule": ("`decv`: frames built by the harness from the standard's layout (both versions, fragment/encryption/reserved bits, all phone shapes, bodies 0..1023) incl. the tolerated unescaped-7d checksum; "
             "`dec`: their truncations, extensions, single-bit and single-byte corruptions, wrong declared length with valid checksum, flipped fragment/version bit, bad escape pairs, short headers with valid checksum, wrong checksum; "
             "random strings (uniform and over the alphabet 7e,7d,01,02,00,30,ff); EXHAUSTIVELY every string of length <= 5 (quick) / <= 6 (thorough) over that alphabet; every single-byte corruption of a few short frames. "
             "distinct = distinct byte strings; non-trivial = every case (accept and reject are both informative here)."),
    "technique": "Lean 4 proof that JTMessage.Decode as translated from the Go source on every run accepts exactly the declaratively specified well-formed frames (translated code = model = specification) + differential correspondence (any divergence is a failing input)",
    "level_text": ("Machine-checked Lean 4 theorem decode f = ok m <-> WellFormed f m for ALL byte strings, where WellFormed is a declarative specification written from the standard "
                   "(inductive escape relation with the one tolerated deviation, XOR = 0, header layout per version and fragment flag, body length = declared length), plus functionality and totality "
                   "(never panics; err exactly on non-well-formed input). Because model = specification is proved for every input, any input on which the Go decoder and the model differ is itself a violation; "
                   "the run compares them on generated, corrupted and exhaustively enumerated short strings."),
    "level_note": "Trusted: Lean kernel; the specification JT/Spec/Frame.lean (my reading of JT/T 808); the Go->Lean translator and JT/Go/Sem.lean (source_decode_iff_wellformed is about the translated JTMessage.Decode); harness. Axioms: propext, Classical.choice, Quot.sound.",
    "trusted_base": [KERNEL, AXIOMS, TRANSL, TIE, HARNESS, "specification JT/Spec/Frame.lean: reading of the JT/T 808 frame layout",
                     "modelled rather than verified: Go slices as value lists; bytes.ContainsRune as byte membership"],
    "assumptions": ["the Lean model mirrors protocol/jt808 JTMessage.Decode (validated by the correspondence check, exhaustively on short strings over the special alphabet)",
                    "error identity is not compared (all errors are `err`)"],
    "shrink": True,
}

PROPS["C17"] = {
    "id": "C17",
    "lean_modules": ["JT.Props.C17", "JT.Props.C17Src"],
    "extractors": ["golean"],
    "functional_ops": ["rtp", "rtpv", "rtpall", "rtpallv", "rtpseq"],
    "rule": ("packets of every data type 0..15 with random flag/PT/SIM/channel/sequence/timestamp/intervals, payload 0..950 and up to ~4000 bytes (incl. payloads starting with the marker), "
             "concatenated 1..4 at a time: `rtpv` first packet + remainder, `rtpallv` iteration to the end, every cut length of short packets and boundary cuts (15..30, len-1) of all, "
             "streams cut inside a later packet, damaged markers, arbitrary strings (half of them starting with the marker). "
             "A fresh Packet per step (receiver reuse is C03). distinct = distinct op lines; all cases are non-trivial (ok / short / unq are all claimed outcomes)."),
    "technique": "Lean 4 proof: decode d = ok(p, rest) <-> d = stdEncode p ++ rest, truncation => short, iteration over concatenations — about the model and about jt1078.Packet.Decode as translated from the Go source on every run (translated code proved equal to the model); differential correspondence + standard-layout oracle",
    "level_text": ("Machine-checked Lean 4 theorems for all packets and all byte strings: decode(stdEncode p ++ rest) = (p, rest) for every representable packet (any data type, any payload < 65536), "
                   "conversely whatever decodes IS a standard encoding (iff), every strict prefix of a packet is 'too short', >= 16 bytes without the marker are 'unqualified', < 16 bytes 'too short', "
                   "and iterating over any concatenation yields every packet with nothing left. The model mirrors jt1078.Decode on a fresh Packet and is compared with it on every run; "
                   "the harness also checks the Go decoder directly against packets it lays out from the standard."),
    "level_note": "Trusted: Lean kernel; JT/Spec/Rtp.lean (reading of JT/T 1078 table 19); the Go->Lean translator and JT/Go/Sem.lean (Packet.Decode/decodeHead are translated from the source on every run and proved equal to the model: rtp_decode_go); harness. A reused Packet is outside the value model (covered by the rtpseq correspondence and C03).",
    "trusted_base": [KERNEL, AXIOMS, TRANSL.replace("the frame codec (", "the frame codec and jt1078.Packet.Decode/decodeHead ("), TIE, HARNESS, "specification JT/Spec/Rtp.lean: reading of the JT/T 1078 RTP layout",
                     "modelled rather than verified: Go slices as value lists; errors.Join classes mapped to short/unq"],
    "assumptions": ["a fresh Packet is used for every Decode call", "error classes compared: header-too-short and body-too-short both count as 'too short'"],
}

PROPS["C16"] = {
    "id": "C16",
    "lean_modules": ["JT.Props.C16", "JT.Props.C15", "JT.Props.C16Src"],
    "extractors": ["golean"],
    "functional_ops": ["miss", "att"],
    "confirm_reruns": True,
    "rule": ("file sizes 0..~330000 (boundaries 1,2,255,256,65535,65536,2^20), the file cut at random points into up to 12 (10%: up to 600) pieces of which 0/30/50/80/100% are kept as received chunks, "
             "in shuffled order (gaps at start/middle/end, adjacent chunks, single-byte gaps, > 255 gaps); `miss` = Package.StatisticalMissSegments(), `rep` = the same list driven through T0x1212.ReplyBody -> P0x9212 and parsed back; "
             "10%: out-of-quantifier inputs (zero-length, overlapping, out-of-file chunks, offsets near 2^32, inconsistent counter) compared with the model only; `att` = the same situations over a socket against the attachment server "
             "(files up to 300000 bytes, holes of more than 64 KiB, up to three rounds of 0x1212 -> partial resend -> 0x1212, random TCP segmentation), the 0x9212 frames compared with the Lean session model and the brute-force complement. non-trivial = class other than out-of-quantifier."),
    "technique": "Lean 4 proof (sorted fold = exact complement, accounting identity) about a model of StatisticalMissSegments + differential correspondence + brute-force complement oracle",
    "level_text": ("Machine-checked Lean 4 theorems for every file size < 2^32 and every set of non-empty, pairwise disjoint in-file chunks in any order: a byte is inside a reported range iff no chunk covers it; "
                   "reported ranges are ascending, non-empty, inside the file and separated by at least one received byte (maximal); the report is empty iff everything was received; received + reported bytes = file size, "
                   "so after resending the reported ranges the next report is empty. The model (merge sort + uint32 cursor fold) is compared with the exported Go function on every run; the harness also compares the Go result with a brute-force complement "
                   "and drives it through the 0x1212 -> 0x9212 reply encoding and back."),
    "level_note": "Trusted: Lean kernel; sampled tie; harness. The theorems assume CurrentSize = sum of chunk lengths (how resends affect the counter is C15). Zero-length chunks are outside the quantifier.",
    "trusted_base": [KERNEL, AXIOMS, TIE, HARNESS, "modelled rather than verified: Go map iteration as an arbitrary list order with distinct keys; sort.Slice as a merge sort (keys are distinct, so the order is unique); uint32 cursor as Nat mod 2^32"],
    "assumptions": ["CurrentSize equals the sum of the recorded chunk lengths (no resent chunks; see C15)", "chunks are non-empty, inside the file and pairwise disjoint"],
}

_PARSE_TB = [KERNEL, AXIOMS, TIE, HARNESS,
             "add-only hook /verif/hooks/service/hooks.go (overlay, tag verif): constructs a packageParse, feeds reads, shifts stored timestamps",
             "modelled rather than verified: Go slices/append/maps as value lists and association lists; bytes.IndexFunc over runes as a byte scan for 0x7e; time.Now as a parameter (whole-second shifts of stored instants)"]

PROPS["C04"] = {
    "id": "C04",
    "lean_modules": ["JT.Props.C04", "JT.Props.C04Src"],
    "extractors": ["golean"],
    "functional_ops": [],
    "rule": ("sequences of 1..6 valid unfragmented frames (both versions, bodies 0..1023 incl. escape-dense ones so that escaped frames exceed the 1023-byte read buffer, every phone shape) fed to a real packageParse "
             "byte by byte, frame by frame, coalesced to full 1023-byte reads, in 1..8-byte reads and in random 1..1023-byte reads, each read placed in the same reused buffer as the reader does; "
             "EXHAUSTIVELY every 1-cut and 2-cut of short streams (<= 60 bytes quick, <= 120 thorough). distinct = distinct sessions; non-trivial = session with at least 2 reads or 2 frames."),
    "technique": "Lean 4 proof by induction over the reads (invariant: buffer = open remainder of the next frame; fast path coincides with buffered path), carried over by proof to packageParse.unpack as TRANSLATED from the Go source on every run (translated code = model, loop invariants) + differential correspondence through an add-only hook",
    "level_text": ("Machine-checked Lean 4 theorems about packageParse.unpack (fast path and buffered loop) — about a hand-written model and, through the theorem translated-code = model (source_unpack_is_model: never panics, same error flag, same pending bytes, same messages, for every buffer and every read), about the function as the Go->Lean translator renders it from /repo on every run (source_unpack_any_chunking): for EVERY sequence of valid frames and EVERY partition of the byte stream into reads (any lengths), "
                   "no error is reported, exactly one message per frame is delivered, in order, with the fields the frame decoder yields, nothing stays in the buffer; after any prefix of the reads the delivered messages are exactly "
                   "the frames whose closing delimiter has arrived (never earlier, never later); earlier outputs do not depend on later reads. The model is executed against the real packageParse on every run (same reused read buffer), "
                   "and the harness evaluates the property directly on the implementation (expected messages per read computed from the generated frames)."),
    "level_note": "Trusted: Lean kernel; the Go->Lean translator and JT/Go/Sem.lean (value semantics; the translator refuses code that writes through a shared pointer or an aliased slice, which is what makes value semantics right here); connection.reader itself (one unpack call per read, in order) is outside the translated part and is covered by the sampled socket-level checks; hook accessor; harness. Axioms: propext, Classical.choice, Quot.sound.",
    "trusted_base": _PARSE_TB,
    "assumptions": ["frames are valid: delimiters only at both ends and accepted by the frame decoder (C02 characterises these)", "the reader hands each read to parse exactly once, in order (connection.reader is covered by the socket-level checks)"],
    "shrink": False,
}

PROPS["C05"] = {
    "id": "C05",
    "lean_modules": ["JT.Props.C05", "JT.Props.C05Src"],
    "extractors": ["golean"],
    "functional_ops": [],
    "rule": ("transfers of 1..8 (thorough: 1..40) non-empty packets (equal/unequal lengths, escape-dense bodies, up to 1023 bytes), packet 1 first then 2..N shuffled with duplicates, interleaved with a second concurrent transfer of another id (sometimes left incomplete), "
             "unfragmented messages, packets numbered 0 / N+1 / N+2 / 65535 and packets of an id with no packet 1; delivered one packet per read into the reader's reused 1023-byte buffer, coalesced, or split into 1..40-byte reads; "
             "EXHAUSTIVELY all arrival orders for N <= 4 (thorough <= 5). non-trivial = session in which a reassembled message is delivered."),
    "technique": "Lean 4 proof (invariant over the slot table, induction over the arrival list) about a model of completePack + differential correspondence through an add-only hook + reassembly oracle",
    "level_text": ("Machine-checked Lean 4 theorems about a model of packageParse.completePack, for every id, every N >= 1, all non-empty bodies, any initial table and ANY admissible arrival list (packets 2..N in any order with duplicates, "
                   "other ids incl. whole transfers, unfragmented messages, impossible numbers 0 or > N): the completions for the id are none until all of 1..N have arrived and exactly one message with the concatenated bodies once they have "
                   "(stated for every prefix, hence 'as soon as the last missing packet arrives'), no panic for any message, other ids untouched. The model runs against the real packageParse on every run with the reader's buffer reuse, "
                   "and the harness checks the implementation directly against expected reassembly results. Composition with stream framing is C04."),
    "level_note": "Trusted: Lean kernel; hand-written model tied by sampled correspondence; hook accessor; harness. The theorem needs non-empty packet bodies (the code counts non-empty slots) — stated explicitly.",
    "trusted_base": _PARSE_TB,
    "assumptions": ["packet bodies are non-empty", "packet 1 arrives first and is not duplicated (the property's quantifier)"],
    "shrink": False,
}

PROPS["C14"] = {
    "confirm_reruns": True,
    "id": "C14",
    "lean_modules": ["JT.Props.C14", "JT.Props.C14Src"],
    "extractors": ["concshape", "golean"],
    "functional_ops": ["rereqsock", "rereqcmd"],
    "rule": ("transfers of 2..12 (thorough: up to 255) packets with a random non-empty set of missing numbers, optional second concurrent transfer, then 1..5 rounds of idle time from {0,1,2,4,5,6,9,11,30,54,59,60,61 s} followed by inbound data "
             "(heartbeat, partial resupply, full resupply), late packets after completion/expiry; EXHAUSTIVELY every non-empty missing subset for N <= 6 (thorough <= 10) with idle 4 s / +2 s / +1 s. "
             "plus one live-socket scenario in real time (8 transfers of different IDs each missing a packet, 5.2 s of silence, then a heartbeat: 8 re-requests must arrive; thorough: 2/5/8/12). Stored timestamps are moved back by the hook instead of sleeping (whole seconds; a session that takes > 0.4 s of real time is re-run). non-trivial = session with a re-request or a completion."),
    "technique": "Lean 4 proof about a model of deleteTimeoutPackage/supplementarySubPackage with time as a parameter (uses the C01 round-trip theorem) + differential correspondence with shifted timestamps + re-request oracle",
    "level_text": ("Machine-checked Lean 4 theorems: the re-request body is the serial of packet 1, the count and exactly the missing package numbers (membership iff 1..N and not arrived; strictly ascending) for up to 255 missing numbers, "
                   "carried in a 0x8003 frame addressed with the transfer's phone and version (via the C01 round trip); a re-request is produced exactly for transfers younger than 60 s that were idle for 5 s; a transfer re-requested at t is not re-requested "
                   "again before t + 5 s; a transfer older than 60 s is removed and no later traffic can make it complete; records are handled independently. Time is a parameter of the model; the real code is driven with shifted timestamps and compared on every run."),
    "level_note": "Trusted: Lean kernel; model tied by sampled correspondence; hook that shifts stored timestamps (wall clock replaced by a parameter); harness.",
    "trusted_base": _PARSE_TB,
    "assumptions": ["time.Now is modelled as a non-decreasing parameter; the strict comparison `After` is `>=` on whole-second shifts (real time advances a few microseconds per call)", "at most 255 packets per transfer for the count byte"],
    "shrink": False,
}

PROPS["C08"] = {
    "id": "C08",
    "lean_modules": ["JT.Props.C08", "JT.Props.C08Src"],
    "extractors": ["bittables", "addlen", "golean"],
    "functional_ops": [],
    "rule": ("0x0200 bodies = 28-byte base block (alarm/status words: single bits, pairs, all-but-one, random; BCD and non-BCD time nibbles) + 0..5 additional-information items (every standard id with every admissible length, "
             "12% inadmissible lengths, unknown ids, duplicate ids); the same through 0x0704 batches of 1..3 items (10% with an announced count larger than the items present) and inside 0x0801; truncations; "
             "EXHAUSTIVELY every (standard id, length in {0..8,29,30,31}) pair alone behind a base block; all 32 single bits and all pairs of the alarm and of the status word (thorough: all pairs of the extended vehicle word too). "
             "non-trivial = decoded successfully with at least one item, or rejected."),
    "technique": "closed forms of the alarm word, the status word, the 28-byte base block and the 0x0801 body proved about AlarmSignDetails.parse / StatusSignDetails.parse / T0x0200LocationItem.parse / T0x0801.Parse as TRANSLATED from the Go source on every run (C08Src) + Lean 4 proof over regenerated tables (go/ast extractor): flag ⇔ bit for every word, base-block round trip, item-list totality; differential correspondence + standard-layout oracle",
    "level_text": ("Machine-checked Lean 4 theorems: the four flag decoders' tables, REGENERATED from the Go source on every run, equal the standard's tables (kernel `decide`), and from that, for EVERY word (not an enumeration of 2^32), each alarm flag, "
                   "single-bit status flag, extended-vehicle signal and IO flag is set exactly when its standard bit is set; the admissible-length table extracted from contrastFunc equals the standard's; the 28-byte base block round-trips through the standard layout "
                   "with arbitrary trailing bytes; the item loop never panics for any byte string, rejects impossible lengths, preserves unknown items verbatim and assigns the standard big-endian values. The model (using the regenerated tables) is compared with the Go decoders on every run, "
                   "and the harness evaluates the Go decoders against its own reading of the standard for all three carrier messages."),
    "level_note": "Trusted: Lean kernel; JT/Spec/Location.lean (reading of JT/T 808 tables 23-32); the go/ast extractors; `%.32b` + character test modelled as a bit test (validated by the tie); sampled correspondence; harness. The two-bit load field of the status word is outside C08.",
    "trusted_base": [KERNEL, AXIOMS, TIE, HARNESS, "extractors harness/cmd/extract (go/ast): bit tables and admissible lengths regenerated into lean/JT/Gen on every run",
                     "specification JT/Spec/Location.lean", "modelled rather than verified: fmt.Sprintf(\"%.32b\")[k]=='1' as a bit test; Go map of items as last-wins association list sorted by id"],
    "assumptions": ["fresh receiver for every Parse (receiver reuse is C03)", "open finding D3-offset (item 0x11 area id) is excluded by its signature only"],
    "shrink": True,
}

PROPS["C06"] = {
    "confirm_reruns": True,
    "id": "C06",
    "lean_modules": ["JT.Props.C06", "JT.Props.C06Src"],
    "extractors": ["replytable", "concshape", "golean"],
    "functional_ops": ["convcut", "convpar"],
    "rule": ("conversations of 1..6 writes x 1..3 frames on one connection against a real in-process server (default configuration) over a localhost socket: every 0x0xxx/0x1xxx id registered by default plus unsupported ids, both header versions, "
             "random phones and request serials (0, 65535, 7d/7e...), 0x0102 with matching / non-matching / NUL-terminated / 240..255-byte codes and too-short 2019 bodies, 0x0801 with bodies below and above 36 bytes, 0x1211/0x1212 well- and malformed, "
             "interleaved sub-packaged messages (packet 1 first, duplicates); the harness waits for the prescribed number of replies after each write so that read boundaries are deterministic; one long conversation of 1200 heartbeats (thorough: 66000, beyond the serial wrap). "
             "non-trivial = conversation with at least one reply."),
    "technique": "reply bodies of the general, registration and authentication responses proved byte for byte about BaseHandle/T0x0100/T0x0102.ReplyBody as TRANSLATED from the Go source on every run (C06Src) + Lean 4 proofs: reply logic (table regenerated from the running code, C01 round trip for the frame) + inductive invariants of a reader/channel/writer transition system over all interleavings; socket-level differential correspondence + reply oracle",
    "level_text": ("Machine-checked Lean 4 theorems: the id -> (answered?, reply id) table obtained from the running handlers equals the standard's; no reply and no serial for unregistered ids, responses and incomplete sub-packages; exactly one reply otherwise, "
                   "whose frame decodes (C01 round trip) to the reply id, the sender's BCD phone and version, the platform serial and the body; general / registration / authentication (result 1 exactly when the code differs; short 2019 bodies unanswered) / multimedia bodies; "
                   "replies in arrival order; the k-th frame carries serial (s+k) mod 65536 for every k. For the goroutine structure a transition system reader -> bounded FIFO -> writer is proved, for ALL interleavings, to report each message to the read callbacks once, before its reply, "
                   "to write replies in arrival order and to fire the write callback once after the socket write, and to have served everybody at quiescence. The reply model is compared byte for byte with a real server over a socket on every run; callbacks are checked by a recording eventer."),
    "level_note": "Trusted: Lean kernel; models of service/connection.go (writer side) and of the ReplyBody methods tied by socket-level correspondence; the pipeline transition system is a hand abstraction of the two goroutines (validated by the callback oracle, schedules sampled); harness. Outstanding platform commands are C12.",
    "trusted_base": _PARSE_TB + ["extractor replytable: reflection over service.createDefaultHandle through the add-only hook", "specification JT/Spec/Reply.lean",
                                  "the reader/writer transition system JT/Model/Pipe.lean abstracts goroutines and a Go channel (FIFO, blocking when full)"],
    "assumptions": ["default configuration (sub-packages filtered until complete), no platform command outstanding", "0x1003 and 0x1212: only existence, type, addressing, order and numbering of the reply are claimed",
                    "re-requests (0x8003) share the serial counter but leave through another channel: not part of these conversations"],
    "shrink": False,
}

PROPS["C09"] = {
    "confirm_reruns": True,
    "id": "C09",
    "lean_modules": ["JT.Props.C09"],
    "extractors": ["clones"],
    "functional_ops": ["stab"],
    "rule": ("`stab`: sessions of 2..8 frames (escape-free bodies of equal length, escape-dense bodies, sub-packaged messages) fed to a real packageParse through the reader's reused 1023-byte buffer one frame per read (fast path), in reads of <= 200 bytes and <= 1023 bytes (history buffer); "
             "every delivered *Message is kept, the address range of every delivered byte slice and every stored sub-package slot is compared with the read buffer and with the history array, and after all later reads and the teardown (buffers zeroed) every kept message is rendered again "
             "(id, phone, serial, package numbers, body, raw data, BCD phone via Header.Encode); `stabsock`: conversations of 6..25 frames against a real server whose callbacks keep the *Message / Message they were given (slow write callback so that the reader runs ahead) and look again after the connection is gone. "
             "non-trivial = session with at least two reads."),
    "technique": "Lean 4 proof over a region/slice memory model (owned allocations are stable under every later operation) with a regenerated source fact (every frame is bytes.Clone'd, go/ast) + address-range and content re-read checks on the real code",
    "level_text": ("Machine-checked Lean 4 theorems over a memory model of a connection (read buffer, history array, owned allocations; operations: read, history write, allocation, teardown): a slice of an owned allocation reads the same after ANY later sequence of operations; "
                   "the extractor-regenerated fact that packageParse.unpack hands only bytes.Clone'd frames to the decoder makes every delivered field owned, hence stable; the pre-repair provenance (views of the read buffer / history array) is refuted by concrete witnesses. "
                   "On the real code the harness checks on every run that no delivered byte slice and no stored sub-package slot overlaps the receive buffers (addresses) and that messages kept by callbacks still read the same after later traffic and teardown, in-process and over a socket. "
                   "Partial: which goroutine schedule the reader/writer take is sampled, not proved; 'replies are computed from the message's own bytes' is decided by C05/C06."),
    "level_note": "Trusted: Lean kernel; the memory model (Go slices as region+offset+length; bytes.Clone / bytes.Buffer as fresh allocations); the go/ast extractor; the hook exposing address ranges; harness. Partial on schedules.",
    "trusted_base": _PARSE_TB + ["extractor clones (go/ast over packageParse.unpack)", "memory model JT/Model/Mem.lean: Go slices as views (region, offset, length); the garbage collector keeps owned allocations alive"],
    "assumptions": ["callbacks do not modify the message themselves", "ReplyID / PlatformSerialNumber / declared body length of the shared header are stamped by the writer when it answers and are not message content"],
    "shrink": False,
}

_CODEC_TB = [KERNEL, AXIOMS, TRANSL, TIE, HARNESS,
             "extractor layouts (go/ast): (offset, width, struct field) tables of the Parse/Encode pairs of 12 fixed-layout types, regenerated into lean/JT/Gen/Layouts.lean on every run",
             "Go-side oracles written by the harness (harness/internal/props/codec_*.go): registry of 47 decoders, in-domain value generators, reflect-based structural comparison",
             "extractor paramtable (go/ast): per terminal-parameter ID the demanded length, the bytes of content read, the kind and the struct field, plus the declaration order of the struct fields, regenerated into lean/JT/Gen/ParamTable.lean on every run",
             "modelled rather than verified: Go slices as value lists with an explicit out-of-range outcome; BCD time strings as their raw BCD bytes; GBK text (golang.org/x/text) is not modelled (string contents are kept as raw bytes; the correspondence uses GBK-encodable text); the reflection walk of TerminalParamDetails.encode is modelled from the extracted field order and tied by correspondence only"]

PROPS["C03"] = {
    "id": "C03",
    "lean_modules": ["JT.Props.C03", "JT.Props.C03Src"],
    "extractors": ["layouts", "bittables", "addlen", "paramtable", "golean"],
    "functional_ops": ["tot"],
    "rule": ("for each of 47 decoders (35 message types x header version x active-safety dialect where it matters, 5 vendor extension parsers stand-alone and plugged into 0x0200, jt808 and jt1078 frame decoders): valid bodies from the C07 value generators, "
             "every count/length byte perturbed (0, 1, ff, +-1) at the first ~40 offsets, truncation at every offset, extension by 1..3 bytes, splices of two valid bodies, random bodies; every (additional-information id, length) and (terminal-parameter id, length) pair; "
             "each case decoded four ways on the Go side: fresh receiver + exact-capacity buffer, spare capacity poisoned with 00 and with ff, receiver that already parsed 0..3 other bodies (2 s watchdog); String() of every successful parse. non-trivial = class label (type:outcome[:reused])."),
    "technique": "Lean 4 proof of bounds safety for the modelled decoders (explicit out-of-range outcome; tables regenerated by go/ast) + four-way differential execution of all decoders on the Go side",
    "level_text": ("Machine-checked Lean 4 theorems, for every byte string: 42 of the 47 registered decoders are modelled with every slice/index going through a checked accessor that yields `panic` where Go would, and none has a panic outcome: "
                   "the twelve fixed-layout Parse methods (field tables regenerated from the source, tiling obligation checked by the kernel; they accept exactly the bodies of the layout's length); the location decoder (0x0200, items of 0x0704, 0x0801) with all additional-information item decoders "
                   "(admissible-length table regenerated from the source); the frame decoder (its checked-access version equals the total model: the length guards cover every access; and unescape, escape, CreateVerifyCode, Bcd2Dec and JTMessage.Decode as TRANSLATED from the Go source on every run are proved to return a value for every byte string — source_frame_functions_total); the attachment control frames 0x1210/0x1211/0x1212 for five dialects; "
                   "0x0002, 0x8104, 0x9003, 0x0102, 0x0100, 0x8100, 0x9101, 0x9201, 0x9206, 0x1205, 0x9205, 0x9202, 0x8801, 0x1005 and 0x9208 for every version/dialect; the vendor extensions 0x64, 0x65, 0x67, 0x70 (0x66, open finding F03, is proved to panic exactly on contents of 40 or 40+9n bytes). "
                   "terminal parameters (0x8103, 0x0104: the per-ID table of demanded length / bytes read is regenerated from parseParam's switch on every run, `param_table_safe` is checked by the kernel, and the walk never panics for any count byte and body). "
                   "In addition, on the code as TRANSLATED from the Go source on every run (JT/Gen/GoModel.lean; theorems of JT/Props/C03Src): 14 loop-free Parse methods (source_body_decoders_total), the four count-driven list decoders 0x8003/0x8800/0x0805/0x9212 (loop invariants), the five decoders that convert BCD timestamps with utils.BCD2Time translated and proved total (0x9201, 0x9202, 0x9205, 0x9206, 0x1005: source_time_decoders_total) and the active-safety decoders 0x1205 (32-bit count, 28-byte records), 0x1210 (alarm-sign block for five dialects, attachment-list loop) and 0x9208 (source_active_safety_decoders_total) return a value for every body and every receiver. "
                   "PARTIAL: the location report with a plugged-in vendor extension has no Lean model of the composition; receiver state and memory behind a slice are not expressible in the value model. For ALL 47 decoders the Go side decides the property by differential execution on every run: "
                   "no panic, no hang, same outcome and same value with and without spare capacity (two poisons) and with a reused receiver, String() total. Modelled decoders are additionally compared outcome-by-outcome with the Lean model (about 58 000 bodies per quick run)."),
    "level_note": "Trusted: Lean kernel; extractors; the Go-side four-way oracle and its generators; memory behind a slice and receiver state are not expressible in the value model (decided by execution only). Open finding F03 (extension 0x66) is excluded by signature.",
    "trusted_base": _CODEC_TB,
    "assumptions": ["the 7 decoder configurations without a Lean model are decided by the Go-side oracle only (sampled)", "String() totality is observed, not proved", "T0x0100.Parse: the protocol version is one the header decoder produces (2011/2013/2019)"],
    "shrink": True,
}

PROPS["C07"] = {
    "id": "C07",
    "lean_modules": ["JT.Props.C07", "JT.Props.C07Src", "JT.Props.C16Src", "JT.Props.C14Src"],
    "extractors": ["layouts", "paramtable", "golean"],
    "functional_ops": ["rt"],
    "rule": ("for each of the ~33 two-way message types x protocol version (2011/2013/2019 where layouts differ) x active-safety dialect: in-domain values generated as Go structs (fixed-width strings without NUL, BCD times, GBK-encodable text incl. Chinese, count/length fields consistent, "
             "list lengths 0..max, every terminal-parameter id alone and in groups, zero-length strings), encoded with the library; oracle: Parse(body) succeeds, Encode gives the identical bytes, re-parse equals, value equals the generated one field by field; helper round trips (Bcd2Dec, Time2BCD/BCD2Time, GBK, String2FillingBytes). "
             "non-trivial = every case (each is a distinct in-domain value)."),
    "technique": "Lean 4 proof of both round-trip directions for fixed layouts (tables regenerated by go/ast), big-endian numbers of any width and counted-list bodies + differential correspondence + Go-side value round-trip oracle for all two-way types",
    "level_text": ("Machine-checked Lean 4 theorems: for the twelve fixed-layout types (offset/width/field tables regenerated from the Go Parse AND Encode methods, equality and tiling checked by the kernel on every run) Encode(Parse b) = b on every accepted body and Parse(Encode v) = v for every value; "
                   "numbers of any width survive PutUint/Uint and every w-byte string is the encoding of its number; 0x8003 and 0x9212 round-trip at struct level (every range at its own 8-byte position); "
                   "seven more types at the value level — 0x8100, 0x9101, 0x9201, 0x9206 (length-prefixed strings), 0x1205 (list of 28-byte records), 0x9102, 0x9207 — with Parse(Encode v) = v for every well-formed value and Encode(Parse b) = b for every accepted body whose BCD time fields hold no nibble 0xA "
                   "(such bytes are not BCD timestamps; BCD2Time renders 0xA as ':' which Time2BCD strips — the unconditional law is refuted by a kernel-checked counterexample and the condition is exact). "
                   "terminal parameters (0x8103/0x0104), for every parameter ID of the table regenerated from the source: any list of well-framed items parses back to itself and an accepted list is exactly the concatenation of the items returned (nothing dropped, merged, reordered; count byte = number of items mod 256), the reflection walk of encode() being modelled from the extracted field order and compared byte for byte. "
                   "PARTIAL: the other two-way types (GBK text, NUL-trimmed strings, 0x0100, 0x0102, 0x9208, 0x1210 ...) have no Lean model and are decided by the Go-side oracle on generated in-domain values on every run; modelled types are also compared byte for byte with the model."),
    "level_note": "Trusted: Lean kernel; extractor; Go-side generators of in-domain values and reflect-based comparison; GBK conversion (golang.org/x/text) and BCD time strings have no Lean model. Open finding F13 (parameters 0x18/0x19/0x21) is excluded by signature.",
    "trusted_base": _CODEC_TB,
    "assumptions": ["'in-domain' is what the harness generators produce (documented per type in codec_gen.go)", "types without a Lean model are decided by the Go-side oracle only (sampled)"],
    "shrink": False,
}

_SOCK_TB = [KERNEL, AXIOMS, HARNESS,
            "server subprocess harness/cmd/sysd (real service / attachment servers with recording callbacks) and the TCP client helpers harness/internal/sock",
            "the transition system lean/JT/Model/Act.lean is a hand abstraction of goroutines, Go channels (blocking when full, only stopChan is ever closed), sync.Once and the single session-manager goroutine; it is tied to the code by executing scripted scenarios on both (outcomes must be equal) — schedules of the real goroutines are sampled, not enumerated",
            "wall-clock bounds (timeout plus slack) are tested, not proved"]

PROPS["C12"] = {
    "confirm_reruns": True,
    "id": "C12",
    "lean_modules": ["JT.Props.C12"],
    "extractors": ["concshape"],
    "functional_ops": [],
    "rule": ("scripted scenarios against a real server subprocess over sockets, every action awaited: terminal joins, 1..8 SendActiveMessage calls (0x8103) with short (150 ms) or long (8 s) timeouts, at most 3 outstanding, the terminal answers them in any order "
             "(0x0001 echoing the platform serial it read from the command frame), sends responses echoing a serial nobody waits for, duplicate responses, heartbeats in between, 450 ms pauses (short timeouts fire); every scenario ends with the terminal going away. "
             "11 fixed scripts + random well-formed scripts. Result per call: resp / timeout / fail / noexist. non-trivial = at least one call."),
    "technique": "Lean 4 proof of inductive invariants of a goroutine/channel transition system (all interleavings, arbitrary terminal behaviour) + scripted socket scenarios executed on the real server and on the model",
    "level_text": ("Machine-checked Lean 4 theorems over a transition system of callers, session manager, writer, timeout goroutines, reader teardown and a terminal that may echo ANY serial at any time, for all interleavings: a call's result, once delivered, is never replaced (exactly one result); "
                   "a response result carries exactly the serial that very request was stamped with; two requests never share a serial; a recorded request sits under its own serial; a command for an offline key can only be answered not-exist. "
                   "The same scripts are run on the real server over sockets and through the model (outcomes compared), and the harness checks directly that each caller got the response echoing its own command's serial, that short timeouts return in time and that ordinary traffic is still answered. "
                   "Partial: the model abstracts the goroutines by hand and real schedules are sampled."),
    "level_note": "Trusted: Lean kernel; hand abstraction of the goroutine structure (Model/Act.lean) tied by scenario correspondence; sysd/sock harness. Serial re-use within one timeout (65 536 commands) is outside the model.",
    "trusted_base": _SOCK_TB,
    "assumptions": ["a 16-bit platform serial is not re-used while its command is pending", "responses are 0x0001 general responses (the per-type serial extraction of 0x0104/0x0805/0x1205/0x1206 is exercised by C03/C07 parsers only)"],
    "shrink": False,
}

PROPS["C13"] = {
    "confirm_reruns": True,
    "id": "C13",
    "lean_modules": ["JT.Props.C13"],
    "extractors": ["concshape"],
    "functional_ops": [],
    "rule": ("the C12 script language plus `X` (the terminal closes) at any point: before any command, with 1..3 commands queued or outstanding, after timeouts, followed by new commands (offline key) and by a reconnect; 18 fixed scripts + random ones; "
             "`actstress`: 2..6 terminals x 1..8 concurrent callers with 100..300 ms timeouts, terminals answering always / sometimes / never and closing or RESETTING after 0..250 ms: every call must return within 3 s, the server process must stay up and a new terminal must be served afterwards. "
             "non-trivial = scenario with a disconnect or a stress run."),
    "technique": "Lean 4 proof (same transition system as C12): no stranded caller at quiescence, nothing left behind a dead writer, writer never blocked; fault-injection socket scenarios on the real server + model correspondence",
    "level_text": ("Machine-checked Lean 4 theorems, for all interleavings of the peer disconnecting, commands being queued/written, responses arriving and timeouts firing: in every reachable state in which the server has nothing left to do, every SendActiveMessage call made so far has returned; "
                   "after the writer has exited nothing is queued for it or recorded by it and the key is unregistered (only stopChan is ever closed, so there is no send on a closed channel); the writer is never blocked on its own channels. "
                   "The design proved is the one implemented by the D17/D18 repair. Scripted disconnect scenarios run on the real server and on the model (equal outcomes); randomized concurrent stress with closes and resets checks that the process survives and every call returns. "
                   "Partial: 'within its timeout plus scheduling slack' is wall-clock and only tested; real goroutine schedules are sampled."),
    "level_note": "Trusted: Lean kernel; hand abstraction of the goroutine structure tied by scenario correspondence; sysd/sock harness; timing slack constants (3 s).",
    "trusted_base": _SOCK_TB,
    "assumptions": ["liveness is stated as a safety property of quiescent states", "socket-write errors are modelled as an alternative outcome of the writer step"],
    "shrink": False,
}

PROPS["C11"] = {
    "confirm_reruns": True,
    "id": "C11",
    "lean_modules": ["JT.Props.C11"],
    "extractors": ["concshape"],
    "functional_ops": [],
    "rule": ("scripted histories against a real server subprocess, every action awaited so that the linearisation is known: up to 6 connections over 3 keys connect and send a first message (join), present keys that are online (duplicates), close, reconnect; "
             "platform commands are sent to online and offline keys and the harness observes WHICH connection receives the command frame; the join/leave callbacks reported by the server are checked for pairing. 5 fixed histories (incl. the one of the property text) + random ones. "
             "non-trivial = history with a refused duplicate, a not-exist or a routed command."),
    "technique": "Lean 4 proof of a registry/connection life-cycle model over all operation histories (consistency invariant, pairing of join/leave announcements) + scripted socket histories executed on the real server and on the model",
    "level_text": ("Machine-checked Lean 4 theorems over ALL histories of atomic registry operations (every interleaving of connections and callers yields such a history because one manager goroutine runs them): the registry and the live connections stay consistent "
                   "(a key's owner is a live connection that joined with it; every live joined connection owns its key; hence at most one per key); a duplicate is refused and changes nothing for the owner; ending a connection frees exactly its own key (nothing if it never joined); "
                   "a freed key can be taken again; commands go to the current owner and an offline key gives not-exist without any state change; per connection at most one join announcement and at most one leave announcement, the latter with the key it joined with. "
                   "The same histories run on the real server over sockets and through the model (outcomes compared, callbacks checked). Partial: atomicity of manager operations is assumed by the model and validated by these runs; concurrent schedules are sampled (C13 stress)."),
    "level_note": "Trusted: Lean kernel; the atomicity assumption (single session-manager goroutine); sysd/sock harness; default key function (phone number).",
    "trusted_base": _SOCK_TB + ["model lean/JT/Model/Registry.lean assumes registry operations are atomic and ordered by the manager goroutine"],
    "assumptions": ["default KeyFunc (terminal phone number, never empty)", "registry operations are atomic"],
    "shrink": False,
}

PROPS["C15"] = {
    "confirm_reruns": True,
    "id": "C15",
    "lean_modules": ["JT.Props.C15", "JT.Props.C16", "JT.Props.C10", "JT.Props.C10Src"],
    "extractors": ["golean"],
    "functional_ops": ["att"],
    "rule": ("upload sessions against a real attachment server subprocess (default handlers; scratch working directory), for each of the five active-safety dialects (HLJ with its length-prefixed chunk header): 1..3 files "
             "(sizes 1 B .. 70 kB; names: plain, containing the chunk marker 30316364, random bytes; content with embedded markers; alarm ids containing '01cd'), each file split into a random partition (chunk lengths 1..65536), "
             "chunks in random order; modes: all arrive / some withheld, 0x1212, resent, 0x1212 / duplicates (incl. after completion) / withheld for good; 0x1212 before any chunk; the whole byte stream written in one piece or cut "
             "into random writes of 1..5000 bytes. Observed: the reply frames read by the client and the server's final per-file record (complete flag, length and SHA-256 of the reassembled body). "
             "non-trivial = every scenario (each has at least 3 control frames)."),
    "technique": "Lean 4 proof about a model of the per-file bookkeeping (CurrentSize/offset map/ordered assembly) and the session reply function, for all tilings, arrival orders and resends + socket scenarios on the real server compared with the model and with a brute-force oracle",
    "level_text": ("Machine-checked Lean 4 theorems: for EVERY file size and content, EVERY split of the file into pieces (any number, any sizes >= 1) and EVERY arrival sequence over those pieces (any order, any repetitions): CurrentSize equals the number of distinct bytes received, "
                   "the record is complete iff every piece has arrived, the assembled body is then byte-identical to the original, further resends change neither; every control frame is answered exactly once and chunks never; the 0x1212 answer is the exact missing-range list (C16 theorems). "
                   "Over the model of the connection loop (JT/Model/AttStream.lean: classification of the buffered bytes into chunks and control frames, chunk headers of all dialects, the three control-frame parsers): for EVERY byte stream and EVERY partition into reads the events handed to the file handler and the final verdict equal those of the stream arriving in one read "
                   "(prefix stability of each processing round, induction over the reads) — a control frame is recognised and answered wherever the read boundaries fall. "
                   "Partial: that the two models are the code is the sampled correspondence (upload sessions on the real server for five dialects with random write partitions and marker-bearing names/ids/content; stage sequences of valid and mutated streams)."),
    "level_note": "Trusted: Lean kernel; models (per-file bookkeeping, connection loop) tied by sampled socket scenarios; sysd/sock harness.",
    "trusted_base": [KERNEL, AXIOMS, HARNESS, _SOCK_TB[3], "model lean/JT/Model/Attach.lean: offset map as a function, chunks lie inside the file; pieces come from a partition of the file (the property's 'any split'); overlapping chunks at different offsets are outside the model and the property"],
    "assumptions": ["chunks are pieces of one partition of the file (resends repeat a piece exactly)", "file names are distinct and non-empty; sizes >= 1"],
    "shrink": False,
}

PROPS["C19"] = {
    "confirm_reruns": True,
    "id": "C19",
    "lean_modules": ["JT.Props.C19"],
    "extractors": ["saveguard"],
    "functional_ops": ["confine"],
    "rule": ("sessions against a real attachment server subprocess with the library's default file handler, working directory <root>/w1/w2/w3/w4/cwd in a scratch tree: every name of a hostile catalogue alone "
             "(parent components up to 10 levels, absolute paths, '.', '..', '/', '//', trailing slash, NUL bytes, 255-byte names, backslashes, percent-encoding, the handler's own file.log, non-UTF-8), then 1..4 names per session drawn from the catalogue, "
             "random strings over a path alphabet, random '/'-joined component soups and random bytes; phones: ordinary, all zeros, leading zeros, hex nibbles, random; with and without uploading the files; five dialects. "
             "Observed: the complete tree under <root> after the session plus Lstat probes of the locations the raw names would resolve to above <root> / absolutely. non-trivial = session in which something was stored or a name was rejected."),
    "technique": "Lean 4 proof about the name guard REGENERATED from attachment/file_event.go by a go/ast translator, a model of filepath.Base, Bcd2Dec and lexical path resolution + socket sessions on the real server with the default file handler compared with the model and a confinement oracle on the scratch tree",
    "level_text": ("Machine-checked Lean 4 theorems over the guard expression translated from the current source on every run: for EVERY announced name (any bytes, any length), EVERY phone field and EVERY working directory, a name that is not skipped makes "
                   "\"./<phone>/<name>\" resolve to an entry directly inside <cwd>/<phone> (or, for the name '/', to that directory itself, where the write fails); names with a directory part, '.', '..' and the empty name are skipped; the phone string is a non-empty string of hex digits. "
                   "Source facts (path format, WriteFile/MkdirAll arguments, the complete list of file-creating calls of the package) are extracted and checked by `decide`. Partial: path resolution is a lexical model without symbolic links (the server creates none); "
                   "the operating system's behaviour is tied by executing the real handler in a scratch tree on every run."),
    "level_note": "Trusted: Lean kernel; saveguard translator (small expression grammar; unknown constructs fail an obligation); lexical path model (no symlinks); sysd/sock harness.",
    "trusted_base": [KERNEL, AXIOMS, HARNESS, _SOCK_TB[3],
                     "translator harness/cmd/extract/saveguard.go: Go boolean expression over the loop variable, string literals, filepath.Base, strings.Contains/HasPrefix/HasSuffix, filepath.IsAbs -> Lean; anything else is listed in `untranslated`, which a theorem requires to be empty",
                     "modelled rather than verified: filepath.Base (Unix), utils.Bcd2Dec, fmt.Sprintf(\"./%s/%s\"), kernel path resolution as a lexical walk without symbolic links, NAME_MAX 255, NUL rejection"],
    "assumptions": ["no symbolic links inside the working directory (the server creates none)", "Unix path semantics ('/' is the only separator)", "the phone field of the header is not empty (6 or 10 BCD bytes)"],
    "shrink": False,
}

PROPS["C20"] = {
    "confirm_reruns": True,
    "id": "C20",
    "lean_modules": ["JT.Props.C20", "JT.Props.C01", "JT.Props.C20Src"],
    "extractors": ["termdefaults", "replytable", "golean"],
    "functional_ops": ["tgen", "texp"],
    "rule": ("in-process: terminal.New(WithHeader(version, phone)) for versions 2011/2013/2019; EXHAUSTIVELY every default command (24) of every version alone and all in one sequence; serial wrap (65533..2); random decimal phones of 1..12 (2019: 1..20) digits incl. leading zeros, "
             "every two-digit phone for both layouts; sequences of 1..4 commands mixing default bodies with custom bodies of 0..1023 bytes (escape-dense ones, random command IDs) after 0..65534 earlier frames; "
             "ExpectedReply for every command the server answers (derived from the server's default table) x versions x platform serials {0,2,65535,random}. Oracle: the real decoder accepts every frame with that ID, phone, layout, next serial; default bodies parse with "
             "the matching type and re-encode identically; ExpectedReply(seq<=3) equals the frame a live server sends on a connection that has answered seq frames before. non-trivial = every case."),
    "technique": "Lean 4 proof about Terminal.CreateCommandData as TRANSLATED from the Go source on every run, composed with the translated Header.Encode / JTMessage.Decode (source_command_decodes, source_serials_consecutive), and about a model of WithHeader/CreateCommandData on top of the C01 codec theorems, with the simulator's default table and the server's reply table regenerated by execution + differential correspondence (frames, ExpectedReply vs the reply model of C06) + live-server oracle",
    "level_text": ("Machine-checked Lean 4 theorems: for EVERY decimal phone of at most 12 (2019: 20) digits, every command ID, every custom body of 0..1023 bytes and every simulator state, the generated frame decodes with that ID, the BCD of the zero-padded phone, the version's header layout, "
                   "the next serial (mod 2^16), no fragmentation and the identical body; serials of a command sequence are consecutive; the decoded phone string is the given one without leading zeros; the hand-assembled 2011/2013 template frame of WithHeader (manual checksum escape) decodes for every phone; "
                   "every default body fits a frame and the simulator's and the server's reply IDs agree (tables regenerated on every run, kernel-evaluated). "
                   "Partial: parse/re-encode of the 24x3 default bodies (a finite table, run exhaustively on the real code) and equality of ExpectedReply with the live server's reply are decided by execution, the latter also against the reply model proved in C06."),
    "level_note": "Trusted: Lean kernel; hand model of WithHeader tied by sampled correspondence; termdefaults/replytable extractors (in-process execution through add-only hooks); harness.",
    "trusted_base": [KERNEL, AXIOMS, TIE, HARNESS,
                     "add-only hooks /verif/hooks/terminal/hooks.go and /verif/hooks/service/hooks.go (expose the default tables)",
                     "modelled rather than verified: fmt.Sprintf(\"%012s\") zero padding, strings.Replace into the template, hex.DecodeString; for 2019 WithHeader keeps the header that Decode filled in before reporting a length inconsistency (the template has one surplus byte) — modelled as the resulting header"],
    "assumptions": ["phones are decimal digit strings of at most 12 (2019: 20) digits", "custom bodies are at most 1023 bytes, command IDs 1..65535"],
    "shrink": False,
}

PROPS["C10"] = {
    "confirm_reruns": True,
    "id": "C10",
    "lean_modules": ["JT.Props.C10", "JT.Props.C03", "JT.Props.C05", "JT.Props.C02", "JT.Props.C10Src"],
    "extractors": ["golean"],
    "functional_ops": ["hostile"],
    "rule": ("real server subprocesses: the attachment server (five dialects, default file handler, scratch cwd), the JT808 server with default handlers and with README-style handlers that Parse+String every body. "
             "astream: hand-made adversarial attachment streams (connect-and-close, lone delimiter/marker, chunk before announcement, 0x1212 before any chunk, impossible chunk lengths/offsets, empty chunk, unknown file, 255-byte names, empty/short/garbage control bodies, "
             "foreign IDs, re-announcement, ends mid-file/mid-header/mid-frame, HLJ name length 255), valid upload sessions, 8 kinds of mutation of them (bit flips, truncation, dropped/duplicated/reordered pieces, extreme 4-byte fields, inserted garbage, special bytes), "
             "every stream cut into random writes; the stage sequence seen by the server's file handler and the end status are compared with the Lean model. "
             "hostile: the same streams plus, for the JT808 server, fragment attacks (package number 0, beyond the total, total 0/65535), every supported ID with bodies of 0..1023 random bytes, 2019 layout, unknown IDs, mutated random conversations; "
             "each x a way to end (close, reset, half-close, stay open) with a witness session established BEFORE the hostile client: afterwards the witness must be served correctly (heartbeat answered with the right serial / upload completes byte-exactly reported), "
             "a NEW connection must be accepted and served, the process must be alive. non-trivial = every case."),
    "technique": "Lean 4 proof that no byte stream makes the modelled connection loops reach an out-of-range access or nil dereference (checked accessors with an explicit panic outcome; induction over reads and rounds) + the model executed against the real attachment server + hostile streams x close points with witness sessions on both real servers",
    "level_text": ("Machine-checked Lean 4 theorems: for EVERY byte stream, EVERY partition into reads and every dialect the attachment connection loop (classification chunk/control frame, chunk headers incl. the length-prefixed HLJ one, 0x1210/0x1211/0x1212 parsers, record bookkeeping) "
                   "never reaches an out-of-range slice/index, always hands the default file handler an event whose dereferenced fields are present, consumes bytes in every round (the loop terminates; the fuel of the model is never the limit), and at worst fails the session; "
                   "for the JT808 server packageParse.parse (frame extraction, decoder, sub-package bookkeeping incl. package number 0 and numbers beyond the total, re-request tick) has no panic outcome from any state on any read, over any sequence of reads; the modelled body decoders have none on any body (C03). "
                   "Partial: the models cover the byte-level logic; Go runtime behaviour (goroutines, socket errors, resets, memory growth when a peer announces a huge chunk and never sends it — the server buffers without bound, see DESIGN.md) and the un-modelled body decoders are covered by execution against the real servers with witness sessions on every run."),
    "level_note": "Trusted: Lean kernel; hand models with checked accessors tied by sampled socket runs (stage sequences equal on every run); sysd/sock harness; witness oracle.",
    "trusted_base": [KERNEL, AXIOMS, HARNESS, _SOCK_TB[3],
                     "models lean/JT/Model/AttStream.lean (attachment connection loop, control-frame parsers, what fileEvent.OnEvent dereferences) and lean/JT/Model/Parse.lean: every slice/index/dereference goes through an accessor that yields `panic` where Go would",
                     "not modelled: goroutine scheduling, net.Conn errors, time-outs, memory exhaustion, handlers' String() methods, decoders without a Lean model (executed with -parse-all instead)"],
    "assumptions": ["a panic can only arise from an out-of-range slice/index or nil dereference in the modelled code (no explicit panic calls, no integer division, no type assertions in these paths)", "64-bit int: header length + uint32 chunk length does not overflow"],
    "shrink": False,
}

PROPS["C18"] = {
    "id": "C18",
    "lean_modules": ["JT.Props.C18", "JT.Props.C06"],
    "extractors": ["fieldaccess"],
    "race_server": True,
    "functional_ops": ["race"],
    "rule": ("a server subprocess built with Go's race detector (GORACE halt_on_error=0, reports collected from its log), three variants (default handlers; 1 ms slow write callback; README-style parse-all handlers); "
             "12 (thorough: 16) client workers in parallel, 12 (60) rounds each, every round one connection with a random mix of: bursts of heartbeats/location reports, sub-packaged transfers (complete and incomplete), platform commands issued by caller goroutines with time-outs "
             "30 ms..3 s, answers to the command frames that arrived, answers nobody waits for, pauses; 10% of the rounds use a neighbour's phone (duplicate key refused); the round ends by close, reset, a frame that fails to parse while replies are in flight, or a delayed close. "
             "non-trivial = every run (thousands of frames and hundreds of commands per run)."),
    "technique": "Lean 4 proof of two race-exclusion disciplines — the field-access partition of `connection` REGENERATED from the source by a go/ast extractor (kernel-evaluated), and single ownership of every *Message over all interleavings of the reader/channel/writer transition system — + execution of concurrent scenario sets under Go's race detector",
    "level_text": ("Machine-checked Lean 4 theorems: (1) over the table of field accesses per goroutine role regenerated from service/*.go on every run: no field of `connection` is written by one role and touched by another, timer goroutines write nothing, hence any two conflicting accesses are made by one goroutine; "
                   "the reader never mentions a message after sending it into a channel; (2) over ALL interleavings of the reader/msgChan/writer transition system (any capacity): while the reader holds a message it is neither queued nor with the writer and the writer has not touched it; once the writer has touched it the reader no longer holds it and all reader accesses are in the past. "
                   "Partial: that these abstractions cover every memory access of the compiled program (callbacks, session manager, header sharing, the runtime) is NOT proved; it is decided by running the concurrent scenario sets under the race detector on every run — a dynamic observation, as the property's own observation point prescribes."),
    "level_note": "Trusted: Lean kernel; fieldaccess extractor (roles = reader/write/go-func literals; what counts as a write); Go's race detector for the executed schedules; harness.",
    "trusted_base": [KERNEL, AXIOMS, HARNESS, _SOCK_TB[3],
                     "extractor harness/cmd/extract/fieldaccess.go: methods reachable from reader()/write() through c.<method>() calls, `go func` literals as timer role; writes = assignment / ++ / delete / clear / address-of; channel operations and method calls on a field value are reads of the field",
                     "Go race detector (happens-before over the schedules that actually ran; not a proof of absence)",
                     "not modelled: user callbacks, session-manager internals, the shared *Header between the registry and the first message (exercised by the detector runs only)"],
    "assumptions": ["reader and writer are one goroutine each per connection (Start)", "channels, sync.Once and net.Conn are safe for concurrent use"],
    "shrink": False,
}


# generator families and scenarios added in rounds 5 and 6 (DESIGN §9)
_ADD_RULE = {
    "C02": " Also: the escape introducer followed by every second byte other than 01/02 with the checksum made consistent with what a lenient decoder would substitute.",
    "C03": " Also: history bodies received under each OTHER header version on one receiver; 32-bit count fields announcing 2^32/g + k records with k present.",
    "C05": " Also: restarted transfers (same ID and total, new content) whose packets arrive in any order, and late duplicates of a finished transfer.",
    "C06": " Every third conversation ends in the middle of a frame (what one connection leaves unfinished must not reach later connections).",
    "C07": " GBK helpers: a returned buffer is held while another text is converted and compared afterwards.",
    "C08": " Also: every item ID 0..255 between standard items; well-known 16-bit marker values at the first offsets of the location block / payload for every media type x format of 0x0801 and at the head of 0x0200 / 0x0704 items.",
    "C11": " Also: regscale — 1100 terminals online at once, 900 leave; routing to a remaining one, refusal of a duplicate, re-join of one that left. regblock — a terminal joins while the manager is busy for 4.5 s, leaves; its key must be free afterwards. Shape facts managerReplyAwaited / managerTableCreatedOnce read off the source.",
    "C12": " Also: 0x8104 answered by 0x0104 (six parameter-list shapes), 0x9003 answered by 0x1003, responses sent back to back against a slow write callback (Q), oracles active/response-lost and active/reply-to-a-response.",
    "C13": " Also: s<n> bursts of 150 ms commands to a silent terminal (more time-outs due at once than the completion queue holds), w<ms> scripts with a write callback that takes seconds (late time-out answers), oracle active/timeout-not-delivered.",
    "C14": " Also: rereqcmd — transfers whose first packet is the connection's first message, a platform command issued and never answered while they are pending, 5.2 s of silence.",
    "C16": " Also: 2-3 files announced by one 0x1210 with the same tiling and different missing chunks.",
    "C17": " rtpseq uses one Packet the way a stream reader does: prefixes of the stream are decoded first, only the last pass over the whole stream is reported.",
}
for _k, _v in _ADD_RULE.items():
    PROPS[_k]["rule"] = PROPS[_k]["rule"] + _v


# theorems about translated source added in this session (DESIGN §4.2a)
_ADD_TECH = {
    "C05": " The delivery filter (*Message).hasComplete is translated from the source on every run and proved equal to the model's isComplete (C05Src).",
    "C10": " On the translated source (C10Src): T0x1210.Parse (first frame of every upload connection) with the alarm-sign block parser and the attachment-list loop is total for every body and dialect; the control-frame splitter (*PackageProgress).parseJT808Message never panics and consumes exactly one delimited candidate.",
    "C07": " On the translated source (C07Src): encoders of 0x9201/0x9202/0x9205/0x9206/0x1005/0x9208/0x1210 and the alarm-sign block total (Time2BCD total for every string), round trips of eight fixed layouts, 0x0800, 0x1211, 0x8003, 0x9212.",
    "C14": " C14Src: the bytes the translated P0x8003.Encode writes are the model's body8003.",
}
for _k, _v in _ADD_TECH.items():
    PROPS[_k]["technique"] = PROPS[_k]["technique"] + _v

# properties that are not claimed, with the reason (anything not listed and not in PROPS gets a generic "not built yet")
NOT_APPLICABLE = {}
