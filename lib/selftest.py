#!/usr/bin/env python3
"""Applies every seeded change under /verif/seeded/*/patch.diff to /repo in turn, runs the quick checks named in
its meta.json ("props"), expects exit 1 + a VIOLATION line from at least one of them, and restores /repo.
usage: selftest.py [name-substring ...]      (never run concurrently with other checks: it edits /repo's working tree)"""
import json, os, subprocess, sys, glob, time
ROOT = os.path.dirname(os.path.dirname(os.path.abspath(__file__)))
REPO = os.environ.get("VERIF_REPO", "/repo")
res = []
names = sys.argv[1:]
# evidence files describe the unchanged tree: keep them as they are (the runs below overwrite them)
saved = {f: open(f, "rb").read() for f in glob.glob(ROOT + "/evidence/*.json")}
import atexit
atexit.register(lambda: subprocess.run([ROOT + "/check", "--extract"], cwd=ROOT, capture_output=True))  # generated files back to the clean tree
def _restore():
    for f, b in saved.items():
        open(f, "wb").write(b)
atexit.register(_restore)
for d in sorted(glob.glob(ROOT + "/seeded/*/")):
    name = os.path.basename(d.rstrip("/"))
    if names and not any(n in name for n in names):
        continue
    meta = json.load(open(d + "meta.json")) if os.path.exists(d + "meta.json") else {}
    props = meta.get("props") or []
    if not props:
        print(name, "no props listed, skipped"); continue
    assert subprocess.run(["git", "-C", REPO, "status", "--porcelain"], capture_output=True, text=True).stdout.strip() == "", "/repo not clean"
    r = subprocess.run(["git", "-C", REPO, "apply", d + "patch.diff"], capture_output=True, text=True)
    if r.returncode != 0:
        print(name, "PATCH DOES NOT APPLY", r.stderr[:200]); res.append((name, "no-apply")); continue
    caught = []
    try:
        for p in props:
            t0 = time.time()
            q = subprocess.run([ROOT + "/check", p, "--tier", "quick"], cwd=ROOT, capture_output=True, text=True)
            v = [l for l in q.stdout.splitlines() if l.startswith("VIOLATION")]
            caught.append((p, q.returncode, len(v), round(time.time() - t0)))
    finally:
        subprocess.run(["git", "-C", REPO, "checkout", "--", "."])
        subprocess.run(["git", "-C", REPO, "clean", "-fdq"])
    ok = any(rc == 1 and nv > 0 for _, rc, nv, _ in caught)
    print(name, "CAUGHT" if ok else "MISSED", caught, flush=True)
    try:
        rp = ROOT + "/seeded/results.json"
        allr = json.load(open(rp)) if os.path.exists(rp) else {}
        allr[name] = {"status": "caught" if ok else "missed", "checks": caught}
        json.dump(allr, open(rp, "w"), indent=1, sort_keys=True)
    except Exception as e:
        print("cannot record result:", e)
    res.append((name, "caught" if ok else "missed"))
print("summary:", {k: sum(1 for _, s in res if s == k) for k in ("caught", "missed", "no-apply")})
