#!/bin/bash
# usage: sweep.sh <tier> <seed>...   — runs every claimed check with each seed on the tree at $VERIF_REPO (default /repo);
# prints one line per run and the VIOLATION / KNOWN-FINDING lines. For false-alarm hunting on the unchanged tree.
tier=$1; shift
cd "$(dirname "$0")/.."
for seed in "$@"; do
  for p in C01 C02 C03 C04 C05 C06 C07 C08 C09 C10 C11 C12 C13 C14 C15 C16 C17 C18 C19 C20; do
    out=$(VERIF_SEED=$seed ./check $p --tier $tier 2>&1); rc=$?
    echo "$(echo "$out" | tail -1) rc=$rc"
    echo "$out" | grep "^VIOLATION" | head -3
  done
done
