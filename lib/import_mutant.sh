#!/bin/bash
# usage: import_mutant.sh <PROP> <k>   — confirms a sub-agent's change in its scratch worktree /tmp/wt-<PROP> and stores it under /verif/seeded/mut-<PROP>-<k>/
export GOFLAGS=-mod=mod GOPROXY=off GOSUMDB=off GOTOOLCHAIN=local
P=$1; K=$2; WT=/tmp/wt-$P; OUT=/tmp/wt-$P-out; D=/verif/seeded/mut-$P-$K
[ -f $OUT/patch$K.diff ] || { echo "$P-$K: no patch"; exit 1; }
git -C $WT checkout -q -- . ; git -C $WT clean -fdq
git -C $WT apply $OUT/patch$K.diff || { echo "$P-$K: patch does not apply"; exit 1; }
for m in attachment protocol service shared terminal; do (cd $WT/$m && go build ./... ) || { echo "$P-$K: build fails in $m"; git -C $WT checkout -q -- .; exit 1; }; done
base=$(/verif/baseline.sh $WT | tail -1)
demo_with=$(cd $OUT/demo$K && if [ -f run.sh ]; then timeout 900 sh run.sh 2>&1; elif ls *_test.go >/dev/null 2>&1; then timeout 900 go test -count=1 ./... 2>&1; else timeout 900 go run . 2>&1; fi; echo "exit=$?")
git -C $WT checkout -q -- . ; git -C $WT clean -fdq
demo_without=$(cd $OUT/demo$K && if [ -f run.sh ]; then timeout 900 sh run.sh 2>&1; elif ls *_test.go >/dev/null 2>&1; then timeout 900 go test -count=1 ./... 2>&1; else timeout 900 go run . 2>&1; fi; echo "exit=$?")
mkdir -p $D
cp $OUT/patch$K.diff $D/patch.diff
rm -rf $D/demo; cp -r $OUT/demo$K $D/demo
cp $OUT/notes$K.json $D/notes.json 2>/dev/null
echo "$demo_with" | tail -40 > $D/demo/confirmed_with_patch.txt
echo "$demo_without" | tail -40 > $D/demo/confirmed_without_patch.txt
echo "$P-$K: suite[$base] with[$(echo "$demo_with" | tail -1)] without[$(echo "$demo_without" | tail -1)]"
