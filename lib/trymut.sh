#!/bin/bash
# usage: trymut.sh <seeded-name> <PROP>...  — applies a seeded change to /repo, runs the quick checks, restores /repo (evidence restored too)
cd /verif; n=$1; shift
git -C /repo apply /verif/seeded/$n/patch.diff || exit 2
for p in "$@"; do ./check $p --tier quick 2>&1 | grep -E "VIOLATION|quick seed" | cut -c1-330 | head -4; done
git -C /repo checkout -- .; git -C /repo clean -fdq; git -C /verif checkout -- evidence
./check --extract >/dev/null 2>&1   # generated files back to the clean tree
