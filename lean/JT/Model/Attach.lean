import JT.Basic.Bytes
import JT.Model.Miss
/-!
# Attachment upload: per-file bookkeeping of `attachment.PackageProgress.stageStreamData`

One announced file: `size` (from 0x1210), `cur` (`CurrentSize`), and the chunks received so far keyed by
offset (`OffsetDataRecord` / `OffsetRecord`: Go maps, so a chunk that arrives again at the same offset
replaces the earlier one) — here a function `offset ↦ data`. After the D20 repair a replaced chunk's length
is taken off `cur` before the new length is added. The file is complete when `cur = size`; its body is then
the chunks concatenated in ascending offset order (`sort.Ints(keys)`): here, a walk over the offsets
`0 … size` (chunks of a file lie inside the file; offsets beyond `size` are outside the model).
-/
namespace JT.Attach
open JT

structure FileRec where
  size : Nat
  cur : Nat
  got : Nat → Option Bytes

def FileRec.new (size : Nat) : FileRec := ⟨size, 0, fun _ => none⟩

def lenAt (got : Nat → Option Bytes) (o : Nat) : Nat := ((got o).getD []).length

/-- one chunk `(off, data)` arrives -/
def addChunk (r : FileRec) (off : Nat) (data : Bytes) : FileRec :=
  { r with cur := r.cur - lenAt r.got off + data.length,
           got := fun o => if o = off then some data else r.got o }

def complete (r : FileRec) : Bool := r.cur = r.size

/-- chunks at offsets `start, start+1, …, start+k-1`, in that order -/
def bodyFrom (got : Nat → Option Bytes) (start k : Nat) : Bytes :=
  (List.range' start k).flatMap (fun o => (got o).getD [])

/-- `StreamBody` -/
def body (r : FileRec) : Bytes := bodyFrom r.got 0 (r.size + 1)

/-- the recorded segments in ascending offset order -/
def segs (r : FileRec) : List Miss.Seg :=
  (List.range (r.size + 1)).filterMap (fun o => (r.got o).map (fun d => ⟨o, d.length⟩))

/-- the 0x1212 → 0x9212 answer for this file: empty list = "complete" -/
def report (r : FileRec) : List Miss.Seg := Miss.missSegments r.size r.cur (segs r)

/-! ### the session: several announced files, control frames and chunks in arrival order -/

inductive Ev where
  | announce                                  -- 0x1210: creates the records
  | info (i : Nat)                            -- 0x1211 for file `i`
  | chunk (i off : Nat) (data : Bytes)        -- a chunk of file `i`
  | done (i : Nat)                            -- 0x1212 for file `i`

inductive Reply where
  | ack                                       -- 0x8001
  | report (missing : List Miss.Seg)          -- 0x9212: `[]` = complete, otherwise the ranges to resend
deriving DecidableEq

def isControl : Ev → Bool
  | .chunk .. => false
  | _ => true

/-- `sizes`: the announced file sizes; state: one record per file (created by 0x1210) -/
def stepS (sizes : List Nat) (st : List FileRec) : Ev → List FileRec × List Reply
  | .announce => (sizes.map FileRec.new, [.ack])
  | .info _ => (st, [.ack])
  | .chunk i off data => (st.modify i (fun r => addChunk r off data), [])
  | .done i => (st, [.report (match st[i]? with | some r => report r | none => [])])

def runS (sizes : List Nat) : List FileRec → List Ev → List FileRec × List Reply
  | st, [] => (st, [])
  | st, e :: es =>
    let (st1, o) := stepS sizes st e
    let (st2, os) := runS sizes st1 es
    (st2, o ++ os)

end JT.Attach
