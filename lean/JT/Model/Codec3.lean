import JT.Model.Codec2
/-!
# Value-level models of `Parse` AND `Encode` for seven message bodies of `protocol/model`

`JT/Model/Codec2.lean` models the OUTCOME CLASS of the decoders; this file adds the VALUES, so that the two round-trip
laws of a message body can be stated (and are proved in `JT/Proof/Codec3.lean`):

1. re-encode:        `parseX b = .ok v → encodeX v = b`
2. parse-of-encode:  `WFX v → parseX (encodeX v) = .ok v`

Conventions

* a Go number field (`byte`, `uint16`, `uint32`, `uint64`) is a `Nat`; `Encode` writes it with `toBE width` (which
  truncates like Go's conversion to the fixed-width type), `Parse` reads it with `beN` / `Byte.toNat`;
* a Go `string` field that `Parse` fills with `string(body[a:b])` is the list of its raw bytes (no character set);
* a Go `string` field that `Parse` fills with `utils.BCD2Time(body[a:a+6])` is represented by the SIX RAW BCD BYTES `r`
  it was rendered from: the Go field holds the 19-byte string `bcd2time r`, and `bcd2time` is injective on 6-byte inputs
  (`bcd2time_inj` in the proof file), so equality of the representations is equality of the Go strings. `Encode` does not
  copy those bytes back: it runs `utils.Time2BCD` on the string, so the model of `Encode` emits
  `reTime r = time2bcd (bcd2time r)`, with `utils.BCD2Time` and `utils.Time2BCD` modelled byte for byte below.
  (`reTime r = r` exactly when no nibble of `r` is `0xA` — see the proof file; this is where law (1) fails at HEAD.)
* every `body[lo:hi]`, `body[i]`, `binary.BigEndian.UintN(body[i:])` of the Go `Parse` goes through the checked accessors
  `JT.Layout.slice`, `JT.AttStream.idx`, `JT.AttStream.be32At`, `JT.Codec2.be16At`, in the order of the Go code, exactly
  as in `JT/Model/Codec2.lean` (`parseX_void` in the proof file: forgetting the value gives the Codec2 model back).

Source: `/repo/protocol/model/{p_0x8100,p_0x9101,p_0x9201,p_0x9206,t_0x1205,p_0x9102,p_0x9207}.go` and
`/repo/protocol/utils/utils.go` (`String2FillingBytes`, `BCD2Time`, `Time2BCD`) at HEAD.
-/
namespace JT.Codec3
open JT
open JT.Layout (slice)
open JT.AttStream (idx be32At)
open JT.Codec2 (be16At)

/-! ### `protocol/utils` -/

/-- `utils.String2FillingBytes(text, size)`: pad with NUL up to `size`, cut at `size` -/
def fill (s : Bytes) (size : Nat) : Bytes :=
  if s.length < size then s ++ List.replicate (size - s.length) 0
  else if s.length > size then s.take size
  else s

/-- the loop of `utils.BCD2Time`: two characters per byte, `(v >> 4) + '0'` and `(v & 0x0F) + '0'`
(a nibble above 9 becomes one of `: ; < = > ?`) -/
def bcdDigits (t : Bytes) : Bytes := t.flatMap fun (v : Byte) => [(v >>> 4) + 0x30, (v &&& 0x0F) + 0x30]

/-- `utils.BCD2Time`: for six bytes `fmt.Sprintf("20%s-%s-%s %s:%s:%s", r[0:2], r[2:4], r[4:6], r[6:8], r[8:10],
r[10:12])`, otherwise the characters themselves. The result is the byte content of the Go string. -/
def bcd2time (t : Bytes) : Bytes :=
  let r := bcdDigits t
  if t.length = 6 then
    [0x32, 0x30] ++ r.take 2 ++ [0x2D] ++ (r.drop 2).take 2 ++ [0x2D] ++ (r.drop 4).take 2 ++ [0x20] ++
      (r.drop 6).take 2 ++ [0x3A] ++ (r.drop 8).take 2 ++ [0x3A] ++ (r.drop 10).take 2
  else r

/-- the last loop of `utils.Time2BCD` on a string of even length:
`bcd[i/2] = ((time[i] - '0') << 4) | (time[i+1] - '0')` in `byte` arithmetic -/
def bcdPairs : Bytes → Bytes
  | a :: b :: r => (((a - 0x30) <<< 4) ||| (b - 0x30)) :: bcdPairs r
  | _ => []

/-- `strings.ReplaceAll(s, string(c), "")` for a one-byte pattern -/
def dropByte (c : Byte) (s : Bytes) : Bytes := s.filter (· ≠ c)

/-- `utils.Time2BCD` on the bytes of the Go string -/
def time2bcd (s : Bytes) : Bytes :=
  let s :=
    if s.contains 0x3A then                                   -- strings.Contains(time, ":")
      let t := dropByte 0x20 (dropByte 0x3A (dropByte 0x2D s)) -- "-", ":", " " removed, in this order
      if t.length = 14 then t.drop 2 else t                   -- time[2:]
    else s
  let s := if s.length % 2 ≠ 0 then 0x30 :: s else s          -- "0" + time
  bcdPairs s

/-- what `Encode` emits for a time field that `Parse` read from the BCD bytes `r` -/
def reTime (r : Bytes) : Bytes := time2bcd (bcd2time r)

/-- no nibble is `0xA` (the nibble that `BCD2Time` renders as `':'`) -/
def NoA (r : Bytes) : Prop := ∀ x ∈ r, x >>> 4 ≠ 10 ∧ x &&& 0x0F ≠ 10
instance (r : Bytes) : Decidable (NoA r) := by unfold NoA; infer_instance

/-- a time field as `Parse` produces it and `Encode` reproduces it: six bytes, no nibble `0xA` -/
def TimeOK (r : Bytes) : Prop := r.length = 6 ∧ NoA r
instance (r : Bytes) : Decidable (TimeOK r) := by unfold TimeOK; infer_instance

/-- the outcome of `Parse` followed by `Encode` on a fresh receiver, as the validation driver prints it -/
def reenc {α} (parse : Bytes → Res α) (encode : α → Bytes) (b : Bytes) : Res Bytes :=
  match parse b with
  | .ok v => .ok (encode v)
  | .err => .err
  | .panic => .panic

/-! ### 0x8100 registration reply -/
structure P0x8100 where
  respondSerialNumber : Nat      -- uint16
  result : Nat                   -- byte
  authCode : Bytes               -- string(body[3:])
deriving DecidableEq, Repr

def parseP0x8100 (b : Bytes) : Res P0x8100 :=
  if b.length < 3 then .err else do
    let s ← slice b 0 2                 -- Uint16(body[:2])
    let r ← idx b 2
    let a ← slice b 3 b.length          -- string(body[3:])
    pure { respondSerialNumber := beN s, result := r.toNat, authCode := a }

/-- `data := make([]byte, 3, 10)`; `PutUint16(data[0:2], ..)`; `data[2] = Result`; `append(data, code...)` with
`code = String2FillingBytes(AuthCode, len(AuthCode))` -/
def encodeP0x8100 (v : P0x8100) : Bytes :=
  toBE 2 v.respondSerialNumber ++ toBE 1 v.result ++ fill v.authCode v.authCode.length

def WFP0x8100 (v : P0x8100) : Prop := v.respondSerialNumber < 65536 ∧ v.result < 256
instance (v : P0x8100) : Decidable (WFP0x8100 v) := by unfold WFP0x8100; infer_instance

/-! ### 0x9101 real-time audio/video request -/
structure P0x9101 where
  serverIPLen : Nat              -- byte
  serverIPAddr : Bytes           -- string(body[1:n+1])
  tcpPort : Nat                  -- uint16
  udpPort : Nat                  -- uint16
  channelNo : Nat                -- byte
  dataType : Nat                 -- byte
  streamType : Nat               -- byte
deriving DecidableEq, Repr

def parseP0x9101 (b : Bytes) : Res P0x9101 :=
  if b.length < 1 then .err else do
    let l ← idx b 0
    if b.length ≠ 1 + l.toNat + 7 then .err else do
      let n := l.toNat
      let ip ← slice b 1 (n + 1)
      let tcp ← be16At b (n + 1)          -- Uint16(body[n+1:])
      let udp ← be16At b (n + 3)          -- Uint16(body[n+3:])
      let ch ← idx b (n + 5)
      let dt ← idx b (n + 6)
      let st ← idx b (n + 7)
      pure { serverIPLen := l.toNat, serverIPAddr := ip, tcpPort := tcp, udpPort := udp, channelNo := ch.toNat,
             dataType := dt.toNat, streamType := st.toNat }

/-- `Encode` writes the stored `ServerIPLen`, not `len(ServerIPAddr)` -/
def encodeP0x9101 (v : P0x9101) : Bytes :=
  toBE 1 v.serverIPLen ++ fill v.serverIPAddr v.serverIPAddr.length ++ toBE 2 v.tcpPort ++ toBE 2 v.udpPort ++
    toBE 1 v.channelNo ++ toBE 1 v.dataType ++ toBE 1 v.streamType

def WFP0x9101 (v : P0x9101) : Prop :=
  v.serverIPLen < 256 ∧ v.serverIPAddr.length = v.serverIPLen ∧ v.tcpPort < 65536 ∧ v.udpPort < 65536 ∧
    v.channelNo < 256 ∧ v.dataType < 256 ∧ v.streamType < 256
instance (v : P0x9101) : Decidable (WFP0x9101 v) := by unfold WFP0x9101; infer_instance

/-! ### 0x9201 remote playback request -/
structure P0x9201 where
  serverIPLen : Nat              -- byte
  serverIPAddr : Bytes           -- string(body[1:n+1])
  tcpPort : Nat                  -- uint16
  udpPort : Nat                  -- uint16
  channelNo : Nat                -- byte
  mediaType : Nat                -- byte
  streamType : Nat               -- byte
  memoryType : Nat               -- byte
  playbackWay : Nat              -- byte
  playSpeed : Nat                -- byte
  startTime : Bytes              -- the 6 BCD bytes; the Go field is the string `bcd2time startTime`
  endTime : Bytes                -- the 6 BCD bytes; the Go field is the string `bcd2time endTime`
deriving DecidableEq, Repr

def parseP0x9201 (b : Bytes) : Res P0x9201 :=
  if b.length < 1 then .err else do
    let l ← idx b 0
    if b.length ≠ 1 + l.toNat + 2 + 2 + 1 + 1 + 1 + 1 + 1 + 1 + 6 + 6 then .err else do
      let n := l.toNat
      let ip ← slice b 1 (n + 1)
      let tcp ← be16At b (n + 1)
      let udp ← be16At b (n + 3)
      let ch ← idx b (n + 5)
      let mt ← idx b (n + 6)
      let st ← idx b (n + 7)
      let mem ← idx b (n + 8)
      let pw ← idx b (n + 9)
      let ps ← idx b (n + 10)
      let t0 ← slice b (n + 11) (n + 11 + 6)            -- BCD2Time(body[n+11 : n+11+6])
      let t1 ← slice b (n + 11 + 6) (n + 11 + 6 + 6)    -- BCD2Time(body[n+11+6 : n+11+6+6])
      pure { serverIPLen := l.toNat, serverIPAddr := ip, tcpPort := tcp, udpPort := udp, channelNo := ch.toNat,
             mediaType := mt.toNat, streamType := st.toNat, memoryType := mem.toNat, playbackWay := pw.toNat,
             playSpeed := ps.toNat, startTime := t0, endTime := t1 }

/-- `append(data, []byte(p.ServerIPAddr)...)`, …, `append(data, utils.Time2BCD(p.StartTime)...)` -/
def encodeP0x9201 (v : P0x9201) : Bytes :=
  toBE 1 v.serverIPLen ++ v.serverIPAddr ++ toBE 2 v.tcpPort ++ toBE 2 v.udpPort ++ toBE 1 v.channelNo ++
    toBE 1 v.mediaType ++ toBE 1 v.streamType ++ toBE 1 v.memoryType ++ toBE 1 v.playbackWay ++ toBE 1 v.playSpeed ++
    reTime v.startTime ++ reTime v.endTime

/-- the time fields of the value have no nibble `0xA` -/
def TimesP0x9201 (v : P0x9201) : Prop := NoA v.startTime ∧ NoA v.endTime
instance (v : P0x9201) : Decidable (TimesP0x9201 v) := by unfold TimesP0x9201; infer_instance

def WFP0x9201 (v : P0x9201) : Prop :=
  v.serverIPLen < 256 ∧ v.serverIPAddr.length = v.serverIPLen ∧ v.tcpPort < 65536 ∧ v.udpPort < 65536 ∧
    v.channelNo < 256 ∧ v.mediaType < 256 ∧ v.streamType < 256 ∧ v.memoryType < 256 ∧ v.playbackWay < 256 ∧
    v.playSpeed < 256 ∧ TimeOK v.startTime ∧ TimeOK v.endTime
instance (v : P0x9201) : Decidable (WFP0x9201 v) := by unfold WFP0x9201; infer_instance

/-! ### 0x9206 file upload instruction -/
structure P0x9206 where
  ftpAddrLen : Nat               -- byte
  ftpAddr : Bytes
  port : Nat                     -- uint16
  usernameLen : Nat              -- byte
  username : Bytes
  passwordLen : Nat              -- byte
  password : Bytes
  fileUploadPathLen : Nat        -- byte
  fileUploadPath : Bytes
  channelNo : Nat                -- byte
  startTime : Bytes              -- the 6 BCD bytes; the Go field is the string `bcd2time startTime`
  endTime : Bytes                -- the 6 BCD bytes; the Go field is the string `bcd2time endTime`
  alarmFlag : Nat                -- uint64
  mediaType : Nat                -- byte
  streamType : Nat               -- byte
  memoryPosition : Nat           -- byte
  taskExecuteCondition : Nat     -- byte
deriving DecidableEq, Repr

def parseP0x9206 (b : Bytes) : Res P0x9206 :=
  if b.length < 1 then .err else do
    let l1 ← idx b 0                                   -- FTPAddrLen
    let start1 := 1
    let end1 := start1 + l1.toNat
    if b.length < end1 + 2 + 1 then .err else do
      let addr ← slice b start1 end1
      let port ← slice b end1 (end1 + 2)               -- Uint16(body[end:end+2])
      let l2 ← idx b (end1 + 2)                        -- UsernameLen
      let start2 := end1 + 2 + 1
      let end2 := start2 + l2.toNat
      if b.length < end2 + 1 then .err else do
        let user ← slice b start2 end2
        let l3 ← idx b end2                            -- PasswordLen
        let start3 := end2 + 1
        let end3 := start3 + l3.toNat
        if b.length < end3 + 1 then .err else do
          let pass ← slice b start3 end3
          let l4 ← idx b end3                          -- FileUploadPathLen
          let start4 := end3 + 1
          let end4 := start4 + l4.toNat
          if b.length ≠ end4 + 1 + 6 + 6 + 8 + 1 + 1 + 1 + 1 then .err else do
            let path ← slice b start4 end4
            let s := end4
            let ch ← idx b s
            let t0 ← slice b (s + 1) (s + 7)           -- BCD2Time
            let t1 ← slice b (s + 7) (s + 13)          -- BCD2Time
            let af ← slice b (s + 13) (s + 21)         -- Uint64
            let mt ← idx b (s + 21)
            let st ← idx b (s + 22)
            let mp ← idx b (s + 23)
            let tc ← idx b (s + 24)
            pure { ftpAddrLen := l1.toNat, ftpAddr := addr, port := beN port, usernameLen := l2.toNat,
                   username := user, passwordLen := l3.toNat, password := pass, fileUploadPathLen := l4.toNat,
                   fileUploadPath := path, channelNo := ch.toNat, startTime := t0, endTime := t1,
                   alarmFlag := beN af, mediaType := mt.toNat, streamType := st.toNat,
                   memoryPosition := mp.toNat, taskExecuteCondition := tc.toNat }

/-- the first byte is `byte(len(p.FTPAddr))` (truncating), NOT the stored `FTPAddrLen`; the other three length
bytes are the stored fields -/
def encodeP0x9206 (v : P0x9206) : Bytes :=
  toBE 1 v.ftpAddr.length ++ v.ftpAddr ++ toBE 2 v.port ++ toBE 1 v.usernameLen ++ v.username ++
    toBE 1 v.passwordLen ++ v.password ++ toBE 1 v.fileUploadPathLen ++ v.fileUploadPath ++ toBE 1 v.channelNo ++
    reTime v.startTime ++ reTime v.endTime ++ toBE 8 v.alarmFlag ++ toBE 1 v.mediaType ++ toBE 1 v.streamType ++
    toBE 1 v.memoryPosition ++ toBE 1 v.taskExecuteCondition

def TimesP0x9206 (v : P0x9206) : Prop := NoA v.startTime ∧ NoA v.endTime
instance (v : P0x9206) : Decidable (TimesP0x9206 v) := by unfold TimesP0x9206; infer_instance

def WFP0x9206 (v : P0x9206) : Prop :=
  v.ftpAddrLen < 256 ∧ v.ftpAddr.length = v.ftpAddrLen ∧ v.port < 65536 ∧
    v.usernameLen < 256 ∧ v.username.length = v.usernameLen ∧
    v.passwordLen < 256 ∧ v.password.length = v.passwordLen ∧
    v.fileUploadPathLen < 256 ∧ v.fileUploadPath.length = v.fileUploadPathLen ∧
    v.channelNo < 256 ∧ TimeOK v.startTime ∧ TimeOK v.endTime ∧ v.alarmFlag < 2 ^ 64 ∧
    v.mediaType < 256 ∧ v.streamType < 256 ∧ v.memoryPosition < 256 ∧ v.taskExecuteCondition < 256
instance (v : P0x9206) : Decidable (WFP0x9206 v) := by unfold WFP0x9206; infer_instance

/-! ### 0x1205 audio/video resource list -/
structure T0x1205Item where
  channelNo : Nat                -- byte
  startTime : Bytes              -- the 6 BCD bytes; the Go field is the string `bcd2time startTime`
  endTime : Bytes                -- the 6 BCD bytes; the Go field is the string `bcd2time endTime`
  alarmFlag : Nat                -- uint64
  audioVideoResourceType : Nat   -- byte
  streamType : Nat               -- byte
  memoryType : Nat               -- byte
  fileSizeByte : Nat             -- uint32
deriving DecidableEq, Repr

structure T0x1205 where
  serialNumber : Nat             -- uint16
  audioVideoResourceTotal : Nat  -- uint32
  audioVideoResourceList : List T0x1205Item
deriving DecidableEq, Repr

/-- the composite literal of the loop body: the reads on `curData` -/
def parseT0x1205Item (cur : Bytes) : Res T0x1205Item := do
  let ch ← idx cur 0
  let t0 ← slice cur 1 7
  let t1 ← slice cur 7 13
  let af ← slice cur 13 21
  let rt ← idx cur 21
  let st ← idx cur 22
  let mt ← idx cur 23
  let fs ← slice cur 24 28
  pure { channelNo := ch.toNat, startTime := t0, endTime := t1, alarmFlag := beN af,
         audioVideoResourceType := rt.toNat, streamType := st.toNat, memoryType := mt.toNat, fileSizeByte := beN fs }

/-- the `for` loop of `T0x1205.Parse`: `n` remaining rounds, `start` the loop variable (`end = start + 28`); the
items in the order in which they are appended -/
def t1205Items (b : Bytes) : Nat → Nat → Res (List T0x1205Item)
  | 0, _ => .ok []
  | n + 1, start => do
    let cur ← slice b start (start + 28)               -- curData := body[start:end]
    let it ← parseT0x1205Item cur
    let rest ← t1205Items b n (start + 28)
    pure (it :: rest)

/-- `T0x1205.Parse` (`AudioVideoResourceList = nil` first: nothing of a previous parse survives) -/
def parseT0x1205 (b : Bytes) : Res T0x1205 :=
  if b.length < 6 then .err else do
    let sn ← slice b 0 2
    let total ← be32At b 2                             -- Uint32(body[2:6])
    if b.length ≠ 6 + total * 28 then .err else do
      let items ← t1205Items b total 6
      pure { serialNumber := beN sn, audioVideoResourceTotal := total, audioVideoResourceList := items }

def encodeT0x1205Item (v : T0x1205Item) : Bytes :=
  toBE 1 v.channelNo ++ reTime v.startTime ++ reTime v.endTime ++ toBE 8 v.alarmFlag ++
    toBE 1 v.audioVideoResourceType ++ toBE 1 v.streamType ++ toBE 1 v.memoryType ++ toBE 4 v.fileSizeByte

/-- `Encode` writes the stored total and then ranges over the list, whatever its length -/
def encodeT0x1205 (v : T0x1205) : Bytes :=
  toBE 2 v.serialNumber ++ toBE 4 v.audioVideoResourceTotal ++ v.audioVideoResourceList.flatMap encodeT0x1205Item

def TimesT0x1205 (v : T0x1205) : Prop := ∀ it ∈ v.audioVideoResourceList, NoA it.startTime ∧ NoA it.endTime
instance (v : T0x1205) : Decidable (TimesT0x1205 v) := by unfold TimesT0x1205; infer_instance

def WFT0x1205Item (v : T0x1205Item) : Prop :=
  v.channelNo < 256 ∧ TimeOK v.startTime ∧ TimeOK v.endTime ∧ v.alarmFlag < 2 ^ 64 ∧
    v.audioVideoResourceType < 256 ∧ v.streamType < 256 ∧ v.memoryType < 256 ∧ v.fileSizeByte < 2 ^ 32
instance (v : T0x1205Item) : Decidable (WFT0x1205Item v) := by unfold WFT0x1205Item; infer_instance

def WFT0x1205 (v : T0x1205) : Prop :=
  v.serialNumber < 65536 ∧ v.audioVideoResourceTotal < 2 ^ 32 ∧
    v.audioVideoResourceList.length = v.audioVideoResourceTotal ∧
    ∀ it ∈ v.audioVideoResourceList, WFT0x1205Item it
instance (v : T0x1205) : Decidable (WFT0x1205 v) := by unfold WFT0x1205; infer_instance

/-! ### 0x9102 audio/video control -/
structure P0x9102 where
  channelNo : Nat                -- byte
  controlCmd : Nat               -- byte
  closeAudioVideoData : Nat      -- byte
  streamType : Nat               -- byte
deriving DecidableEq, Repr

def parseP0x9102 (b : Bytes) : Res P0x9102 :=
  if b.length ≠ 4 then .err else do
    let a ← idx b 0
    let c ← idx b 1
    let d ← idx b 2
    let e ← idx b 3
    pure { channelNo := a.toNat, controlCmd := c.toNat, closeAudioVideoData := d.toNat, streamType := e.toNat }

def encodeP0x9102 (v : P0x9102) : Bytes :=
  toBE 1 v.channelNo ++ toBE 1 v.controlCmd ++ toBE 1 v.closeAudioVideoData ++ toBE 1 v.streamType

def WFP0x9102 (v : P0x9102) : Prop :=
  v.channelNo < 256 ∧ v.controlCmd < 256 ∧ v.closeAudioVideoData < 256 ∧ v.streamType < 256
instance (v : P0x9102) : Decidable (WFP0x9102 v) := by unfold WFP0x9102; infer_instance

/-! ### 0x9207 file upload control -/
structure P0x9207 where
  respondSerialNumber : Nat      -- uint16
  uploadControl : Nat            -- byte
deriving DecidableEq, Repr

def parseP0x9207 (b : Bytes) : Res P0x9207 :=
  if b.length ≠ 3 then .err else do
    let s ← slice b 0 2                 -- Uint16(body[0:2])
    let c ← idx b 2
    pure { respondSerialNumber := beN s, uploadControl := c.toNat }

def encodeP0x9207 (v : P0x9207) : Bytes := toBE 2 v.respondSerialNumber ++ toBE 1 v.uploadControl

def WFP0x9207 (v : P0x9207) : Prop := v.respondSerialNumber < 65536 ∧ v.uploadControl < 256
instance (v : P0x9207) : Decidable (WFP0x9207 v) := by unfold WFP0x9207; infer_instance

end JT.Codec3
