import JT.Basic.Bytes
/-!
# A minimal memory model for C09: regions, slices, and the operations of a connection's life

Go byte slices are views into backing arrays. A delivered message is stable exactly when the arrays its
slices view are never written again. The regions of a connection:

* `readBuf` — the reader's 1023-byte buffer, overwritten by every `conn.Read` and zeroed at teardown;
* `hist`    — the backing array of `packageParse.historyData`; any later `append` may or may not overwrite it
               (no growth policy is assumed: the new content is arbitrary);
* `own k`   — the result of the `k`-th copying allocation (`bytes.Clone`, `bytes.Buffer`, `make`+`append`):
               written once when it is created, never afterwards.

`provenance` records, for the two extraction paths of `unpack`, where the frame bytes a message is built from
live — read off the source: after the D12 repair both paths `bytes.Clone` the frame first.
-/
namespace JT.Mem

inductive Region where
  | readBuf
  | hist
  | own (k : Nat)
deriving DecidableEq, Repr

structure Slice where
  region : Region
  off : Nat
  len : Nat
deriving DecidableEq, Repr

structure Mem where
  readBuf : Bytes
  hist : Bytes
  own : Nat → Bytes

def Mem.get (m : Mem) : Region → Bytes
  | .readBuf => m.readBuf
  | .hist => m.hist
  | .own k => m.own k

def deref (m : Mem) (s : Slice) : Bytes := ((m.get s.region).drop s.off).take s.len

/-- everything that can happen on the connection after a message was delivered -/
inductive Op where
  /-- `conn.Read(curData)`: the read buffer gets new content -/
  | read (newBuf : Bytes)
  /-- `historyData = append(historyData, …)` / re-slicing: the history array gets arbitrary new content -/
  | histWrite (newHist : Bytes)
  /-- a copying allocation creating region `own k` -/
  | alloc (k : Nat) (content : Bytes)
  /-- teardown: `clear(curData)`, `pack.clear()` zero both buffers -/
  | teardown

def apply (m : Mem) : Op → Mem
  | .read b => { m with readBuf := b }
  | .histWrite h => { m with hist := h }
  | .alloc k c => { m with own := fun j => if j = k then c else m.own j }
  | .teardown => { m with readBuf := m.readBuf.map (fun _ => 0), hist := m.hist.map (fun _ => 0) }

def run (m : Mem) (ops : List Op) : Mem := ops.foldl apply m

/-- the two extraction paths of `packageParse.unpack` -/
inductive Path where
  | fast      -- one whole frame in an empty buffer: decoded straight from the read
  | buffered  -- cut out of `historyData`
deriving DecidableEq, Repr

/-- where the frame bytes live that `Body`, `TerminalData`, the BCD phone and every stored sub-package slot
are slices of. `cloned = true` is the code after the D12 repair (both paths `bytes.Clone` the frame; an
escaped frame is additionally rebuilt in a fresh `bytes.Buffer`); `cloned = false` is the code before it. -/
def provenance (cloned : Bool) (p : Path) (k off len : Nat) : Slice :=
  if cloned then ⟨.own k, off, len⟩
  else match p with
    | .fast => ⟨.readBuf, off, len⟩
    | .buffered => ⟨.hist, off, len⟩

end JT.Mem
