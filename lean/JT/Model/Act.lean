/-!
# Platform commands (`SendActiveMessage`) as a transition system

Abstraction of the goroutines of `service` that take part in platform commands on ONE terminal key:
callers (`sessionManager.write`, then waiting on `replyChan`), the session-manager goroutine
(`operationFuncChan`), the connection's writer (`connection.write`: `activeMsgChan`, `record`,
`activeMsgCompleteChan`, `stopChan` branches), the timeout goroutines, the reader's teardown
(`connection.stop`: leave, then `close(stopChan)`), and the terminal, which may answer with a response that
echoes ANY serial at any time (the right one, a wrong one, a duplicate, late, never).
This is the design after the repair of D17/D18: only `stopChan` is ever closed, the writer completes a
request inline instead of sending to itself, and on teardown it fails everything still queued or recorded.

Every request is in exactly one *place* (a function, so "exactly one" holds by construction):
not yet made, queued for the session manager, in `activeMsgChan`, in the writer's record under its stamped
serial, or answered with a result. Queues are unordered here (any queued request may be served next):
an over-approximation of FIFO, sound for the invariants below. `IntStep` is one atomic action the server
takes on its own, `EnvStep` one action of a caller, the peer or the terminal; `Reach` quantifies over all
interleavings. Platform serials are natural numbers: re-use of a 16-bit serial while its command is still
pending (65 536 commands inside one timeout) is outside the model.
-/
namespace JT.Act

-- requests are identified by their call number (a natural number)

inductive Result where
  | response (serial : Nat)
  | timeout
  | writeFail
  | closed
  | notExist
deriving DecidableEq, Repr

inductive Place where
  | notYet
  | ops
  | act
  | recorded (serial : Nat)
  | done (res : Result)
deriving DecidableEq, Repr

structure St where
  /-- number of `SendActiveMessage` calls made so far; call `r` is the `r`-th -/
  created : Nat
  place : Nat → Place
  /-- ghost: the platform serial request `r` was stamped with -/
  stamp : Nat → Option Nat
  /-- a leave operation is queued for the session manager -/
  leaveQueued : Bool
  /-- the reader has ended -/
  leaving : Bool
  /-- the key is in the registry -/
  registered : Bool
  stopClosed : Bool
  writerAlive : Bool
  /-- `platformSerialNumber` -/
  serial : Nat
  /-- timeout goroutines that have not delivered yet, by serial -/
  timers : List Nat
  /-- `activeMsgCompleteChan` (capacity 3): timeouts, by serial -/
  doneCh : List Nat

def init : St :=
  { created := 0, place := fun _ => .notYet, stamp := fun _ => none, leaveQueued := false, leaving := false,
    registered := true, stopClosed := false, writerAlive := true, serial := 0, timers := [], doneCh := [] }

def upd {α : Type} (f : Nat → α) (r : Nat) (v : α) : Nat → α := fun x => if x = r then v else f x

/-- number of requests currently in `activeMsgChan` -/
def actCount (s : St) : Nat := ((List.range s.created).filter (fun r => s.place r = .act)).length

/-- actions of the environment: callers, the peer ending the connection, the terminal answering -/
inductive EnvStep : St → St → Prop
  /-- a caller invokes `SendActiveMessage`: the write operation is queued for the session manager -/
  | call (s : St) :
      EnvStep s { s with created := s.created + 1, place := upd s.place s.created .ops }
  /-- the reader ends (peer closed or reset, read error, duplicate key …): it queues the leave operation -/
  | readerEnds (s : St) : s.leaving = false →
      EnvStep s { s with leaving := true, leaveQueued := true }
  /-- the terminal sends a response echoing serial `e`, and a request is recorded under `e`: its caller gets
  that response. (A response echoing a serial nobody is recorded under changes nothing here: it is answered
  like ordinary traffic.) -/
  | wResponse (s : St) (e : Nat) (r : Nat) : s.writerAlive = true → s.place r = .recorded e →
      EnvStep s { s with place := upd s.place r (.done (.response e)) }

/-- actions the server takes on its own -/
inductive IntStep : St → St → Prop
  /-- manager: key online, room in `activeMsgChan` → hand the request to the connection -/
  | mgrWrite (s : St) (r : Nat) : s.place r = .ops → s.registered = true → actCount s < 3 →
      IntStep s { s with place := upd s.place r .act }
  /-- manager: key not online → not-exist error at once -/
  | mgrNotExist (s : St) (r : Nat) : s.place r = .ops → s.registered = false →
      IntStep s { s with place := upd s.place r (.done .notExist) }
  /-- manager processes the leave; the reader then closes `stopChan` -/
  | mgrLeave (s : St) : s.leaveQueued = true →
      IntStep s { s with leaveQueued := false, registered := false, stopClosed := true }
  /-- writer takes a request: stamps the next serial, records it, writes it, starts its timeout goroutine -/
  | wSend (s : St) (r : Nat) : s.writerAlive = true → s.place r = .act →
      IntStep s { s with place := upd s.place r (.recorded s.serial), stamp := upd s.stamp r (some s.serial),
                         serial := s.serial + 1, timers := s.serial :: s.timers }
  /-- … or the socket write fails: the caller gets the error right away (completed inline, not via a channel) -/
  | wSendFail (s : St) (r : Nat) : s.writerAlive = true → s.place r = .act →
      IntStep s { s with place := upd s.place r (.done .writeFail), stamp := upd s.stamp r (some s.serial),
                         serial := s.serial + 1 }
  /-- a timeout goroutine wakes up while the connection lives and there is room in the channel -/
  | timerFire (s : St) (t : Nat) : t ∈ s.timers → s.stopClosed = false → s.doneCh.length < 3 →
      IntStep s { s with timers := s.timers.erase t, doneCh := s.doneCh ++ [t] }
  /-- … or finds `stopChan` closed and gives up -/
  | timerQuit (s : St) (t : Nat) : t ∈ s.timers → s.stopClosed = true →
      IntStep s { s with timers := s.timers.erase t }
  /-- writer takes a timeout whose request is still recorded: its caller gets the timeout error -/
  | wTimeoutHit (s : St) (t : Nat) (rest : List Nat) (r : Nat) : s.writerAlive = true → s.doneCh = t :: rest →
      s.place r = .recorded t →
      IntStep s { s with doneCh := rest, place := upd s.place r (.done .timeout) }
  /-- … or whose request was answered meanwhile: dropped -/
  | wTimeoutMiss (s : St) (t : Nat) (rest : List Nat) : s.writerAlive = true → s.doneCh = t :: rest →
      (∀ r, s.place r ≠ .recorded t) →
      IntStep s { s with doneCh := rest }
  /-- writer sees `stopChan` closed: everything queued or recorded fails, then it exits -/
  | wStop (s : St) : s.writerAlive = true → s.stopClosed = true →
      IntStep s { s with writerAlive := false,
                         place := fun r => match s.place r with
                           | .act => .done .closed
                           | .recorded _ => .done .closed
                           | p => p }

def Step (s t : St) : Prop := EnvStep s t ∨ IntStep s t

inductive Reach : St → Prop
  | init : Reach init
  | step {s t : St} : Reach s → Step s t → Reach t

/-- the server has nothing left to do on its own -/
def Quiescent (s : St) : Prop := ∀ t, ¬ IntStep s t

end JT.Act
