/-!
# Reader → `msgChan` → writer as a transition system (callbacks as trace events)

Abstraction of `connection.reader` / `connection.write` of `service/connection.go` for the messages that are
answered: the reader reports message `i` to the read callbacks and then sends it into the bounded FIFO
`msgChan` (blocking while it is full); the writer takes the oldest message, writes its reply to the socket and
then reports it to the write callbacks. `Step` is one atomic action of either goroutine; `Reach` quantifies over
all interleavings.
-/
namespace JT.Pipe

inductive Ev where
  | readcb (i : Nat)
  | sockwrite (i : Nat)
  | writecb (i : Nat)
deriving DecidableEq, Repr

structure St where
  /-- index of the next message the reader will take from the socket -/
  next : Nat
  /-- reader has reported message `i` to the read callbacks and is about to send it into `msgChan` -/
  rhold : Option Nat
  /-- content of `msgChan`, oldest first -/
  queue : List Nat
  /-- writer has written the reply of `i` to the socket and is about to call the write callbacks -/
  whold : Option Nat
  /-- trace, newest first -/
  log : List Ev

def init : St := ⟨0, none, [], none, []⟩

/-- one step of either goroutine; `n` = number of messages that will arrive, `cap` = channel capacity -/
inductive Step (n cap : Nat) : St → St → Prop
  | r1 (s : St) : s.rhold = none → s.next < n →
      Step n cap s { s with next := s.next + 1, rhold := some s.next, log := .readcb s.next :: s.log }
  | r2 (s : St) (i : Nat) : s.rhold = some i → s.queue.length < cap →
      Step n cap s { s with rhold := none, queue := s.queue ++ [i] }
  | w1 (s : St) (i : Nat) (q : List Nat) : s.whold = none → s.queue = i :: q →
      Step n cap s { s with queue := q, whold := some i, log := .sockwrite i :: s.log }
  | w2 (s : St) (i : Nat) : s.whold = some i →
      Step n cap s { s with whold := none, log := .writecb i :: s.log }

inductive Reach (n cap : Nat) : St → Prop
  | init : Reach n cap init
  | step {s t : St} : Reach n cap s → Step n cap s t → Reach n cap t

/-- an event is admissible after the (older) trace `log` -/
def okAfter (e : Ev) (log : List Ev) : Prop :=
  match e with
  | .readcb i => Ev.readcb i ∉ log
  | .sockwrite i => Ev.readcb i ∈ log ∧ Ev.sockwrite i ∉ log
  | .writecb i => Ev.sockwrite i ∈ log ∧ Ev.writecb i ∉ log

/-- every event of the trace was admissible when it happened -/
def WF : List Ev → Prop
  | [] => True
  | e :: older => okAfter e older ∧ WF older

/-- indices whose reply has been written, newest first -/
def sws : List Ev → List Nat
  | [] => []
  | .sockwrite i :: r => i :: sws r
  | _ :: r => sws r

/-- no step of either goroutine is enabled -/
def Quiescent (n cap : Nat) (s : St) : Prop := ∀ t, ¬ Step n cap s t

end JT.Pipe
