import JT.Basic.Bytes
/-!
# File names and path resolution (C19)

`fileEvent.OnEvent` (success-quit branch) stores every announced file under `./<phone>/<name>`. This file models
* Go's `filepath.Base` on Unix (`goBase`),
* `utils.Bcd2Dec` (the phone string: hex digits of the BCD bytes without leading zeros, `phoneStr`),
* the path string built by `fmt.Sprintf("./%s/%s", phone, name)` (`savePath`),
* how the kernel resolves a path relative to the working directory when no symbolic links are involved
  (`resolve`: components split at `/`; empty and `.` components are skipped, `..` goes to the parent, a leading `/`
  starts from the root; a NUL byte or a component longer than 255 bytes is refused by the system call).
Symbolic links are outside the model: the server creates none.
-/
namespace JT.Path
open JT

def slash : Byte := 0x2f
def dot : Bytes := [0x2e]
def dotdot : Bytes := [0x2e, 0x2e]

/-- split at every `/` (keeps empty components) -/
def splitSlash : Bytes → List Bytes
  | [] => [[]]
  | b :: r =>
    if b = slash then [] :: splitSlash r
    else match splitSlash r with
      | [] => [[b]]
      | c :: cs => (b :: c) :: cs

def stripTrailingSlashes (p : Bytes) : Bytes := (p.reverse.dropWhile (· = slash)).reverse

/-- the part after the last `/` -/
def afterLastSlash (p : Bytes) : Bytes := (p.reverse.takeWhile (· ≠ slash)).reverse

/-- Go `filepath.Base` (Unix) -/
def goBase (p : Bytes) : Bytes :=
  if p = [] then dot else
  let q := afterLastSlash (stripTrailingSlashes p)
  if q = [] then [slash] else q

/-- one step of lexical resolution -/
def stepDir (dir : List Bytes) (c : Bytes) : List Bytes :=
  if c = [] ∨ c = dot then dir
  else if c = dotdot then dir.dropLast
  else dir ++ [c]

/-- where a path leads, as the list of directory names from the root; `none`: the system call refuses the path -/
def resolve (cwd : List Bytes) (path : Bytes) : Option (List Bytes) :=
  if path = [] ∨ (0 : Byte) ∈ path then none else
  let comps := splitSlash path
  if comps.any (fun c => c.length > 255) then none else
  some (comps.foldl stepDir (if path.head? = some slash then [] else cwd))

def savePath (phone name : Bytes) : Bytes := [0x2e, slash] ++ phone ++ [slash] ++ name

/-! the phone string -/
def nibbleChar (n : Nat) : Byte := if n ≤ 9 then UInt8.ofNat (48 + n) else UInt8.ofNat (87 + n)
def bcdConvert (b : Bytes) : Bytes := b.flatMap (fun x => [nibbleChar (x.toNat / 16), nibbleChar (x.toNat % 16)])
/-- `utils.Bcd2Dec`: leading '0's dropped unless nothing else is left -/
def phoneStr (bcd : Bytes) : Bytes :=
  let out := bcdConvert bcd
  let t := out.dropWhile (· = 0x30)
  if t = [] then out else t

def hasPrefixB (s p : Bytes) : Bool := s.take p.length == p
def hasSuffixB (s p : Bytes) : Bool := s.drop (s.length - p.length) == p
def containsB : Bytes → Bytes → Bool
  | [], p => p.isEmpty
  | b :: r, p => hasPrefixB (b :: r) p || containsB r p

/-- a plain directory entry name: non-empty, no `/`, not `.` or `..` -/
def Plain (c : Bytes) : Prop := c ≠ [] ∧ slash ∉ c ∧ c ≠ dot ∧ c ≠ dotdot

end JT.Path
