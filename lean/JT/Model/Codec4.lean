import JT.Model.AttStream
import JT.Model.Layout
/-!
# Outcome class of `Parse` for the five active-safety extension items of the location report

`/repo/protocol/model/t_0x0200_addition_extensions.go` at HEAD: `T0x0200AdditionExtension0x64`, `…0x65`, `…0x66`,
`…0x67`, `…0x70`. Their method is `Parse(id uint8, content []byte) (AdditionContent, bool)`; `parseExtNN dl content`
is the OUTCOME CLASS of `(&model.T0x0200AdditionExtensionNN{..}).Parse(0xNN, content)` — the `id` argument is the
parser's own id, as the stand-alone harness entry (`codecExtRecv{id: id, ..}`) passes it; with any other `id` the
`&&` short-circuits and `Parse` returns `false` without touching `content` — on a receiver whose embedded
`P9208AlarmSign.ActiveSafetyType` selects the dialect `dl`:

* `.ok ()`  — `Parse` returns `(_, true)`  (the item is accepted),
* `.err`    — `Parse` returns `(AdditionContent{}, false)`,
* `.panic`  — Go panics (slice bounds / index out of range).

As in `JT/Model/Codec2.lean` EVERY slice expression `content[lo:hi]`, index `content[i]` and
`binary.BigEndian.UintN(content[lo:hi])` goes through a checked accessor (`JT.Layout.slice`, `JT.AttStream.idx`) which
yields `.panic` exactly where Go would (reading past `len` panics even if the capacity would allow it), in the order
in which Go evaluates them. This includes the helpers: `T0x0200ExtensionSBBase.parse` (`parseBase`),
`T0x0200ExtensionTable18.parse` with its seven string indexes into `fmt.Sprintf("%.16b", v)` (`parseTable18`) and
`P9208AlarmSign.parse` (`JT.AttStream.parseSign`, which depends on the dialect through `getTerminalIDLen()`).
`utils.BCD2Time` and `[4]byte(content[8:12])` (a slice of length exactly 4) cannot fail.

At HEAD the lengths are NOT dialect-dependent: all five parsers hand a fixed 35-byte block to the base parser,
which hands the fixed 16 bytes `data[19:35]` to `P9208AlarmSign.parse`; `getAlarmSignLen()` is not called. The
dialect only decides whether `P9208AlarmSign.parse` reads the 16 bytes (`idLen + 8 ≤ 16`: JS, HN) or returns at once
(HLJ, GD, SC).

`parseExt66` is modelled FAITHFULLY, with the two defects of the Go code: the guard is `len(content) >= 40` but
`content[40]` is read, and the accepted length is `40 + 9n` while the loop reads `content[41 : 41+9n]`.
-/
namespace JT.Codec4
open JT
open JT.Layout (slice)
open JT.AttStream (idx Dialect dialectOf parseSign)

/-- `fmt.Sprintf("%.16b", v)` for a `uint16` `v`: precision 16 pads to at least 16 digits and a `uint16` has at most
16, so the string is the 16 binary digits of `v`, most significant first (`'0'` = 0x30, `'1'` = 0x31) -/
def bin16 (v : Nat) : Bytes :=
  (List.range 16).map fun i => if v.testBit (15 - i) then 0x31 else 0x30

/-- `T0x0200ExtensionTable18.parse(value)`: the seven `data[k] == '1'` tests on `data := fmt.Sprintf("%.16b", value)` -/
def parseTable18 (v : Nat) : Res Unit := do
  let data := bin16 v
  let _ ← idx data 15
  let _ ← idx data 14
  let _ ← idx data 13
  let _ ← idx data 12
  let _ ← idx data 11
  let _ ← idx data 10
  let _ ← idx data 5
  pure ()

/-- `T0x0200ExtensionSBBase.parse(data)`; it has no length guard of its own (every caller passes 35 bytes) -/
def parseBase (dl : Dialect) (data : Bytes) : Res Unit := do
  let _ ← idx data 0                      -- VehicleSpeed
  let _ ← slice data 1 3                  -- Uint16(data[1:3])
  let _ ← slice data 3 7                  -- Uint32(data[3:7])
  let _ ← slice data 7 11                 -- Uint32(data[7:11])
  let _ ← slice data 11 17                -- BCD2Time(data[11:17])
  let v ← slice data 17 19                -- Uint16(data[17:19])
  parseTable18 (beN v)
  let s ← slice data 19 35                -- data[19:35]
  parseSign dl s                          -- P9208AlarmSign.parse
  pure ()

/-! ### 0x64 driving assistance (ADAS) alarm -/
/-- `T0x0200AdditionExtension0x64.Parse(0x64, content)` -/
def parseExt64 (dl : Dialect) (content : Bytes) : Res Unit :=
  if content.length = 31 + 16 then do
    let _ ← slice content 0 4             -- Uint32(content[0:4])
    let _ ← idx content 4
    let _ ← idx content 5
    let _ ← idx content 6
    let _ ← idx content 7
    let _ ← idx content 8
    let _ ← idx content 9
    let _ ← idx content 10
    let _ ← idx content 11
    let d ← slice content 12 47
    parseBase dl d
  else .err

/-! ### 0x65 driver state monitoring (DSM) alarm -/
/-- `T0x0200AdditionExtension0x65.Parse(0x65, content)` -/
def parseExt65 (dl : Dialect) (content : Bytes) : Res Unit :=
  if content.length = 31 + 16 then do
    let _ ← slice content 0 4
    let _ ← idx content 4
    let _ ← idx content 5
    let _ ← idx content 6
    let _ ← idx content 7
    let _ ← slice content 8 12            -- [4]byte(content[8:12])
    let d ← slice content 12 47
    parseBase dl d
  else .err

/-! ### 0x66 tyre pressure monitoring (TPMS) alarm -/
/-- the `for` loop of `T0x0200AdditionExtension0x66.Parse`: `n` remaining rounds, `start = 41 + i*9` -/
def ext66Items (content : Bytes) : Nat → Nat → Res Unit
  | 0, _ => .ok ()
  | n + 1, start => do
    let _ ← idx content start                          -- content[start]
    let _ ← slice content (start + 1) (start + 3)      -- Uint16(content[start+1:start+3])
    let _ ← slice content (start + 3) (start + 5)
    let _ ← slice content (start + 5) (start + 7)
    let _ ← slice content (start + 7) (start + 9)
    ext66Items content n (start + 9)

/-- `T0x0200AdditionExtension0x66.Parse(0x66, content)` — as written: guard `len(content) >= 40`, then `content[40]`;
accepted length `40 + count*9`, loop over `content[41 : 41 + count*9]` -/
def parseExt66 (dl : Dialect) (content : Bytes) : Res Unit :=
  if content.length ≥ 40 then do
    let _ ← slice content 0 4
    let _ ← idx content 4
    let d ← slice content 5 40
    parseBase dl d
    let cnt ← idx content 40                           -- AlarmOrEventCount = content[40]
    if content.length = 40 + cnt.toNat * 9 then
      ext66Items content cnt.toNat 41
    else .err
  else .err

/-! ### 0x67 blind spot detection (BSD) alarm -/
/-- `T0x0200AdditionExtension0x67.Parse(0x67, content)` -/
def parseExt67 (dl : Dialect) (content : Bytes) : Res Unit :=
  if content.length = 25 + 16 then do
    let _ ← slice content 0 4
    let _ ← idx content 4
    let _ ← idx content 5
    let d ← slice content 6 41
    parseBase dl d
  else .err

/-! ### 0x70 aggressive driving alarm -/
/-- `T0x0200AdditionExtension0x70.Parse(0x70, content)` -/
def parseExt70 (dl : Dialect) (content : Bytes) : Res Unit :=
  if content.length = 31 + 16 then do
    let _ ← slice content 0 4
    let _ ← idx content 4
    let _ ← idx content 5
    let _ ← slice content 6 8             -- Uint16(content[6:8])
    let _ ← slice content 8 10
    let _ ← slice content 10 12
    let d ← slice content 12 47
    parseBase dl d
  else .err

/-- the contents on which `T0x0200AdditionExtension0x66.Parse` panics: the length is `40 + 9n` where `n` is the count
byte `content[40]` — read as 0 when it is absent, which is the case `len(content) = 40` (`content[40]` itself is out of
range); for `n ≥ 1` the last loop round reads `content[start+7:start+9]` one byte past the end -/
def ext66Panics (content : Bytes) : Bool :=
  content.length == 40 + (content.getD 40 0).toNat * 9

end JT.Codec4
