import JT.Model.AttStream
import JT.Model.Layout
/-!
# Outcome class of `Parse` for fifteen body decoders of `protocol/model`

For each decoder `X` of the list below, `parseX ctx b : Res Unit` is the OUTCOME CLASS of `(&model.X{}).Parse(jtMsg)`
on a FRESH receiver with `jtMsg.Body = b`:

* `.ok ()`  — `Parse` returns `nil`,
* `.err`    — `Parse` returns an error,
* `.panic`  — Go panics (slice bounds / index out of range).

EVERY slice expression `b[lo:hi]`, `b[lo:]`, index `b[i]` and `binary.BigEndian.UintN(b[i:])` of the Go code goes through
a checked accessor (`JT.Layout.slice`, `JT.AttStream.idx`, `be16At`, `JT.AttStream.be32At`) which yields `.panic` exactly
where Go would, in the order in which the Go code evaluates them. The values read are dropped unless a later guard or
index depends on them. String conversions (`string(..)`, GBK decoding, `bytes.Trim*`, `utils.BCD2Time`) cannot fail and
are not modelled: only the slicing that feeds them is.

Contexts: the protocol version is a `Nat` (`jtMsg.Header.ProtocolVersion`: 1 = 2011, 2 = 2013, 3 = 2019; any other
value is "none of the three constants", e.g. the zero value of an undecoded header), the active-safety dialect is a
`JT.AttStream.Dialect` (`getTerminalIDLen` / `getAlarmSignLen`).

Source: `/repo/protocol/model/{t_0x0002,p_0x8104,p_0x9003,t_0x0102,t_0x0100,p_0x8100,p_0x9101,p_0x9201,p_0x9206,
t_0x1205,p_0x9205,p_0x9202,p_0x8801,t_0x1005,p_0x9208}.go` at HEAD.
-/
namespace JT.Codec2
open JT
open JT.Layout (slice)
open JT.AttStream (idx be32At Dialect dialectOf parseSign)

/-- `binary.BigEndian.Uint16(b[i:])` / `binary.BigEndian.Uint16(b[i:i+2])`: needs the two bytes `i, i+1` -/
def be16At (b : Bytes) (i : Nat) : Res Nat := do
  let s ← slice b i (i + 2)
  pure (beN s)

/-! ### empty bodies -/
/-- `T0x0002` has no `Parse` of its own: `BaseHandle.Parse` returns `nil` -/
def parseT0x0002 (_ : Bytes) : Res Unit := .ok ()

/-- `P0x8104.Parse` returns `nil` -/
def parseP0x8104 (_ : Bytes) : Res Unit := .ok ()

/-- `P0x9003.Parse` returns `nil` -/
def parseP0x9003 (_ : Bytes) : Res Unit := .ok ()

/-! ### 0x0102 terminal authentication -/
/-- `T0x0102.Parse`: every version other than 2019 is read as 2013 (`AuthCode = string(body)`, no slicing) -/
def parseT0x0102 (ver : Nat) (b : Bytes) : Res Unit :=
  if ver = 3 then
    if b.length < 1 + 15 + 20 then .err else do
      let l ← idx b 0                                          -- body[0]
      if b.length < 1 + l.toNat + 15 + 20 then .err else do
        let codeEnd := 1 + l.toNat
        let _ ← slice b 1 codeEnd                              -- body[1:codeEnd]
        let _ ← slice b codeEnd (codeEnd + 15)                 -- body[codeEnd:codeEnd+15]
        let data ← slice b (codeEnd + 15) (codeEnd + 15 + 20)  -- body[codeEnd+15:codeEnd+15+20]
        match data.findIdx? (· = 0) with                       -- bytes.IndexByte(data, 0)
        | some i => do
          let _ ← slice data 0 i                               -- data[:index]
          pure ()
        | none => pure ()
  else .ok ()

/-! ### 0x0100 terminal registration -/
/-- the field reads of `T0x0100.Parse` after the length guards -/
def t0100Fields (mLen tLen tIDLen : Nat) (b : Bytes) : Res Unit := do
  let _ ← slice b 0 2                                                      -- body[:2]
  let _ ← slice b 2 4                                                      -- body[2:4]
  let _ ← slice b 4 (4 + mLen)                                             -- body[4:4+mLen]
  let _ ← slice b (4 + mLen) (4 + mLen + tLen)
  let _ ← slice b (4 + mLen + tLen) (4 + mLen + tLen + tIDLen)
  let _ ← idx b (4 + mLen + tLen + tIDLen)                                 -- PlateColor
  let _ ← slice b (4 + mLen + tLen + tIDLen + 1) b.length                  -- body[4+mLen+tLen+tIDLen+1:]
  pure ()

/-- `t.Version` after the `switch jtMsg.Header.ProtocolVersion` on a fresh receiver (zero value 0), with the three
field widths. The `switch` has no `default`: a version that is none of the three constants leaves `t.Version` at
its previous value (0 on a fresh receiver) and the widths at the 2011 defaults. -/
def t0100Version (ver : Nat) (b : Bytes) : Nat × Nat × Nat × Nat :=
  if ver = 3 then (3, 11, 30, 30)
  else if ver = 2 ∨ ver = 1 then
    if b.length > 36 then (2, 5, 20, 7) else (1, 5, 8, 7)
  else (0, 5, 8, 7)

/-- `T0x0100.Parse` -/
def parseT0x0100 (ver : Nat) (b : Bytes) : Res Unit :=
  match t0100Version ver b with
  | (version, mLen, tLen, tIDLen) =>
    if version = 1 ∧ b.length < 25 then .err
    else if version = 3 ∧ b.length < 76 then .err
    else t0100Fields mLen tLen tIDLen b

/-! ### 0x8100 registration reply -/
def parseP0x8100 (b : Bytes) : Res Unit :=
  if b.length < 3 then .err else do
    let _ ← slice b 0 2                 -- Uint16(body[:2])
    let _ ← idx b 2
    let _ ← slice b 3 b.length          -- body[3:]
    pure ()

/-! ### 0x9101 real-time audio/video request -/
def parseP0x9101 (b : Bytes) : Res Unit :=
  if b.length < 1 then .err else do
    let l ← idx b 0
    if b.length ≠ 1 + l.toNat + 7 then .err else do
      let n := l.toNat
      let _ ← slice b 1 (n + 1)
      let _ ← be16At b (n + 1)          -- Uint16(body[n+1:])
      let _ ← be16At b (n + 3)          -- Uint16(body[n+3:])
      let _ ← idx b (n + 5)
      let _ ← idx b (n + 6)
      let _ ← idx b (n + 7)
      pure ()

/-! ### 0x9201 remote playback request -/
def parseP0x9201 (b : Bytes) : Res Unit :=
  if b.length < 1 then .err else do
    let l ← idx b 0
    if b.length ≠ 1 + l.toNat + 2 + 2 + 1 + 1 + 1 + 1 + 1 + 1 + 6 + 6 then .err else do
      let n := l.toNat
      let _ ← slice b 1 (n + 1)
      let _ ← be16At b (n + 1)
      let _ ← be16At b (n + 3)
      let _ ← idx b (n + 5)
      let _ ← idx b (n + 6)
      let _ ← idx b (n + 7)
      let _ ← idx b (n + 8)
      let _ ← idx b (n + 9)
      let _ ← idx b (n + 10)
      let _ ← slice b (n + 11) (n + 11 + 6)
      let _ ← slice b (n + 11 + 6) (n + 11 + 6 + 6)
      pure ()

/-! ### 0x9206 file upload instruction -/
def parseP0x9206 (b : Bytes) : Res Unit :=
  if b.length < 1 then .err else do
    let l1 ← idx b 0                                   -- FTPAddrLen
    let start1 := 1
    let end1 := start1 + l1.toNat
    if b.length < end1 + 2 + 1 then .err else do
      let _ ← slice b start1 end1
      let _ ← slice b end1 (end1 + 2)                  -- Uint16(body[end:end+2])
      let l2 ← idx b (end1 + 2)                        -- UsernameLen
      let start2 := end1 + 2 + 1
      let end2 := start2 + l2.toNat
      if b.length < end2 + 1 then .err else do
        let _ ← slice b start2 end2
        let l3 ← idx b end2                            -- PasswordLen
        let start3 := end2 + 1
        let end3 := start3 + l3.toNat
        if b.length < end3 + 1 then .err else do
          let _ ← slice b start3 end3
          let l4 ← idx b end3                          -- FileUploadPathLen
          let start4 := end3 + 1
          let end4 := start4 + l4.toNat
          if b.length ≠ end4 + 1 + 6 + 6 + 8 + 1 + 1 + 1 + 1 then .err else do
            let _ ← slice b start4 end4
            let s := end4
            let _ ← idx b s
            let _ ← slice b (s + 1) (s + 7)
            let _ ← slice b (s + 7) (s + 13)
            let _ ← slice b (s + 13) (s + 21)          -- Uint64
            let _ ← idx b (s + 21)
            let _ ← idx b (s + 22)
            let _ ← idx b (s + 23)
            let _ ← idx b (s + 24)
            pure ()

/-! ### 0x1205 audio/video resource list -/
/-- the `for` loop of `T0x1205.Parse`: `n` remaining rounds, `start` the loop variable (`end = start + 28`) -/
def t1205Items (b : Bytes) : Nat → Nat → Res Unit
  | 0, _ => .ok ()
  | n + 1, start => do
    let cur ← slice b start (start + 28)               -- curData := body[start:end]
    let _ ← idx cur 0
    let _ ← slice cur 1 7
    let _ ← slice cur 7 13
    let _ ← slice cur 13 21
    let _ ← idx cur 21
    let _ ← idx cur 22
    let _ ← idx cur 23
    let _ ← slice cur 24 28
    t1205Items b n (start + 28)

/-- `T0x1205.Parse`. `int(uint32) * 28` does not overflow the 64-bit `int`. -/
def parseT0x1205 (b : Bytes) : Res Unit :=
  if b.length < 6 then .err else do
    let _ ← slice b 0 2
    let total ← be32At b 2                             -- Uint32(body[2:6])
    if b.length ≠ 6 + total * 28 then .err else
    t1205Items b total 6

/-! ### fixed-length bodies -/
def parseP0x9205 (b : Bytes) : Res Unit :=
  if b.length ≠ 24 then .err else do
    let _ ← idx b 0
    let _ ← slice b 1 (1 + 6)
    let _ ← slice b (1 + 6) (1 + 12)
    let _ ← slice b 13 (13 + 8)
    let _ ← idx b 21
    let _ ← idx b 22
    let _ ← idx b 23
    pure ()

def parseP0x9202 (b : Bytes) : Res Unit :=
  if b.length ≠ 9 then .err else do
    let _ ← idx b 0
    let _ ← idx b 1
    let _ ← idx b 2
    let _ ← slice b 3 9
    pure ()

def parseP0x8801 (b : Bytes) : Res Unit :=
  if b.length ≠ 12 then .err else do
    let _ ← idx b 0
    let _ ← slice b 1 3
    let _ ← slice b 3 5
    let _ ← idx b 5
    let _ ← idx b 6
    let _ ← idx b 7
    let _ ← idx b 8
    let _ ← idx b 9
    let _ ← idx b 10
    let _ ← idx b 11
    pure ()

def parseT0x1005 (b : Bytes) : Res Unit :=
  if b.length ≠ 16 then .err else do
    let _ ← slice b 0 6
    let _ ← slice b 6 12
    let _ ← slice b 12 14
    let _ ← slice b 14 16
    pure ()

/-! ### 0x9208 alarm attachment upload -/
/-- `P0x9208.Parse`; `dl.signLen = getAlarmSignLen()`, `dl.idLen = getTerminalIDLen()` (inside `parseSign`, which is
`P9208AlarmSign.parse`) -/
def parseP0x9208 (dl : Dialect) (b : Bytes) : Res Unit :=
  let sign := 1 + 2 + 2 + dl.signLen + 32
  if b.length < sign then .err else do
    let l ← idx b 0
    let k := l.toNat
    if sign + k > b.length then .err else do
      let _ ← slice b 1 (1 + k)
      let _ ← slice b (1 + k) (1 + k + 2)
      let _ ← slice b (3 + k) (3 + k + 2)
      let s ← slice b (5 + k) (5 + k + dl.signLen)
      parseSign dl s
      let _ ← slice b (sign + k - 32) (sign + k)
      let _ ← slice b (sign + k) b.length
      pure ()

end JT.Codec2
