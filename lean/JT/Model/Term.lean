import JT.Model.Frame
/-!
# Model of the terminal simulator (`terminal/terminal.go`, `terminal/option.go`)

`WithHeader(version, phone)`: the phone is left-padded with '0' to 12 (2019: 20) digits, written into a template
frame (`0002 0000 <phone> 0000`; 2019: `0002 4000 01 <phone> 0000 02`), the frame is decoded and its header kept
(for 2019 `Decode` reports a length inconsistency — the template carries one byte more than its length field
says — but the header has been filled in by then and the simulator keeps it). The phones in scope are decimal
digit strings of at most 12 (20) digits.

`CreateCommandData(cmd, body)` / `CreateDefaultCommandData(cmd)`: `PlatformSerialNumber++` (16 bit) and
`Header.Encode(body)` with `ReplyID = cmd`.
-/
namespace JT.Term
open JT JT.Frame

/-- two decimal digits per byte -/
def bcdOf : List Nat → Bytes
  | a :: b :: r => UInt8.ofNat (a * 16 + b) :: bcdOf r
  | _ => []

def padDigits (w : Nat) (ds : List Nat) : List Nat := List.replicate (w - ds.length) 0 ++ ds

/-- 1 = 2011, 2 = 2013, 3 = 2019 (`consts.ProtocolVersionType`) -/
def width (v : Nat) : Nat := if v = 3 then 20 else 12

/-- the header `WithHeader` leaves in the simulator -/
def withHeader (v : Nat) (ds : List Nat) : Header :=
  { id := 2, attr := if v = 3 then 16384 else 0, version := if v = 3 then 1 else 0, frag := 0, encrypt := 0,
    bodyLen := 0, bcd := bcdOf (padDigits (width v) ds), serial := 0, sum := 0, no := 0 }

/-- the 2011/2013 template frame as `WithHeader` assembles it: plain bytes, the checksum escaped by hand -/
def template2013 (ds : List Nat) : Bytes :=
  let d := [0x00, 0x02, 0x00, 0x00] ++ bcdOf (padDigits 12 ds) ++ [0x00, 0x00]
  let c := xorAll d
  [0x7e] ++ d ++ (if c = 0x7e then [0x7d, 0x02] else if c = 0x7d then [0x7d, 0x01] else [c]) ++ [0x7e]

structure T where
  h : Header
  /-- `header.PlatformSerialNumber`: the serial of the last generated frame -/
  serial : Nat

def new (v : Nat) (ds : List Nat) : T := ⟨withHeader v ds, 0⟩

/-- `CreateCommandData` -/
def create (t : T) (cmd : Nat) (body : Bytes) : T × Bytes :=
  let s := (t.serial + 1) % 65536
  ({ t with serial := s }, encode t.h cmd s body)

/-- a sequence of commands -/
def createAll (t : T) : List (Nat × Bytes) → T × List Bytes
  | [] => (t, [])
  | (c, b) :: r =>
    let (t1, f) := create t c b
    let (t2, fs) := createAll t1 r
    (t2, f :: fs)

end JT.Term
