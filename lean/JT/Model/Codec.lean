import JT.Basic.Bytes
/-!
# Counted-list message bodies: `P0x8003`, `P0x8800`, `T0x0805`, `P0x9212`

Mirrors the `Parse` / `Encode` pairs of `protocol/model/p_0x8003.go`, `p_0x8800.go`, `t_0x0805.go`,
`p_0x9212.go` on a fresh receiver (after the repairs D13, D14 and the list resets).
-/
namespace JT.Codec
open JT

/-- `c` numbers of `w` bytes each, read from the front of `b` (the loops `for i := 0; i < count; i++`) -/
def numsOf (w : Nat) : Nat → Bytes → List Nat
  | 0, _ => []
  | c + 1, b => beN (b.take w) :: numsOf w c (b.drop w)

def bytesOf (w : Nat) (ns : List Nat) : Bytes := ns.flatMap (toBE w)

/-! ### 0x8003 re-request: serial (2), count (1), package numbers (2 each) -/
structure P8003 where
  serial : Nat
  count : Nat
  list : List Nat
deriving Repr, DecidableEq

def parse8003 (b : Bytes) : Res P8003 :=
  if b.length < 3 then .err else
  let c := (b.getD 2 0).toNat
  if b.length ≠ 3 + 2 * c then .err else
  .ok ⟨be16 (b.getD 0 0) (b.getD 1 0), c, numsOf 2 c (b.drop 3)⟩

def encode8003 (v : P8003) : Bytes := toBE 2 v.serial ++ [UInt8.ofNat v.count] ++ bytesOf 2 v.list

/-! ### 0x8800 multimedia upload response: id (4), [count (1), package ids (2 each)] -/
structure P8800 where
  id : Nat
  count : Nat
  list : List Nat
deriving Repr, DecidableEq

def parse8800 (b : Bytes) : Res P8800 :=
  if b.length = 4 then .ok ⟨beN b, 0, []⟩ else
  if b.length < 5 then .err else
  let c := (b.getD 4 0).toNat
  if b.length ≠ 5 + 2 * c then .err else
  .ok ⟨beN (b.take 4), c, numsOf 2 c (b.drop 5)⟩

/-- `Encode` omits the count byte when the list is empty -/
def encode8800 (v : P8800) : Bytes :=
  toBE 4 v.id ++ (if v.list.isEmpty then [] else [UInt8.ofNat v.count] ++ bytesOf 2 v.list)

/-! ### 0x0805 camera response: serial (2), result (1), count (2), multimedia ids (4 each) -/
structure T0805 where
  serial : Nat
  result : Nat
  count : Nat
  list : List Nat
deriving Repr, DecidableEq

def parse0805 (b : Bytes) : Res T0805 :=
  if b.length < 5 then .err else
  let c := be16 (b.getD 3 0) (b.getD 4 0)
  if b.length ≠ 5 + c * 4 then .err else
  .ok ⟨be16 (b.getD 0 0) (b.getD 1 0), (b.getD 2 0).toNat, c, numsOf 4 c (b.drop 5)⟩

def encode0805 (v : T0805) : Bytes :=
  toBE 2 v.serial ++ [UInt8.ofNat v.result] ++ toBE 2 v.count ++ bytesOf 4 v.list

/-! ### 0x9212 upload-complete response: name length (1), name, type (1), result (1), count (1), ranges (4+4 each) -/
structure P9212 where
  nameLen : Nat
  name : Bytes
  ftype : Nat
  result : Nat
  count : Nat
  /-- offset, length, offset, length, … -/
  ranges : List Nat
deriving Repr, DecidableEq

def parse9212 (b : Bytes) : Res P9212 :=
  if b.length < 4 then .err else
  let l := (b.getD 0 0).toNat
  if b.length < 4 + l then .err else
  let c := (b.getD (3 + l) 0).toNat
  if b.length ≠ 4 + l + 8 * c then .err else
  .ok ⟨l, (b.drop 1).take l, (b.getD (1 + l) 0).toNat, (b.getD (2 + l) 0).toNat, c, numsOf 4 (2 * c) (b.drop (4 + l))⟩

def encode9212 (v : P9212) : Bytes :=
  [UInt8.ofNat v.nameLen] ++ v.name ++ [UInt8.ofNat v.ftype, UInt8.ofNat v.result, UInt8.ofNat v.count] ++ bytesOf 4 v.ranges

end JT.Codec
