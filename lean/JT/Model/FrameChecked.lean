import JT.Model.Frame
import JT.Model.AttStream
/-!
# `Header.decode` + the tail of `JTMessage.Decode` with checked accesses

`JT/Model/Frame.lean` models the decoder with total accessors (`getD`, `drop`, `take`) behind the length guards of the
code. Here the same function is written the way the Go code accesses memory — every `data[a:b]`, `data[i]` and
`binary.BigEndian.Uint16(data[a:b])` through an accessor that yields `panic` where Go would — and
`JT/Proof/FrameChecked.lean` proves the two equal: the guards of the code do cover every access.
-/
namespace JT.Frame
open JT
open JT.Layout (slice)
open JT.AttStream (idx)

def be16At (b : Bytes) (i : Nat) : Res Nat := do
  let s ← slice b i (i + 2)
  pure (beN s)

def decodePlainC (p : Bytes) : Res Msg :=
  if p.length < 4 then .err else do
  let id ← be16At p 0
  let attr ← be16At p 2
  let version := attr / 16384 % 2
  let frag := attr / 8192 % 2
  let encrypt := attr / 1024 % 2
  let bodyLen := attr % 1024
  let start := if version = 1 then 5 else 4
  let phoneLen := if version = 1 then 10 else 6
  if p.length < start + phoneLen + 2 then .err else do
  let bcd ← slice p start (start + phoneLen)
  let serial ← be16At p (start + phoneLen)
  if frag = 1 ∧ p.length < start + phoneLen + 6 then .err else do
  let sum ← if frag = 1 then be16At p (start + phoneLen + 2) else pure 0
  let no ← if frag = 1 then be16At p (start + phoneLen + 4) else pure 0
  let headEnd := start + phoneLen + 2 + (if frag = 1 then 4 else 0)
  let e := headEnd + bodyLen
  if e + 1 ≠ p.length then .err else do
  let body ← slice p headEnd e
  let v ← idx p e
  pure { h := { id, attr, version, frag, encrypt, bodyLen, bcd, serial, sum, no }, body := body, verify := v }

end JT.Frame
