import JT.Model.AttStream
import JT.Model.Layout
import JT.Gen.ParamTable
/-!
# Terminal parameters: `TerminalParamDetails.parse` / `.encode`, `P0x8103`, `T0x0104`

`protocol/model/t_terminal_params.go`. A parameter list is a sequence of items `id (4) | len (1) | content (len)`.
`parse(count, body)` walks the items; for an ID named in `parseParam`'s `switch` the clause may demand an exact length
(`if paramLen != N { return err }`) and then reads a fixed number of bytes of `content`; every other ID is kept as raw
bytes. After the walk `count` (a `uint8` decremented once per item, wrapping) must be 0.

The per-ID facts — demanded length (`guard`), bytes read (`read`), kind, whether the value is stored — are NOT written
here: they are `JT.Gen.paramTable`, regenerated from the Go source on every run. The model reads `content` through the
length it has, so a clause that reads more than its guard guarantees is a `.panic` of the model
(`parseParam`), and "the parser never panics" is a theorem about the generated table (`JT/Proof/Params.lean`).

Value level: the result of a successful parse is the list of items in arrival order. The Go struct is a function of
that list (a field holds the LAST item with its ID, `OtherContent` the last item per unknown ID); `encodeDetails` is the
reflection walk of `encode()`: the fields in declaration order (`JT.Gen.paramFieldOrder`), the `OtherContent` map in
ascending ID order at its position in the struct. Contents are kept as the raw bytes received: for the numeric kinds
`Encode` re-renders exactly those bytes (the guard fixes their number), for strings Go converts GBK→UTF-8→GBK, which is
the identity on GBK text and is not modelled (the correspondence check uses GBK-encodable text).
-/
namespace JT.Params
open JT
open JT.Layout (slice)
open JT.AttStream (idx)

structure Item where
  id : Nat
  len : Nat
  val : Bytes
deriving DecidableEq, Repr

/-- the row of the generated table for `id`: (guard, read, kind, stored) -/
def lookup (id : Nat) : Option (Nat × Nat × String × Bool) :=
  (Gen.paramTable.find? (·.1 = id)).map (·.2)

/-- `parseParam(id, paramLen, content)`: outcome only (the value stored is `content` itself, see the header) -/
def parseParam (id len : Nat) (content : Bytes) : Res Unit :=
  match lookup id with
  | some (guard, read, _, _) =>
    if guard ≠ 0 ∧ len ≠ guard then .err
    else if content.length < read then .panic        -- `binary.BigEndian.Uint32(content)`, `content[0]`, `[4]byte(content)` …
    else .ok ()
  | none => .ok ()

/-- the `for index < len(body)` loop on `rest = body[index:]`; `count` is the `uint8` counter -/
def loop : Nat → Nat → Bytes → List Item → Res (List Item × Nat)
  | 0, count, _, acc => .ok (acc.reverse, count)
  | fuel + 1, count, rest, acc =>
    if rest.length = 0 then .ok (acc.reverse, count)
    else if rest.length < 5 then .err                           -- index+5 > len(body)
    else do
      let idb ← slice rest 0 4                                  -- body[index:index+4]
      let l ← idx rest 4                                        -- body[index+4]
      if 5 + l.toNat > rest.length then .err                    -- end > len(body)
      else do
        let content ← slice rest 5 (5 + l.toNat)                -- body[start:end]
        parseParam (beN idb) l.toNat content
        loop fuel ((count + 255) % 256) (rest.drop (5 + l.toNat)) (⟨beN idb, l.toNat, content⟩ :: acc)

/-- `(*TerminalParamDetails).parse(count, body)` -/
def parseDetails (count : Nat) (body : Bytes) : Res (List Item) := do
  let r ← loop body.length count body []
  if r.2 ≠ 0 then .err else .ok r.1

/-- `P0x8103.Parse`: `body[0]` is the count -/
def parse8103 (b : Bytes) : Res (Nat × List Item) :=
  if b.length < 1 then .err else do
    let c ← idx b 0
    let rest ← slice b 1 b.length
    let items ← parseDetails c.toNat rest
    .ok (c.toNat, items)

/-- `T0x0104.Parse`: serial (2), count (1), items -/
def parse0104 (b : Bytes) : Res (Nat × Nat × List Item) :=
  if b.length < 3 then .err else do
    let s ← slice b 0 2
    let c ← idx b 2
    let rest ← slice b 3 b.length
    let items ← parseDetails c.toNat rest
    .ok (beN s, c.toNat, items)

/-! ### `encode` -/

/-- `ParamContent.encode`: nothing for an absent parameter (`ID == 0 && Len == 0`), the 5-byte head alone for length 0 -/
def encodeItem (it : Item) : Bytes :=
  if it.id = 0 ∧ it.len = 0 then []
  else toBE 4 it.id ++ [UInt8.ofNat it.len] ++ (if it.len = 0 then [] else it.val)

/-- the struct field / map entry for `id` after the walk: the last item with that ID -/
def last (items : List Item) (id : Nat) : Option Item := items.reverse.find? (·.id = id)

def known (id : Nat) : Bool := (lookup id).isSome

/-- insertion into an ascending list without duplicates (`sort.Ints` over the keys of a map) -/
def insertAsc (x : Nat) : List Nat → List Nat
  | [] => [x]
  | y :: r => if x < y then x :: y :: r else if x = y then y :: r else y :: insertAsc x r

def otherIds (items : List Item) : List Nat :=
  (items.filter (fun it => !known it.id)).foldl (fun acc it => insertAsc it.id acc) []

/-- `(*TerminalParamDetails).encode()` -/
def encodeDetails (items : List Item) : Bytes :=
  Gen.paramFieldOrder.flatMap fun f =>
    if f.1 = "other" then
      (otherIds items).flatMap fun i => match last items i with | some it => encodeItem it | none => []
    else if f.2 = 0 then []                                   -- a field no clause of the parser fills
    else match last items f.2 with
      | some it => encodeItem it
      | none => []

def encode8103 (v : Nat × List Item) : Bytes := UInt8.ofNat v.1 :: encodeDetails v.2

/-- the table is safe: a clause that reads `read > 0` bytes of `content` has demanded `paramLen = guard ≥ read` -/
def tableSafe (t : List (Nat × Nat × Nat × String × Bool)) : Bool :=
  t.all fun r => r.2.2.1 = 0 || (r.2.1 ≠ 0 && r.2.2.1 ≤ r.2.1)

end JT.Params
