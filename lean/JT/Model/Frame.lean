import JT.Basic.Bytes
/-!
# Model of `protocol/jt808`: escape / unescape / checksum / header / `JTMessage.Decode` / `Header.Encode`

Mirrors `protocol/jt808/packet_codec.go` and `protocol/jt808/jt808.go` of /repo.
-/
namespace JT.Frame

/-- `escape` without the two delimiters. -/
def escBody : Bytes → Bytes
  | [] => []
  | b :: r =>
    if b = 0x7e then 0x7d :: 0x02 :: escBody r
    else if b = 0x7d then 0x7d :: 0x01 :: escBody r
    else b :: escBody r

/-- `escape(data)`: `7e`, escaped bytes, `7e`. -/
def escape (d : Bytes) : Bytes := 0x7e :: (escBody d ++ [0x7e])

/-- the loop of `unescape` on the bytes strictly between the delimiters.
A lone `7d` as the very last inner byte is tolerated (unescaped checksum);
`7d` followed by anything but `01`/`02` is an error. -/
def unescBody : Bytes → Option Bytes
  | [] => some []
  | [b] => some [b]
  | b :: c :: r =>
    if b = 0x7d then
      if c = 0x01 then (unescBody r).map (0x7d :: ·)
      else if c = 0x02 then (unescBody r).map (0x7e :: ·)
      else none
    else (unescBody (c :: r)).map (b :: ·)

/-- the inner bytes of a delimited string, when `len > 2 ∧ first = 7e ∧ last = 7e`. -/
def inner? (f : Bytes) : Option Bytes :=
  match f with
  | b :: r =>
    if b = 0x7e ∧ 2 ≤ r.length ∧ r.getLast? = some 0x7e then some r.dropLast else none
  | [] => none

/-- `unescape(data)` -/
def unescape (f : Bytes) : Option Bytes :=
  match inner? f with
  | none => none
  | some i => unescBody i

structure Header where
  id : Nat
  /-- raw 16-bit attribute word -/
  attr : Nat
  /-- bit 14 -/
  version : Nat
  /-- bit 13 -/
  frag : Nat
  /-- bit 10 only (the code masks 0x400) -/
  encrypt : Nat
  /-- low ten bits -/
  bodyLen : Nat
  /-- 6 (2013) or 10 (2019) BCD bytes as received -/
  bcd : Bytes
  serial : Nat
  sum : Nat
  no : Nat
deriving Repr, DecidableEq

structure Msg where
  h : Header
  body : Bytes
  verify : Byte
deriving Repr, DecidableEq

/-- `Header.decode` followed by the length check of `JTMessage.Decode`, on unescaped data. -/
def decodePlain (p : Bytes) : Res Msg :=
  if p.length < 4 then .err else
  let id := be16 (p.getD 0 0) (p.getD 1 0)
  let attr := be16 (p.getD 2 0) (p.getD 3 0)
  let version := attr / 16384 % 2
  let frag := attr / 8192 % 2
  let encrypt := attr / 1024 % 2
  let bodyLen := attr % 1024
  let start := if version = 1 then 5 else 4
  let phoneLen := if version = 1 then 10 else 6
  if p.length < start + phoneLen + 2 then .err else
  let bcd := (p.drop start).take phoneLen
  let serial := be16 (p.getD (start + phoneLen) 0) (p.getD (start + phoneLen + 1) 0)
  if frag = 1 ∧ p.length < start + phoneLen + 6 then .err else
  let sum := if frag = 1 then be16 (p.getD (start + phoneLen + 2) 0) (p.getD (start + phoneLen + 3) 0) else 0
  let no := if frag = 1 then be16 (p.getD (start + phoneLen + 4) 0) (p.getD (start + phoneLen + 5) 0) else 0
  let headEnd := start + phoneLen + 2 + (if frag = 1 then 4 else 0)
  let e := headEnd + bodyLen
  if e + 1 ≠ p.length then .err else
  .ok { h := { id, attr, version, frag, encrypt, bodyLen, bcd, serial, sum, no }
        body := (p.drop headEnd).take bodyLen
        verify := p.getD e 0 }

/-- `JTMessage.Decode` on a fresh message. -/
def decode (f : Bytes) : Res Msg :=
  match unescape f with
  | none => .err
  | some p => if xorAll p ≠ 0 then .err else decodePlain p

/-- the bytes `Header.Encode` builds before the checksum is appended.
`h` is a decoded header; `rid` = `ReplyID`, `ser` = `PlatformSerialNumber`.
`fragKept` is what the code does with bit 13 when the body has 1000 bytes or more. -/
def encodePlain (h : Header) (rid ser : Nat) (body : Bytes) : Bytes :=
  let id := if rid = 0 then h.id else rid
  let frag := 0
  let attr := (h.version * 16384 + frag * 8192 + h.encrypt * 1024) ||| (body.length % 65536)
  toBE 2 id ++ toBE 2 (attr % 65536)
    ++ (if h.version = 1 then [0x01] else [])
    ++ h.bcd ++ toBE 2 ser ++ body

/-- `Header.Encode(body)` -/
def encode (h : Header) (rid ser : Nat) (body : Bytes) : Bytes :=
  let d := encodePlain h rid ser body
  escape (d ++ [xorAll d])

end JT.Frame
