/-!
# Session registry: at most one live connection per terminal key

Model of `service/session_manager.go` + the connection life cycle of `service/connection.go`.
Every registry operation (`join`, `leave`, `write`) is a closure executed by the single session-manager
goroutine, so operations are atomic and a history of the system is a list of operations in the order the
manager ran them — every interleaving of connection goroutines and callers yields such a list.

A connection joins with the key of its first handled message; a join for a key that is online is refused and
that connection ends without ever owning a key (it leaves with the empty key, which frees nothing); a
connection that ends leaves with the key it joined with.
-/
namespace JT.Reg

/-- life cycle of one connection -/
inductive CState where
  | fresh
  | joined (key : Nat)
  | refused
  | gone
deriving DecidableEq, Repr

structure St where
  /-- registry: key ↦ owning connection -/
  owner : Nat → Option Nat
  conn : Nat → CState

def init : St := ⟨fun _ => none, fun _ => .fresh⟩

inductive Op where
  /-- connection `c` handles its first message, which carries key `k` -/
  | join (c k : Nat)
  /-- connection `c` ends (peer closed, error, refused …) -/
  | leave (c : Nat)
  /-- a caller sends a platform command to key `k` -/
  | route (k : Nat)
deriving DecidableEq, Repr

inductive Out where
  | joined (c k : Nat)          -- join callback with nil error
  | refusedOut (c k : Nat)      -- join callback with the key-exists error; the connection is closed
  | left (c : Nat) (k : Option Nat)  -- leave callback (with the key the connection owned, if any)
  | routed (k c : Nat)          -- command handed to connection c
  | notExist (k : Nat)          -- not-exist error, at once
  | ignored
deriving DecidableEq, Repr

def updO (f : Nat → Option Nat) (k : Nat) (v : Option Nat) : Nat → Option Nat := fun x => if x = k then v else f x
def updC (f : Nat → CState) (c : Nat) (v : CState) : Nat → CState := fun x => if x = c then v else f x

def step (s : St) : Op → St × Out
  | .join c k =>
    match s.conn c with
    | .fresh =>
      match s.owner k with
      | some _ => ({ s with conn := updC s.conn c .refused }, .refusedOut c k)
      | none => ({ owner := updO s.owner k (some c), conn := updC s.conn c (.joined k) }, .joined c k)
    | _ => (s, .ignored)          -- only the first handled message joins
  | .leave c =>
    match s.conn c with
    | .joined k => ({ owner := updO s.owner k none, conn := updC s.conn c .gone }, .left c (some k))
    | .gone => (s, .ignored)      -- `stopOnce`
    | _ => ({ s with conn := updC s.conn c .gone }, .left c none)
  | .route k =>
    match s.owner k with
    | some c => (s, .routed k c)
    | none => (s, .notExist k)

def run : St → List Op → St × List Out
  | s, [] => (s, [])
  | s, o :: r =>
    let (s1, out) := step s o
    let (s2, outs) := run s1 r
    (s2, out :: outs)

end JT.Reg
