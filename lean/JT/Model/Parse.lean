import JT.Model.Frame
/-!
# Model of `service/packet_parse.go`: stream framing (`unpack`), sub-package reassembly
(`completePack`), expiry and re-request (`deleteTimeoutPackage`, `supplementarySubPackage`), `parse`.

Time is a parameter (`now`, in milliseconds). The implementation compares wall-clock instants with
`After` (strict); the harness moves the stored instants back by whole seconds while a few microseconds
of real time pass, so "strictly more than 5 s have passed" is `update + 5000 ≤ now` on the integer
times of the model (and likewise for 60 s).
-/
namespace JT.Parse
open JT JT.Frame

/-- a message as `parse` returns it -/
structure PMsg where
  h : Header
  body : Bytes
  /-- `ExtensionFields.SubcontractComplete` -/
  complete : Bool
  /-- `ExtensionFields.TerminalData` -/
  raw : Bytes
deriving Repr, DecidableEq

structure Transfer where
  id : Nat
  slots : List Bytes
  create : Nat
  update : Nat
  /-- header of packet 1 (`initHeader`) -/
  hdr : Header
deriving Repr, DecidableEq

structure PState where
  hist : Bytes
  recs : List Transfer
deriving Repr

def PState.empty : PState := ⟨[], []⟩

/-- index of the first `7e` -/
def idx7e : Bytes → Option Nat
  | [] => none
  | b :: r => if b = 0x7e then some 0 else (idx7e r).map (· + 1)

/-- end (exclusive) of the first delimited candidate frame in the buffer -/
def findEnd (h : Bytes) : Option Nat :=
  if h.length > 2 ∧ h.head? = some 0x7e then (idx7e h.tail).map (· + 2) else none

/-- the buffered loop of `unpack` -/
def loop : Nat → Bytes → List PMsg → List PMsg × Bool × Bytes
  | 0, h, acc => (acc, false, h)
  | fuel + 1, h, acc =>
    match findEnd h with
    | none => (acc, false, h)
    | some e =>
      let fr := h.take e
      match decode fr with
      | .ok m =>
        let pm : PMsg := ⟨m.h, m.body, false, fr⟩
        if e = h.length then (acc ++ [pm], false, [])
        else loop fuel (h.drop e) (acc ++ [pm])
      | _ => (acc, true, h.drop e)

def count7e (d : Bytes) : Nat := (d.filter (· = 0x7e)).length

/-- `unpack`: messages, error flag, new history -/
def unpack (hist data : Bytes) : List PMsg × Bool × Bytes :=
  if hist.isEmpty ∧ data.length > 2 ∧ data.getLast? = some 0x7e ∧ count7e data = 2 then
    match decode data with
    | .ok m => ([⟨m.h, m.body, false, data⟩], false, [])
    | _ => ([], true, [])
  else
    let h := hist ++ data
    loop (h.length + 1) h []

def findRec (recs : List Transfer) (id : Nat) : Option Transfer := recs.find? (·.id = id)
def removeRec (recs : List Transfer) (id : Nat) : List Transfer := recs.filter (·.id ≠ id)

/-- outcome of `completePack` for one message -/
inductive CP where
  | none
  | done (data : Bytes)
  | panic
deriving Repr, DecidableEq

/-- `completePack` (after the D11 repair: package number 0 is ignored like a number beyond the total; after the D28
repair: so is a package that announces another total than the transfer under way) -/
def completePack (now : Nat) (recs : List Transfer) (m : PMsg) : List Transfer × CP :=
  let sum := m.h.sum
  if sum = 0 then (recs, .none) else
  let id := m.h.id
  let seq := m.h.no
  let recs1 := if seq = 1 then removeRec recs id ++ [⟨id, List.replicate sum [], now, now, m.h⟩] else recs
  match findRec recs1 id with
  | none => (recs1, .none)
  | some t =>
    if seq = 0 ∨ seq > t.slots.length ∨ sum ≠ t.slots.length then (recs1, .none) else
    let slots := t.slots.set (seq - 1) m.body
    let t' := { t with slots := slots, update := now }
    let received := (slots.filter (fun s => !s.isEmpty)).length
    if received = sum then
      (removeRec recs1 id, .done (slots.take sum).flatten)
    else
      (recs1.map (fun x => if x.id = id then t' else x), .none)

/-- run `completePack` over the unpacked messages, in order; a completion also replaces the body of
the packet that completed it (both share one `JTMessage`). -/
def completeAll (now : Nat) : List Transfer → List PMsg → List PMsg → List PMsg → List Transfer × List PMsg × List PMsg × Bool
  | recs, [], seen, comps => (recs, seen, comps, false)
  | recs, m :: r, seen, comps =>
    match completePack now recs m with
    | (recs', .none) => completeAll now recs' r (seen ++ [m]) comps
    | (recs', .done data) =>
      completeAll now recs' r (seen ++ [{ m with body := data }]) (comps ++ [⟨m.h, data, true, data⟩])
    | (recs', .panic) => (recs', seen, comps, true)

/-- body of the 0x8003 re-request -/
def body8003 (serial : Nat) (missing : List Nat) : Bytes :=
  toBE 2 serial ++ [UInt8.ofNat missing.length] ++ missing.flatMap (toBE 2)

def missingOf (slots : List Bytes) : List Nat :=
  (slots.zipIdx.filter (fun p => p.1.isEmpty)).map (fun p => p.2 + 1)

/-- `supplementarySubPackage` for one stale transfer: the message handed to the writer -/
def reRequest (t : Transfer) : PMsg :=
  let body := body8003 t.hdr.serial (missingOf t.slots)
  let frame := encode { t.hdr with frag := 0 } 0x8003 0 body
  match decode frame with
  | .ok m => ⟨m.h, m.body, false, frame⟩
  | _ => ⟨{ t.hdr with id := 0, attr := 0, version := 0, frag := 0, encrypt := 0, bodyLen := 0, bcd := [], serial := 0, sum := 0, no := 0 }, [], false, frame⟩

/-- `deleteTimeoutPackage`: transfers that began 60 s ago or earlier are dropped -/
def expire (now : Nat) (recs : List Transfer) : List Transfer :=
  recs.filter (fun t => ¬ (t.create + 60000 ≤ now))

/-- transfers for which nothing has arrived (and nothing was re-requested) for 5 s -/
def stale (now : Nat) (recs : List Transfer) : List Transfer :=
  recs.filter (fun t => t.update + 5000 ≤ now)

/-- a re-request counts as activity: `v.updateTime = time.Now()` -/
def touch (now : Nat) (recs : List Transfer) : List Transfer :=
  recs.map (fun t => if t.update + 5000 ≤ now then { t with update := now } else t)

/-- the timer part of `parse`: expiry, then re-requests -/
def tick (now : Nat) (recs : List Transfer) : List Transfer × List PMsg :=
  let r2 := expire now recs
  (touch now r2, (stale now r2).map reRequest)

/-- `parse(data)` at time `now`: delivered messages (unpacked ++ completed), re-requests, error flag, panic flag -/
def parse (now : Nat) (st : PState) (data : Bytes) : PState × List PMsg × List PMsg × Bool × Bool :=
  let (ms, err, hist') := unpack st.hist data
  let (recs1, seen, comps, pn) := completeAll now st.recs ms [] []
  if pn then (⟨hist', recs1⟩, [], [], err, true) else
  let (recs3, reqs) := tick now recs1
  (⟨hist', recs3⟩, seen ++ comps, reqs, err, false)

end JT.Parse
