import JT.Basic.Bytes
import JT.Gen.BitTables
import JT.Gen.AddLen
/-!
# Model of `T0x0200LocationItem.parse`, the flag-word decoders and `T0x0200AdditionDetails.parse/decode`

Mirrors `protocol/model/t_0x0200_location_item.go` and `t_0x0200_addition.go` on a fresh receiver.
The bit tables and the admissible-length table are NOT written here: they are regenerated from the
source on every run (`JT/Gen/BitTables.lean`, `JT/Gen/AddLen.lean`).
-/
namespace JT.Loc
open JT

/-- `fmt.Sprintf("%.<width>b", w)[k] == '1'`: character `k` of the zero-padded binary rendering is bit
`width-1-k` of `w` (assumed; validated by the correspondence check over all single bits and pairs). -/
def charIsOne (width w k : Nat) : Bool := k < width ∧ w / 2 ^ (width - 1 - k) % 2 = 1

/-- names of the fields the code sets to `true` -/
def flagsOf (width : Nat) (tbl : List (Nat × String)) (w : Nat) : List String :=
  (tbl.filter (fun e => charIsOne width w e.1)).map (·.2)

structure Loc where
  alarm : Nat
  status : Nat
  lat : Nat
  lon : Nat
  alt : Nat
  speed : Nat
  dir : Nat
  /-- 6 BCD bytes -/
  time : Bytes
deriving Repr, DecidableEq

def be32At (b : Bytes) (i : Nat) : Nat := be32 (b.getD i 0) (b.getD (i + 1) 0) (b.getD (i + 2) 0) (b.getD (i + 3) 0)
def be16At (b : Bytes) (i : Nat) : Nat := be16 (b.getD i 0) (b.getD (i + 1) 0)

/-- `T0x0200LocationItem.parse` -/
def parseLoc (b : Bytes) : Res Loc :=
  if b.length < 28 then .err else
  .ok { alarm := be32At b 0, status := be32At b 4, lat := be32At b 8, lon := be32At b 12,
        alt := be16At b 16, speed := be16At b 18, dir := be16At b 20, time := (b.drop 22).take 6 }

/-- `utils.BCD2Time` for 6 bytes: "20YY-MM-DD hh:mm:ss" with each nibble rendered as `'0' + nibble` -/
def bcd2time (t : Bytes) : String :=
  let d := t.flatMap fun x => [Char.ofNat (48 + x.toNat / 16), Char.ofNat (48 + x.toNat % 16)]
  let g := fun (i : Nat) => String.ofList [d.getD i '0', d.getD (i + 1) '0']
  s!"20{g 0}-{g 2}-{g 4} {g 6}:{g 8}:{g 10}"

/-- two-bit load field as the code computes it (`data[23]`, `data[22]`) -/
def cargoOf (w : Nat) : Nat :=
  let c23 := charIsOne 32 w 23
  let c22 := charIsOne 32 w 22
  if !c23 && !c22 then 0 else if !c23 && c22 then 1 else if c23 && !c22 then 2 else 3

/-- admissible-length test `contrastFunc` from the regenerated table -/
def lenOk (tbl : List (Nat × List Nat)) (id len : Nat) : Bool :=
  match tbl.find? (·.1 = id) with
  | some e => e.2.contains len
  | none => true

structure Item where
  id : Nat
  len : Nat
  data : Bytes
  /-- decoded named values (empty for unknown ids) -/
  vals : List (String × Nat)
  flags : List String
deriving Repr, DecidableEq

/-- `decode(id, content)`; `panic` where the Go code indexes past the content -/
def decodeItem (id : Nat) (c : Bytes) : Res (List (String × Nat) × List String) :=
  let need (n : Nat) (v : List (String × Nat) × List String) : Res (List (String × Nat) × List String) :=
    if c.length < n then .panic else .ok v
  match id with
  | 0x01 => need 4 ([("Mile", be32At c 0)], [])
  | 0x02 => need 2 ([("Oil", be16At c 0)], [])
  | 0x03 => need 2 ([("Speed", be16At c 0)], [])
  | 0x04 => need 2 ([("ManualAlarm", be16At c 0)], [])
  | 0x05 => .ok ((c.zipIdx.filter (fun p => p.1 ≠ 0)).map (fun p => (s!"Tire{p.2}", p.1.toNat)), [])
  | 0x06 => need 2 ([("CarTemperature", be16At c 0)], [])
  | 0x11 =>
    if c.length < 1 then .panic else
    let t := (c.getD 0 0).toNat
    if t = 0 then .ok ([("LocationType", 0), ("AreaID", 0)], [])
    else if c.length < 5 then .ok ([("LocationType", t), ("AreaID", 0)], [])
    else .ok ([("LocationType", t), ("AreaID", be32At c 0)], [])
  | 0x12 => need 6 ([("LocationType", (c.getD 0 0).toNat), ("AreaID", be32At c 1), ("Direction", (c.getD 5 0).toNat)], [])
  | 0x13 => need 7 ([("RoadSectionID", be32At c 0), ("RoadSectionDrivingTimeSecond", be16At c 4), ("Result", (c.getD 6 0).toNat)], [])
  | 0x25 => need 4 ([("Value", be32At c 0)], flagsOf 32 Gen.extVehicleBits (be32At c 0))
  | 0x2A => need 2 ([("Value", be16At c 0)], flagsOf 16 Gen.ioBits (be16At c 0))
  | 0x2B => need 4 ([("Analog", be32At c 0)], [])
  | 0x30 => need 1 ([("WIFISignalStrength", (c.getD 0 0).toNat)], [])
  | 0x31 => need 1 ([("GNSSPositionNum", (c.getD 0 0).toNat)], [])
  | _ => .ok ([], [])

/-- the TLV loop of `T0x0200AdditionDetails.parse` (items in wire order; the map keeps the last per id) -/
def parseAdds (tbl : List (Nat × List Nat)) : Nat → Bytes → Res (List Item)
  | 0, _ => .ok []
  | fuel + 1, b =>
    match b with
    | [] => .ok []
    | [_] => .err
    | id :: l :: rest =>
      if !lenOk tbl id.toNat l.toNat then .err
      else if rest.length < l.toNat then .err
      else
        match decodeItem id.toNat (rest.take l.toNat) with
        | .panic => .panic
        | .err => .err
        | .ok (vals, flags) =>
          match parseAdds tbl fuel (rest.drop l.toNat) with
          | .ok items => .ok (⟨id.toNat, l.toNat, rest.take l.toNat, vals, flags⟩ :: items)
          | .err => .err
          | .panic => .panic

/-- keep the last item of every id, ordered by id (the Go map) -/
def lastWins (items : List Item) : List Item :=
  let ids := (items.map (·.id)).eraseDups
  let keep := ids.filterMap (fun i => (items.reverse.find? (·.id = i)))
  keep.mergeSort (fun a b => a.id ≤ b.id)

/-- `T0x0200.Parse` on a fresh receiver -/
def parse0200 (b : Bytes) : Res (Loc × List Item) :=
  match parseLoc b with
  | .ok l =>
    if b.length > 28 then
      match parseAdds Gen.addLens (b.length) (b.drop 28) with
      | .ok items => .ok (l, lastWins items)
      | .err => .err
      | .panic => .panic
    else .ok (l, [])
  | .err => .err
  | .panic => .panic

end JT.Loc
