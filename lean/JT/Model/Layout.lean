import JT.Basic.Bytes
import JT.Gen.Layouts
/-!
# Fixed-layout message bodies: a generic model of `Parse` / `Encode` pairs

A fixed layout is a body length `n` and a list of fields `(lo, hi, name)`. `Parse` checks `len(body) == n`
and reads bytes `[lo, hi)` of the body into field `name` (`body[i]`, `binary.BigEndian.UintK(body[lo:hi])`,
`utils.BCD2Time(body[lo:hi])`); `Encode` writes the field back to the same bytes. The field tables are
REGENERATED from the Go source on every run (`JT/Gen/Layouts.lean`).
Go's `b[lo:hi]` panics when `hi > len(b)`: the reader below returns `panic` in that case, so that
"Parse never panics" is a theorem about the guard, not a consequence of totalisation.
-/
namespace JT.Layout
open JT

abbrev Field := Nat × Nat × String

/-- Go `b[lo:hi]` -/
def slice (b : Bytes) (lo hi : Nat) : Res Bytes :=
  if lo ≤ hi ∧ hi ≤ b.length then .ok ((b.drop lo).take (hi - lo)) else .panic

def readAll (b : Bytes) : List Field → Res (List Bytes)
  | [] => .ok []
  | (lo, hi, _) :: r =>
    match slice b lo hi with
    | .ok c =>
      match readAll b r with
      | .ok cs => .ok (c :: cs)
      | .err => .err
      | .panic => .panic
    | .err => .err
    | .panic => .panic

/-- `Parse`: the raw bytes of every field, in field order -/
def parseL (n : Nat) (fs : List Field) (b : Bytes) : Res (List Bytes) :=
  if b.length ≠ n then .err else readAll b fs

/-- `Encode`: the fields written back to back (for a tiling this is "each field at its own offset") -/
def encodeL (v : List Bytes) : Bytes := v.flatten

/-- the fields tile `[0, n)`: the first starts at `start`, each starts where the previous ended, the last ends at `n`, none is empty -/
def Tiling (n : Nat) : Nat → List Field → Bool
  | start, [] => start = n
  | start, (lo, hi, _) :: r => lo = start && lo < hi && Tiling n hi r

/-- widths of the fields -/
def widths (fs : List Field) : List Nat := fs.map (fun f => f.2.1 - f.1)

def lookup (name : String) : Option (Nat × List Field × List Field × Bool) :=
  (Gen.layouts.find? (·.1 = name)).map (·.2)

end JT.Layout
