import JT.Model.Frame
import JT.Model.Layout
/-!
# Attachment server: classification of the buffered bytes and the per-connection session (C10)

Model of `attachment.PackageProgress.iter / stageStreamData / parseJT808Message / stageJT808Data`, of the three
control-frame parsers (`model.T0x1210.Parse`, `T0x1211.Parse`, `T0x1212.Parse`) and of what the default
`fileEvent.OnEvent` dereferences. EVERY slice and index goes through a checked accessor that yields `panic`
exactly where Go would (out-of-range slice / index, nil dereference): the theorems in `JT/Props/C10.lean` show
that no byte stream reaches one.
-/
namespace JT.AttStream
open JT
open JT.Layout (slice)

def idx (b : Bytes) (i : Nat) : Res Byte := match b[i]? with | some x => .ok x | none => .panic

def be32At (b : Bytes) (i : Nat) : Res Nat := do
  let s ← slice b i (i + 4)
  pure (beN s)

/-- dialects: only HLJ has its own chunk header and 0x1210 layout without a leading terminal id -/
structure Dialect where
  hlj : Bool
  idLen : Nat          -- `getTerminalIDLen`
  signLen : Nat        -- `getAlarmSignLen`
deriving Repr, DecidableEq

def dialectOf : Nat → Dialect
  | 1 => ⟨false, 7, 16⟩     -- JS
  | 2 => ⟨true, 30, 38⟩     -- HLJ
  | 3 => ⟨false, 30, 40⟩    -- GD
  | 4 => ⟨false, 7, 32⟩     -- HN
  | 5 => ⟨false, 30, 39⟩    -- SC
  | _ => ⟨false, 7, 16⟩

def marker : Bytes := [0x30, 0x31, 0x63, 0x64]
def hasStream (d : Bytes) : Bool := d.take 4 == marker

def trimNul (b : Bytes) : Bytes := ((b.dropWhile (· = 0)).reverse.dropWhile (· = 0)).reverse

structure Head where
  name : Bytes
  off : Nat
  len : Nat
  headLen : Nat
deriving Repr, DecidableEq

/-- `HasMinHeadLen` -/
def hasMinHead (dl : Dialect) (d : Bytes) : Res Bool :=
  if dl.hlj then
    if d.length < 5 then .ok false else do
      let n ← idx d 4
      pure (decide (d.length ≥ 4 + 1 + n.toNat + 4 + 4))
  else .ok (decide (d.length ≥ 62))

/-- `Parse` of the chunk header (after `HasMinHeadLen`) -/
def parseHead (dl : Dialect) (d : Bytes) : Res Head :=
  if dl.hlj then do
    let _ ← slice d 0 4
    let n ← idx d 4
    let nm ← slice d 5 (5 + n.toNat)
    let off ← be32At d (5 + n.toNat)
    let ln ← be32At d (5 + n.toNat + 4)
    let _ ← slice d (5 + n.toNat + 4) d.length     -- data[end:]
    pure ⟨trimNul nm, off, ln, 4 + 1 + n.toNat + 4 + 4⟩
  else do
    let _ ← slice d 0 4
    let nm ← slice d 4 54
    let off ← be32At d 54
    let ln ← be32At d 58
    let _ ← slice d 62 d.length
    pure ⟨trimNul nm, off, ln, 62⟩

/-! ### control-frame bodies -/
/-- `T0x1211.Parse` (also `T0x1212.Parse`): name, type, size -/
def parse1211 (b : Bytes) : Res (Bytes × Nat × Nat) :=
  if b.length < 6 then .err else do
    let l ← idx b 0
    if b.length ≠ 6 + l.toNat then .err else do
      let nm ← slice b 1 (1 + l.toNat)
      let ty ← idx b (1 + l.toNat)
      let sz ← be32At b (2 + l.toNat)
      pure (nm, ty.toNat, sz)

/-- the item list of 0x1210: `(name, size)` per announced file -/
def parseItems (body : Bytes) : Nat → Nat → Res (List (Bytes × Nat))
  | 0, _ => .ok []
  | n + 1, start =>
    if start ≥ body.length then .err else do
      let l ← idx body start
      if body.length < start + 1 + l.toNat + 4 then .err else do
        let nm ← slice body (start + 1) (start + 1 + l.toNat)
        let sz ← be32At body (start + 1 + l.toNat)
        let rest ← parseItems body n (start + 1 + l.toNat + 4)
        pure ((nm, sz) :: rest)

/-- `P9208AlarmSign.parse` on the alarm-sign bytes -/
def parseSign (dl : Dialect) (d : Bytes) : Res Unit :=
  if d.length < dl.idLen + 8 then .ok () else do
    let _ ← slice d 0 dl.idLen
    let _ ← slice d dl.idLen (dl.idLen + 6)
    let _ ← idx d (dl.idLen + 6)
    let _ ← idx d (dl.idLen + 7)
    let _ ← slice d (dl.idLen + 8) d.length
    pure ()

/-- `T0x1210.Parse` -/
def parse1210 (dl : Dialect) (body : Bytes) : Res (List (Bytes × Nat)) :=
  let idLen := if dl.hlj then 0 else dl.idLen
  if body.length < idLen + dl.signLen + 32 + 1 + 1 then .err else do
    let _ ← slice body 0 idLen
    let sign ← slice body idLen (idLen + dl.signLen)
    parseSign dl sign
    let cur := idLen + dl.signLen
    let _ ← slice body cur (cur + 32)
    let _ ← idx body (cur + 32)
    let cnt ← idx body (cur + 33)
    if body.length < cur + 34 + cnt.toNat * 5 then .err else
    parseItems body cnt.toNat (cur + 34)

/-! ### the session -/
inductive Stage where
  | init | start | streamData | supplementary | streamDataComplete | complete
deriving Repr, DecidableEq

structure Rec where
  name : Bytes
  size : Nat
  cur : Nat
  offs : List (Nat × Nat)          -- offset ↦ length (association list, newest first)
deriving Repr, DecidableEq

structure Sess where
  hist : Bytes
  recs : List Rec
  current : Option Bytes           -- `ExtensionFields.CurrentPackage` (by name)
  lastMsg : Bool                   -- `RecentTerminalMessage != nil`
deriving Repr, DecidableEq

def Sess.init : Sess := ⟨[], [], none, false⟩

/-- one event handed to `FileEventer.OnEvent`: the stage and what the default handler will dereference -/
structure Event where
  stage : Stage
  hasCurrent : Bool
  hasMsg : Bool
deriving Repr, DecidableEq

/-- what the default `fileEvent.OnEvent` needs: `CurrentPackage` in the two chunk stages -/
def handlerOk (e : Event) : Bool :=
  match e.stage with
  | .streamData | .supplementary => e.hasCurrent
  | .init | .start | .complete => e.hasMsg
  | .streamDataComplete => true

inductive Out where
  | event (e : Event) (reply : Bool)      -- processed one unit
  | needMore                              -- wait for more bytes
  | fail                                  -- the connection is closed (error event, fail-quit)
deriving Repr, DecidableEq

def position7e (b : Bytes) : Option Nat := b.findIdx? (· = 0x7e)

def lookupOff (offs : List (Nat × Nat)) (o : Nat) : Option Nat := (offs.find? (·.1 = o)).map (·.2)

/-- `stageStreamData` (precondition: `hasStream s.hist`) -/
def stageStream (dl : Dialect) (s : Sess) : Res (Sess × Out) := do
  let okHead ← hasMinHead dl s.hist
  if !okHead then pure (s, .needMore) else do
  let h ← parseHead dl s.hist
  if s.hist.length ≥ h.headLen + h.len then
    match s.recs.find? (·.name = h.name) with
    | none => pure (s, .fail)
    | some r => do
      let _ ← slice s.hist h.headLen (h.headLen + h.len)
      let _ ← slice s.hist 0 h.headLen
      let old := (lookupOff r.offs h.off).getD 0
      let cur' := (r.cur + (4294967296 - old % 4294967296) + h.len) % 4294967296      -- uint32 arithmetic
      let r' : Rec := { r with cur := cur', offs := (h.off, h.len) :: r.offs.filter (·.1 ≠ h.off) }
      let recs' := s.recs.map (fun x => if x.name = h.name then r' else x)
      let rest ← slice s.hist (h.headLen + h.len) s.hist.length
      let st := if cur' = r.size then Stage.streamDataComplete else Stage.streamData
      pure ({ s with hist := rest, recs := recs', current := some h.name }, .event ⟨st, true, s.lastMsg⟩ false)
  else pure (s, .needMore)

/-- `stageJT808Data` -/
def stageJT (dl : Dialect) (s : Sess) : Res (Sess × Out) :=
  if s.hist.length < 10 then .ok (s, .needMore) else do
  let tail ← slice s.hist 1 s.hist.length
  match position7e tail with
  | none => pure (s, .needMore)
  | some i => do
    let frame ← slice s.hist 0 (i + 2)
    match Frame.decode frame with
    | .panic => .panic
    | .err => pure (s, .fail)
    | .ok m => do
      let rest ← slice s.hist (i + 2) s.hist.length
      let s1 := { s with hist := rest }
      if m.h.id = 0x1210 then
        match parse1210 dl m.body with
        | .panic => .panic
        | .err => pure (s1, .fail)
        | .ok items =>
          -- `Record[name] = &Package{..}` per item: a later item (or a later 0x1210) with the same name replaces the record
          let recs' := items.foldl (fun acc (nm, sz) => acc.filter (·.name ≠ nm) ++ [(⟨nm, sz, 0, []⟩ : Rec)]) s1.recs
          pure ({ s1 with recs := recs', lastMsg := true }, .event ⟨.init, s1.current.isSome, true⟩ true)
      else if m.h.id = 0x1211 then
        match parse1211 m.body with
        | .panic => .panic
        | .err => pure (s1, .fail)
        | .ok _ => pure ({ s1 with lastMsg := true }, .event ⟨.start, s1.current.isSome, true⟩ true)
      else if m.h.id = 0x1212 then
        match parse1211 m.body with
        | .panic => .panic
        | .err => pure (s1, .fail)
        | .ok (nm, _, _) =>
          match s1.recs.find? (·.name = nm) with
          | some r =>
            let missing := decide (r.cur ≠ r.size)   -- `StatisticalMissSegments` is non-empty iff cur ≠ size (C16)
            let st := if missing then Stage.supplementary else Stage.complete
            pure ({ s1 with current := some nm, lastMsg := true }, .event ⟨st, true, true⟩ true)
          | none => pure ({ s1 with lastMsg := true }, .event ⟨.complete, s1.current.isSome, true⟩ true)
      else pure (s1, .fail)          -- unknown command

/-- one round of `iter` -/
def stepIter (dl : Dialect) (s : Sess) : Res (Sess × Out) :=
  if hasStream s.hist then stageStream dl s else stageJT dl s

/-- `iter` after one read: process units until the buffer is empty, more data is needed or the session fails.
`fuel` bounds the number of rounds (every successful round consumes at least two bytes — see `C10.iter_fuel`). -/
def iter (dl : Dialect) : Nat → Sess → List Event → Res (Sess × List Event × Bool)
  | 0, s, acc => .ok (s, acc.reverse, false)
  | fuel + 1, s, acc =>
    if s.hist = [] then .ok (s, acc.reverse, false) else
    match stepIter dl s with
    | .panic => .panic
    | .err => .err
    | .ok (s', .event e _) => iter dl fuel s' (e :: acc)
    | .ok (s', .needMore) => .ok (s', acc.reverse, false)
    | .ok (s', .fail) => .ok (s', acc.reverse, true)

/-- the whole connection: a sequence of reads; result: all events in order and whether the session ended in failure -/
def run (dl : Dialect) : Sess → List Bytes → List Event → Res (List Event × Bool × Sess)
  | s, [], acc => .ok (acc, false, s)
  | s, r :: rs, acc =>
    let s1 := { s with hist := s.hist ++ r }
    match iter dl (s1.hist.length + 1) s1 [] with
    | .panic => .panic
    | .err => .err
    | .ok (s2, evs, failed) => if failed then .ok (acc ++ evs, true, s2) else run dl s2 rs (acc ++ evs)

end JT.AttStream
