import JT.Basic.Bytes
/-!
# Model of `protocol/jt1078`: `Packet.Decode` on a fresh `Packet`

Mirrors `decodeHead` + `Decode` of `protocol/jt1078/jt1078.go`.
-/
namespace JT.Rtp

structure Pkt where
  v : Nat
  p : Nat
  x : Nat
  cc : Nat
  m : Nat
  pt : Nat
  seq : Nat
  /-- 6 BCD bytes of the SIM number -/
  sim : Bytes
  ch : Nat
  dt : Nat
  sub : Nat
  ts : Nat
  lifi : Nat
  lfi : Nat
  body : Bytes
deriving Repr, DecidableEq

/-- outcome classes the property distinguishes -/
inductive R (α : Type) where
  | ok (a : α)
  | short
  | unq
deriving Repr, DecidableEq

def marker : Bytes := [0x30, 0x31, 0x63, 0x64]

/-- `Packet.Decode(data)` on a fresh packet: the packet and the remaining bytes. -/
def decode (d : Bytes) : R (Pkt × Bytes) :=
  if d.length < 16 then .short else
  if d.take 4 ≠ marker then .unq else
  let attr := (d.getD 4 0).toNat
  let sign := (d.getD 5 0).toNat
  let b15 := (d.getD 15 0).toNat
  let dt := b15 / 16
  let hasTs : Bool := dt ≠ 4
  let video : Bool := dt ≤ 2
  let e := 18 + (if hasTs then 8 else 0) + (if video then 4 else 0)
  if d.length < e then .short else
  let start := if hasTs then 24 else 16
  let ts := if hasTs then beN ((d.drop 16).take 8) else 0
  let lifi := if video then be16 (d.getD start 0) (d.getD (start + 1) 0) else 0
  let lfi := if video then be16 (d.getD (start + 2) 0) (d.getD (start + 3) 0) else 0
  let start2 := start + (if video then 4 else 0)
  let blen := be16 (d.getD start2 0) (d.getD (start2 + 1) 0)
  let rest := d.drop (start2 + 2)
  if rest.length < blen then .short else
  .ok ({ v := attr / 64, p := attr / 32 % 2, x := attr / 16 % 2, cc := attr % 16,
         m := sign / 128, pt := sign % 128,
         seq := be16 (d.getD 6 0) (d.getD 7 0), sim := (d.drop 8).take 6,
         ch := (d.getD 14 0).toNat, dt := dt, sub := b15 % 16,
         ts := ts, lifi := lifi, lfi := lfi, body := rest.take blen }, rest.drop blen)

/-- repeatedly decode from the front (fuel = number of bytes is always enough:
every successful step consumes at least 18 bytes). -/
def decodeAll : Nat → Bytes → List Pkt × Bytes
  | 0, d => ([], d)
  | fuel + 1, d =>
    match decode d with
    | .ok (p, rest) =>
      let (ps, r) := decodeAll fuel rest
      (p :: ps, r)
    | _ => ([], d)

end JT.Rtp
