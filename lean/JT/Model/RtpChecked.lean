import JT.Model.Rtp
import JT.Model.FrameChecked
/-!
# `Packet.decodeHead` + `Packet.Decode` of `protocol/jt1078` with checked accesses

`JT/Model/Rtp.lean` models the decoder with total accessors (`getD`, `drop`, `take`) behind the length guards of the
code. Here the same function is written the way the Go code accesses memory — every `data[a:b]`, `data[i]` and
`binary.BigEndian.UintN(data[a:b])` through an accessor that yields `panic` where Go would, in the order Go evaluates
them — and `JT/Proof/RtpChecked.lean` proves the two equal: the guards of the code do cover every access, whatever
bytes a peer sends.

The result is `Res (R α)`: `.ok (.ok a)` a decoded value, `.ok .short` / `.ok .unq` the two returned error classes
of the total model (`ErrHeaderLength2Short` and `ErrBodyLength2Short` / `ErrUnqualifiedData`), `.panic` a run-time
panic. (`Res.err` is never produced.)

The bit arithmetic is written as Go has it (`(attr >> 6) & 0b11` is `attr / 64 % 4`, …), not pre-simplified.
-/
namespace JT.Rtp
open JT
open JT.Layout (slice)
open JT.AttStream (idx)
open JT.Frame (be16At)

/-- `binary.BigEndian.Uint64(b[i:i+8])` -/
def be64At (b : Bytes) (i : Nat) : Res Nat := do
  let s ← slice b i (i + 8)
  pure (beN s)

/-- what `decodeHead` leaves in the packet: the header fields (`body` still empty), `DataBodyLen` and `headEnd` -/
structure HeadC where
  pkt : Pkt
  bodyLen : Nat
  headEnd : Nat
deriving Repr, DecidableEq

/-- `(*Packet).decodeHead(data)` on a fresh packet -/
def decodeHeadC (d : Bytes) : Res (R HeadC) :=
  if d.length < 16 then pure .short else do            -- len(data) < 16: ErrHeaderLength2Short
  let id ← slice d 0 4                                  -- p.ID = string(data[:4])
  if id ≠ marker then (do                               -- p.ID != "01cd"
    let _ ← slice d 0 16                                --   fmt.Sprintf("%x", data[:16])
    pure .unq) else do                                  --   ErrUnqualifiedData
  let attr ← idx d 4                                    -- data[4]
  let sign ← idx d 5                                    -- data[5]
  let seq ← be16At d 6                                  -- binary.BigEndian.Uint16(data[6:8])
  let sim ← slice d 8 14                                -- utils.Bcd2Dec(data[8:14])
  let ch ← idx d 14                                     -- data[14]
  let b15 ← idx d 15                                    -- (data[15] >> 4) & 0x0F
  let b15' ← idx d 15                                   -- data[15] & 0x0F
  let dt := b15.toNat / 16 % 16
  let sub := b15'.toNat % 16
  let hasTs : Bool := dt ≠ 4                            -- p.DataType != DataTypePenetrate
  let video : Bool := dt = 0 ∨ dt = 1 ∨ dt = 2          -- DataTypeI || DataTypeP || DataTypeB
  let e := 18 + (if hasTs then 8 else 0) + (if video then 4 else 0)
  if d.length < e then pure .short else do              -- len(data) < end: ErrHeaderLength2Short
  let ts ← if hasTs then be64At d 16 else pure 0        -- binary.BigEndian.Uint64(data[16:24])
  let start := if hasTs then 24 else 16
  let lifi ← if video then be16At d start else pure 0   -- binary.BigEndian.Uint16(data[start : start+2])
  let lfi ← if video then be16At d (start + 2) else pure 0  -- binary.BigEndian.Uint16(data[start+2 : start+4])
  let start := if video then start + 4 else start
  let blen ← be16At d start                             -- binary.BigEndian.Uint16(data[start : start+2])
  pure (.ok
    { pkt := { v := attr.toNat / 64 % 4, p := attr.toNat / 32 % 2, x := attr.toNat / 16 % 2, cc := attr.toNat % 16,
               m := sign.toNat / 128 % 2, pt := sign.toNat % 128,
               seq := seq, sim := sim, ch := ch.toNat, dt := dt, sub := sub,
               ts := ts, lifi := lifi, lfi := lfi, body := [] },
      bodyLen := blen,
      headEnd := start + 2 })

/-- the part of `(*Packet).Decode` after a successful `decodeHead` -/
def decodeBodyC (d : Bytes) (h : HeadC) : Res (R (Pkt × Bytes)) := do
  let body ← slice d h.headEnd d.length                 -- body := data[p.headEnd:]
  if body.length < h.bodyLen then pure .short else do   -- len(body) < int(p.DataBodyLen): ErrBodyLength2Short
  let b ← slice body 0 h.bodyLen                        -- p.Body = body[:p.DataBodyLen]
  if body.length = h.bodyLen then                       -- len(body) == int(p.DataBodyLen): return nil, nil
    pure (.ok ({ h.pkt with body := b }, []))
  else do
  let rest ← slice body h.bodyLen body.length           -- return body[p.DataBodyLen:], nil
  pure (.ok ({ h.pkt with body := b }, rest))

/-- `(*Packet).Decode(data)` on a fresh packet: the packet and the remaining bytes -/
def decodeC (d : Bytes) : Res (R (Pkt × Bytes)) := do
  let r ← decodeHeadC d                                 -- if err := p.decodeHead(data); err != nil { return data, err }
  match r with
  | .short => pure .short
  | .unq => pure .unq
  | .ok h => decodeBodyC d h

end JT.Rtp
