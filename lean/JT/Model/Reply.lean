import JT.Model.Parse
import JT.Gen.ReplyTable
/-!
# Model of the automatic replies: `connection.write` / `defaultReplyEvent` with the default handlers

Mirrors `service/connection.go` (writer side, no outstanding platform commands) and the `ReplyBody`
methods of `protocol/model` (`BaseHandle`, `T0x0100`, `T0x0102`, `T0x0801`, `T0x1003`, `T0x1212`).
The id → (HasReply, ReplyProtocol) table is regenerated from the running code (`JT/Gen/ReplyTable.lean`).
Handler objects live as long as the connection: the few fields that survive from one message to the next
and can show up in a reply are explicit state (`HState`).
-/
namespace JT.Reply
open JT JT.Frame JT.Parse

/-- handler state that survives between messages on one connection -/
structure HState where
  /-- `T0x0801.MultimediaID` -/
  mmid : Nat
  /-- `T0x1212.T0x1211.{FileNameLen, FileName, FileType}` -/
  fnLen : Nat
  fname : Bytes
  ftype : Nat
deriving Repr, DecidableEq

def HState.init : HState := ⟨0, 0, [], 0⟩

structure Conn where
  /-- `platformSerialNumber` (uint16) -/
  serial : Nat
  hs : HState
deriving Repr

def Conn.init : Conn := ⟨0, HState.init⟩

/-- ASCII bytes of the phone string (`Header.TerminalPhoneNo`) -/
def phoneBytes (bcd : Bytes) : Bytes := (bcd2dec bcd).toList.map (fun c => UInt8.ofNat c.toNat)

def lookup (tbl : List (Nat × Bool × Nat)) (id : Nat) : Option (Bool × Nat) :=
  (tbl.find? (·.1 = id)).map (·.2)

/-- `ReplyBody` of the handler registered for `m.h.id`: new handler state and body, or `none` when it returns an error -/
def replyBody (hs : HState) (m : PMsg) : HState × Option Bytes :=
  let general : Bytes := toBE 2 m.h.serial ++ toBE 2 m.h.id ++ [0]
  match m.h.id with
  | 0x0100 => (hs, some (toBE 2 m.h.serial ++ [0] ++ phoneBytes m.h.bcd))
  | 0x0102 =>
    let code : Option Bytes :=
      if m.h.version = 1 then
        if m.body.length < 36 then none
        else
          let l := (m.body.getD 0 0).toNat
          if m.body.length < 1 + l + 35 then none else some ((m.body.drop 1).take l)
      else some m.body
    match code with
    | none => (hs, none)
    | some c => (hs, some (toBE 2 m.h.serial ++ toBE 2 m.h.id ++ [if c = phoneBytes m.h.bcd then 0 else 1]))
  | 0x0801 =>
    let id := if m.body.length < 36 then hs.mmid
              else be32 (m.body.getD 0 0) (m.body.getD 1 0) (m.body.getD 2 0) (m.body.getD 3 0)
    ({ hs with mmid := id }, some (toBE 4 id))
  | 0x1003 => (hs, some [])
  | 0x1212 =>
    -- `_ = t.T0x1211.Parse(jtMsg)`: FileNameLen is stored before the length check
    let hs' :=
      if m.body.length < 6 then hs
      else
        let l := (m.body.getD 0 0).toNat
        if m.body.length ≠ 6 + l then { hs with fnLen := l }
        else { hs with fnLen := l, fname := (m.body.drop 1).take l, ftype := (m.body.getD (1 + l) 0).toNat }
    (hs', some ([UInt8.ofNat hs'.fnLen] ++ hs'.fname ++ [UInt8.ofNat hs'.ftype, 0, 0]))
  | _ => (hs, some general)

/-- `hasComplete()` -/
def isComplete (m : PMsg) : Bool := m.h.sum = 0 || m.complete

/-- a reply before framing: header of the request, reply id, platform serial, body -/
structure Rec where
  h : Header
  rid : Nat
  serial : Nat
  body : Bytes
deriving Repr, DecidableEq

def Rec.frame (r : Rec) : Bytes := encode r.h r.rid r.serial r.body

/-- the writer's treatment of one message taken from `msgChan` (default configuration: sub-packages are
filtered until complete; no platform command outstanding): new connection state and the reply, if any -/
def replyRec (tbl : List (Nat × Bool × Nat)) (c : Conn) (m : PMsg) : Conn × Option Rec :=
  match lookup tbl m.h.id with
  | none => (c, none)                       -- not supported: the reader drops it
  | some (has, rid) =>
    if m.h.id = 0x8003 then (c, none)       -- re-request path, not a reply
    else if !isComplete m then (c, none)
    else if !has then (c, none)
    else
      match replyBody c.hs m with
      | (hs', none) => ({ c with hs := hs' }, none)
      | (hs', some body) =>
        ({ serial := (c.serial + 1) % 65536, hs := hs' }, some ⟨m.h, rid, c.serial, body⟩)

/-- all replies for a list of messages, in order -/
def replies (tbl : List (Nat × Bool × Nat)) : Conn → List PMsg → Conn × List Rec
  | c, [] => (c, [])
  | c, m :: r =>
    let (c1, f) := replyRec tbl c m
    let (c2, fs) := replies tbl c1 r
    (c2, f.toList ++ fs)

/-- the frames written on the socket -/
def writtenFrames (tbl : List (Nat × Bool × Nat)) (c : Conn) (ms : List PMsg) : Conn × List Bytes :=
  let (c', rs) := replies tbl c ms
  (c', rs.map Rec.frame)

end JT.Reply
