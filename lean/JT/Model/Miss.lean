import JT.Basic.Bytes
/-!
# Model of `attachment.Package.StatisticalMissSegments` and of the 0x9212 retransmit list

Mirrors `attachment/package.go`: early return when `CurrentSize == FileSize`, segments taken from the
`OffsetRecord` map (any order, distinct keys), sorted by offset, one left-to-right pass with a `uint32`
cursor, final gap up to the file size.
-/
namespace JT.Miss

structure Seg where
  off : Nat
  len : Nat
deriving Repr, DecidableEq

def W : Nat := 4294967296

/-- the loop body; the cursor is a Go `uint32`, so the addition wraps -/
def gapsW : Nat → List Seg → List Seg
  | _, [] => []
  | cur, s :: r => (if cur < s.off then [⟨cur, s.off - cur⟩] else []) ++ gapsW ((s.off + s.len) % W) r

def finW : Nat → List Seg → Nat
  | cur, [] => cur
  | _, s :: r => finW ((s.off + s.len) % W) r

def sortSegs (segs : List Seg) : List Seg := segs.mergeSort (fun a b => decide (a.off ≤ b.off))

/-- `StatisticalMissSegments()`: `F` = FileSize, `cur` = CurrentSize, `segs` = OffsetRecord entries -/
def missSegments (F cur : Nat) (segs : List Seg) : List Seg :=
  if cur = F then [] else
  let s := sortSegs segs
  let c := finW 0 s
  gapsW 0 s ++ (if c < F then [⟨c, F - c⟩] else [])

end JT.Miss
