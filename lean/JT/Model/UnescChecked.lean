import JT.Model.Frame
import JT.Model.AttStream
/-!
# `unescape` with Go's index arithmetic and checked accesses

`protocol/jt808/packet_codec.go: unescape` walks the frame with an index `i`, remembers where the pending run of
ordinary bytes starts (`index`), and copies runs with `buf.Write(data[index : i-1])`. The list-recursive model
`Frame.unescBody` says *what* it computes; this file writes the loop the way the code does — every `data[i]` and
`data[a:b]` through an accessor that yields `panic` where Go would — so that `JT/Proof/UnescChecked.lean` can prove
the two equal (hence no index ever leaves the frame, whatever bytes a peer sends).
-/
namespace JT.Frame
open JT
open JT.Layout (slice)
open JT.AttStream (idx)

/-- the `for` loop; `fuel` bounds the iterations (the frame length suffices), result `none` = `ErrUnqualifiedData` -/
def unescLoopC (d : Bytes) : Nat → Nat → Nat → Bytes → Res (Option Bytes)
  | 0, _, _, _ => .panic
  | fuel + 1, i, index, buf =>
    if i < d.length - 1 then do
      let v ← idx d i
      if v = 0x7d then do
        let w ← idx d (i + 1)
        if w = 0x01 then do
          let run ← slice d index (i + 1 - 1)
          unescLoopC d fuel (i + 2) (i + 2) (buf ++ run ++ [0x7d])
        else if w = 0x02 then do
          let run ← slice d index (i + 1 - 1)
          unescLoopC d fuel (i + 2) (i + 2) (buf ++ run ++ [0x7e])
        else if i + 1 = d.length - 1 then do
          let run ← slice d index (d.length - 1)
          pure (some (buf ++ run))
        else pure none
      else unescLoopC d fuel (i + 1) index buf
    else if index ≠ d.length - 1 then do
      let run ← slice d index (d.length - 1)
      pure (some (buf ++ run))
    else pure (some buf)

/-- `unescape(data)` -/
def unescapeC (d : Bytes) : Res (Option Bytes) :=
  if d.length > 2 then do
    let a ← idx d 0
    let z ← idx d (d.length - 1)
    if a = 0x7e ∧ z = 0x7e then
      if (0x7d : Byte) ∈ d then unescLoopC d d.length 1 1 []
      else do
        let r ← slice d 1 (d.length - 1)
        pure (some r)
    else pure none
  else pure none

end JT.Frame
