import JT.Proof.AttStream
import JT.Props.C05
import JT.Props.C03
/-!
# C10 — hostile input is contained to its own connection (both servers)

Property theorems only. In Go every connection is served by its own goroutines and nothing recovers from a panic:
the process survives a client exactly when no code path that its bytes can reach panics. The models below route
EVERY slice, index and pointer dereference through checked accessors with an explicit `panic` outcome
(`JT/Model/AttStream.lean` for the attachment server, `JT/Model/Parse.lean` + the decoders of C02/C03/C05 for the
JT808 server); the theorems say that no byte stream, cut into reads in any way, produces that outcome, and that
every event reaches the default file handler with the fields it dereferences. What the models cannot express
(the Go runtime, goroutine scheduling, socket errors, memory exhaustion by a peer that announces huge chunks) is
covered by executing hostile streams × close points against both real servers with a witness session — see DESIGN.md.
-/
namespace JT.C10
open JT JT.AttStream

def AllOk (l : List Event) : Prop := ∀ e ∈ l, handlerOk e = true

/-- **One processing round never panics**, whatever is buffered, for every dialect record; a processed unit
always consumes bytes and satisfies the default handler's needs. -/
theorem round_contained (dl : Dialect) (s : Sess) :
    ∃ s' o, stepIter dl s = .ok (s', o) ∧ ∀ e rp, o = .event e rp → s'.hist.length < s.hist.length ∧ handlerOk e = true :=
  stepIter_good dl s

private theorem iter_ok (dl : Dialect) : ∀ (fuel : Nat) (s : Sess) (acc : List Event), AllOk acc →
    ∃ s' evs f, iter dl fuel s acc = .ok (s', evs, f) ∧ AllOk evs
  | 0, s, acc, h => ⟨s, acc.reverse, false, rfl, fun e he => h e (List.mem_reverse.mp he)⟩
  | fuel + 1, s, acc, h => by
    unfold iter
    by_cases he : s.hist = []
    · rw [if_pos he]; exact ⟨s, acc.reverse, false, rfl, fun e hm => h e (List.mem_reverse.mp hm)⟩
    · rw [if_neg he]
      obtain ⟨s', o, hs, hg⟩ := stepIter_good dl s
      rw [hs]
      cases o with
      | event e rp =>
        have := (hg e rp rfl).2
        exact iter_ok dl fuel s' (e :: acc) (fun x hx => by
          rcases List.mem_cons.mp hx with e1 | e1
          · rw [e1]; exact this
          · exact h x e1)
      | needMore => exact ⟨s', acc.reverse, false, rfl, fun e hm => h e (List.mem_reverse.mp hm)⟩
      | fail => exact ⟨s', acc.reverse, true, rfl, fun e hm => h e (List.mem_reverse.mp hm)⟩

/-- **The attachment server's connection loop never panics and never hands the default file handler an event it
cannot process** — for EVERY byte stream, EVERY partition into reads and every dialect: at worst the session ends
(`failed = true`: the connection is closed, fail-quit). -/
theorem attachment_connection_contained (dl : Dialect) : ∀ (reads : List Bytes) (s : Sess) (acc : List Event), AllOk acc →
    ∃ evs failed s', run dl s reads acc = .ok (evs, failed, s') ∧ AllOk evs
  | [], s, acc, h => ⟨acc, false, s, rfl, h⟩
  | r :: rs, s, acc, h => by
    unfold run
    obtain ⟨s2, evs, f, hi, hok⟩ := iter_ok dl (({ s with hist := s.hist ++ r } : Sess).hist.length + 1)
      { s with hist := s.hist ++ r } [] (fun _ hm => by cases hm)
    simp only [hi]
    have hall : AllOk (acc ++ evs) := fun e he => by
      rcases List.mem_append.mp he with h1 | h1
      · exact h e h1
      · exact hok e h1
    cases f with
    | true => exact ⟨_, true, s2, by simp, hall⟩
    | false =>
      obtain ⟨evs', f', s', hr, hok'⟩ := attachment_connection_contained dl rs s2 (acc ++ evs) hall
      exact ⟨evs', f', s', by simpa using hr, hok'⟩

/-- the round budget `len + 1` is never the reason to stop: any larger budget gives the same result
(each processed unit consumes at least one byte — in fact at least two). So `iter` models the unbounded Go loop. -/
theorem iter_fuel (dl : Dialect) : ∀ (f1 f2 : Nat) (s : Sess) (acc : List Event), s.hist.length < f1 → s.hist.length < f2 →
    iter dl f1 s acc = iter dl f2 s acc
  | 0, _, _, _, h, _ => by omega
  | _, 0, _, _, _, h => by omega
  | f1 + 1, f2 + 1, s, acc, h1, h2 => by
    unfold iter
    by_cases he : s.hist = []
    · rw [if_pos he, if_pos he]
    · rw [if_neg he, if_neg he]
      obtain ⟨s', o, hs, hg⟩ := stepIter_good dl s
      rw [hs]
      cases o with
      | event e rp =>
        have := (hg e rp rfl).1
        exact iter_fuel dl f1 f2 s' (e :: acc) (by omega) (by omega)
      | needMore => rfl
      | fail => rfl

/-! ### JT808 server: the reader's parse layer -/
private theorem completeAll_no_panic (now : Nat) : ∀ (ms : List Parse.PMsg) (recs : List Parse.Transfer) (seen comps : List Parse.PMsg),
    (Parse.completeAll now recs ms seen comps).2.2.2 = false
  | [], _, _, _ => rfl
  | m :: r, recs, seen, comps => by
    unfold Parse.completeAll
    have hp := C05.completePack_no_panic now recs m
    cases hc : Parse.completePack now recs m with
    | mk recs' o =>
      rw [hc] at hp
      cases o with
      | none => exact completeAll_no_panic now r recs' _ _
      | done data => exact completeAll_no_panic now r recs' _ _
      | panic => exact absurd rfl hp

/-- **`packageParse.parse` never panics**: for every parser state (buffered bytes, open transfers), every instant
and every read, the frame extraction, the decoder, the sub-package bookkeeping (package number 0 or beyond the
total included) and the re-request tick complete without a panic outcome. -/
theorem jt808_parse_contained (now : Nat) (st : Parse.PState) (data : Bytes) :
    (Parse.parse now st data).2.2.2.2 = false := by
  unfold Parse.parse
  simp only
  have := completeAll_no_panic now (Parse.unpack st.hist data).1 st.recs [] []
  cases hc : Parse.completeAll now st.recs (Parse.unpack st.hist data).1 [] [] with
  | mk a b =>
    obtain ⟨b1, b2, b3⟩ := b
    rw [hc] at this
    simp only at this
    subst this
    simp

/-- a whole connection: reads at arbitrary instants, until a parse error closes it; `true` = some read panicked -/
def anyPanic : Parse.PState → List (Nat × Bytes) → Bool
  | _, [] => false
  | st, (now, d) :: r =>
    let res := Parse.parse now st d
    res.2.2.2.2 || (if res.2.2.2.1 then false else anyPanic res.1 r)

/-- **No sequence of reads makes the JT808 reader's parse layer panic**, from any state -/
theorem jt808_connection_never_panics : ∀ (reads : List (Nat × Bytes)) (st : Parse.PState), anyPanic st reads = false
  | [], _ => rfl
  | (now, d) :: r, st => by
    simp only [anyPanic, jt808_parse_contained now st d, Bool.false_or]
    split
    · rfl
    · exact jt808_connection_never_panics r _

/-- message bodies handed to handlers that parse them (the README's recommendation): the modelled decoders have no
panic outcome on any body (C03) -/
theorem body_parsers_contained (b : Bytes) :
    Loc.parse0200 b ≠ .panic ∧ Frame.decode b ≠ .panic ∧
    parse1211 b ≠ .panic ∧ (∀ dl, parse1210 dl b ≠ .panic) :=
  ⟨C03.location_no_panic b, C03.frame_decode_total b, parse1211_ne_panic b, fun dl => parse1210_ne_panic dl b⟩

/-! Non-vacuity: a connect-and-close and a stream of garbage. -/
example : run (dialectOf 1) Sess.init [] [] = .ok ([], false, Sess.init) := rfl
example : (match run (dialectOf 1) Sess.init [[0x41, 0x41, 0x41, 0x41, 0x41, 0x41, 0x41, 0x41, 0x41, 0x41, 0x41, 0x7e]] [] with
    | .ok (_, failed, _) => failed | _ => false) = true := by decide

end JT.C10
