import JT.Proof.Path
import JT.Gen.SaveGuard
/-!
# C19 — stored attachments stay inside the terminal's directory

Property theorems only. `JT.Gen.SaveGuard.skip` / `stored` are REGENERATED from the source of
`(*fileEvent).OnEvent` (attachment/file_event.go) on every run by the `saveguard` translator; the theorems below
are re-checked against what the code says now. Path resolution is the lexical model of `JT/Model/Path.lean`
(no symbolic links: the server creates none).
-/
namespace JT.C19
open JT JT.Path JT.Gen.SaveGuard

/-! ### source facts (the shape the translator relies on) -/
theorem translator_recognised_the_code : recognised = true ∧ untranslated = [] := by decide
/-- the path is `"./" + phone + "/" + <stored name>`, it is what `os.WriteFile` receives, and the directory
that is created is `phone` -/
theorem path_shape : pathFmt = "./%s/%s" ∧ pathFirstArg = "phone" ∧ pathArgCount = 2 ∧ writeTarget = "savePath" ∧
    mkdirTarget = "phone" := by decide
/-- `phone` is the header's phone string of the last terminal message -/
theorem phone_is_header_phone : phoneIsHeaderPhone = true := by decide
/-- the only calls in package `attachment` that can create a file-system entry -/
theorem only_these_create_files : creators =
    ["file_event.go:os.MkdirAll(phone)", "file_event.go:os.OpenFile(\"file.log\")", "file_event.go:os.WriteFile(savePath)"] := by
  decide

/-- a name that is not skipped is `/` or a plain entry name -/
theorem kept_is_plain (name : Bytes) (h : skip name = false) : stored name = [slash] ∨ Plain (stored name) := by
  simp only [skip, Bool.or_eq_false_iff, bne_eq_false_iff_eq, beq_eq_false_iff_ne] at h
  obtain ⟨⟨h1, h2⟩, h3⟩ := h
  rcases base_self name h1 with e | ⟨hn, hs⟩
  · exact Or.inl e
  · exact Or.inr ⟨hn, hs, h2, h3⟩

/-- **Confinement.** Whatever name a terminal announces: if the default handler stores it at all, the path it
writes resolves — from ANY working directory — to an entry directly inside `<cwd>/<phone>` (or, for the name `/`,
to that directory itself, where `WriteFile` fails). Never anywhere else. -/
theorem confined (cwd : List Bytes) (bcd name : Bytes) (hb : bcd ≠ []) (h : skip name = false) (loc : List Bytes)
    (hr : resolve cwd (savePath (phoneStr bcd) (stored name)) = some loc) :
    loc = cwd ++ [phoneStr bcd, stored name] ∨ loc = cwd ++ [phoneStr bcd] := by
  have hp := phone_plain bcd hb
  rcases kept_is_plain name h with e | hn
  · right; rw [e] at hr; exact resolve_slash cwd _ hp loc hr
  · left; exact resolve_plain cwd _ _ hp hn loc hr

/-- every stored file lies below the phone directory (prefix form of `confined`) -/
theorem stored_below_phone_dir (cwd : List Bytes) (bcd name : Bytes) (hb : bcd ≠ []) (h : skip name = false)
    (loc : List Bytes) (hr : resolve cwd (savePath (phoneStr bcd) (stored name)) = some loc) :
    (cwd ++ [phoneStr bcd]) <+: loc := by
  rcases confined cwd bcd name hb h loc hr with e | e
  · rw [e]; exact ⟨[stored name], by simp⟩
  · rw [e]; exact List.prefix_refl _

/-- names with a directory part, `.` and `..` are rejected -/
theorem rejected (name : Bytes) (h : (slash ∈ name ∧ name ≠ [slash]) ∨ name = dot ∨ name = dotdot ∨ name = []) :
    skip name = true := by
  cases hs : skip name with
  | true => rfl
  | false =>
    exfalso
    have hk := kept_is_plain name hs
    simp only [stored] at hk
    rcases hk with e | ⟨p1, p2, p3, p4⟩
    · rcases h with ⟨_, h⟩ | h | h | h
      · exact h e
      · rw [h] at e; cases e
      · rw [h] at e; cases e
      · rw [h] at e; cases e
    · rcases h with ⟨h, _⟩ | h | h | h
      · exact p2 h
      · exact p3 h
      · exact p4 h
      · exact p1 h

/-! Non-vacuity, and what the guard is for: without it `../x` leaves the directory. -/
example : skip [0x61, 0x2e, 0x6a, 0x70, 0x67] = false := by decide                       -- a.jpg
example : skip [0x2e, 0x2e, 0x2f, 0x78] = true := by decide                              -- ../x
example : skip [0x2f, 0x65] = true := by decide                                          -- /e
example : skip [0x61, 0x2f, 0x2e, 0x2e, 0x2f, 0x2e, 0x2e, 0x2f, 0x78] = true := by decide  -- a/../../x
example : resolve [[0x73], [0x64]] (savePath [0x31, 0x33, 0x38] [0x61, 0x2e, 0x6a]) =
    some [[0x73], [0x64], [0x31, 0x33, 0x38], [0x61, 0x2e, 0x6a]] := by decide
/-- the defect that the guard repairs: `./138/../x` is `<cwd>/x` -/
example : resolve [[0x73], [0x64]] (savePath [0x31, 0x33, 0x38] [0x2e, 0x2e, 0x2f, 0x78]) = some [[0x73], [0x64], [0x78]] := by decide
example : phoneStr [0x00, 0x01, 0x38] = [0x31, 0x33, 0x38] := by decide
example : phoneStr [0x00, 0x00] = [0x30, 0x30, 0x30, 0x30] := by decide

end JT.C19
