import JT.Proof.Pipe
import JT.Gen.FieldAccess
/-!
# C18 — connection goroutines are free of data races

Property theorems only. A data race needs two goroutines that touch the same location, one of them writing,
with no synchronisation in between. Two disciplines exclude that in `service/connection.go`:

1. **Field partition.** `JT.Gen.fieldAccess` — REGENERATED from the source on every run by the `fieldaccess`
   extractor — lists, per goroutine role (reader, writer, timer goroutines), which fields of `connection` the
   code reachable from that role reads and writes. The obligation: no field is written by one role and touched
   by another, and the (many, concurrent) timer goroutines write nothing. Channels, `sync.Once` and the
   `net.Conn` are only ever *used* (never reassigned), which is their synchronised use.
2. **Hand-over of `*Message`.** The reader fills a message, reports it, sends it into `msgChan` and never mentions
   it again (syntactic fact, regenerated); the writer touches it only after receiving it. Over the transition
   system of C06 (all interleavings of the two goroutines) every message has exactly one holder at any time and
   every writer access comes after the reader's last access, with the channel send/receive in between.

What is NOT proved: that the abstraction (roles, reachable methods, what counts as a write, callbacks supplied by
the user, the session manager) covers every memory access of the compiled program. That is what running the
scenario sets under Go's race detector on every run decides — see DESIGN.md.
-/
namespace JT.C18
open JT JT.Pipe

/-- two table entries conflict: same field, different goroutine roles, at least one write -/
def Conflict (a b : String × String × Bool) : Bool := a.1 == b.1 && a.2.1 != b.2.1 && (a.2.2 || b.2.2)

/-- **No field of `connection` is written by one goroutine role and accessed by another.** -/
theorem fields_partitioned : ∀ a ∈ Gen.fieldAccess, ∀ b ∈ Gen.fieldAccess, Conflict a b = false := by decide

/-- **Timer goroutines (one per platform command, running concurrently) write no field.** -/
theorem timers_write_nothing : ∀ a ∈ Gen.fieldAccess, a.2.1 = "timer" → a.2.2 = false := by decide

/-- every accessed name is a declared field, and the roles are the three known ones: the extractor saw the code
it was written for -/
theorem table_wellformed : (∀ a ∈ Gen.fieldAccess, a.1 ∈ Gen.connFields ∧ a.2.1 ∈ ["reader", "writer", "timer"]) ∧
    Gen.fieldAccess ≠ [] := by decide

/-- consequence in the vocabulary of the property: two accesses to the same field with a write among them are
made by the same role — reader and writer are single goroutines, so they are ordered by program order -/
theorem conflicting_accesses_same_goroutine (a b : String × String × Bool) (ha : a ∈ Gen.fieldAccess)
    (hb : b ∈ Gen.fieldAccess) (hf : a.1 = b.1) (hw : a.2.2 = true ∨ b.2.2 = true) : a.2.1 = b.2.1 ∧ a.2.1 ≠ "timer" := by
  have hc := fields_partitioned a ha b hb
  have hsame : a.2.1 = b.2.1 := by
    simp only [Conflict, hf, beq_self_eq_true, Bool.true_and, Bool.and_eq_false_iff, bne_eq_false_iff_eq,
      Bool.or_eq_false_iff] at hc
    rcases hc with h | ⟨h1, h2⟩
    · exact h
    · rcases hw with h | h
      · rw [h] at h1; cases h1
      · rw [h] at h2; cases h2
  refine ⟨hsame, ?_⟩
  intro ht
  rcases hw with h | h
  · have := timers_write_nothing a ha ht; rw [h] at this; cases this
  · have := timers_write_nothing b hb (hsame ▸ ht); rw [h] at this; cases this

/-- the reader never mentions a message again after sending it into a channel (both sends of `reader()`) -/
theorem reader_lets_go_after_send : Gen.readerSendsOfMsg = 2 ∧ Gen.readerTouchesMsgAfterSend = false := by decide

/-- **Every message has one holder.** In every reachable state of the reader/channel/writer system (any
interleaving, any channel capacity): while the reader holds message `i` it is neither in the channel nor with the
writer and the writer has never touched it; once the writer has touched it the reader does not hold it and all of
the reader's accesses (`readcb i`) are in the past. -/
theorem message_has_one_holder {n cap : Nat} {s : St} (hr : Reach n cap s) (i : Nat) :
    (s.rhold = some i → i ∉ s.queue ∧ s.whold ≠ some i ∧ Ev.sockwrite i ∉ s.log ∧ Ev.writecb i ∉ s.log) ∧
    (Ev.sockwrite i ∈ s.log → s.rhold ≠ some i ∧ i ∉ s.queue ∧ Ev.readcb i ∈ s.log) := by
  have inv := inv_reach hr
  constructor
  · intro h
    obtain ⟨_, hns, hnq⟩ := inv.rhold_new i h
    refine ⟨hnq, ?_, hns, fun hw => hns (inv.wcb_sw i hw)⟩
    intro hw
    exact hns (inv.whold_st i hw).1
  · intro h
    refine ⟨fun hh => (inv.rhold_new i hh).2.1 h, fun hq => (inv.queue_new i hq).2 h, ?_⟩
    exact (inv.read_lt i).mpr (inv.sw_lt i h)

/-- Non-vacuity: the table does contain a field written by the writer only -/
example : ("platformSerialNumber", "writer", true) ∈ Gen.fieldAccess := by decide

end JT.C18
