import JT.Proof.Reassembly
/-!
# C05 — sub-package reassembly delivers exactly the original message

Property theorems only. Model: `completePack` in `JT/Model/Parse.lean` (mirrors
`service/packet_parse.go` after the repairs D11/D12); helper lemmas `JT/Proof/Reassembly.lean`.
`deliveries recs ms` lists the completions `(message id, reassembled body)` produced while the timed
messages `ms` are processed in order, starting from the transfer table `recs`.
-/
namespace JT.C05
open JT JT.Frame JT.Parse

/-- **Exactly the original message, exactly once, exactly when complete.**
For any message id, any N ≥ 1 non-empty packet bodies, any initial transfer table, packet 1 first and
then any list of admissible messages — packets 2..N in any order with duplicates, unfragmented messages,
messages and whole transfers of other ids, packets of this id numbered 0 or beyond N —
the completions for this id are: nothing as long as some number of 1..N has not arrived, and exactly one
message whose body is the concatenation of the N bodies in package-number order once all have arrived. -/
theorem reassembly_exact (id : Nat) (bodies : List Bytes) (hne : ∀ b ∈ bodies, b ≠ []) (hN : 1 ≤ bodies.length)
    (recs0 : List Transfer) (t1 : Nat) (p1 : PMsg)
    (hid : p1.h.id = id) (hsum : p1.h.sum = bodies.length) (hno : p1.h.no = 1) (hbody : p1.body = bodies.getD 0 [])
    (rest : List (Nat × PMsg)) (hadm : ∀ p ∈ rest, Admissible id bodies p.2) :
    (AllSeen bodies.length (1 :: nums id rest) →
      (deliveries recs0 ((t1, p1) :: rest)).filter (fun d => d.1 = id) = [(id, bodies.flatten)]) ∧
    (¬ AllSeen bodies.length (1 :: nums id rest) →
      (deliveries recs0 ((t1, p1) :: rest)).filter (fun d => d.1 = id) = []) := by
  obtain ⟨f1, f2⟩ := step_first t1 id bodies hne hN recs0 p1 hid hsum hno hbody
  simp only [deliveries]
  by_cases h1 : bodies.length = 1
  · obtain ⟨recs', hc, hidle⟩ := f1 h1
    rw [hc]
    have hrest := idle_run id bodies hN rest recs' hidle hadm
    constructor
    · intro _; simp only [List.filter_cons, hid, decide_true, if_true, hrest]
    · intro hn
      exfalso; apply hn
      intro i hi; simp; left; omega
  · obtain ⟨recs', hc, hact⟩ := f2 h1
    rw [hc]
    exact active_run id bodies hne hN rest recs' [1] hact hadm

/-- **As soon as the last missing packet arrives** (and not before): the statement above holds for every
prefix of the arrival list, so the completion appears at the first prefix that contains all numbers. -/
theorem reassembly_timing (id : Nat) (bodies : List Bytes) (hne : ∀ b ∈ bodies, b ≠ []) (hN : 1 ≤ bodies.length)
    (recs0 : List Transfer) (t1 : Nat) (p1 : PMsg)
    (hid : p1.h.id = id) (hsum : p1.h.sum = bodies.length) (hno : p1.h.no = 1) (hbody : p1.body = bodies.getD 0 [])
    (rest : List (Nat × PMsg)) (hadm : ∀ p ∈ rest, Admissible id bodies p.2) (k : Nat) :
    (deliveries recs0 ((t1, p1) :: rest.take k)).filter (fun d => d.1 = id) = [(id, bodies.flatten)] ↔
      AllSeen bodies.length (1 :: nums id (rest.take k)) := by
  obtain ⟨a, b⟩ := reassembly_exact id bodies hne hN recs0 t1 p1 hid hsum hno hbody (rest.take k)
    (fun p hp => hadm p (List.mem_of_mem_take hp))
  constructor
  · intro h
    apply Classical.byContradiction; intro hn
    rw [b hn] at h; cases h
  · exact a

/-- **Impossible numbers and foreign traffic never disturb the server**: `completePack` has no panic
outcome for any message and any table (package number 0 included). -/
theorem completePack_no_panic (now : Nat) (recs : List Transfer) (m : PMsg) :
    (completePack now recs m).2 ≠ .panic := by
  unfold completePack
  by_cases h0 : m.h.sum = 0
  · simp [h0]
  · simp only [h0, if_false]
    split
    · simp
    · split
      · simp
      · split <;> simp

/-- **Transfers of different ids are independent**: a message of another id leaves the record of `id` untouched. -/
theorem other_id_independent (now id : Nat) (recs : List Transfer) (m : PMsg) (h : m.h.id ≠ id) :
    findRec (completePack now recs m).1 id = findRec recs id :=
  completePack_other now id recs m (Or.inr h)

/-- **A package that announces another total than the transfer under way is not part of it**: while packets of a
transfer with `bodies.length` packets are being collected, a package of the same message ID with another total (that is
not a first package, which starts a new transfer) changes nothing and delivers nothing — a message is never assembled
from parts of two different messages. (This failed on the original code — defect D28, repaired in /repo.) -/
theorem other_total_not_part_of_transfer (now id : Nat) (bodies : List Bytes) (seen : List Nat) (recs : List Transfer)
    (ha : Active id bodies seen recs) (m : PMsg) (hid : m.h.id = id) (hno1 : m.h.no ≠ 1)
    (hsum : m.h.sum ≠ bodies.length) :
    completePack now recs m = (recs, .none) :=
  completePack_other_total now id bodies seen recs ha m hid hno1 hsum

/-- Non-vacuity: three bodies, arrival 1,3,3,2 with an impossible packet 0 in between, is admissible. -/
example : Admissible 0x0801 [[1], [2, 2], [3]] ⟨⟨0x0801, 0, 0, 1, 0, 2, [], 7, 3, 2⟩, [2, 2], false, []⟩ :=
  .target _ rfl rfl (by decide) (by decide) rfl
example : Admissible 0x0801 [[1], [2, 2], [3]] ⟨⟨0x0801, 0, 0, 1, 0, 2, [], 7, 3, 0⟩, [9], false, []⟩ :=
  .impossible _ rfl (Or.inl rfl)

end JT.C05

namespace JT.C05
open JT JT.Frame JT.Parse

/-! ### all TCP segmentations (C04 ∘ C05) -/

/-- the completions `completeAll` appends are exactly the `deliveries` of the messages of that read, and the
transfer table it returns is the one `deliveries` threads through — so processing read after read is processing the
flat message list -/
theorem completeAll_deliveries (now : Nat) : ∀ (ms : List PMsg) (recs : List Transfer) (seen comps : List PMsg),
    ((completeAll now recs ms seen comps).2.2.1.map (fun c => (c.h.id, c.body))) =
      comps.map (fun c => (c.h.id, c.body)) ++ deliveries recs (ms.map (fun m => (now, m)))
  | [], recs, seen, comps => by simp [completeAll, deliveries]
  | m :: r, recs, seen, comps => by
    unfold completeAll
    simp only [List.map_cons, deliveries]
    have hp := completePack_no_panic now recs m
    cases hc : completePack now recs m with
    | mk recs' o =>
      rw [hc] at hp
      cases o with
      | none => simpa using completeAll_deliveries now r recs' _ comps
      | done data =>
        simp only
        rw [completeAll_deliveries now r recs' _ _]
        simp
      | panic => exact absurd rfl hp

/-- the transfer table after a read, as a function of the flat message list -/
def tableAfter : List Transfer → List (Nat × PMsg) → List Transfer
  | recs, [] => recs
  | recs, (now, m) :: r => tableAfter (completePack now recs m).1 r

theorem completeAll_table (now : Nat) : ∀ (ms : List PMsg) (recs : List Transfer) (seen comps : List PMsg),
    (completeAll now recs ms seen comps).1 = tableAfter recs (ms.map (fun m => (now, m)))
  | [], recs, seen, comps => by simp [completeAll, tableAfter]
  | m :: r, recs, seen, comps => by
    unfold completeAll
    simp only [List.map_cons, tableAfter]
    have hp := completePack_no_panic now recs m
    cases hc : completePack now recs m with
    | mk recs' o =>
      rw [hc] at hp
      cases o with
      | none => exact completeAll_table now r recs' _ _
      | done data => exact completeAll_table now r recs' _ _
      | panic => exact absurd rfl hp

theorem deliveries_append : ∀ (a b : List (Nat × PMsg)) (recs : List Transfer),
    deliveries recs (a ++ b) = deliveries recs a ++ deliveries (tableAfter recs a) b
  | [], b, recs => by simp [deliveries, tableAfter]
  | (now, m) :: r, b, recs => by
    simp only [List.cons_append, deliveries, tableAfter]
    cases hc : completePack now recs m with
    | mk recs' o =>
      cases o with
      | none => simp only; exact deliveries_append r b recs'
      | done data => simp only [List.cons_append]; rw [deliveries_append r b recs']
      | panic => simp only; exact deliveries_append r b recs'

/-- completions of a whole connection: the reads arrive at times `ts`, each read's messages go through `completeAll`
(what `packageParse.parse` does), the table is carried from read to read -/
def sessionCompletions : List Transfer → List (Nat × List PMsg) → List (Nat × Bytes)
  | _, [] => []
  | recs, (now, ms) :: r =>
    let res := completeAll now recs ms [] []
    res.2.2.1.map (fun c => (c.h.id, c.body)) ++ sessionCompletions res.1 r

/-- the flat, timed message list of a session -/
def flatTimed : List (Nat × List PMsg) → List (Nat × PMsg)
  | [] => []
  | (now, ms) :: r => ms.map (fun m => (now, m)) ++ flatTimed r

/-- **Read boundaries do not matter for reassembly**: the completions of a connection are the `deliveries` of its flat
message list — the same list whatever the segmentation (C04 `unpack_any_chunking`), with whatever arrival times; so
`reassembly_exact` (stated for arbitrary times) applies to every segmentation of the stream. -/
theorem session_is_flat : ∀ (reads : List (Nat × List PMsg)) (recs : List Transfer),
    sessionCompletions recs reads = deliveries recs (flatTimed reads)
  | [], _ => by simp [sessionCompletions, flatTimed, deliveries]
  | (now, ms) :: r, recs => by
    simp only [sessionCompletions, flatTimed]
    rw [deliveries_append, completeAll_deliveries, completeAll_table, session_is_flat r]
    simp

end JT.C05
