import JT.Model.Reply
import JT.Spec.Reply
import JT.Props.C01
import JT.Proof.Pipe
import JT.Gen.ConcShape
import JT.Props.C04
/-!
# C06 — automatic replies: one per request, correctly correlated, ordered and numbered

Property theorems only. Reply logic: `JT/Model/Reply.lean` (mirrors `connection.defaultReplyEvent` and the
`ReplyBody` methods; the id table is regenerated from the running code into `JT/Gen/ReplyTable.lean`);
goroutine pipeline: `JT/Model/Pipe.lean`, invariants in `JT/Proof/Pipe.lean`.
-/
namespace JT.C06
open JT JT.Frame JT.Parse JT.Reply

/-- the id → (answered?, reply id) table obtained from the running code equals the standard's -/
theorem reply_table_is_standard : Gen.replyTable = Spec.replyTable := by decide

/-- **No reply** (and no platform serial consumed) for ids that are not registered, for messages that are
themselves responses (not answered by the table), and for sub-packages of an incomplete transfer. -/
theorem no_reply_for (tbl : List (Nat × Bool × Nat)) (c : Conn) (m : PMsg)
    (h : lookup tbl m.h.id = none ∨ (∃ rid, lookup tbl m.h.id = some (false, rid)) ∨ isComplete m = false) :
    replyRec tbl c m = (c, none) := by
  unfold replyRec
  rcases h with h | ⟨rid, h⟩ | h
  · simp [h]
  · simp only [h]
    split
    · rfl
    · split
      · rfl
      · simp
  · cases hl : lookup tbl m.h.id with
    | none => rfl
    | some p =>
      obtain ⟨has, rid⟩ := p
      simp only
      split
      · rfl
      · simp [h]

/-- **Exactly one reply**, of the reply type the table defines, carrying the current platform serial, for a
complete message of an answered id whose handler produces a body; the platform serial advances by one
(wrapping after 65535). -/
theorem one_reply (tbl : List (Nat × Bool × Nat)) (c : Conn) (m : PMsg) (rid : Nat)
    (hl : lookup tbl m.h.id = some (true, rid)) (hid : m.h.id ≠ 0x8003) (hc : isComplete m = true)
    (hs' : HState) (body : Bytes) (hb : replyBody c.hs m = (hs', some body)) :
    replyRec tbl c m = ({ serial := (c.serial + 1) % 65536, hs := hs' }, some ⟨m.h, rid, c.serial, body⟩) := by
  simp [replyRec, hl, hid, hc, hb]

/-- **What the terminal decodes** (via the C01 round trip): the reply frame is addressed with the sender's
BCD phone and protocol version, has the reply id, the platform serial and exactly the reply body. -/
theorem reply_frame_decodes (r : Rec) (hw : C01.HeaderWF r.h) (hr : r.rid < 65536) (hrid : r.rid ≠ 0)
    (hs : r.serial < 65536) (hb : r.body.length ≤ 1023) :
    ∃ m, decode r.frame = .ok m ∧ m.h.id = r.rid ∧ m.h.bcd = r.h.bcd ∧ m.h.version = r.h.version ∧
      m.h.serial = r.serial ∧ m.body = r.body := by
  have := C01.decode_encode r.h hw r.rid r.serial hr hs r.body hb
  exact ⟨_, this, by simp [hrid], rfl, rfl, rfl, rfl⟩

/-- **General response** echoes the request's serial and id with result 0 (every answered id without a
dedicated response) -/
theorem general_body (hs : HState) (m : PMsg)
    (h : m.h.id ≠ 0x0100 ∧ m.h.id ≠ 0x0102 ∧ m.h.id ≠ 0x0801 ∧ m.h.id ≠ 0x1003 ∧ m.h.id ≠ 0x1212) :
    replyBody hs m = (hs, some (toBE 2 m.h.serial ++ toBE 2 m.h.id ++ [0])) := by
  obtain ⟨h1, h2, h3, h4, h5⟩ := h
  unfold replyBody
  split <;> first | rfl | (exfalso; simp_all)

/-- **Registration response**: serial, result 0 (success), the phone number as authentication code -/
theorem register_body (hs : HState) (m : PMsg) (h : m.h.id = 0x0100) :
    replyBody hs m = (hs, some (toBE 2 m.h.serial ++ [0] ++ phoneBytes m.h.bcd)) := by
  simp [replyBody, h]

/-- **Authentication** (2013 layout: the body is the code; 2019 layout: length-prefixed code followed by at
least 35 bytes): general response with result 1 exactly when the code differs from the phone number -/
theorem auth_body_2013 (hs : HState) (m : PMsg) (h : m.h.id = 0x0102) (hv : m.h.version ≠ 1) :
    replyBody hs m = (hs, some (toBE 2 m.h.serial ++ toBE 2 m.h.id ++ [if m.body = phoneBytes m.h.bcd then 0 else 1])) := by
  simp [replyBody, h, hv]

theorem auth_body_2019 (hs : HState) (m : PMsg) (h : m.h.id = 0x0102) (hv : m.h.version = 1)
    (h36 : 36 ≤ m.body.length) (hl : 1 + (m.body.getD 0 0).toNat + 35 ≤ m.body.length) :
    replyBody hs m = (hs, some (toBE 2 m.h.serial ++ toBE 2 m.h.id ++
      [if (m.body.drop 1).take (m.body.getD 0 0).toNat = phoneBytes m.h.bcd then 0 else 1])) := by
  simp only [replyBody, h, hv, if_true]
  rw [if_neg (by omega), if_neg (by omega)]

/-- a 2019-layout authentication too short to hold its fixed fields is not answered (by design) -/
theorem auth_short_2019_unanswered (hs : HState) (m : PMsg) (h : m.h.id = 0x0102) (hv : m.h.version = 1)
    (hshort : m.body.length < 36 ∨ m.body.length < 1 + (m.body.getD 0 0).toNat + 35) :
    replyBody hs m = (hs, none) := by
  simp only [replyBody, h, hv, if_true]
  rcases hshort with h1 | h1
  · rw [if_pos h1]
  · by_cases h2 : m.body.length < 36
    · rw [if_pos h2]
    · rw [if_neg h2, if_pos h1]

/-- **Multimedia response** carries the multimedia id = the first four body bytes (bodies of 36 bytes or more) -/
theorem multimedia_body (hs : HState) (m : PMsg) (h : m.h.id = 0x0801) (h36 : 36 ≤ m.body.length) :
    (replyBody hs m).2 = some (toBE 4 (be32 (m.body.getD 0 0) (m.body.getD 1 0) (m.body.getD 2 0) (m.body.getD 3 0))) := by
  simp only [replyBody, h]
  rw [if_neg (by omega)]

/-- **Replies leave in the order the requests arrived**: processing is a left-to-right fold, so the replies
for `ms₁ ++ ms₂` are those for `ms₁` followed by those for `ms₂` from the state reached after `ms₁`. -/
theorem replies_append (tbl : List (Nat × Bool × Nat)) : ∀ (ms₁ ms₂ : List PMsg) (c : Conn),
    replies tbl c (ms₁ ++ ms₂) =
      ((replies tbl (replies tbl c ms₁).1 ms₂).1, (replies tbl c ms₁).2 ++ (replies tbl (replies tbl c ms₁).1 ms₂).2)
  | [], _, _ => by simp [replies]
  | m :: r, ms₂, c => by
    simp only [List.cons_append, replies]
    rw [replies_append tbl r ms₂]
    simp

/-- one message consumes at most one serial -/
theorem replyRec_serial (tbl : List (Nat × Bool × Nat)) (c : Conn) (m : PMsg) :
    ((replyRec tbl c m).2 = none ∧ (replyRec tbl c m).1.serial = c.serial) ∨
    (∃ r, (replyRec tbl c m).2 = some r ∧ r.serial = c.serial ∧ (replyRec tbl c m).1.serial = (c.serial + 1) % 65536) := by
  unfold replyRec
  split
  · left; simp
  · split
    · left; simp
    · split
      · left; simp
      · split
        · left; simp
        · split
          · left; simp
          · right; exact ⟨_, rfl, rfl, rfl⟩

/-- **Consecutive platform serial numbers, wrapping after 65535.** On a connection whose counter is `s`,
the `k`-th frame written carries serial `(s + k) mod 65536` — for every `k`, however many frames are
written (the wrap is arithmetic, not a 65 536-step run) — and the counter ends at `(s + #frames) mod 65536`. -/
theorem serials_consecutive (tbl : List (Nat × Bool × Nat)) : ∀ (ms : List PMsg) (c : Conn) (hs : c.serial < 65536),
    (replies tbl c ms).1.serial = (c.serial + (replies tbl c ms).2.length) % 65536 ∧
    ∀ k (hk : k < (replies tbl c ms).2.length), ((replies tbl c ms).2[k]).serial = (c.serial + k) % 65536
  | [], c, hs => by simp [replies, Nat.mod_eq_of_lt hs]
  | m :: r, c, hs => by
    simp only [replies]
    rcases replyRec_serial tbl c m with ⟨h1, h2⟩ | ⟨rec, h1, h2, h3⟩
    · have ih := serials_consecutive tbl r (replyRec tbl c m).1 (by rw [h2]; exact hs)
      rw [h2] at ih
      simp only [h1, Option.toList_none, List.nil_append]
      exact ih
    · have hlt : (replyRec tbl c m).1.serial < 65536 := by rw [h3]; exact Nat.mod_lt _ (by decide)
      have ih := serials_consecutive tbl r (replyRec tbl c m).1 hlt
      rw [h3] at ih
      simp only [h1, Option.toList_some, List.singleton_append, List.length_cons]
      refine ⟨by rw [ih.1]; omega, ?_⟩
      intro k hk
      cases k with
      | zero => simp [h2, Nat.mod_eq_of_lt hs]
      | succ j =>
        simp only [List.getElem_cons_succ]
        rw [ih.2 j (by simpa using hk)]
        omega

/-- a fresh connection starts numbering at 0 -/
theorem first_serial_zero : Conn.init.serial = 0 := rfl

/-! ## reader / writer goroutines, all interleavings -/
open JT.Pipe in
/-- **Callbacks, every interleaving.** In every reachable state of the reader/`msgChan`/writer system (any
number of messages, any channel capacity, any schedule) every trace event was admissible when it happened:
a message is reported to the read callbacks at most once; its reply is written only after that report and at
most once; the write callback fires only after the socket write and at most once. -/
theorem callbacks_wellformed {n cap : Nat} {s : Pipe.St} (h : Reach n cap s) : WF s.log :=
  (inv_reach h).wf

open JT.Pipe in
/-- **Replies leave in arrival order, every interleaving**: the indices of the replies written so far
(newest first) are strictly decreasing. -/
theorem replies_in_arrival_order {n cap : Nat} {s : Pipe.St} (h : Reach n cap s) :
    (sws s.log).Pairwise (· > ·) :=
  (ord_reach h).sorted

open JT.Pipe in
/-- **Nobody is forgotten**: whenever the two goroutines have nothing left to do, every one of the `n`
messages has been reported to the read callbacks, answered on the socket and reported to the write callbacks
(each exactly once, by `callbacks_wellformed`). -/
theorem all_served_at_quiescence {n cap : Nat} (hcap : 0 < cap) {s : Pipe.St} (h : Reach n cap s)
    (hq : Quiescent n cap s) :
    ∀ i, i < n → Ev.readcb i ∈ s.log ∧ Ev.sockwrite i ∈ s.log ∧ Ev.writecb i ∈ s.log :=
  (quiescent_done hcap h hq).2

/-- Non-vacuity: a three-step run of the pipeline (read 0, enqueue, write 0) is reachable. -/
example : Pipe.Reach 2 10 ⟨1, none, [], some 0, [.sockwrite 0, .readcb 0]⟩ :=
  .step (.step (.step .init (.r1 _ rfl (by decide))) (.r2 _ 0 rfl (by decide))) (.w1 _ 0 [] rfl rfl)

/-- every delivered message is handed to the writer: the reader's send on `msgChan` is a plain blocking send, as the
`r2` step of the Pipe system assumes (read off the source on every run) -/
theorem messages_not_dropped : Gen.msgSendBlocking = true := by decide

/-! ### the replies do not depend on how TCP cuts the stream (C04 ∘ C06) -/

/-- the writer's work when the reader hands it the messages of one read after the other -/
def repliesPerRead (tbl : List (Nat × Bool × Nat)) : Conn → List (List PMsg) → Conn × List Rec
  | c, [] => (c, [])
  | c, ms :: r =>
    let (c1, rs) := replies tbl c ms
    let (c2, rest) := repliesPerRead tbl c1 r
    (c2, rs ++ rest)

theorem repliesPerRead_flatten (tbl : List (Nat × Bool × Nat)) : ∀ (ls : List (List PMsg)) (c : Conn),
    repliesPerRead tbl c ls = replies tbl c ls.flatten
  | [], c => by simp [repliesPerRead, replies]
  | ms :: r, c => by
    simp only [repliesPerRead, List.flatten_cons]
    rw [replies_append, repliesPerRead_flatten tbl r]

/-- **Replies are independent of the segmentation.** For every sequence of valid frames and EVERY partition of the
byte stream into reads, the reply records the writer produces (reply ID, platform serial, body — hence the frames on the
wire), and the connection state afterwards, are those of the frames arriving one per read. (Messages here are the ones
`unpack` delivers; for sub-packaged transfers the completed message is appended at the end of the read that completed it,
so there the ORDER of replies can depend on where reads end — which is why the socket-level `convcut` runs use
conversations without sub-packages.) -/
theorem replies_independent_of_segmentation (tbl : List (Nat × Bool × Nat)) (fs chunks : List Bytes)
    (hv : ∀ f ∈ fs, ValidFrame f) (hc : chunks.flatten = fs.flatten) (c : Conn) :
    repliesPerRead tbl c (runUnpack [] chunks).1 = replies tbl c (fs.map msgOf) := by
  rw [repliesPerRead_flatten, (C04.unpack_any_chunking fs chunks hv hc).2.2.1]

end JT.C06
