import JT.Proof.Reassembly
import JT.Props.C01
import JT.Gen.ConcShape
/-!
# C14 — missing sub-packages are re-requested exactly, stale transfers expire

Property theorems only. Model: `tick` / `reRequest` / `missingOf` in `JT/Model/Parse.lean`
(mirror `deleteTimeoutPackage` and `supplementarySubPackage` of `service/packet_parse.go`); `now` is a
parameter (milliseconds). Completion after the named packets arrive is C05 (`reassembly_exact`).
-/
namespace JT.C14
open JT JT.Frame JT.Parse

/-- **Exactly the missing numbers.** `k` is named in the re-request iff it is one of 1..N and has not arrived. -/
theorem mem_missingOf (bodies : List Bytes) (hne : ∀ b ∈ bodies, b ≠ []) (seen : List Nat) (k : Nat) :
    k ∈ missingOf (expSlots bodies seen) ↔ (1 ≤ k ∧ k ≤ bodies.length ∧ k ∉ seen) := by
  simp only [missingOf, List.mem_map, List.mem_filter]
  constructor
  · rintro ⟨⟨s, i⟩, ⟨hm, he⟩, rfl⟩
    have := List.mem_zipIdx hm
    simp only [Nat.zero_le, Nat.zero_add, Nat.sub_zero, true_and] at this
    obtain ⟨hi, hs⟩ := this
    rw [expSlots_length] at hi
    refine ⟨by simp, by show i + 1 ≤ bodies.length; omega, ?_⟩
    intro hin
    simp only [expSlots, List.getElem_mapIdx] at hs
    simp only at hin he
    rw [if_pos hin] at hs
    have hb := hne _ (List.getElem_mem hi)
    rw [hs] at he
    cases hbb : bodies[i] with
    | nil => exact hb hbb
    | cons _ _ => rw [hbb] at he; simp at he
  · rintro ⟨h1, hN, hns⟩
    have hi : k - 1 < (expSlots bodies seen).length := by rw [expSlots_length]; omega
    refine ⟨((expSlots bodies seen)[k - 1], k - 1), ⟨?_, ?_⟩, by simp; omega⟩
    · rw [List.mem_zipIdx_iff_getElem?]
      simp [List.getElem?_eq_getElem hi]
    · have : k - 1 + 1 = k := by omega
      simp [expSlots, this, hns]

/-- **Ascending order, no repetition.** -/
theorem missingOf_ascending (slots : List Bytes) : (missingOf slots).Pairwise (· < ·) := by
  unfold missingOf
  rw [List.pairwise_map]
  apply List.Pairwise.filter
  have : ∀ (l : List Bytes) (k : Nat), (l.zipIdx k).Pairwise (fun a b => a.2 + 1 < b.2 + 1) := by
    intro l
    induction l with
    | nil => intro k; simp
    | cons a r ih =>
      intro k
      rw [List.zipIdx_cons, List.pairwise_cons]
      refine ⟨?_, ih (k + 1)⟩
      intro b hb
      have := List.mem_zipIdx hb
      simp only; omega
  exact this slots 0

theorem body8003_length (s : Nat) (l : List Nat) : (body8003 s l).length = 3 + 2 * l.length := by
  simp only [body8003, List.length_append, toBE_two, List.length_cons, List.length_nil]
  have : (l.flatMap (toBE 2)).length = 2 * l.length := by
    induction l with
    | nil => rfl
    | cons a r ih => simp only [List.flatMap_cons, List.length_append, toBE_two, List.length_cons, List.length_nil, ih]; omega
  omega

/-- **The re-request names the first packet's serial and exactly the missing numbers.** For a transfer whose
packet-1 header came from the decoder and with at most 255 numbers missing, the message handed to the writer
has ID 0x8003, is addressed with the transfer's BCD phone and version, and its body is: serial of packet 1
(2 bytes), count (1 byte), the missing package numbers (2 bytes each, ascending — `missingOf_ascending`,
exactly the missing ones — `mem_missingOf`). -/
theorem rerequest_exact (t : Transfer) (hw : C01.HeaderWF t.hdr) (hlen : (missingOf t.slots).length ≤ 255) :
    (reRequest t).body = body8003 t.hdr.serial (missingOf t.slots) ∧ (reRequest t).h.id = 0x8003 ∧
    (reRequest t).h.bcd = t.hdr.bcd ∧ (reRequest t).h.version = t.hdr.version ∧ (reRequest t).h.sum = 0 := by
  have hw' : C01.HeaderWF { t.hdr with frag := 0 } := ⟨hw.id_lt, hw.ver, hw.enc, hw.bcd_len⟩
  have hb : (body8003 t.hdr.serial (missingOf t.slots)).length ≤ 1023 := by
    rw [body8003_length]; omega
  have := C01.decode_encode { t.hdr with frag := 0 } hw' 0x8003 0 (by decide) (by decide) _ hb
  simp only [reRequest, this]
  simp

/-- count byte = number of listed packages (for up to 255) -/
theorem body8003_count (s : Nat) (l : List Nat) (h : l.length ≤ 255) :
    (body8003 s l).getD 2 0 = UInt8.ofNat l.length ∧ (UInt8.ofNat l.length).toNat = l.length := by
  constructor
  · simp [body8003, toBE_two]
  · exact toNat_ofNat_lt _ (by omega)

/-- **Who is re-requested.** A re-request is produced by `tick` exactly for the transfers that are not
expired (younger than 60 s) and for which nothing has happened for 5 s. -/
theorem tick_requests (now : Nat) (recs : List Transfer) (p : PMsg) :
    p ∈ (tick now recs).2 ↔ ∃ t ∈ recs, ¬ (t.create + 60000 ≤ now) ∧ t.update + 5000 ≤ now ∧ p = reRequest t := by
  simp only [tick, stale, expire, List.mem_map, List.mem_filter, decide_eq_true_eq]
  constructor
  · rintro ⟨t, ⟨⟨ht, h1⟩, h2⟩, rfl⟩
    exact ⟨t, ht, by simpa using h1, h2, rfl⟩
  · rintro ⟨t, ht, h1, h2, rfl⟩
    exact ⟨t, ⟨⟨ht, by simpa using h1⟩, h2⟩, rfl⟩

/-- **At most once per 5 s.** After a `tick` at time `now`, every surviving transfer has been active (packet
arrival or re-request) less than 5 s ago, so a later `tick` before `now + 5000` re-requests nothing for it
unless new packets arrived in between (which only move `update` forward); whatever *is* re-requested by a
second `tick` less than 5 s later was not re-requested by the first (`no_double_rerequest`). -/
theorem tick_fresh (now : Nat) (recs : List Transfer) (hmono : ∀ t ∈ recs, t.update ≤ now) :
    ∀ t ∈ (tick now recs).1, now < t.update + 5000 ∧ t.update ≤ now := by
  intro t ht
  simp only [tick, touch, expire, List.mem_map, List.mem_filter] at ht
  obtain ⟨u, ⟨hu, _⟩, rfl⟩ := ht
  split
  · simp
  · next h => exact ⟨by omega, hmono u hu⟩

theorem no_double_rerequest (now now' : Nat) (recs : List Transfer) (h : now' < now + 5000) (p : PMsg)
    (hp : p ∈ (tick now' (tick now recs).1).2) :
    ∃ u ∈ recs, ¬ (u.update + 5000 ≤ now) ∧ p = reRequest u := by
  rw [tick_requests] at hp
  obtain ⟨t, ht, _, hst, rfl⟩ := hp
  simp only [tick, touch, expire, List.mem_map, List.mem_filter] at ht
  obtain ⟨u, ⟨hu, _⟩, rfl⟩ := ht
  by_cases hs : u.update + 5000 ≤ now
  · rw [if_pos hs] at hst; simp only at hst; omega
  · rw [if_neg hs]; exact ⟨u, hu, hs, rfl⟩

/-- **Stale transfers expire.** A transfer that began 60 s ago or earlier is dropped by `tick`; if every
record of that id is that old, the id is unknown afterwards … -/
theorem expired_removed (now id : Nat) (recs : List Transfer)
    (h : ∀ t ∈ recs, t.id = id → t.create + 60000 ≤ now) : findRec (tick now recs).1 id = none := by
  simp only [findRec, tick, touch, expire, List.find?_eq_none, List.mem_map, List.mem_filter]
  rintro x ⟨u, ⟨hu, hne⟩, rfl⟩
  have hid : (if u.update + 5000 ≤ now then { u with update := now } else u).id = u.id := by split <;> rfl
  simp only [hid, decide_eq_true_eq]
  intro he
  have := h u hu he
  simp at hne; omega

/-- … and is **never delivered**: whatever admissible traffic follows (late packets 2..N, other
transfers, ordinary messages), no completion for that id is produced. -/
theorem expired_never_delivered (now id : Nat) (bodies : List Bytes) (hN : 1 ≤ bodies.length)
    (recs : List Transfer) (h : ∀ t ∈ recs, t.id = id → t.create + 60000 ≤ now)
    (later : List (Nat × PMsg)) (hadm : ∀ p ∈ later, Admissible id bodies p.2) :
    (deliveries (tick now recs).1 later).filter (fun d => d.1 = id) = [] :=
  idle_run id bodies hN later _ (expired_removed now id recs h) hadm

/-- **Several transfers at once are handled independently**: `tick` treats every record on its own. -/
theorem tick_pointwise (now : Nat) (recs : List Transfer) (t' : Transfer) :
    t' ∈ (tick now recs).1 ↔ ∃ t ∈ recs, ¬ (t.create + 60000 ≤ now) ∧
      t' = (if t.update + 5000 ≤ now then { t with update := now } else t) := by
  simp only [tick, touch, expire, List.mem_map, List.mem_filter, decide_eq_true_eq]
  constructor
  · rintro ⟨t, ⟨ht, h1⟩, rfl⟩; exact ⟨t, ht, by simpa using h1, rfl⟩
  · rintro ⟨t, ht, h1, rfl⟩; exact ⟨t, ⟨ht, by simpa using h1⟩, rfl⟩

/-- every re-request the parser produces is handed to the writer: the reader's send on `reissuePackChan` is a plain
blocking send (read off the source on every run) -/
theorem rerequests_not_dropped : Gen.reissueSendBlocking = true := by decide

end JT.C14
