import JT.Props.C01Src
import JT.Proof.GoTerm
/-!
# C20 — the simulator's frame builder as it stands in the source

`(*Terminal).CreateCommandData` of terminal/terminal.go is translated from /repo on every run (`JT/Gen/GoTerm.lean`); it
calls the translated `Header.Encode` of `JT/Gen/GoFrame.lean`. The theorems are about that translated code and the
translated `JTMessage.Decode`: simulator and codec agree by proof, for every phone, command, body and simulator state.
-/
namespace JT.C20
open JT JT.Frame JT.Go JT.Gen.GoFrame JT.Gen.GoTerm

theorem source_simulator_translated_completely : Gen.GoTerm.untranslated = [] := by decide

/-- **Every frame the simulator builds decodes to what was asked for** (translated source). Let the simulator's header be
the header of any frame `f` the translated `Decode` accepts (the built-in template or a caller-supplied header), in any
state (any reply ID, any platform serial `s`, any body length and fragment flag left behind by earlier calls). Then for
every command ID and every body of 0..1023 bytes `CreateCommandData` returns a frame — nothing panics — with `0x7e` as
first and last byte and nowhere else, which the translated `Decode` accepts (into any receiver) with that command ID
(the header's own when the command ID is 0), serial `s + 1` (16-bit), the same BCD phone and version, and the
byte-identical body; and the simulator is left in a state of the same kind with serial `s + 1`. -/
theorem source_command_decodes (fuel : Nat) (j0 j j1 : jt808_JTMessage) (f body : Bytes) (cmd s : UInt16) (t : terminal_Terminal)
    (hf : f.length < fuel) (hfb : 2 * body.length + 64 < fuel) (hb : body.length ≤ 1023)
    (hd : jt808_JTMessage_Decode fuel j0 f = .ok (j, none)) (ht : SameBut t.header j s) :
    ∃ t' frame interior, terminal_Terminal_CreateCommandData fuel t cmd body = .ok (t', frame) ∧
      frame = 0x7e :: (interior ++ [0x7e]) ∧ (∀ x ∈ interior, x ≠ 0x7e) ∧ SameBut t'.header j (s + 1) ∧
      ∃ j2, jt808_JTMessage_Decode fuel j1 frame = .ok (j2, none) ∧ j2.Body = body ∧
        j2.Header.ID = (if cmd = 0 then j.Header.ID else cmd) ∧ j2.Header.SerialNumber = s + 1 ∧
        j2.Header.bcdTerminalPhoneNo = j.Header.bcdTerminalPhoneNo ∧
        j2.Header.Property.Version = j.Header.Property.Version := by
  obtain ⟨r, l, fl, hh⟩ := ht
  obtain ⟨h', frame, interior, henc, hfr, hint, j2, hdec, hbody, hid, hser, hbcd, hver, _⟩ :=
    C01.source_roundtrip fuel j0 j j1 f body cmd (s + 1) hf hfb hb hd
  -- the simulator's header and the decoded header with the same ID / serial are framed identically
  have hcongr : jt808_Header_Encode fuel { t.header with ReplyID := cmd, PlatformSerialNumber := s + 1 } body =
      jt808_Header_Encode fuel { j.Header with ReplyID := cmd, PlatformSerialNumber := s + 1 } body := by
    apply encode_congr
    rw [hh]; rfl
  have hstep : terminal_Terminal_CreateCommandData fuel t cmd body =
      .ok ({ t with header := h' }, frame) := by
    unfold terminal_Terminal_CreateCommandData
    have hs : t.header.PlatformSerialNumber = s := by rw [hh]
    simp only [hs]
    have e : ({ ({ t with header := { t.header with ReplyID := cmd } } : terminal_Terminal) with
        header := { ({ t.header with ReplyID := cmd } : jt808_Header) with PlatformSerialNumber := s + 1 } } : terminal_Terminal).header =
        { t.header with ReplyID := cmd, PlatformSerialNumber := s + 1 } := rfl
    simp only [e, hcongr, henc, X.bind_ok]
  refine ⟨_, frame, interior, hstep, hfr, hint, ?_, j2, hdec, hbody, hid, hser, hbcd, hver⟩
  have := encode_header_after fuel _ h' body frame henc
  refine ⟨cmd, UInt16.ofInt (len body), 0, ?_⟩
  simp only [this, afterEncode]

/-- **Serials are consecutive** (translated source): two commands built one after the other — any IDs, any bodies — decode
to serials `s + 1` and `s + 2`; the counter is 16 bits wide and wraps from 65535 to 0 like the decoder's field. -/
theorem source_serials_consecutive (fuel : Nat) (j0 j j1 : jt808_JTMessage) (f b1 b2 : Bytes) (c1 c2 s : UInt16) (t : terminal_Terminal)
    (hf : f.length < fuel) (hf1 : 2 * b1.length + 64 < fuel) (hf2 : 2 * b2.length + 64 < fuel)
    (hb1 : b1.length ≤ 1023) (hb2 : b2.length ≤ 1023)
    (hd : jt808_JTMessage_Decode fuel j0 f = .ok (j, none)) (ht : SameBut t.header j s) :
    ∃ t1 fr1 t2 fr2 m1 m2, terminal_Terminal_CreateCommandData fuel t c1 b1 = .ok (t1, fr1) ∧
      terminal_Terminal_CreateCommandData fuel t1 c2 b2 = .ok (t2, fr2) ∧
      jt808_JTMessage_Decode fuel j1 fr1 = .ok (m1, none) ∧ jt808_JTMessage_Decode fuel j1 fr2 = .ok (m2, none) ∧
      m1.Header.SerialNumber = s + 1 ∧ m2.Header.SerialNumber = s + 2 ∧ m1.Body = b1 ∧ m2.Body = b2 := by
  obtain ⟨t1, fr1, _, e1, _, _, st1, m1, d1, bb1, _, s1, _, _⟩ := source_command_decodes fuel j0 j j1 f b1 c1 s t hf hf1 hb1 hd ht
  obtain ⟨t2, fr2, _, e2, _, _, _, m2, d2, bb2, _, s2, _, _⟩ := source_command_decodes fuel j0 j j1 f b2 c2 (s + 1) t1 hf hf2 hb2 hd st1
  refine ⟨t1, fr1, t2, fr2, m1, m2, e1, e2, d1, d2, s1, ?_, bb1, bb2⟩
  rw [s2]
  apply UInt16.toNat_inj.mp
  simp only [UInt16.toNat_add, show (1 : UInt16).toNat = 1 from rfl, show (2 : UInt16).toNat = 2 from rfl]
  omega

/-- Non-vacuity: the simulator's built-in template `7e000200001234567820130001387e` is accepted by the translated `Decode`
(so the hypotheses above are met by `New()` without options), and a header is `SameBut` itself. -/
example : (match jt808_JTMessage_Decode 40 jt808_JTMessage.zero
      [0x7e, 0x00, 0x02, 0x00, 0x00, 0x12, 0x34, 0x56, 0x78, 0x20, 0x13, 0x00, 0x01, 0x38, 0x7e] with
    | .ok (j, e) => (e, j.Header.ID, j.Header.SerialNumber, j.Header.bcdTerminalPhoneNo)
    | _ => (some "x", 0, 0, [])) = (none, 2, 1, [0x12, 0x34, 0x56, 0x78, 0x20, 0x13]) := by decide

example (j : jt808_JTMessage) : SameBut j.Header j j.Header.PlatformSerialNumber :=
  ⟨j.Header.ReplyID, j.Header.Property.BodyDayaLen, j.Header.Property.PacketFragmented, rfl⟩

end JT.C20
