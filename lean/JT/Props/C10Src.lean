import JT.Proof.GoAttach
/-!
# C10 / C15 — the chunk-header parsers of the attachment server as they stand in the source

`attachment/stream_data_handle.go` is translated from /repo on every run (`JT/Gen/GoAttach.lean`). The connection loop
(`stageStreamData`) calls `Parse` on the pending bytes only after `HasStreamData` and `HasMinHeadLen` returned true; the
theorems state that this guard is sufficient for every buffer a peer can produce, for both header layouts.
-/
namespace JT.C10
open JT JT.Go JT.Gen.GoAttach

/-- the whole file was inside the translated fragment -/
theorem source_translated_completely : Gen.GoAttach.untranslated = [] := by decide

/-- **`HasMinHeadLen` never panics** on any buffer, for both layouts (the Heilongjiang one reads `data[4]` behind its own
`len(data) < 5` test). -/
theorem source_guard_total (fuel : Nat) (d : Bytes) (s : attachment_baseStreamDataHandle) (h : attachment_heiBiaoStreamDataHandle) :
    (∃ r, attachment_baseStreamDataHandle_HasMinHeadLen fuel s d = .ok r) ∧
    (∃ r, attachment_heiBiaoStreamDataHandle_HasMinHeadLen fuel h d = .ok r) :=
  ⟨(X.isOk_iff _).mp (base_hasMinHeadLen_total fuel s d), (X.isOk_iff _).mp (hlj_hasMinHeadLen_total fuel h d)⟩

/-- **A chunk header that passed `HasMinHeadLen` is parsed without a panic**, whatever the bytes are (any file-name length
byte, any announced data length, any receiver state), for the 62-byte layout and for the Heilongjiang layout. -/
theorem source_guarded_parse_total (fuel : Nat) (d : Bytes) :
    (∀ s s' : attachment_baseStreamDataHandle, attachment_baseStreamDataHandle_HasMinHeadLen fuel s' d = .ok true →
      ∃ r, attachment_baseStreamDataHandle_Parse fuel s d = .ok r) ∧
    (∀ h h' h'' : attachment_heiBiaoStreamDataHandle, attachment_heiBiaoStreamDataHandle_HasMinHeadLen fuel h' d = .ok (h'', true) →
      ∃ r, attachment_heiBiaoStreamDataHandle_Parse fuel h d = .ok r) :=
  ⟨fun s s' hg => (X.isOk_iff _).mp (base_parse_guarded fuel s s' d hg),
   fun h h' h'' hg => (X.isOk_iff _).mp (hlj_parse_guarded fuel h h' h'' d hg)⟩

end JT.C10
