import JT.Proof.GoAttach
import JT.Proof.GoModelBcd
import JT.Proof.GoAttachMsg
/-!
# C10 / C15 — the chunk-header parsers of the attachment server as they stand in the source

`attachment/stream_data_handle.go` is translated from /repo on every run (`JT/Gen/GoAttach.lean`). The connection loop
(`stageStreamData`) calls `Parse` on the pending bytes only after `HasStreamData` and `HasMinHeadLen` returned true; the
theorems state that this guard is sufficient for every buffer a peer can produce, for both header layouts.
-/
namespace JT.C10
open JT JT.Go JT.Gen.GoAttach

/-- the whole file was inside the translated fragment -/
theorem source_translated_completely : Gen.GoAttach.untranslated = [] := by decide

/-- **`HasMinHeadLen` never panics** on any buffer, for both layouts (the Heilongjiang one reads `data[4]` behind its own
`len(data) < 5` test). -/
theorem source_guard_total (fuel : Nat) (d : Bytes) (s : attachment_baseStreamDataHandle) (h : attachment_heiBiaoStreamDataHandle) :
    (∃ r, attachment_baseStreamDataHandle_HasMinHeadLen fuel s d = .ok r) ∧
    (∃ r, attachment_heiBiaoStreamDataHandle_HasMinHeadLen fuel h d = .ok r) :=
  ⟨(X.isOk_iff _).mp (base_hasMinHeadLen_total fuel s d), (X.isOk_iff _).mp (hlj_hasMinHeadLen_total fuel h d)⟩

/-- **A chunk header that passed `HasMinHeadLen` is parsed without a panic**, whatever the bytes are (any file-name length
byte, any announced data length, any receiver state), for the 62-byte layout and for the Heilongjiang layout. -/
theorem source_guarded_parse_total (fuel : Nat) (d : Bytes) :
    (∀ s s' : attachment_baseStreamDataHandle, attachment_baseStreamDataHandle_HasMinHeadLen fuel s' d = .ok true →
      ∃ r, attachment_baseStreamDataHandle_Parse fuel s d = .ok r) ∧
    (∀ h h' h'' : attachment_heiBiaoStreamDataHandle, attachment_heiBiaoStreamDataHandle_HasMinHeadLen fuel h' d = .ok (h'', true) →
      ∃ r, attachment_heiBiaoStreamDataHandle_Parse fuel h d = .ok r) :=
  ⟨fun s s' hg => (X.isOk_iff _).mp (base_parse_guarded fuel s s' d hg),
   fun h h' h'' hg => (X.isOk_iff _).mp (hlj_parse_guarded fuel h h' h'' d hg)⟩

/-- **The attachment announcement 0x1210 — the first frame of every upload connection — is decoded without a panic**
(`T0x1210.Parse` as translated from protocol/model on every run, with the alarm-sign block parser, `BCD2Time` and the
attachment-list loop): for every body, every dialect the receiver is configured for (identifier 7 or 30 bytes, alarm sign
16…40 bytes) and every attachment count byte, the method returns a result or an error. Every round of the list loop
checks its own bounds, so the count byte cannot drive an access outside the body (the D F16 defect, and the change
mut-C03e-2, are exactly the absence of that check). -/
theorem source_1210_total (fuel : Nat) (t : Gen.GoModel.model_T0x1210) (j : Gen.GoFrame.jt808_JTMessage)
    (hf : j.Body.length + 256 < fuel) : ∃ r, Gen.GoModel.model_T0x1210_Parse fuel t j = .ok r :=
  (X.isOk_iff _).mp (Gen.GoModel.T0x1210_Parse_total fuel t j hf)

/-- the alarm-sign block (shared by 0x1210, 0x9208 and the vendor extensions 0x64…0x70) is parsed without a panic for
every block and every dialect -/
theorem source_alarm_sign_total (fuel : Nat) (p : Gen.GoModel.model_P9208AlarmSign) (d : Bytes) (h : d.length < fuel) :
    ∃ r, Gen.GoModel.model_P9208AlarmSign_parse fuel p d = .ok r :=
  (X.isOk_iff _).mp (Gen.GoModel.AlarmSign_parse_total fuel p d h)

/-- **The control-frame splitter of the attachment connection (translated source) never panics and consumes exactly one
delimited candidate**: `(*PackageProgress).parseJT808Message`, for every pending buffer (budget above its length) —
fewer than 10 bytes, or no delimiter after the first byte: "insufficient data" and the buffer is untouched; otherwise the
bytes up to and including the first delimiter after position 0 are handed to the frame decoder: an accepted frame is
removed from the buffer and returned with the model's fields, a rejected one is reported and nothing is consumed. -/
theorem source_control_frame_splitter (fuel : Nat) (p : Gen.GoAttach.attachment_PackageProgress) (hf : p.historyData.length < fuel) :
    (p.historyData.length < 10 →
      Gen.GoAttach.attachment_PackageProgress_parseJT808Message fuel p = .ok (p, Gen.GoFrame.jt808_JTMessage.zero, some "ErrInsufficientDataLen")) ∧
    (10 ≤ p.historyData.length → indexByte (p.historyData.drop 1) 0x7e = -1 →
      Gen.GoAttach.attachment_PackageProgress_parseJT808Message fuel p = .ok (p, Gen.GoFrame.jt808_JTMessage.zero, some "ErrInsufficientDataLen")) ∧
    (10 ≤ p.historyData.length → ∀ k : Nat, indexByte (p.historyData.drop 1) 0x7e = (k : Int) →
      k + 2 ≤ p.historyData.length ∧
      match Frame.decode (p.historyData.take (k + 2)) with
      | .ok m => ∃ j, Gen.GoAttach.attachment_PackageProgress_parseJT808Message fuel p =
          .ok ({ p with historyData := p.historyData.drop (k + 2) }, j, none) ∧ Gen.GoFrame.Rep j m
      | .err => Gen.GoAttach.attachment_PackageProgress_parseJT808Message fuel p = .ok (p, Gen.GoFrame.jt808_JTMessage.zero, some "error")
      | .panic => False) :=
  Gen.GoAttach.parseJT808Message_spec fuel p hf

end JT.C10
