import JT.Model.Mem
import JT.Gen.Clones
/-!
# C09 — delivered messages are stable

Property theorems only. Memory model: `JT/Model/Mem.lean`. The tie to the code is the harness's address
check (no delivered byte slice and no stored sub-package slot overlaps the read buffer or the history
array) and its content check (messages kept by callbacks are re-read after later traffic and teardown).
-/
namespace JT.C09
open JT JT.Mem

/-- **Regenerated tie**: in the current source of `packageParse.unpack` every place that hands frame bytes to
`jtMsg.Decode` / `newTerminalMessage` passes a `bytes.Clone` of them (extracted with go/ast on every run); this
is what justifies instantiating `provenance` with `cloned := true` below. -/
theorem unpack_clones_every_frame :
    Gen.unpackRecognised = true ∧ 0 < Gen.unpackFrameUses ∧ Gen.unpackClonedUses = Gen.unpackFrameUses := by decide

/-- later operations allocate only regions that did not exist when the message was delivered -/
def FreshAfter (k : Nat) (ops : List Op) : Prop := ∀ j c, Op.alloc j c ∈ ops → j ≠ k

/-- **Owned data is stable.** A slice of an allocation of its own reads the same after any later reads, any
history-buffer writes, any later allocations and the teardown of the connection. -/
theorem owned_stable (m : Mem) (k off len : Nat) (ops : List Op) (hf : FreshAfter k ops) :
    deref (run m ops) ⟨.own k, off, len⟩ = deref m ⟨.own k, off, len⟩ := by
  induction ops generalizing m with
  | nil => rfl
  | cons op r ih =>
    have hr : FreshAfter k r := fun j c h => hf j c (List.mem_cons_of_mem _ h)
    simp only [run, List.foldl_cons]
    have := ih (apply m op) hr
    simp only [run] at this
    rw [this]
    cases op with
    | read b => rfl
    | histWrite h => rfl
    | teardown => rfl
    | alloc j c =>
      have hne : j ≠ k := hf j c (by simp)
      simp [deref, apply, Mem.get, Ne.symm hne]

/-- **What the code delivers is owned** (after the D12 repair): on both extraction paths the frame bytes every
delivered field is a slice of live in an allocation of their own. -/
theorem delivered_owned (p : Path) (k off len : Nat) :
    (provenance true p k off len).region = .own k := by
  simp [provenance]

/-- hence: every delivered field is stable under everything that can happen later on the connection -/
theorem delivered_stable (p : Path) (m : Mem) (k off len : Nat) (ops : List Op) (hf : FreshAfter k ops) :
    deref (run m ops) (provenance true p k off len) = deref m (provenance true p k off len) := by
  simp only [provenance, if_true]
  exact owned_stable m k off len ops hf

/-- **The code before the repair violated the property**: a field that views the read buffer changes with
the next read — concrete witness (two-byte message body, next read brings other bytes). -/
theorem readbuf_unstable :
    ∃ (m : Mem) (ops : List Op),
      deref (run m ops) (provenance false .fast 0 0 2) ≠ deref m (provenance false .fast 0 0 2) :=
  ⟨⟨[1, 2], [], fun _ => []⟩, [.read [9, 9]], by decide⟩

/-- … and a field that views the history array changes with the next append -/
theorem hist_unstable :
    ∃ (m : Mem) (ops : List Op),
      deref (run m ops) (provenance false .buffered 0 0 2) ≠ deref m (provenance false .buffered 0 0 2) :=
  ⟨⟨[], [1, 2], fun _ => []⟩, [.histWrite [7, 7]], by decide⟩

/-- … and both are wiped by the teardown -/
theorem teardown_wipes_readbuf :
    deref (run ⟨[5, 6], [], fun _ => []⟩ [.teardown]) ⟨.readBuf, 0, 2⟩ = [0, 0] := by decide

/-- Non-vacuity of `FreshAfter`: a later trace with reads, history writes, other allocations and a teardown. -/
example : FreshAfter 3 [.read [1], .alloc 4 [2], .histWrite [], .alloc 5 [], .teardown] := by
  intro j c h; simp at h; rcases h with ⟨rfl, _⟩ | ⟨rfl, _⟩ <;> decide

end JT.C09
