import JT.Proof.GoModel8003
/-!
# C14 — the 0x8003 re-request codec as it stands in the source

`P0x8003.Encode` and `P0x8003.Parse` are translated from /repo on every run (`JT/Gen/GoModel.lean`).
-/
namespace JT.C14
open JT JT.Go JT.Gen.GoModel

/-- **The list of missing package numbers survives the 0x8003 frame body** (translated source): for every original serial
and every list of package numbers whose length fits the count byte, `Parse(Encode(v))` returns no error, the same serial
and exactly the same numbers in the same order; nothing panics, both loops terminate. -/
theorem source_8003_roundtrip (fuel : Nat) (p q : model_P0x8003) (j : Gen.GoFrame.jt808_JTMessage)
    (hc : p.AgainPackageCount.toNat = p.AgainPackageList.length) (hf : 2 * p.AgainPackageList.length + 8 < fuel) :
    ∃ body, model_P0x8003_Encode fuel p = .ok body ∧
      ∃ r, model_P0x8003_Parse fuel q { j with Body := body } = .ok (r, none) ∧
        r.OriginalSerialNumber = p.OriginalSerialNumber ∧ r.AgainPackageList = p.AgainPackageList := by
  obtain ⟨body, h1, r, h2, a1, _, a3⟩ := roundtrip_8003 fuel p q j hc hf
  exact ⟨body, h1, r, h2, a1, a3⟩

end JT.C14
