import JT.Proof.GoModel8003
import JT.Model.Parse
import JT.Proof.GoFrame
/-!
# C14 — the 0x8003 re-request codec as it stands in the source

`P0x8003.Encode` and `P0x8003.Parse` are translated from /repo on every run (`JT/Gen/GoModel.lean`).
-/
namespace JT.C14
open JT JT.Go JT.Gen.GoModel

/-- **The list of missing package numbers survives the 0x8003 frame body** (translated source): for every original serial
and every list of package numbers whose length fits the count byte, `Parse(Encode(v))` returns no error, the same serial
and exactly the same numbers in the same order; nothing panics, both loops terminate. -/
theorem source_8003_roundtrip (fuel : Nat) (p q : model_P0x8003) (j : Gen.GoFrame.jt808_JTMessage)
    (hc : p.AgainPackageCount.toNat = p.AgainPackageList.length) (hf : 2 * p.AgainPackageList.length + 8 < fuel) :
    ∃ body, model_P0x8003_Encode fuel p = .ok body ∧
      ∃ r, model_P0x8003_Parse fuel q { j with Body := body } = .ok (r, none) ∧
        r.OriginalSerialNumber = p.OriginalSerialNumber ∧ r.AgainPackageList = p.AgainPackageList := by
  obtain ⟨body, h1, r, h2, a1, _, a3⟩ := roundtrip_8003 fuel p q j hc hf
  exact ⟨body, h1, r, h2, a1, a3⟩

/-- **The body of the re-request, translated source = model**: what `supplementarySubPackage` puts into the 0x8003 frame
is `P0x8003.Encode` of (serial of the first packet, count, the missing numbers); the translated encoder produces exactly
the bytes the reassembly model prescribes (`JT.Parse.body8003`: serial, count byte, two bytes per missing number, in order)
for every serial and every list of numbers — so `rerequest_exact` speaks about the bytes the source writes. -/
theorem source_rerequest_body (fuel : Nat) (p : model_P0x8003)
    (hc : p.AgainPackageCount = UInt8.ofNat p.AgainPackageList.length) (hf : p.AgainPackageList.length < fuel) :
    model_P0x8003_Encode fuel p = .ok (JT.Parse.body8003 p.OriginalSerialNumber.toNat (p.AgainPackageList.map (·.toNat))) := by
  rw [Gen.GoModel.encode_8003 fuel p hf]
  unfold JT.Parse.body8003
  have hb : ∀ v : UInt16, Gen.GoModel.enc8003 v = toBE 2 v.toNat := fun v => Gen.GoFrame.be16_toBE v
  have hfm : p.AgainPackageList.flatMap Gen.GoModel.enc8003 = (p.AgainPackageList.map (·.toNat)).flatMap (toBE 2) := by
    induction p.AgainPackageList with
    | nil => rfl
    | cons v r ih => simp only [List.flatMap_cons, List.map_cons, hb, ih]
  have hs := Gen.GoFrame.be16_toBE p.OriginalSerialNumber
  unfold Go.be16 at hs
  rw [hfm, hc, List.length_map, ← hs]
  simp

end JT.C14
