import JT.Props.C04
import JT.Proof.GoParse
/-!
# C04 — the stream splitter as it stands in the source

`JT/Gen/GoParse.lean` is regenerated on every run by translating `(*packageParse).unpack` of service/packet_parse.go
(with `jt808.NewJTMessage`, `newTerminalMessage` and, through `JT/Gen/GoFrame.lean`, `JTMessage.Decode`) from /repo into
Lean (`extract golean`). `runGo` hands the reads of one connection to the translated function, one call per read, the way
`connection.reader` does. The theorems below are about that translated code: for the stream splitter the tie of the
model to the source is a proof obligation re-checked on every run, not a sample.
-/
namespace JT.C04
open JT JT.Frame JT.Parse JT.Go
open JT.Gen.GoParse (runGo RepM All2 service_packageParse service_Message)

/-- everything `unpack` consists of was inside the translated fragment (in particular: no pointer to a decoded message is
shared between two delivered messages, no slice is written through a second name) -/
theorem source_unpack_translated_completely : Gen.GoParse.untranslated = [] := by decide

/-- **one read, translated code = model**: for every buffer content, every read and every sufficient loop budget the
translated `unpack` returns (it neither panics nor exhausts the budget), reports an error exactly when the model does,
leaves the model's bytes pending and delivers messages carrying the model's header fields, bodies and raw frames. -/
theorem source_unpack_is_model (fuel : Nat) (p0 : service_packageParse) (data : Bytes)
    (hf : p0.historyData.length + data.length + 2 < fuel) :
    ∃ p ms e, Gen.GoParse.service_packageParse_unpack fuel p0 data = X.ok (p, ms, e) ∧
      All2 RepM ms (unpack p0.historyData data).1 ∧
      e.isSome = (unpack p0.historyData data).2.1 ∧ p.historyData = (unpack p0.historyData data).2.2 :=
  Gen.GoParse.unpack_go fuel p0 data hf

/-- **Any segmentation, on the translated source.** For every sequence `fs` of valid frames and every partition of the
concatenated bytes into consecutive reads, the translated `unpack`, called once per read on a fresh parser, never panics
and never reports an error; it delivers exactly one message per frame, in order, each carrying the header fields and body
that `decode` gives for that frame and the frame's own bytes as raw data; one (possibly empty) list per read; and nothing
is left pending. The loop budget only has to exceed the length of the stream. -/
theorem source_unpack_any_chunking (fs chunks : List Bytes) (hv : ∀ f ∈ fs, ValidFrame f)
    (hc : chunks.flatten = fs.flatten) (fuel : Nat) (hfuel : chunks.flatten.length + 2 < fuel) :
    ∃ mss p, runGo fuel service_packageParse.zero chunks = X.ok (mss, false, p) ∧ p.historyData = [] ∧
      All2 RepM mss.flatten (fs.map msgOf) ∧ mss.length = chunks.length := by
  obtain ⟨mss, e, p, h1, h2, h3, h4⟩ := Gen.GoParse.run_go fuel chunks service_packageParse.zero
    (by simp only [service_packageParse.zero, List.length_nil]; omega)
  obtain ⟨m1, m2, m3, m4⟩ := unpack_any_chunking fs chunks hv hc
  simp only [service_packageParse.zero] at h2 h3 h4
  refine ⟨mss, p, ?_, ?_, ?_, ?_⟩
  · rw [h1, h3, m1]
  · rw [h4, m2]
  · have := Gen.GoParse.All2.flatten h2
    rw [m3] at this; exact this
  · rw [Gen.GoParse.All2.length h2, m4]

/-- **Two segmentations of the same stream deliver the same messages** (translated source): whatever the read boundaries,
the flattened message lists are element-wise related to the same `fs.map msgOf`. Stated for two partitions at once. -/
theorem source_two_partitions_agree (fs c1 c2 : List Bytes) (hv : ∀ f ∈ fs, ValidFrame f)
    (h1 : c1.flatten = fs.flatten) (h2 : c2.flatten = fs.flatten) (fuel : Nat) (hfuel : fs.flatten.length + 2 < fuel) :
    ∃ m1 m2 p1 p2, runGo fuel service_packageParse.zero c1 = X.ok (m1, false, p1) ∧
      runGo fuel service_packageParse.zero c2 = X.ok (m2, false, p2) ∧
      All2 RepM m1.flatten (fs.map msgOf) ∧ All2 RepM m2.flatten (fs.map msgOf) := by
  obtain ⟨m1, p1, a1, _, a3, _⟩ := source_unpack_any_chunking fs c1 hv h1 fuel (by rw [h1]; exact hfuel)
  obtain ⟨m2, p2, b1, _, b3, _⟩ := source_unpack_any_chunking fs c2 hv h2 fuel (by rw [h2]; exact hfuel)
  exact ⟨m1, m2, p1, p2, a1, b1, a3, b3⟩

/-- **Exactly when the closing delimiter has arrived, on the translated source.** After reads that bring any part of the
stream (`later` still in flight), the translated `unpack` has reported no error, holds an open remainder `pre` (no closing
delimiter in it) and has delivered exactly the `K` frames that are complete within the bytes received. -/
theorem source_delivered_exactly_when_closed (fs chunks : List Bytes) (later : Bytes) (hv : ∀ f ∈ fs, ValidFrame f)
    (hc : chunks.flatten ++ later = fs.flatten) (fuel : Nat) (hfuel : chunks.flatten.length + 2 < fuel) :
    ∃ K pre mss p, runGo fuel service_packageParse.zero chunks = X.ok (mss, false, p) ∧
      chunks.flatten = (fs.take K).flatten ++ pre ∧ Open pre ∧ p.historyData = pre ∧
      All2 RepM mss.flatten ((fs.take K).map msgOf) := by
  obtain ⟨mss, e, p, h1, h2, h3, h4⟩ := Gen.GoParse.run_go fuel chunks service_packageParse.zero
    (by simp only [service_packageParse.zero, List.length_nil]; omega)
  obtain ⟨K, pre, m1, m2, m3, m4, m5⟩ := delivered_exactly_when_closed fs chunks later hv hc
  simp only [service_packageParse.zero] at h2 h3 h4
  refine ⟨K, pre, mss, p, ?_, m1, m2, ?_, ?_⟩
  · rw [h1, h3, m3]
  · rw [h4, m4]
  · have := Gen.GoParse.All2.flatten h2
    rw [m5] at this; exact this

/-- Non-vacuity: the translated splitter, run on a concrete heartbeat frame cut into three reads, delivers one message. -/
example : (match runGo 40 service_packageParse.zero
      [[0x7e, 0x00, 0x02, 0x00], [0x00, 0x01, 0x23, 0x45, 0x67, 0x89, 0x01], [0x7f, 0xff, 0x0a, 0x7e]] with
    | .ok (mss, e, p) => (mss.map List.length, e, p.historyData)
    | _ => ([], true, [])) = ([0, 0, 1], false, []) := by decide

end JT.C04
