import JT.Props.C08
import JT.Proof.GoLoc
/-!
# C08 — the location base block as it stands in the source

`AlarmSignDetails.parse`, `StatusSignDetails.parse`, `T0x0200LocationItem.parse` and `T0x0801.Parse` are translated from
protocol/model on every run (`JT/Gen/GoModel.lean`): the `%.32b` rendering of a word is `bitsN 32 w`, every `data[k] == '1'`
a checked index. The theorems give the decoded value in closed form, for every word / every block and every receiver.
-/
namespace JT.C08
open JT JT.Go JT.Gen.GoFrame JT.Gen.GoModel

/-- **Alarm word (translated source)**: whatever the receiver held, the result is the record whose flag number `k` (in the
order of table 24: emergency alarm = 0 … lane-opening alarm = 31) is bit `k` of the word — all 32 flags, so nothing of an
earlier message survives — and the call never panics. -/
theorem source_alarm_word (fuel : Nat) (a : model_AlarmSignDetails) (w : UInt32) :
    model_AlarmSignDetails_parse fuel a w = .ok (alarmOf w.toNat) := AlarmSignDetails_parse_eq fuel a w

/-- **Status word (translated source)**: ACC = bit 0, positioned = 1, south = 2, east = 3, suspended = 4, encrypted = 5,
emergency brake = 6, lane offset = 7, load state from bits 8 and 9 (`cargoOf`: what the code makes of the two characters —
the numeric value with bit 8 as the HIGH digit), oil = 10, circuit = 11, doors 12…17, GPS/BeiDou/GLONASS/Galileo = 18…21,
vehicle running = 22. -/
theorem source_status_word (fuel : Nat) (s : model_StatusSignDetails) (w : UInt32) :
    model_StatusSignDetails_parse fuel s w = .ok (statusOf w.toNat) := StatusSignDetails_parse_eq fuel s w

/-- a few flags spelled out (the closed forms `alarmOf` / `statusOf` list all of them) -/
theorem source_flags_are_bits (w : Nat) :
    (alarmOf w).EmergencyAlarm = w.testBit 0 ∧ (alarmOf w).OverSpeed = w.testBit 1 ∧ (alarmOf w).CollisionAlarm = w.testBit 29 ∧
    (alarmOf w).LaneOpeningAlarm = w.testBit 31 ∧ (statusOf w).ACC = w.testBit 0 ∧ (statusOf w).South = w.testBit 2 ∧
    (statusOf w).East = w.testBit 3 ∧ (statusOf w).UseGPS = w.testBit 18 ∧ (statusOf w).VehicleRunning = w.testBit 22 :=
  ⟨rfl, rfl, rfl, rfl, rfl, rfl, rfl, rfl, rfl⟩

/-- **The 28-byte base block (translated source)**: a block of at least 28 bytes is decoded — no panic, no error — to
alarm word = bytes 0..3, status word = 4..7, latitude = 8..11, longitude = 12..15 (big-endian 32-bit), altitude = 16..17,
speed = 18..19, direction = 20..21 (big-endian 16-bit), the time rendered from bytes 22..27, and the flag records of the
two words; a shorter block is rejected and the receiver left as it was. -/
theorem source_location_block (fuel : Nat) (tl : model_T0x0200LocationItem) (b : Bytes) (hf : 6 < fuel) :
    (28 ≤ b.length → model_T0x0200LocationItem_parse fuel tl b = .ok (locOf fuel b, none)) ∧
    (b.length < 28 → ∃ e, model_T0x0200LocationItem_parse fuel tl b = .ok (tl, some e)) :=
  ⟨fun h => LocationItem_parse_eq fuel tl b h hf, fun h => LocationItem_parse_short fuel tl b h⟩

/-- the numeric fields of the closed form are the big-endian values of the standard's byte ranges -/
theorem source_location_values (fuel : Nat) (b : Bytes) :
    (locOf fuel b).AlarmSign.toNat = beN (b.take 4) % 4294967296 ∧ (locOf fuel b).Latitude.toNat = beN ((b.drop 8).take 4) % 4294967296 ∧
    (locOf fuel b).Longitude.toNat = beN ((b.drop 12).take 4) % 4294967296 := by
  refine ⟨?_, ?_, ?_⟩ <;> simp [locOf, u32v, List.take_take]

/-- **0x0801 (translated source)**: a body of at least 36 bytes is decoded to multimedia ID = bytes 0..3, type, format,
event, channel = bytes 4..7, the location block of bytes 8..35 as above, the payload = everything from byte 36 on —
whatever the bytes are (no byte pattern switches the decoder to another reading); a shorter body is rejected. -/
theorem source_multimedia_upload (fuel : Nat) (t : model_T0x0801) (j : jt808_JTMessage) (hf : 6 < fuel) :
    (36 ≤ j.Body.length → model_T0x0801_Parse fuel t j = .ok ({ t with MultimediaID := u32v (j.Body.take 4), MultimediaType := j.Body.getD 4 0, MultimediaFormatEncode := j.Body.getD 5 0, EventItemEncode := j.Body.getD 6 0, ChannelID := j.Body.getD 7 0, T0x0200LocationItem := locOf fuel ((j.Body.drop 8).take 28), MultimediaPackage := j.Body.drop 36 }, none)) ∧
    (j.Body.length < 36 → model_T0x0801_Parse fuel t j = .ok (t, some "ErrBodyLengthInconsistency")) :=
  ⟨fun h => T0x0801_Parse_eq fuel t j h hf, fun h => T0x0801_Parse_short fuel t j h⟩

/-- Non-vacuity: the translated parser run by the kernel on a concrete block — alarm word 0x00000003 (emergency alarm and
over-speed), status word 0x00040003 (ACC, positioned, GPS), latitude 0x01C9C380, time 24-10-01 12:30:45. -/
example : (match model_T0x0200LocationItem_parse 10 model_T0x0200LocationItem.zero
      [0, 0, 0, 3, 0, 4, 0, 3, 0x01, 0xC9, 0xC3, 0x80, 0x06, 0xF1, 0x5F, 0x20, 0, 100, 0, 60, 0, 90, 0x24, 0x10, 0x01, 0x12, 0x30, 0x45] with
    | .ok (l, e) => (l.Latitude, l.Speed, l.AlarmSignDetails.EmergencyAlarm, l.AlarmSignDetails.OverSpeed, l.AlarmSignDetails.FatigueDriving,
        l.StatusSignDetails.ACC, l.StatusSignDetails.UseGPS, l.StatusSignDetails.South, l.DateTime, e)
    | _ => ((0 : UInt32), (0 : UInt16), false, false, false, false, false, false, ([] : Bytes), (some "x" : GoErr))) =
    ((0x01C9C380 : UInt32), (60 : UInt16), true, true, false, true, true, false,
      ([50, 48, 50, 52, 45, 49, 48, 45, 48, 49, 32, 49, 50, 58, 51, 48, 58, 52, 53] : Bytes), (none : GoErr)) := by rfl

end JT.C08
