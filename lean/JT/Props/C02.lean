import JT.Proof.FrameSpec
/-!
# C02 — exactly the well-formed frames are accepted

Property theorems only. Specification: `JT/Spec/Frame.lean` (written from the standard);
model: `JT/Model/Frame.lean`; helper lemmas: `JT/Proof/FrameSpec.lean`.
-/
namespace JT.C02
open JT JT.Frame JT.Spec

theorem layout_of_decodePlain (p : Bytes) (m : Msg) (hd : decodePlain p = .ok m) : Layout p m := by
  obtain ⟨i0, i1, a0, a1, ver, bcd, s0, s1, pkg, body, ck, rfl, hver, hbcd, hpkg, hbody⟩ := layout_form p m hd
  rw [decodePlain_layout i0 i1 a0 a1 ver bcd s0 s1 pkg body ck _ _ rfl rfl hbody.symm hver hbcd hpkg] at hd
  injection hd with hd
  subst hd
  have hfr : be16 a0 a1 / 8192 % 2 = 0 ∨ be16 a0 a1 / 8192 % 2 = 1 := by omega
  refine ⟨be16_lt _ _, be16_lt _ _, be16_lt _ _, ?_, ?_, rfl, rfl, rfl, hbody, hbcd, ?_, rfl, ⟨ver, hver, ?_⟩⟩
  · dsimp only; split <;> first | exact be16_lt _ _ | omega
  · dsimp only; split <;> first | exact be16_lt _ _ | omega
  · dsimp only; intro h0; simp [h0]
  · dsimp only
    rcases hfr with h0 | h1
    · have : pkg = [] := by cases pkg with | nil => rfl | cons _ _ => simp [h0] at hpkg
      subst this
      simp [layout, toBE_be16, h0]
    · obtain ⟨p0, p1, p2, p3, rfl⟩ := len4 pkg (by omega)
      simp [layout, toBE_be16, h1]

theorem decodePlain_of_layout (p : Bytes) (m : Msg) (hl : Layout p m) : decodePlain p = .ok m := by
  obtain ⟨hid, hattr, hser, hsum, hno, hv, hf, he, hbl, hbcd, hnf, hbody, ver, hver, hp⟩ := hl
  obtain ⟨⟨id, attr, version, frag, encrypt, bodyLen, bcd, serial, sum, no⟩, body, verify⟩ := m
  dsimp only at *
  subst hp
  have hfr : frag = 0 ∨ frag = 1 := by omega
  have key := decodePlain_layout (UInt8.ofNat (id / 256 % 256)) (UInt8.ofNat (id % 256))
    (UInt8.ofNat (attr / 256 % 256)) (UInt8.ofNat (attr % 256)) ver bcd
    (UInt8.ofNat (serial / 256 % 256)) (UInt8.ofNat (serial % 256))
    (if frag = 1 then toBE 2 sum ++ toBE 2 no else []) body verify version frag
    (by rw [be16_toBE _ hattr]; exact hv.symm) (by rw [be16_toBE _ hattr]; exact hf.symm)
    (by rw [be16_toBE _ hattr, hbody]; exact hbl.symm) hver hbcd
    (by rcases hfr with h | h <;> simp [h, toBE_two])
  have hform : toBE 2 id ++ toBE 2 attr ++ ver ++ bcd ++ toBE 2 serial ++
        (if frag = 1 then toBE 2 sum ++ toBE 2 no else []) ++ body ++ [verify] =
      layout (UInt8.ofNat (id / 256 % 256)) (UInt8.ofNat (id % 256))
        (UInt8.ofNat (attr / 256 % 256)) (UInt8.ofNat (attr % 256)) ver bcd
        (UInt8.ofNat (serial / 256 % 256)) (UInt8.ofNat (serial % 256))
        (if frag = 1 then toBE 2 sum ++ toBE 2 no else []) body verify := by
    simp [layout, toBE_two]
  rw [hform, key]
  simp only [be16_toBE _ hid, be16_toBE _ hattr, be16_toBE _ hser]
  rcases hfr with h | h
  · obtain ⟨hs0, hn0⟩ := hnf h
    subst h; subst hs0; subst hn0
    simp [he, hbody, hbl]
  · subst h
    simp [toBE_two, be16_toBE _ hsum, be16_toBE _ hno, he, hbody, hbl]

/-- **C02.** `decode` succeeds with message `m` exactly when the byte string is a well-formed frame
carrying `m`; every field of `m` is then what the standard's layout prescribes. For *all* byte strings
(strings with interior `7e` included: `Escaped` treats `7e` as an ordinary byte, as the code does). -/
theorem decode_iff_wellformed (f : Bytes) (m : Msg) : decode f = .ok m ↔ WellFormed f m := by
  constructor
  · intro hd
    unfold decode at hd
    split at hd
    · cases hd
    · next p hu =>
      split at hd
      · cases hd
      · next hx =>
        unfold unescape at hu
        split at hu
        · cases hu
        · next w hi =>
          obtain ⟨rfl, hne⟩ := (inner_iff f w).mp hi
          exact ⟨w, p, rfl, hne, escaped_of_unescBody w p hu, by simpa using hx, layout_of_decodePlain p m hd⟩
  · rintro ⟨w, p, rfl, hne, hesc, hx, hl⟩
    have hi := (inner_iff _ w).mpr ⟨rfl, hne⟩
    simp [decode, unescape, hi, unescBody_of_escaped hesc, hx, decodePlain_of_layout p m hl]

/-- at most one message per byte string -/
theorem decode_functional (f : Bytes) (m₁ m₂ : Msg) (h₁ : WellFormed f m₁) (h₂ : WellFormed f m₂) : m₁ = m₂ := by
  have a := (decode_iff_wellformed f m₁).mpr h₁
  have b := (decode_iff_wellformed f m₂).mpr h₂
  rw [a] at b; injection b

/-- the decoder never panics and rejects exactly the strings that are not well-formed frames -/
theorem decode_total (f : Bytes) : decode f ≠ .panic ∧ (decode f = .err ↔ ¬ ∃ m, WellFormed f m) := by
  constructor
  · unfold decode decodePlain
    split
    · simp
    · split
      · simp
      · simp only
        repeat' split
        all_goals simp
  · constructor
    · rintro he ⟨m, hm⟩
      rw [(decode_iff_wellformed f m).mpr hm] at he; cases he
    · intro hn
      cases hd : decode f with
      | ok m => exact absurd ⟨m, (decode_iff_wellformed f m).mp hd⟩ hn
      | err => rfl
      | panic =>
        exfalso
        revert hd
        unfold decode decodePlain
        split
        · simp
        · split
          · simp
          · simp only
            repeat' split
            all_goals simp

/-- Non-vacuity: a concrete heartbeat frame is well-formed, and a frame whose checksum is an
unescaped `7d` (the tolerated deviation) is well-formed too. -/
example : ∃ m, WellFormed [0x7e, 0x00, 0x02, 0x00, 0x00, 0x01, 0x23, 0x45, 0x67, 0x89, 0x01, 0x7f, 0xff, 0x0a, 0x7e] m := by
  cases h : decode [0x7e, 0x00, 0x02, 0x00, 0x00, 0x01, 0x23, 0x45, 0x67, 0x89, 0x01, 0x7f, 0xff, 0x0a, 0x7e] with
  | ok m => exact ⟨m, (decode_iff_wellformed _ _).mp h⟩
  | err => exact absurd h (by decide)
  | panic => exact absurd h (by decide)
example : ∃ m, WellFormed [0x7e, 0x00, 0x02, 0x00, 0x00, 0x01, 0x23, 0x45, 0x67, 0x89, 0x01, 0x7f, 0x88, 0x7d, 0x7e] m := by
  cases h : decode [0x7e, 0x00, 0x02, 0x00, 0x00, 0x01, 0x23, 0x45, 0x67, 0x89, 0x01, 0x7f, 0x88, 0x7d, 0x7e] with
  | ok m => exact ⟨m, (decode_iff_wellformed _ _).mp h⟩
  | err => exact absurd h (by decide)
  | panic => exact absurd h (by decide)
end JT.C02
