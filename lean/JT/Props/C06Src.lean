import JT.Props.C06
import JT.Proof.GoReply
import JT.Proof.GoLoc
import JT.Proof.GoModelBcd
/-!
# C06 — reply bodies as they stand in the source

`BaseHandle.ReplyBody` (the general response 0x8001 that answers every message without a dedicated response),
`T0x0100.ReplyBody` (registration response 0x8100) and `T0x0102.ReplyBody` (authentication) are translated from
protocol/model on every run (`JT/Gen/GoModel.lean`), with `P0x8001.Encode`, `P0x8100.Encode` and `T0x0102.Parse`.
-/
namespace JT.C06
open JT JT.Frame JT.Go JT.Gen.GoFrame JT.Gen.GoModel JT.Reply JT.Parse

/-- **The general response, on the translated source, is the model's**: for a message `j` decoded from a frame (its header
fields are those of the model message `m`), whatever the handler object holds, the translated `BaseHandle.ReplyBody`
returns — no panic, no error — exactly the five bytes the reply model prescribes for an ID without a dedicated response:
the request's serial, the request's ID, result 0. -/
theorem source_general_reply_body (fuel : Nat) (b : model_BaseHandle) (j : jt808_JTMessage) (m : Msg) (hs : HState)
    (hrep : Rep j m) (pm : PMsg) (hpm : pm.h = m.h)
    (h : pm.h.id ≠ 0x0100 ∧ pm.h.id ≠ 0x0102 ∧ pm.h.id ≠ 0x0801 ∧ pm.h.id ≠ 0x1003 ∧ pm.h.id ≠ 0x1212) :
    ∃ body, model_BaseHandle_ReplyBody fuel b j = .ok (body, none) ∧ replyBody hs pm = (hs, some body) := by
  refine ⟨_, BaseHandle_ReplyBody_eq fuel b j, ?_⟩
  rw [general_body hs pm h, JT.Gen.GoFrame.be16_toBE, JT.Gen.GoFrame.be16_toBE, hpm]
  obtain ⟨⟨h1, _, _, _, _, _, _, h8, _⟩, _, _⟩ := hrep
  rw [h1, h8]

/-- the general response echoes serial and ID of the request for EVERY header (decoded or not) -/
theorem source_general_reply_bytes (fuel : Nat) (b : model_BaseHandle) (j : jt808_JTMessage) :
    model_BaseHandle_ReplyBody fuel b j = .ok (Go.be16 j.Header.SerialNumber ++ Go.be16 j.Header.ID ++ [0], none) :=
  BaseHandle_ReplyBody_eq fuel b j

/-- **Registration** (translated source): serial of the request, result 0, the terminal's phone number as code -/
theorem source_register_reply_bytes (fuel : Nat) (t : model_T0x0100) (j : jt808_JTMessage) :
    model_T0x0100_ReplyBody fuel t j = .ok (Go.be16 j.Header.SerialNumber ++ [0] ++ j.Header.TerminalPhoneNo, none) :=
  T0x0100_ReplyBody_eq fuel t j

/-- **Authentication** (translated source): when the body parses under the request's header version, a general response
with result 0 exactly when the code is the terminal's phone number, 1 otherwise; when it does not parse, no body and the
parse error (the writer then sends nothing) -/
theorem source_auth_reply_bytes (fuel : Nat) (t : model_T0x0102) (j : jt808_JTMessage) :
    (∀ t' e, model_T0x0102_Parse fuel t j = .ok (t', some e) → model_T0x0102_ReplyBody fuel t j = .ok (t', [], some e)) ∧
    (∀ t', model_T0x0102_Parse fuel t j = .ok (t', none) → model_T0x0102_ReplyBody fuel t j =
      .ok (t', Go.be16 j.Header.SerialNumber ++ Go.be16 j.Header.ID ++ [if j.Header.TerminalPhoneNo = t'.AuthCode then 0 else 1], none)) :=
  T0x0102_ReplyBody_eq fuel t j

/-- **Multimedia upload** (translated source): `T0x0801.ReplyBody` answers an upload of at least 36 bytes with the four
bytes of its multimedia ID (the body of 0x8800: everything arrived, nothing to resend) — never a panic, whatever the
location block and the payload contain -/
theorem source_multimedia_reply_bytes (fuel : Nat) (t : model_T0x0801) (j : jt808_JTMessage) (h36 : 36 ≤ j.Body.length) (hf : 6 < fuel) :
    ∃ t', model_T0x0801_ReplyBody fuel t j = .ok (t', Go.be32 (JT.Go.u32v (j.Body.take 4)), none) :=
  T0x0801_ReplyBody_eq fuel t j h36 hf

/-- the authentication reply never panics: for every header version, every body and every handler state
`T0x0102.ReplyBody` returns — a body or the parse error -/
theorem source_auth_reply_total (fuel : Nat) (t : model_T0x0102) (j : jt808_JTMessage) :
    ∃ r, model_T0x0102_ReplyBody fuel t j = .ok r := by
  obtain ⟨⟨t', e⟩, hp⟩ := (Go.X.isOk_iff _).mp (T0x0102_Parse_total fuel t j)
  cases e with
  | none => exact ⟨_, (T0x0102_ReplyBody_eq fuel t j).2 t' hp⟩
  | some e => exact ⟨_, (T0x0102_ReplyBody_eq fuel t j).1 t' e hp⟩

/-- an upload shorter than 36 bytes is answered with the ID the handler object holds from the connection's previous upload
(the parse error is ignored by `ReplyBody`) — the handler state `HState.mmid` of the reply model is exactly this -/
theorem source_multimedia_reply_short (fuel : Nat) (t : model_T0x0801) (j : jt808_JTMessage) (h : j.Body.length < 36) :
    model_T0x0801_ReplyBody fuel t j = .ok (t, Go.be32 t.MultimediaID, none) :=
  T0x0801_ReplyBody_short fuel t j h

end JT.C06
