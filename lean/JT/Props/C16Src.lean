import JT.Proof.GoModel9212
/-!
# C16 / C07 — the 0x9212 codec as it stands in the source

`P0x9212.Encode` and `P0x9212.Parse` are translated from /repo on every run (`JT/Gen/GoModel.lean`).
-/
namespace JT.C16
open JT JT.Go JT.Gen.GoModel

/-- **Every list of missing ranges survives the 0x9212 frame body** (translated source): for every file name whose length
fits its length byte and every list of (offset, length) pairs whose length fits the count byte, `Parse(Encode(v))` returns
no error, the same name, type and result, and exactly the same ranges in the same order; nothing panics. (The 8-byte
stride of the list is part of what the proof checks: D13, a stride of `2*i`, made this false.) -/
theorem source_9212_roundtrip (fuel : Nat) (p q : model_P0x9212) (j : Gen.GoFrame.jt808_JTMessage)
    (hn : p.FileNameLen.toNat = p.FileName.length) (hc : p.RetransmitPacketNumber.toNat = p.P0x9212RetransmitPacketList.length)
    (hf : p.FileName.length + 8 * p.P0x9212RetransmitPacketList.length + 8 < fuel) :
    ∃ body, model_P0x9212_Encode fuel p = .ok body ∧
      ∃ r, model_P0x9212_Parse fuel q { j with Body := body } = .ok (r, none) ∧
        r.FileName = p.FileName ∧ r.FileType = p.FileType ∧ r.UploadResult = p.UploadResult ∧
        r.P0x9212RetransmitPacketList = p.P0x9212RetransmitPacketList := by
  obtain ⟨body, h1, r, h2, _, a2, a3, a4, _, a6⟩ := roundtrip_9212 fuel p q j hn hc hf
  exact ⟨body, h1, r, h2, a2, a3, a4, a6⟩

/-- non-vacuity: a value with a two-byte name and two ranges meets the hypotheses -/
example : ∃ p : model_P0x9212, p.FileNameLen.toNat = p.FileName.length ∧
    p.RetransmitPacketNumber.toNat = p.P0x9212RetransmitPacketList.length ∧ p.P0x9212RetransmitPacketList.length = 2 :=
  ⟨⟨model_BaseHandle.zero, 2, [65, 66], 0, 0, 2, [⟨0, 10⟩, ⟨70000, 5⟩]⟩, rfl, rfl, rfl⟩

end JT.C16
