import JT.Props.C05
import JT.Proof.GoParse
import JT.Model.Reply
/-!
# C05 — the delivery filter as it stands in the source

`(*Message).hasComplete` of service/message.go decides whether a message reaches the handlers and gets a reply when
sub-packages are filtered: it is translated on every run (`JT/Gen/GoParse.lean`). For a message that carries the model's
fields (as every message `unpack` delivers does, `C04.source_unpack_is_model`) it is the reply model's `isComplete`:
unfragmented messages always pass, a sub-package only as the completed transfer.
-/
namespace JT.C05
open JT JT.Go JT.Gen.GoParse JT.Gen.GoFrame

theorem source_delivery_filter (fuel : Nat) (g : service_Message) (pm : Parse.PMsg) (h : RepM g pm) :
    service_Message_hasComplete fuel g = .ok (Reply.isComplete pm) := by
  obtain ⟨⟨_, _, _, _, _, _, _, _, hsum, _⟩, _, _, hc, _⟩ := h
  unfold service_Message_hasComplete Reply.isComplete
  by_cases h0 : g.JTMessage.Header.SubPackageSum = 0
  · have : pm.h.sum = 0 := by rw [← hsum, h0]; rfl
    simp [h0, this]
  · have : pm.h.sum ≠ 0 := by
      rw [← hsum]; intro hz; exact h0 (UInt16.toNat_inj.mp (by simpa using hz))
    simp [h0, this, hc]

/-- an unfragmented message always passes the filter; a sub-package passes only with the completion mark -/
theorem source_delivery_filter_cases (fuel : Nat) (g : service_Message) :
    (g.JTMessage.Header.SubPackageSum = 0 → service_Message_hasComplete fuel g = .ok true) ∧
    (g.JTMessage.Header.SubPackageSum ≠ 0 → service_Message_hasComplete fuel g = .ok g.ExtensionFields.SubcontractComplete) := by
  unfold service_Message_hasComplete
  constructor
  · intro h; simp [h]
  · intro h; simp [h]

end JT.C05
