import JT.Proof.Parse
/-!
# C04 — stream framing is independent of TCP segmentation

Property theorems only. Model `JT/Model/Parse.lean` (`unpack`: fast path + buffered loop, mirrors
`service/packet_parse.go`), helper lemmas `JT/Proof/Parse.lean`.
`runUnpack h chunks` feeds consecutive reads to `unpack` the way `connection.reader` does and returns
the list of per-read message lists, the error flag and the buffer content afterwards.
-/
namespace JT.C04
open JT JT.Frame JT.Parse

/-- **Any segmentation.** For every sequence `fs` of valid frames and *every* partition of the
concatenated bytes into consecutive reads (reads of any length, empty ones included — 1..1023 is a
special case), no read reports an error, the messages extracted are exactly one per frame, in order,
each with the header fields and body `decode` gives for that frame and the frame's own bytes as raw
data, one output list per read, and nothing is left in the buffer. -/
theorem unpack_any_chunking (fs chunks : List Bytes) (hv : ∀ f ∈ fs, ValidFrame f)
    (hc : chunks.flatten = fs.flatten) :
    (runUnpack [] chunks).2.1 = false ∧ (runUnpack [] chunks).2.2 = [] ∧
    (runUnpack [] chunks).1.flatten = fs.map msgOf ∧ (runUnpack [] chunks).1.length = chunks.length := by
  obtain ⟨K, pre', hK, e0, e1, e2, e3, e4, e5, e6⟩ :=
    runUnpack_frames chunks fs [] [] hv (Or.inl rfl) (by simpa using hc)
  -- everything has arrived: the open remainder is a whole number of frames, hence empty
  simp only [List.append_nil] at e2
  have hcnt := count7e_open pre' e1
  rw [e2, count7e_frames _ (fun f hf => hv f (List.mem_of_mem_drop hf))] at hcnt
  have hKl : K = fs.length := by
    have : (fs.drop K).length = fs.length - K := List.length_drop
    omega
  subst hKl
  simp at e2; subst e2
  exact ⟨e3, e4, by simpa using e5, e6⟩

/-- **Exactly when the closing delimiter has arrived, not before.** After any reads that bring any part
of the stream (the rest `later` still in flight), the bytes received are `K` complete frames followed by
a remainder that contains no closing delimiter, and the messages delivered so far are exactly those `K`
frames: a frame whose closing delimiter has not arrived is never delivered, one whose closing delimiter
has arrived always is. -/
theorem delivered_exactly_when_closed (fs chunks : List Bytes) (later : Bytes)
    (hv : ∀ f ∈ fs, ValidFrame f) (hc : chunks.flatten ++ later = fs.flatten) :
    ∃ K pre, chunks.flatten = (fs.take K).flatten ++ pre ∧ Open pre ∧
      (runUnpack [] chunks).2.1 = false ∧ (runUnpack [] chunks).2.2 = pre ∧
      (runUnpack [] chunks).1.flatten = (fs.take K).map msgOf := by
  obtain ⟨K, pre', _, e0, e1, _, e3, e4, e5, _⟩ :=
    runUnpack_frames chunks fs [] later hv (Or.inl rfl) (by simpa using hc)
  exact ⟨K, pre', by simpa using e0, e1, e3, e4, e5⟩

/-- **Reads are processed incrementally**: what the first reads deliver does not depend on later reads. -/
theorem runUnpack_prefix_stable : ∀ (a b : List Bytes) (h : Bytes),
    (runUnpack h (a ++ b)).1.take a.length = (runUnpack h a).1.take a.length
  | [], b, h => by simp
  | c :: r, b, h => by
    simp only [List.cons_append, runUnpack]
    rcases hu : unpack h c with ⟨ms, e, h'⟩
    cases e with
    | true => simp
    | false =>
      have ih := runUnpack_prefix_stable r b h'
      simp only [List.length_cons, List.take_succ_cons, ih]

/-- the delivered message carries what the frame decoder yields for that frame, and the frame itself -/
theorem msgOf_fields (f : Bytes) (m : Msg) (h : decode f = .ok m) :
    msgOf f = ⟨m.h, m.body, false, f⟩ := by simp [msgOf, h]

/-- Non-vacuity: a concrete heartbeat frame is a `ValidFrame`; so is a frame with an escaped body. -/
example : ValidFrame [0x7e, 0x00, 0x02, 0x00, 0x00, 0x01, 0x23, 0x45, 0x67, 0x89, 0x01, 0x7f, 0xff, 0x0a, 0x7e] :=
  ⟨⟨[0x00, 0x02, 0x00, 0x00, 0x01, 0x23, 0x45, 0x67, 0x89, 0x01, 0x7f, 0xff, 0x0a], rfl, by decide, by decide⟩,
   by
     cases h : decode [0x7e, 0x00, 0x02, 0x00, 0x00, 0x01, 0x23, 0x45, 0x67, 0x89, 0x01, 0x7f, 0xff, 0x0a, 0x7e] with
     | ok m => exact ⟨m, rfl⟩
     | err => exact absurd h (by decide)
     | panic => exact absurd h (by decide)⟩

end JT.C04
