import JT.Proof.Frame
/-!
# C01 — frame encode/decode round trip and delimiter transparency

Property theorems only. Model: `JT/Model/Frame.lean`; helper lemmas: `JT/Proof/Frame.lean`.
-/
namespace JT.C01
open JT JT.Frame

/-- "a header taken from a decoded terminal message": exactly what `decode` can return. -/
structure HeaderWF (h : Header) : Prop where
  id_lt : h.id < 65536
  ver : h.version = 0 ∨ h.version = 1
  enc : h.encrypt = 0 ∨ h.encrypt = 1
  bcd_len : h.bcd.length = if h.version = 1 then 10 else 6

private theorem be16_lt (a b : Byte) : be16 a b < 65536 := by
  unfold be16; have := UInt8.toNat_lt a; have := UInt8.toNat_lt b; omega

private theorem decodePlain_wf (p : Bytes) (m : Msg) (hd : decodePlain p = .ok m) : HeaderWF m.h := by
  unfold decodePlain at hd
  by_cases hv : be16 (p.getD 2 0) (p.getD 3 0) / 16384 % 2 = 1 <;>
  by_cases hf : be16 (p.getD 2 0) (p.getD 3 0) / 8192 % 2 = 1 <;>
  simp only [hv, hf, if_true, if_false, true_and, false_and] at hd <;>
  (repeat' (split at hd)) <;> first | cases hd | skip
  all_goals
    refine ⟨be16_lt _ _, by dsimp only; omega, by dsimp only; omega, ?_⟩
    dsimp only
    simp only [List.length_take, List.length_drop, hv, if_true, if_false]
    omega

/-- the bytes between the two delimiters of an encoded frame -/
def interior (h : Header) (rid ser : Nat) (body : Bytes) : Bytes :=
  let d := encodePlain h rid ser body
  escBody (d ++ [xorAll d])

/-- **Delimiter transparency.** Whatever header, reply ID, serial, body (of any length) and
resulting checksum, the framed bytes are `7e`, then bytes that are all different from `7e`, then `7e`. -/
theorem encode_delimiters_only_at_ends (h : Header) (rid ser : Nat) (body : Bytes) :
    encode h rid ser body = 0x7e :: (interior h rid ser body ++ [0x7e]) ∧
    ∀ x ∈ interior h rid ser body, x ≠ 0x7e :=
  ⟨rfl, escBody_no7e _⟩

/-- **Escaping is lossless** for every byte string. -/
theorem unescape_escape_all (d : Bytes) : unescBody (escBody d) = some d := unescBody_escBody d

/-- **Round trip.** For every header a decoder can produce, every reply ID, every platform serial and
every body of 0..1023 bytes, decoding the encoded frame succeeds and returns that ID (the header's own
ID when the reply ID is 0), the same BCD phone and version, that serial and the identical body;
the fragment flag is clear and no package fields are present. -/
theorem decode_encode (h : Header) (hw : HeaderWF h) (rid ser : Nat) (hr : rid < 65536)
    (hs : ser < 65536) (body : Bytes) (hb : body.length ≤ 1023) :
    decode (encode h rid ser body) =
      .ok { h := { id := if rid = 0 then h.id else rid
                   attr := h.version * 16384 + h.encrypt * 1024 + body.length
                   version := h.version, frag := 0, encrypt := h.encrypt
                   bodyLen := body.length, bcd := h.bcd, serial := ser, sum := 0, no := 0 }
            body := body
            verify := xorAll (encodePlain h rid ser body) } := by
  obtain ⟨hid, hv, he, hbcd⟩ := hw
  have hne : encodePlain h rid ser body ++ [xorAll (encodePlain h rid ser body)] ≠ [] := by simp
  unfold decode encode
  simp only [unescape_escape _ hne, xorAll_append_self]
  have hattr := attr_or h.version h.encrypt body.length hv he hb
  have hlt : h.version * 16384 + h.encrypt * 1024 + body.length < 65536 := by
    rcases hv with h1 | h1 <;> rcases he with h2 | h2 <;> rw [h1, h2] <;> omega
  have hidlt : (if rid = 0 then h.id else rid) < 65536 := by split <;> assumption
  -- bring the plain bytes into layout form
  have hplain : encodePlain h rid ser body ++ [xorAll (encodePlain h rid ser body)] =
      layout (UInt8.ofNat ((if rid = 0 then h.id else rid) / 256 % 256))
             (UInt8.ofNat ((if rid = 0 then h.id else rid) % 256))
             (UInt8.ofNat ((h.version * 16384 + h.encrypt * 1024 + body.length) / 256 % 256))
             (UInt8.ofNat ((h.version * 16384 + h.encrypt * 1024 + body.length) % 256))
             (if h.version = 1 then [0x01] else []) h.bcd
             (UInt8.ofNat (ser / 256 % 256)) (UInt8.ofNat (ser % 256)) [] body
             (xorAll (encodePlain h rid ser body)) := by
    simp only [encodePlain, hattr, Nat.mod_eq_of_lt hlt, toBE_two, layout]
    simp
  rw [hplain]
  have hbe := be16_toBE _ hlt
  rw [decodePlain_layout _ _ _ _ _ _ _ _ _ _ _ h.version 0
      (by rw [hbe]; rcases hv with h1 | h1 <;> rcases he with h2 | h2 <;> rw [h1, h2] <;> omega)
      (by rw [hbe]; rcases hv with h1 | h1 <;> rcases he with h2 | h2 <;> rw [h1, h2] <;> omega)
      (by rw [hbe]; rcases hv with h1 | h1 <;> rcases he with h2 | h2 <;> rw [h1, h2] <;> omega)
      (by rcases hv with h1 | h1 <;> simp [h1])
      hbcd (by simp)]
  simp only [be16_toBE _ hidlt, be16_toBE _ hs, hbe]
  have henc : (h.version * 16384 + h.encrypt * 1024 + body.length) / 1024 % 2 = h.encrypt := by
    rcases hv with h1 | h1 <;> rcases he with h2 | h2 <;> rw [h1, h2] <;> omega
  simp [henc]

/-- what `decode` returns always satisfies `HeaderWF`: the hypothesis of `decode_encode` is exactly
"a header taken from a decoded message". -/
theorem decoded_header_wf (f : Bytes) (m : Msg) (hd : decode f = .ok m) : HeaderWF m.h := by
  unfold decode at hd
  split at hd
  · cases hd
  · split at hd
    · cases hd
    · exact decodePlain_wf _ _ hd

/-- Non-vacuity: a fragmented, encrypted 2019 header and a plain 2013 header are `HeaderWF`,
and the round trip is exercised on a body made only of special bytes. -/
example : HeaderWF { id := 0x0200, attr := 0x6405, version := 1, frag := 1, encrypt := 1, bodyLen := 5
                     bcd := [0,0,0,0,1,0x23,0x45,0x67,0x7d,0x7e], serial := 0xffff, sum := 3, no := 2 } :=
  ⟨by decide, by decide, by decide, by decide⟩
example : HeaderWF { id := 2, attr := 0, version := 0, frag := 0, encrypt := 0, bodyLen := 0
                     bcd := [1,2,3,4,5,6], serial := 0, sum := 0, no := 0 } := ⟨by decide, by decide, by decide, by decide⟩

end JT.C01
