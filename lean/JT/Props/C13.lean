import JT.Props.C12
import JT.Gen.ConcShape
/-!
# C13 — disconnects never crash the server or strand callers

Property theorems only, over the same transition system as C12 (`JT/Model/Act.lean`): the peer may end the
connection at any point (`readerEnds`), which leads to leave + `close(stopChan)` (`mgrLeave`) and to the
writer failing everything still queued or recorded (`wStop`). "Within its timeout plus scheduling slack" is
wall-clock time and is only tested (socket scenarios); what is proved is the safety half: in no reachable
state that has become quiet is a caller still waiting.
-/
namespace JT.C13
open JT.Act JT.C12

/-- if three or more requests are counted in `activeMsgChan`, one of them can be named -/
theorem exists_act_of_count {s : St} (h : ¬ actCount s < 3) : ∃ r, s.place r = .act := by
  unfold actCount at h
  have hne : (List.filter (fun r => decide (s.place r = .act)) (List.range s.created)) ≠ [] := by
    intro e; rw [e] at h; simp at h
  obtain ⟨r, hr⟩ := List.exists_mem_of_ne_nil _ hne
  rw [List.mem_filter] at hr
  exact ⟨r, by simpa using hr.2⟩

/-- **No stranded caller.** In every reachable state in which the server has nothing left to do on its own
— whatever the interleaving of the peer disconnecting, commands being queued or written, responses arriving
and timeouts firing — every `SendActiveMessage` call made so far has returned (with a response, a timeout,
a write failure, a connection-closed or a not-exist error). -/
theorem no_stranded_caller {s : St} (hr : Reach s) (hq : Quiescent s) (r : Nat) (hlt : r < s.created) :
    ∃ x, s.place r = .done x := by
  have hi := inv_reach hr
  cases hp : s.place r with
  | done x => exact ⟨x, rfl⟩
  | notYet => have := (hi.exists_iff r).mp hp; omega
  | ops =>
    exfalso
    cases hreg : s.registered with
    | false => exact hq _ (IntStep.mgrNotExist s r hp hreg)
    | true =>
      by_cases hc : actCount s < 3
      · exact hq _ (IntStep.mgrWrite s r hp hreg hc)
      · obtain ⟨r', hr'⟩ := exists_act_of_count hc
        cases hw : s.writerAlive with
        | true => exact hq _ (IntStep.wSend s r' hw hr')
        | false => exact ((hi.dead hw).2 r').1 hr'
  | act =>
    exfalso
    cases hw : s.writerAlive with
    | true => exact hq _ (IntStep.wSend s r hw hp)
    | false => exact ((hi.dead hw).2 r).1 hp
  | recorded t =>
    exfalso
    cases hw : s.writerAlive with
    | false => exact ((hi.dead hw).2 r).2 t hp
    | true =>
      cases hs : s.stopClosed with
      | true => exact hq _ (IntStep.wStop s hw hs)
      | false =>
        -- the channel head (if any) can always be taken by the writer
        have takeHead : ∀ u rest, s.doneCh = u :: rest → False := by
          intro u rest hd
          by_cases hex : ∃ r', s.place r' = .recorded u
          · obtain ⟨r', hr'⟩ := hex
            exact hq _ (IntStep.wTimeoutHit s u rest r' hw hd hr')
          · exact hq _ (IntStep.wTimeoutMiss s u rest hw hd (fun r' h' => hex ⟨r', h'⟩))
        rcases hi.timer r t hp with h3 | h3 | h3
        · by_cases hc : s.doneCh.length < 3
          · exact hq _ (IntStep.timerFire s t h3 hs hc)
          · cases hd : s.doneCh with
            | nil => rw [hd] at hc; simp at hc
            | cons u rest => exact takeHead u rest hd
        · cases hd : s.doneCh with
          | nil => rw [hd] at h3; cases h3
          | cons u rest => exact takeHead u rest hd
        · rw [hs] at h3; cases h3

/-- **Nothing is ever sent on a closed channel**: the only channel that is ever closed is `stopChan`
(the step `mgrLeave` is the only one that sets `stopClosed`), nothing is sent on it, and after the writer has
gone nothing is left queued for it or recorded by it. -/
theorem after_writer_exit {s : St} (hr : Reach s) (hw : s.writerAlive = false) :
    s.stopClosed = true ∧ s.registered = false ∧ ∀ r, s.place r ≠ .act ∧ ∀ t, s.place r ≠ .recorded t := by
  have hi := inv_reach hr
  obtain ⟨h1, h2⟩ := hi.dead hw
  exact ⟨h1, hi.closed_unreg h1, h2⟩

/-- **The writer never waits for itself**: whenever it is alive and there is work for it (a queued command, a
pending timeout, or `stopChan` closed) one of its steps is enabled — none of them needs room in a channel. -/
theorem writer_never_blocked {s : St} (hw : s.writerAlive = true)
    (hwork : (∃ r, s.place r = .act) ∨ s.doneCh ≠ [] ∨ s.stopClosed = true) : ∃ t, IntStep s t := by
  rcases hwork with ⟨r, hr⟩ | hd | hs
  · exact ⟨_, IntStep.wSend s r hw hr⟩
  · cases hdc : s.doneCh with
    | nil => exact absurd hdc hd
    | cons u rest =>
      by_cases hex : ∃ r', s.place r' = .recorded u
      · obtain ⟨r', hr'⟩ := hex
        exact ⟨_, IntStep.wTimeoutHit s u rest r' hw hdc hr'⟩
      · exact ⟨_, IntStep.wTimeoutMiss s u rest hw hdc (fun r' h' => hex ⟨r', h'⟩)⟩
  · exact ⟨_, IntStep.wStop s hw hs⟩

/-- Non-vacuity: a reachable state with one command recorded under serial 0 and its timer pending. -/
example : Reach { init with created := 1, place := upd (upd (upd init.place 0 .ops) 0 .act) 0 (.recorded 0),
                            stamp := upd init.stamp 0 (some 0), serial := 1, timers := [0] } :=
  .step (.step (.step .init (Or.inl (.call _))) (Or.inr (.mgrWrite _ 0 (by simp [upd, init]) rfl (by decide))))
    (Or.inr (.wSend _ 0 rfl (by simp [upd])))

/-- assumptions of the transition system about `connection.stop` / `onStopEvent`, read off the source on every run:
the key is removed from the registry BEFORE the stop signal and the socket close (no command can be queued to a
connection whose writer has already drained), lookup + enqueue are atomic in the manager, and the stop handler
empties the whole queue of not-yet-written commands; one manager goroutine; and the writer never sends on the
channel only it receives from (`writer_never_blocked` models its own failures as completed in place) -/
theorem stop_as_modelled : Gen.stopLeaveBeforeClose = true ∧ Gen.stopDrainsAll = true ∧ Gen.managerOpsInClosure = true ∧
    Gen.managerStartedOnce = true ∧ Gen.writerNoSelfSend = true := by
  decide

end JT.C13
