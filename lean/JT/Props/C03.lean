import JT.Props.C07
import JT.Props.C08
import JT.Props.C02
import JT.Proof.AttStream
import JT.Proof.FrameChecked
import JT.Proof.Codec2
import JT.Proof.UnescChecked
import JT.Proof.Codec4
import JT.Proof.Params
/-!
# C03 — decoders are total functions of their input

Property theorems only. What Lean decides here is *bounds safety of the modelled decoders*: their models read
bytes through accessors that return `panic` exactly where Go would (slice or index out of range), and the
theorems show that the guards the code has make that outcome impossible — for every byte string.
History independence (a reused receiver) and independence of spare capacity are properties of Go memory that
these value models cannot express; they are decided on the Go side (four-way comparison: exact capacity,
0x00-poisoned and 0xFF-poisoned spare capacity, reused receiver) for ALL ~47 decoders — see DESIGN.md.
-/
namespace JT.C03
open JT

/-- **Fixed-layout bodies** (twelve message types, field tables regenerated from the source): `Parse` never
reads outside the body, whatever bytes and whatever length it is given. -/
theorem fixed_layout_no_panic (e : String × Nat × List Layout.Field × List Layout.Field × Bool)
    (he : e ∈ Gen.layouts) (b : Bytes) : Layout.parseL e.2.1 e.2.2.1 b ≠ .panic :=
  Layout.parseL_no_panic _ _ (C07.layouts_tied e he).2.1 b

/-- … and they accept exactly the bodies of the layout's length -/
theorem fixed_layout_accepts_iff (e : String × Nat × List Layout.Field × List Layout.Field × Bool)
    (he : e ∈ Gen.layouts) (b : Bytes) : (∃ v, Layout.parseL e.2.1 e.2.2.1 b = .ok v) ↔ b.length = e.2.1 :=
  Layout.parseL_ok_iff _ _ (C07.layouts_tied e he).2.1 b

/-- **Location reports** (0x0200 and, through it, every item of 0x0704): neither the base block nor the
additional-information loop nor any item decoder indexes past its data — with the admissible-length table
regenerated from the source. -/
theorem location_no_panic (b : Bytes) : Loc.parse0200 b ≠ .panic := C08.parse0200_no_panic b

theorem item_decoder_no_panic (id : Nat) (c : Bytes) (h : Loc.lenOk Spec.stdAddLens id c.length = true) :
    Loc.decodeItem id c ≠ .panic := C08.decodeItem_no_panic id c h

/-- **Frames**: the decoder returns a message or an error for every byte string (and accepts exactly the
well-formed ones, C02). -/
theorem frame_decode_total (f : Bytes) : Frame.decode f ≠ .panic := (C02.decode_total f).1

/-- Non-vacuity: the decoders do reject and do accept. -/
example : Layout.parseL 5 [(0, 2, "SerialNumber"), (2, 4, "ID"), (4, 5, "Result")] [1, 2, 3, 4] = .err := by decide
example : Layout.parseL 5 [(0, 2, "SerialNumber"), (2, 4, "ID"), (4, 5, "Result")] [1, 2, 3, 4, 5] = .ok [[1, 2], [3, 4], [5]] := by decide

/-- the alarm-attachment control frames (`T0x1210.Parse` for every dialect, `T0x1211.Parse` = `T0x1212.Parse`): no
out-of-range access on any body -/
theorem attachment_control_no_panic (b : Bytes) :
    AttStream.parse1211 b ≠ .panic ∧ ∀ dl, AttStream.parse1210 dl b ≠ .panic :=
  ⟨AttStream.parse1211_ne_panic b, fun dl => AttStream.parse1210_ne_panic dl b⟩

/-- **Every memory access of `Header.decode` and of the tail of `JTMessage.Decode` is in range**: the decoder written
with checked accesses (`data[a:b]`, `data[i]`, `BigEndian.Uint16(data[a:b])` yield `panic` where Go would) is the same
function as the model used everywhere else, and has no panic outcome — on every byte string. -/
theorem frame_decoder_accesses_in_range (p : Bytes) :
    Frame.decodePlainC p = Frame.decodePlain p ∧ Frame.decodePlainC p ≠ .panic :=
  ⟨Frame.decodePlainC_eq p, Frame.decodePlainC_ne_panic p⟩

/-- fifteen more decoders written with checked accesses (`JT/Model/Codec2.lean`): none has a panic outcome on any body,
for every protocol version and every active-safety dialect. (`T0x0100.Parse` needs the version to be one of the three
the header decoder can produce: with the zero value neither length guard applies — `parseT0x0100_panic_ver0` — which
only a hand-built message can reach.) -/
theorem more_decoders_no_panic (b : Bytes) :
    Codec2.parseT0x0002 b ≠ .panic ∧ Codec2.parseP0x8104 b ≠ .panic ∧ Codec2.parseP0x9003 b ≠ .panic ∧
    (∀ ver, Codec2.parseT0x0102 ver b ≠ .panic) ∧
    (∀ ver, ver = 1 ∨ ver = 2 ∨ ver = 3 → Codec2.parseT0x0100 ver b ≠ .panic) ∧
    Codec2.parseP0x8100 b ≠ .panic ∧ Codec2.parseP0x9101 b ≠ .panic ∧ Codec2.parseP0x9201 b ≠ .panic ∧
    Codec2.parseP0x9206 b ≠ .panic ∧ Codec2.parseT0x1205 b ≠ .panic ∧ Codec2.parseP0x9205 b ≠ .panic ∧
    Codec2.parseP0x9202 b ≠ .panic ∧ Codec2.parseP0x8801 b ≠ .panic ∧ Codec2.parseT0x1005 b ≠ .panic ∧
    (∀ dl, Codec2.parseP0x9208 dl b ≠ .panic) :=
  ⟨Codec2.parseT0x0002_ne_panic b, Codec2.parseP0x8104_ne_panic b, Codec2.parseP0x9003_ne_panic b,
   fun v => Codec2.parseT0x0102_ne_panic v b, fun v hv => Codec2.parseT0x0100_ne_panic v hv b,
   Codec2.parseP0x8100_ne_panic b, Codec2.parseP0x9101_ne_panic b, Codec2.parseP0x9201_ne_panic b,
   Codec2.parseP0x9206_ne_panic b, Codec2.parseT0x1205_ne_panic b, Codec2.parseP0x9205_ne_panic b,
   Codec2.parseP0x9202_ne_panic b, Codec2.parseP0x8801_ne_panic b, Codec2.parseT0x1005_ne_panic b,
   fun dl => Codec2.parseP0x9208_ne_panic dl b⟩

/-- **`unescape` never leaves the frame**: the loop written with Go's index arithmetic (`data[i]`, `data[i+1]` after
`i++`, `data[index : i-1]`, `data[index : len-1]`) and checked accesses computes exactly the list-recursive model
`Frame.unescape`, on every byte string — so no index is ever out of range, whatever a peer sends. -/
theorem unescape_accesses_in_range (d : Bytes) :
    Frame.unescapeC d = .ok (Frame.unescape d) ∧ Frame.unescapeC d ≠ .panic :=
  ⟨Frame.unescapeC_eq d, Frame.unescapeC_ne_panic d⟩

/-- the whole of `JTMessage.Decode` with checked accesses: un-escaping, checksum, header, body -/
def decodeC (f : Bytes) : Res Frame.Msg :=
  match Frame.unescapeC f with
  | .panic => .panic
  | .err => .err
  | .ok none => .err
  | .ok (some p) => if xorAll p ≠ 0 then .err else Frame.decodePlainC p

/-- **`JTMessage.Decode`, every access checked, is the decoder of C01/C02** (and so never panics) -/
theorem decode_accesses_in_range (f : Bytes) : decodeC f = Frame.decode f := by
  unfold decodeC Frame.decode
  rw [Frame.unescapeC_eq]
  cases Frame.unescape f with
  | none => rfl
  | some p => simp only [Frame.decodePlainC_eq]

/-- the five vendor ("active safety") extension parsers, every dialect: 0x64, 0x65, 0x67, 0x70 never panic and accept
exactly the contents of their fixed length; 0x66 — the open finding F03 — panics exactly on the contents described by
`Codec4.ext66Panics` (40 bytes, or `40 + 9·count` bytes) and, with an exact-capacity buffer, accepts nothing at all -/
theorem vendor_extensions (dl : AttStream.Dialect) (c : Bytes) :
    Codec4.parseExt64 dl c ≠ .panic ∧ Codec4.parseExt65 dl c ≠ .panic ∧ Codec4.parseExt67 dl c ≠ .panic ∧
    Codec4.parseExt70 dl c ≠ .panic ∧
    (Codec4.parseExt66 dl c = .panic ↔ Codec4.ext66Panics c = true) ∧ Codec4.parseExt66 dl c ≠ .ok () :=
  ⟨Codec4.parseExt64_ne_panic dl c, Codec4.parseExt65_ne_panic dl c, Codec4.parseExt67_ne_panic dl c,
   Codec4.parseExt70_ne_panic dl c, Codec4.parseExt66_panic_iff dl c, Codec4.parseExt66_ne_ok dl c⟩

/-- the terminal-parameter table read off `parseParam` on every run is safe (every clause that reads `content` has
demanded a length that covers the read) and the extractor recognised every clause -/
theorem param_table_safe : Params.tableSafe Gen.paramTable = true ∧ Gen.paramUntranslated = [] := by decide

/-- **terminal parameters never panic**: `TerminalParamDetails.parse`, `P0x8103.Parse` and `T0x0104.Parse`, for every
count byte and every body — every parameter ID of the regenerated table, unknown IDs, truncated heads, lengths that run
past the body, a count that wraps -/
theorem terminal_params_no_panic (count : Nat) (b : Bytes) :
    Params.parseDetails count b ≠ .panic ∧ Params.parse8103 b ≠ .panic ∧ Params.parse0104 b ≠ .panic :=
  ⟨Params.parseDetails_ne_panic param_table_safe.1 count b, Params.parse8103_ne_panic param_table_safe.1 b,
   Params.parse0104_ne_panic param_table_safe.1 b⟩

/-- Non-vacuity: a 0x8103 body with two known parameters (a DWORD and a string) and an unknown one is accepted; the
same body with the DWORD's length byte changed to 2 is rejected, not read -/
example : (Params.parse8103 [3, 0,0,0,1, 4, 0,0,0,60, 0,0,0,0x10, 2, 0x61,0x62, 0,0,0xf0,0, 1, 9]).isOk = true ∧
    Params.parse8103 [1, 0,0,0,1, 2, 0,60] = .err := by decide

end JT.C03
