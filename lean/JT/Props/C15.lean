import JT.Proof.Attach
import JT.Proof.AttSeg
/-!
# C15 — attachment upload: files are reassembled byte-exactly

Property theorems only, for the per-file bookkeeping (`JT/Model/Attach.lean`, after the D20 repair). A file of
`n` bytes with content `content` is split into pieces `parts` that tile `[0, n)` (any number, any sizes ≥ 1);
`arr` is the list of pieces that have arrived so far — in ANY order, each possibly several times (resent chunks).
Independence of TCP segmentation is proved at the end of this file over the model of the connection loop
(`JT/Model/AttStream.lean`, tied to the real server by the stage sequences of C10's `astream` runs).
-/
namespace JT.C15
open JT JT.Attach

/-- **`CurrentSize` counts every received byte exactly once**, however often chunks are resent. -/
theorem cur_counts_distinct_bytes (n : Nat) (content : Bytes) (hc : content.length = n) (parts arr : List (Nat × Nat))
    (ht : Tiles n 0 parts) (hsub : ∀ p ∈ arr, p ∈ parts) :
    (after n content arr).cur = arrivedLen parts arr := by
  have hinv : SizeInv (after n content arr) :=
    sizeInv_fold content arr (FileRec.new n) (sizeInv_new n)
      (fun p hp => by have := (tiles_off_ge n parts 0 ht p (hsub p hp)); simp [FileRec.new]; omega)
  have hsz : (after n content arr).size = n := size_fold content arr _
  have hw := (walk n content hc (after n content arr).got (fun o => arr.any (·.1 = o)) parts 0 ht
    (fun o _ => got_after n content parts arr ht hsub o)).1
  rw [hinv.1, hsz]
  simpa [arrivedLen] using hw

/-- **A file is reported complete only when every byte has arrived** — and then it is: `cur = size` iff every
piece of the partition is among the arrivals. -/
theorem complete_iff_all_arrived (n : Nat) (content : Bytes) (hc : content.length = n) (parts arr : List (Nat × Nat))
    (ht : Tiles n 0 parts) (hsub : ∀ p ∈ arr, p ∈ parts) :
    complete (after n content arr) = true ↔ ∀ p ∈ parts, p ∈ arr := by
  have hcur := cur_counts_distinct_bytes n content hc parts arr ht hsub
  have hsz : (after n content arr).size = n := size_fold content arr _
  have hsum := tiles_sum n parts 0 ht
  have hpos : ∀ p ∈ parts, 0 < p.2 := fun p hp => (tiles_off_ge n parts 0 ht p hp).2.2
  simp only [complete, decide_eq_true_eq, hcur, hsz, arrivedLen]
  rw [show n = (parts.map (·.2)).sum by omega, sum_filter_eq_iff parts _ hpos]
  constructor
  · intro h p hp
    have := h p hp
    obtain ⟨q, hq, hqo⟩ := List.any_eq_true.mp this
    have hqo' : q.1 = p.1 := by simpa using hqo
    have e1 := tiles_find n parts 0 ht q (hsub q hq)
    have e2 := tiles_find n parts 0 ht p hp
    rw [hqo'] at e1; rw [e1] at e2; injection e2 with e2; rw [← e2]; exact hq
  · intro h p hp
    exact List.any_eq_true.mpr ⟨p, h p hp, by simp⟩

/-- **The reassembled content is byte-identical to the original** once all pieces have arrived, in whatever
order and however often. -/
theorem content_identical (n : Nat) (content : Bytes) (hc : content.length = n) (parts arr : List (Nat × Nat))
    (ht : Tiles n 0 parts) (hsub : ∀ p ∈ arr, p ∈ parts) (hall : ∀ p ∈ parts, p ∈ arr) :
    body (after n content arr) = content := by
  have hsz : (after n content arr).size = n := size_fold content arr _
  have hw := (walk n content hc (after n content arr).got (fun o => arr.any (·.1 = o)) parts 0 ht
    (fun o _ => got_after n content parts arr ht hsub o)).2
    (fun p hp => List.any_eq_true.mpr ⟨p, hall p hp, by simp⟩)
  simpa [body, hsz] using hw

/-- resending never un-completes or corrupts: extra copies of pieces that belong to the partition change
neither completeness nor content -/
theorem resend_harmless (n : Nat) (content : Bytes) (hc : content.length = n) (parts arr extra : List (Nat × Nat))
    (ht : Tiles n 0 parts) (hsub : ∀ p ∈ arr, p ∈ parts) (hex : ∀ p ∈ extra, p ∈ parts) (hall : ∀ p ∈ parts, p ∈ arr) :
    complete (after n content (arr ++ extra)) = true ∧ body (after n content (arr ++ extra)) = content := by
  have hsub' : ∀ p ∈ arr ++ extra, p ∈ parts := by
    intro p hp; rcases List.mem_append.mp hp with h | h
    · exact hsub p h
    · exact hex p h
  have hall' : ∀ p ∈ parts, p ∈ arr ++ extra := fun p hp => List.mem_append.mpr (Or.inl (hall p hp))
  exact ⟨(complete_iff_all_arrived n content hc parts _ ht hsub').mpr hall',
         content_identical n content hc parts _ ht hsub' hall'⟩

/-- **Each control frame (0x1210, 0x1211, 0x1212) is answered exactly once; chunks are never answered** -/
theorem one_reply_per_control (sizes : List Nat) (st : List FileRec) (evs : List Ev) :
    (runS sizes st evs).2.length = (evs.filter isControl).length := by
  induction evs generalizing st with
  | nil => rfl
  | cons e es ih =>
    simp only [runS, List.length_append, List.filter_cons]
    rw [ih]
    cases e <;> simp [stepS, isControl] <;> omega

/-- the answer to a 0x1212 is "complete" exactly when the record is, and otherwise lists exactly the bytes that
have not arrived (`JT.C16.miss_exact` characterises `Miss.missSegments`) -/
theorem done_reply (sizes : List Nat) (st : List FileRec) (i : Nat) (r : FileRec) (h : st[i]? = some r) :
    (stepS sizes st (.done i)).2 = [.report (Miss.missSegments r.size r.cur (segs r))] := by
  simp [stepS, h, report]

/-- Non-vacuity: a 5-byte file in pieces [0,2) [2,3) [3,5), arriving as 3rd, 1st, 1st again, 2nd. -/
example : Tiles 5 0 [(0, 2), (2, 1), (3, 2)] := ⟨rfl, by decide, rfl, by decide, rfl, by decide, rfl⟩
example : body (after 5 [10, 11, 12, 13, 14] [(3, 2), (0, 2), (0, 2), (2, 1)]) = [10, 11, 12, 13, 14] := by decide
example : complete (after 5 [10, 11, 12, 13, 14] [(3, 2), (0, 2), (0, 2)]) = false := by decide

/-! ### any TCP segmentation or coalescing (model of the connection loop: `JT/Model/AttStream.lean`) -/

/-- a fresh connection has nothing buffered -/
theorem init_drained (dl : AttStream.Dialect) : AttStream.Drained dl AttStream.Sess.init := by
  intro f' hf'
  cases f' with
  | zero => simp [AttStream.Sess.init] at hf'
  | succ k => rfl

/-- **The upload session does not depend on how the byte stream is cut into reads.** For every dialect and every
non-empty sequence of reads — any lengths, cutting control frames and chunk headers anywhere, coalescing several units
into one read — the events handed to the file handler (stage by stage, in order) and the final verdict (session failed
or not) are those of the whole stream arriving in one read. In particular a control frame is recognised as such, and
answered, wherever the read boundaries fall. -/
theorem segmentation_independent (dl : AttStream.Dialect) (r : Bytes) (rs : List Bytes) :
    AttStream.obs (AttStream.run dl AttStream.Sess.init (r :: rs) []) =
    AttStream.obs (AttStream.run dl AttStream.Sess.init [(r :: rs).flatten] []) :=
  AttStream.run_flatten dl rs r AttStream.Sess.init [] (init_drained dl)

/-- two partitions of the same stream are indistinguishable -/
theorem any_two_partitions_agree (dl : AttStream.Dialect) (r r' : Bytes) (rs rs' : List Bytes)
    (h : (r :: rs).flatten = (r' :: rs').flatten) :
    AttStream.obs (AttStream.run dl AttStream.Sess.init (r :: rs) []) =
    AttStream.obs (AttStream.run dl AttStream.Sess.init (r' :: rs') []) := by
  rw [segmentation_independent dl r rs, segmentation_independent dl r' rs', h]

end JT.C15
