import JT.Props.C17
import JT.Proof.GoRtp
/-!
# C17 — the RTP header decoder as it stands in the source

`jt1078.Packet.Decode` and `decodeHead` are translated from /repo into Lean on every run (`JT/Gen/GoRtp.lean`); the
theorems below state C17 about the translated functions.
-/
namespace JT.C17
open JT JT.Rtp JT.Spec JT.Gen.GoRtp

/-- the RTP decoder was inside the translated fragment completely -/
theorem source_translated_completely : Gen.GoRtp.untranslated = [] := by decide

/-- **Packets laid out as the standard prescribes decode to their fields** (translated source): for every well-formed
packet, every trailing byte string and every receiver, the translated `Decode` returns `nil`, exactly the trailing bytes
as remainder, and a packet carrying the fields of `p`. -/
theorem source_decode_standard_packet (fuel : Nat) (p0 : jt1078_Packet) (p : Pkt) (hp : WF p) (rest : Bytes)
    (hf : (encodeStd p ++ rest).length < fuel) :
    ∃ q, jt1078_Packet_Decode fuel p0 (encodeStd p ++ rest) = .ok (q, (rest, none)) ∧ RepP fuel q p := by
  have H := rtp_decode_go fuel p0 (encodeStd p ++ rest) hf
  rw [decode_encode_append p hp rest] at H
  exact H

/-- conversely, whatever the translated `Decode` accepts IS a standard packet followed by the returned remainder -/
theorem source_accept_is_standard (fuel : Nat) (p0 q : jt1078_Packet) (d rest : Bytes) (hf : d.length < fuel)
    (h : jt1078_Packet_Decode fuel p0 d = .ok (q, (rest, none))) :
    ∃ p, d = encodeStd p ++ rest ∧ WF p ∧ RepP fuel q p := by
  have H := rtp_decode_go fuel p0 d hf
  cases hd : Rtp.decode d with
  | ok r =>
    obtain ⟨k, rest'⟩ := r
    rw [hd] at H
    obtain ⟨q', h1, h2⟩ := H
    rw [h1] at h
    injection h with h; injection h with hq hr; injection hr with hr _
    subst hq; subst hr
    obtain ⟨e1, e2⟩ := (decode_iff d k rest').mp hd
    exact ⟨k, e1, e2, h2⟩
  | short =>
    rw [hd] at H
    obtain ⟨q', r, e, h1, _⟩ := H
    rw [h1] at h; injection h with h; injection h with _ h; injection h with _ h; cases h
  | unq =>
    rw [hd] at H
    obtain ⟨q', r, h1⟩ := H
    rw [h1] at h; injection h with h; injection h with _ h; injection h with _ h; cases h

/-- truncation and foreign data are reported, never decoded, and nothing panics (translated source) -/
theorem source_short_or_unqualified (fuel : Nat) (p0 : jt1078_Packet) (d : Bytes) (hf : d.length < fuel) :
    (d.length < 16 → ∃ q r e, jt1078_Packet_Decode fuel p0 d = .ok (q, (r, some e)) ∧
      (e = "ErrHeaderLength2Short" ∨ e = "ErrBodyLength2Short")) ∧
    (16 ≤ d.length → d.take 4 ≠ marker → ∃ q r, jt1078_Packet_Decode fuel p0 d = .ok (q, (r, some "ErrUnqualifiedData"))) ∧
    (∃ r, jt1078_Packet_Decode fuel p0 d = .ok r) := by
  have H := rtp_decode_go fuel p0 d hf
  refine ⟨?_, ?_, ?_⟩
  · intro h; rw [too_short d h] at H; exact H
  · intro h1 h2; rw [no_marker_unqualified d h1 h2] at H; exact H
  · cases hd : Rtp.decode d with
    | ok r => obtain ⟨k, rest'⟩ := r; rw [hd] at H; obtain ⟨q, h1, _⟩ := H; exact ⟨_, h1⟩
    | short => rw [hd] at H; obtain ⟨q, r, e, h1, _⟩ := H; exact ⟨_, h1⟩
    | unq => rw [hd] at H; obtain ⟨q, r, h1⟩ := H; exact ⟨_, h1⟩

end JT.C17
