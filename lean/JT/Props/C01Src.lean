import JT.Props.C01
import JT.Proof.GoFrame
/-!
# C01 — the round trip on the code as it stands in the source

`Header.Encode`, `escape`, `unescape`, `JTMessage.Decode` and what they call are translated from /repo into Lean on every
run (`JT/Gen/GoFrame.lean`). The theorem below is the property C01 stated about those translated functions.
-/
namespace JT.C01
open JT JT.Frame JT.Gen.GoFrame

private theorem escBody_length_le : ∀ d : Bytes, (escBody d).length ≤ 2 * d.length
  | [] => by simp [escBody]
  | b :: r => by
    have := escBody_length_le r
    unfold escBody
    split
    · simp only [List.length_cons]; omega
    · split <;> simp only [List.length_cons] <;> omega

private theorem encode_length (h : Header) (hw : HeaderWF h) (rid ser : Nat) (body : Bytes) :
    (encode h rid ser body).length ≤ 2 * body.length + 40 := by
  obtain ⟨_, hv, _, hbcd⟩ := hw
  unfold encode Frame.escape
  have := escBody_length_le (encodePlain h rid ser body ++ [xorAll (encodePlain h rid ser body)])
  have hl : (encodePlain h rid ser body).length ≤ 17 + body.length := by
    unfold encodePlain
    simp only [List.length_append, toBE, List.length_cons, List.length_nil]
    rcases hv with h0 | h1
    · simp [h0] at hbcd ⊢; omega
    · simp [h1] at hbcd ⊢; omega
  simp only [List.length_cons, List.length_append, List.length_nil] at this ⊢
  omega

/-- **Round trip on the translated source.** Take any frame `f` the translated `JTMessage.Decode` accepts (into any
receiver), set any reply ID and platform serial in the decoded header, and frame any body of 0..1023 bytes with the
translated `Header.Encode`: nothing panics, the produced frame has `0x7e` as first and last byte and nowhere else, and the
translated `Decode` (into any receiver) accepts it and returns that ID (the header's own when the reply ID is 0), the
same BCD phone and version, that serial, and the byte-identical body. -/
theorem source_roundtrip (fuel : Nat) (j0 j j1 : jt808_JTMessage) (f body : Bytes) (rid ser : UInt16)
    (hf : f.length < fuel) (hfb : 2 * body.length + 64 < fuel) (hb : body.length ≤ 1023)
    (hd : jt808_JTMessage_Decode fuel j0 f = .ok (j, none)) :
    ∃ h' frame interior, jt808_Header_Encode fuel { j.Header with ReplyID := rid, PlatformSerialNumber := ser } body = .ok (h', frame) ∧
      frame = 0x7e :: (interior ++ [0x7e]) ∧ (∀ x ∈ interior, x ≠ 0x7e) ∧
      ∃ j2, jt808_JTMessage_Decode fuel j1 frame = .ok (j2, none) ∧ j2.Body = body ∧
        j2.Header.ID = (if rid = 0 then j.Header.ID else rid) ∧ j2.Header.SerialNumber = ser ∧
        j2.Header.bcdTerminalPhoneNo = j.Header.bcdTerminalPhoneNo ∧
        j2.Header.Property.Version = j.Header.Property.Version ∧ j2.Header.ProtocolVersion = j.Header.ProtocolVersion := by
  -- what was decoded is a model message
  have H := decode_go fuel j0 f hf
  cases hdm : Frame.decode f with
  | err => rw [hdm] at H; obtain ⟨j', e, h1⟩ := H; rw [h1] at hd; injection hd with hd; injection hd with _ hd; cases hd
  | panic => rw [hdm] at H; exact H.elim
  | ok m =>
    rw [hdm] at H
    obtain ⟨j', h1, hrep, _, _, hb15⟩ := H
    rw [h1] at hd; injection hd with hd; injection hd with hd; subst hd
    have hw := decoded_header_wf f m hdm
    obtain ⟨hrepH, _, _⟩ := hrep
    -- Encode
    have hbcdl : m.h.bcd.length ≤ 10 := by rw [hw.bcd_len]; split <;> omega
    have hrep' : RepH { j'.Header with ReplyID := rid, PlatformSerialNumber := ser } m.h := hrepH
    obtain ⟨h', henc⟩ := encode_go fuel { j'.Header with ReplyID := rid, PlatformSerialNumber := ser } m.h body hrep' hb15 hw.ver hw.enc (by omega)
    simp only [] at henc
    have hdel := encode_delimiters_only_at_ends m.h rid.toNat ser.toNat body
    refine ⟨h', _, interior m.h rid.toNat ser.toNat body, henc, hdel.1, hdel.2, ?_⟩
    -- Decode of the produced frame
    have hrt := decode_encode m.h hw rid.toNat ser.toNat rid.toNat_lt ser.toNat_lt body hb
    have hlen := encode_length m.h hw rid.toNat ser.toNat body
    have H2 := decode_go fuel j1 (encode m.h rid.toNat ser.toNat body) (by omega)
    rw [hrt] at H2
    obtain ⟨j2, h2, ⟨r2, rb, _⟩, _⟩ := H2
    obtain ⟨q1, _, q3, _, _, _, q7, q8, _, _, q11⟩ := r2
    obtain ⟨p1, _, p3, _, _, _, p7, _, _, _, p11⟩ := hrepH
    simp only [] at q1 q3 q7 q8 q11 rb
    refine ⟨j2, h2, rb, ?_, ?_, ?_, ?_, ?_⟩
    · apply UInt16.toNat_inj.mp
      rw [q1]
      by_cases hr : rid = 0
      · simp [hr, p1]
      · have : rid.toNat ≠ 0 := fun hc => hr (UInt16.toNat_inj.mp (by rw [hc]; rfl))
        simp [hr, this]
    · exact UInt16.toNat_inj.mp q8
    · rw [q7, p7]
    · exact UInt8.toNat_inj.mp (by rw [q3, p3])
    · rw [q11, p11]

end JT.C01
