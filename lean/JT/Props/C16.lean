import JT.Proof.Miss
/-!
# C16 — the completion report lists exactly the missing byte ranges
Property theorems only. Model `JT/Model/Miss.lean`, helper lemmas `JT/Proof/Miss.lean`.
-/
namespace JT.C16
open JT JT.Miss

/-- the received chunks: inside the file, non-empty, pairwise disjoint (any order: map iteration) -/
structure Valid (F : Nat) (segs : List Seg) : Prop where
  fileLt : F < W
  inFile : ∀ s ∈ segs, 0 < s.len ∧ s.off + s.len ≤ F
  disjoint : segs.Pairwise (fun a b => a.off + a.len ≤ b.off ∨ b.off + b.len ≤ a.off)

def sumLen (l : List Seg) : Nat := (l.map (·.len)).sum

/-- what is reported when the early return is not taken -/
def missCore (F : Nat) (segs : List Seg) : List Seg :=
  let s := sortSegs segs
  gaps 0 s ++ (if fin 0 s < F then [⟨fin 0 s, F - fin 0 s⟩] else [])

private theorem chain_of_sorted : ∀ (l : List Seg) (lo : Nat),
    l.Pairwise (fun a b => decide (a.off ≤ b.off) = true) →
    l.Pairwise (fun a b => a.off + a.len ≤ b.off ∨ b.off + b.len ≤ a.off) →
    (∀ s ∈ l, 0 < s.len) → (∀ s ∈ l, lo ≤ s.off) → Chain lo l
  | [], _, _, _, _, _ => trivial
  | s :: r, lo, hs, hd, hl, hlo => by
    rw [List.pairwise_cons] at hs hd
    refine ⟨hlo s (by simp), hl s (by simp), ?_⟩
    apply chain_of_sorted r _ hs.2 hd.2 (fun t ht => hl t (by simp [ht]))
    intro t ht
    have h1 := hs.1 t ht
    have h2 := hd.1 t ht
    have h3 := hl t (by simp [ht])
    simp at h1
    omega

private theorem sorted_chain (F : Nat) (segs : List Seg) (hv : Valid F segs) : Chain 0 (sortSegs segs) := by
  have hp := List.mergeSort_perm segs (fun a b => decide (a.off ≤ b.off))
  apply chain_of_sorted
  · exact List.pairwise_mergeSort (fun a b c h1 h2 => by simp at *; omega) (fun a b => by simp; omega) segs
  · exact hv.disjoint.perm hp.symm (fun h => h.symm)
  · intro s hs; exact (hv.inFile s (List.mem_mergeSort.mp hs)).1
  · intro _ _; exact Nat.zero_le _

private theorem missSegments_eq (F cur : Nat) (segs : List Seg) (hv : Valid F segs) :
    missSegments F cur segs = if cur = F then [] else missCore F segs := by
  have h := gapsW_eq F hv.fileLt 0 (sortSegs segs)
    (fun s hs => (hv.inFile s (List.mem_mergeSort.mp hs)).2)
  simp only [missSegments, missCore, h.1, h.2]

private theorem covered_sort (segs : List Seg) (i : Nat) : covered (sortSegs segs) i ↔ covered segs i := by
  simp only [covered, sortSegs, List.mem_mergeSort]

private theorem fin_le (F : Nat) : ∀ (l : List Seg) (lo : Nat), lo ≤ F → (∀ s ∈ l, s.off + s.len ≤ F) → fin lo l ≤ F
  | [], _, h, _ => h
  | s :: r, _, _, hs => fin_le F r _ (hs s (by simp)) (fun t ht => hs t (by simp [ht]))

/-- pointwise exactness of the core computation -/
private theorem core_exact (F : Nat) (segs : List Seg) (hv : Valid F segs) (i : Nat) (hi : i < F) :
    covered (missCore F segs) i ↔ ¬ covered segs i := by
  have hc := sorted_chain F segs hv
  have hcs := covered_sort segs i
  rw [← hcs]
  by_cases hfi : i < fin 0 (sortSegs segs)
  · rw [← gaps_exact 0 _ hc i (Nat.zero_le _) hfi]
    constructor
    · rintro ⟨g, hg, h1, h2⟩
      simp only [missCore, List.mem_append] at hg
      rcases hg with hg | hg
      · exact ⟨g, hg, h1, h2⟩
      · split at hg
        · simp at hg; subst hg; simp at h1; omega
        · cases hg
    · rintro ⟨g, hg, h1, h2⟩
      exact ⟨g, by simp only [missCore, List.mem_append]; left; exact hg, h1, h2⟩
  · have hnc : ¬ covered (sortSegs segs) i := fun h => hfi (covered_lt_fin 0 _ hc i h)
    constructor
    · intro _; exact hnc
    · intro _
      refine ⟨⟨fin 0 (sortSegs segs), F - fin 0 (sortSegs segs)⟩, ?_, by simp; omega, by simp; omega⟩
      simp only [missCore, List.mem_append]
      right; rw [if_pos (by omega)]; simp

/-- **Exactness.** When the file is not complete, a byte index of the file lies in a reported range
exactly when no received chunk covers it: no range overlaps received data, no missing byte is omitted. -/
theorem miss_exact (F cur : Nat) (segs : List Seg) (hv : Valid F segs) (hcur : cur ≠ F)
    (i : Nat) (hi : i < F) :
    covered (missSegments F cur segs) i ↔ ¬ covered segs i := by
  rw [missSegments_eq F cur segs hv, if_neg hcur]
  exact core_exact F segs hv i hi


private theorem sumLen_append (a b : List Seg) : sumLen (a ++ b) = sumLen a + sumLen b := by
  simp [sumLen]

/-- accounting: along a chain, received bytes + gap bytes = distance covered -/
private theorem accounting : ∀ (l : List Seg) (lo : Nat), Chain lo l →
    sumLen l + sumLen (gaps lo l) + lo = fin lo l
  | [], lo, _ => by simp [sumLen, gaps, fin]
  | s :: r, lo, ⟨h1, h2, h3⟩ => by
    have ih := accounting r _ h3
    simp only [gaps, fin, sumLen_append]
    split
    · simp [sumLen] at ih ⊢; omega
    · simp [sumLen] at ih ⊢; omega

private theorem sep_append_last : ∀ (l : List Seg) (lo c F : Nat), Sep lo l → (∀ g ∈ l, g.off + g.len + 1 ≤ c) → lo ≤ c →
    c < F → Sep lo (l ++ [⟨c, F - c⟩])
  | [], lo, c, F, _, _, hlo, hc => ⟨hlo, by show 0 < F - c; omega, trivial⟩
  | g :: r, lo, c, F, ⟨h1, h2, h3⟩, hg, _, hc =>
    ⟨h1, h2, sep_append_last r _ c F h3 (fun t ht => hg t (by simp [ht])) (hg g (by simp)) hc⟩

private theorem gaps_end_lt_fin : ∀ (l : List Seg) (lo : Nat), Chain lo l →
    ∀ g ∈ gaps lo l, g.off + g.len + 1 ≤ fin lo l
  | [], _, _ => by simp [gaps]
  | s :: r, lo, ⟨h1, h2, h3⟩ => by
    intro g hg
    simp only [gaps, List.mem_append] at hg
    simp only [fin]
    have hf := fin_ge _ _ h3
    rcases hg with hg | hg
    · split at hg
      · simp at hg; subst hg; simp; omega
      · cases hg
    · exact gaps_end_lt_fin r _ h3 g hg

/-- **Ascending, non-empty, maximal.** The reported ranges are in strictly ascending order, each is
non-empty and lies inside the file, and consecutive ranges are separated by at least one received byte
(so each range is maximal). -/
theorem miss_sep (F cur : Nat) (segs : List Seg) (hv : Valid F segs) :
    Sep 0 (missSegments F cur segs) ∧ ∀ g ∈ missSegments F cur segs, g.off + g.len ≤ F := by
  rw [missSegments_eq F cur segs hv]
  split
  · exact ⟨trivial, by simp⟩
  · have hc := sorted_chain F segs hv
    have hle := fin_le F (sortSegs segs) 0 (Nat.zero_le _) (fun s hs => (hv.inFile s (List.mem_mergeSort.mp hs)).2)
    have hends := gaps_end_lt_fin _ 0 hc
    constructor
    · simp only [missCore]
      split
      · exact sep_append_last _ 0 _ F (gaps_sep 0 _ hc) hends (Nat.zero_le _) (by assumption)
      · simpa using gaps_sep 0 _ hc
    · intro g hg
      simp only [missCore, List.mem_append] at hg
      rcases hg with hg | hg
      · have := hends g hg; omega
      · split at hg
        · simp at hg; subst hg; simp; omega
        · cases hg

/-- **Accounting / early return is sound.** Received bytes plus reported missing bytes make up the file. -/
theorem miss_accounting (F : Nat) (segs : List Seg) (hv : Valid F segs) :
    sumLen segs + sumLen (missCore F segs) = F := by
  have hc := sorted_chain F segs hv
  have ha := accounting _ 0 hc
  have hp := List.mergeSort_perm segs (fun a b => decide (a.off ≤ b.off))
  have hs : sumLen (sortSegs segs) = sumLen segs := by
    unfold sumLen sortSegs; exact (hp.map _).sum_nat
  have hle := fin_le F (sortSegs segs) 0 (Nat.zero_le _) (fun s hs => (hv.inFile s (List.mem_mergeSort.mp hs)).2)
  simp only [missCore, sumLen_append]
  split
  · simp [sumLen] at ha hs ⊢; omega
  · simp [sumLen] at ha hs ⊢; omega

private theorem len_le_sumLen : ∀ (l : List Seg) (g : Seg), g ∈ l → g.len ≤ sumLen l
  | [], _, h => by cases h
  | s :: r, g, h => by
    cases h with
    | head => simp [sumLen]
    | tail _ hm => have := len_le_sumLen r g hm; simp [sumLen] at this ⊢; omega

private theorem sep_pos : ∀ (l : List Seg) (lo : Nat), Sep lo l → ∀ g ∈ l, 0 < g.len
  | [], _, _ => by simp
  | g :: r, _, ⟨_, h2, h3⟩ => by
    intro t ht
    cases ht with
    | head => exact h2
    | tail _ hm => exact sep_pos r _ h3 t hm

/-- **Complete iff no ranges.** With the received-size counter equal to the number of received bytes,
the report is empty exactly when every byte of the file has been received. -/
theorem complete_iff_nil (F : Nat) (segs : List Seg) (hv : Valid F segs) :
    missSegments F (sumLen segs) segs = [] ↔ ∀ i, i < F → covered segs i := by
  have hacc := miss_accounting F segs hv
  have hsep := miss_sep F (F + 1) segs hv
  rw [missSegments_eq F (F + 1) segs hv, if_neg (by omega)] at hsep
  rw [missSegments_eq F _ segs hv]
  constructor
  · intro h i hi
    apply Classical.byContradiction; intro hnc
    obtain ⟨g, hg, _, _⟩ := (core_exact F segs hv i hi).mpr hnc
    split at h
    · next heq =>
      have : sumLen (missCore F segs) = 0 := by omega
      have hpos := sep_pos _ 0 hsep.1 g hg
      have : g.len ≤ sumLen (missCore F segs) := len_le_sumLen _ g hg
      omega
    · rw [h] at hg; cases hg
  · intro hall
    split
    · rfl
    · cases hm : missCore F segs with
      | nil => rfl
      | cons g r =>
        exfalso
        have hg : g ∈ missCore F segs := by rw [hm]; simp
        have hpos := sep_pos _ 0 hsep.1 g hg
        have hin := hsep.2 g hg
        have hcov : covered (missCore F segs) g.off := ⟨g, hg, Nat.le_refl _, by omega⟩
        exact (core_exact F segs hv g.off (by omega)).mp hcov (hall g.off (by omega))

/-- **After the reported ranges are resent, the next report says complete**: the received-size counter
then equals the file size, so the report is empty. -/
theorem after_resend_complete (F : Nat) (segs : List Seg) (hv : Valid F segs) (order : List Seg) :
    let g := missSegments F (sumLen segs) segs
    missSegments F (sumLen segs + sumLen g) order = [] := by
  intro g
  have hacc := miss_accounting F segs hv
  have hg : sumLen segs + sumLen g = F := by
    show sumLen segs + sumLen (missSegments F (sumLen segs) segs) = F
    rw [missSegments_eq F _ segs hv]
    split
    · next h => simp [sumLen] at h ⊢; exact h
    · exact hacc
  simp [missSegments, hg]

/-- Non-vacuity: chunks [0,100) and [300,50) of a 1000-byte file, given in descending order. -/
example : Valid 1000 [⟨300, 50⟩, ⟨0, 100⟩] :=
  ⟨by decide, by simp, by simp⟩
example : covered (missSegments 1000 150 [⟨300, 50⟩, ⟨0, 100⟩]) 120 :=
  (miss_exact 1000 150 _ ⟨by decide, by simp, by simp⟩ (by decide) 120 (by decide)).mpr
    (by simp [covered])
end JT.C16
