import JT.Proof.RtpSound
import JT.Proof.RtpChecked
/-!
# C17 — JT1078 RTP packets are decoded as the standard prescribes

Property theorems only. Model `JT/Model/Rtp.lean` (mirrors `protocol/jt1078/jt1078.go` on a fresh
`Packet`), specification `JT/Spec/Rtp.lean` (layout written from the standard), helper lemmas
`JT/Proof/Rtp.lean`, `JT/Proof/RtpSound.lean`.
-/
namespace JT.C17
open JT JT.Rtp

/-- **Round trip with trailing data**: decoding the standard encoding of any representable packet
(every data type 0..15, any payload below 65536 bytes) followed by arbitrary bytes yields exactly that
packet — no timestamp for transparent data, frame intervals only for video frames — and returns the
remaining bytes unchanged. -/
theorem decode_encode_append (p : Pkt) (hp : WF p) (rest : Bytes) :
    decode (encodeStd p ++ rest) = .ok (p, rest) := by
  rw [encodeStd_eq, List.append_assoc, decode_hdr_append p hp]
  rw [if_neg (by simp)]
  simp

/-- **Exactly the standard encodings decode**: `decode d` yields packet `p` and remainder `rest`
iff `d` is the standard encoding of the representable packet `p` followed by `rest`. -/
theorem decode_iff (d : Bytes) (p : Pkt) (rest : Bytes) :
    decode d = .ok (p, rest) ↔ (d = encodeStd p ++ rest ∧ WF p) :=
  ⟨decode_sound d p rest, fun ⟨h, hp⟩ => h ▸ decode_encode_append p hp rest⟩

/-- **Every strict prefix of a packet is "too short"** (cut at every possible length). -/
theorem truncation_short (p : Pkt) (hp : WF p) (k : Nat) (hk : k < (encodeStd p).length) :
    decode ((encodeStd p).take k) = .short := by
  rw [encodeStd_eq] at hk ⊢
  rw [List.take_append]
  by_cases hh : k < (hdrBytes p).length
  · have : k - (hdrBytes p).length = 0 := by omega
    rw [this]; simp only [List.take_zero, List.append_nil]
    exact decode_hdr_prefix p hp k hh
  · rw [List.take_of_length_le (by omega), decode_hdr_append p hp]
    rw [if_pos]
    simp only [List.length_append] at hk
    simp [List.length_take]; omega

/-- fewer than 16 bytes: too short -/
theorem too_short (d : Bytes) (h : d.length < 16) : decode d = .short := by
  unfold decode; rw [if_pos h]

/-- 16 bytes or more that do not begin with `30 31 63 64`: unqualified, never a packet -/
theorem no_marker_unqualified (d : Bytes) (h : 16 ≤ d.length) (hm : d.take 4 ≠ marker) :
    decode d = .unq := by
  unfold decode; rw [if_neg (by omega), if_pos hm]

/-- **Iterating over a concatenation** of any number of packets yields every packet, one per step,
and ends with nothing left. -/
theorem decodeAll_concat (ps : List Pkt) (hp : ∀ p ∈ ps, WF p) (fuel : Nat) (hf : ps.length ≤ fuel) :
    decodeAll fuel (ps.map encodeStd).flatten = (ps, []) := by
  induction ps generalizing fuel with
  | nil =>
    cases fuel with
    | zero => rfl
    | succ n => simp [decodeAll, too_short]
  | cons p ps ih =>
    cases fuel with
    | zero => simp at hf
    | succ n =>
      have h1 := decode_encode_append p (hp p (by simp)) (ps.map encodeStd).flatten
      have h2 := ih (fun q hq => hp q (by simp [hq])) n (by simpa using hf)
      simp only [List.map_cons, List.flatten_cons, decodeAll, h1, h2]

/-- Non-vacuity: an I-frame, an audio frame and a transparent-data packet are representable. -/
example : WF ⟨2, 0, 0, 1, 1, 98, 7, [1, 0x23, 0x45, 0x67, 0x89, 0x01], 1, 0, 0, 123456789012, 40, 40, [0x7e, 0, 1]⟩ := by
  constructor <;> simp
example : WF ⟨2, 0, 0, 1, 0, 6, 65535, [0, 0, 0, 0, 0, 0], 255, 3, 2, 1, 0, 0, []⟩ := by
  constructor <;> simp
example : WF ⟨2, 0, 0, 1, 0, 0, 0, [0, 0, 0, 0, 0, 1], 0, 4, 0, 0, 0, 0, [1]⟩ := by
  constructor <;> simp

/-- **Every memory access of `Packet.Decode` / `decodeHead` is in range**: written access by access the way the Go
code reads the buffer (`data[:4]`, `data[4]`, `data[6:8]`, `data[16:24]`, `data[start:start+2]`, `data[headEnd:]`,
`body[:DataBodyLen]`, … through accessors that yield `panic` where Go would) the decoder is the model used above and
has no panic outcome — on every byte string. -/
theorem rtp_decoder_accesses_in_range (d : Bytes) :
    Rtp.decodeC d = .ok (Rtp.decode d) ∧ Rtp.decodeC d ≠ .panic :=
  ⟨Rtp.decodeC_eq d, Rtp.decodeC_ne_panic d⟩

end JT.C17
