import JT.Proof.Codec
import JT.Proof.Codec3
import JT.Proof.Params
/-!
# C07 — message body round trip

Property theorems only. Fixed layouts: `JT/Model/Layout.lean` with the field tables REGENERATED from the
Parse/Encode pairs of /repo on every run (`JT/Gen/Layouts.lean`); counted lists: `JT/Model/Codec.lean`;
helper lemmas: `JT/Proof/Layout.lean`, `JT/Proof/Codec.lean`.
Types without a Lean model (variable-width strings, GBK text, terminal parameters, 0x0100, 0x9208 …) are
decided on the Go side only (round-trip oracle over generated in-domain values) — see DESIGN.md.
-/
namespace JT.C07
open JT JT.Layout JT.Codec

/-- **Regenerated tie.** For every fixed-layout type the extractor recognised both methods, the fields `Parse`
reads tile the body `[0, n)` exactly (no gap, no overlap, nothing beyond `n`), and `Encode` writes the same
struct field to the same bytes. Re-checked by the kernel against the current source on every run. -/
theorem layouts_tied :
    ∀ e ∈ Gen.layouts, e.2.2.2.2 = true ∧ Tiling e.2.1 0 e.2.2.1 = true ∧ e.2.2.2.1 = e.2.2.1 := by decide

/-- the twelve fixed-layout types are all there -/
theorem layouts_complete :
    Gen.layouts.map (·.1) = ["T0x0001", "P0x8001", "T0x1003", "T0x1206", "T0x0800", "T0x1005", "P0x9102", "P0x9105",
      "P0x9207", "P0x9202", "P0x9205", "P0x8801"] := by decide

/-- **Fixed layouts: re-encoding a parsed body gives the identical bytes**, for every type of the table and
every body `Parse` accepts. -/
theorem fixed_reencode_identical (e : String × Nat × List Field × List Field × Bool) (he : e ∈ Gen.layouts)
    (b : Bytes) (v : List Bytes) (h : parseL e.2.1 e.2.2.1 b = .ok v) : encodeL v = b :=
  encodeL_parseL _ _ (layouts_tied e he).2.1 b v h

/-- **Fixed layouts: parsing an encoded value gives the value back**, for every type of the table and every
value whose fields have the widths of the layout. -/
theorem fixed_parse_encode (e : String × Nat × List Field × List Field × Bool) (he : e ∈ Gen.layouts)
    (v : List Bytes) (hf : Fits v e.2.2.1) : parseL e.2.1 e.2.2.1 (encodeL v) = .ok v :=
  parseL_encodeL _ _ (layouts_tied e he).2.1 v hf

/-- **Numeric fields**: a number that fits in `w` bytes survives `PutUintW` / `UintW` (any width, in
particular 1, 2, 4, 8), and every `w`-byte string is the encoding of the number it denotes. -/
theorem number_roundtrip (w n : Nat) (h : n < 256 ^ w) : beN (toBE w n) = n := beN_toBE w n h
theorem bytes_are_encoding_of_their_number (bs : Bytes) : toBE bs.length (beN bs) = bs := toBE_beN bs

/-- **0x8003** (serial, count, package numbers): both directions -/
theorem p8003_parse_encode (v : P8003) (hw : WF8003 v) : parse8003 (encode8003 v) = .ok v := parse8003_encode v hw
theorem p8003_encode_parse (b : Bytes) (v : P8003) (h : parse8003 b = .ok v) : encode8003 v = b := encode8003_parse b v h

/-- **0x9212** (name, type, result, count, (offset, length) ranges): parsing the encoded response yields it -/
theorem p9212_parse_encode (v : P9212) (hw : WF9212 v) : parse9212 (encode9212 v) = .ok v := parse9212_encode v hw

/-- Non-vacuity: a 0x8003 with three package numbers and a 0x9212 with two ranges are in the domain. -/
example : WF8003 ⟨0xffff, 3, [2, 4, 65535]⟩ := ⟨by decide, rfl, by decide, by decide⟩
example : WF9212 ⟨3, [0x61, 0x62, 0x63], 2, 1, 2, [0, 100, 4294967295, 1]⟩ :=
  ⟨rfl, by decide, by decide, by decide, rfl, by decide, by decide⟩
example : Fits [[1, 2], [3, 4], [5]] [(0, 2, "SerialNumber"), (2, 4, "ID"), (4, 5, "Result")] := by simp [Fits]

/-! ### seven more two-way types at the value level (`JT/Model/Codec3.lean`): strings with length bytes, lists of
fixed records, BCD times kept as their six raw bytes -/
open JT.Codec3 in
/-- **`Parse (Encode v) = v`** for every well-formed value (lengths equal to their strings, counts equal to their
lists, numbers within their widths, BCD times without the nibble 0xA) of 0x8100, 0x9101, 0x9201, 0x9206, 0x1205, 0x9102,
0x9207 -/
theorem more_parse_encode :
    (∀ v, WFP0x8100 v → parseP0x8100 (encodeP0x8100 v) = .ok v) ∧
    (∀ v, WFP0x9101 v → parseP0x9101 (encodeP0x9101 v) = .ok v) ∧
    (∀ v, WFP0x9201 v → parseP0x9201 (encodeP0x9201 v) = .ok v) ∧
    (∀ v, WFP0x9206 v → parseP0x9206 (encodeP0x9206 v) = .ok v) ∧
    (∀ v, WFT0x1205 v → parseT0x1205 (encodeT0x1205 v) = .ok v) ∧
    (∀ v, WFP0x9102 v → parseP0x9102 (encodeP0x9102 v) = .ok v) ∧
    (∀ v, WFP0x9207 v → parseP0x9207 (encodeP0x9207 v) = .ok v) :=
  ⟨parse_encodeP0x8100, parse_encodeP0x9101, parse_encodeP0x9201, parse_encodeP0x9206, parse_encodeT0x1205,
   parse_encodeP0x9102, parse_encodeP0x9207⟩

open JT.Codec3 in
/-- **`Encode (Parse b) = b`** for every accepted body of those types whose BCD time fields hold no nibble 0xA.
(`BCD2Time` renders 0xA as ':' and `Time2BCD` strips every ':', so for such bytes — which are not BCD timestamps and
hence outside the property's domain — the re-encoding differs: `encode_parseP0x9201_unconditional_false`.) -/
theorem more_reencode_identical :
    (∀ b v, parseP0x8100 b = .ok v → encodeP0x8100 v = b) ∧
    (∀ b v, parseP0x9101 b = .ok v → encodeP0x9101 v = b) ∧
    (∀ b v, parseP0x9201 b = .ok v → TimesP0x9201 v → encodeP0x9201 v = b) ∧
    (∀ b v, parseP0x9206 b = .ok v → TimesP0x9206 v → encodeP0x9206 v = b) ∧
    (∀ b v, parseT0x1205 b = .ok v → TimesT0x1205 v → encodeT0x1205 v = b) ∧
    (∀ b v, parseP0x9102 b = .ok v → encodeP0x9102 v = b) ∧
    (∀ b v, parseP0x9207 b = .ok v → encodeP0x9207 v = b) :=
  ⟨encode_parseP0x8100, encode_parseP0x9101, encode_parseP0x9201, encode_parseP0x9206, encode_parseT0x1205,
   encode_parseP0x9102, encode_parseP0x9207⟩

/-- **terminal parameters (0x8103 / 0x0104), every parameter ID**: (a) any list of well-framed items — 32-bit ID, one
length byte equal to the content's length, the width the regenerated table demands for that ID, not the "absent"
pattern ID 0 / length 0 — encoded one after the other parses back to exactly that list, with the count byte
`length mod 256`; (b) conversely an accepted list IS the concatenation of the items returned, in order (nothing dropped,
merged or reordered), each with the width its ID demands, and the count byte is their number mod 256.
`encodeDetails` (the reflection walk: struct order, unknown IDs ascending) is tied by the correspondence check. -/
theorem terminal_params_framing :
    (∀ items : List Params.Item, (∀ it ∈ items, Params.ItemWF it) →
      Params.parseDetails (items.length % 256) (items.flatMap Params.encodeItem) = .ok items) ∧
    (∀ count body items, count < 256 → Params.parseDetails count body = .ok items →
      items.flatMap Params.frame = body ∧ (∀ it ∈ items, Params.ItemOK it) ∧ count = items.length % 256) :=
  ⟨Params.parseDetails_encode, fun c b i hc h => Params.parseDetails_sound c b i hc h⟩

/-- Non-vacuity: a DWORD, a string and an unknown parameter are well-framed; their encoding is the expected bytes -/
example : Params.ItemWF ⟨1, 4, [0,0,0,60]⟩ ∧ Params.ItemWF ⟨0x10, 2, [0x61,0x62]⟩ ∧ Params.ItemWF ⟨0xf000, 1, [9]⟩ ∧
    Params.encodeItem ⟨1, 4, [0,0,0,60]⟩ = [0,0,0,1, 4, 0,0,0,60] := by
  refine ⟨⟨by decide, rfl, by decide, by decide, by decide⟩, ⟨by decide, rfl, by decide, by decide, by decide⟩,
    ⟨by decide, rfl, by decide, by decide, by decide⟩, by decide⟩

end JT.C07
