import JT.Model.Location
import JT.Spec.Location
import JT.Proof.Bytes
/-!
# C08 — location reports are decoded as the standard prescribes

Property theorems (and their small private helpers). Specification tables: `JT/Spec/Location.lean`;
model: `JT/Model/Location.lean`; the bit tables and the admissible-length table the model uses are
REGENERATED from /repo on every run (`JT/Gen/BitTables.lean`, `JT/Gen/AddLen.lean`), so the `decide`
obligations below are re-checked against what the source says now.
-/
namespace JT.C08
open JT JT.Loc

/-! ## regenerated tables = the standard's tables (obligations re-checked on every run) -/

/-- the extractor recognised the shape of all four flag decoders -/
theorem tables_recognised : Gen.bitTablesRecognised = true ∧ Gen.addLensRecognised = true := by decide

/-- character `k` of `%.32b` is bit `31-k`: the code's alarm table is the standard's table 24 -/
theorem alarm_table_is_standard : (Gen.alarmBits.map (fun e => (31 - e.1, e.2))).reverse = Spec.alarmTable := by decide
theorem status_table_is_standard : (Gen.statusBits.map (fun e => (31 - e.1, e.2))).reverse = Spec.statusTable := by decide
theorem extvehicle_table_is_standard : (Gen.extVehicleBits.map (fun e => (31 - e.1, e.2))).reverse = Spec.extVehicleTable := by decide
theorem io_table_is_standard : (Gen.ioBits.map (fun e => (15 - e.1, e.2))).reverse = Spec.ioTable := by decide
/-- the admissible lengths enforced by the code are exactly the standard's -/
theorem addlens_is_standard : Gen.addLens = Spec.stdAddLens := by decide

/-- a flag is reported iff some table entry naming it points at a `1` character -/
theorem mem_flagsOf (width : Nat) (tbl : List (Nat × String)) (w : Nat) (F : String) :
    F ∈ flagsOf width tbl w ↔ ∃ k, (k, F) ∈ tbl ∧ k < width ∧ w / 2 ^ (width - 1 - k) % 2 = 1 := by
  simp only [flagsOf, List.mem_map, List.mem_filter, charIsOne, decide_eq_true_eq]
  constructor
  · rintro ⟨⟨k, f⟩, ⟨hm, h1, h2⟩, rfl⟩; exact ⟨k, hm, h1, h2⟩
  · rintro ⟨k, hm, h1, h2⟩; exact ⟨(k, F), ⟨hm, h1, h2⟩, rfl⟩

theorem eq_of_nodup_map {α β : Type} (f : α → β) : ∀ (l : List α), (l.map f).Nodup → ∀ a ∈ l, ∀ b ∈ l, f a = f b → a = b
  | [], _, a, ha, _, _, _ => by cases ha
  | x :: r, hnd, a, ha, b, hb, hab => by
    rw [List.map_cons, List.nodup_cons] at hnd
    cases ha with
    | head =>
      cases hb with
      | head => rfl
      | tail _ hb' => exact absurd (List.mem_map_of_mem (f := f) hb') (by rw [← hab]; exact hnd.1)
    | tail _ ha' =>
      cases hb with
      | head => exact absurd (List.mem_map_of_mem (f := f) ha') (by rw [hab]; exact hnd.1)
      | tail _ hb' => exact eq_of_nodup_map f r hnd.2 a ha' b hb' hab

/-- generic lift: if the code's table, re-indexed by bit number, is `spec` and flag names are unique,
then flag `F` is set exactly when its bit is set — for every word, not only 32-bit ones -/
theorem flag_iff_bit (width : Nat) (gen spec : List (Nat × String)) (w : Nat)
    (hgen : (gen.map (fun e => (width - 1 - e.1, e.2))).reverse = spec)
    (hk : ∀ e ∈ gen, e.1 < width) (hnd : (spec.map (·.2)).Nodup)
    (bit : Nat) (F : String) (hm : (bit, F) ∈ spec) :
    F ∈ flagsOf width gen w ↔ w / 2 ^ bit % 2 = 1 := by
  rw [mem_flagsOf]
  subst hgen
  simp only [List.mem_reverse, List.mem_map] at hm
  obtain ⟨⟨k0, f0⟩, hm0, heq⟩ := hm
  simp only [Prod.mk.injEq] at heq
  obtain ⟨hb, hf⟩ := heq
  subst hf
  constructor
  · rintro ⟨k, hk1, _, hk3⟩
    -- same name ⇒ same entry (names are unique)
    have : k = k0 := by
      have h1 : (width - 1 - k, f0) ∈ (gen.map (fun e => (width - 1 - e.1, e.2))).reverse := by
        simp only [List.mem_reverse, List.mem_map]; exact ⟨(k, f0), hk1, rfl⟩
      have h2 : (width - 1 - k0, f0) ∈ (gen.map (fun e => (width - 1 - e.1, e.2))).reverse := by
        simp only [List.mem_reverse, List.mem_map]; exact ⟨(k0, f0), hm0, rfl⟩
      have := eq_of_nodup_map (·.2) _ hnd _ h1 _ h2 rfl
      simp only [Prod.mk.injEq, and_true] at this
      have a := hk (k, f0) hk1; have b := hk (k0, f0) hm0
      simp only at a b
      omega
    subst this
    rw [← hb]; exact hk3
  · intro h
    exact ⟨k0, hm0, hk (k0, f0) hm0, by rw [hb]; exact h⟩

/-- **Flag words.** Each alarm flag and each single-bit status flag, each extended-vehicle signal and each
IO flag is true exactly when its bit in the standard's table is set — for every word. -/
theorem alarm_flag_iff_bit (w bit : Nat) (F : String) (hm : (bit, F) ∈ Spec.alarmTable) :
    F ∈ flagsOf 32 Gen.alarmBits w ↔ w / 2 ^ bit % 2 = 1 :=
  flag_iff_bit 32 Gen.alarmBits Spec.alarmTable w alarm_table_is_standard (by decide) (by decide) bit F hm
theorem status_flag_iff_bit (w bit : Nat) (F : String) (hm : (bit, F) ∈ Spec.statusTable) :
    F ∈ flagsOf 32 Gen.statusBits w ↔ w / 2 ^ bit % 2 = 1 :=
  flag_iff_bit 32 Gen.statusBits Spec.statusTable w status_table_is_standard (by decide) (by decide) bit F hm
theorem extvehicle_flag_iff_bit (w bit : Nat) (F : String) (hm : (bit, F) ∈ Spec.extVehicleTable) :
    F ∈ flagsOf 32 Gen.extVehicleBits w ↔ w / 2 ^ bit % 2 = 1 :=
  flag_iff_bit 32 Gen.extVehicleBits Spec.extVehicleTable w extvehicle_table_is_standard (by decide) (by decide) bit F hm
theorem io_flag_iff_bit (w bit : Nat) (F : String) (hm : (bit, F) ∈ Spec.ioTable) :
    F ∈ flagsOf 16 Gen.ioBits w ↔ w / 2 ^ bit % 2 = 1 :=
  flag_iff_bit 16 Gen.ioBits Spec.ioTable w io_table_is_standard (by decide) (by decide) bit F hm

/-! ## the 28-byte base block -/

/-- the standard's layout of the base block (table 23) -/
def encodeLoc (l : Loc) : Bytes :=
  toBE 4 l.alarm ++ toBE 4 l.status ++ toBE 4 l.lat ++ toBE 4 l.lon ++ toBE 2 l.alt ++ toBE 2 l.speed ++
    toBE 2 l.dir ++ l.time

structure LocWF (l : Loc) : Prop where
  alarm : l.alarm < 2 ^ 32
  status : l.status < 2 ^ 32
  lat : l.lat < 2 ^ 32
  lon : l.lon < 2 ^ 32
  alt : l.alt < 65536
  speed : l.speed < 65536
  dir : l.dir < 65536
  time : l.time.length = 6

private theorem be32_toBE (n : Nat) (h : n < 2 ^ 32) :
    be32 (UInt8.ofNat (n / 256 ^ 3 % 256)) (UInt8.ofNat (n / 256 ^ 2 % 256)) (UInt8.ofNat (n / 256 ^ 1 % 256))
      (UInt8.ofNat (n / 256 ^ 0 % 256)) = n := by
  unfold be32
  repeat rw [toNat_ofNat_lt _ (Nat.mod_lt _ (by decide))]
  simp only [Nat.reducePow] at h ⊢
  omega

private theorem parseLoc_cons (a0 a1 a2 a3 s0 s1 s2 s3 p0 p1 p2 p3 q0 q1 q2 q3 h0 h1 v0 v1 d0 d1 t0 t1 t2 t3 t4 t5 : Byte)
    (rest : Bytes) :
    parseLoc (a0 :: a1 :: a2 :: a3 :: s0 :: s1 :: s2 :: s3 :: p0 :: p1 :: p2 :: p3 :: q0 :: q1 :: q2 :: q3 ::
      h0 :: h1 :: v0 :: v1 :: d0 :: d1 :: t0 :: t1 :: t2 :: t3 :: t4 :: t5 :: rest) =
    .ok { alarm := be32 a0 a1 a2 a3, status := be32 s0 s1 s2 s3, lat := be32 p0 p1 p2 p3, lon := be32 q0 q1 q2 q3,
          alt := be16 h0 h1, speed := be16 v0 v1, dir := be16 d0 d1, time := [t0, t1, t2, t3, t4, t5] } := by
  simp [parseLoc, be32At, be16At]

/-- **Base block.** Latitude, longitude, altitude, speed, direction, time and the two flag words are read
big-endian / BCD at the standard offsets, whatever follows the block. -/
theorem parseLoc_encode (l : Loc) (hw : LocWF l) (rest : Bytes) :
    parseLoc (encodeLoc l ++ rest) = .ok l := by
  obtain ⟨h1, h2, h3, h4, h5, h6, h7, h8⟩ := hw
  obtain ⟨alarm, status, lat, lon, alt, speed, dir, time⟩ := l
  dsimp only at *
  obtain ⟨t0, t1, t2, t3, t4, t5, rfl⟩ : ∃ t0 t1 t2 t3 t4 t5, time = [t0, t1, t2, t3, t4, t5] := by
    match time, h8 with
    | [t0, t1, t2, t3, t4, t5], _ => exact ⟨_, _, _, _, _, _, rfl⟩
  simp only [encodeLoc, toBE, List.cons_append, List.nil_append, List.append_assoc]
  rw [parseLoc_cons]
  have e5 := be16_toBE alt h5
  have e6 := be16_toBE speed h6
  have e7 := be16_toBE dir h7
  have e1 := be32_toBE alarm h1
  have e2 := be32_toBE status h2
  have e3 := be32_toBE lat h3
  have e4 := be32_toBE lon h4
  simp only [Nat.reducePow, Nat.div_one] at e1 e2 e3 e4 ⊢
  rw [e1, e2, e3, e4, e5, e6, e7]

/-- a block shorter than 28 bytes is rejected -/
theorem parseLoc_short (b : Bytes) (h : b.length < 28) : parseLoc b = .err := by
  simp [parseLoc, h]

/-! ## additional-information items -/

/-- with the standard's length table, decoding an item never reads past its content -/
theorem decodeItem_no_panic (id : Nat) (c : Bytes) (h : lenOk Spec.stdAddLens id c.length = true) :
    decodeItem id c ≠ .panic := by
  unfold decodeItem
  split
  all_goals (try (simp [lenOk, Spec.stdAddLens, List.find?] at h))
  all_goals dsimp only
  all_goals (try (rcases h with h | h))
  all_goals (repeat' split)
  all_goals (first | omega | simp)


/-- the item loop never panics, whatever the bytes (TLV framing cut anywhere, any ids, any lengths) -/
theorem parseAdds_no_panic : ∀ (fuel : Nat) (b : Bytes), parseAdds Spec.stdAddLens fuel b ≠ .panic
  | 0, _ => by simp [parseAdds]
  | fuel + 1, [] => by simp [parseAdds]
  | fuel + 1, [_] => by simp [parseAdds]
  | fuel + 1, id :: l :: rest => by
    simp only [parseAdds]
    by_cases hl : lenOk Spec.stdAddLens id.toNat l.toNat = true
    · by_cases hr : rest.length < l.toNat
      · simp [hl, hr]
      · have hlen : (rest.take l.toNat).length = l.toNat := by simp [List.length_take]; omega
        have hnp := decodeItem_no_panic id.toNat (rest.take l.toNat) (by rw [hlen]; exact hl)
        have ih := parseAdds_no_panic fuel (rest.drop l.toNat)
        simp only [hl, hr, Bool.not_true, Bool.false_eq_true, if_false]
        cases hd : decodeItem id.toNat (rest.take l.toNat) with
        | panic => exact absurd hd hnp
        | err => simp
        | ok v =>
          obtain ⟨vals, flags⟩ := v
          cases hp : parseAdds Spec.stdAddLens fuel (rest.drop l.toNat) with
          | panic => exact absurd hp ih
          | err => simp
          | ok items => simp
    · simp [hl]

/-- **Decoding a location report never panics** (any byte string as 0x0200 body). -/
theorem parse0200_no_panic (b : Bytes) : parse0200 b ≠ .panic := by
  unfold parse0200
  cases hl : parseLoc b with
  | panic => simp [parseLoc] at hl; split at hl <;> cases hl
  | err => simp
  | ok l =>
    dsimp only
    split
    · rw [addlens_is_standard]
      have := parseAdds_no_panic b.length (b.drop 28)
      cases hp : parseAdds Spec.stdAddLens b.length (b.drop 28) with
      | panic => exact absurd hp this
      | err => simp
      | ok items => simp
    · simp

/-- **An item whose length is impossible for its ID is rejected.** -/
theorem impossible_length_rejected (fuel : Nat) (id l : Byte) (rest : Bytes)
    (h : lenOk Spec.stdAddLens id.toNat l.toNat = false) :
    parseAdds Spec.stdAddLens (fuel + 1) (id :: l :: rest) = .err := by
  simp [parseAdds, h]

/-- **One item at the front of the list**: it is delivered with its ID, length, verbatim content and the
values `decodeItem` assigns, followed by whatever the rest of the list yields. -/
theorem parseAdds_cons (fuel : Nat) (id l : Byte) (content rest : Bytes) (hc : content.length = l.toNat)
    (hok : lenOk Spec.stdAddLens id.toNat l.toNat = true) (vals : List (String × Nat)) (flags : List String)
    (hd : decodeItem id.toNat content = .ok (vals, flags)) (items : List Item)
    (hr : parseAdds Spec.stdAddLens fuel rest = .ok items) :
    parseAdds Spec.stdAddLens (fuel + 1) (id :: l :: (content ++ rest)) =
      .ok (⟨id.toNat, l.toNat, content, vals, flags⟩ :: items) := by
  have ht : (content ++ rest).take l.toNat = content := by rw [← hc]; simp
  have hdr : (content ++ rest).drop l.toNat = rest := by rw [← hc]; simp
  simp only [parseAdds, hok, ht, hdr, hd, hr]
  rw [if_neg (by simp), if_neg (by simp [← hc])]

/-- **Unknown items are preserved verbatim** (no decoded values, any length). -/
theorem unknown_item_verbatim (id : Nat) (c : Bytes) (h : id ∉ Spec.stdAddLens.map (·.1)) :
    decodeItem id c = .ok ([], []) ∧ lenOk Spec.stdAddLens id c.length = true := by
  simp [Spec.stdAddLens] at h
  constructor
  · unfold decodeItem
    split <;> first | rfl | (exfalso; simp_all)
  · obtain ⟨a1, a2, a3, a4, a5, a6, a7, a8, a9, a10, a11, a12, a13, a14⟩ := h
    simp [lenOk, Spec.stdAddLens, List.find?, Ne.symm a1, Ne.symm a2, Ne.symm a3, Ne.symm a4, Ne.symm a5, Ne.symm a6,
      Ne.symm a7, Ne.symm a8, Ne.symm a9, Ne.symm a10, Ne.symm a11, Ne.symm a12, Ne.symm a13, Ne.symm a14]

/-- **Values the standard assigns** (tables 27–32), as the decoder computes them from a content of
admissible length: big-endian numbers at the standard positions. -/
theorem item_values (c : Bytes) :
    (c.length = 4 → decodeItem 0x01 c = .ok ([("Mile", be32At c 0)], [])) ∧
    (c.length = 2 → decodeItem 0x02 c = .ok ([("Oil", be16At c 0)], [])) ∧
    (c.length = 2 → decodeItem 0x03 c = .ok ([("Speed", be16At c 0)], [])) ∧
    (c.length = 2 → decodeItem 0x04 c = .ok ([("ManualAlarm", be16At c 0)], [])) ∧
    (c.length = 2 → decodeItem 0x06 c = .ok ([("CarTemperature", be16At c 0)], [])) ∧
    (c.length = 6 → decodeItem 0x12 c = .ok ([("LocationType", (c.getD 0 0).toNat), ("AreaID", be32At c 1), ("Direction", (c.getD 5 0).toNat)], [])) ∧
    (c.length = 7 → decodeItem 0x13 c = .ok ([("RoadSectionID", be32At c 0), ("RoadSectionDrivingTimeSecond", be16At c 4), ("Result", (c.getD 6 0).toNat)], [])) ∧
    (c.length = 4 → decodeItem 0x25 c = .ok ([("Value", be32At c 0)], flagsOf 32 Gen.extVehicleBits (be32At c 0))) ∧
    (c.length = 2 → decodeItem 0x2A c = .ok ([("Value", be16At c 0)], flagsOf 16 Gen.ioBits (be16At c 0))) ∧
    (c.length = 4 → decodeItem 0x2B c = .ok ([("Analog", be32At c 0)], [])) ∧
    (c.length = 1 → decodeItem 0x30 c = .ok ([("WIFISignalStrength", (c.getD 0 0).toNat)], [])) ∧
    (c.length = 1 → decodeItem 0x31 c = .ok ([("GNSSPositionNum", (c.getD 0 0).toNat)], [])) := by
  refine ⟨?_, ?_, ?_, ?_, ?_, ?_, ?_, ?_, ?_, ?_, ?_, ?_⟩ <;> intro h <;> simp [decodeItem, h]

/-- The over-speed item 0x11 as the CODE decodes it — *not* the standard: for a 5-byte item the standard
puts the area id in bytes 1..4, the code reads bytes 0..3 (type byte included). This is the open finding
D3; the full-strength statement is refuted by the witness below. -/
theorem item_0x11_partial (c : Bytes) (h1 : c.length = 1) :
    decodeItem 0x11 c = .ok ([("LocationType", (c.getD 0 0).toNat), ("AreaID", 0)], []) := by
  simp only [decodeItem, h1]
  split <;> simp_all

theorem item_0x11_full_fails :
    decodeItem 0x11 [0x01, 0x00, 0x00, 0x00, 0x4d] ≠ .ok ([("LocationType", 1), ("AreaID", 0x4d)], []) := by
  decide
end JT.C08
