import JT.Props.C02
import JT.Proof.GoFrame
/-!
# C02 — the decoder as it stands in the source

`JT/Gen/GoFrame.lean` is regenerated on every run by translating `unescape`, `utils.CreateVerifyCode`, `utils.Bcd2Dec`,
`BodyProperty.decode`, `Header.decode` and `JTMessage.Decode` from /repo into Lean (`extract golean`). The theorems below
are about those translated functions, so for the frame decoder the tie of the model to the source is a proof
obligation that is re-checked on every run, not a sample.
-/
namespace JT.C02
open JT JT.Frame JT.Spec

/-- everything the frame codec consists of was inside the translated fragment -/
theorem source_translated_completely : Gen.GoFrame.untranslated = [] := by decide

/-- **the translated `JTMessage.Decode` accepts exactly the well-formed frames**: for every byte string, every receiver and
every sufficient loop budget it returns `nil` iff the string is well-formed, and then the receiver carries the fields of
the (unique) well-formed reading; otherwise it returns an error; it never panics and the budget `len+1` suffices. -/
theorem source_decode_iff_wellformed (fuel : Nat) (j0 : Gen.GoFrame.jt808_JTMessage) (f : Bytes) (hf : f.length < fuel) :
    (∀ m, WellFormed f m → ∃ j, Gen.GoFrame.jt808_JTMessage_Decode fuel j0 f = .ok (j, none) ∧ Gen.GoFrame.Rep j m) ∧
    ((¬ ∃ m, WellFormed f m) → ∃ j e, Gen.GoFrame.jt808_JTMessage_Decode fuel j0 f = .ok (j, some e)) ∧
    Gen.GoFrame.jt808_JTMessage_Decode fuel j0 f ≠ .panic ∧ Gen.GoFrame.jt808_JTMessage_Decode fuel j0 f ≠ .fuel := by
  have H := Gen.GoFrame.decode_go fuel j0 f hf
  refine ⟨?_, ?_, ?_, ?_⟩
  · intro m hm
    rw [(decode_iff_wellformed f m).mpr hm] at H
    obtain ⟨j, h1, h2, _⟩ := H
    exact ⟨j, h1, h2⟩
  · intro hn
    rw [((decode_total f).2).mpr hn] at H
    exact H
  · intro hc
    cases hd : decode f with
    | ok m => rw [hd] at H; obtain ⟨j, h1, _⟩ := H; rw [h1] at hc; cases hc
    | err => rw [hd] at H; obtain ⟨j, e, h1⟩ := H; rw [h1] at hc; cases hc
    | panic => rw [hd] at H; exact H
  · intro hc
    cases hd : decode f with
    | ok m => rw [hd] at H; obtain ⟨j, h1, _⟩ := H; rw [h1] at hc; cases hc
    | err => rw [hd] at H; obtain ⟨j, e, h1⟩ := H; rw [h1] at hc; cases hc
    | panic => rw [hd] at H; exact H

/-- an accepted frame is well-formed (the converse direction, on the translated code) -/
theorem source_accept_wellformed (fuel : Nat) (j0 j : Gen.GoFrame.jt808_JTMessage) (f : Bytes) (hf : f.length < fuel)
    (h : Gen.GoFrame.jt808_JTMessage_Decode fuel j0 f = .ok (j, none)) : ∃ m, WellFormed f m ∧ Gen.GoFrame.Rep j m := by
  have H := Gen.GoFrame.decode_go fuel j0 f hf
  cases hd : decode f with
  | ok m =>
    rw [hd] at H
    obtain ⟨j', h1, h2, _⟩ := H
    rw [h1] at h; injection h with h; injection h with h
    exact ⟨m, (decode_iff_wellformed f m).mp hd, h ▸ h2⟩
  | err => rw [hd] at H; obtain ⟨j', e, h1⟩ := H; rw [h1] at h; injection h with h; injection h with _ h; cases h
  | panic => rw [hd] at H; exact H.elim

end JT.C02
