import JT.Proof.ActInt
import JT.Gen.ConcShape
/-!
# C12 — platform commands are matched with their own responses

Property theorems only. Transition system: `JT/Model/Act.lean` (callers, session manager, writer, timeout
goroutines, reader teardown, terminal sending arbitrary responses; all interleavings); invariant and its
preservation: `JT/Proof/ActEnv.lean`, `JT/Proof/ActInt.lean`.
-/
namespace JT.C12
open JT.Act

theorem inv_reach {s : St} (h : Reach s) : Inv s := by
  induction h with
  | init => exact inv_init
  | step _ st ih =>
    rcases st with st | st
    · exact inv_env ih st
    · exact inv_int ih st

/-- **Exactly one result per call.** Once a caller has its result, no step of any goroutine (any
interleaving, any terminal behaviour) gives it another one or takes it back. A call has at most one result
at any time because every request is in exactly one place. -/
theorem result_is_final {s t : St} (hr : Reach s) (st : Step s t) (r : Nat) (x : Result) (h : s.place r = .done x) :
    t.place r = .done x := by
  have key : ∀ (r' : Nat) (v : Place), s.place r' ≠ .done x → upd s.place r' v r = .done x := by
    intro r' v hne
    have : r ≠ r' := by intro e; subst e; exact hne h
    rw [upd_other _ _ _ _ this]; exact h
  rcases st with st | st
  · cases st with
    | call =>
      apply key; intro e
      have := ((inv_reach hr).exists_iff s.created).mpr (Nat.le_refl _)
      rw [this] at e; cases e
    | readerEnds _ => exact h
    | wResponse e r' _ hp => apply key; rw [hp]; simp
  · cases st with
    | mgrWrite r' hp _ _ => apply key; rw [hp]; simp
    | mgrNotExist r' hp _ => apply key; rw [hp]; simp
    | mgrLeave _ => exact h
    | wSend r' _ hp => apply key; rw [hp]; simp
    | wSendFail r' _ hp => apply key; rw [hp]; simp
    | timerFire _ _ _ _ => exact h
    | timerQuit _ _ _ => exact h
    | wTimeoutHit _ _ r' _ _ hp => apply key; rw [hp]; simp
    | wTimeoutMiss _ _ _ _ _ => exact h
    | wStop _ _ =>
      show (match s.place r with | .act => Place.done .closed | .recorded _ => .done .closed | p => p) = .done x
      rw [h]

/-- **The response a caller gets is the response to its own command.** A `response e` result means `e` is the
platform serial this very request was stamped with when it was written — never another command's. -/
theorem response_is_own {s : St} (h : Reach s) (r e : Nat) (hp : s.place r = .done (.response e)) :
    s.stamp r = some e :=
  (inv_reach h).resp_stamp r e hp

/-- **Fresh serial**: two different commands never carry the same platform serial, so a response can match
at most one of them. -/
theorem serials_fresh {s : St} (h : Reach s) (r r' t : Nat) (h1 : s.stamp r = some t) (h2 : s.stamp r' = some t) :
    r = r' :=
  (inv_reach h).stamp_inj r r' t h1 h2

/-- a recorded (outstanding) command is recorded under its own serial -/
theorem recorded_under_own_serial {s : St} (h : Reach s) (r t : Nat) (hp : s.place r = .recorded t) :
    s.stamp r = some t :=
  (inv_reach h).rec_stamp r t hp

/-- **A command for a key that is not online is refused at once**: the only thing the manager can do with it
is the not-exist answer (no queueing behind a dead connection). -/
theorem offline_refused {s t : St} (r : Nat) (hp : s.place r = .ops) (hreg : s.registered = false)
    (st : IntStep s t) (hch : t.place r ≠ s.place r) : t.place r = .done .notExist := by
  cases st with
  | mgrWrite r' hp' hreg' _ => rw [hreg] at hreg'; cases hreg'
  | mgrNotExist r' hp' _ =>
    by_cases e : r = r'
    · subst e; simp
    · exact absurd (upd_other _ _ _ _ e) hch
  | mgrLeave _ => exact absurd rfl hch
  | wSend r' _ hp' =>
    by_cases e : r = r'
    · subst e; rw [hp] at hp'; cases hp'
    · exact absurd (upd_other _ _ _ _ e) hch
  | wSendFail r' _ hp' =>
    by_cases e : r = r'
    · subst e; rw [hp] at hp'; cases hp'
    · exact absurd (upd_other _ _ _ _ e) hch
  | timerFire _ _ _ _ => exact absurd rfl hch
  | timerQuit _ _ _ => exact absurd rfl hch
  | wTimeoutHit _ _ r' _ _ hp' =>
    by_cases e : r = r'
    · subst e; rw [hp] at hp'; cases hp'
    · exact absurd (upd_other _ _ _ _ e) hch
  | wTimeoutMiss _ _ _ _ _ => exact absurd rfl hch
  | wStop _ _ =>
    exfalso; apply hch
    show (match s.place r with | .act => Place.done .closed | .recorded _ => .done .closed | p => p) = s.place r
    rw [hp]

/-- assumptions of the transition system, read off the source on every run: lookup + hand-over to the connection is one
manager operation, and the hand-over is a blocking send (a command for an online key is never dropped or refused
because the connection's queue happens to be full) -/
theorem command_handover_as_modelled : Gen.managerOpsInClosure = true ∧ Gen.enqueueBlocking = true := by decide

end JT.C12
