import JT.Model.Registry
import JT.Gen.ConcShape
/-!
# C11 — session registry: at most one live connection per terminal key

Property theorems only. Model: `JT/Model/Registry.lean`. Atomicity of registry operations (one
session-manager goroutine runs them one after the other) is an assumption of the model; it is validated by
scripted and concurrent socket scenarios, not proved from the source.
-/
namespace JT.C11
open JT.Reg

/-- the registry and the connections agree: a key's owner is a connection that joined with that key and has
not ended, and every such connection owns its key -/
def Consistent (s : St) : Prop :=
  (∀ k c, s.owner k = some c → s.conn c = .joined k) ∧ (∀ c k, s.conn c = .joined k → s.owner k = some c)

theorem consistent_init : Consistent init := by
  constructor <;> intro a b h <;> simp [init] at h

theorem consistent_step (s : St) (hc : Consistent s) (o : Op) : Consistent (step s o).1 := by
  obtain ⟨h1, h2⟩ := hc
  cases o with
  | join c k =>
    simp only [step]
    cases hcs : s.conn c with
    | fresh =>
      cases ho : s.owner k with
      | some c' =>
        refine ⟨fun k' c'' h => ?_, fun c'' k' h => ?_⟩
        · have := h1 k' c'' h
          have hne : c'' ≠ c := by intro e; subst e; rw [hcs] at this; cases this
          simp [updC, hne, this]
        · by_cases e : c'' = c
          · subst e; simp [updC] at h
          · simp [updC, e] at h; exact h2 c'' k' h
      | none =>
        refine ⟨fun k' c'' h => ?_, fun c'' k' h => ?_⟩
        · by_cases ek : k' = k
          · subst ek; simp [updO] at h; subst h; simp [updC]
          · simp [updO, ek] at h
            have := h1 k' c'' h
            have hne : c'' ≠ c := by intro e; subst e; rw [hcs] at this; cases this
            simp [updC, hne, this]
        · by_cases e : c'' = c
          · subst e; simp [updC] at h; subst h; simp [updO]
          · simp [updC, e] at h
            have := h2 c'' k' h
            have ek : k' ≠ k := by intro e'; subst e'; rw [ho] at this; cases this
            simp [updO, ek, this]
    | joined k0 => exact ⟨h1, h2⟩
    | refused => exact ⟨h1, h2⟩
    | gone => exact ⟨h1, h2⟩
  | leave c =>
    simp only [step]
    cases hcs : s.conn c with
    | joined k =>
      refine ⟨fun k' c'' h => ?_, fun c'' k' h => ?_⟩
      · by_cases ek : k' = k
        · subst ek; simp [updO] at h
        · simp [updO, ek] at h
          have := h1 k' c'' h
          have hne : c'' ≠ c := by intro e; subst e; rw [hcs] at this; injection this with this; exact ek this.symm
          simp [updC, hne, this]
      · by_cases e : c'' = c
        · subst e; simp [updC] at h
        · simp [updC, e] at h
          have := h2 c'' k' h
          have ek : k' ≠ k := by
            intro e'; subst e'
            have hc := h2 c k' hcs
            rw [hc] at this; injection this with this; exact e this.symm
          simp [updO, ek, this]
    | gone => exact ⟨h1, h2⟩
    | fresh =>
      refine ⟨fun k' c'' h => ?_, fun c'' k' h => ?_⟩
      · have := h1 k' c'' h
        have hne : c'' ≠ c := by intro e; subst e; rw [hcs] at this; cases this
        simp [updC, hne, this]
      · by_cases e : c'' = c
        · subst e; simp [updC] at h
        · simp [updC, e] at h; exact h2 c'' k' h
    | refused =>
      refine ⟨fun k' c'' h => ?_, fun c'' k' h => ?_⟩
      · have := h1 k' c'' h
        have hne : c'' ≠ c := by intro e; subst e; rw [hcs] at this; cases this
        simp [updC, hne, this]
      · by_cases e : c'' = c
        · subst e; simp [updC] at h
        · simp [updC, e] at h; exact h2 c'' k' h
  | route k =>
    simp only [step]
    cases s.owner k <;> exact ⟨h1, h2⟩

/-- **At any moment each key maps to at most one live connection, and each live joined connection owns its
key** — after every history of joins, duplicate joins, leaves and commands, in any order. -/
theorem consistent_run : ∀ (ops : List Op) (s : St), Consistent s → Consistent (run s ops).1
  | [], _, h => h
  | o :: r, s, h => by
    simp only [run]
    exact consistent_run r _ (consistent_step s h o)

theorem at_most_one_owner (ops : List Op) (c₁ c₂ k : Nat)
    (h₁ : (run init ops).1.conn c₁ = .joined k) (h₂ : (run init ops).1.conn c₂ = .joined k) : c₁ = c₂ := by
  have hc := consistent_run ops init consistent_init
  have a := hc.2 c₁ k h₁
  have b := hc.2 c₂ k h₂
  rw [a] at b; injection b

/-- **A second connection presenting a key that is online is refused, and the first is not affected.** -/
theorem dup_refused_first_untouched (s : St) (c c' k : Nat) (ho : s.owner k = some c) (hf : s.conn c' = .fresh) :
    (step s (.join c' k)).2 = .refusedOut c' k ∧ (step s (.join c' k)).1.owner = s.owner ∧
    ((step s (.join c' k)).1.conn c' = .refused) ∧ (c ≠ c' → (step s (.join c' k)).1.conn c = s.conn c) := by
  simp [step, hf, ho, updC]
  intro hne; simp [hne]

/-- **When a connection ends, its key — and only its key — becomes free again.** -/
theorem leave_frees_only_own_key (s : St) (c k : Nat) (hj : s.conn c = .joined k) :
    (step s (.leave c)).1.owner k = none ∧ (∀ k', k' ≠ k → (step s (.leave c)).1.owner k' = s.owner k') ∧
    (step s (.leave c)).2 = .left c (some k) := by
  simp [step, hj, updO]
  intro k' hne; simp [hne]

/-- a connection that never joined (fresh, or refused as a duplicate) frees nothing when it ends -/
theorem leave_unjoined_frees_nothing (s : St) (c : Nat) (hj : s.conn c = .fresh ∨ s.conn c = .refused) :
    (step s (.leave c)).1.owner = s.owner ∧ (step s (.leave c)).2 = .left c none := by
  rcases hj with h | h <;> simp [step, h]

/-- a freed key can be taken by a new connection -/
theorem rejoin_after_leave (s : St) (c c' k : Nat) (hj : s.conn c = .joined k) (hf : s.conn c' = .fresh) (hne : c' ≠ c) :
    (step (step s (.leave c)).1 (.join c' k)).2 = .joined c' k := by
  simp [step, hj, hf, updO, updC, hne]

/-- **Commands are routed to the connection that currently owns the key; a key that is not online gives
not-exist at once** (no state change, no waiting). -/
theorem route_to_owner (s : St) (k : Nat) :
    (step s (.route k)).1 = s ∧
    (step s (.route k)).2 = (match s.owner k with | some c => .routed k c | none => .notExist k) := by
  simp only [step]
  cases s.owner k <;> simp

/-- **Join and leave announcements are paired** (`events_paired` below): in every history a connection is
announced as joined at most once, and when it ends it is announced as left at most once (`stopOnce`), with the key
it joined with if it ever joined and with no key otherwise. -/
def joinsOf (c : Nat) (outs : List Out) : List Nat := outs.filterMap (fun o => match o with | .joined c' k => if c' = c then some k else none | _ => none)
def leavesOf (c : Nat) (outs : List Out) : List (Option Nat) := outs.filterMap (fun o => match o with | .left c' k => if c' = c then some k else none | _ => none)

private theorem joinsOf_cons (c : Nat) (o : Out) (r : List Out) :
    joinsOf c (o :: r) = (match o with | .joined c' k => if c' = c then [k] else [] | _ => []) ++ joinsOf c r := by
  cases o <;> simp [joinsOf, List.filterMap_cons] <;> split <;> simp_all

private theorem leavesOf_cons (c : Nat) (o : Out) (r : List Out) :
    leavesOf c (o :: r) = (match o with | .left c' k => if c' = c then [k] else [] | _ => []) ++ leavesOf c r := by
  cases o <;> simp [leavesOf, List.filterMap_cons] <;> split <;> simp_all

/-- what the outputs of a history say about connection `c`, depending on the state it starts in -/
def Paired (st : CState) (js : List Nat) (ls : List (Option Nat)) : Prop :=
  match st with
  | .fresh => (js = [] ∧ (ls = [] ∨ ls = [none])) ∨ (∃ k, js = [k] ∧ (ls = [] ∨ ls = [some k]))
  | .joined k => js = [] ∧ (ls = [] ∨ ls = [some k])
  | .refused => js = [] ∧ (ls = [] ∨ ls = [none])
  | .gone => js = [] ∧ ls = []

theorem events_paired : ∀ (ops : List Op) (s : St) (c : Nat),
    Paired (s.conn c) (joinsOf c (run s ops).2) (leavesOf c (run s ops).2)
  | [], s, c => by
    cases h : s.conn c <;> simp [Paired, run, joinsOf, leavesOf]
  | o :: r, s, c => by
    have ih := events_paired r (step s o).1 c
    simp only [run, joinsOf_cons, leavesOf_cons]
    -- case analysis on the operation, on whether it concerns c, and on c's state
    cases o with
    | route k =>
      have hs : (step s (.route k)).1 = s := by simp only [step]; cases s.owner k <;> rfl
      have ho : ∀ x, (step s (.route k)).2 ≠ .joined c x ∧ ∀ y, (step s (.route k)).2 ≠ .left c y := by
        intro x; simp only [step]; cases s.owner k <;> simp
      rw [hs] at ih
      have : (step s (.route k)).2 = .notExist k ∨ ∃ c', (step s (.route k)).2 = .routed k c' := by
        simp only [step]; cases s.owner k <;> simp
      rcases this with h | ⟨c', h⟩ <;> simp only [h, hs, List.nil_append] <;> exact ih
    | join c' k =>
      by_cases e : c' = c
      · subst e
        cases hc : s.conn c' with
        | fresh =>
          cases ho : s.owner k with
          | some x =>
            simp only [step, hc, ho, List.nil_append] at ih ⊢
            simp only [updC, if_true] at ih
            simp only [Paired] at ih ⊢
            left; exact ih
          | none =>
            simp only [step, hc, ho, if_true, List.singleton_append, List.nil_append] at ih ⊢
            simp only [updC, if_true] at ih
            simp only [Paired] at ih ⊢
            right; exact ⟨k, by rw [ih.1], ih.2⟩
        | joined k0 => simp only [step, hc, List.nil_append] at ih ⊢; exact ih
        | refused => simp only [step, hc, List.nil_append] at ih ⊢; exact ih
        | gone => simp only [step, hc, List.nil_append] at ih ⊢; exact ih
      · -- another connection joins: c's state and events are untouched
        have hconn : (step s (.join c' k)).1.conn c = s.conn c := by
          simp only [step]
          cases s.conn c' <;> try rfl
          cases s.owner k <;> simp [updC, Ne.symm e]
        have hout : (match (step s (.join c' k)).2 with | .joined c'' k' => if c'' = c then [k'] else [] | _ => []) = ([] : List Nat) := by
          simp only [step]
          cases s.conn c' <;> try rfl
          cases s.owner k <;> simp [e]
        have hout2 : (match (step s (.join c' k)).2 with | .left c'' k' => if c'' = c then [k'] else [] | _ => []) = ([] : List (Option Nat)) := by
          simp only [step]
          cases s.conn c' <;> try rfl
          cases s.owner k <;> simp
        rw [hout, hout2, List.nil_append, List.nil_append, ← hconn]; exact ih
    | leave c' =>
      by_cases e : c' = c
      · subst e
        cases hc : s.conn c' with
        | fresh =>
          simp only [step, hc, if_true, List.nil_append, List.singleton_append] at ih ⊢
          simp only [updC, if_true, Paired] at ih ⊢
          left; exact ⟨ih.1, Or.inr (by rw [ih.2])⟩
        | refused =>
          simp only [step, hc, if_true, List.nil_append, List.singleton_append] at ih ⊢
          simp only [updC, if_true, Paired] at ih ⊢
          exact ⟨ih.1, Or.inr (by rw [ih.2])⟩
        | joined k0 =>
          simp only [step, hc, if_true, List.nil_append, List.singleton_append] at ih ⊢
          simp only [updC, if_true, Paired] at ih ⊢
          exact ⟨ih.1, Or.inr (by rw [ih.2])⟩
        | gone => simp only [step, hc, List.nil_append] at ih ⊢; exact ih
      · have hconn : (step s (.leave c')).1.conn c = s.conn c := by
          simp only [step]
          cases s.conn c' <;> simp [updC, Ne.symm e]
        have hout : (match (step s (.leave c')).2 with | .joined c'' k' => if c'' = c then [k'] else [] | _ => []) = ([] : List Nat) := by
          simp only [step]; cases s.conn c' <;> rfl
        have hout2 : (match (step s (.leave c')).2 with | .left c'' k' => if c'' = c then [k'] else [] | _ => []) = ([] : List (Option Nat)) := by
          simp only [step]; cases s.conn c' <;> simp [e]
        rw [hout, hout2, List.nil_append, List.nil_append, ← hconn]; exact ih

/-- Non-vacuity: the history of the property text — A joins, duplicate B refused, B ends, command to an absent
key, A ends, C takes the key. -/
example : (run init [.join 0 7, .join 1 7, .leave 1, .route 9, .route 7, .leave 0, .join 2 7]).2 =
    [.joined 0 7, .refusedOut 1 7, .left 1 none, .notExist 9, .routed 7 0, .left 0 (some 7), .joined 2 7] := by decide


/-- the model's atomicity assumption, read off the source on every run: in `sessionManager.join/leave/write` every use
of the session table and the hand-over to the connection happen inside the closure that the single manager goroutine
executes; each of the three is ONE such closure (the test for an online key and the insertion are not two manager
operations that another connection's join can come between); and exactly one such goroutine exists (started once, by
the constructor) -/
theorem registry_operations_atomic_in_source :
    Gen.managerOpsInClosure = true ∧ Gen.managerOneOpPerCall = true ∧ Gen.managerStartedOnce = true := by decide

/-- two more things the registry model takes for granted, read off the source on every run: a caller of join / leave /
write waits for the manager's answer unconditionally (plain receive: no `select`, no timer — a caller that gave up would
leave an operation behind that the manager applies later, recording a session nobody owns), and the manager's table is
created once and never replaced (every operation sees every session recorded before it) -/
theorem registry_operations_complete_in_source :
    Gen.managerReplyAwaited = true ∧ Gen.managerTableCreatedOnce = true := by decide

end JT.C11
