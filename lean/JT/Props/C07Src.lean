import JT.Proof.GoModel
/-!
# C07 — encoders as they stand in the source

`Encode` methods of protocol/model translated from /repo on every run (`JT/Gen/GoModel.lean`).
-/
namespace JT.C07
open JT JT.Go

/-- **Message-body encoders as translated from protocol/model never panic**: for every field value of the receiver each of these `Encode` methods returns a byte string (every `PutUintN`/element write stays inside the buffer it allocated). -/
theorem source_body_encoders_total (fuel : Nat) :
    (∀ t : Gen.GoModel.model_P0x8001, ∃ r, Gen.GoModel.model_P0x8001_Encode fuel t = .ok r) ∧
    (∀ t : Gen.GoModel.model_P0x8104, ∃ r, Gen.GoModel.model_P0x8104_Encode fuel t = .ok r) ∧
    (∀ t : Gen.GoModel.model_P0x8801, ∃ r, Gen.GoModel.model_P0x8801_Encode fuel t = .ok r) ∧
    (∀ t : Gen.GoModel.model_P0x9003, ∃ r, Gen.GoModel.model_P0x9003_Encode fuel t = .ok r) ∧
    (∀ t : Gen.GoModel.model_P0x9102, ∃ r, Gen.GoModel.model_P0x9102_Encode fuel t = .ok r) ∧
    (∀ t : Gen.GoModel.model_P0x9105, ∃ r, Gen.GoModel.model_P0x9105_Encode fuel t = .ok r) ∧
    (∀ t : Gen.GoModel.model_P0x9207, ∃ r, Gen.GoModel.model_P0x9207_Encode fuel t = .ok r) ∧
    (∀ t : Gen.GoModel.model_T0x0001, ∃ r, Gen.GoModel.model_T0x0001_Encode fuel t = .ok r) ∧
    (∀ t : Gen.GoModel.model_T0x0002, ∃ r, Gen.GoModel.model_T0x0002_Encode fuel t = .ok r) ∧
    (∀ t : Gen.GoModel.model_T0x0104, ∃ r, Gen.GoModel.model_T0x0104_Encode fuel t = .ok r) ∧
    (∀ t : Gen.GoModel.model_T0x0800, ∃ r, Gen.GoModel.model_T0x0800_Encode fuel t = .ok r) ∧
    (∀ t : Gen.GoModel.model_T0x1003, ∃ r, Gen.GoModel.model_T0x1003_Encode fuel t = .ok r) ∧
    (∀ t : Gen.GoModel.model_T0x1206, ∃ r, Gen.GoModel.model_T0x1206_Encode fuel t = .ok r) := by
  refine ⟨?_, ?_, ?_, ?_, ?_, ?_, ?_, ?_, ?_, ?_, ?_, ?_, ?_⟩ <;> intro t
  · exact (Go.X.isOk_iff _).mp (Gen.GoModel.P0x8001_Encode_total fuel t)
  · exact (Go.X.isOk_iff _).mp (Gen.GoModel.P0x8104_Encode_total fuel t)
  · exact (Go.X.isOk_iff _).mp (Gen.GoModel.P0x8801_Encode_total fuel t)
  · exact (Go.X.isOk_iff _).mp (Gen.GoModel.P0x9003_Encode_total fuel t)
  · exact (Go.X.isOk_iff _).mp (Gen.GoModel.P0x9102_Encode_total fuel t)
  · exact (Go.X.isOk_iff _).mp (Gen.GoModel.P0x9105_Encode_total fuel t)
  · exact (Go.X.isOk_iff _).mp (Gen.GoModel.P0x9207_Encode_total fuel t)
  · exact (Go.X.isOk_iff _).mp (Gen.GoModel.T0x0001_Encode_total fuel t)
  · exact (Go.X.isOk_iff _).mp (Gen.GoModel.T0x0002_Encode_total fuel t)
  · exact (Go.X.isOk_iff _).mp (Gen.GoModel.T0x0104_Encode_total fuel t)
  · exact (Go.X.isOk_iff _).mp (Gen.GoModel.T0x0800_Encode_total fuel t)
  · exact (Go.X.isOk_iff _).mp (Gen.GoModel.T0x1003_Encode_total fuel t)
  · exact (Go.X.isOk_iff _).mp (Gen.GoModel.T0x1206_Encode_total fuel t)

end JT.C07
