import JT.Proof.GoModel
import JT.Proof.GoModelRT
import JT.Proof.GoModelBcd
import JT.Proof.GoReply
/-!
# C07 — encoders as they stand in the source

`Encode` methods of protocol/model translated from /repo on every run (`JT/Gen/GoModel.lean`).
-/
namespace JT.C07
open JT JT.Go

/-- **Message-body encoders as translated from protocol/model never panic**: for every field value of the receiver each of these `Encode` methods returns a byte string (every `PutUintN`/element write stays inside the buffer it allocated). -/
theorem source_body_encoders_total (fuel : Nat) :
    (∀ t : Gen.GoModel.model_P0x8001, ∃ r, Gen.GoModel.model_P0x8001_Encode fuel t = .ok r) ∧
    (∀ t : Gen.GoModel.model_P0x8104, ∃ r, Gen.GoModel.model_P0x8104_Encode fuel t = .ok r) ∧
    (∀ t : Gen.GoModel.model_P0x8801, ∃ r, Gen.GoModel.model_P0x8801_Encode fuel t = .ok r) ∧
    (∀ t : Gen.GoModel.model_P0x9003, ∃ r, Gen.GoModel.model_P0x9003_Encode fuel t = .ok r) ∧
    (∀ t : Gen.GoModel.model_P0x9102, ∃ r, Gen.GoModel.model_P0x9102_Encode fuel t = .ok r) ∧
    (∀ t : Gen.GoModel.model_P0x9105, ∃ r, Gen.GoModel.model_P0x9105_Encode fuel t = .ok r) ∧
    (∀ t : Gen.GoModel.model_P0x9207, ∃ r, Gen.GoModel.model_P0x9207_Encode fuel t = .ok r) ∧
    (∀ t : Gen.GoModel.model_T0x0001, ∃ r, Gen.GoModel.model_T0x0001_Encode fuel t = .ok r) ∧
    (∀ t : Gen.GoModel.model_T0x0002, ∃ r, Gen.GoModel.model_T0x0002_Encode fuel t = .ok r) ∧
    (∀ t : Gen.GoModel.model_T0x0104, ∃ r, Gen.GoModel.model_T0x0104_Encode fuel t = .ok r) ∧
    (∀ t : Gen.GoModel.model_T0x0800, ∃ r, Gen.GoModel.model_T0x0800_Encode fuel t = .ok r) ∧
    (∀ t : Gen.GoModel.model_T0x1003, ∃ r, Gen.GoModel.model_T0x1003_Encode fuel t = .ok r) ∧
    (∀ t : Gen.GoModel.model_T0x1206, ∃ r, Gen.GoModel.model_T0x1206_Encode fuel t = .ok r) := by
  refine ⟨?_, ?_, ?_, ?_, ?_, ?_, ?_, ?_, ?_, ?_, ?_, ?_, ?_⟩ <;> intro t
  · exact (Go.X.isOk_iff _).mp (Gen.GoModel.P0x8001_Encode_total fuel t)
  · exact (Go.X.isOk_iff _).mp (Gen.GoModel.P0x8104_Encode_total fuel t)
  · exact (Go.X.isOk_iff _).mp (Gen.GoModel.P0x8801_Encode_total fuel t)
  · exact (Go.X.isOk_iff _).mp (Gen.GoModel.P0x9003_Encode_total fuel t)
  · exact (Go.X.isOk_iff _).mp (Gen.GoModel.P0x9102_Encode_total fuel t)
  · exact (Go.X.isOk_iff _).mp (Gen.GoModel.P0x9105_Encode_total fuel t)
  · exact (Go.X.isOk_iff _).mp (Gen.GoModel.P0x9207_Encode_total fuel t)
  · exact (Go.X.isOk_iff _).mp (Gen.GoModel.T0x0001_Encode_total fuel t)
  · exact (Go.X.isOk_iff _).mp (Gen.GoModel.T0x0002_Encode_total fuel t)
  · exact (Go.X.isOk_iff _).mp (Gen.GoModel.T0x0104_Encode_total fuel t)
  · exact (Go.X.isOk_iff _).mp (Gen.GoModel.T0x0800_Encode_total fuel t)
  · exact (Go.X.isOk_iff _).mp (Gen.GoModel.T0x1003_Encode_total fuel t)
  · exact (Go.X.isOk_iff _).mp (Gen.GoModel.T0x1206_Encode_total fuel t)

/-- **`Parse(Encode(v)) = v` on the translated source** for the fixed-layout bodies whose `Encode` and `Parse` are both
inside the translated fragment: every field value survives, whatever the receiver held before, and nothing panics. -/
theorem source_fixed_layout_roundtrips (fuel : Nat) (j : Gen.GoFrame.jt808_JTMessage) :
    (∀ t q : Gen.GoModel.model_P0x8001, ∃ body, Gen.GoModel.model_P0x8001_Encode fuel t = .ok body ∧
      ∃ r, Gen.GoModel.model_P0x8001_Parse fuel q { j with Body := body } = .ok (r, none) ∧ r.RespondSerialNumber = t.RespondSerialNumber ∧ r.RespondID = t.RespondID ∧ r.Result = t.Result) ∧
    (∀ t q : Gen.GoModel.model_P0x8801, ∃ body, Gen.GoModel.model_P0x8801_Encode fuel t = .ok body ∧
      ∃ r, Gen.GoModel.model_P0x8801_Parse fuel q { j with Body := body } = .ok (r, none) ∧ r.ChannelID = t.ChannelID ∧ r.ShootCommand = t.ShootCommand ∧ r.PhotoIntervalOrVideoTime = t.PhotoIntervalOrVideoTime ∧ r.SaveFlag = t.SaveFlag ∧ r.Resolution = t.Resolution ∧ r.VideoQuality = t.VideoQuality ∧ r.Intensity = t.Intensity ∧ r.Contrast = t.Contrast ∧ r.Saturation = t.Saturation ∧ r.Chroma = t.Chroma) ∧
    (∀ t q : Gen.GoModel.model_P0x9102, ∃ body, Gen.GoModel.model_P0x9102_Encode fuel t = .ok body ∧
      ∃ r, Gen.GoModel.model_P0x9102_Parse fuel q { j with Body := body } = .ok (r, none) ∧ r.ChannelNo = t.ChannelNo ∧ r.ControlCmd = t.ControlCmd ∧ r.CloseAudioVideoData = t.CloseAudioVideoData ∧ r.StreamType = t.StreamType) ∧
    (∀ t q : Gen.GoModel.model_P0x9105, ∃ body, Gen.GoModel.model_P0x9105_Encode fuel t = .ok body ∧
      ∃ r, Gen.GoModel.model_P0x9105_Parse fuel q { j with Body := body } = .ok (r, none) ∧ r.ChannelNo = t.ChannelNo ∧ r.PackageLossRate = t.PackageLossRate) ∧
    (∀ t q : Gen.GoModel.model_P0x9207, ∃ body, Gen.GoModel.model_P0x9207_Encode fuel t = .ok body ∧
      ∃ r, Gen.GoModel.model_P0x9207_Parse fuel q { j with Body := body } = .ok (r, none) ∧ r.RespondSerialNumber = t.RespondSerialNumber ∧ r.UploadControl = t.UploadControl) ∧
    (∀ t q : Gen.GoModel.model_T0x0001, ∃ body, Gen.GoModel.model_T0x0001_Encode fuel t = .ok body ∧
      ∃ r, Gen.GoModel.model_T0x0001_Parse fuel q { j with Body := body } = .ok (r, none) ∧ r.SerialNumber = t.SerialNumber ∧ r.ID = t.ID ∧ r.Result = t.Result) ∧
    (∀ t q : Gen.GoModel.model_T0x1003, ∃ body, Gen.GoModel.model_T0x1003_Encode fuel t = .ok body ∧
      ∃ r, Gen.GoModel.model_T0x1003_Parse fuel q { j with Body := body } = .ok (r, none) ∧ r.EnterAudioEncoding = t.EnterAudioEncoding ∧ r.EnterAudioChannelsNumber = t.EnterAudioChannelsNumber ∧ r.EnterAudioSampleRate = t.EnterAudioSampleRate ∧ r.EnterAudioSampleDigits = t.EnterAudioSampleDigits ∧ r.AudioFrameLength = t.AudioFrameLength ∧ r.HasSupportedAudioOutput = t.HasSupportedAudioOutput ∧ r.VideoEncoding = t.VideoEncoding ∧ r.TerminalSupportedMaxNumberOfAudioPhysicalChannels = t.TerminalSupportedMaxNumberOfAudioPhysicalChannels ∧ r.TerminalSupportedMaxNumberOfVideoPhysicalChannels = t.TerminalSupportedMaxNumberOfVideoPhysicalChannels) ∧
    (∀ t q : Gen.GoModel.model_T0x1206, ∃ body, Gen.GoModel.model_T0x1206_Encode fuel t = .ok body ∧
      ∃ r, Gen.GoModel.model_T0x1206_Parse fuel q { j with Body := body } = .ok (r, none) ∧ r.RespondSerialNumber = t.RespondSerialNumber ∧ r.Result = t.Result) :=
  ⟨fun t q => Gen.GoModel.P0x8001_roundtrip fuel t q j, fun t q => Gen.GoModel.P0x8801_roundtrip fuel t q j, fun t q => Gen.GoModel.P0x9102_roundtrip fuel t q j, fun t q => Gen.GoModel.P0x9105_roundtrip fuel t q j, fun t q => Gen.GoModel.P0x9207_roundtrip fuel t q j, fun t q => Gen.GoModel.T0x0001_roundtrip fuel t q j, fun t q => Gen.GoModel.T0x1003_roundtrip fuel t q j, fun t q => Gen.GoModel.T0x1206_roundtrip fuel t q j⟩

/-- **Encoders that convert time strings, as translated from the source, never panic** — `utils.Time2BCD` (strip the
separators, drop the century, pad to an even length, pack two characters per byte) is translated too and proved total for
EVERY string, digits or not (loop invariants: even length, output buffer of half the length); with it the `Encode`
methods of 0x9201, 0x9202, 0x9205, 0x9206 and 0x1005 return a byte string for every receiver once the loop budget exceeds
the length of the time strings by two. -/
theorem source_time_encoders_total (fuel : Nat) :
    (∀ s : Bytes, s.length + 1 < fuel → ∃ b, Gen.GoModel.utils_Time2BCD fuel s = .ok b) ∧
    (∀ t : Gen.GoModel.model_P0x9201, t.StartTime.length + 1 < fuel → t.EndTime.length + 1 < fuel → ∃ b, Gen.GoModel.model_P0x9201_Encode fuel t = .ok b) ∧
    (∀ t : Gen.GoModel.model_P0x9202, t.DateTime.length + 1 < fuel → ∃ b, Gen.GoModel.model_P0x9202_Encode fuel t = .ok b) ∧
    (∀ t : Gen.GoModel.model_P0x9205, t.StartTime.length + 1 < fuel → t.EndTime.length + 1 < fuel → ∃ b, Gen.GoModel.model_P0x9205_Encode fuel t = .ok b) ∧
    (∀ t : Gen.GoModel.model_P0x9206, t.StartTime.length + 1 < fuel → t.EndTime.length + 1 < fuel → ∃ b, Gen.GoModel.model_P0x9206_Encode fuel t = .ok b) ∧
    (∀ t : Gen.GoModel.model_T0x1005, t.StartTime.length + 1 < fuel → t.EndTime.length + 1 < fuel → ∃ b, Gen.GoModel.model_T0x1005_Encode fuel t = .ok b) :=
  ⟨fun s hs => ⟨_, Gen.GoModel.Time2BCD_ok fuel s hs⟩,
   fun t h1 h2 => (Go.X.isOk_iff _).mp (Gen.GoModel.P0x9201_Encode_total fuel t h1 h2),
   fun t h1 => (Go.X.isOk_iff _).mp (Gen.GoModel.P0x9202_Encode_total fuel t h1),
   fun t h1 h2 => (Go.X.isOk_iff _).mp (Gen.GoModel.P0x9205_Encode_total fuel t h1 h2),
   fun t h1 h2 => (Go.X.isOk_iff _).mp (Gen.GoModel.P0x9206_Encode_total fuel t h1 h2),
   fun t h1 h2 => (Go.X.isOk_iff _).mp (Gen.GoModel.T0x1005_Encode_total fuel t h1 h2)⟩

/-- multimedia event 0x0800 (32-bit ID followed by four single-byte fields): `Parse(Encode(v)) = v` on the translated code -/
theorem source_0800_roundtrip (fuel : Nat) (j : Gen.GoFrame.jt808_JTMessage) (t q : Gen.GoModel.model_T0x0800) :
    ∃ body, Gen.GoModel.model_T0x0800_Encode fuel t = .ok body ∧
      ∃ r, Gen.GoModel.model_T0x0800_Parse fuel q { j with Body := body } = .ok (r, none) ∧ r.MultimediaID = t.MultimediaID ∧ r.MultimediaType = t.MultimediaType ∧ r.MultimediaFormatEncode = t.MultimediaFormatEncode ∧ r.EventItemEncode = t.EventItemEncode ∧ r.ChannelID = t.ChannelID :=
  Gen.GoModel.T0x0800_roundtrip fuel t q j

/-- **The active-safety encoders, translated source, never panic**: the alarm-sign block (identifier padded or cut to 7 /
30 bytes by `String2FillingBytes`, BCD time, reserve bytes filled up to the dialect's block length), `P0x9208.Encode` and
`T0x1210.Encode` (with its attachment-list loop) return a byte string for every receiver, every dialect and every list. -/
theorem source_active_safety_encoders_total (fuel : Nat) :
    (∀ p : Gen.GoModel.model_P9208AlarmSign, p.Time.length + 1 < fuel → ∃ r, Gen.GoModel.model_P9208AlarmSign_encode fuel p = .ok r) ∧
    (∀ p : Gen.GoModel.model_P0x9208, p.P9208AlarmSign.Time.length + 1 < fuel → ∃ r, Gen.GoModel.model_P0x9208_Encode fuel p = .ok r) ∧
    (∀ t : Gen.GoModel.model_T0x1210, t.P9208AlarmSign.Time.length + 1 < fuel → t.T0x1210AlarmItemList.length < fuel →
      ∃ r, Gen.GoModel.model_T0x1210_Encode fuel t = .ok r) :=
  ⟨fun p h => (Go.X.isOk_iff _).mp (Gen.GoModel.AlarmSign_encode_total fuel p h),
   fun p h => (Go.X.isOk_iff _).mp (Gen.GoModel.P0x9208_Encode_total fuel p h),
   fun t h hl => (Go.X.isOk_iff _).mp (Gen.GoModel.T0x1210_Encode_total fuel t h hl)⟩

/-- file information 0x1211 (and 0x1212, which shares the layout): name length, name, type, size — `Parse(Encode(v)) = v` on
the translated code for every name whose length is in the length byte, every type and size -/
theorem source_1211_roundtrip (fuel : Nat) (j : Gen.GoFrame.jt808_JTMessage) (t q : Gen.GoModel.model_T0x1211)
    (hl : t.FileNameLen.toNat = t.FileName.length) :
    ∃ body, Gen.GoModel.model_T0x1211_Encode fuel t = .ok body ∧
      ∃ r, Gen.GoModel.model_T0x1211_Parse fuel q { j with Body := body } = .ok (r, none) ∧ r.FileNameLen = t.FileNameLen ∧ r.FileName = t.FileName ∧ r.FileType = t.FileType ∧ r.FileSize = t.FileSize :=
  Gen.GoModel.T0x1211_roundtrip fuel t q j hl

/-- registration response 0x8100 (serial, result, authentication code to the end of the body): `Parse(Encode(v)) = v` on the
translated code, for every code -/
theorem source_8100_roundtrip (fuel : Nat) (j : Gen.GoFrame.jt808_JTMessage) (t q : Gen.GoModel.model_P0x8100) :
    ∃ body, Gen.GoModel.model_P0x8100_Encode fuel t = .ok body ∧
      ∃ r, Gen.GoModel.model_P0x8100_Parse fuel q { j with Body := body } = .ok (r, none) ∧
        r.RespondSerialNumber = t.RespondSerialNumber ∧ r.Result = t.Result ∧ r.AuthCode = t.AuthCode :=
  Gen.GoModel.P0x8100_roundtrip fuel t q j

end JT.C07
