import JT.Proof.GoFrame
/-!
# C03 — the frame-level decoders as they stand in the source are total

About the functions translated from /repo on every run (`JT/Gen/GoFrame.lean`): with every index and slice expression
going through an accessor that yields `panic` where Go would, none of them has a panic outcome, for any byte string and
any receiver, and a loop budget of `len+1` always suffices (every loop terminates).
-/
namespace JT.C03
open JT JT.Go JT.Frame JT.Gen.GoFrame

/-- **`unescape`, `escape`, `utils.CreateVerifyCode`, `utils.Bcd2Dec` and `JTMessage.Decode` never panic and terminate**,
whatever bytes they are given (translated source). -/
theorem source_frame_functions_total (fuel : Nat) (d : Bytes) (j0 : jt808_JTMessage) (hf : d.length < fuel) :
    (∃ r, jt808_unescape fuel d = .ok r) ∧ (∃ r, jt808_escape fuel d = .ok r) ∧
    (∃ r, utils_CreateVerifyCode fuel d = .ok r) ∧ (∃ r, utils_Bcd2Dec fuel d = .ok r) ∧
    (∃ r, jt808_JTMessage_Decode fuel j0 d = .ok r) := by
  refine ⟨?_, ⟨_, escape_eq d fuel hf⟩, ⟨_, createVerifyCode_eq d fuel hf⟩, bcd2dec_ok d fuel hf, ?_⟩
  · rw [unescape_eq d fuel hf]; cases Frame.unescape d <;> exact ⟨_, rfl⟩
  · have H := decode_go fuel j0 d hf
    cases hd : Frame.decode d with
    | ok m => rw [hd] at H; obtain ⟨j, h1, _⟩ := H; exact ⟨_, h1⟩
    | err => rw [hd] at H; obtain ⟨j, e, h1⟩ := H; exact ⟨_, h1⟩
    | panic => rw [hd] at H; exact H.elim

/-- the translated functions compute what the hand-written model computes (the model the other C03 theorems are about) -/
theorem source_is_model (fuel : Nat) (d : Bytes) (hf : d.length < fuel) :
    jt808_escape fuel d = .ok (Frame.escape d) ∧ utils_CreateVerifyCode fuel d = .ok (xorAll d) ∧
    jt808_unescape fuel d = (match Frame.unescape d with
      | some r => .ok (r, none)
      | none => .ok ([], some "ErrUnqualifiedData")) :=
  ⟨escape_eq d fuel hf, createVerifyCode_eq d fuel hf, unescape_eq d fuel hf⟩

end JT.C03
