import JT.Proof.GoFrame
import JT.Proof.GoModel
import JT.Proof.GoModelBcd
import JT.Proof.GoLoc
/-!
# C03 — the frame-level decoders as they stand in the source are total

About the functions translated from /repo on every run (`JT/Gen/GoFrame.lean`): with every index and slice expression
going through an accessor that yields `panic` where Go would, none of them has a panic outcome, for any byte string and
any receiver, and a loop budget of `len+1` always suffices (every loop terminates).
-/
namespace JT.C03
open JT JT.Go JT.Frame JT.Gen.GoFrame

/-- **`unescape`, `escape`, `utils.CreateVerifyCode`, `utils.Bcd2Dec` and `JTMessage.Decode` never panic and terminate**,
whatever bytes they are given (translated source). -/
theorem source_frame_functions_total (fuel : Nat) (d : Bytes) (j0 : jt808_JTMessage) (hf : d.length < fuel) :
    (∃ r, jt808_unescape fuel d = .ok r) ∧ (∃ r, jt808_escape fuel d = .ok r) ∧
    (∃ r, utils_CreateVerifyCode fuel d = .ok r) ∧ (∃ r, utils_Bcd2Dec fuel d = .ok r) ∧
    (∃ r, jt808_JTMessage_Decode fuel j0 d = .ok r) := by
  refine ⟨?_, ⟨_, escape_eq d fuel hf⟩, ⟨_, createVerifyCode_eq d fuel hf⟩, bcd2dec_ok d fuel hf, ?_⟩
  · rw [unescape_eq d fuel hf]; cases Frame.unescape d <;> exact ⟨_, rfl⟩
  · have H := decode_go fuel j0 d hf
    cases hd : Frame.decode d with
    | ok m => rw [hd] at H; obtain ⟨j, h1, _⟩ := H; exact ⟨_, h1⟩
    | err => rw [hd] at H; obtain ⟨j, e, h1⟩ := H; exact ⟨_, h1⟩
    | panic => rw [hd] at H; exact H.elim

/-- the translated functions compute what the hand-written model computes (the model the other C03 theorems are about) -/
theorem source_is_model (fuel : Nat) (d : Bytes) (hf : d.length < fuel) :
    jt808_escape fuel d = .ok (Frame.escape d) ∧ utils_CreateVerifyCode fuel d = .ok (xorAll d) ∧
    jt808_unescape fuel d = (match Frame.unescape d with
      | some r => .ok (r, none)
      | none => .ok ([], some "ErrUnqualifiedData")) :=
  ⟨escape_eq d fuel hf, createVerifyCode_eq d fuel hf, unescape_eq d fuel hf⟩

/-- **Message-body decoders as translated from protocol/model never panic** (`JT/Gen/GoModel.lean`, regenerated on every run): for every body (any length, any bytes) and every receiver state each of these `Parse` methods returns a value — a result or an error. The proof is the tactic `go_total`: every checked access becomes an `if`, and every `panic` branch contradicts the length guards on its path. -/
theorem source_body_decoders_total (fuel : Nat) (j : Gen.GoFrame.jt808_JTMessage) :
    (∀ t : Gen.GoModel.model_P0x8001, ∃ r, Gen.GoModel.model_P0x8001_Parse fuel t j = .ok r) ∧
    (∀ t : Gen.GoModel.model_P0x8100, ∃ r, Gen.GoModel.model_P0x8100_Parse fuel t j = .ok r) ∧
    (∀ t : Gen.GoModel.model_P0x8104, ∃ r, Gen.GoModel.model_P0x8104_Parse fuel t j = .ok r) ∧
    (∀ t : Gen.GoModel.model_P0x8801, ∃ r, Gen.GoModel.model_P0x8801_Parse fuel t j = .ok r) ∧
    (∀ t : Gen.GoModel.model_P0x9003, ∃ r, Gen.GoModel.model_P0x9003_Parse fuel t j = .ok r) ∧
    (∀ t : Gen.GoModel.model_P0x9101, ∃ r, Gen.GoModel.model_P0x9101_Parse fuel t j = .ok r) ∧
    (∀ t : Gen.GoModel.model_P0x9102, ∃ r, Gen.GoModel.model_P0x9102_Parse fuel t j = .ok r) ∧
    (∀ t : Gen.GoModel.model_P0x9105, ∃ r, Gen.GoModel.model_P0x9105_Parse fuel t j = .ok r) ∧
    (∀ t : Gen.GoModel.model_P0x9207, ∃ r, Gen.GoModel.model_P0x9207_Parse fuel t j = .ok r) ∧
    (∀ t : Gen.GoModel.model_T0x0001, ∃ r, Gen.GoModel.model_T0x0001_Parse fuel t j = .ok r) ∧
    (∀ t : Gen.GoModel.model_T0x0800, ∃ r, Gen.GoModel.model_T0x0800_Parse fuel t j = .ok r) ∧
    (∀ t : Gen.GoModel.model_T0x1003, ∃ r, Gen.GoModel.model_T0x1003_Parse fuel t j = .ok r) ∧
    (∀ t : Gen.GoModel.model_T0x1206, ∃ r, Gen.GoModel.model_T0x1206_Parse fuel t j = .ok r) ∧
    (∀ t : Gen.GoModel.model_T0x1211, ∃ r, Gen.GoModel.model_T0x1211_Parse fuel t j = .ok r) := by
  refine ⟨?_, ?_, ?_, ?_, ?_, ?_, ?_, ?_, ?_, ?_, ?_, ?_, ?_, ?_⟩ <;> intro t
  · exact (Go.X.isOk_iff _).mp (Gen.GoModel.P0x8001_Parse_total fuel t j)
  · exact (Go.X.isOk_iff _).mp (Gen.GoModel.P0x8100_Parse_total fuel t j)
  · exact (Go.X.isOk_iff _).mp (Gen.GoModel.P0x8104_Parse_total fuel t j)
  · exact (Go.X.isOk_iff _).mp (Gen.GoModel.P0x8801_Parse_total fuel t j)
  · exact (Go.X.isOk_iff _).mp (Gen.GoModel.P0x9003_Parse_total fuel t j)
  · exact (Go.X.isOk_iff _).mp (Gen.GoModel.P0x9101_Parse_total fuel t j)
  · exact (Go.X.isOk_iff _).mp (Gen.GoModel.P0x9102_Parse_total fuel t j)
  · exact (Go.X.isOk_iff _).mp (Gen.GoModel.P0x9105_Parse_total fuel t j)
  · exact (Go.X.isOk_iff _).mp (Gen.GoModel.P0x9207_Parse_total fuel t j)
  · exact (Go.X.isOk_iff _).mp (Gen.GoModel.T0x0001_Parse_total fuel t j)
  · exact (Go.X.isOk_iff _).mp (Gen.GoModel.T0x0800_Parse_total fuel t j)
  · exact (Go.X.isOk_iff _).mp (Gen.GoModel.T0x1003_Parse_total fuel t j)
  · exact (Go.X.isOk_iff _).mp (Gen.GoModel.T0x1206_Parse_total fuel t j)
  · exact (Go.X.isOk_iff _).mp (Gen.GoModel.T0x1211_Parse_total fuel t j)

/-- **0x8003 (re-request list), 0x8800 (multimedia re-request), 0x0805 (multimedia id list) and 0x9212 (retransmit ranges)
as translated never panic and terminate**: the count-driven
loops read every entry inside the body that the length check admitted (loop invariant `len(body) = head + entry·count`),
for every body and every receiver state. -/
theorem source_list_decoders_total (fuel : Nat) (j : Gen.GoFrame.jt808_JTMessage) (hf : j.Body.length < fuel) :
    (∀ t : Gen.GoModel.model_P0x8003, ∃ r, Gen.GoModel.model_P0x8003_Parse fuel t j = .ok r) ∧
    (∀ t : Gen.GoModel.model_P0x9212, ∃ r, Gen.GoModel.model_P0x9212_Parse fuel t j = .ok r) ∧
    (∀ t : Gen.GoModel.model_P0x8800, ∃ r, Gen.GoModel.model_P0x8800_Parse fuel t j = .ok r) ∧
    (∀ t : Gen.GoModel.model_T0x0805, ∃ r, Gen.GoModel.model_T0x0805_Parse fuel t j = .ok r) :=
  ⟨fun t => (Go.X.isOk_iff _).mp (Gen.GoModel.P0x8003_Parse_total fuel t j hf),
   fun t => (Go.X.isOk_iff _).mp (Gen.GoModel.P0x9212_Parse_total fuel t j hf),
   fun t => (Go.X.isOk_iff _).mp (Gen.GoModel.P0x8800_Parse_total fuel t j hf),
   fun t => (Go.X.isOk_iff _).mp (Gen.GoModel.T0x0805_Parse_total fuel t j hf)⟩

/-- **Decoders that convert BCD timestamps, as translated from the source, never panic** — `utils.BCD2Time` (a loop writing
two digits per byte into a buffer of twice the length, then slicing six two-digit groups apart) is translated too and
proved total (loop invariant on the buffer length); with it the `Parse` methods of 0x9201, 0x9202, 0x9205, 0x9206 and
0x1005 return a value for every body and every receiver once the loop budget exceeds the body length. -/
theorem source_time_decoders_total (fuel : Nat) (j : Gen.GoFrame.jt808_JTMessage) (hf : j.Body.length < fuel) :
    (∀ b : Bytes, b.length < fuel → ∃ s, Gen.GoModel.utils_BCD2Time fuel b = .ok s) ∧
    (∀ t : Gen.GoModel.model_P0x9201, ∃ r, Gen.GoModel.model_P0x9201_Parse fuel t j = .ok r) ∧
    (∀ t : Gen.GoModel.model_P0x9202, ∃ r, Gen.GoModel.model_P0x9202_Parse fuel t j = .ok r) ∧
    (∀ t : Gen.GoModel.model_P0x9205, ∃ r, Gen.GoModel.model_P0x9205_Parse fuel t j = .ok r) ∧
    (∀ t : Gen.GoModel.model_P0x9206, ∃ r, Gen.GoModel.model_P0x9206_Parse fuel t j = .ok r) ∧
    (∀ t : Gen.GoModel.model_T0x1005, ∃ r, Gen.GoModel.model_T0x1005_Parse fuel t j = .ok r) :=
  ⟨fun b hb => ⟨_, Gen.GoModel.BCD2Time_ok fuel b hb⟩,
   fun t => (Go.X.isOk_iff _).mp (Gen.GoModel.P0x9201_Parse_total fuel t j hf),
   fun t => (Go.X.isOk_iff _).mp (Gen.GoModel.P0x9202_Parse_total fuel t j hf),
   fun t => (Go.X.isOk_iff _).mp (Gen.GoModel.P0x9205_Parse_total fuel t j hf),
   fun t => (Go.X.isOk_iff _).mp (Gen.GoModel.P0x9206_Parse_total fuel t j hf),
   fun t => (Go.X.isOk_iff _).mp (Gen.GoModel.T0x1005_Parse_total fuel t j hf)⟩

/-- **The active-safety decoders as translated from the source never panic**: the resource list 0x1205 (a 32-bit count,
28-byte records with two BCD timestamps each — loop invariant: record `n` lies at `6+28n … 34+28n` inside a body of
`6+28·total` bytes), the attachment announcement 0x1210 (identifier, alarm-sign block, attachment list — every dialect)
and the upload command 0x9208 (server address of `body[0]` bytes, ports, alarm-sign block, alarm ID — every dialect)
return a value for every body and every receiver. -/
theorem source_active_safety_decoders_total (fuel : Nat) (j : Gen.GoFrame.jt808_JTMessage) (hf : j.Body.length + 256 < fuel) :
    (∀ t : Gen.GoModel.model_T0x1205, ∃ r, Gen.GoModel.model_T0x1205_Parse fuel t j = .ok r) ∧
    (∀ t : Gen.GoModel.model_T0x1210, ∃ r, Gen.GoModel.model_T0x1210_Parse fuel t j = .ok r) ∧
    (∀ t : Gen.GoModel.model_P0x9208, ∃ r, Gen.GoModel.model_P0x9208_Parse fuel t j = .ok r) :=
  ⟨fun t => (Go.X.isOk_iff _).mp (Gen.GoModel.T0x1205_Parse_total fuel t j (by omega)),
   fun t => (Go.X.isOk_iff _).mp (Gen.GoModel.T0x1210_Parse_total fuel t j hf),
   fun t => (Go.X.isOk_iff _).mp (Gen.GoModel.P0x9208_Parse_total fuel t j (by omega))⟩

/-- **Authentication and the location carriers, translated source**: `T0x0102.Parse` (2019 layout: length-prefixed code,
IMEI, software version cut at its first NUL — `bytes.IndexByte` stays inside the 20-byte field), the two flag-word parsers,
the 28-byte location block and `T0x0801.Parse` return a value for every input and every receiver. -/
theorem source_auth_and_location_decoders_total (fuel : Nat) (j : Gen.GoFrame.jt808_JTMessage) (hf : 6 < fuel) :
    (∀ t : Gen.GoModel.model_T0x0102, ∃ r, Gen.GoModel.model_T0x0102_Parse fuel t j = .ok r) ∧
    (∀ (a : Gen.GoModel.model_AlarmSignDetails) (w : UInt32), ∃ r, Gen.GoModel.model_AlarmSignDetails_parse fuel a w = .ok r) ∧
    (∀ (s : Gen.GoModel.model_StatusSignDetails) (w : UInt32), ∃ r, Gen.GoModel.model_StatusSignDetails_parse fuel s w = .ok r) ∧
    (∀ (tl : Gen.GoModel.model_T0x0200LocationItem) (b : Bytes), ∃ r, Gen.GoModel.model_T0x0200LocationItem_parse fuel tl b = .ok r) ∧
    (∀ t : Gen.GoModel.model_T0x0801, ∃ r, Gen.GoModel.model_T0x0801_Parse fuel t j = .ok r) := by
  refine ⟨fun t => (Go.X.isOk_iff _).mp (Gen.GoModel.T0x0102_Parse_total fuel t j), fun a w => ⟨_, Gen.GoModel.AlarmSignDetails_parse_eq fuel a w⟩,
    fun s w => ⟨_, Gen.GoModel.StatusSignDetails_parse_eq fuel s w⟩, ?_, ?_⟩
  · intro tl b
    by_cases h : 28 ≤ b.length
    · exact ⟨_, Gen.GoModel.LocationItem_parse_eq fuel tl b h hf⟩
    · obtain ⟨e, he⟩ := Gen.GoModel.LocationItem_parse_short fuel tl b (by omega)
      exact ⟨_, he⟩
  · intro t
    by_cases h : 36 ≤ j.Body.length
    · exact ⟨_, Gen.GoModel.T0x0801_Parse_eq fuel t j h hf⟩
    · exact ⟨_, Gen.GoModel.T0x0801_Parse_short fuel t j (by omega)⟩

end JT.C03
