import JT.Proof.Term
import JT.Proof.Path
import JT.Props.C01
import JT.Gen.TermDefaults
import JT.Gen.ReplyTable
/-!
# C20 — the terminal simulator and the codec agree

Property theorems only. Model `JT/Model/Term.lean` (tied to `terminal.New(WithHeader(..))`,
`CreateCommandData`, `CreateDefaultCommandData` by the correspondence check), frame codec model of C01,
`JT.Gen.termDefaults` REGENERATED on every run by executing the simulator's default table.

Phones in scope: decimal digit strings of at most 12 digits (2019: 20) — `ValidPhone`.
Body parsing / re-encoding of the 24 default bodies × 3 versions (a finite table) and `ExpectedReply` against the
reply model of C06 and a live server are decided by execution — see DESIGN.md.
-/
namespace JT.C20
open JT JT.Frame JT.Term

def ValidPhone (v : Nat) (ds : List Nat) : Prop := ds.length ≤ width v ∧ ∀ d ∈ ds, d < 10

theorem header_wf (v : Nat) (ds : List Nat) (hp : ds.length ≤ width v) : C01.HeaderWF (withHeader v ds) :=
  ⟨by simp [withHeader], by simp only [withHeader]; split <;> simp, by simp [withHeader],
   withHeader_bcd_length v ds hp⟩

/-- **Every generated frame is accepted by the decoder** with that command ID, that phone (BCD of the zero-padded
digits), the header layout of that version (version bit and 10-byte phone for 2019, 6-byte phone otherwise), the
next serial number, no fragmentation, and a byte-identical body — for every phone in scope, every command ID,
every custom body of up to 1023 bytes and every state of the simulator. -/
theorem generated_frame_decodes (v : Nat) (ds : List Nat) (hp : ds.length ≤ width v) (t : T)
    (ht : t.h = withHeader v ds) (cmd : Nat) (hc : 0 < cmd) (hc2 : cmd < 65536) (body : Bytes) (hb : body.length ≤ 1023) :
    ∃ m, decode (create t cmd body).2 = .ok m ∧ m.h.id = cmd ∧ m.h.bcd = bcdOf (padDigits (width v) ds) ∧
      m.h.version = (if v = 3 then 1 else 0) ∧ m.h.bcd.length = (if v = 3 then 10 else 6) ∧
      m.h.serial = (t.serial + 1) % 65536 ∧ m.h.frag = 0 ∧ m.body = body := by
  have hw := header_wf v ds hp
  have hd := C01.decode_encode (withHeader v ds) hw cmd ((t.serial + 1) % 65536) hc2
    (Nat.mod_lt _ (by decide)) body hb
  refine ⟨_, by simpa [create, ht] using hd, ?_⟩
  have hne : cmd ≠ 0 := by omega
  have hl := withHeader_bcd_length v ds hp
  refine ⟨by simp [hne], by simp [withHeader], by simp [withHeader], ?_, rfl, rfl, rfl⟩
  simp only
  rw [hl]
  by_cases h3 : v = 3 <;> simp [withHeader, h3]

/-- **Serial numbers are consecutive (mod 2^16)**: the i-th frame of any command sequence is the encoding with
serial `start + i + 1`. -/
theorem serials_consecutive : ∀ (cmds : List (Nat × Bytes)) (t : T) (i : Nat) (c : Nat × Bytes), cmds[i]? = some c →
    (createAll t cmds).2[i]? = some (encode t.h c.1 ((t.serial + i + 1) % 65536) c.2) ∧ (createAll t cmds).1.h = t.h
  | [], _, i, c, h => by simp at h
  | (c0, b0) :: r, t, 0, c, h => by
    simp only [List.getElem?_cons_zero, Option.some.injEq] at h
    subst h
    simp only [createAll, create, List.getElem?_cons_zero, Nat.add_zero, true_and]
    cases r with
    | nil => rfl
    | cons x xs => exact (serials_consecutive (x :: xs) _ 0 x rfl).2
  | (c0, b0) :: r, t, i + 1, c, h => by
    simp only [List.getElem?_cons_succ] at h
    have ih := serials_consecutive r ({ t with serial := (t.serial + 1) % 65536 }) i c h
    simp only [createAll, create, List.getElem?_cons_succ]
    refine ⟨?_, ih.2⟩
    rw [ih.1]
    congr 2
    simp only
    omega

/-- wrap-around: after serial 65535 comes 0 -/
example (h : Header) : (create ⟨h, 65535⟩ 2 []).1.serial = 0 := by simp [create]

/-! ### the phone -/
def digitChar (d : Nat) : Byte := UInt8.ofNat (48 + d)

private theorem bcdConvert_bcdOf : ∀ (l : List Nat), l.length % 2 = 0 → (∀ d ∈ l, d < 10) →
    Path.bcdConvert (bcdOf l) = l.map digitChar
  | [], _, _ => rfl
  | [_], h, _ => by simp at h
  | a :: b :: r, hl, hd => by
    have ha := hd a (by simp)
    have hb := hd b (by simp)
    have ih := bcdConvert_bcdOf r (by simp only [List.length_cons] at hl; omega) (fun d hm => hd d (by simp [hm]))
    have hn : (UInt8.ofNat (a * 16 + b)).toNat = a * 16 + b := by
      show (a * 16 + b) % 256 = _
      omega
    simp only [Path.bcdConvert, bcdOf, List.flatMap_cons, List.map_cons] at ih ⊢
    rw [ih, hn]
    have e1 : (a * 16 + b) / 16 = a := by omega
    have e2 : (a * 16 + b) % 16 = b := by omega
    rw [e1, e2]
    simp [Path.nibbleChar, digitChar, show a ≤ 9 by omega, show b ≤ 9 by omega]

private theorem digitChar_zero (d : Nat) (h : d < 10) : digitChar d = 0x30 ↔ d = 0 := by
  revert d; decide

private theorem dropWhile_map_digit : ∀ (l : List Nat), (∀ d ∈ l, d < 10) →
    (l.map digitChar).dropWhile (· = 0x30) = (l.dropWhile (· = 0)).map digitChar
  | [], _ => rfl
  | d :: r, h => by
    have hd := h d (by simp)
    simp only [List.map_cons, List.dropWhile_cons]
    by_cases hz : d = 0
    · subst hz
      have : digitChar 0 = 0x30 := rfl
      simp [this, dropWhile_map_digit r (fun x hx => h x (by simp [hx]))]
    · have : digitChar d ≠ 0x30 := fun e => hz ((digitChar_zero d hd).mp e)
      simp [this, hz]

/-- **The decoded phone number is the given one, leading zeros aside.** -/
theorem phone_leading_zeros_aside (v : Nat) (ds : List Nat) (hp : ValidPhone v ds) (hnz : ∃ d ∈ ds, d ≠ 0) :
    Path.phoneStr (withHeader v ds).bcd = (ds.dropWhile (· = 0)).map digitChar := by
  obtain ⟨hl, hd⟩ := hp
  have hlen := padDigits_length (width v) ds hl
  have hev : (padDigits (width v) ds).length % 2 = 0 := by
    rw [hlen]; simp only [width]; split <;> rfl
  have hdig := padDigits_digits (width v) ds hd
  have hdrop : (padDigits (width v) ds).dropWhile (· = 0) = ds.dropWhile (· = 0) := by
    simp only [padDigits]
    generalize width v - ds.length = k
    induction k with
    | zero => simp
    | succ n ih => simp [List.replicate_succ, ih]
  have hne : ds.dropWhile (· = 0) ≠ [] := by
    obtain ⟨d, hm, hz⟩ := hnz
    intro e
    have key : ∀ (l : List Nat), l.dropWhile (· = 0) = [] → ∀ x ∈ l, x = 0 := by
      intro l
      induction l with
      | nil => simp
      | cons y ys ih =>
        intro he x hx
        simp only [List.dropWhile_cons] at he
        by_cases hy : y = 0
        · simp only [hy, decide_true, if_true] at he
          rcases List.mem_cons.mp hx with e1 | e1
          · rw [e1, hy]
          · exact ih he x e1
        · simp [hy] at he
    exact hz (key ds e d hm)
  simp only [Path.phoneStr, withHeader, bcdConvert_bcdOf _ hev hdig, dropWhile_map_digit _ hdig, hdrop]
  rw [if_neg (by simpa using hne)]

/-! ### the template frame of `WithHeader` (2011/2013 layout) is well-formed for every phone -/
theorem template2013_decodes (ds : List Nat) (hp : ValidPhone 2 ds) :
    ∃ ck, decode (template2013 ds) = .ok { h := withHeader 2 ds, body := [], verify := ck } := by
  obtain ⟨hl, hd⟩ := hp
  have hlen : (bcdOf (padDigits 12 ds)).length = 6 := by
    rw [bcdOf_length, padDigits_length 12 ds (by simpa [width] using hl)]
  have hns := bcdOf_no_special (padDigits 12 ds) (padDigits_digits 12 ds hd)
  let d : Bytes := [0x00, 0x02, 0x00, 0x00] ++ bcdOf (padDigits 12 ds) ++ [0x00, 0x00]
  have hdplain : ∀ x ∈ d, x ≠ 0x7d ∧ x ≠ 0x7e := by
    intro x hx
    simp only [d, List.mem_append, List.mem_cons, List.not_mem_nil, or_false] at hx
    rcases hx with (hx | hx) | hx
    · rcases hx with e | e | e | e <;> subst e <;> decide
    · exact hns x hx
    · rcases hx with e | e <;> subst e <;> decide
  -- the hand-made frame is `escape (d ++ [checksum])`
  have htemp : template2013 ds = escape (d ++ [xorAll d]) := by
    simp only [template2013, escape, escBody_append, escBody_plain d hdplain]
    have : escBody [xorAll d] = (if xorAll d = 0x7e then [0x7d, 0x02] else if xorAll d = 0x7d then [0x7d, 0x01] else [xorAll d]) := by
      simp only [escBody]
    rw [this]
    simp only [d, List.append_assoc, List.cons_append, List.nil_append]
  refine ⟨xorAll d, ?_⟩
  rw [htemp]
  unfold decode
  rw [unescape_escape _ (by simp)]
  simp only
  rw [if_neg (by simp [xorAll_append_self])]
  have hlay : d ++ [xorAll d] = layout 0x00 0x02 0x00 0x00 [] (bcdOf (padDigits 12 ds)) 0x00 0x00 [] [] (xorAll d) := by
    simp [d, layout]
  rw [hlay, decodePlain_layout 0x00 0x02 0x00 0x00 [] _ 0x00 0x00 [] [] _ 0 0 (by decide) (by decide) (by decide) rfl
    (by simpa using hlen) rfl]
  simp [withHeader, be16, width]

/-! ### the default command table (regenerated by executing the simulator) -/
/-- every default body fits a single frame, every command ID is a non-zero 16-bit value: the hypotheses of
`generated_frame_decodes` hold for `CreateDefaultCommandData` of every command and version -/
theorem default_bodies_fit : ∀ e ∈ Gen.termDefaults, e.2.2.2.length ≤ 1023 ∧ 0 < e.2.1 ∧ e.2.1 < 65536 := by
  decide +kernel

/-- **The simulator and the server agree on the reply ID** of every command that the simulator can generate and
the server answers (both tables regenerated from the code on every run) -/
theorem reply_ids_agree : ∀ e ∈ Gen.termDefaults, ∀ r ∈ Gen.replyTable,
    r.1 = e.2.1 → r.2.1 = true → r.2.2 = e.2.2.1 := by
  decide +kernel

/-- Non-vacuity -/
example : ValidPhone 2 [1, 3, 8, 0, 0, 1, 3, 8, 0, 0, 0] := ⟨by decide, by decide⟩
example : (withHeader 2 [1, 3, 8]).bcd = [0, 0, 0, 0, 0x01, 0x38] := by decide

end JT.C20
