/-!
# Bytes, big-endian readers, hex I/O, outcome type

Core-only (no Mathlib) so that everything under `JT/Model`, `JT/Spec` and `Driver` links into a
native executable.
-/
namespace JT

abbrev Byte := UInt8
abbrev Bytes := List Byte

/-- Outcome of a Go function: a value, a returned `error`, or a run-time panic
(index out of range, slice bounds out of range, nil dereference …). A panic is an explicit
outcome so that "never panics" is a theorem and not a by-product of totalisation. -/
inductive Res (α : Type) where
  | ok (a : α)
  | err
  | panic
deriving Repr, DecidableEq

namespace Res
@[inline] def bind {α β} (x : Res α) (f : α → Res β) : Res β :=
  match x with
  | .ok a => f a
  | .err => .err
  | .panic => .panic
instance : Monad Res where
  pure := .ok
  bind := Res.bind
def isOk {α} : Res α → Bool
  | .ok _ => true
  | _ => false
def toOption {α} : Res α → Option α
  | .ok a => some a
  | _ => none
@[simp] theorem bind_ok {α β} (a : α) (f : α → Res β) : (Res.ok a >>= f) = f a := rfl
@[simp] theorem bind_err {α β} (f : α → Res β) : ((Res.err : Res α) >>= f) = .err := rfl
@[simp] theorem bind_panic {α β} (f : α → Res β) : ((Res.panic : Res α) >>= f) = .panic := rfl
@[simp] theorem pure_eq {α} (a : α) : (pure a : Res α) = .ok a := rfl
end Res

/-- XOR of all bytes (`utils.CreateVerifyCode`). -/
def xorAll : Bytes → Byte
  | [] => 0
  | b :: r => b ^^^ xorAll r

/-- big-endian 16-bit value of the first two bytes (`binary.BigEndian.Uint16`), as a `Nat`. -/
def be16 (hi lo : Byte) : Nat := hi.toNat * 256 + lo.toNat
def be32 (a b c d : Byte) : Nat := ((a.toNat * 256 + b.toNat) * 256 + c.toNat) * 256 + d.toNat

def beN : Bytes → Nat
  | bs => bs.foldl (fun acc b => acc * 256 + b.toNat) 0

/-- `n` as `k` big-endian bytes (truncating, like Go's `PutUintN(uintN(n))`). -/
def toBE : Nat → Nat → Bytes
  | 0, _ => []
  | k + 1, n => UInt8.ofNat (n / 256 ^ k % 256) :: toBE k n

/-! ### hex -/
def hexDigit (n : Nat) : Char :=
  if n < 10 then Char.ofNat (48 + n) else Char.ofNat (87 + n)

def byteHex (b : Byte) : String :=
  String.ofList [hexDigit (b.toNat / 16), hexDigit (b.toNat % 16)]

def toHex (bs : Bytes) : String :=
  String.ofList (bs.flatMap fun b => [hexDigit (b.toNat / 16), hexDigit (b.toNat % 16)])

def hexVal (c : Char) : Option Nat :=
  if '0' ≤ c ∧ c ≤ '9' then some (c.toNat - 48)
  else if 'a' ≤ c ∧ c ≤ 'f' then some (c.toNat - 87)
  else if 'A' ≤ c ∧ c ≤ 'F' then some (c.toNat - 55)
  else none

def hexChars : List Char → Option Bytes
  | [] => some []
  | [_] => none
  | a :: b :: r => do
    let x ← hexVal a
    let y ← hexVal b
    let t ← hexChars r
    pure (UInt8.ofNat (x * 16 + y) :: t)

/-- `"-"` denotes the empty string so that every argument is a non-empty token. -/
def ofHex (s : String) : Option Bytes :=
  if s = "-" then some [] else hexChars s.toList

def hexOrDash (bs : Bytes) : String := if bs.isEmpty then "-" else toHex bs

/-- `utils.Bcd2Dec` before the leading-zero strip: two lower-case hex characters per byte. -/
def bcdChars (bs : Bytes) : List Char :=
  bs.flatMap fun b => [hexDigit (b.toNat / 16), hexDigit (b.toNat % 16)]

/-- `utils.Bcd2Dec`: hex string without leading zeros; all-zero input yields the full string. -/
def bcd2dec (bs : Bytes) : String :=
  let cs := bcdChars bs
  let stripped := cs.dropWhile (· = '0')
  if stripped.isEmpty then String.ofList cs else String.ofList stripped

end JT
