import JT.Model.Codec4
import JT.Proof.AttStream
/-!
# Which `Parse` of `JT/Model/Codec4.lean` can panic

* `parseExt64`, `parseExt65`, `parseExt67`, `parseExt70` never panic, for every dialect and every content
  (`parseExtNN_ne_panic`); more precisely they accept exactly the contents of their one fixed length (`parseExtNN_eq`).
* `parseExt66` DOES panic at HEAD. `parseExt66_panic_iff` characterises the panicking contents exactly as the decidable
  predicate `ext66Panics content` (`len(content) = 40 + 9·n`, `n` the count byte `content[40]`, read as 0 when absent),
  so `parseExt66_ne_panic` carries the hypothesis `ext66Panics content = false` and no weaker hypothesis would do.
  Since the only length the code accepts for a count `n` is a panicking one, `parseExt66` never returns `ok`
  (`parseExt66_ne_ok`): at HEAD extension 0x66 either rejects the item or panics.
  `ext66Items_ok` records that the loop itself is in range as soon as `41 + 9·n ≤ len(content)`.
-/
namespace JT.Codec4
open JT
open JT.Layout (slice)
open JT.AttStream (idx Dialect dialectOf parseSign slice_eq idx_eq parseSign_ok)

theorem slice_len (b : Bytes) (lo hi : Nat) (h1 : lo ≤ hi) (h2 : hi ≤ b.length) :
    ((b.drop lo).take (hi - lo)).length = hi - lo := by
  simp; omega

theorem idx_panic (b : Bytes) (i : Nat) (h : b.length ≤ i) : idx b i = .panic := by
  simp [idx, List.getElem?_eq_none h]

theorem slice_panic (b : Bytes) (lo hi : Nat) (h : b.length < hi) : slice b lo hi = .panic := by
  have : ¬ (lo ≤ hi ∧ hi ≤ b.length) := by omega
  simp [slice, this]

/-! ### the shared base block -/
theorem bin16_length (v : Nat) : (bin16 v).length = 16 := by simp [bin16]

/-- the seven indexes into `fmt.Sprintf("%.16b", v)` are in range -/
theorem parseTable18_ok (v : Nat) : parseTable18 v = .ok () := by
  unfold parseTable18
  have h := bin16_length v
  generalize bin16 v = data at h
  simp only
  rw [idx_eq data 15 (by omega), Res.bind_ok, idx_eq data 14 (by omega), Res.bind_ok, idx_eq data 13 (by omega),
    Res.bind_ok, idx_eq data 12 (by omega), Res.bind_ok, idx_eq data 11 (by omega), Res.bind_ok,
    idx_eq data 10 (by omega), Res.bind_ok, idx_eq data 5 (by omega), Res.bind_ok]
  rfl

/-- `T0x0200ExtensionSBBase.parse` is in range on 35 bytes (or more), whatever the dialect -/
theorem parseBase_ok (dl : Dialect) (data : Bytes) (h : 35 ≤ data.length) : parseBase dl data = .ok () := by
  unfold parseBase
  rw [idx_eq data 0 (by omega), Res.bind_ok, slice_eq data 1 3 (by omega) (by omega), Res.bind_ok,
    slice_eq data 3 7 (by omega) (by omega), Res.bind_ok, slice_eq data 7 11 (by omega) (by omega), Res.bind_ok,
    slice_eq data 11 17 (by omega) (by omega), Res.bind_ok, slice_eq data 17 19 (by omega) (by omega), Res.bind_ok,
    parseTable18_ok, Res.bind_ok, slice_eq data 19 35 (by omega) (by omega), Res.bind_ok, parseSign_ok, Res.bind_ok]
  rfl

/-- … and it does panic on a shorter block: it has no guard of its own -/
example : parseBase (dialectOf 1) (List.replicate 34 0) = .panic := by decide

/-! ### 0x64 -/
theorem parseExt64_eq (dl : Dialect) (content : Bytes) :
    parseExt64 dl content = if content.length = 47 then .ok () else .err := by
  unfold parseExt64
  split
  · next h =>
    rw [slice_eq content 0 4 (by omega) (by omega), Res.bind_ok, idx_eq content 4 (by omega), Res.bind_ok,
      idx_eq content 5 (by omega), Res.bind_ok, idx_eq content 6 (by omega), Res.bind_ok,
      idx_eq content 7 (by omega), Res.bind_ok, idx_eq content 8 (by omega), Res.bind_ok,
      idx_eq content 9 (by omega), Res.bind_ok, idx_eq content 10 (by omega), Res.bind_ok,
      idx_eq content 11 (by omega), Res.bind_ok, slice_eq content 12 47 (by omega) (by omega), Res.bind_ok,
      parseBase_ok dl _ (by rw [slice_len content 12 47 (by omega) (by omega)]; omega)]
  · rfl

theorem parseExt64_ne_panic (dl : Dialect) (content : Bytes) : parseExt64 dl content ≠ .panic := by
  rw [parseExt64_eq]; split <;> simp

/-! ### 0x65 -/
theorem parseExt65_eq (dl : Dialect) (content : Bytes) :
    parseExt65 dl content = if content.length = 47 then .ok () else .err := by
  unfold parseExt65
  split
  · next h =>
    rw [slice_eq content 0 4 (by omega) (by omega), Res.bind_ok, idx_eq content 4 (by omega), Res.bind_ok,
      idx_eq content 5 (by omega), Res.bind_ok, idx_eq content 6 (by omega), Res.bind_ok,
      idx_eq content 7 (by omega), Res.bind_ok, slice_eq content 8 12 (by omega) (by omega), Res.bind_ok,
      slice_eq content 12 47 (by omega) (by omega), Res.bind_ok,
      parseBase_ok dl _ (by rw [slice_len content 12 47 (by omega) (by omega)]; omega)]
  · rfl

theorem parseExt65_ne_panic (dl : Dialect) (content : Bytes) : parseExt65 dl content ≠ .panic := by
  rw [parseExt65_eq]; split <;> simp

/-! ### 0x67 -/
theorem parseExt67_eq (dl : Dialect) (content : Bytes) :
    parseExt67 dl content = if content.length = 41 then .ok () else .err := by
  unfold parseExt67
  split
  · next h =>
    rw [slice_eq content 0 4 (by omega) (by omega), Res.bind_ok, idx_eq content 4 (by omega), Res.bind_ok,
      idx_eq content 5 (by omega), Res.bind_ok, slice_eq content 6 41 (by omega) (by omega), Res.bind_ok,
      parseBase_ok dl _ (by rw [slice_len content 6 41 (by omega) (by omega)]; omega)]
  · rfl

theorem parseExt67_ne_panic (dl : Dialect) (content : Bytes) : parseExt67 dl content ≠ .panic := by
  rw [parseExt67_eq]; split <;> simp

/-! ### 0x70 -/
theorem parseExt70_eq (dl : Dialect) (content : Bytes) :
    parseExt70 dl content = if content.length = 47 then .ok () else .err := by
  unfold parseExt70
  split
  · next h =>
    rw [slice_eq content 0 4 (by omega) (by omega), Res.bind_ok, idx_eq content 4 (by omega), Res.bind_ok,
      idx_eq content 5 (by omega), Res.bind_ok, slice_eq content 6 8 (by omega) (by omega), Res.bind_ok,
      slice_eq content 8 10 (by omega) (by omega), Res.bind_ok, slice_eq content 10 12 (by omega) (by omega),
      Res.bind_ok, slice_eq content 12 47 (by omega) (by omega), Res.bind_ok,
      parseBase_ok dl _ (by rw [slice_len content 12 47 (by omega) (by omega)]; omega)]
  · rfl

theorem parseExt70_ne_panic (dl : Dialect) (content : Bytes) : parseExt70 dl content ≠ .panic := by
  rw [parseExt70_eq]; split <;> simp

/-! ### 0x66 -/
/-- the loop is in range when the content reaches `start + 9n` (with `start = 41`: `41 + 9n ≤ len(content)`, the
length the guard should have asked for) -/
theorem ext66Items_ok (content : Bytes) :
    ∀ (n start : Nat), start + n * 9 ≤ content.length → ext66Items content n start = .ok ()
  | 0, _, _ => by simp [ext66Items]
  | n + 1, start, h => by
    unfold ext66Items
    rw [idx_eq content start (by omega), Res.bind_ok, slice_eq content _ _ (by omega) (by omega), Res.bind_ok,
      slice_eq content _ _ (by omega) (by omega), Res.bind_ok, slice_eq content _ _ (by omega) (by omega),
      Res.bind_ok, slice_eq content _ _ (by omega) (by omega), Res.bind_ok]
    exact ext66Items_ok content n (start + 9) (by omega)

/-- the loop panics when the content is ONE byte short of `start + 9n` (with `start = 41`: `len(content) = 40 + 9n`,
the length the guard does ask for): all rounds but the last are in range, the last one reads
`content[start+7:start+9]` with `start + 9 = len(content) + 1` -/
theorem ext66Items_panic (content : Bytes) :
    ∀ (n start : Nat), 1 ≤ n → start + n * 9 = content.length + 1 → ext66Items content n start = .panic
  | 0, _, h1, _ => by omega
  | 1, start, _, h => by
    unfold ext66Items
    rw [idx_eq content start (by omega), Res.bind_ok, slice_eq content _ _ (by omega) (by omega), Res.bind_ok,
      slice_eq content _ _ (by omega) (by omega), Res.bind_ok, slice_eq content _ _ (by omega) (by omega),
      Res.bind_ok, slice_panic content _ _ (by omega)]
    rfl
  | n + 2, start, _, h => by
    unfold ext66Items
    rw [idx_eq content start (by omega), Res.bind_ok, slice_eq content _ _ (by omega) (by omega), Res.bind_ok,
      slice_eq content _ _ (by omega) (by omega), Res.bind_ok, slice_eq content _ _ (by omega) (by omega),
      Res.bind_ok, slice_eq content _ _ (by omega) (by omega), Res.bind_ok]
    exact ext66Items_panic content (n + 1) (start + 9) (by omega) (by omega)

/-- the part of `parseExt66` before `content[40]` is in range under the guard `len(content) >= 40` -/
theorem parseExt66_unfold (dl : Dialect) (content : Bytes) (h : 40 ≤ content.length) :
    parseExt66 dl content =
      (idx content 40 >>= fun cnt =>
        if content.length = 40 + cnt.toNat * 9 then ext66Items content cnt.toNat 41 else .err) := by
  unfold parseExt66
  rw [if_pos h, slice_eq content 0 4 (by omega) (by omega), Res.bind_ok, idx_eq content 4 (by omega), Res.bind_ok,
    slice_eq content 5 40 (by omega) (by omega), Res.bind_ok,
    parseBase_ok dl _ (by rw [slice_len content 5 40 (by omega) (by omega)]; omega), Res.bind_ok]

/-- EXACTLY the contents of `ext66Panics` make `T0x0200AdditionExtension0x66.Parse` panic, in every dialect -/
theorem parseExt66_panic_iff (dl : Dialect) (content : Bytes) :
    parseExt66 dl content = .panic ↔ ext66Panics content = true := by
  unfold ext66Panics
  rw [beq_iff_eq]
  by_cases h40 : content.length < 40
  · have : parseExt66 dl content = .err := by
      unfold parseExt66
      rw [if_neg (by omega)]
    rw [this]
    constructor
    · intro h; cases h
    · intro h; omega
  · rw [parseExt66_unfold dl content (by omega)]
    by_cases h41 : content.length = 40
    · -- `content[40]` is out of range
      rw [idx_panic content 40 (by omega)]
      have hd : content.getD 40 0 = 0 := by
        rw [List.getD_eq_getElem?_getD, List.getElem?_eq_none (by omega)]; rfl
      rw [hd]
      constructor
      · intro _; rw [h41]; rfl
      · intro _; rfl
    · have hlt : 40 < content.length := by omega
      rw [idx_eq content 40 hlt, Res.bind_ok]
      have hd : content.getD 40 0 = content[40] := by
        rw [List.getD_eq_getElem?_getD, List.getElem?_eq_getElem hlt]; rfl
      rw [hd]
      by_cases hl : content.length = 40 + content[40].toNat * 9
      · rw [if_pos hl]
        constructor
        · intro _; exact hl
        · intro _; exact ext66Items_panic content _ 41 (by omega) (by omega)
      · rw [if_neg hl]
        constructor
        · intro h; cases h
        · intro h; exact absurd h hl

/-- no panic outside `ext66Panics`; by `parseExt66_panic_iff` the hypothesis cannot be weakened -/
theorem parseExt66_ne_panic (dl : Dialect) (content : Bytes) (h : ext66Panics content = false) :
    parseExt66 dl content ≠ .panic := by
  intro hp
  rw [(parseExt66_panic_iff dl content).mp hp] at h
  cases h

/-- at HEAD extension 0x66 never accepts an item: a content that is not rejected panics -/
theorem parseExt66_ne_ok (dl : Dialect) (content : Bytes) : parseExt66 dl content ≠ .ok () := by
  by_cases hp : ext66Panics content = true
  · rw [(parseExt66_panic_iff dl content).mpr hp]; intro h; cases h
  · unfold ext66Panics at hp
    rw [beq_iff_eq] at hp
    by_cases h40 : content.length < 40
    · unfold parseExt66
      rw [if_neg (by omega)]; intro h; cases h
    · rw [parseExt66_unfold dl content (by omega)]
      by_cases h41 : content.length = 40
      · rw [idx_panic content 40 (by omega)]; intro h; cases h
      · have hlt : 40 < content.length := by omega
        have hd : content.getD 40 0 = content[40] := by
          rw [List.getD_eq_getElem?_getD, List.getElem?_eq_getElem hlt]; rfl
        rw [hd] at hp
        rw [idx_eq content 40 hlt, Res.bind_ok, if_neg hp]; intro h; cases h

/-! #### concrete panicking contents (dialect 1 = JS; the dialect does not matter) -/
/-- 40 bytes pass the guard `len(content) >= 40`; `content[40]` is out of range -/
theorem parseExt66_panic_len40 : parseExt66 (dialectOf 1) (List.replicate 40 0) = .panic := by decide
example : parseExt66 (dialectOf 1) (List.replicate 40 0) = .panic := by decide
example : parseExt66 (dialectOf 2) (List.replicate 40 0) = .panic := by decide
/-- count 1 in 49 = 40 + 9·1 bytes: the single round reads `content[48:50]` -/
theorem parseExt66_panic_count1 :
    parseExt66 (dialectOf 1) (List.replicate 40 0 ++ 1 :: List.replicate 8 0) = .panic := by decide
example : parseExt66 (dialectOf 1) (List.replicate 40 0 ++ 1 :: List.replicate 8 0) = .panic := by decide
/-- count 2 in 58 = 40 + 9·2 bytes: the first round is in range, the second reads `content[57:59]` -/
example : parseExt66 (dialectOf 3) (List.replicate 40 0 ++ 2 :: List.replicate 17 0) = .panic := by decide
/-- the lengths next to them are rejected, not accepted: 41 bytes with count 0, and the "right" 50 bytes with count 1 -/
example : parseExt66 (dialectOf 1) (List.replicate 41 0) = .err := by decide
example : parseExt66 (dialectOf 1) (List.replicate 40 0 ++ 1 :: List.replicate 9 0) = .err := by decide
example : ext66Panics (List.replicate 40 0) = true := by decide
example : ext66Panics (List.replicate 40 0 ++ 1 :: List.replicate 8 0) = true := by decide
example : ext66Panics (List.replicate 41 0) = false := by decide

/-! ### the five dialects by number, as the validation driver calls the models -/
theorem parseExt64_ne_panic_no (n : Nat) (c : Bytes) : parseExt64 (dialectOf n) c ≠ .panic := parseExt64_ne_panic _ c
theorem parseExt65_ne_panic_no (n : Nat) (c : Bytes) : parseExt65 (dialectOf n) c ≠ .panic := parseExt65_ne_panic _ c
theorem parseExt67_ne_panic_no (n : Nat) (c : Bytes) : parseExt67 (dialectOf n) c ≠ .panic := parseExt67_ne_panic _ c
theorem parseExt70_ne_panic_no (n : Nat) (c : Bytes) : parseExt70 (dialectOf n) c ≠ .panic := parseExt70_ne_panic _ c
theorem parseExt66_ne_panic_no (n : Nat) (c : Bytes) (h : ext66Panics c = false) :
    parseExt66 (dialectOf n) c ≠ .panic := parseExt66_ne_panic _ c h

end JT.Codec4
