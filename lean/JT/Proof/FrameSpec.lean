import JT.Spec.Frame
import JT.Proof.Frame
/-! Helper lemmas relating the frame model to the declarative frame specification (used by C02, C04). -/
namespace JT.C02
open JT JT.Frame JT.Spec

theorem escaped_of_unescBody : ∀ (w p : Bytes), unescBody w = some p → Escaped w p
  | [], p, h => by simp [unescBody] at h; subst h; exact .nil
  | [b], p, h => by
    simp [unescBody] at h; subst h
    by_cases hb : b = 0x7d
    · subst hb; exact .lone7d
    · exact .plain b hb .nil
  | b :: c :: r, p, h => by
    unfold unescBody at h
    split at h
    · next hb =>
      subst hb
      split at h
      · next hc =>
        subst hc
        cases hr : unescBody r with
        | none => simp [hr] at h
        | some q => simp [hr] at h; subst h; exact .esc7d (escaped_of_unescBody r q hr)
      · split at h
        · next _ hc =>
          subst hc
          cases hr : unescBody r with
          | none => simp [hr] at h
          | some q => simp [hr] at h; subst h; exact .esc7e (escaped_of_unescBody r q hr)
        · cases h
    · next hb =>
      cases hr : unescBody (c :: r) with
      | none => simp [hr] at h
      | some q => simp [hr] at h; subst h; exact .plain b hb (escaped_of_unescBody (c :: r) q hr)

theorem unescBody_of_escaped {w p : Bytes} (h : Escaped w p) : unescBody w = some p := by
  induction h with
  | nil => rfl
  | lone7d => rfl
  | plain b hb _ ih => rw [unescBody_cons_ne _ _ hb, ih]; rfl
  | esc7d _ ih => simp [unescBody, ih]
  | esc7e _ ih => simp [unescBody, ih]

theorem unescBody_iff (w p : Bytes) : unescBody w = some p ↔ Escaped w p :=
  ⟨escaped_of_unescBody w p, unescBody_of_escaped⟩

theorem inner_iff (f w : Bytes) : inner? f = some w ↔ (f = 0x7e :: (w ++ [0x7e]) ∧ w ≠ []) := by
  constructor
  · intro h
    cases f with
    | nil => simp [inner?] at h
    | cons b r =>
      simp only [inner?] at h
      split at h
      · next hc =>
        obtain ⟨hb, hlen, hlast⟩ := hc
        injection h with h
        subst hb
        have hr : r ≠ [] := by intro he; subst he; simp at hlen
        have hgl : r.getLast hr = 0x7e := by
          rw [List.getLast?_eq_some_getLast hr] at hlast; injection hlast
        have := List.dropLast_concat_getLast hr
        rw [hgl, h] at this
        refine ⟨by rw [this], ?_⟩
        intro he; subst he
        have : r.dropLast.length = 0 := by rw [h]; rfl
        simp at this; omega
      · cases h
  · rintro ⟨rfl, hne⟩
    have : 1 ≤ w.length := by cases w with | nil => exact absurd rfl hne | cons _ _ => simp
    simp [inner?]; omega

theorem be16_lt (a b : Byte) : be16 a b < 65536 := by
  unfold be16; have := UInt8.toNat_lt a; have := UInt8.toNat_lt b; omega

theorem toBE_be16 (a b : Byte) : toBE 2 (be16 a b) = [a, b] := by
  have ha := UInt8.toNat_lt a; have hb := UInt8.toNat_lt b
  rw [toBE_two]
  have h1 : be16 a b / 256 % 256 = a.toNat := by unfold be16; omega
  have h2 : be16 a b % 256 = b.toNat := by unfold be16; omega
  rw [h1, h2]; simp

theorem split_last : ∀ (rest : Bytes) (n : Nat), n + 1 = rest.length → rest = rest.take n ++ [rest.getD n 0]
  | [], n, h => by simp at h
  | [x], 0, _ => by simp
  | [x], n + 1, h => by simp at h
  | x :: y :: r, 0, h => by simp at h
  | x :: y :: r, n + 1, h => by
    have := split_last (y :: r) n (by simpa using h)
    simp only [List.take_succ_cons, List.cons_append, List.getD_cons_succ]
    rw [← this]

theorem split_at (p : Bytes) (n : Nat) (h : n ≤ p.length) : ∃ l r, p = l ++ r ∧ l.length = n :=
  ⟨p.take n, p.drop n, (List.take_append_drop n p).symm, by simp; omega⟩

theorem len4 (l : Bytes) (h : l.length = 4) : ∃ a b c d, l = [a, b, c, d] := by
  match l, h with
  | [a, b, c, d], _ => exact ⟨_, _, _, _, rfl⟩
theorem len2 (l : Bytes) (h : l.length = 2) : ∃ a b, l = [a, b] := by
  match l, h with
  | [a, b], _ => exact ⟨_, _, rfl⟩

/-- the exact length a successfully decoded plain string has -/
theorem decodePlain_len (p : Bytes) (m : Msg) (hd : decodePlain p = .ok m) :
    4 ≤ p.length ∧
    p.length = 4 + be16 (p.getD 2 0) (p.getD 3 0) / 16384 % 2
      + (if be16 (p.getD 2 0) (p.getD 3 0) / 16384 % 2 = 1 then 10 else 6) + 2
      + 4 * (be16 (p.getD 2 0) (p.getD 3 0) / 8192 % 2) + be16 (p.getD 2 0) (p.getD 3 0) % 1024 + 1 := by
  unfold decodePlain at hd
  by_cases hv : be16 (p.getD 2 0) (p.getD 3 0) / 16384 % 2 = 1 <;>
  by_cases hf : be16 (p.getD 2 0) (p.getD 3 0) / 8192 % 2 = 1 <;>
  simp only [hv, hf, if_true, if_false, true_and, false_and] at hd <;>
  (repeat' (split at hd)) <;> first | cases hd | skip
  all_goals
    simp only [hv, hf, if_true, if_false]
    omega

/-- every successfully decoded plain string is in layout form -/
theorem layout_form (p : Bytes) (m : Msg) (hd : decodePlain p = .ok m) :
    ∃ i0 i1 a0 a1 ver bcd s0 s1 pkg body ck,
      p = layout i0 i1 a0 a1 ver bcd s0 s1 pkg body ck ∧
      ver.length = be16 a0 a1 / 16384 % 2 ∧
      bcd.length = (if be16 a0 a1 / 16384 % 2 = 1 then 10 else 6) ∧
      pkg.length = 4 * (be16 a0 a1 / 8192 % 2) ∧
      body.length = be16 a0 a1 % 1024 := by
  obtain ⟨h4, hlen⟩ := decodePlain_len p m hd
  obtain ⟨l4, r1, rfl, hl4⟩ := split_at p 4 h4
  obtain ⟨i0, i1, a0, a1, rfl⟩ := len4 l4 hl4
  simp only [List.cons_append, List.nil_append, List.getD_cons_succ, List.getD_cons_zero, List.length_cons] at hlen
  obtain ⟨ver, r2, rfl, hver⟩ := split_at r1 (be16 a0 a1 / 16384 % 2) (by omega)
  obtain ⟨bcd, r3, rfl, hbcd⟩ := split_at r2 (if be16 a0 a1 / 16384 % 2 = 1 then 10 else 6) (by simp at hlen; omega)
  obtain ⟨ser, r4, rfl, hser⟩ := split_at r3 2 (by simp at hlen; omega)
  obtain ⟨s0, s1, rfl⟩ := len2 ser hser
  obtain ⟨pkg, r5, rfl, hpkg⟩ := split_at r4 (4 * (be16 a0 a1 / 8192 % 2)) (by simp at hlen; omega)
  have hr5 : be16 a0 a1 % 1024 + 1 = r5.length := by simp at hlen; omega
  have hsp := split_last r5 _ hr5
  refine ⟨i0, i1, a0, a1, ver, bcd, s0, s1, pkg, r5.take (be16 a0 a1 % 1024), r5.getD (be16 a0 a1 % 1024) 0, ?_, hver, hbcd, hpkg, ?_⟩
  · simp only [layout, List.cons_append, List.nil_append, ← hsp]
  · simp; omega

end JT.C02
