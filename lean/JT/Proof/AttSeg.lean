import JT.Proof.AttStream
/-!
# The attachment connection loop does not depend on how the byte stream is cut into reads

Prefix stability of one processing round (`stepIter_app`): once a round has produced an event or failed on the
buffered bytes, it produces the same outcome when more bytes are already buffered behind them. From this,
processing `r₁` and then `r₂` is the same as processing `r₁ ++ r₂` at once (`iter_app`), hence any partition of a
stream into reads yields the same events and the same final verdict (`JT.C15.segmentation_independent`).
-/
namespace JT.AttStream
open JT
open JT.Layout (slice)

def Sess.app (s : Sess) (x : Bytes) : Sess := { s with hist := s.hist ++ x }

@[simp] theorem app_hist (s : Sess) (x : Bytes) : (s.app x).hist = s.hist ++ x := rfl
@[simp] theorem app_recs (s : Sess) (x : Bytes) : (s.app x).recs = s.recs := rfl
@[simp] theorem app_current (s : Sess) (x : Bytes) : (s.app x).current = s.current := rfl
@[simp] theorem app_lastMsg (s : Sess) (x : Bytes) : (s.app x).lastMsg = s.lastMsg := rfl

theorem slice_app (b x : Bytes) (lo hi : Nat) (h1 : lo ≤ hi) (h2 : hi ≤ b.length) :
    slice (b ++ x) lo hi = slice b lo hi := by
  rw [slice_eq (b ++ x) lo hi h1 (by simp; omega), slice_eq b lo hi h1 h2]
  congr 1
  rw [List.drop_append_of_le_length (by omega), List.take_append_of_le_length (by simp; omega)]

theorem slice_app_rest (b x : Bytes) (k : Nat) (h : k ≤ b.length) :
    slice (b ++ x) k (b ++ x).length = .ok (b.drop k ++ x) := by
  rw [slice_eq (b ++ x) k _ (by simp; omega) (Nat.le_refl _)]
  congr 1
  rw [List.drop_append_of_le_length h]
  apply List.take_of_length_le
  simp; omega

theorem idx_app (b x : Bytes) (i : Nat) (h : i < b.length) : idx (b ++ x) i = idx b i := by
  rw [idx_eq (b ++ x) i (by simp; omega), idx_eq b i h, List.getElem_append_left h]

theorem be32At_app (b x : Bytes) (i : Nat) (h : i + 4 ≤ b.length) : be32At (b ++ x) i = be32At b i := by
  simp only [be32At, slice_app b x i (i + 4) (by omega) h]

theorem hasStream_app (b x : Bytes) (h : 4 ≤ b.length) : hasStream (b ++ x) = hasStream b := by
  simp only [hasStream, List.take_append_of_le_length h]

theorem hasStream_len (b : Bytes) (h : hasStream b = true) : 4 ≤ b.length := by
  simp only [hasStream, marker, beq_iff_eq] at h
  have := congrArg List.length h
  simp only [List.length_take, List.length_cons, List.length_nil] at this
  omega

theorem hasMinHead_app (dl : Dialect) (b x : Bytes) (h : hasMinHead dl b = .ok true) :
    hasMinHead dl (b ++ x) = .ok true := by
  unfold hasMinHead at h ⊢
  by_cases hh : dl.hlj = true
  · simp only [hh, if_true] at h ⊢
    by_cases h5 : b.length < 5
    · simp [h5] at h
    · rw [if_neg h5, idx_eq b 4 (by omega)] at h
      simp only [Res.bind_ok, Res.pure_eq, Res.ok.injEq, decide_eq_true_eq] at h
      rw [if_neg (by simp; omega), idx_app b x 4 (by omega), idx_eq b 4 (by omega)]
      simp only [Res.bind_ok, Res.pure_eq, Res.ok.injEq, decide_eq_true_eq, List.length_append]
      omega
  · simp only [hh, Bool.false_eq_true, if_false, Res.ok.injEq, decide_eq_true_eq, List.length_append] at h ⊢
    omega

theorem parseHead_app (dl : Dialect) (b x : Bytes) (h : hasMinHead dl b = .ok true) :
    parseHead dl (b ++ x) = parseHead dl b := by
  have h' := hasMinHead_app dl b x h
  unfold hasMinHead at h
  unfold parseHead
  by_cases hh : dl.hlj = true
  · simp only [hh, if_true] at h ⊢
    by_cases h5 : b.length < 5
    · simp [h5] at h
    · rw [if_neg h5, idx_eq b 4 (by omega)] at h
      simp only [Res.bind_ok, Res.pure_eq, Res.ok.injEq, decide_eq_true_eq] at h
      rw [slice_app b x 0 4 (by omega) (by omega), slice_eq b 0 4 (by omega) (by omega), idx_app b x 4 (by omega),
        idx_eq b 4 (by omega)]
      simp only [Res.bind_ok]
      rw [slice_app b x 5 _ (by omega) (by omega), slice_eq b 5 _ (by omega) (by omega)]
      simp only [Res.bind_ok]
      rw [be32At_app b x _ (by omega), be32At_eq b _ (by omega)]
      simp only [Res.bind_ok]
      rw [be32At_app b x _ (by omega), be32At_eq b _ (by omega)]
      simp only [Res.bind_ok]
      rw [slice_eq (b ++ x) _ (b ++ x).length (by simp; omega) (Nat.le_refl _), slice_eq b _ b.length (by omega) (Nat.le_refl _)]
      simp only [Res.bind_ok]
  · simp only [hh, Bool.false_eq_true, if_false, Res.ok.injEq, decide_eq_true_eq] at h ⊢
    rw [slice_app b x 0 4 (by omega) (by omega), slice_eq b 0 4 (by omega) (by omega),
      slice_app b x 4 54 (by omega) (by omega), slice_eq b 4 54 (by omega) (by omega)]
    simp only [Res.bind_ok]
    rw [be32At_app b x 54 (by omega), be32At_eq b 54 (by omega), be32At_app b x 58 (by omega), be32At_eq b 58 (by omega)]
    simp only [Res.bind_ok]
    rw [slice_eq (b ++ x) 62 (b ++ x).length (by simp; omega) (Nat.le_refl _), slice_eq b 62 b.length (by omega) (Nat.le_refl _)]
    simp only [Res.bind_ok]

theorem position7e_app (b x : Bytes) (i : Nat) (h : position7e b = some i) : position7e (b ++ x) = some i := by
  unfold position7e at h ⊢
  rw [List.findIdx?_append, h]
  rfl

/-- bytes already buffered behind a unit do not change how the unit is processed -/
def Stable (dl : Dialect) (s : Sess) (x : Bytes) : Prop :=
  ∀ s' o, stepIter dl s = .ok (s', o) → o ≠ .needMore → stepIter dl (s.app x) = .ok (s'.app x, o)

theorem stageStream_app (dl : Dialect) (s : Sess) (x : Bytes) (s' : Sess) (o : Out)
    (h : stageStream dl s = .ok (s', o)) (hn : o ≠ .needMore) : stageStream dl (s.app x) = .ok (s'.app x, o) := by
  unfold stageStream at h ⊢
  rcases hasMinHead_cases dl s.hist with hm | hm
  · obtain ⟨hd, hp, hl1, hl2⟩ := parseHead_ok dl s.hist hm
    rw [hm] at h
    simp only [Res.bind_ok, Bool.not_true, Bool.false_eq_true, if_false, hp] at h
    simp only [app_hist, hasMinHead_app dl s.hist x hm, Res.bind_ok, Bool.not_true, Bool.false_eq_true, if_false,
      parseHead_app dl s.hist x hm, hp, app_recs, app_lastMsg]
    by_cases hlen : s.hist.length ≥ hd.headLen + hd.len
    · rw [if_pos hlen] at h
      have hlen' : (s.hist ++ x).length ≥ hd.headLen + hd.len := by simp; omega
      simp only [hlen', ↓reduceIte]
      cases hf : s.recs.find? (·.name = hd.name) with
      | none =>
        rw [hf] at h
        simp only [Res.pure_eq, Res.ok.injEq, Prod.mk.injEq] at h
        obtain ⟨h1, h2⟩ := h
        subst h1; subst h2
        rfl
      | some r =>
        rw [hf] at h
        simp only at h ⊢
        rw [slice_eq s.hist _ _ (by omega) (by omega), Res.bind_ok, slice_eq s.hist 0 _ (by omega) (by omega),
          Res.bind_ok, slice_eq s.hist _ s.hist.length (by omega) (by omega), Res.bind_ok] at h
        rw [slice_app s.hist x _ _ (by omega) (by omega), slice_eq s.hist _ _ (by omega) (by omega), Res.bind_ok,
          slice_app s.hist x 0 _ (by omega) (by omega), slice_eq s.hist 0 _ (by omega) (by omega), Res.bind_ok,
          slice_app_rest s.hist x _ (by omega), Res.bind_ok]
        simp only [Res.pure_eq, Res.ok.injEq, Prod.mk.injEq] at h ⊢
        obtain ⟨h1, h2⟩ := h
        subst h1; subst h2
        refine ⟨?_, rfl⟩
        simp only [Sess.app, Sess.mk.injEq, and_true, true_and]
        rw [List.take_of_length_le (by simp)]
    · rw [if_neg hlen] at h
      simp only [Res.pure_eq, Res.ok.injEq, Prod.mk.injEq] at h
      exact absurd h.2.symm hn
  · rw [hm] at h
    simp only [Res.bind_ok, Bool.not_false, if_true, Res.pure_eq, Res.ok.injEq, Prod.mk.injEq] at h
    exact absurd h.2.symm hn

theorem stageJT_app (dl : Dialect) (s : Sess) (x : Bytes) (s' : Sess) (o : Out)
    (h : stageJT dl s = .ok (s', o)) (hn : o ≠ .needMore) : stageJT dl (s.app x) = .ok (s'.app x, o) := by
  unfold stageJT at h ⊢
  by_cases h10 : s.hist.length < 10
  · rw [if_pos h10] at h
    simp only [Res.ok.injEq, Prod.mk.injEq] at h
    exact absurd h.2.symm hn
  · rw [if_neg h10, slice_eq s.hist 1 s.hist.length (by omega) (by omega), Res.bind_ok] at h
    have h10' : ¬ (s.app x).hist.length < 10 := by simp; omega
    rw [if_neg h10', app_hist, slice_app_rest s.hist x 1 (by omega), Res.bind_ok]
    have htail : (s.hist.drop 1).take (s.hist.length - 1) = s.hist.drop 1 :=
      List.take_of_length_le (by simp)
    rw [htail] at h
    cases hpos : position7e (s.hist.drop 1) with
    | none =>
      rw [hpos] at h
      simp only [Res.pure_eq, Res.ok.injEq, Prod.mk.injEq] at h
      exact absurd h.2.symm hn
    | some i =>
      have hi := position7e_lt _ i hpos
      simp only [List.length_drop] at hi
      rw [hpos] at h
      rw [position7e_app _ x i hpos]
      simp only at h ⊢
      rw [slice_eq s.hist 0 (i + 2) (by omega) (by omega), Res.bind_ok] at h
      rw [slice_app s.hist x 0 (i + 2) (by omega) (by omega), slice_eq s.hist 0 (i + 2) (by omega) (by omega), Res.bind_ok]
      cases hdec : Frame.decode ((s.hist.drop 0).take (i + 2 - 0)) with
      | panic => rw [hdec] at h; cases h
      | err =>
        rw [hdec] at h
        simp only [Res.pure_eq, Res.ok.injEq, Prod.mk.injEq] at h
        obtain ⟨h1, h2⟩ := h
        subst h1; subst h2
        rfl
      | ok m =>
        rw [hdec] at h
        simp only at h ⊢
        rw [slice_eq s.hist (i + 2) s.hist.length (by omega) (by omega), Res.bind_ok] at h
        rw [slice_app_rest s.hist x (i + 2) (by omega), Res.bind_ok]
        have hrest : (s.hist.drop (i + 2)).take (s.hist.length - (i + 2)) = s.hist.drop (i + 2) :=
          List.take_of_length_le (by simp)
        rw [hrest] at h
        by_cases c1 : m.h.id = 0x1210
        · rw [if_pos c1] at h ⊢
          cases hp : parse1210 dl m.body with
          | panic => rw [hp] at h; cases h
          | err =>
            rw [hp] at h
            simp only [Res.pure_eq, Res.ok.injEq, Prod.mk.injEq] at h ⊢
            obtain ⟨h1, h2⟩ := h
            subst h1; subst h2
            first | exact ⟨rfl, rfl⟩ | rfl
          | ok items =>
            rw [hp] at h
            simp only [Res.pure_eq, Res.ok.injEq, Prod.mk.injEq] at h ⊢
            obtain ⟨h1, h2⟩ := h
            subst h1; subst h2
            first | exact ⟨rfl, rfl⟩ | rfl
        · rw [if_neg c1] at h ⊢
          by_cases c2 : m.h.id = 0x1211
          · rw [if_pos c2] at h ⊢
            cases hp : parse1211 m.body with
            | panic => rw [hp] at h; cases h
            | err =>
              rw [hp] at h
              simp only [Res.pure_eq, Res.ok.injEq, Prod.mk.injEq] at h ⊢
              obtain ⟨h1, h2⟩ := h
              subst h1; subst h2
              first | exact ⟨rfl, rfl⟩ | rfl
            | ok v =>
              rw [hp] at h
              simp only [Res.pure_eq, Res.ok.injEq, Prod.mk.injEq] at h ⊢
              obtain ⟨h1, h2⟩ := h
              subst h1; subst h2
              first | exact ⟨rfl, rfl⟩ | rfl
          · rw [if_neg c2] at h ⊢
            by_cases c3 : m.h.id = 0x1212
            · rw [if_pos c3] at h ⊢
              cases hp : parse1211 m.body with
              | panic => rw [hp] at h; cases h
              | err =>
                rw [hp] at h
                simp only [Res.pure_eq, Res.ok.injEq, Prod.mk.injEq] at h ⊢
                obtain ⟨h1, h2⟩ := h
                subst h1; subst h2
                first | exact ⟨rfl, rfl⟩ | rfl
              | ok v =>
                obtain ⟨nm, ty, sz⟩ := v
                rw [hp] at h
                simp only at h ⊢
                cases hf : List.find? (fun r => decide (r.name = nm)) s.recs with
                | none =>
                  rw [hf] at h
                  simp only [app_recs, hf, Res.pure_eq, Res.ok.injEq, Prod.mk.injEq] at h ⊢
                  obtain ⟨h1, h2⟩ := h
                  subst h1; subst h2
                  first | exact ⟨rfl, rfl⟩ | rfl
                | some r =>
                  rw [hf] at h
                  simp only [app_recs, hf, Res.pure_eq, Res.ok.injEq, Prod.mk.injEq] at h ⊢
                  obtain ⟨h1, h2⟩ := h
                  subst h1; subst h2
                  first | exact ⟨rfl, rfl⟩ | rfl
            · rw [if_neg c3] at h ⊢
              simp only [Res.pure_eq, Res.ok.injEq, Prod.mk.injEq] at h ⊢
              obtain ⟨h1, h2⟩ := h
              subst h1; subst h2
              first | exact ⟨rfl, rfl⟩ | rfl

/-- **Prefix stability of one round.** -/
theorem stepIter_app (dl : Dialect) (s : Sess) (x : Bytes) (s' : Sess) (o : Out)
    (h : stepIter dl s = .ok (s', o)) (hn : o ≠ .needMore) : stepIter dl (s.app x) = .ok (s'.app x, o) := by
  unfold stepIter at h ⊢
  by_cases hs : hasStream s.hist = true
  · rw [if_pos hs] at h
    rw [app_hist, hasStream_app s.hist x (hasStream_len _ hs), if_pos hs]
    exact stageStream_app dl s x s' o h hn
  · rw [if_neg hs] at h
    -- the JT808 path produced an outcome other than "need more": at least 10 bytes are buffered
    have h10 : 10 ≤ s.hist.length := by
      apply Nat.le_of_not_lt
      intro hc
      unfold stageJT at h
      rw [if_pos hc] at h
      simp only [Res.ok.injEq, Prod.mk.injEq] at h
      exact hn h.2.symm
    rw [app_hist, hasStream_app s.hist x (by omega), if_neg hs]
    exact stageJT_app dl s x s' o h hn

/-! ### from one round to the whole buffer -/

theorem needMore_same (dl : Dialect) (s s' : Sess) (h : stepIter dl s = .ok (s', .needMore)) : s' = s := by
  unfold stepIter at h
  split at h
  · unfold stageStream at h
    rcases hasMinHead_cases dl s.hist with hm | hm
    · obtain ⟨hd, hp, _, _⟩ := parseHead_ok dl s.hist hm
      rw [hm] at h
      simp only [Res.bind_ok, Bool.not_true, Bool.false_eq_true, if_false, hp] at h
      split at h
      · cases hf : s.recs.find? (·.name = hd.name) with
        | none => rw [hf] at h; simp only [Res.pure_eq, Res.ok.injEq, Prod.mk.injEq] at h; cases h.2
        | some r =>
          rw [hf] at h
          simp only at h
          rw [slice_eq s.hist _ _ (by omega) (by omega), Res.bind_ok, slice_eq s.hist 0 _ (by omega) (by omega),
            Res.bind_ok, slice_eq s.hist _ s.hist.length (by omega) (by omega), Res.bind_ok] at h
          simp only [Res.pure_eq, Res.ok.injEq, Prod.mk.injEq] at h
          cases h.2
      · simp only [Res.pure_eq, Res.ok.injEq, Prod.mk.injEq] at h; exact h.1.symm
    · rw [hm] at h
      simp only [Res.bind_ok, Bool.not_false, if_true, Res.pure_eq, Res.ok.injEq, Prod.mk.injEq] at h
      exact h.1.symm
  · obtain ⟨s2, o2, hs2, _⟩ := stageJT_good dl s
    unfold stageJT at h
    by_cases h10 : s.hist.length < 10
    · rw [if_pos h10] at h; simp only [Res.ok.injEq, Prod.mk.injEq] at h; exact h.1.symm
    · rw [if_neg h10, slice_eq s.hist 1 s.hist.length (by omega) (by omega), Res.bind_ok] at h
      cases hpos : position7e ((s.hist.drop 1).take (s.hist.length - 1)) with
      | none => rw [hpos] at h; simp only [Res.pure_eq, Res.ok.injEq, Prod.mk.injEq] at h; exact h.1.symm
      | some i =>
        have hi := position7e_lt _ i hpos
        simp only [List.length_take, List.length_drop] at hi
        rw [hpos] at h
        simp only at h
        rw [slice_eq s.hist 0 (i + 2) (by omega) (by omega), Res.bind_ok] at h
        cases hdec : Frame.decode ((s.hist.drop 0).take (i + 2 - 0)) with
        | panic => rw [hdec] at h; cases h
        | err => rw [hdec] at h; simp only [Res.pure_eq, Res.ok.injEq, Prod.mk.injEq] at h; cases h.2
        | ok m =>
          rw [hdec] at h
          simp only at h
          rw [slice_eq s.hist (i + 2) s.hist.length (by omega) (by omega), Res.bind_ok] at h
          exfalso
          repeat' split at h
          all_goals first
            | (simp only [Res.pure_eq, Res.ok.injEq, Prod.mk.injEq] at h; cases h.2)
            | cases h

/-- the number of rounds is not the limit (copy of `C10.iter_fuel` for use in proofs) -/
theorem iter_fuel' (dl : Dialect) : ∀ (f1 f2 : Nat) (s : Sess) (acc : List Event), s.hist.length < f1 → s.hist.length < f2 →
    iter dl f1 s acc = iter dl f2 s acc
  | 0, _, _, _, h, _ => by omega
  | _, 0, _, _, _, h => by omega
  | f1 + 1, f2 + 1, s, acc, h1, h2 => by
    unfold iter
    by_cases he : s.hist = []
    · rw [if_pos he, if_pos he]
    · rw [if_neg he, if_neg he]
      obtain ⟨s', o, hs, hg⟩ := stepIter_good dl s
      rw [hs]
      cases o with
      | event e rp =>
        have := (hg e rp rfl).1
        exact iter_fuel' dl f1 f2 s' (e :: acc) (by omega) (by omega)
      | needMore => rfl
      | fail => rfl

/-- what the connection loop does after the buffer `s` has been extended by `x`, in terms of what it does on `s` alone:
a failure stays a failure, otherwise processing continues on the extended rest -/
theorem iter_app (dl : Dialect) (x : Bytes) : ∀ (f2 f1 f3 : Nat) (s : Sess) (acc : List Event),
    s.hist.length < f2 → (s.hist ++ x).length < f1 → (∀ t : Sess, t.hist.length ≤ (s.hist ++ x).length → t.hist.length < f3) →
    iter dl f1 (s.app x) acc =
      (match iter dl f2 s acc with
       | .ok (s1, evs1, true) => .ok (s1.app x, evs1, true)
       | .ok (s1, evs1, false) => iter dl f3 (s1.app x) evs1.reverse
       | r => r)
  | 0, _, _, _, _, h, _, _ => by omega
  | f2 + 1, f1, f3, s, acc, h2, h1, h3 => by
    have hf1 : f1 = (f1 - 1) + 1 := by omega
    by_cases he : s.hist = []
    · have : iter dl (f2 + 1) s acc = .ok (s, acc.reverse, false) := by unfold iter; rw [if_pos he]
      rw [this]
      simp only [List.reverse_reverse]
      exact iter_fuel' dl f1 f3 (s.app x) acc (by simpa using h1) (h3 _ (by simp))
    · obtain ⟨s', o, hs, hg⟩ := stepIter_good dl s
      have hne : (s.app x).hist ≠ [] := by simp [he]
      cases o with
      | event e rp =>
        have hlt := (hg e rp rfl).1
        have hst := stepIter_app dl s x s' _ hs (by simp)
        have hR : iter dl (f2 + 1) s acc = iter dl f2 s' (e :: acc) := by
          conv => lhs; unfold iter
          rw [if_neg he, hs]
        have hL : iter dl f1 (s.app x) acc = iter dl (f1 - 1) (s'.app x) (e :: acc) := by
          conv => lhs; rw [hf1]; unfold iter
          rw [if_neg hne, hst]
        rw [hR, hL]
        exact iter_app dl x f2 (f1 - 1) f3 s' (e :: acc) (by omega) (by simp at h1 ⊢; omega)
          (fun t ht => h3 t (by simp at ht ⊢; omega))
      | fail =>
        have hst := stepIter_app dl s x s' _ hs (by simp)
        have hR : iter dl (f2 + 1) s acc = .ok (s', acc.reverse, true) := by
          conv => lhs; unfold iter
          rw [if_neg he, hs]
        have hL : iter dl f1 (s.app x) acc = .ok (s'.app x, acc.reverse, true) := by
          conv => lhs; rw [hf1]; unfold iter
          rw [if_neg hne, hst]
        rw [hR, hL]
      | needMore =>
        have hsame := needMore_same dl s s' hs
        subst hsame
        have hR : iter dl (f2 + 1) s' acc = .ok (s', acc.reverse, false) := by
          conv => lhs; unfold iter
          rw [if_neg he, hs]
        rw [hR]
        simp only [List.reverse_reverse]
        exact iter_fuel' dl f1 f3 (s'.app x) acc (by simpa using h1) (h3 _ (by simp))

theorem iter_acc (dl : Dialect) : ∀ (fuel : Nat) (s : Sess) (acc : List Event),
    iter dl fuel s acc =
      (match iter dl fuel s [] with
       | .ok (s', evs, f) => .ok (s', acc.reverse ++ evs, f)
       | r => r)
  | 0, s, acc => by simp [iter]
  | fuel + 1, s, acc => by
    unfold iter
    by_cases he : s.hist = []
    · simp [he]
    · rw [if_neg he, if_neg he]
      obtain ⟨s', o, hs, _⟩ := stepIter_good dl s
      rw [hs]
      cases o with
      | event e rp =>
        simp only
        rw [iter_acc dl fuel s' (e :: acc), iter_acc dl fuel s' [e]]
        cases iter dl fuel s' [] with
        | ok v => obtain ⟨a, b, c⟩ := v; simp
        | err => rfl
        | panic => rfl
      | needMore => simp
      | fail => simp

/-- after a read that did not fail, the state is drained: running the loop again on it does nothing -/
theorem iter_idem (dl : Dialect) : ∀ (fuel : Nat) (s : Sess) (acc : List Event) (s2 : Sess) (evs : List Event),
    iter dl fuel s acc = .ok (s2, evs, false) → s.hist.length < fuel → ∀ f', s2.hist.length < f' → iter dl f' s2 [] = .ok (s2, [], false)
  | 0, _, _, _, _, _, h, _, _ => by omega
  | fuel + 1, s, acc, s2, evs, h, hlt, f', hf' => by
    unfold iter at h
    by_cases he : s.hist = []
    · rw [if_pos he] at h
      simp only [Res.ok.injEq, Prod.mk.injEq] at h
      obtain ⟨h1, _, _⟩ := h
      subst h1
      cases f' with
      | zero => omega
      | succ k => unfold iter; rw [if_pos he]; rfl
    · rw [if_neg he] at h
      obtain ⟨s', o, hs, hg⟩ := stepIter_good dl s
      rw [hs] at h
      cases o with
      | event e rp =>
        exact iter_idem dl fuel s' (e :: acc) s2 evs h (by have := (hg e rp rfl).1; omega) f' hf'
      | needMore =>
        simp only [Res.ok.injEq, Prod.mk.injEq] at h
        obtain ⟨h1, _, _⟩ := h
        subst h1
        have := needMore_same dl s s' hs
        subst this
        cases f' with
        | zero => omega
        | succ k => unfold iter; rw [if_neg he, hs]; rfl
      | fail => simp at h

theorem iter_hist_le (dl : Dialect) : ∀ (fuel : Nat) (s : Sess) (acc : List Event) (s2 : Sess) (evs : List Event),
    iter dl fuel s acc = .ok (s2, evs, false) → s2.hist.length ≤ s.hist.length
  | 0, s, acc, s2, evs, h => by simp [iter] at h; rw [← h.1]; exact Nat.le_refl _
  | fuel + 1, s, acc, s2, evs, h => by
    unfold iter at h
    by_cases he : s.hist = []
    · rw [if_pos he] at h; simp only [Res.ok.injEq, Prod.mk.injEq] at h; rw [← h.1]; exact Nat.le_refl _
    · rw [if_neg he] at h
      obtain ⟨s', o, hs, hg⟩ := stepIter_good dl s
      rw [hs] at h
      cases o with
      | event e rp =>
        have := iter_hist_le dl fuel s' (e :: acc) s2 evs h
        have := (hg e rp rfl).1
        omega
      | needMore =>
        simp only [Res.ok.injEq, Prod.mk.injEq] at h
        rw [← h.1, needMore_same dl s s' hs]; exact Nat.le_refl _
      | fail => simp at h

theorem iter_total (dl : Dialect) : ∀ (fuel : Nat) (s : Sess) (acc : List Event), ∃ s' evs f, iter dl fuel s acc = .ok (s', evs, f)
  | 0, s, acc => ⟨s, acc.reverse, false, rfl⟩
  | fuel + 1, s, acc => by
    unfold iter
    by_cases he : s.hist = []
    · rw [if_pos he]; exact ⟨_, _, _, rfl⟩
    · rw [if_neg he]
      obtain ⟨s', o, hs, _⟩ := stepIter_good dl s
      rw [hs]
      cases o with
      | event e rp => exact iter_total dl fuel s' (e :: acc)
      | needMore => exact ⟨_, _, _, rfl⟩
      | fail => exact ⟨_, _, _, rfl⟩

/-- what an observer of the connection sees: the events in order, and whether the session failed -/
def obs (r : Res (List Event × Bool × Sess)) : Option (List Event × Bool) :=
  match r with
  | .ok (e, f, _) => some (e, f)
  | _ => none

def Drained (dl : Dialect) (s : Sess) : Prop := ∀ f', s.hist.length < f' → iter dl f' s [] = .ok (s, [], false)

theorem run_cons (dl : Dialect) (s : Sess) (r : Bytes) (rs : List Bytes) (acc : List Event) (s2 : Sess) (evs : List Event)
    (f : Bool) (h : iter dl ((s.app r).hist.length + 1) (s.app r) [] = .ok (s2, evs, f)) :
    run dl s (r :: rs) acc = if f = true then .ok (acc ++ evs, true, s2) else run dl s2 rs (acc ++ evs) := by
  have h' : iter dl (({ s with hist := s.hist ++ r } : Sess).hist.length + 1) { s with hist := s.hist ++ r } [] = .ok (s2, evs, f) := h
  conv => lhs; unfold run
  simp only [h']

theorem obs_run_single (dl : Dialect) (s : Sess) (z : Bytes) (acc : List Event) (s2 : Sess) (evs : List Event) (f : Bool)
    (h : iter dl ((s.app z).hist.length + 1) (s.app z) [] = .ok (s2, evs, f)) :
    obs (run dl s [z] acc) = some (acc ++ evs, f) := by
  unfold run
  have h' : iter dl (({ s with hist := s.hist ++ z } : Sess).hist.length + 1) { s with hist := s.hist ++ z } [] = .ok (s2, evs, f) := h
  simp only [h']
  cases f with
  | true => simp [obs]
  | false => simp [obs, run]

theorem run_flatten (dl : Dialect) : ∀ (rs : List Bytes) (r : Bytes) (s : Sess) (acc : List Event), Drained dl s →
    obs (run dl s (r :: rs) acc) = obs (run dl s [(r :: rs).flatten] acc)
  | [], r, s, acc, _ => by simp
  | r2 :: rest, r, s, acc, hd => by
    let y := (r2 :: rest).flatten
    have hflat : (r :: r2 :: rest).flatten = r ++ y := by simp [y]
    rw [hflat]
    obtain ⟨s2, evs, f, hi⟩ := iter_total dl ((s.app r).hist.length + 1) (s.app r) []
    -- the single read r ++ y, through iter_app
    have happ : s.app (r ++ y) = (s.app r).app y := by simp [Sess.app, List.append_assoc]
    have hbig := iter_app dl y ((s.app r).hist.length + 1) ((s.app (r ++ y)).hist.length + 1)
      (((s.app r).hist ++ y).length + 1) (s.app r) [] (by omega) (by rw [happ]; simp) (fun t ht => by omega)
    rw [← happ, hi] at hbig
    cases f with
    | true =>
      simp only at hbig
      rw [obs_run_single dl s (r ++ y) acc _ _ _ hbig, run_cons dl s r (r2 :: rest) acc s2 evs true hi]
      simp [obs]
    | false =>
      simp only at hbig
      have hdr : Drained dl s2 := fun f' hf' => iter_idem dl _ (s.app r) [] s2 evs hi (by omega) f' hf'
      obtain ⟨s3, evs', f', hi3⟩ := iter_total dl ((s2.app y).hist.length + 1) (s2.app y) []
      have hcont : iter dl (((s.app r).hist ++ y).length + 1) (s2.app y) evs.reverse = .ok (s3, evs ++ evs', f') := by
        rw [iter_acc, iter_fuel' dl _ ((s2.app y).hist.length + 1) (s2.app y) [] ?_ (by omega), hi3]
        · simp
        · -- the rest after a read is never longer than what was buffered
          have hle : s2.hist.length ≤ (s.app r).hist.length := by
            have := iter_hist_le dl _ (s.app r) [] s2 evs hi
            exact this
          simp only [app_hist, List.length_append] at hle ⊢
          omega
      rw [hcont] at hbig
      rw [obs_run_single dl s (r ++ y) acc _ _ _ hbig]
      -- left side: first read, then the induction hypothesis on the remaining reads
      have hL : obs (run dl s (r :: r2 :: rest) acc) = obs (run dl s2 (r2 :: rest) (acc ++ evs)) := by
        rw [run_cons dl s r (r2 :: rest) acc s2 evs false hi]
        simp
      rw [hL, run_flatten dl rest r2 s2 (acc ++ evs) hdr, obs_run_single dl s2 y (acc ++ evs) _ _ _ hi3]
      simp [List.append_assoc]

end JT.AttStream
