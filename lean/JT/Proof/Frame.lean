import JT.Model.Frame
import JT.Proof.Bytes
/-! Lemmas about escape / unescape / header encoding used by the property theorems C01, C02, C04. -/
namespace JT.Frame

theorem unescBody_cons_ne (b : Byte) (l : Bytes) (h : b ≠ 0x7d) :
    unescBody (b :: l) = (unescBody l).map (b :: ·) := by
  cases l with
  | nil => simp [unescBody]
  | cons c r => simp [unescBody, h]

theorem unescBody_escBody (d : Bytes) : unescBody (escBody d) = some d := by
  induction d with
  | nil => rfl
  | cons b r ih =>
    unfold escBody
    split
    · next h => subst h; simp [unescBody, ih]
    · split
      · next h => subst h; simp [unescBody, ih]
      · next h1 h2 => rw [unescBody_cons_ne _ _ h2, ih]; rfl

theorem escBody_no7e (d : Bytes) : ∀ x ∈ escBody d, x ≠ 0x7e := by
  induction d with
  | nil => simp [escBody]
  | cons b r ih =>
    unfold escBody
    split
    · intro x hx; simp at hx; rcases hx with h | h | h
      · subst h; decide
      · subst h; decide
      · exact ih x h
    · split
      · intro x hx; simp at hx; rcases hx with h | h | h
        · subst h; decide
        · subst h; decide
        · exact ih x h
      · next h1 h2 =>
        intro x hx; simp at hx; rcases hx with h | h
        · subst h; exact h1
        · exact ih x h

theorem escBody_length_ge (d : Bytes) : d.length ≤ (escBody d).length := by
  induction d with
  | nil => simp [escBody]
  | cons b r ih =>
    unfold escBody
    split
    · simp; omega
    · split <;> (simp; omega)

theorem escBody_ne_nil (d : Bytes) (h : d ≠ []) : escBody d ≠ [] := by
  intro he
  have := escBody_length_ge d
  rw [he] at this
  cases d with
  | nil => exact h rfl
  | cons _ _ => simp at this

theorem inner_escape (d : Bytes) (h : d ≠ []) : inner? (escape d) = some (escBody d) := by
  have hne := escBody_ne_nil d h
  have hlen : 1 ≤ (escBody d).length := by
    cases hh : escBody d with
    | nil => exact absurd hh hne
    | cons _ _ => simp
  simp [escape, inner?]
  omega

theorem unescape_escape (d : Bytes) (h : d ≠ []) : unescape (escape d) = some d := by
  simp [unescape, inner_escape d h, unescBody_escBody]


theorem len6 (l : Bytes) (h : l.length = 6) : ∃ c0 c1 c2 c3 c4 c5, l = [c0, c1, c2, c3, c4, c5] := by
  match l, h with
  | [c0, c1, c2, c3, c4, c5], _ => exact ⟨_, _, _, _, _, _, rfl⟩

theorem len10 (l : Bytes) (h : l.length = 10) :
    ∃ c0 c1 c2 c3 c4 c5 c6 c7 c8 c9, l = [c0, c1, c2, c3, c4, c5, c6, c7, c8, c9] := by
  match l, h with
  | [c0, c1, c2, c3, c4, c5, c6, c7, c8, c9], _ => exact ⟨_, _, _, _, _, _, _, _, _, _, rfl⟩

/-- the header + body + checksum layout of the standard, as a list expression -/
def layout (i0 i1 a0 a1 : Byte) (ver : Bytes) (bcd : Bytes) (s0 s1 : Byte) (pkg body : Bytes) (ck : Byte) : Bytes :=
  i0 :: i1 :: a0 :: a1 :: (ver ++ (bcd ++ (s0 :: s1 :: (pkg ++ (body ++ [ck])))))

theorem decodePlain_layout (i0 i1 a0 a1 : Byte) (ver bcd : Bytes) (s0 s1 : Byte) (pkg body : Bytes) (ck : Byte)
    (v fr : Nat) (hv : be16 a0 a1 / 16384 % 2 = v) (hf : be16 a0 a1 / 8192 % 2 = fr)
    (hl : be16 a0 a1 % 1024 = body.length)
    (hver : ver.length = v) (hbcd : bcd.length = if v = 1 then 10 else 6)
    (hpkg : pkg.length = 4 * fr) :
    decodePlain (layout i0 i1 a0 a1 ver bcd s0 s1 pkg body ck) =
      .ok { h := { id := be16 i0 i1, attr := be16 a0 a1, version := v, frag := fr,
                   encrypt := be16 a0 a1 / 1024 % 2, bodyLen := body.length,
                   bcd := bcd, serial := be16 s0 s1,
                   sum := if fr = 1 then be16 (pkg.getD 0 0) (pkg.getD 1 0) else 0,
                   no := if fr = 1 then be16 (pkg.getD 2 0) (pkg.getD 3 0) else 0 },
            body := body, verify := ck } := by
  have hv2 : v = 0 ∨ v = 1 := by omega
  have hf2 : fr = 0 ∨ fr = 1 := by omega
  rcases hv2 with rfl | rfl <;> rcases hf2 with rfl | rfl
  · obtain ⟨c0, c1, c2, c3, c4, c5, rfl⟩ := len6 bcd (by simpa using hbcd)
    have : ver = [] := by cases ver <;> simp_all
    have : pkg = [] := by cases pkg <;> simp_all
    subst_vars
    have hget : (i0 :: i1 :: a0 :: a1 :: c0 :: c1 :: c2 :: c3 :: c4 :: c5 :: s0 :: s1 :: (body ++ [ck]))[12 + List.length body]? = some ck := by
      rw [Nat.add_comm]; simp
    simp [layout, decodePlain, hv, hf, hl, hget]
    rw [if_neg (by omega), if_neg (by omega), if_pos (by omega)]
  · obtain ⟨c0, c1, c2, c3, c4, c5, rfl⟩ := len6 bcd (by simpa using hbcd)
    have : ver = [] := by cases ver <;> simp_all
    obtain ⟨p0, p1, p2, p3, rfl⟩ : ∃ p0 p1 p2 p3, pkg = [p0, p1, p2, p3] := by
      match pkg, hpkg with
      | [p0, p1, p2, p3], _ => exact ⟨_, _, _, _, rfl⟩
    subst_vars
    have hget : (i0 :: i1 :: a0 :: a1 :: c0 :: c1 :: c2 :: c3 :: c4 :: c5 :: s0 :: s1 :: p0 :: p1 :: p2 :: p3 :: (body ++ [ck]))[16 + List.length body]? = some ck := by
      rw [Nat.add_comm]; simp
    simp [layout, decodePlain, hv, hf, hl, hget]
    rw [if_neg (by omega), if_neg (by omega), if_neg (by omega), if_pos (by omega)]
  · obtain ⟨c0, c1, c2, c3, c4, c5, c6, c7, c8, c9, rfl⟩ := len10 bcd (by simpa using hbcd)
    obtain ⟨vb, rfl⟩ : ∃ vb, ver = [vb] := by
      match ver, hver with
      | [vb], _ => exact ⟨_, rfl⟩
    have : pkg = [] := by cases pkg <;> simp_all
    subst_vars
    have hget : (i0 :: i1 :: a0 :: a1 :: vb :: c0 :: c1 :: c2 :: c3 :: c4 :: c5 :: c6 :: c7 :: c8 :: c9 :: s0 :: s1 :: (body ++ [ck]))[17 + List.length body]? = some ck := by
      rw [Nat.add_comm]; simp
    simp [layout, decodePlain, hv, hf, hl, hget]
    rw [if_neg (by omega), if_neg (by omega), if_pos (by omega)]
  · obtain ⟨c0, c1, c2, c3, c4, c5, c6, c7, c8, c9, rfl⟩ := len10 bcd (by simpa using hbcd)
    obtain ⟨vb, rfl⟩ : ∃ vb, ver = [vb] := by
      match ver, hver with
      | [vb], _ => exact ⟨_, rfl⟩
    obtain ⟨p0, p1, p2, p3, rfl⟩ : ∃ p0 p1 p2 p3, pkg = [p0, p1, p2, p3] := by
      match pkg, hpkg with
      | [p0, p1, p2, p3], _ => exact ⟨_, _, _, _, rfl⟩
    have hget : (i0 :: i1 :: a0 :: a1 :: vb :: c0 :: c1 :: c2 :: c3 :: c4 :: c5 :: c6 :: c7 :: c8 :: c9 :: s0 :: s1 :: p0 :: p1 :: p2 :: p3 :: (body ++ [ck]))[21 + List.length body]? = some ck := by
      rw [Nat.add_comm]; simp
    simp [layout, decodePlain, hv, hf, hl, hget]
    rw [if_neg (by omega), if_neg (by omega), if_neg (by omega), if_pos (by omega)]


theorem attr_or (v e len : Nat) (hv : v = 0 ∨ v = 1) (he : e = 0 ∨ e = 1) (hl : len ≤ 1023) :
    ((v * 16384 + 0 * 8192 + e * 1024) ||| (len % 65536)) = v * 16384 + e * 1024 + len := by
  have hl' : len % 65536 = len := Nat.mod_eq_of_lt (by omega)
  have key : ∀ k : Nat, (k <<< 10 ||| len) = k <<< 10 + len := fun k =>
    (Nat.shiftLeft_add_eq_or_of_lt (by omega : len < 2 ^ 10) k).symm
  rw [hl']
  rcases hv with rfl | rfl <;> rcases he with rfl | rfl
  · simpa using key 0
  · simpa using key 1
  · simpa using key 16
  · simpa using key 17

end JT.Frame
