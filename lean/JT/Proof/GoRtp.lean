import JT.Gen.GoRtp
import JT.Proof.GoFrame
import JT.Model.Rtp
/-!
# `jt1078.Packet.Decode` as translated from the source equals the model `Rtp.decode`

`JT/Gen/GoRtp.lean` is regenerated from protocol/jt1078/jt1078.go on every run (`extract golean`).
-/
namespace JT.Gen.GoRtp
open JT JT.Go JT.Rtp JT.Gen.GoFrame

def F8 (a : UInt8) : Prop :=
  ((a >>> 6) &&& 3).toNat = a.toNat / 64 ∧ ((a >>> 5) &&& 1).toNat = a.toNat / 32 % 2 ∧
  ((a >>> 4) &&& 1).toNat = a.toNat / 16 % 2 ∧ (a &&& 15).toNat = a.toNat % 16 ∧
  ((a >>> 7) &&& 1).toNat = a.toNat / 128 ∧ (a &&& 127).toNat = a.toNat % 128 ∧
  ((a >>> 4) &&& 15).toNat = a.toNat / 16
instance (a : UInt8) : Decidable (F8 a) := by unfold F8; infer_instance
set_option maxRecDepth 20000 in
theorem f8_all : ∀ n : Nat, n < 256 → F8 (UInt8.ofNat n) := by decide +kernel
theorem f8 (a : UInt8) : F8 a := by
  have := f8_all a.toNat a.toNat_lt
  rwa [UInt8.ofNat_toNat] at this


theorem u64_eight (b : Bytes) (h : b.length = 8) : ∃ w : UInt64, u64 b = X.ok w ∧ w.toNat = beN b := by
  match b, h with
  | [a, c, d, e, f, g, h', i], _ =>
    refine ⟨_, rfl, ?_⟩
    have := a.toNat_lt; have := c.toNat_lt; have := d.toNat_lt; have := e.toNat_lt
    have := f.toNat_lt; have := g.toNat_lt; have := h'.toNat_lt; have := i.toNat_lt
    simp only [UInt64.toNat_ofNat', beN, List.foldl_cons, List.foldl_nil]
    omega

def G8 (x : UInt8) : Prop := (x != 4) = decide (x.toNat ≠ 4) ∧ (((x == 0) || (x == 1)) || (x == 2)) = decide (x.toNat ≤ 2)
instance (a : UInt8) : Decidable (G8 a) := by unfold G8; infer_instance
set_option maxRecDepth 20000 in
theorem g8_all : ∀ n : Nat, n < 256 → G8 (UInt8.ofNat n) := by decide +kernel
theorem g8 (a : UInt8) : G8 a := by
  have := g8_all a.toNat a.toNat_lt
  rwa [UInt8.ofNat_toNat] at this

theorem seg2 (d : Bytes) (i : Nat) (h : i + 2 ≤ d.length) :
    ∃ w : UInt16, (X.bind (slice d (i : Int) ((i + 2 : Nat) : Int)) u16) = X.ok w ∧ w.toNat = be16 (d.getD i 0) (d.getD (i + 1) 0) := by
  rw [slice_ok d i (i + 2) (by omega) h]
  have l : ((d.drop i).take (i + 2 - i)).length = 2 := by simp; omega
  obtain ⟨w, h1, h2⟩ := u16_two _ l
  exact ⟨w, h1, by rw [h2, beN_seg d i h]⟩

/-- what `decodeHead` leaves in the packet -/
structure HeadOf (fuel : Nat) (d : Bytes) (p : jt1078_Packet) : Prop where
  v : p.Flag.V.toNat = (d.getD 4 0).toNat / 64
  pp : p.Flag.P.toNat = (d.getD 4 0).toNat / 32 % 2
  x : p.Flag.X.toNat = (d.getD 4 0).toNat / 16 % 2
  cc : p.Flag.CC.toNat = (d.getD 4 0).toNat % 16
  m : p.Flag.M.toNat = (d.getD 5 0).toNat / 128
  pt : p.Flag.PT.toNat = (d.getD 5 0).toNat % 128
  seq : p.Seq.toNat = be16 (d.getD 6 0) (d.getD 7 0)
  sim : utils_Bcd2Dec fuel ((d.drop 8).take 6) = X.ok p.Sim
  ch : p.LogicChannel.toNat = (d.getD 14 0).toNat
  dt : p.DataType.toNat = (d.getD 15 0).toNat / 16
  sub : p.SubcontractType.toNat = (d.getD 15 0).toNat % 16


theorem idx_getD (d : Bytes) (k : Nat) (h : k < d.length) : idx d (k : Int) = X.ok (d.getD k 0) := by
  rw [idx_lt d k h, List.getD_eq_getElem?_getD, List.getElem?_eq_getElem h]; rfl

theorem lit_slice (d : Bytes) (a b : Nat) (h1 : a ≤ b) (h2 : b ≤ d.length) :
    slice d (a : Int) (b : Int) = X.ok ((d.drop a).take (b - a)) := slice_ok d a b h1 h2

/-- reading a big-endian 16-bit field at a literal offset -/
theorem rd16 (d : Bytes) (i : Nat) (h : i + 2 ≤ d.length) :
    ∃ w : UInt16, u16 ((d.drop i).take (i + 2 - i)) = X.ok w ∧ w.toNat = be16 (d.getD i 0) (d.getD (i + 1) 0) := by
  have l : ((d.drop i).take (i + 2 - i)).length = 2 := by simp; omega
  obtain ⟨w, h1, h2⟩ := u16_two _ l
  exact ⟨w, h1, by rw [h2, beN_seg d i h]⟩

theorem head_spec (fuel : Nat) (p0 : jt1078_Packet) (d : Bytes) (hf : d.length < fuel) (h16 : 16 ≤ d.length)
    (hm : d.take 4 = marker) :
    (d.length < 18 + (if (d.getD 15 0).toNat / 16 ≠ 4 then 8 else 0) + (if (d.getD 15 0).toNat / 16 ≤ 2 then 4 else 0) →
      ∃ p, jt1078_Packet_decodeHead fuel p0 d = X.ok (p, some "ErrHeaderLength2Short")) ∧
    (18 + (if (d.getD 15 0).toNat / 16 ≠ 4 then 8 else 0) + (if (d.getD 15 0).toNat / 16 ≤ 2 then 4 else 0) ≤ d.length →
      ∃ p, jt1078_Packet_decodeHead fuel p0 d = X.ok (p, none) ∧ HeadOf fuel d p ∧
        p.Timestamp.toNat = (if (d.getD 15 0).toNat / 16 ≠ 4 then beN ((d.drop 16).take 8) else 0) ∧
        p.LastIFrameInterval.toNat = (if (d.getD 15 0).toNat / 16 ≤ 2 then be16 (d.getD 24 0) (d.getD 25 0) else 0) ∧
        p.LastFrameInterval.toNat = (if (d.getD 15 0).toNat / 16 ≤ 2 then be16 (d.getD 26 0) (d.getD 27 0) else 0) ∧
        (∀ s2 : Nat, s2 = (if (d.getD 15 0).toNat / 16 ≠ 4 then 24 else 16) + (if (d.getD 15 0).toNat / 16 ≤ 2 then 4 else 0) →
          p.DataBodyLen.toNat = be16 (d.getD s2 0) (d.getD (s2 + 1) 0) ∧ p.customAttributes.headEnd = ((s2 + 2 : Nat) : Int))) := by
  unfold jt1078_Packet_decodeHead
  have c16 : decide (len d < (16 : Int)) = false := decide_eq_false (by show ¬ ((d.length : Int) < 16); omega)
  simp only [c16, Bool.false_eq_true, if_false]
  unfold jt1078_Packet_decodeHead_j3
  have s4 : sliceTo d (4 : Int) = X.ok (d.take 4) := by
    unfold sliceTo; rw [slice_int d 0 4 (by omega)]; simp
  simp only [s4, X.bind_ok, hm]
  have mk : (marker != ([48, 49, 99, 100] : Bytes)) = false := by decide
  simp only [mk, Bool.false_eq_true, if_false]
  unfold jt1078_Packet_decodeHead_j2
  have i4 := idx_getD d 4 (by omega)
  have i5 := idx_getD d 5 (by omega)
  have i14 := idx_getD d 14 (by omega)
  have i15 := idx_getD d 15 (by omega)
  have s68 := lit_slice d 6 8 (by omega) (by omega)
  obtain ⟨wseq, hseq, vseq⟩ := rd16 d 6 (by omega)
  have s814 := lit_slice d 8 14 (by omega) (by omega)
  obtain ⟨sim, hsim⟩ := bcd2dec_ok ((d.drop 8).take (14 - 8)) fuel (by simp; omega)
  simp only [Int.cast_ofNat_Int] at i4 i5 i14 i15 s68 s814
  simp only [i4, i5, i14, i15, X.bind_ok, s814, hsim, s68, hseq]
  -- the data type decides which optional fields exist
  obtain ⟨f1, f2, f3, f4, _, _, _⟩ := f8 (d.getD 4 0)
  obtain ⟨_, _, _, _, f5, f6, _⟩ := f8 (d.getD 5 0)
  obtain ⟨_, _, _, f8b, _, _, hdt⟩ := f8 (d.getD 15 0)
  obtain ⟨g1, g2⟩ := g8 ((d.getD 15 0 >>> 4) &&& 15)
  rw [hdt] at g1 g2
  simp only [g1, g2]
  have hd : ∀ p : jt1078_Packet, p.Flag.V = d.getD 4 0 >>> 6 &&& 3 → p.Flag.P = d.getD 4 0 >>> 5 &&& 1 → p.Flag.X = d.getD 4 0 >>> 4 &&& 1 →
      p.Flag.CC = d.getD 4 0 &&& 15 → p.Flag.M = d.getD 5 0 >>> 7 &&& 1 → p.Flag.PT = d.getD 5 0 &&& 127 → p.Seq = wseq → p.Sim = sim →
      p.LogicChannel = d.getD 14 0 → p.DataType = d.getD 15 0 >>> 4 &&& 15 → p.SubcontractType = d.getD 15 0 &&& 15 → HeadOf fuel d p := by
    intro p a1 a2 a3 a4 a5 a6 e2 e3 e4 e5 e6
    exact ⟨by rw [a1]; exact f1, by rw [a2]; exact f2, by rw [a3]; exact f3, by rw [a4]; exact f4, by rw [a5]; exact f5,
      by rw [a6]; exact f6, by rw [e2]; exact vseq, by rw [e3]; exact hsim, by rw [e4], by rw [e5]; exact hdt, by rw [e6]; exact f8b⟩
  generalize (d.getD 15 0).toNat / 16 = dt at *
  by_cases h4 : dt ≠ 4
  · by_cases h2 : dt ≤ 2
    · simp only [h4, h2, ne_eq, not_false_eq_true, decide_true, if_true, X.bind_ok, Int.reduceAdd]
      constructor
      · intro hs
        have c : decide (len d < (30 : Int)) = true := decide_eq_true (by show ((d.length : Int) < 30); omega)
        simp only [c, if_true]
        exact ⟨_, rfl⟩
      · intro hl
        have c : decide (len d < (30 : Int)) = false := decide_eq_false (by show ¬ ((d.length : Int) < 30); omega)
        simp only [c, Bool.false_eq_true, if_false]
        unfold jt1078_Packet_decodeHead_j1
        simp only [g1, g2, h4, h2, ne_eq, not_false_eq_true, decide_true, if_true, Int.reduceAdd]
        have s1624 := lit_slice d 16 24 (by omega) (by omega)
        have s2426 := lit_slice d 24 26 (by omega) (by omega)
        have s2628 := lit_slice d 26 28 (by omega) (by omega)
        have s2830 := lit_slice d 28 30 (by omega) (by omega)
        simp only [Int.cast_ofNat_Int] at s1624 s2426 s2628 s2830
        obtain ⟨wt, ht, vt⟩ := u64_eight ((d.drop 16).take (24 - 16)) (by simp; omega)
        obtain ⟨w1, hw1, v1⟩ := rd16 d 24 (by omega)
        obtain ⟨w2, hw2, v2⟩ := rd16 d 26 (by omega)
        obtain ⟨w3, hw3, v3⟩ := rd16 d 28 (by omega)
        simp only [Int.reduceAdd, if_true, s1624, s2426, s2628, s2830, X.bind_ok, ht, hw1, hw2, hw3]
        refine ⟨_, rfl, ?_, ?_, ?_, ?_, ?_⟩
        · exact hd _ rfl rfl rfl rfl rfl rfl rfl rfl rfl rfl rfl
        · exact vt
        · exact v1
        · exact v2
        · intro s2 hs2; subst hs2
          exact ⟨v3, rfl⟩
    · simp only [h4, h2, ne_eq, not_false_eq_true, decide_true, decide_false, if_true, if_false, X.bind_ok, Int.reduceAdd, Bool.false_eq_true, Int.add_zero, Nat.add_zero]
      constructor
      · intro hs
        have c : decide (len d < (26 : Int)) = true := decide_eq_true (by show ((d.length : Int) < 26); omega)
        simp only [c, if_true]
        exact ⟨_, rfl⟩
      · intro hl
        have c : decide (len d < (26 : Int)) = false := decide_eq_false (by show ¬ ((d.length : Int) < 26); omega)
        simp only [c, Bool.false_eq_true, if_false]
        unfold jt1078_Packet_decodeHead_j1
        simp only [g1, g2, h4, h2, ne_eq, not_false_eq_true, decide_true, decide_false, if_true, if_false, Bool.false_eq_true, Int.reduceAdd]
        have s1624 := lit_slice d 16 24 (by omega) (by omega)
        have s2426 := lit_slice d 24 26 (by omega) (by omega)
        simp only [Int.cast_ofNat_Int] at s1624 s2426
        obtain ⟨wt, ht, vt⟩ := u64_eight ((d.drop 16).take (24 - 16)) (by simp; omega)
        obtain ⟨w1, hw1, v1⟩ := rd16 d 24 (by omega)
        simp only [Int.reduceAdd, Bool.false_eq_true, if_false, if_true, s1624, s2426, X.bind_ok, ht, hw1]
        refine ⟨_, rfl, ?_, ?_, ?_, ?_, ?_⟩
        · exact hd _ rfl rfl rfl rfl rfl rfl rfl rfl rfl rfl rfl
        · exact vt
        · rfl
        · rfl
        · intro s2 hs2; subst hs2
          exact ⟨v1, rfl⟩
  · have h4' : dt = 4 := by omega
    subst h4'
    simp only [ne_eq, not_true_eq_false, decide_false, if_false, Bool.false_eq_true, X.bind_ok, Int.reduceAdd, show ¬ (4 ≤ 2) by omega, Nat.add_zero, Int.add_zero]
    constructor
    · intro hs
      have c : decide (len d < (18 : Int)) = true := decide_eq_true (by show ((d.length : Int) < 18); omega)
      simp only [c, if_true]
      exact ⟨_, rfl⟩
    · intro hl
      have c : decide (len d < (18 : Int)) = false := decide_eq_false (by show ¬ ((d.length : Int) < 18); omega)
      simp only [c, Bool.false_eq_true, if_false]
      unfold jt1078_Packet_decodeHead_j1
      simp only [g1, g2, ne_eq, not_true_eq_false, decide_false, if_false, Bool.false_eq_true, Int.reduceAdd, show ¬ (4 ≤ 2) by omega]
      have s1618 := lit_slice d 16 18 (by omega) (by omega)
      simp only [Int.cast_ofNat_Int] at s1618
      obtain ⟨w1, hw1, v1⟩ := rd16 d 16 (by omega)
      simp only [Int.reduceAdd, Bool.false_eq_true, if_false, if_true, s1618, X.bind_ok, hw1]
      refine ⟨_, rfl, ?_, ?_, ?_, ?_, ?_⟩
      · exact hd _ rfl rfl rfl rfl rfl rfl rfl rfl rfl rfl rfl
      · rfl
      · rfl
      · rfl
      · intro s2 hs2; subst hs2
        exact ⟨v1, rfl⟩

/-- a decoded Go packet carries exactly the fields of the model's packet -/
def RepP (fuel : Nat) (p : jt1078_Packet) (k : Rtp.Pkt) : Prop :=
  p.Flag.V.toNat = k.v ∧ p.Flag.P.toNat = k.p ∧ p.Flag.X.toNat = k.x ∧ p.Flag.CC.toNat = k.cc ∧ p.Flag.M.toNat = k.m ∧
  p.Flag.PT.toNat = k.pt ∧ p.Seq.toNat = k.seq ∧ utils_Bcd2Dec fuel k.sim = X.ok p.Sim ∧ p.LogicChannel.toNat = k.ch ∧
  p.DataType.toNat = k.dt ∧ p.SubcontractType.toNat = k.sub ∧ p.Timestamp.toNat = k.ts ∧
  p.LastIFrameInterval.toNat = k.lifi ∧ p.LastFrameInterval.toNat = k.lfi ∧ p.Body = k.body

/-- **`Packet.Decode` as translated from the source is the model `Rtp.decode`**: same packet fields, same remainder, the
same outcome class (too short / unqualified) on every byte string; no panic. -/
theorem rtp_decode_go (fuel : Nat) (p0 : jt1078_Packet) (d : Bytes) (hf : d.length < fuel) :
    match Rtp.decode d with
    | .ok (k, rest) => ∃ p, jt1078_Packet_Decode fuel p0 d = X.ok (p, (rest, none)) ∧ RepP fuel p k
    | .short => ∃ p r e, jt1078_Packet_Decode fuel p0 d = X.ok (p, (r, some e)) ∧
        (e = "ErrHeaderLength2Short" ∨ e = "ErrBodyLength2Short")
    | .unq => ∃ p r, jt1078_Packet_Decode fuel p0 d = X.ok (p, (r, some "ErrUnqualifiedData")) := by
  unfold Rtp.decode jt1078_Packet_Decode
  by_cases h16 : d.length < 16
  · have c16 : decide (len d < (16 : Int)) = true := decide_eq_true (by show ((d.length : Int) < 16); omega)
    simp only [h16, if_true]
    unfold jt1078_Packet_decodeHead
    simp only [c16, if_true, X.bind_ok, Option.isSome_some]
    exact ⟨_, _, _, rfl, Or.inl rfl⟩
  · simp only [h16, if_false]
    by_cases hm : d.take 4 ≠ marker
    · simp only [hm, ne_eq, not_false_eq_true, if_true]
      unfold jt1078_Packet_decodeHead
      have c16 : decide (len d < (16 : Int)) = false := decide_eq_false (by show ¬ ((d.length : Int) < 16); omega)
      simp only [c16, Bool.false_eq_true, if_false]
      unfold jt1078_Packet_decodeHead_j3
      have s4 : sliceTo d (4 : Int) = X.ok (d.take 4) := by
        unfold sliceTo; rw [slice_int d 0 4 (by omega)]; simp
      have s16 : sliceTo d (16 : Int) = X.ok (d.take 16) := by
        unfold sliceTo; rw [slice_int d 0 16 (by omega)]; simp
      have mk : (d.take 4 != ([48, 49, 99, 100] : Bytes)) = true := by
        rw [bne_iff_ne]; exact hm
      simp only [s4, X.bind_ok, mk, if_true, s16, Option.isSome_some]
      exact ⟨_, _, rfl⟩
    · have hm' : d.take 4 = marker := by
        by_cases h : d.take 4 = marker
        · exact h
        · exact absurd h hm
      simp only [hm', ne_eq, not_true_eq_false, if_false]
      obtain ⟨H1, H2⟩ := head_spec fuel p0 d hf (by omega) hm'
      simp only [decide_eq_true_eq, Bool.decide_eq_true] at H1 H2 ⊢
      generalize hdt0 : (d.getD 15 0).toNat / 16 = dt at *
      by_cases he : d.length < 18 + (if dt ≠ 4 then 8 else 0) + (if dt ≤ 2 then 4 else 0)
      · obtain ⟨p, hp⟩ := H1 he
        simp only [he, if_true, hp, X.bind_ok, Option.isSome_some]
        exact ⟨_, _, _, rfl, Or.inl rfl⟩
      · simp only [he, if_false]
        obtain ⟨p, hp, hh, hts, hli, hlf, hbl⟩ := H2 (by omega)
        obtain ⟨hblen, hhe⟩ := hbl _ rfl
        simp only [hp, X.bind_ok, Option.isSome_none, Bool.false_eq_true, if_false]
        unfold jt1078_Packet_Decode_j2
        generalize hs2 : (if dt ≠ 4 then 24 else 16) + (if dt ≤ 2 then 4 else 0) = s2 at *
        have hs2le : s2 + 2 ≤ d.length := by
          by_cases a : dt ≠ 4 <;> by_cases b : dt ≤ 2 <;> simp [a, b] at he hs2 <;> omega
        rw [hhe]
        have sf := sliceFrom_ok d (s2 + 2) hs2le
        simp only [sf, X.bind_ok, hblen]
        generalize be16 (d.getD s2 0) (d.getD (s2 + 1) 0) = blen at *
        have hlenb : len (d.drop (s2 + 2)) = ((d.length - (s2 + 2) : Nat) : Int) := by simp
        by_cases hb : (d.drop (s2 + 2)).length < blen
        · have c : decide (len (d.drop (s2 + 2)) < Int.ofNat blen) = true := by
            rw [hlenb]; apply decide_eq_true; simp at hb ⊢; omega
          simp only [hb, if_true, c]
          exact ⟨_, _, _, rfl, Or.inr rfl⟩
        · have c : decide (len (d.drop (s2 + 2)) < Int.ofNat blen) = false := by
            rw [hlenb]; apply decide_eq_false; simp at hb ⊢; omega
          simp only [hb, if_false, c, Bool.false_eq_true]
          unfold jt1078_Packet_Decode_j1
          simp only [hblen]
          have hbl' : blen ≤ (d.drop (s2 + 2)).length := by omega
          have st : sliceTo (d.drop (s2 + 2)) (Int.ofNat blen) = X.ok ((d.drop (s2 + 2)).take blen) := by
            unfold sliceTo
            have := slice_ok (d.drop (s2 + 2)) 0 blen (by omega) hbl'
            simpa using this
          simp only [st, X.bind_ok]
          have hrep : ∀ (q : jt1078_Packet) (k : Rtp.Pkt), q.Flag = p.Flag → q.Seq = p.Seq → q.Sim = p.Sim → q.LogicChannel = p.LogicChannel →
              q.DataType = p.DataType → q.SubcontractType = p.SubcontractType → q.Timestamp = p.Timestamp →
              q.LastIFrameInterval = p.LastIFrameInterval → q.LastFrameInterval = p.LastFrameInterval →
              q.Body = k.body →
              k.v = (d.getD 4 0).toNat / 64 → k.p = (d.getD 4 0).toNat / 32 % 2 → k.x = (d.getD 4 0).toNat / 16 % 2 →
              k.cc = (d.getD 4 0).toNat % 16 → k.m = (d.getD 5 0).toNat / 128 → k.pt = (d.getD 5 0).toNat % 128 →
              k.seq = be16 (d.getD 6 0) (d.getD 7 0) → k.sim = (d.drop 8).take 6 → k.ch = (d.getD 14 0).toNat → k.dt = dt →
              k.sub = (d.getD 15 0).toNat % 16 → k.ts = (if dt ≠ 4 then beN ((d.drop 16).take 8) else 0) →
              k.lifi = (if dt ≤ 2 then be16 (d.getD (if dt ≠ 4 then 24 else 16) 0) (d.getD ((if dt ≠ 4 then 24 else 16) + 1) 0) else 0) →
              k.lfi = (if dt ≤ 2 then be16 (d.getD ((if dt ≠ 4 then 24 else 16) + 2) 0) (d.getD ((if dt ≠ 4 then 24 else 16) + 3) 0) else 0) →
              RepP fuel q k := by
            intro q k e1 e2 e3 e4 e5 e6 e7 e8 e9 e10 k1 k2 k3 k4 k5 k6 k7 k8 k9 k10 k11 k12 k13 k14
            refine ⟨by rw [e1, k1]; exact hh.v, by rw [e1, k2]; exact hh.pp, by rw [e1, k3]; exact hh.x, by rw [e1, k4]; exact hh.cc,
              by rw [e1, k5]; exact hh.m, by rw [e1, k6]; exact hh.pt, by rw [e2, k7]; exact hh.seq, by rw [e3, k8]; exact hh.sim,
              by rw [e4, k9]; exact hh.ch, by rw [e5, k10]; exact hh.dt.trans hdt0, by rw [e6, k11]; exact hh.sub, by rw [e7, k12]; exact hts, ?_, ?_, e10⟩
            · rw [e8, hli, k13]; by_cases h2 : dt ≤ 2
              · have : dt ≠ 4 := by omega
                simp [h2, this]
              · simp [h2]
            · rw [e9, hlf, k14]; by_cases h2 : dt ≤ 2
              · have : dt ≠ 4 := by omega
                simp [h2, this]
              · simp [h2]
          by_cases heq : (d.drop (s2 + 2)).length = blen
          · have c2 : (len (d.drop (s2 + 2)) == Int.ofNat blen) = true := by
              rw [hlenb]; simp at heq ⊢; omega
            simp only [c2, if_true]
            have hr : (d.drop (s2 + 2)).drop blen = [] := by
              apply List.drop_eq_nil_of_le; omega
            simp only [decide_not, hr] 
            exact ⟨_, rfl, hrep _ _ rfl rfl rfl rfl rfl rfl rfl rfl rfl rfl rfl rfl rfl rfl rfl rfl rfl rfl rfl rfl rfl rfl rfl rfl⟩
          · have c2 : (len (d.drop (s2 + 2)) == Int.ofNat blen) = false := by
              rw [hlenb]; simp at heq ⊢; omega
            have sfr : sliceFrom (d.drop (s2 + 2)) (Int.ofNat blen) = X.ok ((d.drop (s2 + 2)).drop blen) := by
              have := sliceFrom_ok (d.drop (s2 + 2)) blen hbl'
              simpa using this
            simp only [c2, Bool.false_eq_true, if_false, sfr, X.bind_ok, decide_not]
            exact ⟨_, rfl, hrep _ _ rfl rfl rfl rfl rfl rfl rfl rfl rfl rfl rfl rfl rfl rfl rfl rfl rfl rfl rfl rfl rfl rfl rfl rfl⟩
end JT.Gen.GoRtp
