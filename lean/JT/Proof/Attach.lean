import JT.Model.Attach
/-! Helper lemmas for C15: size invariant of the per-file record, tilings of a file, the walk over a tiling, arrival folds. -/
namespace JT.Attach
open JT

/-- total length of the chunks held at offsets `start … start+k-1` -/
def totalFrom (got : Nat → Option Bytes) (start k : Nat) : Nat :=
  ((List.range' start k).map (lenAt got)).sum

theorem totalFrom_succ (got : Nat → Option Bytes) (start k : Nat) :
    totalFrom got start (k + 1) = lenAt got start + totalFrom got (start + 1) k := by
  simp [totalFrom, List.range'_succ]

theorem bodyFrom_succ (got : Nat → Option Bytes) (start k : Nat) :
    bodyFrom got start (k + 1) = (got start).getD [] ++ bodyFrom got (start + 1) k := by
  simp [bodyFrom, List.range'_succ]

/-- changing the function at one point inside the window changes the total by the difference there -/
theorem totalFrom_update (got : Nat → Option Bytes) (off : Nat) (d : Bytes) :
    ∀ (k start : Nat), start ≤ off → off < start + k →
    totalFrom (fun o => if o = off then some d else got o) start k + lenAt got off = totalFrom got start k + d.length
  | 0, start, h1, h2 => by omega
  | k + 1, start, h1, h2 => by
    rw [totalFrom_succ, totalFrom_succ]
    by_cases e : start = off
    · subst e
      have hrest : totalFrom (fun o => if o = start then some d else got o) (start + 1) k = totalFrom got (start + 1) k := by
        unfold totalFrom
        congr 1
        apply List.map_congr_left
        intro o ho
        have := (List.mem_range'_1.mp ho).1
        simp [lenAt, show o ≠ start by omega]
      rw [hrest]
      simp [lenAt]; omega
    · have ih := totalFrom_update got off d k (start + 1) (by omega) (by omega)
      have : lenAt (fun o => if o = off then some d else got o) start = lenAt got start := by simp [lenAt, e]
      rw [this]; omega

theorem totalFrom_update_outside (got : Nat → Option Bytes) (off : Nat) (d : Bytes) (k start : Nat)
    (h : off < start ∨ start + k ≤ off) :
    totalFrom (fun o => if o = off then some d else got o) start k = totalFrom got start k := by
  unfold totalFrom
  congr 1
  apply List.map_congr_left
  intro o ho
  have := List.mem_range'_1.mp ho
  simp [lenAt, show o ≠ off by omega]

/-- `CurrentSize` is the total length of the chunks held -/
def SizeInv (r : FileRec) : Prop := r.cur = totalFrom r.got 0 (r.size + 1) ∧ ∀ o, r.size < o → r.got o = none

theorem sizeInv_new (n : Nat) : SizeInv (FileRec.new n) := by
  refine ⟨?_, fun _ _ => rfl⟩
  simp only [FileRec.new, totalFrom]
  have : ∀ l : List Nat, (l.map (lenAt fun _ => none)).sum = 0 := by
    intro l; induction l with
    | nil => rfl
    | cons a t ih => simp [lenAt, ih]
  exact (this _).symm

theorem lenAt_le_total (got : Nat → Option Bytes) (off : Nat) : ∀ (k start : Nat), start ≤ off → off < start + k →
    lenAt got off ≤ totalFrom got start k
  | 0, start, h1, h2 => by omega
  | k + 1, start, h1, h2 => by
    rw [totalFrom_succ]
    by_cases e : start = off
    · subst e; omega
    · have := lenAt_le_total got off k (start + 1) (by omega) (by omega); omega

/-- the invariant is kept by every chunk that lies inside the file, resent chunks included -/
theorem sizeInv_addChunk (r : FileRec) (h : SizeInv r) (off : Nat) (d : Bytes) (hin : off ≤ r.size) :
    SizeInv (addChunk r off d) := by
  obtain ⟨h1, h2⟩ := h
  refine ⟨?_, ?_⟩
  · show r.cur - lenAt r.got off + d.length = totalFrom (fun o => if o = off then some d else r.got o) 0 (r.size + 1)
    have hu := totalFrom_update r.got off d (r.size + 1) 0 (Nat.zero_le _) (by omega)
    have hle := lenAt_le_total r.got off (r.size + 1) 0 (Nat.zero_le _) (by omega)
    omega
  · intro o ho
    have ho' : r.size < o := ho
    show (if o = off then some d else r.got o) = none
    rw [if_neg (by omega)]; exact h2 o ho'


/-- the pieces `(offset, length)` tile `[start, n)`: contiguous, non-empty -/
def Tiles (n : Nat) : Nat → List (Nat × Nat) → Prop
  | start, [] => start = n
  | start, (o, l) :: r => o = start ∧ 0 < l ∧ Tiles n (o + l) r

def sliceOf (content : Bytes) (p : Nat × Nat) : Bytes := (content.drop p.1).take p.2

theorem tiles_le (n : Nat) : ∀ (parts : List (Nat × Nat)) (start : Nat), Tiles n start parts → start ≤ n
  | [], _, h => by simp [Tiles] at h; omega
  | (o, l) :: r, start, ⟨h1, _, h3⟩ => by have := tiles_le n r _ h3; omega

theorem tiles_off_ge (n : Nat) : ∀ (parts : List (Nat × Nat)) (start : Nat), Tiles n start parts →
    ∀ p ∈ parts, start ≤ p.1 ∧ p.1 + p.2 ≤ n ∧ 0 < p.2
  | [], _, _, p, hp => by cases hp
  | (o, l) :: r, start, ⟨h1, h2, h3⟩, p, hp => by
    cases hp with
    | head => have := tiles_le n r _ h3; simp only; omega
    | tail _ hm => have := tiles_off_ge n r _ h3 p hm; omega

theorem totalFrom_append (got : Nat → Option Bytes) (start a b : Nat) :
    totalFrom got start (a + b) = totalFrom got start a + totalFrom got (start + a) b := by
  unfold totalFrom
  rw [← List.range'_append_1 (s := start) (m := a) (n := b), List.map_append, List.sum_append_nat]

theorem bodyFrom_append (got : Nat → Option Bytes) (start a b : Nat) :
    bodyFrom got start (a + b) = bodyFrom got start a ++ bodyFrom got (start + a) b := by
  unfold bodyFrom
  rw [← List.range'_append_1 (s := start) (m := a) (n := b), List.flatMap_append]

theorem window_none (got : Nat → Option Bytes) (start k : Nat) (h : ∀ o, start ≤ o → o < start + k → got o = none) :
    totalFrom got start k = 0 ∧ bodyFrom got start k = [] := by
  induction k generalizing start with
  | zero => simp [totalFrom, bodyFrom]
  | succ k ih =>
    rw [totalFrom_succ, bodyFrom_succ]
    have h0 := h start (Nat.le_refl _) (by omega)
    obtain ⟨a, b⟩ := ih (start + 1) (fun o h1 h2 => h o (by omega) (by omega))
    simp [lenAt, h0, a, b]


/-- the walk over a tiling: with the pieces that have arrived held at their offsets and nothing held
anywhere else from `start` on, the bytes held total the lengths of the arrived pieces, and when all pieces
have arrived the walk reads the file content from `start` to the end. -/
theorem walk (n : Nat) (content : Bytes) (hc : content.length = n) (got : Nat → Option Bytes) (arrived : Nat → Bool) :
    ∀ (parts : List (Nat × Nat)) (start : Nat), Tiles n start parts →
    (∀ o, start ≤ o → got o = (match parts.find? (·.1 = o) with
                               | some p => if arrived o then some (sliceOf content p) else none
                               | none => none)) →
    totalFrom got start (n - start + 1) = ((parts.filter (fun p => arrived p.1)).map (·.2)).sum ∧
    ((∀ p ∈ parts, arrived p.1 = true) → bodyFrom got start (n - start + 1) = content.drop start)
  | [], start, ht, hg => by
    simp [Tiles] at ht; subst ht
    have h0 : got start = none := by have := hg start (Nat.le_refl _); simpa using this
    subst hc
    simp [totalFrom, bodyFrom, lenAt, h0]
  | (o, l) :: r, start, ⟨h1, h2, h3⟩, hg => by
    subst h1
    have hle := tiles_le n r _ h3
    -- the window [o, n] splits into the piece [o, o+l) and the rest
    have hk : n - o + 1 = l + (n - (o + l) + 1) := by omega
    rw [hk, totalFrom_append, bodyFrom_append]
    -- inside the piece only offset o can hold something
    have hfirst : got o = if arrived o then some (sliceOf content (o, l)) else none := by
      have := hg o (Nat.le_refl _); simpa using this
    have hinner : ∀ x, o + 1 ≤ x → x < o + 1 + (l - 1) → got x = none := by
      intro x hx1 hx2
      have := hg x (by omega)
      have hne : ¬ o = x := by omega
      have hnr : r.find? (·.1 = x) = none := by
        rw [List.find?_eq_none]
        intro p hp
        have := (tiles_off_ge n r _ h3 p hp).1
        simp; omega
      simpa [List.find?_cons, hne, hnr] using this
    have hl : l = (l - 1) + 1 := by omega
    have hsl : (sliceOf content (o, l)).length = l := by simp [sliceOf, List.length_take, List.length_drop]; omega
    obtain ⟨wn1, wn2⟩ := window_none got (o + 1) (l - 1) hinner
    have t1 : totalFrom got o l = if arrived o then l else 0 := by
      conv => lhs; rw [hl]
      rw [totalFrom_succ, wn1]
      by_cases ha : arrived o = true
      · simp [lenAt, hfirst, ha, hsl]
      · simp [lenAt, hfirst, ha]
    have b1 : bodyFrom got o l = if arrived o then sliceOf content (o, l) else [] := by
      conv => lhs; rw [hl]
      rw [bodyFrom_succ, wn2]
      by_cases ha : arrived o = true
      · simp [hfirst, ha]
      · simp [hfirst, ha]
    -- the rest of the tiling, by induction
    have hg' : ∀ x, o + l ≤ x → got x = (match r.find? (·.1 = x) with
        | some p => if arrived x then some (sliceOf content p) else none | none => none) := by
      intro x hx
      have := hg x (by omega)
      have hne : ¬ o = x := by omega
      simpa [List.find?_cons, hne] using this
    obtain ⟨ih1, ih2⟩ := walk n content hc got arrived r (o + l) h3 hg'
    constructor
    · rw [t1, ih1]
      by_cases ha : arrived o = true
      · simp [List.filter_cons, ha]
      · simp [List.filter_cons, ha]
    · intro hall
      have ha : arrived o = true := hall (o, l) (by simp)
      rw [b1, ih2 (fun p hp => hall p (by simp [hp])), if_pos ha]
      simp only [sliceOf]
      rw [← List.drop_drop, List.take_append_drop]


/-- a chunk of the file arrives: piece `p = (offset, length)` of `content` -/
def arrive (content : Bytes) (r : FileRec) (p : Nat × Nat) : FileRec := addChunk r p.1 (sliceOf content p)

/-- the file record after the chunks `arr` arrived in that order (any order, repeats allowed) -/
def after (n : Nat) (content : Bytes) (arr : List (Nat × Nat)) : FileRec := arr.foldl (arrive content) (FileRec.new n)

theorem got_fold (content : Bytes) : ∀ (arr : List (Nat × Nat)) (r0 : FileRec) (o : Nat),
    (arr.foldl (arrive content) r0).got o =
      (match arr.reverse.find? (·.1 = o) with | some p => some (sliceOf content p) | none => r0.got o)
  | [], r0, o => by simp
  | p :: rest, r0, o => by
    rw [List.foldl_cons, got_fold content rest (arrive content r0 p) o]
    simp only [List.reverse_cons, List.find?_append]
    cases hf : rest.reverse.find? (·.1 = o) with
    | some q => simp
    | none =>
      simp only [Option.none_or, List.find?_cons, List.find?_nil]
      by_cases e : p.1 = o
      · simp [e, arrive, addChunk]
      · have e' : ¬ o = p.1 := fun h => e h.symm
        simp [e, arrive, addChunk, e']

theorem size_fold (content : Bytes) : ∀ (arr : List (Nat × Nat)) (r0 : FileRec), (arr.foldl (arrive content) r0).size = r0.size
  | [], _ => rfl
  | p :: rest, r0 => by rw [List.foldl_cons, size_fold content rest]; rfl

theorem sizeInv_fold (content : Bytes) : ∀ (arr : List (Nat × Nat)) (r0 : FileRec), SizeInv r0 →
    (∀ p ∈ arr, p.1 ≤ r0.size) → SizeInv (arr.foldl (arrive content) r0)
  | [], _, h, _ => h
  | p :: rest, r0, h, hin => by
    rw [List.foldl_cons]
    apply sizeInv_fold content rest
    · exact sizeInv_addChunk r0 h p.1 _ (hin p (by simp))
    · intro q hq; exact hin q (by simp [hq])

/-- offsets of a tiling are distinct: the offset determines the piece -/
theorem tiles_find (n : Nat) : ∀ (parts : List (Nat × Nat)) (start : Nat), Tiles n start parts →
    ∀ p ∈ parts, parts.find? (·.1 = p.1) = some p
  | [], _, _, p, hp => by cases hp
  | (o, l) :: r, start, ⟨h1, h2, h3⟩, p, hp => by
    cases hp with
    | head => simp
    | tail _ hm =>
      have hge := (tiles_off_ge n r _ h3 p hm).1
      have hne : ¬ o = p.1 := by omega
      simp only [List.find?_cons, hne, decide_false]
      exact tiles_find n r _ h3 p hm

theorem got_after (n : Nat) (content : Bytes) (parts arr : List (Nat × Nat)) (ht : Tiles n 0 parts)
    (hsub : ∀ p ∈ arr, p ∈ parts) (o : Nat) :
    (after n content arr).got o =
      (match parts.find? (·.1 = o) with
       | some p => if arr.any (·.1 = o) then some (sliceOf content p) else none
       | none => none) := by
  unfold after
  rw [got_fold]
  cases hf : arr.reverse.find? (·.1 = o) with
  | some q =>
    have hq : q ∈ arr := List.mem_reverse.mp (List.mem_of_find?_eq_some hf)
    have hqo : q.1 = o := by simpa using List.find?_some hf
    have := tiles_find n parts 0 ht q (hsub q hq)
    rw [hqo] at this
    have hany : arr.any (·.1 = o) = true := List.any_eq_true.mpr ⟨q, hq, by simp [hqo]⟩
    simp [this, hany]
  | none =>
    have hany : arr.any (·.1 = o) = false := by
      rw [List.any_eq_false]
      intro x hx
      have := List.find?_eq_none.mp hf x (List.mem_reverse.mpr hx)
      simpa using this
    simp only [FileRec.new, hany]
    cases parts.find? (·.1 = o) <;> simp

/-- sum of the lengths of the pieces that have arrived -/
def arrivedLen (parts arr : List (Nat × Nat)) : Nat := ((parts.filter (fun p => arr.any (·.1 = p.1))).map (·.2)).sum

theorem sum_filter_eq_iff : ∀ (parts : List (Nat × Nat)) (f : Nat × Nat → Bool), (∀ p ∈ parts, 0 < p.2) →
    (((parts.filter f).map (·.2)).sum = (parts.map (·.2)).sum ↔ ∀ p ∈ parts, f p = true)
  | [], _, _ => by simp
  | p :: r, f, hpos => by
    have ih := sum_filter_eq_iff r f (fun q hq => hpos q (by simp [hq]))
    have hle : ((r.filter f).map (·.2)).sum ≤ (r.map (·.2)).sum := by
      clear ih
      induction r with
      | nil => simp
      | cons a t iht =>
        have := iht (fun q hq => hpos q (by simp at hq ⊢; rcases hq with h | h <;> simp [h]))
        simp only [List.filter_cons]; split <;> simp <;> omega
    have hp := hpos p (by simp)
    by_cases hf : f p = true
    · simp only [List.filter_cons, hf, if_true, List.map_cons, List.sum_cons, List.mem_cons, forall_eq_or_imp, true_and]
      rw [← ih]; omega
    · have hff : f p = false := by simpa using hf
      rw [List.filter_cons_of_neg (by simp [hff])]
      simp only [List.map_cons, List.sum_cons, List.mem_cons, forall_eq_or_imp]
      constructor
      · intro h; omega
      · intro h; exact absurd h.1 hf

theorem tiles_sum (n : Nat) : ∀ (parts : List (Nat × Nat)) (start : Nat), Tiles n start parts →
    start + (parts.map (·.2)).sum = n
  | [], _, h => by simp [Tiles] at h; simp [h]
  | (o, l) :: r, start, ⟨h1, _, h3⟩ => by
    have := tiles_sum n r _ h3
    simp only [List.map_cons, List.sum_cons]; omega
end JT.Attach
