import JT.Basic.Bytes
/-! Helper lemmas about bytes, XOR and big-endian encodings. -/
namespace JT

theorem xorAll_append (a b : Bytes) : xorAll (a ++ b) = xorAll a ^^^ xorAll b := by
  induction a with
  | nil => simp [xorAll]
  | cons x r ih => simp [xorAll, ih, UInt8.xor_assoc]

/-- appending the checksum makes the XOR of everything zero -/
theorem xorAll_append_self (d : Bytes) : xorAll (d ++ [xorAll d]) = 0 := by
  rw [xorAll_append]; simp [xorAll]

theorem toNat_ofNat_lt (n : Nat) (h : n < 256) : (UInt8.ofNat n).toNat = n := by
  simp [Nat.mod_eq_of_lt h]

theorem be16_toBE (n : Nat) (h : n < 65536) :
    be16 (UInt8.ofNat (n / 256 % 256)) (UInt8.ofNat (n % 256)) = n := by
  unfold be16
  rw [toNat_ofNat_lt _ (Nat.mod_lt _ (by decide)), toNat_ofNat_lt _ (Nat.mod_lt _ (by decide))]
  omega

theorem toBE_two (n : Nat) : toBE 2 n = [UInt8.ofNat (n / 256 % 256), UInt8.ofNat (n % 256)] := by
  simp [toBE]

end JT

namespace JT
theorem ofNat_toNat_byte (b : Byte) : UInt8.ofNat b.toNat = b := by
  simp

theorem len8 (l : Bytes) (h : l.length = 8) : ∃ a b c d e f g i, l = [a, b, c, d, e, f, g, i] := by
  match l, h with
  | [a, b, c, d, e, f, g, i], _ => exact ⟨_, _, _, _, _, _, _, _, rfl⟩
end JT
