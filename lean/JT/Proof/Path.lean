import JT.Model.Path
/-! Lemmas about `splitSlash`, `goBase`, `resolve` and the phone string. -/
namespace JT.Path
open JT

theorem splitSlash_ne_nil : ∀ p : Bytes, splitSlash p ≠ []
  | [] => by simp [splitSlash]
  | b :: r => by
    simp only [splitSlash]
    split
    · simp
    · split <;> simp

theorem splitSlash_noslash : ∀ a : Bytes, slash ∉ a → splitSlash a = [a]
  | [], _ => rfl
  | b :: r, h => by
    have hb : b ≠ slash := fun e => h (by simp [e])
    have hr : slash ∉ r := fun e => h (by simp [e])
    simp only [splitSlash, if_neg hb, splitSlash_noslash r hr]

theorem splitSlash_append : ∀ (a b : Bytes), slash ∉ a → splitSlash (a ++ slash :: b) = a :: splitSlash b
  | [], b, _ => by simp [splitSlash]
  | x :: r, b, h => by
    have hx : x ≠ slash := fun e => h (by simp [e])
    have hr : slash ∉ r := fun e => h (by simp [e])
    simp only [List.cons_append, splitSlash, if_neg hx, splitSlash_append r b hr]

theorem afterLastSlash_noslash (p : Bytes) : slash ∉ afterLastSlash p := by
  intro h
  unfold afterLastSlash at h
  have h' := List.mem_reverse.mp h
  have : ∀ (l : Bytes), slash ∈ l.takeWhile (fun x => decide (x ≠ slash)) → False := by
    intro l
    induction l with
    | nil => simp
    | cons x r ih =>
      simp only [List.takeWhile_cons]
      split
      · next hx =>
        intro hm
        rcases List.mem_cons.mp hm with e | e
        · simp [← e] at hx
        · exact ih e
      · simp
  exact this _ h'

/-- a name equal to its own `filepath.Base` is `/` or has no `/` at all and is not empty -/
theorem base_self (name : Bytes) (h : name = goBase name) : name = [slash] ∨ (name ≠ [] ∧ slash ∉ name) := by
  unfold goBase at h
  by_cases hn : name = []
  · rw [if_pos hn] at h; rw [hn] at h; cases h
  · rw [if_neg hn] at h
    by_cases hq : afterLastSlash (stripTrailingSlashes name) = []
    · simp only [hq, if_true] at h; exact Or.inl h
    · simp only [hq, if_false] at h
      right
      refine ⟨hn, ?_⟩
      rw [h]
      exact afterLastSlash_noslash _

theorem stepDir_plain (dir : List Bytes) (c : Bytes) (h : Plain c) : stepDir dir c = dir ++ [c] := by
  unfold stepDir
  rw [if_neg (by intro e; rcases e with e | e; exact h.1 e; exact h.2.2.1 e), if_neg h.2.2.2]

theorem head_savePath (phone name : Bytes) : (savePath phone name).head? ≠ some slash := by
  simp [savePath, slash]

theorem savePath_ne_nil (phone name : Bytes) : savePath phone name ≠ [] := by simp [savePath]

/-- the components of `./phone/name` when neither contains a `/` -/
theorem split_savePath (phone name : Bytes) (hp : slash ∉ phone) (hn : slash ∉ name) :
    splitSlash (savePath phone name) = [dot, phone, name] := by
  have e : savePath phone name = dot ++ slash :: (phone ++ slash :: name) := by simp [savePath, dot]
  rw [e, splitSlash_append _ _ (by simp [dot, slash]), splitSlash_append _ _ hp, splitSlash_noslash _ hn]

theorem split_savePath_slash (phone : Bytes) (hp : slash ∉ phone) :
    splitSlash (savePath phone [slash]) = [dot, phone, [], []] := by
  have e : savePath phone [slash] = dot ++ slash :: (phone ++ slash :: ([] ++ slash :: [])) := by simp [savePath, dot]
  rw [e, splitSlash_append _ _ (by simp [dot, slash]), splitSlash_append _ _ hp, splitSlash_append _ _ (by simp)]
  rfl

theorem resolve_rel (cwd : List Bytes) (path : Bytes) (loc : List Bytes) (hh : path.head? ≠ some slash)
    (h : resolve cwd path = some loc) : loc = (splitSlash path).foldl stepDir cwd := by
  unfold resolve at h
  by_cases h1 : path = [] ∨ (0 : Byte) ∈ path
  · rw [if_pos h1] at h; cases h
  · rw [if_neg h1] at h
    simp only at h
    by_cases h2 : ((splitSlash path).any fun c => decide (c.length > 255)) = true
    · rw [if_pos h2] at h; cases h
    · rw [if_neg h2, if_neg hh] at h
      injection h with h
      exact h.symm

/-- **resolution of `./phone/name`** for a plain phone directory and a plain name -/
theorem resolve_plain (cwd : List Bytes) (phone name : Bytes) (hp : Plain phone) (hn : Plain name) (loc : List Bytes)
    (h : resolve cwd (savePath phone name) = some loc) : loc = cwd ++ [phone, name] := by
  rw [resolve_rel cwd _ loc (head_savePath phone name) h, split_savePath phone name hp.2.1 hn.2.1]
  simp only [List.foldl_cons, List.foldl_nil]
  have h1 : stepDir cwd dot = cwd := by simp [stepDir]
  rw [h1, stepDir_plain _ _ hp, stepDir_plain _ _ hn]
  simp

theorem resolve_slash (cwd : List Bytes) (phone : Bytes) (hp : Plain phone) (loc : List Bytes)
    (h : resolve cwd (savePath phone [slash]) = some loc) : loc = cwd ++ [phone] := by
  rw [resolve_rel cwd _ loc (head_savePath phone _) h, split_savePath_slash phone hp.2.1]
  simp only [List.foldl_cons, List.foldl_nil]
  have h1 : stepDir cwd dot = cwd := by simp [stepDir]
  have h2 : ∀ d, stepDir d [] = d := by intro d; simp [stepDir]
  rw [h1, stepDir_plain _ _ hp, h2, h2]

/-! the phone string -/
theorem nibbleChar_hex : ∀ k, k < 16 → nibbleChar k ≠ slash ∧ nibbleChar k ≠ 0x2e := by decide

theorem bcdConvert_chars (b : Bytes) : ∀ x ∈ bcdConvert b, x ≠ slash ∧ x ≠ 0x2e := by
  intro x hx
  simp only [bcdConvert, List.mem_flatMap] at hx
  obtain ⟨y, _, hy⟩ := hx
  simp only [List.mem_cons, List.not_mem_nil, or_false] at hy
  rcases hy with e | e
  · rw [e]; exact nibbleChar_hex _ (by have := UInt8.toNat_lt y; omega)
  · rw [e]; exact nibbleChar_hex _ (Nat.mod_lt _ (by decide))

theorem bcdConvert_ne_nil (b : Bytes) (h : b ≠ []) : bcdConvert b ≠ [] := by
  cases b with
  | nil => exact absurd rfl h
  | cons x r => simp [bcdConvert]

/-- **the directory name is always a plain entry name**: hex digits only, never empty -/
theorem phone_plain (bcd : Bytes) (h : bcd ≠ []) : Plain (phoneStr bcd) := by
  have hchars : ∀ x ∈ phoneStr bcd, x ≠ slash ∧ x ≠ 0x2e := by
    intro x hx
    unfold phoneStr at hx
    simp only at hx
    split at hx
    · exact bcdConvert_chars bcd x hx
    · exact bcdConvert_chars bcd x ((List.dropWhile_sublist _).subset hx)
  have hne : phoneStr bcd ≠ [] := by
    unfold phoneStr
    simp only
    split
    · exact bcdConvert_ne_nil bcd h
    · assumption
  refine ⟨hne, fun hs => (hchars _ hs).1 rfl, ?_, ?_⟩
  · intro e; have := hchars 0x2e (by rw [e]; simp [dot]); exact this.2 rfl
  · intro e; have := hchars 0x2e (by rw [e]; simp [dotdot]); exact this.2 rfl

end JT.Path
