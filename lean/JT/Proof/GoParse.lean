import JT.Gen.GoParse
import JT.Proof.GoFrame
import JT.Proof.Parse
/-!
# `packageParse.unpack` as translated from service/packet_parse.go equals the model `Parse.unpack`

`JT/Gen/GoParse.lean` is regenerated from the Go source on every run. `unpack_go`: run with enough fuel, the translated
function never panics, reports an error exactly when the model does, leaves exactly the model's bytes in `historyData`
and returns messages that carry the model's header fields, body and raw frame. `run_go` lifts this to a sequence of
reads (the way `connection.reader` feeds `unpack`), so that the segmentation theorems of C04 hold for the translated
source.
-/
namespace JT.Gen.GoParse
open JT JT.Go JT.Frame JT.Parse JT.Gen.GoFrame

/-! ### the counting predicate of the fast path -/

theorem count7e_cons (b : Byte) (r : Bytes) : count7e (b :: r) = (if b = 0x7e then 1 else 0) + count7e r := by
  unfold count7e
  by_cases h : b = 0x7e <;> simp [h, List.filter_cons] <;> omega

theorem indexCountFrom_spec (n : Int) : ∀ (l : Bytes) (cnt pos : Int), cnt < n →
    (indexCountFrom 0x7e n l cnt pos = -1 ∧ cnt + (count7e l : Int) < n) ∨
    (∃ k, k < l.length ∧ indexCountFrom 0x7e n l cnt pos = pos + (k : Int) ∧ l[k]? = some 0x7e ∧
      cnt + (count7e (l.take (k + 1)) : Int) = n)
  | [], cnt, pos, h => by left; simp [indexCountFrom, count7e]; omega
  | b :: r, cnt, pos, h => by
    unfold indexCountFrom
    by_cases hb : b = 0x7e
    · subst hb
      simp only [beq_self_eq_true, if_true]
      by_cases hn : cnt + 1 = n
      · right
        refine ⟨0, by simp, ?_, by simp, ?_⟩
        · simp [hn]
        · simp [count7e_cons, count7e]; omega
      · have hlt : cnt + 1 < n := by omega
        have hne : (cnt + 1 == n) = false := by simp [hn]
        simp only [hne, Bool.false_eq_true, if_false]
        rcases indexCountFrom_spec n r (cnt + 1) (pos + 1) hlt with ⟨h1, h2⟩ | ⟨k, hk, h1, h2, h3⟩
        · left; refine ⟨h1, ?_⟩; rw [count7e_cons]; simp; omega
        · right
          refine ⟨k + 1, by simp; omega, ?_, by simpa using h2, ?_⟩
          · rw [h1]; push_cast; omega
          · rw [List.take_succ_cons, count7e_cons]; simp; omega
    · have hbf : (b == (0x7e : UInt8)) = false := by simp [hb]
      simp only [hbf, Bool.false_eq_true, if_false]
      have hne : (cnt == n) = false := by simp; omega
      simp only [hne, Bool.false_eq_true, if_false]
      rcases indexCountFrom_spec n r cnt (pos + 1) h with ⟨h1, h2⟩ | ⟨k, hk, h1, h2, h3⟩
      · left; refine ⟨h1, ?_⟩; rw [count7e_cons]; simp [hb]; omega
      · right
        refine ⟨k + 1, by simp; omega, ?_, by simpa using h2, ?_⟩
        · rw [h1]; push_cast; omega
        · rw [List.take_succ_cons, count7e_cons]; simp [hb]; omega

theorem count7e_pos_of_last (l : Bytes) (h : l.getLast? = some 0x7e) : 1 ≤ count7e l := by
  have hm : (0x7e : Byte) ∈ l := List.mem_of_getLast? h
  unfold count7e
  have : (0x7e : Byte) ∈ l.filter (· = 0x7e) := by simp [hm]
  exact List.length_pos_of_mem this

/-- with the closing delimiter in last position: the second delimiter is the last byte iff there are exactly two -/
theorem fast_iff (d : Bytes) (hl : d.getLast? = some 0x7e) :
    indexCount d 0x7e 0 2 = (d.length : Int) - 1 ↔ count7e d = 2 := by
  unfold indexCount
  have hne : d ≠ [] := by intro h; simp [h] at hl
  have hlen : 0 < d.length := List.length_pos_iff.mpr hne
  rcases indexCountFrom_spec 2 d 0 0 (by omega) with ⟨h1, h2⟩ | ⟨k, hk, h1, h2, h3⟩
  · rw [h1]; constructor
    · intro h; omega
    · intro h; omega
  · rw [h1]; constructor
    · intro h
      have hk' : k + 1 = d.length := by omega
      rw [hk', List.take_length] at h3; omega
    · intro h
      by_cases hk' : k + 1 = d.length
      · omega
      · exfalso
        have hsplit : d = d.take (k + 1) ++ d.drop (k + 1) := (List.take_append_drop _ _).symm
        have hdne : d.drop (k + 1) ≠ [] := by
          intro hd; have := congrArg List.length hd; simp at this; omega
        have hlast : (d.drop (k + 1)).getLast? = some 0x7e := by
          rw [hsplit, List.getLast?_append] at hl
          cases hx : (d.drop (k + 1)).getLast? with
          | none => exact absurd (List.getLast?_eq_none_iff.mp hx) hdne
          | some v => rw [hx] at hl; simpa using hl
        have h4 := count7e_pos_of_last _ hlast
        have h5 : count7e d = count7e (d.take (k + 1)) + count7e (d.drop (k + 1)) := by
          rw [← count7e_append, List.take_append_drop]
        omega

/-! ### the scan for the closing delimiter -/

theorem idx7e_drop (h : Bytes) (i : Nat) (hi : i < h.length) :
    idx7e (h.drop i) = if h[i] = 0x7e then some 0 else (idx7e (h.drop (i + 1))).map (· + 1) := by
  rw [List.drop_eq_getElem_cons hi]; rfl

theorem idx7e_lt : ∀ (l : Bytes) (k : Nat), idx7e l = some k → k < l.length
  | [], k, h => by simp [idx7e] at h
  | b :: r, k, h => by
    unfold idx7e at h
    by_cases hb : b = 0x7e
    · simp [hb] at h; subst h; simp
    · simp only [hb, if_false, Option.map_eq_some_iff] at h
      obtain ⟨k', hk, rfl⟩ := h
      have := idx7e_lt r k' hk
      simp; omega

theorem loop3_spec (p : service_packageParse) (data : Bytes) (msgs : List service_Message) (err : GoErr) (e : Int) :
    ∀ (fuel i : Nat), i ≤ p.historyData.length → p.historyData.length - i < fuel →
    service_packageParse_unpack_loop3 fuel p data msgs err e (i : Int) =
      X.ok (match idx7e (p.historyData.drop i) with | some k => ((i + k + 1 : Nat) : Int) | none => e)
  | 0, i, _, hf => by omega
  | fuel + 1, i, hi, hf => by
    unfold service_packageParse_unpack_loop3
    by_cases hlt : i < p.historyData.length
    · have c : decide ((i : Int) < len p.historyData) = true := by simp [hlt]
      simp only [c, if_true]
      rw [idx_lt _ i hlt]
      simp only [X.bind_ok]
      rw [idx7e_drop _ i hlt]
      by_cases hb : p.historyData[i] = 0x7e
      · simp [hb]
      · have hbf : (p.historyData[i] == (126 : UInt8)) = false := by simpa using hb
        simp only [hbf, Bool.false_eq_true, if_false, hb]
        have := loop3_spec p data msgs err e fuel (i + 1) (by omega) (by omega)
        rw [show ((i : Int) + 1) = ((i + 1 : Nat) : Int) by push_cast; rfl, this]
        cases idx7e (p.historyData.drop (i + 1)) with
        | none => rfl
        | some k => simp; omega
    · have c : decide ((i : Int) < len p.historyData) = false := by simp; omega
      simp only [c, Bool.false_eq_true, if_false]
      have : p.historyData.drop i = [] := List.drop_eq_nil_iff.mpr (by omega)
      rw [this]; rfl

/-- the `end` that one round of the buffered loop computes -/
def endOf (h : Bytes) : Int := match findEnd h with | some e => (e : Int) | none => -1

theorem findEnd_le (h : Bytes) (e : Nat) (he : findEnd h = some e) : 2 ≤ e ∧ e ≤ h.length := by
  unfold findEnd at he
  split at he
  · simp only [Option.map_eq_some_iff] at he
    obtain ⟨k, hk, rfl⟩ := he
    have := idx7e_lt _ _ hk
    cases h with
    | nil => simp [idx7e] at hk
    | cons b r => simp at this ⊢; omega
  · simp at he

/-- the computation of `end` in one round: guard, then the scan -/
theorem end_comp (fuel : Nat) (p : service_packageParse) (data : Bytes) (msgs : List service_Message) (err : GoErr)
    (hf : p.historyData.length < fuel + 1) :
    ((X.bind (if (decide ((len p.historyData) > (2 : Int))) then (X.bind (idx p.historyData (0 : Int)) (fun t61 =>
        X.ok (t61 == (126 : UInt8)))) else X.ok false) (fun c62 =>
      (if c62 then
        (let i_4 : Int := (1 : Int);
        (X.bind (service_packageParse_unpack_loop3 fuel p data msgs err (-1 : Int) i_4) (fun m64 =>
        (let end_3 : Int := m64;
        (X.ok end_3)))))
      else
        (X.ok (-1 : Int))))) : X Int) = X.ok (endOf p.historyData) := by
  unfold endOf findEnd
  by_cases h2 : p.historyData.length > 2
  · have c : decide (len p.historyData > (2 : Int)) = true := by simp; omega
    simp only [c, if_true]
    have h0 : 0 < p.historyData.length := by omega
    have hi0 : idx p.historyData (0 : Int) = X.ok p.historyData[0] := idx_lt p.historyData 0 h0
    rw [hi0]
    simp only [X.bind_ok]
    have hh : p.historyData.head? = some p.historyData[0] := by
      rw [List.head?_eq_getElem?, List.getElem?_eq_getElem h0]
    by_cases hb : p.historyData[0] = 0x7e
    · have hbt : (p.historyData[0] == (126 : UInt8)) = true := by simp [hb]
      simp only [hbt, if_true]
      have hl : service_packageParse_unpack_loop3 fuel p data msgs err (-1) (1 : Int) = _ :=
        loop3_spec p data msgs err (-1) fuel 1 (by omega) (by omega)
      rw [hl]
      simp only [X.bind_ok]
      have hcond : p.historyData.length > 2 ∧ p.historyData.head? = some 0x7e := ⟨h2, by rw [hh, hb]⟩
      rw [if_pos hcond, List.drop_one]
      cases idx7e p.historyData.tail with
      | none => rfl
      | some k => simp; omega
    · have hbf : (p.historyData[0] == (126 : UInt8)) = false := by simpa using hb
      simp only [hbf, Bool.false_eq_true, if_false]
      have hcond : ¬ (p.historyData.length > 2 ∧ p.historyData.head? = some 0x7e) := by
        rw [hh]; intro hc; exact hb (by simpa using hc.2)
      rw [if_neg hcond]
  · have c : decide (len p.historyData > (2 : Int)) = false := by simp; omega
    simp only [c, Bool.false_eq_true, if_false, X.bind_ok]
    have hcond : ¬ (p.historyData.length > 2 ∧ p.historyData.head? = some 0x7e) := fun hc => h2 hc.1
    rw [if_neg hcond]

/-- element-wise relation of two lists -/
inductive All2 {α β : Type} (R : α → β → Prop) : List α → List β → Prop
  | nil : All2 R [] []
  | cons {a b as bs} : R a b → All2 R as bs → All2 R (a :: as) (b :: bs)

theorem All2.append {α β : Type} {R : α → β → Prop} : ∀ {as bs cs ds}, All2 R as bs → All2 R cs ds → All2 R (as ++ cs) (bs ++ ds)
  | _, _, _, _, .nil, h => h
  | _, _, _, _, .cons h t, h' => .cons h (All2.append t h')

theorem All2.length {α β : Type} {R : α → β → Prop} : ∀ {as bs}, All2 R as bs → as.length = bs.length
  | _, _, .nil => rfl
  | _, _, .cons _ t => by simp [All2.length t]

/-- what a delivered Go message shares with the model's message -/
def RepM (g : service_Message) (pm : PMsg) : Prop :=
  RepH g.JTMessage.Header pm.h ∧ g.JTMessage.Body = pm.body ∧ g.ExtensionFields.TerminalData = pm.raw ∧
  g.ExtensionFields.SubcontractComplete = pm.complete ∧ g.Command = g.JTMessage.Header.ID ∧
  g.ExtensionFields.TerminalSeq = g.JTMessage.Header.SerialNumber

/-- the Go message built from a decoded `JTMessage` and the frame bytes -/
def mkMsg (j : jt808_JTMessage) (raw : Bytes) : service_Message :=
  { service_Message.zero with JTMessage := j, Command := j.Header.ID, ExtensionFields := { anon1_TerminalSeq_PlatformSeq.zero with TerminalData := raw, TerminalSeq := j.Header.SerialNumber } }

theorem mkMsg_rep (j : jt808_JTMessage) (m : Msg) (raw : Bytes) (h : Rep j m) : RepM (mkMsg j raw) ⟨m.h, m.body, false, raw⟩ :=
  ⟨h.1, h.2.1, rfl, rfl, rfl, rfl⟩

def newJT : jt808_JTMessage :=
  { jt808_JTMessage.zero with Header := { jt808_Header.zero with Property := jt808_BodyProperty.zero }, VerifyCode := (0 : UInt8), Body := ([] : Bytes) }

/-- **the buffered loop of `unpack`, translated, is the model's loop** -/
theorem loop2_spec : ∀ (n fuel : Nat) (p : service_packageParse) (data : Bytes) (msgs : List service_Message) (err : GoErr)
    (acc : List PMsg), p.historyData.length < n → p.historyData.length + 1 < fuel → All2 RepM msgs acc →
    ∃ p' ms' e', service_packageParse_unpack_loop2 fuel p data msgs err = X.ok (p', ms', e') ∧
      All2 RepM ms' (Parse.loop n p.historyData acc).1 ∧
      e'.isSome = (Parse.loop n p.historyData acc).2.1 ∧ p'.historyData = (Parse.loop n p.historyData acc).2.2
  | 0, _, _, _, _, _, _, hn, _, _ => by omega
  | _, 0, _, _, _, _, _, _, hf, _ => by omega
  | n + 1, fuel + 1, p, data, msgs, err, acc, hn, hf, hrep => by
    unfold service_packageParse_unpack_loop2
    simp only [if_true]
    rw [end_comp fuel p data msgs err (by omega)]
    simp only [X.bind_ok]
    unfold Parse.loop endOf
    cases he : findEnd p.historyData with
    | none =>
      simp only [beq_self_eq_true, if_true]
      exact ⟨_, _, _, rfl, hrep, rfl, rfl⟩
    | some e =>
      obtain ⟨he2, hel⟩ := findEnd_le _ _ he
      have hne : ((e : Int) == (-1 : Int)) = false := by simp
      simp only [hne, Bool.false_eq_true, if_false]
      have hs : sliceTo p.historyData (e : Int) = X.ok (p.historyData.take e) := by
        unfold sliceTo
        have := slice_ok p.historyData 0 e (by omega) hel
        simpa using this
      rw [hs]
      simp only [X.bind_ok]
      have hd := decode_go fuel newJT (p.historyData.take e) (by simp; omega)
      have hdrop : sliceFrom p.historyData (e : Int) = X.ok (p.historyData.drop e) := sliceFrom_ok _ _ hel
      cases hdec : Frame.decode (p.historyData.take e) with
      | panic => rw [hdec] at hd; exact hd.elim
      | err =>
        rw [hdec] at hd
        obtain ⟨j, er, hj⟩ := hd
        unfold newJT at hj
        rw [hj]
        simp only [X.bind_ok, Option.isSome_some, if_true, hdrop]
        exact ⟨_, _, _, rfl, hrep, rfl, rfl⟩
      | ok m =>
        rw [hdec] at hd
        obtain ⟨j, hj, hr, _, _, _⟩ := hd
        unfold newJT at hj
        rw [hj]
        simp only [X.bind_ok, Option.isSome_none, Bool.false_eq_true, if_false]
        have hrep' : All2 RepM (msgs ++ [mkMsg j (p.historyData.take e)]) (acc ++ [⟨m.h, m.body, false, p.historyData.take e⟩]) :=
          All2.append hrep (All2.cons (mkMsg_rep j m _ hr) All2.nil)
        by_cases hend : e = p.historyData.length
        · have c : ((e : Int) == len p.historyData) = true := by simp [hend]
          simp only [c, if_true]
          have h00 : slice p.historyData (0 : Int) (0 : Int) = X.ok [] := by
            have := slice_ok p.historyData 0 0 (by omega) (by omega)
            simpa using this
          rw [h00]
          simp only [X.bind_ok, if_pos hend]
          exact ⟨_, _, _, rfl, hrep', rfl, rfl⟩
        · have c : ((e : Int) == len p.historyData) = false := by simp; omega
          simp only [c, Bool.false_eq_true, if_false, hdrop, X.bind_ok, if_neg hend]
          have := loop2_spec n fuel { p with historyData := p.historyData.drop e } data
            (msgs ++ [mkMsg j (p.historyData.take e)]) err (acc ++ [⟨m.h, m.body, false, p.historyData.take e⟩])
            (by simp; omega) (by simp; omega) hrep'
          exact this

theorem getLast?_eq_getElem (d : Bytes) (h : 0 < d.length) : d.getLast? = some d[d.length - 1] := by
  rw [List.getLast?_eq_getElem?, List.getElem?_eq_getElem (by omega)]

/-- **`packageParse.unpack` as translated from the source is the model `Parse.unpack`**: with enough fuel it returns
(no panic, no exhausted loop budget), reports an error exactly when the model does, leaves the model's bytes in
`historyData`, and every message carries the header fields, body and raw frame of the model's message. -/
theorem unpack_go (fuel : Nat) (p0 : service_packageParse) (data : Bytes)
    (hf : p0.historyData.length + data.length + 2 < fuel) :
    ∃ p ms e, service_packageParse_unpack fuel p0 data = X.ok (p, ms, e) ∧
      All2 RepM ms (Parse.unpack p0.historyData data).1 ∧
      e.isSome = (Parse.unpack p0.historyData data).2.1 ∧ p.historyData = (Parse.unpack p0.historyData data).2.2 := by
  obtain ⟨fuel, rfl⟩ : ∃ f, fuel = f + 1 := ⟨fuel - 1, by omega⟩
  -- the slow path, whatever leads to it
  have slow : ∃ p ms e, service_packageParse_unpack_loop2 (fuel + 1) { p0 with historyData := p0.historyData ++ data } data [] none
        = X.ok (p, ms, e) ∧
      All2 RepM ms (Parse.loop ((p0.historyData ++ data).length + 1) (p0.historyData ++ data) []).1 ∧
      e.isSome = (Parse.loop ((p0.historyData ++ data).length + 1) (p0.historyData ++ data) []).2.1 ∧
      p.historyData = (Parse.loop ((p0.historyData ++ data).length + 1) (p0.historyData ++ data) []).2.2 :=
    loop2_spec _ (fuel + 1) { p0 with historyData := p0.historyData ++ data } data [] none [] (by simp) (by simp; omega) All2.nil
  unfold service_packageParse_unpack Parse.unpack
  by_cases hg : p0.historyData.length = 0 ∧ data.length > 2
  · have hh : p0.historyData = [] := List.eq_nil_of_length_eq_zero hg.1
    have c : ((len p0.historyData == (0 : Int)) && decide (len data > (2 : Int))) = true := by
      simp [hg.1]; omega
    simp only [c, if_true]
    have hi : idx data (len data - 1) = X.ok data[data.length - 1] := by
      have := idx_lt data (data.length - 1) (by omega)
      rw [show ((data.length - 1 : Nat) : Int) = len data - 1 by simp; omega] at this
      exact this
    rw [hi]
    simp only [X.bind_ok]
    have hlast := getLast?_eq_getElem data (by omega)
    by_cases hb : data[data.length - 1] = 0x7e
    · have hbt : (data[data.length - 1] == (126 : UInt8)) = true := by simp [hb]
      simp only [hbt, if_true]
      have hl : data.getLast? = some 0x7e := by rw [hlast, hb]
      have hfi := fast_iff data hl
      by_cases hc : count7e data = 2
      · have hidx : (indexCount data (126 : UInt8) (0 : Int) (2 : Int) == len data - 1) = true := by
          simp only [beq_iff_eq]; exact hfi.mpr hc
        simp only [hidx, if_true]
        have hcond : p0.historyData.isEmpty ∧ data.length > 2 ∧ data.getLast? = some 0x7e ∧ count7e data = 2 :=
          ⟨by simp [hh], hg.2, hl, hc⟩
        rw [if_pos hcond]
        have hd := decode_go (fuel + 1) newJT data (by omega)
        cases hdec : Frame.decode data with
        | panic => rw [hdec] at hd; exact hd.elim
        | err =>
          rw [hdec] at hd
          obtain ⟨j, er, hj⟩ := hd
          unfold newJT at hj
          rw [hj]
          simp only [X.bind_ok, Option.isSome_some, if_true]
          exact ⟨_, _, _, rfl, All2.nil, rfl, by simpa using hh⟩
        | ok m =>
          rw [hdec] at hd
          obtain ⟨j, hj, hr, _, _, _⟩ := hd
          unfold newJT at hj
          rw [hj]
          simp only [X.bind_ok, Option.isSome_none, Bool.false_eq_true, if_false]
          unfold service_packageParse_unpack_j1
          exact ⟨_, _, _, rfl, All2.cons (mkMsg_rep j m data hr) All2.nil, rfl, by simpa using hh⟩
      · have hidx : (indexCount data (126 : UInt8) (0 : Int) (2 : Int) == len data - 1) = false := by
          simp only [beq_eq_false_iff_ne, ne_eq]; exact fun h => hc (hfi.mp h)
        simp only [hidx, Bool.false_eq_true, if_false]
        have hcond : ¬ (p0.historyData.isEmpty ∧ data.length > 2 ∧ data.getLast? = some 0x7e ∧ count7e data = 2) :=
          fun h => hc h.2.2.2
        rw [if_neg hcond]
        exact slow
    · have hbf : (data[data.length - 1] == (126 : UInt8)) = false := by simpa using hb
      simp only [hbf, Bool.false_eq_true, if_false]
      have hcond : ¬ (p0.historyData.isEmpty ∧ data.length > 2 ∧ data.getLast? = some 0x7e ∧ count7e data = 2) := by
        intro h; rw [hlast] at h; exact hb (by simpa using h.2.2.1)
      rw [if_neg hcond]
      exact slow
  · have c : ((len p0.historyData == (0 : Int)) && decide (len data > (2 : Int))) = false := by
      simp only [len_eq, Bool.and_eq_false_imp, beq_iff_eq, decide_eq_false_iff_not]
      intro h; have : p0.historyData.length = 0 := by omega
      intro h2; exact hg ⟨this, by omega⟩
    simp only [c, Bool.false_eq_true, if_false, X.bind_ok]
    have hcond : ¬ (p0.historyData.isEmpty ∧ data.length > 2 ∧ data.getLast? = some 0x7e ∧ count7e data = 2) := by
      intro h; exact hg ⟨by simpa using h.1, h.2.1⟩
    rw [if_neg hcond]
    exact slow

/-! ### a connection: consecutive reads -/

theorem loop_hist_le : ∀ (n : Nat) (h : Bytes) (acc : List PMsg), (Parse.loop n h acc).2.2.length ≤ h.length
  | 0, h, acc => by simp [Parse.loop]
  | n + 1, h, acc => by
    unfold Parse.loop
    cases he : findEnd h with
    | none => simp
    | some e =>
      simp only
      cases Frame.decode (h.take e) with
      | ok m =>
        simp only
        by_cases hend : e = h.length
        · simp [hend]
        · simp only [if_neg hend]
          have := loop_hist_le n (h.drop e) (acc ++ [⟨m.h, m.body, false, h.take e⟩])
          simp at this ⊢; omega
      | err => simp
      | panic => simp

theorem unpack_hist_le (h d : Bytes) : (Parse.unpack h d).2.2.length ≤ h.length + d.length := by
  unfold Parse.unpack
  split
  · split <;> simp
  · have := loop_hist_le ((h ++ d).length + 1) (h ++ d) []
    simpa using this

/-- the reads of one connection handed to the translated `unpack`, one call per read (as `connection.reader` does),
each call with loop budget `fuel`; the connection ends at the first error -/
def runGo (fuel : Nat) : service_packageParse → List Bytes → X (List (List service_Message) × Bool × service_packageParse)
  | p, [] => .ok ([], false, p)
  | p, c :: r =>
    match service_packageParse_unpack fuel p c with
    | .ok (p', ms, e) =>
      if e.isSome then .ok ([ms], true, p')
      else X.bind (runGo fuel p' r) (fun x => .ok (ms :: x.1, x.2.1, x.2.2))
    | .panic => .panic
    | .fuel => .fuel

theorem run_go (fuel : Nat) : ∀ (chunks : List Bytes) (p : service_packageParse),
    p.historyData.length + chunks.flatten.length + 2 < fuel →
    ∃ mss e p', runGo fuel p chunks = X.ok (mss, e, p') ∧
      All2 (All2 RepM) mss (runUnpack p.historyData chunks).1 ∧
      e = (runUnpack p.historyData chunks).2.1 ∧ p'.historyData = (runUnpack p.historyData chunks).2.2
  | [], p, _ => ⟨_, _, _, rfl, All2.nil, rfl, rfl⟩
  | c :: r, p, hf => by
    simp only [List.flatten_cons, List.length_append] at hf
    obtain ⟨p1, ms, e, h1, h2, h3, h4⟩ := unpack_go fuel p c (by omega)
    unfold runGo runUnpack
    rw [h1]
    rcases hu : Parse.unpack p.historyData c with ⟨pms, eb, hh⟩
    rw [hu] at h2 h3 h4
    simp only at h2 h3 h4
    cases eb with
    | true =>
      simp only [h3, if_true]
      exact ⟨_, _, _, rfl, All2.cons h2 All2.nil, rfl, h4⟩
    | false =>
      simp only [h3, Bool.false_eq_true, if_false]
      have hle := unpack_hist_le p.historyData c
      rw [hu] at hle
      simp only at hle
      obtain ⟨mss, e', p', g1, g2, g3, g4⟩ := run_go fuel r p1 (by rw [h4]; omega)
      rw [g1]
      simp only [X.bind_ok]
      rw [h4] at g2 g3 g4
      exact ⟨_, _, _, rfl, All2.cons h2 g2, g3, g4⟩

theorem All2.flatten {α β : Type} {R : α → β → Prop} : ∀ {as : List (List α)} {bs : List (List β)},
    All2 (All2 R) as bs → All2 R as.flatten bs.flatten
  | _, _, .nil => .nil
  | _, _, .cons h t => by simpa using All2.append h (All2.flatten t)

end JT.Gen.GoParse
