import JT.Gen.GoModel
import JT.Proof.GoFrame
import JT.Proof.GoTotal
/-!
# Reply bodies as translated from protocol/model: the general response, the registration response, the
authentication response

`BaseHandle.ReplyBody` (every message answered by 0x8001), `T0x0100.ReplyBody` (0x8100) and `T0x0102.ReplyBody`
(0x8001 whose result depends on the authentication code) are translated from the source on every run together with the
encoders they call. The theorems give their output byte for byte.
-/
namespace JT.Gen.GoModel
open JT JT.Go JT.Frame JT.Gen.GoFrame

theorem P0x8001_Encode_eq (fuel : Nat) (p : model_P0x8001) :
    model_P0x8001_Encode fuel p = X.ok (Go.be16 p.RespondSerialNumber ++ Go.be16 p.RespondID ++ [p.Result]) := by
  simp [model_P0x8001_Encode, make, putU16At, setIdx, Go.be16]

/-- **general response**: serial and ID of the request, result 0 — five bytes -/
theorem BaseHandle_ReplyBody_eq (fuel : Nat) (b : model_BaseHandle) (j : jt808_JTMessage) :
    model_BaseHandle_ReplyBody fuel b j =
      X.ok (Go.be16 j.Header.SerialNumber ++ Go.be16 j.Header.ID ++ [0], none) := by
  simp [model_BaseHandle_ReplyBody, P0x8001_Encode_eq]

theorem String2FillingBytes_self (fuel : Nat) (t : Bytes) : utils_String2FillingBytes fuel t (len t) = X.ok t := by
  simp [utils_String2FillingBytes]

theorem P0x8100_Encode_eq (fuel : Nat) (p : model_P0x8100) :
    model_P0x8100_Encode fuel p = X.ok (Go.be16 p.RespondSerialNumber ++ [p.Result] ++ p.AuthCode) := by
  simp [model_P0x8100_Encode, String2FillingBytes_self, makeCap, putU16At, setIdx, Go.be16]

/-- **registration response**: serial of the request, result 0, the terminal's phone number as authentication code -/
theorem T0x0100_ReplyBody_eq (fuel : Nat) (t : model_T0x0100) (j : jt808_JTMessage) :
    model_T0x0100_ReplyBody fuel t j =
      X.ok (Go.be16 j.Header.SerialNumber ++ [0] ++ j.Header.TerminalPhoneNo, none) := by
  simp [model_T0x0100_ReplyBody, P0x8100_Encode_eq]

/-- **authentication response**: when the body parses, a general response whose result is 0 exactly when the
authentication code equals the terminal's phone number; when it does not parse, the error and no body -/
theorem T0x0102_ReplyBody_eq (fuel : Nat) (t : model_T0x0102) (j : jt808_JTMessage) :
    (∀ t' e, model_T0x0102_Parse fuel t j = X.ok (t', some e) → model_T0x0102_ReplyBody fuel t j = X.ok (t', [], some e)) ∧
    (∀ t', model_T0x0102_Parse fuel t j = X.ok (t', none) → model_T0x0102_ReplyBody fuel t j =
      X.ok (t', Go.be16 j.Header.SerialNumber ++ Go.be16 j.Header.ID ++ [if j.Header.TerminalPhoneNo = t'.AuthCode then 0 else 1], none)) := by
  constructor
  · intro t' e h
    simp [model_T0x0102_ReplyBody, h]
  · intro t' h
    simp only [model_T0x0102_ReplyBody, h, X.bind_ok, Option.isSome_none, Bool.false_eq_true, if_false, model_T0x0102_ReplyBody_j1]
    by_cases hp : j.Header.TerminalPhoneNo = t'.AuthCode
    · simp [hp, P0x8001_Encode_eq]
    · have c : (j.Header.TerminalPhoneNo == t'.AuthCode) = false := by simpa using hp
      simp [c, hp, P0x8001_Encode_eq]

end JT.Gen.GoModel
