import JT.Gen.GoModel
import JT.Proof.GoFrame
import JT.Proof.GoTotal
import JT.Proof.GoModel8003
/-!
# Reply bodies as translated from protocol/model: the general response, the registration response, the
authentication response

`BaseHandle.ReplyBody` (every message answered by 0x8001), `T0x0100.ReplyBody` (0x8100) and `T0x0102.ReplyBody`
(0x8001 whose result depends on the authentication code) are translated from the source on every run together with the
encoders they call. The theorems give their output byte for byte.
-/
namespace JT.Gen.GoModel
open JT JT.Go JT.Frame JT.Gen.GoFrame

theorem P0x8001_Encode_eq (fuel : Nat) (p : model_P0x8001) :
    model_P0x8001_Encode fuel p = X.ok (Go.be16 p.RespondSerialNumber ++ Go.be16 p.RespondID ++ [p.Result]) := by
  simp [model_P0x8001_Encode, make, putU16At, setIdx, Go.be16]

/-- **general response**: serial and ID of the request, result 0 — five bytes -/
theorem BaseHandle_ReplyBody_eq (fuel : Nat) (b : model_BaseHandle) (j : jt808_JTMessage) :
    model_BaseHandle_ReplyBody fuel b j =
      X.ok (Go.be16 j.Header.SerialNumber ++ Go.be16 j.Header.ID ++ [0], none) := by
  simp [model_BaseHandle_ReplyBody, P0x8001_Encode_eq]

theorem String2FillingBytes_self (fuel : Nat) (t : Bytes) : utils_String2FillingBytes fuel t (len t) = X.ok t := by
  simp [utils_String2FillingBytes]

theorem P0x8100_Encode_eq (fuel : Nat) (p : model_P0x8100) :
    model_P0x8100_Encode fuel p = X.ok (Go.be16 p.RespondSerialNumber ++ [p.Result] ++ p.AuthCode) := by
  simp [model_P0x8100_Encode, String2FillingBytes_self, makeCap, putU16At, setIdx, Go.be16]

/-- **registration response**: serial of the request, result 0, the terminal's phone number as authentication code -/
theorem T0x0100_ReplyBody_eq (fuel : Nat) (t : model_T0x0100) (j : jt808_JTMessage) :
    model_T0x0100_ReplyBody fuel t j =
      X.ok (Go.be16 j.Header.SerialNumber ++ [0] ++ j.Header.TerminalPhoneNo, none) := by
  simp [model_T0x0100_ReplyBody, P0x8100_Encode_eq]

/-- **authentication response**: when the body parses, a general response whose result is 0 exactly when the
authentication code equals the terminal's phone number; when it does not parse, the error and no body -/
theorem T0x0102_ReplyBody_eq (fuel : Nat) (t : model_T0x0102) (j : jt808_JTMessage) :
    (∀ t' e, model_T0x0102_Parse fuel t j = X.ok (t', some e) → model_T0x0102_ReplyBody fuel t j = X.ok (t', [], some e)) ∧
    (∀ t', model_T0x0102_Parse fuel t j = X.ok (t', none) → model_T0x0102_ReplyBody fuel t j =
      X.ok (t', Go.be16 j.Header.SerialNumber ++ Go.be16 j.Header.ID ++ [if j.Header.TerminalPhoneNo = t'.AuthCode then 0 else 1], none)) := by
  constructor
  · intro t' e h
    simp [model_T0x0102_ReplyBody, h]
  · intro t' h
    simp only [model_T0x0102_ReplyBody, h, X.bind_ok, Option.isSome_none, Bool.false_eq_true, if_false, model_T0x0102_ReplyBody_j1]
    by_cases hp : j.Header.TerminalPhoneNo = t'.AuthCode
    · simp [hp, P0x8001_Encode_eq]
    · have c : (j.Header.TerminalPhoneNo == t'.AuthCode) = false := by simpa using hp
      simp [c, hp, P0x8001_Encode_eq]

/-- registration response 0x8100 (serial, result, authentication code to the end of the body): `Parse(Encode(v)) = v` on
the translated code, for every code -/
theorem P0x8100_roundtrip (fuel : Nat) (t q : model_P0x8100) (j : jt808_JTMessage) :
    ∃ body, model_P0x8100_Encode fuel t = X.ok body ∧
      ∃ r, model_P0x8100_Parse fuel q { j with Body := body } = X.ok (r, none) ∧
        r.RespondSerialNumber = t.RespondSerialNumber ∧ r.Result = t.Result ∧ r.AuthCode = t.AuthCode := by
  refine ⟨_, P0x8100_Encode_eq fuel t, ?_⟩
  have hb : Go.be16 t.RespondSerialNumber ++ [t.Result] ++ t.AuthCode =
      (t.RespondSerialNumber >>> 8).toUInt8 :: t.RespondSerialNumber.toUInt8 :: t.Result :: t.AuthCode := by simp [Go.be16]
  have c : decide (len (Go.be16 t.RespondSerialNumber ++ [t.Result] ++ t.AuthCode) < (3 : Int)) = false := by
    rw [hb]; simp; omega
  simp only [model_P0x8100_Parse, c, Bool.false_eq_true, if_false, model_P0x8100_Parse_j1, hb]
  have s1 : sliceTo ((t.RespondSerialNumber >>> 8).toUInt8 :: t.RespondSerialNumber.toUInt8 :: t.Result :: t.AuthCode) (2 : Int) =
      X.ok [(t.RespondSerialNumber >>> 8).toUInt8, t.RespondSerialNumber.toUInt8] := by
    unfold sliceTo; rw [slice_int _ 0 2 (by simp; omega)]; simp
  have s2 : idx ((t.RespondSerialNumber >>> 8).toUInt8 :: t.RespondSerialNumber.toUInt8 :: t.Result :: t.AuthCode) (2 : Int) = X.ok t.Result := by
    simp [idx]
  have s3 : sliceFrom ((t.RespondSerialNumber >>> 8).toUInt8 :: t.RespondSerialNumber.toUInt8 :: t.Result :: t.AuthCode) (3 : Int) = X.ok t.AuthCode := by
    have := sliceFrom_ok ((t.RespondSerialNumber >>> 8).toUInt8 :: t.RespondSerialNumber.toUInt8 :: t.Result :: t.AuthCode) 3 (by simp)
    simpa using this
  have s4 : u16 [(t.RespondSerialNumber >>> 8).toUInt8, t.RespondSerialNumber.toUInt8] = X.ok t.RespondSerialNumber := by
    have := u16_be16 t.RespondSerialNumber []
    simpa using this
  rw [s1]; simp only [X.bind_ok]
  rw [s4]; simp only [X.bind_ok]
  rw [s2]; simp only [X.bind_ok]
  rw [s3]; simp only [X.bind_ok]
  exact ⟨_, rfl, rfl, rfl, rfl⟩

end JT.Gen.GoModel
