import JT.Model.AttStream
import JT.Props.C02
/-! No checked access of the attachment stream model is ever out of range. -/
namespace JT.AttStream
open JT
open JT.Layout (slice)

theorem slice_eq (b : Bytes) (lo hi : Nat) (h1 : lo ≤ hi) (h2 : hi ≤ b.length) :
    slice b lo hi = .ok ((b.drop lo).take (hi - lo)) := by simp [slice, h1, h2]

theorem idx_eq (b : Bytes) (i : Nat) (h : i < b.length) : idx b i = .ok b[i] := by
  simp [idx, List.getElem?_eq_getElem h]

theorem be32At_eq (b : Bytes) (i : Nat) (h : i + 4 ≤ b.length) :
    be32At b i = .ok (beN ((b.drop i).take 4)) := by
  simp only [be32At, slice_eq b i (i + 4) (by omega) h, Res.bind_ok, Res.pure_eq]
  congr 3; omega

/-! ### chunk header -/
theorem hasMinHead_ne_panic (dl : Dialect) (d : Bytes) : hasMinHead dl d ≠ .panic := by
  unfold hasMinHead
  split
  · split
    · simp
    · rw [idx_eq d 4 (by omega)]; simp
  · simp

theorem parseHead_ok (dl : Dialect) (d : Bytes) (h : hasMinHead dl d = .ok true) :
    ∃ hd, parseHead dl d = .ok hd ∧ hd.headLen ≤ d.length ∧ 9 ≤ hd.headLen := by
  unfold hasMinHead at h
  unfold parseHead
  by_cases hh : dl.hlj = true
  · simp only [hh, if_true] at h ⊢
    by_cases h5 : d.length < 5
    · simp [h5] at h
    · rw [if_neg h5, idx_eq d 4 (by omega)] at h
      simp only [Res.bind_ok, Res.pure_eq, Res.ok.injEq, decide_eq_true_eq] at h
      rw [slice_eq d 0 4 (by omega) (by omega), idx_eq d 4 (by omega)]
      simp only [Res.bind_ok]
      rw [slice_eq d 5 _ (by omega) (by omega), be32At_eq d _ (by omega)]
      simp only [Res.bind_ok]
      rw [be32At_eq d _ (by omega)]
      simp only [Res.bind_ok]
      rw [slice_eq d _ d.length (by omega) (by omega)]
      simp only [Res.bind_ok, Res.pure_eq]
      exact ⟨_, rfl, by simp only; omega, by simp only; omega⟩
  · simp only [hh] at h ⊢
    simp only [Bool.false_eq_true, if_false, Res.ok.injEq, decide_eq_true_eq] at h ⊢
    rw [slice_eq d 0 4 (by omega) (by omega), slice_eq d 4 54 (by omega) (by omega)]
    simp only [Res.bind_ok]
    rw [be32At_eq d 54 (by omega), be32At_eq d 58 (by omega)]
    simp only [Res.bind_ok]
    rw [slice_eq d 62 d.length (by omega) (by omega)]
    simp only [Res.bind_ok, Res.pure_eq]
    exact ⟨_, rfl, by simp only; omega, by simp only; omega⟩

/-! ### control-frame bodies -/
theorem parse1211_ne_panic (b : Bytes) : parse1211 b ≠ .panic := by
  unfold parse1211
  split
  · simp
  · rw [idx_eq b 0 (by omega)]
    simp only [Res.bind_ok]
    split
    · simp
    · next _ hl =>
      have hl' : b.length = 6 + b[0].toNat := by omega
      rw [slice_eq b 1 _ (by omega) (by omega), Res.bind_ok, idx_eq b _ (by omega), Res.bind_ok,
        be32At_eq b _ (by omega)]
      simp

theorem parseItems_ne_panic (body : Bytes) : ∀ (n start : Nat), parseItems body n start ≠ .panic
  | 0, _ => by simp [parseItems]
  | n + 1, start => by
    unfold parseItems
    split
    · simp
    · rw [idx_eq body start (by omega)]
      simp only [Res.bind_ok]
      split
      · simp
      · rw [slice_eq body _ _ (by omega) (by omega), Res.bind_ok, be32At_eq body _ (by omega), Res.bind_ok]
        have ih := parseItems_ne_panic body n (start + 1 + body[start].toNat + 4)
        cases hr : parseItems body n (start + 1 + body[start].toNat + 4) with
        | ok v => simp
        | err => simp
        | panic => exact absurd hr ih

theorem parseSign_ok (dl : Dialect) (d : Bytes) : parseSign dl d = .ok () := by
  unfold parseSign
  split
  · rfl
  · rw [slice_eq d 0 _ (by omega) (by omega), Res.bind_ok, slice_eq d _ _ (by omega) (by omega), Res.bind_ok,
      idx_eq d _ (by omega), Res.bind_ok, idx_eq d _ (by omega), Res.bind_ok,
      slice_eq d _ d.length (by omega) (by omega)]
    rfl

theorem parse1210_ne_panic (dl : Dialect) (body : Bytes) : parse1210 dl body ≠ .panic := by
  unfold parse1210
  generalize (if dl.hlj = true then 0 else dl.idLen) = idLen
  simp only
  by_cases hlen : body.length < idLen + dl.signLen + 32 + 1 + 1
  · simp [hlen]
  · rw [if_neg hlen, slice_eq body 0 _ (by omega) (by omega), Res.bind_ok, slice_eq body _ _ (by omega) (by omega), Res.bind_ok,
      parseSign_ok, Res.bind_ok, slice_eq body _ _ (by omega) (by omega), Res.bind_ok,
      idx_eq body _ (by omega), Res.bind_ok, idx_eq body _ (by omega), Res.bind_ok]
    split
    · simp
    · exact parseItems_ne_panic _ _ _

theorem hasMinHead_cases (dl : Dialect) (d : Bytes) : hasMinHead dl d = .ok true ∨ hasMinHead dl d = .ok false := by
  unfold hasMinHead
  split
  · split
    · exact Or.inr rfl
    · rw [idx_eq d 4 (by omega)]
      simp only [Res.bind_ok, Res.pure_eq]
      by_cases h : d.length ≥ 4 + 1 + d[4].toNat + 4 + 4 <;> simp [h]
  · by_cases h : d.length ≥ 62 <;> simp [h]

/-- what one round guarantees: no panic, no error outcome of the `Res` kind, and a processed unit consumes bytes
and hands the default handler what it dereferences -/
def Good (s : Sess) (r : Res (Sess × Out)) : Prop :=
  ∃ s' o, r = .ok (s', o) ∧ ∀ e rp, o = .event e rp → s'.hist.length < s.hist.length ∧ handlerOk e = true

theorem slice_length (b : Bytes) (lo hi : Nat) (h1 : lo ≤ hi) (h2 : hi ≤ b.length) :
    ((b.drop lo).take (hi - lo)).length = hi - lo := by
  simp; omega

theorem stageStream_good (dl : Dialect) (s : Sess) : Good s (stageStream dl s) := by
  unfold stageStream
  rcases hasMinHead_cases dl s.hist with hm | hm
  · rw [hm]
    obtain ⟨hd, hp, hl1, hl2⟩ := parseHead_ok dl s.hist hm
    simp only [Res.bind_ok, Bool.not_true, Bool.false_eq_true, if_false, hp]
    by_cases hlen : s.hist.length ≥ hd.headLen + hd.len
    · rw [if_pos hlen]
      cases hf : s.recs.find? (·.name = hd.name) with
      | none => exact ⟨s, .fail, rfl, by intro e rp h; cases h⟩
      | some r =>
        simp only
        rw [slice_eq s.hist _ _ (by omega) (by omega), Res.bind_ok, slice_eq s.hist 0 _ (by omega) (by omega),
          Res.bind_ok, slice_eq s.hist _ s.hist.length (by omega) (by omega), Res.bind_ok]
        refine ⟨_, _, rfl, ?_⟩
        intro e rp h
        injection h with h1 h2
        subst h1
        refine ⟨?_, ?_⟩
        · simp only [List.length_take, List.length_drop]; omega
        · by_cases hc : (r.cur + (4294967296 - (lookupOff r.offs hd.off).getD 0 % 4294967296) + hd.len) % 4294967296 = r.size <;>
            simp [handlerOk, hc]
    · rw [if_neg hlen]
      exact ⟨s, .needMore, rfl, by intro e rp h; cases h⟩
  · rw [hm]
    simp only [Res.bind_ok, Bool.not_false, if_true]
    exact ⟨s, .needMore, rfl, by intro e rp h; cases h⟩

theorem position7e_lt (b : Bytes) (i : Nat) (h : position7e b = some i) : i < b.length := by
  unfold position7e at h
  exact (List.findIdx?_eq_some_iff_getElem.mp h).1

theorem stageJT_good (dl : Dialect) (s : Sess) : Good s (stageJT dl s) := by
  unfold stageJT
  by_cases h10 : s.hist.length < 10
  · rw [if_pos h10]; exact ⟨s, .needMore, rfl, by intro e rp h; cases h⟩
  · rw [if_neg h10, slice_eq s.hist 1 s.hist.length (by omega) (by omega), Res.bind_ok]
    cases hpos : position7e ((s.hist.drop 1).take (s.hist.length - 1)) with
    | none => exact ⟨s, .needMore, rfl, by intro e rp h; cases h⟩
    | some i =>
      have hi := position7e_lt _ i hpos
      simp only [List.length_take, List.length_drop] at hi
      simp only
      rw [slice_eq s.hist 0 (i + 2) (by omega) (by omega), Res.bind_ok]
      cases hdec : Frame.decode ((s.hist.drop 0).take (i + 2 - 0)) with
      | panic => exact absurd hdec (C02.decode_total _).1
      | err => exact ⟨s, .fail, rfl, by intro e rp h; cases h⟩
      | ok m =>
        simp only
        rw [slice_eq s.hist (i + 2) s.hist.length (by omega) (by omega), Res.bind_ok]
        have hrest : ((s.hist.drop (i + 2)).take (s.hist.length - (i + 2))).length < s.hist.length := by
          simp only [List.length_take, List.length_drop]; omega
        by_cases h1 : m.h.id = 0x1210
        · rw [if_pos h1]
          cases hp : parse1210 dl m.body with
          | panic => exact absurd hp (parse1210_ne_panic dl m.body)
          | err => exact ⟨_, .fail, rfl, by intro e rp h; cases h⟩
          | ok items =>
            refine ⟨_, _, rfl, ?_⟩
            intro e rp h
            injection h with h1 h2
            subst h1
            exact ⟨hrest, rfl⟩
        · rw [if_neg h1]
          by_cases h2 : m.h.id = 0x1211
          · rw [if_pos h2]
            cases hp : parse1211 m.body with
            | panic => exact absurd hp (parse1211_ne_panic m.body)
            | err => exact ⟨_, .fail, rfl, by intro e rp h; cases h⟩
            | ok v =>
              refine ⟨_, _, rfl, ?_⟩
              intro e rp h
              injection h with h1 h2
              subst h1
              exact ⟨hrest, rfl⟩
          · rw [if_neg h2]
            by_cases h3 : m.h.id = 0x1212
            · rw [if_pos h3]
              cases hp : parse1211 m.body with
              | panic => exact absurd hp (parse1211_ne_panic m.body)
              | err => exact ⟨_, .fail, rfl, by intro e rp h; cases h⟩
              | ok v =>
                obtain ⟨nm, ty, sz⟩ := v
                simp only
                cases hf : List.find? (fun x => decide (x.name = nm)) (({ s with hist := (s.hist.drop (i + 2)).take (s.hist.length - (i + 2)) } : Sess).recs) with
                | none =>
                  refine ⟨_, _, rfl, ?_⟩
                  intro e rp h
                  injection h with h1 h2
                  subst h1
                  exact ⟨hrest, rfl⟩
                | some r =>
                  refine ⟨_, _, rfl, ?_⟩
                  intro e rp h
                  injection h with h1 h2
                  subst h1
                  refine ⟨hrest, ?_⟩
                  by_cases hc : r.cur ≠ r.size <;> simp [handlerOk, hc]
            · rw [if_neg h3]
              exact ⟨_, .fail, rfl, by intro e rp h; cases h⟩

theorem stepIter_good (dl : Dialect) (s : Sess) : Good s (stepIter dl s) := by
  unfold stepIter
  split
  · exact stageStream_good dl s
  · exact stageJT_good dl s

end JT.AttStream
