import JT.Model.Parse
/-! Helper definitions and lemmas for C05 (sub-package reassembly): expected slot contents, association-list
facts, one-step lemmas for `completePack`, runs from the idle and the active state. -/
namespace JT.Parse
open JT JT.Frame

/-- slots of a transfer in which exactly the package numbers in `seen` (1-based) have arrived -/
def expSlots (bodies : List Bytes) (seen : List Nat) : List Bytes :=
  bodies.mapIdx (fun i b => if (i + 1) ∈ seen then b else [])

theorem expSlots_length (bodies : List Bytes) (seen : List Nat) : (expSlots bodies seen).length = bodies.length := by
  simp [expSlots]

theorem expSlots_set (bodies : List Bytes) (seen : List Nat) (k : Nat) (h1 : 1 ≤ k) (hk : k ≤ bodies.length) :
    (expSlots bodies seen).set (k - 1) (bodies.getD (k - 1) []) = expSlots bodies (k :: seen) := by
  apply List.ext_getElem
  · simp [expSlots]
  · intro i h1' h2'
    simp only [expSlots, List.length_set, List.length_mapIdx] at h1' h2'
    simp only [expSlots, List.getElem_set, List.getElem_mapIdx, List.mem_cons]
    by_cases hik : k - 1 = i
    · have : i + 1 = k := by omega
      simp [hik, this, List.getD_eq_getElem?_getD, List.getElem?_eq_getElem h1']
    · have : i + 1 ≠ k := by omega
      simp [hik, this]

/-- number of non-empty slots -/
def received (slots : List Bytes) : Nat := (slots.filter (fun s => !s.isEmpty)).length

theorem received_le (slots : List Bytes) : received slots ≤ slots.length := by
  simp [received]; exact List.length_filter_le _ _

theorem received_full (bodies : List Bytes) (hne : ∀ b ∈ bodies, b ≠ []) (seen : List Nat) :
    received (expSlots bodies seen) = bodies.length ↔ ∀ i, i < bodies.length → (i + 1) ∈ seen := by
  have hl := expSlots_length bodies seen
  have key := List.length_filter_eq_length_iff (p := fun s : Bytes => !s.isEmpty) (l := expSlots bodies seen)
  rw [hl] at key
  unfold received
  rw [key]
  constructor
  · intro h i hi
    have hi' : i < (expSlots bodies seen).length := by omega
    have := h _ (List.getElem_mem hi')
    simp only [expSlots, List.getElem_mapIdx] at this
    apply Classical.byContradiction; intro hn
    simp [hn] at this
  · intro h s hs
    obtain ⟨i, hi, rfl⟩ := List.getElem_of_mem hs
    have hi' : i < bodies.length := by omega
    have hm := h i hi'
    have := hne _ (List.getElem_mem hi')
    simp only [expSlots, List.getElem_mapIdx, hm, if_true]
    cases hb : bodies[i] with
    | nil => exact absurd hb this
    | cons _ _ => rfl

theorem expSlots_all (bodies : List Bytes) (seen : List Nat) (h : ∀ i, i < bodies.length → (i + 1) ∈ seen) :
    expSlots bodies seen = bodies := by
  apply List.ext_getElem
  · simp [expSlots]
  · intro i h1 h2
    simp [expSlots, h i h2]

/-! ### association-list facts -/
theorem findRec_remove_self (recs : List Transfer) (id : Nat) : findRec (removeRec recs id) id = none := by
  simp [findRec, removeRec, List.find?_eq_none]

theorem findRec_remove_other (recs : List Transfer) (id id' : Nat) (h : id ≠ id') :
    findRec (removeRec recs id') id = findRec recs id := by
  induction recs with
  | nil => rfl
  | cons t r ih =>
    unfold findRec removeRec at ih ⊢
    by_cases h1 : t.id = id'
    · have h3 : ¬ t.id = id := by omega
      rw [List.filter_cons_of_neg (by simp [h1]), List.find?_cons_of_neg (by simp [h3])]
      exact ih
    · rw [List.filter_cons_of_pos (by simp [h1])]
      by_cases h2 : t.id = id
      · rw [List.find?_cons_of_pos (by simp [h2]), List.find?_cons_of_pos (by simp [h2])]
      · rw [List.find?_cons_of_neg (by simp [h2]), List.find?_cons_of_neg (by simp [h2])]
        exact ih

theorem findRec_append_new (recs : List Transfer) (t : Transfer) (id : Nat) :
    findRec (removeRec recs t.id ++ [t]) id = if t.id = id then some t else findRec recs id := by
  by_cases h : t.id = id
  · subst h
    have := findRec_remove_self recs t.id
    simp only [findRec] at this ⊢
    simp [List.find?_append, this]
  · have := findRec_remove_other recs id t.id (fun e => h e.symm)
    simp only [findRec] at this ⊢
    simp [List.find?_append, this, h]

theorem findRec_map_self (recs : List Transfer) (id : Nat) (t t' : Transfer)
    (hf : findRec recs id = some t) (ht' : t'.id = id) :
    findRec (recs.map (fun x => if x.id = id then t' else x)) id = some t' := by
  induction recs with
  | nil => simp [findRec] at hf
  | cons a r ih =>
    unfold findRec at hf ih ⊢
    rw [List.map_cons]
    by_cases ha : a.id = id
    · rw [if_pos ha, List.find?_cons_of_pos (by simp [ht'])]
    · rw [if_neg ha, List.find?_cons_of_neg (by simp [ha])]
      rw [List.find?_cons_of_neg (by simp [ha])] at hf
      exact ih hf

theorem findRec_map_other (recs : List Transfer) (id id' : Nat) (t' : Transfer) (h : id ≠ id') (ht' : t'.id = id') :
    findRec (recs.map (fun x => if x.id = id' then t' else x)) id = findRec recs id := by
  induction recs with
  | nil => rfl
  | cons a r ih =>
    unfold findRec at ih ⊢
    rw [List.map_cons]
    by_cases ha : a.id = id'
    · have h3 : ¬ a.id = id := by omega
      have h2 : ¬ t'.id = id := by omega
      rw [if_pos ha, List.find?_cons_of_neg (by simp [h2]), List.find?_cons_of_neg (by simp [h3])]
      exact ih
    · rw [if_neg ha]
      by_cases hb : a.id = id
      · rw [List.find?_cons_of_pos (by simp [hb]), List.find?_cons_of_pos (by simp [hb])]
      · rw [List.find?_cons_of_neg (by simp [hb]), List.find?_cons_of_neg (by simp [hb])]
        exact ih

theorem findRec_id (recs : List Transfer) (id : Nat) (t : Transfer) (h : findRec recs id = some t) : t.id = id := by
  have := List.find?_some h
  simpa using this


/-- every package number 1..N is in `seen` -/
def AllSeen (N : Nat) (seen : List Nat) : Prop := ∀ i, i < N → (i + 1) ∈ seen

/-- the target transfer is in progress inside `recs` with exactly the numbers in `seen` stored -/
structure Active (id : Nat) (bodies : List Bytes) (seen : List Nat) (recs : List Transfer) : Prop where
  found : ∃ t, findRec recs id = some t ∧ t.slots = expSlots bodies seen
  notall : ¬ AllSeen bodies.length seen

/-- packet `k` (2 ≤ k ≤ N) of the target transfer arrives while the transfer is in progress -/
theorem step_target (now id : Nat) (bodies : List Bytes) (hne : ∀ b ∈ bodies, b ≠ []) (seen : List Nat)
    (recs : List Transfer) (ha : Active id bodies seen recs) (m : PMsg)
    (hid : m.h.id = id) (hsum : m.h.sum = bodies.length) (hk2 : 2 ≤ m.h.no) (hkN : m.h.no ≤ bodies.length)
    (hbody : m.body = bodies.getD (m.h.no - 1) []) :
    (AllSeen bodies.length (m.h.no :: seen) →
      ∃ recs', completePack now recs m = (recs', .done bodies.flatten) ∧ findRec recs' id = none) ∧
    (¬ AllSeen bodies.length (m.h.no :: seen) →
      ∃ recs', completePack now recs m = (recs', .none) ∧ Active id bodies (m.h.no :: seen) recs') := by
  obtain ⟨⟨t, hf, hs⟩, _⟩ := ha
  have hN : bodies.length ≠ 0 := by omega
  have hno1 : ¬ m.h.no = 1 := by omega
  have hset := expSlots_set bodies seen m.h.no (by omega) hkN
  have hcond : ¬ (m.h.no = 0 ∨ m.h.no > (expSlots bodies seen).length ∨ bodies.length ≠ (expSlots bodies seen).length) := by
    rw [expSlots_length]; omega
  have hrf := received_full bodies hne (m.h.no :: seen)
  unfold received at hrf
  constructor
  · intro hall
    refine ⟨removeRec recs id, ?_, findRec_remove_self recs id⟩
    simp only [completePack, hsum, hN, if_false, hno1, hid, hf, hcond, hs, hbody, hset, hrf.mpr hall, if_true]
    rw [expSlots_all bodies _ hall, List.take_length]
  · intro hnall
    have hrec : ¬ (List.filter (fun s => !s.isEmpty) (expSlots bodies (m.h.no :: seen))).length = bodies.length :=
      fun h => hnall (hrf.mp h)
    refine ⟨recs.map (fun x => if x.id = id then { t with slots := expSlots bodies (m.h.no :: seen), update := now } else x),
      ?_, ⟨⟨{ t with slots := expSlots bodies (m.h.no :: seen), update := now },
        findRec_map_self recs id t { t with slots := expSlots bodies (m.h.no :: seen), update := now } hf
          (findRec_id recs id t hf), rfl⟩, hnall⟩⟩
    simp only [completePack, hsum, hN, if_false, hno1, hid, hf, hcond, hs, hbody, hset, hrec]


/-- a message of another id (or an unfragmented one) never touches the record of `id` -/
theorem completePack_other (now id : Nat) (recs : List Transfer) (m : PMsg) (h : m.h.sum = 0 ∨ m.h.id ≠ id) :
    findRec (completePack now recs m).1 id = findRec recs id := by
  unfold completePack
  by_cases h0 : m.h.sum = 0
  · simp [h0]
  · have hid : m.h.id ≠ id := by rcases h with h | h; exact absurd h h0; exact h
    have hid' : id ≠ m.h.id := fun e => hid e.symm
    simp only [h0, if_false]
    -- recs1
    have h1 : findRec (if m.h.no = 1 then removeRec recs m.h.id ++ [⟨m.h.id, List.replicate m.h.sum [], now, now, m.h⟩] else recs) id
        = findRec recs id := by
      split
      · have := findRec_append_new recs ⟨m.h.id, List.replicate m.h.sum [], now, now, m.h⟩ id
        simp only at this
        rw [this, if_neg hid]
      · rfl
    split
    · exact h1
    · next t ht =>
      split
      · exact h1
      · split
        · dsimp only; rw [findRec_remove_other _ _ _ hid', h1]
        · dsimp only
          rw [findRec_map_other _ id m.h.id _ hid' (by exact findRec_id _ _ t ht), h1]

/-- an impossible package number (0, or beyond the announced total) of the target id changes nothing -/
theorem completePack_impossible (now id : Nat) (bodies : List Bytes) (seen : List Nat) (recs : List Transfer)
    (ha : Active id bodies seen recs) (m : PMsg) (hid : m.h.id = id)
    (hno : m.h.no = 0 ∨ bodies.length < m.h.no) (hN : 1 ≤ bodies.length) :
    completePack now recs m = (recs, .none) := by
  obtain ⟨⟨t, hf, hs⟩, _⟩ := ha
  unfold completePack
  by_cases h0 : m.h.sum = 0
  · simp [h0]
  · have hno1 : ¬ m.h.no = 1 := by omega
    have hc : m.h.no = 0 ∨ m.h.no > t.slots.length ∨ m.h.sum ≠ t.slots.length := by
      rw [hs, expSlots_length]; omega
    simp only [h0, if_false, hno1, hid, hf, hc, if_true]

/-- a package of the target id that announces ANOTHER total than the transfer under way (and is not a first package)
changes nothing and completes nothing (D28) -/
theorem completePack_other_total (now id : Nat) (bodies : List Bytes) (seen : List Nat) (recs : List Transfer)
    (ha : Active id bodies seen recs) (m : PMsg) (hid : m.h.id = id) (hno1 : m.h.no ≠ 1)
    (hsum : m.h.sum ≠ bodies.length) :
    completePack now recs m = (recs, .none) := by
  obtain ⟨⟨t, hf, hs⟩, _⟩ := ha
  unfold completePack
  by_cases h0 : m.h.sum = 0
  · simp [h0]
  · have hc : m.h.no = 0 ∨ m.h.no > t.slots.length ∨ m.h.sum ≠ t.slots.length := by
      rw [hs, expSlots_length]; exact Or.inr (Or.inr hsum)
    simp only [h0, if_false, hno1, hid, hf, hc, if_true]

/-- once the transfer is gone (completed), late packets 2..N of it are ignored -/
theorem completePack_idle (now id : Nat) (recs : List Transfer) (hidle : findRec recs id = none) (m : PMsg)
    (hid : m.h.id = id) (hno1 : m.h.no ≠ 1) :
    completePack now recs m = (recs, .none) := by
  unfold completePack
  by_cases h0 : m.h.sum = 0
  · simp [h0]
  · simp only [h0, if_false, hno1, hid, hidle]

/-- packet 1 of the target transfer, from any state -/
theorem step_first (now id : Nat) (bodies : List Bytes) (hne : ∀ b ∈ bodies, b ≠ []) (hN : 1 ≤ bodies.length)
    (recs : List Transfer) (m : PMsg) (hid : m.h.id = id) (hsum : m.h.sum = bodies.length) (hno : m.h.no = 1)
    (hbody : m.body = bodies.getD 0 []) :
    (bodies.length = 1 → ∃ recs', completePack now recs m = (recs', .done bodies.flatten) ∧ findRec recs' id = none) ∧
    (bodies.length ≠ 1 → ∃ recs', completePack now recs m = (recs', .none) ∧ Active id bodies [1] recs') := by
  have hN0 : bodies.length ≠ 0 := by omega
  have hempty : List.replicate bodies.length ([] : Bytes) = expSlots bodies [] := by
    apply List.ext_getElem
    · simp [expSlots]
    · intro i h1 h2; simp [expSlots]
  have hset := expSlots_set bodies [] 1 (Nat.le_refl _) hN
  simp only [Nat.sub_self] at hset
  have hnew := findRec_append_new recs ⟨id, List.replicate bodies.length [], now, now, m.h⟩ id
  simp only [if_true] at hnew
  rw [hempty] at hnew
  have hcond : ¬ (1 = 0 ∨ 1 > (expSlots bodies []).length ∨ bodies.length ≠ (expSlots bodies []).length) := by
    rw [expSlots_length]; omega
  have hrf := received_full bodies hne [1]
  unfold received at hrf
  constructor
  · intro h1
    have hall : AllSeen bodies.length [1] := by intro i hi; simp; omega
    refine ⟨removeRec (removeRec recs id ++ [(⟨id, expSlots bodies [], now, now, m.h⟩ : Transfer)]) id, ?_,
      findRec_remove_self _ id⟩
    simp only [completePack, hsum, hN0, if_false, hno, hid, if_true, hnew, hempty, hcond, hbody, hset,
      Nat.sub_self, hrf.mpr hall]
    rw [expSlots_all bodies _ hall, List.take_length]
  · intro h1
    have hnall : ¬ AllSeen bodies.length [1] := by
      intro h; have := h 1 (by omega); simp at this
    have hrec : ¬ (List.filter (fun s => !s.isEmpty) (expSlots bodies [1])).length = bodies.length :=
      fun h => hnall (hrf.mp h)
    refine ⟨(removeRec recs id ++ [(⟨id, expSlots bodies [], now, now, m.h⟩ : Transfer)]).map
        (fun x : Transfer => if x.id = id then (⟨id, expSlots bodies [1], now, now, m.h⟩ : Transfer) else x), ?_,
      ⟨⟨(⟨id, expSlots bodies [1], now, now, m.h⟩ : Transfer), findRec_map_self _ id _ _ hnew rfl, rfl⟩, hnall⟩⟩
    simp only [completePack, hsum, hN0, if_false, hno, hid, if_true, hnew, hempty, hcond, hbody, hset,
      Nat.sub_self, hrec]

/-- messages that may follow packet 1 of the target transfer (`bodies` = its N packet bodies) -/
inductive Admissible (id : Nat) (bodies : List Bytes) : PMsg → Prop
  /-- packet k (2 ≤ k ≤ N) of the transfer, duplicates allowed -/
  | target (m : PMsg) : m.h.id = id → m.h.sum = bodies.length → 2 ≤ m.h.no → m.h.no ≤ bodies.length →
      m.body = bodies.getD (m.h.no - 1) [] → Admissible id bodies m
  /-- an ordinary, unfragmented message of any id -/
  | unfrag (m : PMsg) : m.h.sum = 0 → Admissible id bodies m
  /-- any message (fragment or not, of this or another transfer) with a different id -/
  | other (m : PMsg) : m.h.id ≠ id → Admissible id bodies m
  /-- a packet of this id with an impossible number: 0 or greater than the announced total -/
  | impossible (m : PMsg) : m.h.id = id → (m.h.no = 0 ∨ bodies.length < m.h.no) → Admissible id bodies m

/-- completions produced while the timed messages are processed in order: (message id, reassembled body) -/
def deliveries : List Transfer → List (Nat × PMsg) → List (Nat × Bytes)
  | _, [] => []
  | recs, (now, m) :: r =>
    match completePack now recs m with
    | (recs', .done d) => (m.h.id, d) :: deliveries recs' r
    | (recs', _) => deliveries recs' r

/-- package numbers of the target id seen in a message list -/
def nums (id : Nat) (ms : List (Nat × PMsg)) : List Nat :=
  (ms.filter (fun p => p.2.h.id = id ∧ p.2.h.sum ≠ 0)).map (·.2.h.no)

theorem AllSeen.mono {N : Nat} {s s' : List Nat} (h : AllSeen N s) (hs : ∀ x ∈ s, x ∈ s') : AllSeen N s' :=
  fun i hi => hs _ (h i hi)

theorem idle_run (id : Nat) (bodies : List Bytes) (hN : 1 ≤ bodies.length) : ∀ (ms : List (Nat × PMsg)) (recs : List Transfer),
    findRec recs id = none → (∀ p ∈ ms, Admissible id bodies p.2) →
    (deliveries recs ms).filter (fun d => d.1 = id) = []
  | [], _, _, _ => rfl
  | (now, m) :: r, recs, hidle, hadm => by
    have hr : ∀ p ∈ r, Admissible id bodies p.2 := fun p hp => hadm p (by simp [hp])
    have hm := hadm (now, m) (by simp)
    simp only [deliveries]
    cases hm with
    | target hid _ hk2 _ _ =>
      have hk2' : 2 ≤ m.h.no := hk2
      rw [completePack_idle now id recs hidle m hid (by omega)]
      exact idle_run id bodies hN r recs hidle hr
    | impossible hid hno =>
      have hno' : m.h.no = 0 ∨ bodies.length < m.h.no := hno
      rw [completePack_idle now id recs hidle m hid (by omega)]
      exact idle_run id bodies hN r recs hidle hr
    | unfrag h0 =>
      have h0 : m.h.sum = 0 := h0
      have hfr := completePack_other now id recs m (Or.inl h0)
      rcases hc : completePack now recs m with ⟨recs', out⟩
      rw [hc] at hfr
      have : out = .none := by
        simp [completePack, h0] at hc; exact hc.2.symm
      subst this
      exact idle_run id bodies hN r recs' (by rw [hfr]; exact hidle) hr
    | other hid =>
      have hid : m.h.id ≠ id := hid
      have hfr := completePack_other now id recs m (Or.inr hid)
      rcases hc : completePack now recs m with ⟨recs', out⟩
      rw [hc] at hfr
      have hidle' : findRec recs' id = none := by rw [hfr]; exact hidle
      cases out with
      | none => exact idle_run id bodies hN r recs' hidle' hr
      | panic => exact idle_run id bodies hN r recs' hidle' hr
      | done d =>
        simp only [List.filter_cons]
        rw [if_neg (by simpa using hid)]
        exact idle_run id bodies hN r recs' hidle' hr

theorem nums_cons_target (id : Nat) (now : Nat) (m : PMsg) (r : List (Nat × PMsg)) (hid : m.h.id = id) (hs : m.h.sum ≠ 0) :
    nums id ((now, m) :: r) = m.h.no :: nums id r := by
  simp [nums, List.filter_cons, hid, hs]

theorem mem_nums_cons (id : Nat) (p : Nat × PMsg) (r : List (Nat × PMsg)) (x : Nat) (h : x ∈ nums id r) :
    x ∈ nums id (p :: r) := by
  simp only [nums, List.filter_cons] at h ⊢
  split
  · simp only [List.map_cons, List.mem_cons]; right; exact h
  · exact h

theorem active_run (id : Nat) (bodies : List Bytes) (hne : ∀ b ∈ bodies, b ≠ []) (hN : 1 ≤ bodies.length) :
    ∀ (ms : List (Nat × PMsg)) (recs : List Transfer) (seen : List Nat),
    Active id bodies seen recs → (∀ p ∈ ms, Admissible id bodies p.2) →
    (AllSeen bodies.length (seen ++ nums id ms) →
      (deliveries recs ms).filter (fun d => d.1 = id) = [(id, bodies.flatten)]) ∧
    (¬ AllSeen bodies.length (seen ++ nums id ms) →
      (deliveries recs ms).filter (fun d => d.1 = id) = [])
  | [], recs, seen, ha, _ => by
    constructor
    · intro h; exact absurd (by simpa [nums] using h) ha.notall
    · intro _; rfl
  | (now, m) :: r, recs, seen, ha, hadm => by
    have hr : ∀ p ∈ r, Admissible id bodies p.2 := fun p hp => hadm p (by simp [hp])
    have hm := hadm (now, m) (by simp)
    simp only [deliveries]
    cases hm with
    | target hid hsum hk2 hkN hbody =>
      have hid : m.h.id = id := hid
      have hsum : m.h.sum = bodies.length := hsum
      have hnums := nums_cons_target id now m r hid (by omega)
      obtain ⟨s1, s2⟩ := step_target now id bodies hne seen recs ha m hid hsum hk2 hkN hbody
      by_cases hall : AllSeen bodies.length (m.h.no :: seen)
      · obtain ⟨recs', hc, hidle⟩ := s1 hall
        rw [hc]
        have hrest := idle_run id bodies hN r recs' hidle hr
        constructor
        · intro _
          simp only [List.filter_cons, hid, decide_true, if_true, hrest]
        · intro hn
          exfalso; apply hn
          rw [hnums]
          exact hall.mono (fun x hx => by simp at hx ⊢; rcases hx with h | h <;> simp [h])
      · obtain ⟨recs', hc, hact⟩ := s2 hall
        rw [hc]
        obtain ⟨i1, i2⟩ := active_run id bodies hne hN r recs' (m.h.no :: seen) hact hr
        have hiff : AllSeen bodies.length (seen ++ nums id ((now, m) :: r)) ↔
            AllSeen bodies.length (m.h.no :: seen ++ nums id r) := by
          rw [hnums]
          constructor <;> intro h <;> apply h.mono <;> intro x hx <;> simp at hx ⊢ <;>
            rcases hx with h | h | h <;> simp [h]
        exact ⟨fun h => i1 (hiff.mp h), fun h => i2 (fun h' => h (hiff.mpr h'))⟩
    | impossible hid hno =>
      have hid : m.h.id = id := hid
      rw [completePack_impossible now id bodies seen recs ha m hid hno hN]
      obtain ⟨i1, i2⟩ := active_run id bodies hne hN r recs seen ha hr
      have hiff : AllSeen bodies.length (seen ++ nums id ((now, m) :: r)) ↔
          AllSeen bodies.length (seen ++ nums id r) := by
        constructor
        · intro h i hi
          have := h i hi
          simp only [List.mem_append] at this ⊢
          rcases this with h1 | h1
          · exact Or.inl h1
          · right
            simp only [nums, List.filter_cons] at h1
            split at h1
            · simp only [List.map_cons, List.mem_cons] at h1
              rcases h1 with h2 | h2
              · exfalso
                have hno' : m.h.no = 0 ∨ bodies.length < m.h.no := hno
                have : i + 1 = m.h.no := h2
                omega
              · exact h2
            · exact h1
        · intro h
          exact h.mono (fun x hx => by
            simp only [List.mem_append] at hx ⊢
            rcases hx with h1 | h1
            · exact Or.inl h1
            · exact Or.inr (mem_nums_cons id _ r x h1))
      exact ⟨fun h => i1 (hiff.mp h), fun h => i2 (fun h' => h (hiff.mpr h'))⟩
    | unfrag h0 =>
      have h0 : m.h.sum = 0 := h0
      have hc : completePack now recs m = (recs, .none) := by simp [completePack, h0]
      rw [hc]
      have hnums : nums id ((now, m) :: r) = nums id r := by
        simp [nums, List.filter_cons, h0]
      rw [hnums]
      exact active_run id bodies hne hN r recs seen ha hr
    | other hid =>
      have hid : m.h.id ≠ id := hid
      have hnums : nums id ((now, m) :: r) = nums id r := by
        simp [nums, List.filter_cons, hid]
      rw [hnums]
      have hfr := completePack_other now id recs m (Or.inr hid)
      rcases hc : completePack now recs m with ⟨recs', out⟩
      rw [hc] at hfr
      have hact : Active id bodies seen recs' := by
        obtain ⟨⟨t, hf, hs⟩, hn⟩ := ha
        exact ⟨⟨t, by rw [hfr]; exact hf, hs⟩, hn⟩
      have ih := active_run id bodies hne hN r recs' seen hact hr
      cases out with
      | none => exact ih
      | panic => exact ih
      | done d =>
        simp only [List.filter_cons]
        rw [if_neg (by simpa using hid)]
        exact ih
end JT.Parse
