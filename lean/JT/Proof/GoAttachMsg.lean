import JT.Gen.GoAttach
import JT.Proof.GoFrame
import JT.Proof.GoModelBcd
/-!
# The control-frame splitter of the attachment server, as translated from attachment/package.go

`(*PackageProgress).parseJT808Message` looks for the closing delimiter of the first frame in the pending bytes, decodes
that prefix with the frame codec and drops it from the buffer. `parseJT808Message_spec`: with the loop budget above the
buffer length it never panics; fewer than 10 pending bytes or no second delimiter → "insufficient data", buffer untouched;
otherwise exactly the bytes up to and including the first delimiter after position 0 are decoded — accepted frames are
consumed and returned with the model's fields, rejected ones are reported and left in place.
-/
namespace JT.Gen.GoAttach
open JT JT.Go JT.Frame JT.Gen.GoFrame JT.Gen.GoModel

theorem parseJT808Message_spec (fuel : Nat) (p : attachment_PackageProgress) (hf : p.historyData.length < fuel) :
    (p.historyData.length < 10 →
      attachment_PackageProgress_parseJT808Message fuel p = X.ok (p, jt808_JTMessage.zero, some "ErrInsufficientDataLen")) ∧
    (10 ≤ p.historyData.length → indexByte (p.historyData.drop 1) 0x7e = -1 →
      attachment_PackageProgress_parseJT808Message fuel p = X.ok (p, jt808_JTMessage.zero, some "ErrInsufficientDataLen")) ∧
    (10 ≤ p.historyData.length → ∀ k : Nat, indexByte (p.historyData.drop 1) 0x7e = (k : Int) →
      k + 2 ≤ p.historyData.length ∧
      match Frame.decode (p.historyData.take (k + 2)) with
      | .ok m => ∃ j, attachment_PackageProgress_parseJT808Message fuel p =
          X.ok ({ p with historyData := p.historyData.drop (k + 2) }, j, none) ∧ Rep j m
      | .err => attachment_PackageProgress_parseJT808Message fuel p = X.ok (p, jt808_JTMessage.zero, some "error")
      | .panic => False) := by
  refine ⟨?_, ?_, ?_⟩
  · intro h
    have c : decide (len p.historyData < (10 : Int)) = true := by simp; omega
    simp only [attachment_PackageProgress_parseJT808Message, c, if_true]
  · intro h hi
    have c : decide (len p.historyData < (10 : Int)) = false := by simp; omega
    simp only [attachment_PackageProgress_parseJT808Message, c, Bool.false_eq_true, if_false, attachment_PackageProgress_parseJT808Message_j2]
    have hs : sliceFrom p.historyData (1 : Int) = X.ok (p.historyData.drop 1) := sliceFrom_ok _ 1 (by omega)
    rw [hs]
    simp only [X.bind_ok, hi, beq_self_eq_true, if_true]
  · intro h k hi
    have hr := indexByte_range (p.historyData.drop 1) 0x7e
    have hk : k + 2 ≤ p.historyData.length := by
      rcases hr with h1 | ⟨_, h2⟩
      · rw [hi] at h1; omega
      · rw [hi] at h2; simp only [List.length_drop] at h2; omega
    refine ⟨hk, ?_⟩
    have c : decide (len p.historyData < (10 : Int)) = false := by simp; omega
    have hs : sliceFrom p.historyData (1 : Int) = X.ok (p.historyData.drop 1) := sliceFrom_ok _ 1 (by omega)
    have hne : (((k : Int)) == (-1 : Int)) = false := by simp
    have hto : sliceTo p.historyData ((k : Int) + 2) = X.ok (p.historyData.take (k + 2)) := by
      unfold sliceTo
      have := slice_ok p.historyData 0 (k + 2) (by omega) hk
      simpa using this
    have hfrom : sliceFrom p.historyData ((k : Int) + 2) = X.ok (p.historyData.drop (k + 2)) := by
      have := sliceFrom_ok p.historyData (k + 2) hk
      simpa using this
    have hd := decode_go fuel { jt808_JTMessage.zero with Header := { jt808_Header.zero with Property := jt808_BodyProperty.zero }, VerifyCode := (0 : UInt8), Body := ([] : Bytes) }
      (p.historyData.take (k + 2)) (by simp; omega)
    cases hdec : Frame.decode (p.historyData.take (k + 2)) with
    | panic => rw [hdec] at hd; exact hd.elim
    | err =>
      rw [hdec] at hd
      obtain ⟨j, e, hj⟩ := hd
      simp only [attachment_PackageProgress_parseJT808Message, c, Bool.false_eq_true, if_false, attachment_PackageProgress_parseJT808Message_j2,
        hs, X.bind_ok, hi, hne, attachment_PackageProgress_parseJT808Message_j1, hto, hj, Option.isSome_some, if_true]
    | ok m =>
      rw [hdec] at hd
      obtain ⟨j, hj, hrep, _⟩ := hd
      refine ⟨j, ?_, hrep⟩
      simp only [attachment_PackageProgress_parseJT808Message, c, Bool.false_eq_true, if_false, attachment_PackageProgress_parseJT808Message_j2,
        hs, X.bind_ok, hi, hne, attachment_PackageProgress_parseJT808Message_j1, hto, hj, Option.isSome_none, hfrom]

end JT.Gen.GoAttach
