import JT.Gen.GoFrame
import JT.Proof.GoSem
import JT.Model.Frame
import JT.Proof.UnescChecked
import JT.Proof.FrameChecked
/-!
# The functions translated from protocol/jt808 and protocol/utils equal the hand-written model

`JT/Gen/GoFrame.lean` is regenerated from the Go source on every run. Each theorem here states that a translated
function, run with enough fuel, returns exactly what the model of `JT/Model/Frame.lean` says — in particular it never
panics and never runs out of fuel. The property theorems (C01, C02, C03) are about the model; these equalities carry
them over to the translated source.
-/
namespace JT.Gen.GoFrame
open JT JT.Go JT.Frame

/-! ### utils.CreateVerifyCode -/

theorem xor_loop (data rng : Bytes) : ∀ (fuel i : Nat) (code : UInt8), i ≤ rng.length → rng.length - i < fuel →
    utils_CreateVerifyCode_loop1 fuel data code rng (i : Int) = X.ok (code ^^^ xorAll (rng.drop i))
  | 0, _, _, _, h => by omega
  | fuel + 1, i, code, hi, hf => by
    unfold utils_CreateVerifyCode_loop1
    by_cases hlt : i < rng.length
    · have hc : decide ((i : Int) < len rng) = true := by simp [hlt]
      simp only [hc, if_true, idx_lt rng i hlt, X.bind_ok]
      have ih := xor_loop data rng fuel (i + 1) (code ^^^ rng[i]) (by omega) (by omega)
      rw [show ((i : Int) + (1 : Int)) = ((i + 1 : Nat) : Int) by omega, ih]
      rw [List.drop_eq_getElem_cons hlt]
      simp [xorAll, UInt8.xor_assoc]
    · have hc : decide ((i : Int) < len rng) = false := by simp; omega
      have : i = rng.length := by omega
      simp [hc, this, xorAll]

theorem createVerifyCode_eq (d : Bytes) (fuel : Nat) (h : d.length < fuel) :
    utils_CreateVerifyCode fuel d = X.ok (xorAll d) := by
  unfold utils_CreateVerifyCode
  have := xor_loop d d fuel 0 0 (by omega) (by omega)
  simp only [Int.natCast_zero] at this
  simp [this]

/-! ### escape -/

/-- no byte of `d[a, b)` needs escaping -/
def plainRun (d : Bytes) (a b : Nat) : Prop := ∀ j, a ≤ j → j < b → ∀ h : j < d.length, d[j] ≠ 0x7e ∧ d[j] ≠ 0x7d

theorem escBody_plain : ∀ (l : Bytes), (∀ x ∈ l, x ≠ 0x7e ∧ x ≠ 0x7d) → escBody l = l
  | [], _ => rfl
  | b :: r, h => by
    have hb := h b (by simp)
    simp [escBody, hb.1, hb.2, escBody_plain r (fun x hx => h x (by simp [hx]))]

theorem escBody_append_plain : ∀ (l r : Bytes), (∀ x ∈ l, x ≠ 0x7e ∧ x ≠ 0x7d) → escBody (l ++ r) = l ++ escBody r
  | [], _, _ => rfl
  | b :: t, r, h => by
    have hb := h b (by simp)
    simp [escBody, hb.1, hb.2, escBody_append_plain t r (fun x hx => h x (by simp [hx]))]

theorem seg_plain (d : Bytes) (a b : Nat) (hp : plainRun d a b) (hb : b ≤ d.length) :
    ∀ x ∈ (d.drop a).take (b - a), x ≠ 0x7e ∧ x ≠ 0x7d := by
  intro x hx
  rw [List.mem_iff_getElem] at hx
  obtain ⟨k, hk, rfl⟩ := hx
  simp only [List.length_take, List.length_drop] at hk
  simp only [List.getElem_take, List.getElem_drop]
  exact hp (a + k) (by omega) (by omega) (by omega)

theorem drop_split (d : Bytes) (a b : Nat) (h1 : a ≤ b) (h2 : b ≤ d.length) :
    d.drop a = (d.drop a).take (b - a) ++ d.drop b := by
  have : d.drop b = (d.drop a).drop (b - a) := by rw [List.drop_drop]; congr 1; omega
  rw [this, List.take_append_drop]

/-- loop invariant: `buf ++ escBody (d.drop index)` does not change, the pending run `[index, i)` is plain -/
theorem escape_loop (d : Bytes) : ∀ (fuel i index : Nat) (buf : Bytes), index ≤ i → i ≤ d.length → plainRun d index i →
    d.length - i < fuel →
    ∃ (bufF : Bytes) (indexF : Nat), jt808_escape_loop1 fuel d buf (index : Int) (i : Int) = X.ok (bufF, (indexF : Int)) ∧ indexF ≤ d.length ∧
      bufF ++ d.drop indexF = buf ++ escBody (d.drop index)
  | 0, _, _, _, _, _, _, h => by omega
  | fuel + 1, i, index, buf, h1, h2, hp, hf => by
    unfold jt808_escape_loop1
    by_cases hlt : i < d.length
    · have hc : decide ((i : Int) < len d) = true := by simp [hlt]
      simp only [hc, if_true, idx_lt d i hlt, X.bind_ok]
      have hsplit := drop_split d index i h1 h2
      have hrun := seg_plain d index i hp h2
      have hesc : escBody (d.drop index) = (d.drop index).take (i - index) ++ escBody (d.drop i) := by
        conv => lhs; rw [hsplit]
        exact escBody_append_plain _ _ hrun
      have hcons : d.drop i = d[i] :: d.drop (i + 1) := List.drop_eq_getElem_cons hlt
      have hnext : ((i : Int) + (1 : Int)) = ((i + 1 : Nat) : Int) := by omega
      by_cases e1 : d[i] = 126
      · simp only [e1, beq_self_eq_true, if_true, slice_ok d index i h1 h2, X.bind_ok, hnext]
        obtain ⟨bufF, indexF, hr, hle, heq⟩ := escape_loop d fuel (i + 1) (i + 1)
          (buf ++ (d.drop index).take (i - index) ++ [125, 2]) (by omega) (by omega) (by intro j a b; omega) (by omega)
        refine ⟨bufF, indexF, hr, hle, ?_⟩
        rw [heq, hesc, hcons, e1]
        simp [escBody]
      · by_cases e2 : d[i] = 125
        · have n1 : (d[i] == (126 : UInt8)) = false := by simp [e1]
          simp only [n1, e2, beq_self_eq_true, if_true, slice_ok d index i h1 h2, X.bind_ok, hnext]
          simp only [show ((125 : UInt8) == 126) = false by decide, Bool.false_eq_true, if_false]
          obtain ⟨bufF, indexF, hr, hle, heq⟩ := escape_loop d fuel (i + 1) (i + 1)
            (buf ++ (d.drop index).take (i - index) ++ [125, 1]) (by omega) (by omega) (by intro j a b; omega) (by omega)
          refine ⟨bufF, indexF, hr, hle, ?_⟩
          rw [heq, hesc, hcons, e2]
          simp [escBody]
        · have n1 : (d[i] == (126 : UInt8)) = false := by simp [e1]
          have n2 : (d[i] == (125 : UInt8)) = false := by simp [e2]
          simp only [n1, n2, Bool.false_eq_true, if_false, X.bind_ok, hnext]
          have hp' : plainRun d index (i + 1) := by
            intro j a b hj
            by_cases hji : j = i
            · subst hji; exact ⟨e1, e2⟩
            · exact hp j a (by omega) hj
          exact escape_loop d fuel (i + 1) index buf (by omega) (by omega) hp' (by omega)
    · have hc : decide ((i : Int) < len d) = false := by simp; omega
      simp only [hc, Bool.false_eq_true, if_false]
      exact ⟨buf, index, rfl, by omega, by
        have : i = d.length := by omega
        subst this
        rw [escBody_plain (d.drop index)]
        intro x hx
        have := seg_plain d index d.length hp (Nat.le_refl _)
        rw [List.take_of_length_le (by simp)] at this
        exact this x hx⟩

theorem escape_eq (d : Bytes) (fuel : Nat) (h : d.length < fuel) : jt808_escape fuel d = X.ok (Frame.escape d) := by
  unfold jt808_escape
  obtain ⟨bufF, indexF, hr, hle, heq⟩ := escape_loop d fuel 0 0 ([] ++ [126]) (by omega) (by omega) (by intro j a b; omega) (by omega)
  simp only [Int.natCast_zero] at hr
  simp only [hr, X.bind_ok, sliceFrom_ok d indexF hle]
  simp only [List.drop_zero, List.nil_append] at heq
  simp [Frame.escape, heq]

/-! ### unescape -/

/-- how the Go function reports what the checked model computes -/
def convU : Res (Option Bytes) → X (Bytes × GoErr)
  | .ok (some r) => X.ok (r, none)
  | .ok none => X.ok ([], some "ErrUnqualifiedData")
  | .err => X.panic
  | .panic => X.panic

theorem cslice_eq (d : Bytes) (a b : Nat) :
    Layout.slice d a b = if a ≤ b ∧ b ≤ d.length then .ok ((d.drop a).take (b - a)) else .panic := rfl

theorem unescape_loop (d : Bytes) (hd : 1 ≤ d.length) : ∀ (fuel i index : Nat) (buf : Bytes), d.length - i < fuel →
    jt808_unescape_loop1 fuel d buf (index : Int) (i : Int) = convU (unescLoopC d fuel i index buf)
  | 0, _, _, _, h => by omega
  | fuel + 1, i, index, buf, hf => by
    unfold jt808_unescape_loop1 unescLoopC
    have hcond : decide ((i : Int) < len d - (1 : Int)) = decide (i < d.length - 1) := by
      have : ((i : Int) < (d.length : Int) - 1) ↔ (i < d.length - 1) := by omega
      simp only [len_eq, this]
    rw [hcond]
    by_cases hlt : i < d.length - 1
    · have hi : i < d.length := by omega
      have hi1 : i + 1 < d.length := by omega
      simp only [hlt, decide_true, if_true, idx_lt d i hi, X.bind_ok]
      have ci : AttStream.idx d i = .ok d[i] := by simp [AttStream.idx, hi]
      have ci1 : AttStream.idx d (i + 1) = .ok d[i + 1] := by simp [AttStream.idx, hi1]
      simp only [ci, Res.bind_ok, bind, Res.bind]
      have e1 : ((i : Int) + (1 : Int)) = ((i + 1 : Nat) : Int) := by omega
      have e2 : (((i + 1 : Nat) : Int) + (1 : Int)) = ((i + 2 : Nat) : Int) := by omega
      have e3 : (((i + 1 : Nat) : Int) - (1 : Int)) = (i : Int) := by omega
      have e4 : (d.length : Int) - (1 : Int) = ((d.length - 1 : Nat) : Int) := by omega
      by_cases hv : d[i] = 125
      · simp only [hv, beq_self_eq_true, if_true, e1, idx_lt d (i + 1) hi1, X.bind_ok, ci1, e2, e3]
        by_cases w1 : d[i + 1] = 1
        · simp only [w1, beq_self_eq_true, if_true, slice_nat, cslice_eq, Nat.add_sub_cancel]
          by_cases hs : index ≤ i ∧ i ≤ d.length
          · simp only [hs, and_self, if_true, X.bind_ok]
            exact unescape_loop d hd fuel (i + 2) (i + 2) _ (by omega)
          · simp only [hs, if_false, X.bind_panic]; rfl
        · have nw1 : (d[i + 1] == (1 : UInt8)) = false := by simp [w1]
          simp only [nw1, w1, Bool.false_eq_true, if_false]
          by_cases w2 : d[i + 1] = 2
          · simp only [w2, beq_self_eq_true, if_true, slice_nat, cslice_eq, Nat.add_sub_cancel]
            by_cases hs : index ≤ i ∧ i ≤ d.length
            · simp only [hs, and_self, if_true, X.bind_ok]
              exact unescape_loop d hd fuel (i + 2) (i + 2) _ (by omega)
            · simp only [hs, if_false, X.bind_panic]; rfl
          · have nw2 : (d[i + 1] == (2 : UInt8)) = false := by simp [w2]
            simp only [nw2, w2, Bool.false_eq_true, if_false, len_eq, e4]
            have hend : (((i + 1 : Nat) : Int) == ((d.length - 1 : Nat) : Int)) = decide (i + 1 = d.length - 1) := by
              by_cases h : i + 1 = d.length - 1
              · simp [h]
              · simp [h, Int.natCast_inj]; omega
            rw [hend]
            by_cases he : i + 1 = d.length - 1
            · simp only [he, decide_true, if_true, slice_nat, cslice_eq]
              by_cases hs : index ≤ d.length - 1 ∧ d.length - 1 ≤ d.length
              · simp only [hs, and_self, if_true, X.bind_ok]; rfl
              · simp only [hs, if_false, X.bind_panic]; rfl
            · simp only [he, decide_false, Bool.false_eq_true, if_false]; rfl
      · have nv : (d[i] == (125 : UInt8)) = false := by simp [hv]
        simp only [nv, hv, Bool.false_eq_true, if_false, e1]
        exact unescape_loop d hd fuel (i + 1) index buf (by omega)
    · simp only [hlt, decide_false, Bool.false_eq_true, if_false]
      unfold jt808_unescape_j2
      have e4 : (d.length : Int) - (1 : Int) = ((d.length - 1 : Nat) : Int) := by omega
      simp only [len_eq, e4]
      have hne : ((index : Int) != ((d.length - 1 : Nat) : Int)) = decide (index ≠ d.length - 1) := by
        by_cases h : index = d.length - 1
        · simp [h]
        · simp [h, Int.natCast_inj]
      rw [hne]
      by_cases he : index ≠ d.length - 1
      · simp only [he, decide_true, if_true, slice_nat, cslice_eq, ne_eq, not_false_eq_true]
        by_cases hs : index ≤ d.length - 1 ∧ d.length - 1 ≤ d.length
        · simp only [hs, and_self, if_true, X.bind_ok]; rfl
        · simp only [hs, if_false, X.bind_panic]; rfl
      · have he' : index = d.length - 1 := by omega
        simp only [he', ne_eq, not_true_eq_false, decide_false, Bool.false_eq_true, if_false, X.bind_ok]; rfl

theorem unescapeGo_eqC (d : Bytes) (fuel : Nat) (h : d.length < fuel) : jt808_unescape fuel d = convU (unescapeC d) := by
  unfold jt808_unescape unescapeC
  by_cases h2 : d.length > 2
  · have c1 : decide (len d ≤ (2 : Int)) = false := decide_eq_false (by show ¬ ((d.length : Int) ≤ 2); omega)
    have hl : d.length - 1 < d.length := by omega
    have e4 : len d - (1 : Int) = ((d.length - 1 : Nat) : Int) := by show ((d.length : Int) - 1 = ((d.length - 1 : Nat) : Int)); omega
    have g0 := idx_lt d 0 (by omega)
    have gl := idx_lt d (d.length - 1) hl
    simp only [Int.natCast_zero] at g0
    have h0 : 0 < d.length := by omega
    have ci0 : AttStream.idx d 0 = .ok d[0] := by simp [AttStream.idx, h0]
    have cil : AttStream.idx d (d.length - 1) = .ok d[d.length - 1] := by simp [AttStream.idx, hl]
    simp only [c1, Bool.false_eq_true, if_false, g0, X.bind_ok, e4, gl, h2, if_true, ci0, cil, bind, Res.bind]
    by_cases ha : d[0] = 126
    · simp only [ha, bne_self_eq_false, Bool.false_eq_true, if_false, X.bind_ok, true_and]
      by_cases hz : d[d.length - 1] = 126
      · simp only [hz, bne_self_eq_false, Bool.false_eq_true, if_false, if_true]
        unfold jt808_unescape_j3
        by_cases hm : (125 : UInt8) ∈ d
        · have hc : d.contains (125 : UInt8) = true := by simp [hm]
          simp only [hc, Bool.not_true, Bool.false_eq_true, if_false, hm, if_true]
          have g := unescape_loop d (by omega) fuel 1 1 [] (by omega)
          simp only [Int.natCast_one] at g
          rw [g, unescLoopC_spec d (by omega) hz fuel 1 1 [] (by omega) (by omega) (by simp [seg_self]) (by omega),
            unescLoopC_spec d (by omega) hz d.length 1 1 [] (by omega) (by omega) (by simp [seg_self]) (by omega)]
        · have hc : d.contains (125 : UInt8) = false := by simp [hm]
          simp only [hc, Bool.not_false, if_true, hm, if_false]
          have g := slice_nat d 1 (d.length - 1)
          simp only [Int.natCast_one] at g
          rw [e4, g, cslice_eq]
          by_cases hs : 1 ≤ d.length - 1 ∧ d.length - 1 ≤ d.length
          · simp only [hs, and_self, if_true, X.bind_ok]; rfl
          · omega
      · have nz : (d[d.length - 1] != (126 : UInt8)) = true := by simp [hz]
        simp only [nz, if_true, hz, if_false]; rfl
    · have na : (d[0] != (126 : UInt8)) = true := by simp [ha]
      simp only [na, if_true, X.bind_ok, ha, false_and, if_false]; rfl
  · have c1 : decide (len d ≤ (2 : Int)) = true := decide_eq_true (by show ((d.length : Int) ≤ 2); omega)
    simp only [c1, if_true, X.bind_ok, h2, if_false]; rfl

/-- **`unescape` as translated from the source is the model `Frame.unescape`**: no panic, no fuel exhaustion -/
theorem unescape_eq (d : Bytes) (fuel : Nat) (h : d.length < fuel) :
    jt808_unescape fuel d = match Frame.unescape d with
      | some r => X.ok (r, none)
      | none => X.ok ([], some "ErrUnqualifiedData") := by
  rw [unescapeGo_eqC d fuel h, unescapeC_eq]
  cases Frame.unescape d <;> rfl

end JT.Gen.GoFrame
