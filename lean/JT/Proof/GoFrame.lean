import JT.Gen.GoFrame
import JT.Proof.GoSem
import JT.Model.Frame
import JT.Proof.UnescChecked
import JT.Proof.FrameChecked
/-!
# The functions translated from protocol/jt808 and protocol/utils equal the hand-written model

`JT/Gen/GoFrame.lean` is regenerated from the Go source on every run. Each theorem here states that a translated
function, run with enough fuel, returns exactly what the model of `JT/Model/Frame.lean` says — in particular it never
panics and never runs out of fuel. The property theorems (C01, C02, C03) are about the model; these equalities carry
them over to the translated source.
-/
namespace JT.Gen.GoFrame
open JT JT.Go JT.Frame

/-! ### utils.CreateVerifyCode -/

theorem xor_loop (data rng : Bytes) : ∀ (fuel i : Nat) (code : UInt8), i ≤ rng.length → rng.length - i < fuel →
    utils_CreateVerifyCode_loop1 fuel data code rng (i : Int) = X.ok (code ^^^ xorAll (rng.drop i))
  | 0, _, _, _, h => by omega
  | fuel + 1, i, code, hi, hf => by
    unfold utils_CreateVerifyCode_loop1
    by_cases hlt : i < rng.length
    · have hc : decide ((i : Int) < len rng) = true := by simp [hlt]
      simp only [hc, if_true, idx_lt rng i hlt, X.bind_ok]
      have ih := xor_loop data rng fuel (i + 1) (code ^^^ rng[i]) (by omega) (by omega)
      rw [show ((i : Int) + (1 : Int)) = ((i + 1 : Nat) : Int) by omega, ih]
      rw [List.drop_eq_getElem_cons hlt]
      simp [xorAll, UInt8.xor_assoc]
    · have hc : decide ((i : Int) < len rng) = false := by simp; omega
      have : i = rng.length := by omega
      simp [hc, this, xorAll]

theorem createVerifyCode_eq (d : Bytes) (fuel : Nat) (h : d.length < fuel) :
    utils_CreateVerifyCode fuel d = X.ok (xorAll d) := by
  unfold utils_CreateVerifyCode
  have := xor_loop d d fuel 0 0 (by omega) (by omega)
  simp only [Int.natCast_zero] at this
  simp [this]

/-! ### escape -/

/-- no byte of `d[a, b)` needs escaping -/
def plainRun (d : Bytes) (a b : Nat) : Prop := ∀ j, a ≤ j → j < b → ∀ h : j < d.length, d[j] ≠ 0x7e ∧ d[j] ≠ 0x7d

theorem escBody_plain : ∀ (l : Bytes), (∀ x ∈ l, x ≠ 0x7e ∧ x ≠ 0x7d) → escBody l = l
  | [], _ => rfl
  | b :: r, h => by
    have hb := h b (by simp)
    simp [escBody, hb.1, hb.2, escBody_plain r (fun x hx => h x (by simp [hx]))]

theorem escBody_append_plain : ∀ (l r : Bytes), (∀ x ∈ l, x ≠ 0x7e ∧ x ≠ 0x7d) → escBody (l ++ r) = l ++ escBody r
  | [], _, _ => rfl
  | b :: t, r, h => by
    have hb := h b (by simp)
    simp [escBody, hb.1, hb.2, escBody_append_plain t r (fun x hx => h x (by simp [hx]))]

theorem seg_plain (d : Bytes) (a b : Nat) (hp : plainRun d a b) (hb : b ≤ d.length) :
    ∀ x ∈ (d.drop a).take (b - a), x ≠ 0x7e ∧ x ≠ 0x7d := by
  intro x hx
  rw [List.mem_iff_getElem] at hx
  obtain ⟨k, hk, rfl⟩ := hx
  simp only [List.length_take, List.length_drop] at hk
  simp only [List.getElem_take, List.getElem_drop]
  exact hp (a + k) (by omega) (by omega) (by omega)

theorem drop_split (d : Bytes) (a b : Nat) (h1 : a ≤ b) (h2 : b ≤ d.length) :
    d.drop a = (d.drop a).take (b - a) ++ d.drop b := by
  have : d.drop b = (d.drop a).drop (b - a) := by rw [List.drop_drop]; congr 1; omega
  rw [this, List.take_append_drop]

/-- loop invariant: `buf ++ escBody (d.drop index)` does not change, the pending run `[index, i)` is plain -/
theorem escape_loop (d : Bytes) : ∀ (fuel i index : Nat) (buf : Bytes), index ≤ i → i ≤ d.length → plainRun d index i →
    d.length - i < fuel →
    ∃ (bufF : Bytes) (indexF : Nat), jt808_escape_loop1 fuel d buf (index : Int) (i : Int) = X.ok (bufF, (indexF : Int)) ∧ indexF ≤ d.length ∧
      bufF ++ d.drop indexF = buf ++ escBody (d.drop index)
  | 0, _, _, _, _, _, _, h => by omega
  | fuel + 1, i, index, buf, h1, h2, hp, hf => by
    unfold jt808_escape_loop1
    by_cases hlt : i < d.length
    · have hc : decide ((i : Int) < len d) = true := by simp [hlt]
      simp only [hc, if_true, idx_lt d i hlt, X.bind_ok]
      have hsplit := drop_split d index i h1 h2
      have hrun := seg_plain d index i hp h2
      have hesc : escBody (d.drop index) = (d.drop index).take (i - index) ++ escBody (d.drop i) := by
        conv => lhs; rw [hsplit]
        exact escBody_append_plain _ _ hrun
      have hcons : d.drop i = d[i] :: d.drop (i + 1) := List.drop_eq_getElem_cons hlt
      have hnext : ((i : Int) + (1 : Int)) = ((i + 1 : Nat) : Int) := by omega
      by_cases e1 : d[i] = 126
      · simp only [e1, beq_self_eq_true, if_true, slice_ok d index i h1 h2, X.bind_ok, hnext]
        obtain ⟨bufF, indexF, hr, hle, heq⟩ := escape_loop d fuel (i + 1) (i + 1)
          (buf ++ (d.drop index).take (i - index) ++ [125, 2]) (by omega) (by omega) (by intro j a b; omega) (by omega)
        refine ⟨bufF, indexF, hr, hle, ?_⟩
        rw [heq, hesc, hcons, e1]
        simp [escBody]
      · by_cases e2 : d[i] = 125
        · have n1 : (d[i] == (126 : UInt8)) = false := by simp [e1]
          simp only [n1, e2, beq_self_eq_true, if_true, slice_ok d index i h1 h2, X.bind_ok, hnext]
          simp only [show ((125 : UInt8) == 126) = false by decide, Bool.false_eq_true, if_false]
          obtain ⟨bufF, indexF, hr, hle, heq⟩ := escape_loop d fuel (i + 1) (i + 1)
            (buf ++ (d.drop index).take (i - index) ++ [125, 1]) (by omega) (by omega) (by intro j a b; omega) (by omega)
          refine ⟨bufF, indexF, hr, hle, ?_⟩
          rw [heq, hesc, hcons, e2]
          simp [escBody]
        · have n1 : (d[i] == (126 : UInt8)) = false := by simp [e1]
          have n2 : (d[i] == (125 : UInt8)) = false := by simp [e2]
          simp only [n1, n2, Bool.false_eq_true, if_false, X.bind_ok, hnext]
          have hp' : plainRun d index (i + 1) := by
            intro j a b hj
            by_cases hji : j = i
            · subst hji; exact ⟨e1, e2⟩
            · exact hp j a (by omega) hj
          exact escape_loop d fuel (i + 1) index buf (by omega) (by omega) hp' (by omega)
    · have hc : decide ((i : Int) < len d) = false := by simp; omega
      simp only [hc, Bool.false_eq_true, if_false]
      exact ⟨buf, index, rfl, by omega, by
        have : i = d.length := by omega
        subst this
        rw [escBody_plain (d.drop index)]
        intro x hx
        have := seg_plain d index d.length hp (Nat.le_refl _)
        rw [List.take_of_length_le (by simp)] at this
        exact this x hx⟩

theorem escape_eq (d : Bytes) (fuel : Nat) (h : d.length < fuel) : jt808_escape fuel d = X.ok (Frame.escape d) := by
  unfold jt808_escape
  obtain ⟨bufF, indexF, hr, hle, heq⟩ := escape_loop d fuel 0 0 ([] ++ [126]) (by omega) (by omega) (by intro j a b; omega) (by omega)
  simp only [Int.natCast_zero] at hr
  simp only [hr, X.bind_ok, sliceFrom_ok d indexF hle]
  simp only [List.drop_zero, List.nil_append] at heq
  simp [Frame.escape, heq]

/-! ### unescape -/

/-- how the Go function reports what the checked model computes -/
def convU : Res (Option Bytes) → X (Bytes × GoErr)
  | .ok (some r) => X.ok (r, none)
  | .ok none => X.ok ([], some "ErrUnqualifiedData")
  | .err => X.panic
  | .panic => X.panic

theorem cslice_eq (d : Bytes) (a b : Nat) :
    Layout.slice d a b = if a ≤ b ∧ b ≤ d.length then .ok ((d.drop a).take (b - a)) else .panic := rfl

theorem unescape_loop (d : Bytes) (hd : 1 ≤ d.length) : ∀ (fuel i index : Nat) (buf : Bytes), d.length - i < fuel →
    jt808_unescape_loop1 fuel d buf (index : Int) (i : Int) = convU (unescLoopC d fuel i index buf)
  | 0, _, _, _, h => by omega
  | fuel + 1, i, index, buf, hf => by
    unfold jt808_unescape_loop1 unescLoopC
    have hcond : decide ((i : Int) < len d - (1 : Int)) = decide (i < d.length - 1) := by
      have : ((i : Int) < (d.length : Int) - 1) ↔ (i < d.length - 1) := by omega
      simp only [len_eq, this]
    rw [hcond]
    by_cases hlt : i < d.length - 1
    · have hi : i < d.length := by omega
      have hi1 : i + 1 < d.length := by omega
      simp only [hlt, decide_true, if_true, idx_lt d i hi, X.bind_ok]
      have ci : AttStream.idx d i = .ok d[i] := by simp [AttStream.idx, hi]
      have ci1 : AttStream.idx d (i + 1) = .ok d[i + 1] := by simp [AttStream.idx, hi1]
      simp only [ci, Res.bind_ok, bind, Res.bind]
      have e1 : ((i : Int) + (1 : Int)) = ((i + 1 : Nat) : Int) := by omega
      have e2 : (((i + 1 : Nat) : Int) + (1 : Int)) = ((i + 2 : Nat) : Int) := by omega
      have e3 : (((i + 1 : Nat) : Int) - (1 : Int)) = (i : Int) := by omega
      have e4 : (d.length : Int) - (1 : Int) = ((d.length - 1 : Nat) : Int) := by omega
      by_cases hv : d[i] = 125
      · simp only [hv, beq_self_eq_true, if_true, e1, idx_lt d (i + 1) hi1, X.bind_ok, ci1, e2, e3]
        by_cases w1 : d[i + 1] = 1
        · simp only [w1, beq_self_eq_true, if_true, slice_nat, cslice_eq, Nat.add_sub_cancel]
          by_cases hs : index ≤ i ∧ i ≤ d.length
          · simp only [hs, and_self, if_true, X.bind_ok]
            exact unescape_loop d hd fuel (i + 2) (i + 2) _ (by omega)
          · simp only [hs, if_false, X.bind_panic]; rfl
        · have nw1 : (d[i + 1] == (1 : UInt8)) = false := by simp [w1]
          simp only [nw1, w1, Bool.false_eq_true, if_false]
          by_cases w2 : d[i + 1] = 2
          · simp only [w2, beq_self_eq_true, if_true, slice_nat, cslice_eq, Nat.add_sub_cancel]
            by_cases hs : index ≤ i ∧ i ≤ d.length
            · simp only [hs, and_self, if_true, X.bind_ok]
              exact unescape_loop d hd fuel (i + 2) (i + 2) _ (by omega)
            · simp only [hs, if_false, X.bind_panic]; rfl
          · have nw2 : (d[i + 1] == (2 : UInt8)) = false := by simp [w2]
            simp only [nw2, w2, Bool.false_eq_true, if_false, len_eq, e4]
            have hend : (((i + 1 : Nat) : Int) == ((d.length - 1 : Nat) : Int)) = decide (i + 1 = d.length - 1) := by
              by_cases h : i + 1 = d.length - 1
              · simp [h]
              · simp [h, Int.natCast_inj]; omega
            rw [hend]
            by_cases he : i + 1 = d.length - 1
            · simp only [he, decide_true, if_true, slice_nat, cslice_eq]
              by_cases hs : index ≤ d.length - 1 ∧ d.length - 1 ≤ d.length
              · simp only [hs, and_self, if_true, X.bind_ok]; rfl
              · simp only [hs, if_false, X.bind_panic]; rfl
            · simp only [he, decide_false, Bool.false_eq_true, if_false]; rfl
      · have nv : (d[i] == (125 : UInt8)) = false := by simp [hv]
        simp only [nv, hv, Bool.false_eq_true, if_false, e1]
        exact unescape_loop d hd fuel (i + 1) index buf (by omega)
    · simp only [hlt, decide_false, Bool.false_eq_true, if_false]
      unfold jt808_unescape_j2
      have e4 : (d.length : Int) - (1 : Int) = ((d.length - 1 : Nat) : Int) := by omega
      simp only [len_eq, e4]
      have hne : ((index : Int) != ((d.length - 1 : Nat) : Int)) = decide (index ≠ d.length - 1) := by
        by_cases h : index = d.length - 1
        · simp [h]
        · simp [h, Int.natCast_inj]
      rw [hne]
      by_cases he : index ≠ d.length - 1
      · simp only [he, decide_true, if_true, slice_nat, cslice_eq, ne_eq, not_false_eq_true]
        by_cases hs : index ≤ d.length - 1 ∧ d.length - 1 ≤ d.length
        · simp only [hs, and_self, if_true, X.bind_ok]; rfl
        · simp only [hs, if_false, X.bind_panic]; rfl
      · have he' : index = d.length - 1 := by omega
        simp only [he', ne_eq, not_true_eq_false, decide_false, Bool.false_eq_true, if_false, X.bind_ok]; rfl

theorem unescapeGo_eqC (d : Bytes) (fuel : Nat) (h : d.length < fuel) : jt808_unescape fuel d = convU (unescapeC d) := by
  unfold jt808_unescape unescapeC
  by_cases h2 : d.length > 2
  · have c1 : decide (len d ≤ (2 : Int)) = false := decide_eq_false (by show ¬ ((d.length : Int) ≤ 2); omega)
    have hl : d.length - 1 < d.length := by omega
    have e4 : len d - (1 : Int) = ((d.length - 1 : Nat) : Int) := by show ((d.length : Int) - 1 = ((d.length - 1 : Nat) : Int)); omega
    have g0 := idx_lt d 0 (by omega)
    have gl := idx_lt d (d.length - 1) hl
    simp only [Int.natCast_zero] at g0
    have h0 : 0 < d.length := by omega
    have ci0 : AttStream.idx d 0 = .ok d[0] := by simp [AttStream.idx, h0]
    have cil : AttStream.idx d (d.length - 1) = .ok d[d.length - 1] := by simp [AttStream.idx, hl]
    simp only [c1, Bool.false_eq_true, if_false, g0, X.bind_ok, e4, gl, h2, if_true, ci0, cil, bind, Res.bind]
    by_cases ha : d[0] = 126
    · simp only [ha, bne_self_eq_false, Bool.false_eq_true, if_false, X.bind_ok, true_and]
      by_cases hz : d[d.length - 1] = 126
      · simp only [hz, bne_self_eq_false, Bool.false_eq_true, if_false, if_true]
        unfold jt808_unescape_j3
        by_cases hm : (125 : UInt8) ∈ d
        · have hc : d.contains (125 : UInt8) = true := by simp [hm]
          simp only [hc, Bool.not_true, Bool.false_eq_true, if_false, hm, if_true]
          have g := unescape_loop d (by omega) fuel 1 1 [] (by omega)
          simp only [Int.natCast_one] at g
          rw [g, unescLoopC_spec d (by omega) hz fuel 1 1 [] (by omega) (by omega) (by simp [seg_self]) (by omega),
            unescLoopC_spec d (by omega) hz d.length 1 1 [] (by omega) (by omega) (by simp [seg_self]) (by omega)]
        · have hc : d.contains (125 : UInt8) = false := by simp [hm]
          simp only [hc, Bool.not_false, if_true, hm, if_false]
          have g := slice_nat d 1 (d.length - 1)
          simp only [Int.natCast_one] at g
          rw [e4, g, cslice_eq]
          by_cases hs : 1 ≤ d.length - 1 ∧ d.length - 1 ≤ d.length
          · simp only [hs, and_self, if_true, X.bind_ok]; rfl
          · omega
      · have nz : (d[d.length - 1] != (126 : UInt8)) = true := by simp [hz]
        simp only [nz, if_true, hz, if_false]; rfl
    · have na : (d[0] != (126 : UInt8)) = true := by simp [ha]
      simp only [na, if_true, X.bind_ok, ha, false_and, if_false]; rfl
  · have c1 : decide (len d ≤ (2 : Int)) = true := decide_eq_true (by show ((d.length : Int) ≤ 2); omega)
    simp only [c1, if_true, X.bind_ok, h2, if_false]; rfl

/-- **`unescape` as translated from the source is the model `Frame.unescape`**: no panic, no fuel exhaustion -/
theorem unescape_eq (d : Bytes) (fuel : Nat) (h : d.length < fuel) :
    jt808_unescape fuel d = match Frame.unescape d with
      | some r => X.ok (r, none)
      | none => X.ok ([], some "ErrUnqualifiedData") := by
  rw [unescapeGo_eqC d fuel h, unescapeC_eq]
  cases Frame.unescape d <;> rfl

/-! ### utils.Bcd2Dec never panics -/

theorem nibble_ok (fuel : Nat) (n : UInt8) : ∃ c, utils_nibbleToHexChar fuel n = X.ok c := by
  unfold utils_nibbleToHexChar utils_nibbleToHexChar_j1
  repeat' split
  all_goals exact ⟨_, rfl⟩

theorem bcd_loop (d : Bytes) : ∀ (fuel i : Nat) (out : Bytes), i ≤ d.length → out.length = 2 * d.length → d.length - i < fuel →
    ∃ (o : Bytes) (k : Int), utils_bcdConvert_loop1 fuel d out ((2 * i : Nat) : Int) (i : Int) = X.ok (o, k) ∧ o.length = 2 * d.length
  | 0, _, _, _, _, h => by omega
  | fuel + 1, i, out, hi, ho, hf => by
    unfold utils_bcdConvert_loop1
    by_cases hlt : i < d.length
    · have hc : decide ((i : Int) < len d) = true := decide_eq_true (by show ((i : Int) < (d.length : Int)); omega)
      simp only [hc, if_true, idx_lt d i hlt, X.bind_ok]
      obtain ⟨c1, h1⟩ := nibble_ok fuel (d[i] >>> 4)
      obtain ⟨c2, h2⟩ := nibble_ok fuel (d[i] &&& 15)
      have e1 : (((2 * i : Nat) : Int) + (1 : Int)) = ((2 * i + 1 : Nat) : Int) := by omega
      have e2 : (((2 * i + 1 : Nat) : Int) + (1 : Int)) = ((2 * (i + 1) : Nat) : Int) := by omega
      have e3 : ((i : Int) + (1 : Int)) = ((i + 1 : Nat) : Int) := by omega
      simp only [h1, h2, X.bind_ok, setIdx_ok out (2 * i) c1 (by omega), e1,
        setIdx_ok (out.set (2 * i) c1) (2 * i + 1) c2 (by simp; omega), e2, e3]
      exact bcd_loop d fuel (i + 1) _ (by omega) (by simp [ho]) (by omega)
    · have hc : decide ((i : Int) < len d) = false := decide_eq_false (by show ¬ ((i : Int) < (d.length : Int)); omega)
      simp only [hc, Bool.false_eq_true, if_false]
      exact ⟨out, _, rfl, ho⟩

theorem indexNe_range (b : Bytes) (c : Byte) : indexNe b c = -1 ∨ (0 ≤ indexNe b c ∧ indexNe b c < (b.length : Int)) := by
  unfold indexNe
  cases h : b.findIdx? (· != c) with
  | none => exact Or.inl rfl
  | some i =>
    have := (List.findIdx?_eq_some_iff_findIdx_eq.mp h).1
    exact Or.inr (by simp only []; omega)

theorem bcd2dec_ok (d : Bytes) (fuel : Nat) (h : d.length < fuel) : ∃ s, utils_Bcd2Dec fuel d = X.ok s := by
  unfold utils_Bcd2Dec utils_bcdConvert
  have hm : make ((2 : Int) * len d) = X.ok (List.replicate (2 * d.length) 0) := by
    rw [show (2 : Int) * len d = ((2 * d.length : Nat) : Int) by show (2 : Int) * (d.length : Int) = _; omega, make_ok]
  obtain ⟨o, k, hl, hlen⟩ := bcd_loop d fuel 0 (List.replicate (2 * d.length) 0) (by omega) (by simp) (by omega)
  simp only [Nat.mul_zero, Int.natCast_zero] at hl
  simp only [hm, X.bind_ok, hl]
  rcases indexNe_range o 48 with h1 | ⟨h0, h1⟩
  · simp [h1]
  · have hne : (indexNe o 48 != (-1 : Int)) = true := by simp; omega
    simp only [hne, if_true]
    unfold sliceFrom
    rw [slice_int o _ _ (by simp only [len_eq]; omega)]
    exact ⟨_, rfl⟩

/-! ### BodyProperty.decode, Header.decode, JTMessage.Decode -/

theorem bp_decode_spec (fuel : Nat) (p0 : jt808_BodyProperty) (t : Bytes) (ht : t.length = 2) :
    ∃ q, jt808_BodyProperty_decode fuel p0 t = X.ok q ∧ q.attribute_.toNat = beN t ∧
      q.Version.toNat = beN t / 16384 % 2 ∧ q.PacketFragmented.toNat = beN t / 8192 % 2 ∧
      q.EncryptMethod.toNat = beN t / 1024 % 2 ∧ q.BodyDayaLen.toNat = beN t % 1024 ∧
      q.isSubPackage = decide (beN t / 8192 % 2 = 1) ∧ q.bit15 = 0 := by
  obtain ⟨w, hw, hv⟩ := u16_two t ht
  unfold jt808_BodyProperty_decode
  simp only [hw, X.bind_ok]
  refine ⟨_, rfl, hv, ?_, ?_, ?_, ?_, ?_, b15 w⟩
  · simp only []; rw [b14, hv]
  · simp only []; rw [b13, hv]
  · simp only []; rw [b10, hv]
  · simp only []; rw [b0, hv]
  · simp only []
    have := b13 w
    rw [hv] at this
    by_cases h : beN t / 8192 % 2 = 1
    · simp only [h, decide_true, beq_iff_eq]
      apply UInt8.toNat_inj.mp; rw [this, h]; rfl
    · simp only [h, decide_false, beq_eq_false_iff_ne, ne_eq]
      intro hc; apply h; rw [← this, hc]; rfl

/-- the header part of `Frame.decodePlain`: the decoded header and where the body starts -/
def hdrM (p : Bytes) : Option (Header × Nat) :=
  if p.length < 4 then none else
  let id := be16 (p.getD 0 0) (p.getD 1 0)
  let attr := be16 (p.getD 2 0) (p.getD 3 0)
  let version := attr / 16384 % 2
  let frag := attr / 8192 % 2
  let encrypt := attr / 1024 % 2
  let bodyLen := attr % 1024
  let start := if version = 1 then 5 else 4
  let phoneLen := if version = 1 then 10 else 6
  if p.length < start + phoneLen + 2 then none else
  let bcd := (p.drop start).take phoneLen
  let serial := be16 (p.getD (start + phoneLen) 0) (p.getD (start + phoneLen + 1) 0)
  if frag = 1 ∧ p.length < start + phoneLen + 6 then none else
  let sum := if frag = 1 then be16 (p.getD (start + phoneLen + 2) 0) (p.getD (start + phoneLen + 3) 0) else 0
  let no := if frag = 1 then be16 (p.getD (start + phoneLen + 4) 0) (p.getD (start + phoneLen + 5) 0) else 0
  let headEnd := start + phoneLen + 2 + (if frag = 1 then 4 else 0)
  some ({ id, attr, version, frag, encrypt, bodyLen, bcd, serial, sum, no }, headEnd)

theorem decodePlain_split (p : Bytes) : decodePlain p = match hdrM p with
    | none => .err
    | some (h, he) => if he + h.bodyLen + 1 ≠ p.length then .err else
        .ok { h := h, body := (p.drop he).take h.bodyLen, verify := p.getD (he + h.bodyLen) 0 } := by
  unfold decodePlain hdrM
  simp only []
  by_cases h4 : p.length < 4
  · simp only [h4, if_true]
  · simp only [h4, if_false]
    generalize be16 (p.getD 2 0) (p.getD 3 0) = attr
    by_cases h2 : p.length < (if attr / 16384 % 2 = 1 then 5 else 4) + (if attr / 16384 % 2 = 1 then 10 else 6) + 2
    · simp only [h2, if_true]
    · simp only [h2, if_false]
      by_cases h3 : attr / 8192 % 2 = 1 ∧ p.length < (if attr / 16384 % 2 = 1 then 5 else 4) + (if attr / 16384 % 2 = 1 then 10 else 6) + 6
      · simp only [h3, and_self, if_true]
      · simp only [h3, if_false]

theorem beN_seg (p : Bytes) (i : Nat) (h : i + 2 ≤ p.length) :
    beN ((p.drop i).take (i + 2 - i)) = be16 (p.getD i 0) (p.getD (i + 1) 0) := by
  rw [show i + 2 - i = 2 by omega, take2_drop p i h, beN_two]

theorem j2_spec (fuel : Nat) (h : jt808_Header) (p : Bytes) (start phoneLen : Nat) (version : UInt8)
    (hlen : start + phoneLen + 2 ≤ p.length) (hf : p.length < fuel) :
    (h.Property.isSubPackage = true → p.length < start + phoneLen + 6 →
      ∃ h' e, jt808_Header_decode_j2 fuel h p (start : Int) (phoneLen : Int) version = X.ok (h', some e)) ∧
    ((h.Property.isSubPackage = true → start + phoneLen + 6 ≤ p.length) →
      ∃ h', jt808_Header_decode_j2 fuel h p (start : Int) (phoneLen : Int) version = X.ok (h', none) ∧
        h'.ID = h.ID ∧ h'.Property = h.Property ∧ h'.ProtocolVersion = version ∧ h'.ReplyID = h.ReplyID ∧
        h'.PlatformSerialNumber = h.PlatformSerialNumber ∧
        h'.bcdTerminalPhoneNo = (p.drop start).take phoneLen ∧
        h'.SerialNumber.toNat = be16 (p.getD (start + phoneLen) 0) (p.getD (start + phoneLen + 1) 0) ∧
        h'.SubPackageSum.toNat = (if h.Property.isSubPackage then be16 (p.getD (start + phoneLen + 2) 0) (p.getD (start + phoneLen + 3) 0) else 0) ∧
        h'.SubPackageNo.toNat = (if h.Property.isSubPackage then be16 (p.getD (start + phoneLen + 4) 0) (p.getD (start + phoneLen + 5) 0) else 0) ∧
        h'.headEnd = ((start + phoneLen + 2 + (if h.Property.isSubPackage then 4 else 0) : Nat) : Int)) := by
  unfold jt808_Header_decode_j2
  have a1 : (start : Int) + (phoneLen : Int) = ((start + phoneLen : Nat) : Int) := by omega
  have a2 : ((start + phoneLen : Nat) : Int) + (2 : Int) = ((start + phoneLen + 2 : Nat) : Int) := by omega
  have a4 : ((start + phoneLen : Nat) : Int) + (4 : Int) = ((start + phoneLen + 4 : Nat) : Int) := by omega
  have a6 : ((start + phoneLen : Nat) : Int) + (6 : Int) = ((start + phoneLen + 6 : Nat) : Int) := by omega
  simp only [a1, a2, a4, a6]
  rw [slice_ok p start (start + phoneLen) (by omega) (by omega), slice_ok p (start + phoneLen) (start + phoneLen + 2) (by omega) (by omega)]
  simp only [X.bind_ok]
  obtain ⟨s, hs⟩ := bcd2dec_ok ((p.drop start).take (start + phoneLen - start)) fuel (by simp; omega)
  have l1 : ((p.drop (start + phoneLen)).take (start + phoneLen + 2 - (start + phoneLen))).length = 2 := by simp; omega
  obtain ⟨ws, hws, hvs⟩ := u16_two _ l1
  rw [beN_seg p (start + phoneLen) hlen] at hvs
  simp only [hs, X.bind_ok, hws]
  have ebcd : (p.drop start).take (start + phoneLen - start) = (p.drop start).take phoneLen := by rw [show start + phoneLen - start = phoneLen by omega]
  by_cases hsub : h.Property.isSubPackage = true
  · simp only [hsub, if_true]
    constructor
    · intro _ hshort
      have c : decide (len p < ((start + phoneLen + 6 : Nat) : Int)) = true := decide_eq_true (by show ((p.length : Int) < _); omega)
      simp only [c, if_true]
      exact ⟨_, _, rfl⟩
    · intro hlong
      have hl6 := hlong trivial
      have c : decide (len p < ((start + phoneLen + 6 : Nat) : Int)) = false := decide_eq_false (by show ¬ ((p.length : Int) < _); omega)
      simp only [c, Bool.false_eq_true, if_false]
      unfold jt808_Header_decode_j1
      simp only [a1, a2, a4, a6]
      rw [slice_ok p (start + phoneLen + 2) (start + phoneLen + 4) (by omega) (by omega), slice_ok p (start + phoneLen + 4) (start + phoneLen + 6) (by omega) (by omega)]
      simp only [X.bind_ok]
      have l2 : ((p.drop (start + phoneLen + 2)).take (start + phoneLen + 4 - (start + phoneLen + 2))).length = 2 := by simp; omega
      have l3 : ((p.drop (start + phoneLen + 4)).take (start + phoneLen + 6 - (start + phoneLen + 4))).length = 2 := by simp; omega
      obtain ⟨w2, hw2, hv2⟩ := u16_two _ l2
      obtain ⟨w3, hw3, hv3⟩ := u16_two _ l3
      have g2 := beN_seg p (start + phoneLen + 2) (by omega)
      have g3 := beN_seg p (start + phoneLen + 4) (by omega)
      rw [show start + phoneLen + 2 + 2 = start + phoneLen + 4 by omega] at g2
      rw [show start + phoneLen + 4 + 2 = start + phoneLen + 6 by omega] at g3
      rw [g2] at hv2; rw [g3] at hv3
      simp only [hw2, hw3, X.bind_ok]
      refine ⟨_, rfl, rfl, rfl, rfl, rfl, rfl, ebcd, hvs, ?_, ?_, ?_⟩
      · simpa using hv2
      · simpa using hv3
      · simp only []; omega
  · simp only [hsub, Bool.false_eq_true, if_false]
    constructor
    · intro hc; exact hc.elim
    · intro _
      refine ⟨_, rfl, rfl, rfl, rfl, rfl, rfl, ebcd, hvs, ?_, ?_, ?_⟩
      · simp
      · simp
      · simp

def RepH (h : jt808_Header) (m : Header) : Prop :=
  h.ID.toNat = m.id ∧ h.Property.attribute_.toNat = m.attr ∧ h.Property.Version.toNat = m.version ∧
  h.Property.PacketFragmented.toNat = m.frag ∧ h.Property.EncryptMethod.toNat = m.encrypt ∧
  h.Property.BodyDayaLen.toNat = m.bodyLen ∧ h.bcdTerminalPhoneNo = m.bcd ∧ h.SerialNumber.toNat = m.serial ∧
  h.SubPackageSum.toNat = m.sum ∧ h.SubPackageNo.toNat = m.no ∧ h.ProtocolVersion = (if m.version = 1 then 3 else 2)

theorem header_decode_spec (fuel : Nat) (h0 : jt808_Header) (p : Bytes) (hf : p.length < fuel) :
    match hdrM p with
    | none => ∃ h e, jt808_Header_decode fuel h0 p = X.ok (h, some e)
    | some (m, he) => ∃ h, jt808_Header_decode fuel h0 p = X.ok (h, none) ∧ RepH h m ∧ h.headEnd = (he : Int) ∧
        h.ReplyID = h0.ReplyID ∧ h.PlatformSerialNumber = h0.PlatformSerialNumber ∧ h.Property.bit15 = 0 := by
  unfold jt808_Header_decode hdrM
  by_cases h4 : p.length < 4
  · have c4 : decide (len p < (4 : Int)) = true := decide_eq_true (by show ((p.length : Int) < 4); omega)
    simp only [h4, if_true, c4]
    exact ⟨_, _, rfl⟩
  · have c4 : decide (len p < (4 : Int)) = false := decide_eq_false (by show ¬ ((p.length : Int) < 4); omega)
    simp only [h4, if_false, c4, Bool.false_eq_true]
    unfold jt808_Header_decode_j3
    rw [slice_int p 0 2 (by omega), slice_int p 2 4 (by omega)]
    simp only [X.bind_ok, show (0 : Int).toNat = 0 from rfl, show (2 : Int).toNat = 2 from rfl, show (4 : Int).toNat = 4 from rfl]
    have l1 : ((p.drop 0).take (2 - 0)).length = 2 := by simp; omega
    have l2 : ((p.drop 2).take (4 - 2)).length = 2 := by simp; omega
    obtain ⟨wid, hwid, hvid⟩ := u16_two _ l1
    obtain ⟨q, hq, hqa, hqv, hqf, hqe, hql, hqs, hq15⟩ := bp_decode_spec fuel h0.Property _ l2
    have g0 := beN_seg p 0 (by omega)
    have g2 := beN_seg p 2 (by omega)
    simp only [Nat.zero_add, Nat.sub_zero] at g0
    rw [show (2 : Nat) + 2 = 4 from rfl, show (2 : Nat) + 1 = 3 from rfl] at g2
    rw [show (2 : Nat) - 0 = 2 from rfl, g0] at hvid
    rw [g2] at hqa hqv hqf hqe hql hqs
    simp only [hwid, X.bind_ok, hq]
    generalize be16 (p.getD 2 0) (p.getD 3 0) = attr at *
    by_cases hv : attr / 16384 % 2 = 1
    · have qv : (q.Version == (1 : UInt8)) = true := by
        rw [beq_iff_eq]; apply UInt8.toNat_inj.mp; rw [hqv, hv]; rfl
      simp only [qv, if_true, X.bind_ok, hv]
      have J := j2_spec fuel { h0 with ID := wid, Property := q } p 5 10 3
      simp only [Int.cast_ofNat_Int] at J
      by_cases hl : p.length < 5 + 10 + 2
      · have c : decide (len p < (5 : Int) + (10 : Int) + (2 : Int)) = true := decide_eq_true (by show ((p.length : Int) < _); omega)
        simp only [hl, if_true, c]
        exact ⟨_, _, rfl⟩
      · have c : decide (len p < (5 : Int) + (10 : Int) + (2 : Int)) = false := decide_eq_false (by show ¬ ((p.length : Int) < _); omega)
        simp only [hl, if_false, c, Bool.false_eq_true]
        obtain ⟨J1, J2⟩ := J (by omega) hf
        by_cases h3 : attr / 8192 % 2 = 1 ∧ p.length < 5 + 10 + 6
        · simp only [h3, and_self, if_true]
          exact J1 (by simp [hqs, h3.1]) h3.2
        · simp only [h3, if_false]
          obtain ⟨h', e, r1, r2, r3, r4, r5, r6, r7, r8, r9, r10⟩ := J2 (by intro hs; simp [hqs] at hs; omega)
          refine ⟨h', e, ?_, ?_, r4, r5, by rw [r2]; exact hq15⟩
          · unfold RepH
            simp only [r1, r2, r3, r6, r7, r8, r9, hvid, hqa, hqv, hqf, hqe, hql, hqs, hv]
            by_cases hfr : attr / 8192 % 2 = 1 <;> simp [hfr]
          · rw [r10]; simp only [hqs]; by_cases hfr : attr / 8192 % 2 = 1 <;> simp [hfr]  --done
    · have qv : (q.Version == (1 : UInt8)) = false := by
        rw [beq_eq_false_iff_ne]; intro hc; apply hv; rw [← hqv, hc]; rfl
      simp only [qv, Bool.false_eq_true, if_false, X.bind_ok, hv]
      have J := j2_spec fuel { h0 with ID := wid, Property := q } p 4 6 2
      simp only [Int.cast_ofNat_Int] at J
      by_cases hl : p.length < 4 + 6 + 2
      · have c : decide (len p < (4 : Int) + (6 : Int) + (2 : Int)) = true := decide_eq_true (by show ((p.length : Int) < _); omega)
        simp only [hl, if_true, c]
        exact ⟨_, _, rfl⟩
      · have c : decide (len p < (4 : Int) + (6 : Int) + (2 : Int)) = false := decide_eq_false (by show ¬ ((p.length : Int) < _); omega)
        simp only [hl, if_false, c, Bool.false_eq_true]
        obtain ⟨J1, J2⟩ := J (by omega) hf
        by_cases h3 : attr / 8192 % 2 = 1 ∧ p.length < 4 + 6 + 6
        · simp only [h3, and_self, if_true]
          exact J1 (by simp [hqs, h3.1]) h3.2
        · simp only [h3, if_false]
          obtain ⟨h', e, r1, r2, r3, r4, r5, r6, r7, r8, r9, r10⟩ := J2 (by intro hs; simp [hqs] at hs; omega)
          refine ⟨h', e, ?_, ?_, r4, r5, by rw [r2]; exact hq15⟩
          · unfold RepH
            simp only [r1, r2, r3, r6, r7, r8, r9, hvid, hqa, hqv, hqf, hqe, hql, hqs, hv]
            by_cases hfr : attr / 8192 % 2 = 1 <;> simp [hfr]
          · rw [r10]; simp only [hqs]; by_cases hfr : attr / 8192 % 2 = 1 <;> simp [hfr]  --done

theorem unescBody_length : ∀ (l r : Bytes), unescBody l = some r → r.length ≤ l.length
  | [], r, h => by simp [unescBody] at h; subst h; simp
  | [b], r, h => by simp [unescBody] at h; subst h; simp
  | b :: c :: t, r, h => by
    by_cases hb : b = 0x7d
    · subst hb
      by_cases h1 : c = 0x01
      · subst h1
        rw [unescBody_7d_01, Option.map_eq_some_iff] at h
        obtain ⟨r', hr, rfl⟩ := h
        have := unescBody_length t r' hr
        simp only [List.length_cons]; omega
      · by_cases h2 : c = 0x02
        · subst h2
          rw [unescBody_7d_02, Option.map_eq_some_iff] at h
          obtain ⟨r', hr, rfl⟩ := h
          have := unescBody_length t r' hr
          simp only [List.length_cons]; omega
        · rw [unescBody_7d_other c t h1 h2] at h; exact absurd h (by simp)
    · rw [unescBody_cons_ne b (c :: t) hb, Option.map_eq_some_iff] at h
      obtain ⟨r', hr, rfl⟩ := h
      have := unescBody_length (c :: t) r' hr
      simp only [List.length_cons] at this ⊢; omega

theorem unescape_length (f p : Bytes) (h : Frame.unescape f = some p) : p.length ≤ f.length := by
  unfold Frame.unescape at h
  cases hi : inner? f with
  | none => simp [hi] at h
  | some i =>
    simp only [hi] at h
    have h1 := unescBody_length i p h
    have h2 : i.length ≤ f.length := by
      unfold inner? at hi
      cases f with
      | nil => simp at hi
      | cons b r =>
        simp only at hi
        split at hi
        · injection hi with hi; subst hi; simp; omega
        · simp at hi
    omega

/-- a decoded Go message carries exactly the fields of the model's message -/
def Rep (j : jt808_JTMessage) (m : Msg) : Prop := RepH j.Header m.h ∧ j.Body = m.body ∧ j.VerifyCode = m.verify

/-- **`JTMessage.Decode` as translated from the source is the model `Frame.decode`**: it accepts exactly the frames
the model accepts and fills in the same fields; it reports an error exactly where the model does; it never panics and
never runs out of fuel. `ReplyID` and `PlatformSerialNumber` of the receiver are not touched. -/
theorem decode_go (fuel : Nat) (j0 : jt808_JTMessage) (f : Bytes) (hf : f.length < fuel) :
    match Frame.decode f with
    | .ok m => ∃ j, jt808_JTMessage_Decode fuel j0 f = X.ok (j, none) ∧ Rep j m ∧
        j.Header.ReplyID = j0.Header.ReplyID ∧ j.Header.PlatformSerialNumber = j0.Header.PlatformSerialNumber ∧
        j.Header.Property.bit15 = 0
    | .err => ∃ j e, jt808_JTMessage_Decode fuel j0 f = X.ok (j, some e)
    | .panic => False := by
  unfold jt808_JTMessage_Decode Frame.decode
  rw [unescape_eq f fuel hf]
  cases hu : Frame.unescape f with
  | none => exact ⟨_, _, rfl⟩
  | some p =>
    have hp : p.length < fuel := by have := unescape_length f p hu; omega
    simp only [X.bind_ok, Option.isSome_none, Bool.false_eq_true, if_false]
    unfold jt808_JTMessage_Decode_j4
    rw [createVerifyCode_eq p fuel hp]
    simp only [X.bind_ok]
    by_cases hx : xorAll p = 0
    · have c : (xorAll p != (0 : UInt8)) = false := by simp [hx]
      simp only [hx, bne_self_eq_false, Bool.false_eq_true, if_false, ne_eq, not_true_eq_false]
      unfold jt808_JTMessage_Decode_j3
      have H := header_decode_spec fuel j0.Header p hp
      rw [decodePlain_split]
      cases hh : hdrM p with
      | none =>
        rw [hh] at H
        obtain ⟨h, e, he⟩ := H
        simp only [he, X.bind_ok, Option.isSome_some, if_true]
        exact ⟨_, _, rfl⟩
      | some mh =>
        obtain ⟨m, hend⟩ := mh
        rw [hh] at H
        obtain ⟨h, he, hrep, hhe, k1, k2, k3⟩ := H
        simp only [he, X.bind_ok, Option.isSome_none, Bool.false_eq_true, if_false]
        unfold jt808_JTMessage_Decode_j2
        have hbl : h.Property.BodyDayaLen.toNat = m.bodyLen := hrep.2.2.2.2.2.1
        simp only [hhe, hbl]
        have ee : ((hend : Int) + Int.ofNat m.bodyLen) = ((hend + m.bodyLen : Nat) : Int) := by simp
        have e1 : (((hend + m.bodyLen : Nat) : Int) + (1 : Int)) = ((hend + m.bodyLen + 1 : Nat) : Int) := by omega
        rw [ee, e1]
        by_cases hl : hend + m.bodyLen + 1 ≠ p.length
        · have c2 : (((hend + m.bodyLen + 1 : Nat) : Int) != len p) = true := by
            simp only [len_eq, bne_iff_ne, ne_eq, Int.natCast_inj]; exact hl
          simp only [c2, if_true, hl, ne_eq, not_false_eq_true]
          exact ⟨_, _, rfl⟩
        · have hl' : hend + m.bodyLen + 1 = p.length := by omega
          have c2 : (((hend + m.bodyLen + 1 : Nat) : Int) != len p) = false := by
            simp only [len_eq, hl', bne_self_eq_false]
          simp only [hl', len_eq, bne_self_eq_false, Bool.false_eq_true, if_false, ne_eq, not_true_eq_false]
          unfold jt808_JTMessage_Decode_j1
          rw [slice_ok p hend (hend + m.bodyLen) (by omega) (by omega), idx_lt p (hend + m.bodyLen) (by omega)]
          simp only [X.bind_ok]
          refine ⟨_, rfl, ⟨?_, ?_, ?_⟩, ?_, ?_, ?_⟩
          · exact hrep
          · simp only []; rw [show hend + m.bodyLen - hend = m.bodyLen by omega]
          · simp only []; rw [List.getD_eq_getElem?_getD, List.getElem?_eq_getElem (by omega)]; rfl
          · exact k1
          · exact k2
          · exact k3
    · have c : (xorAll p != (0 : UInt8)) = true := by simp [hx]
      simp only [c, if_true, hx, ne_eq, not_false_eq_true]
      exact ⟨_, _, rfl⟩

/-! ### Header.Encode -/

theorem be16_toBE (v : UInt16) : Go.be16 v = toBE 2 v.toNat := by
  have := v.toNat_lt
  unfold Go.be16 toBE toBE toBE
  simp only [List.cons.injEq, and_true]
  constructor
  · apply UInt8.toNat_inj.mp
    simp only [UInt16.toNat_toUInt8, UInt16.toNat_shiftRight, UInt8.toNat_ofNat', Nat.shiftRight_eq_div_pow]
    rw [show (8 : UInt16).toNat % 16 = 8 by decide]; omega
  · apply UInt8.toNat_inj.mp
    simp only [UInt16.toNat_toUInt8, UInt8.toNat_ofNat']; omega

theorem attr_word (ver enc : UInt8) (n : Nat) (hv : ver.toNat = 0 ∨ ver.toNat = 1) (he : enc.toNat = 0 ∨ enc.toNat = 1) :
    (((((((0 : UInt8).toUInt16 <<< (15 : UInt16)) ||| (ver.toUInt16 <<< (14 : UInt16))) ||| ((0 : UInt8).toUInt16 <<< (13 : UInt16))) |||
      (enc.toUInt16 <<< (10 : UInt16))) ||| UInt16.ofInt (n : Int))).toNat =
      ((ver.toNat * 16384 + 0 * 8192 + enc.toNat * 1024) ||| (n % 65536)) % 65536 := by
  have hn : (UInt16.ofInt (n : Int)).toNat = n % 65536 := by simp [UInt16.ofInt]; omega
  have hv' : ver = 0 ∨ ver = 1 := by
    rcases hv with h | h
    · left; apply UInt8.toNat_inj.mp; rw [h]; rfl
    · right; apply UInt8.toNat_inj.mp; rw [h]; rfl
  have he' : enc = 0 ∨ enc = 1 := by
    rcases he with h | h
    · left; apply UInt8.toNat_inj.mp; rw [h]; rfl
    · right; apply UInt8.toNat_inj.mp; rw [h]; rfl
  have hlt : n % 65536 < 2 ^ 16 := by omega
  rcases hv' with rfl | rfl <;> rcases he' with rfl | rfl <;>
    simp only [UInt16.toNat_or, hn] <;>
    (rw [Nat.mod_eq_of_lt (Nat.or_lt_two_pow (by decide) hlt)]) <;> rfl

theorem put_first (v : UInt16) : putU16At [0, 0, 0, 0] (0 : Int) (2 : Int) v = X.ok [(v >>> 8).toUInt8, v.toUInt8, 0, 0] := by
  unfold putU16At; simp [Go.be16]
theorem put_second (a b : Byte) (v : UInt16) : putU16At [a, b, 0, 0] (2 : Int) (4 : Int) v = X.ok [a, b, (v >>> 8).toUInt8, v.toUInt8] := by
  unfold putU16At; simp [Go.be16]

/-- **`Header.Encode` as translated from the source is the model `Frame.encode`**, for a header that represents a model
header (in particular any header `JTMessage.Decode` produced): the frame is the model's frame, nothing panics. -/
theorem encode_go (fuel : Nat) (h : jt808_Header) (m : Header) (body : Bytes) (hrep : RepH h m)
    (hb15 : h.Property.bit15 = 0) (hv : m.version = 0 ∨ m.version = 1) (he : m.encrypt = 0 ∨ m.encrypt = 1)
    (hf : 8 + m.bcd.length + body.length < fuel) :
    ∃ h', jt808_Header_Encode fuel h body =
      X.ok (h', Frame.encode m h.ReplyID.toNat h.PlatformSerialNumber.toNat body) := by
  obtain ⟨rid, rattr, rver, rfrag, renc, rlen, rbcd, rser, rsum, rno, rpv⟩ := hrep
  unfold jt808_Header_Encode
  have hm : makeCap (4 : Int) (30 : Int) = X.ok [0, 0, 0, 0] := rfl
  rw [hm]
  simp only [X.bind_ok]
  -- the message id
  have hid : ∃ idv : UInt16, ((if (h.ReplyID == (0 : UInt16)) = true then (X.ok h.ID : X UInt16) else X.ok h.ReplyID) = X.ok idv) ∧
      idv.toNat = (if h.ReplyID.toNat = 0 then m.id else h.ReplyID.toNat) := by
    by_cases hr : h.ReplyID = 0
    · refine ⟨h.ID, by simp [hr], ?_⟩
      simp [hr, rid]
    · refine ⟨h.ReplyID, by simp [hr], ?_⟩
      have : h.ReplyID.toNat ≠ 0 := fun hc => hr (UInt16.toNat_inj.mp (by rw [hc]; rfl))
      simp [this]
  obtain ⟨idv, hidv, hidn⟩ := hid
  simp only [hidv, X.bind_ok, put_first]
  try unfold jt808_BodyProperty_encode
  simp only [X.bind_ok, put_second, hb15]
  -- the version byte
  have hpv : (h.ProtocolVersion == (3 : UInt8)) = decide (m.version = 1) := by
    rw [rpv]; rcases hv with h0 | h1
    · simp [h0]
    · simp [h1]
  have hver : ∀ (d : Bytes), ((if (h.ProtocolVersion == (3 : UInt8)) = true then (X.ok (d ++ [(1 : UInt8)]) : X Bytes) else X.ok d)) =
      X.ok (d ++ (if m.version = 1 then [0x01] else [])) := by
    intro d; rw [hpv]; by_cases h1 : m.version = 1 <;> simp [h1]
  simp only [hver, X.bind_ok]
  -- the attribute word
  have hw := attr_word h.Property.Version h.Property.EncryptMethod body.length (by rw [rver]; exact hv) (by rw [renc]; exact he)
  rw [rver, renc] at hw
  have hlen : (UInt16.ofInt (len body)) = UInt16.ofInt (body.length : Int) := rfl
  generalize hword : ((((((0 : UInt8).toUInt16 <<< (15 : UInt16)) ||| (h.Property.Version.toUInt16 <<< (14 : UInt16))) ||| ((0 : UInt8).toUInt16 <<< (13 : UInt16))) |||
      (h.Property.EncryptMethod.toUInt16 <<< (10 : UInt16))) ||| UInt16.ofInt (body.length : Int)) = word at hw
  simp only [hlen, hword]
  -- the plain frame
  have hplain : ([(idv >>> 8).toUInt8, idv.toUInt8, (word >>> 8).toUInt8, word.toUInt8] ++ (if m.version = 1 then [0x01] else []) ++
      h.bcdTerminalPhoneNo ++ [(h.PlatformSerialNumber >>> (8 : UInt16)).toUInt8, h.PlatformSerialNumber.toUInt8] ++ body) =
      encodePlain m h.ReplyID.toNat h.PlatformSerialNumber.toNat body := by
    unfold encodePlain
    have e1 := be16_toBE idv
    have e2 := be16_toBE word
    have e3 := be16_toBE h.PlatformSerialNumber
    unfold Go.be16 at e1 e2 e3
    rw [show [(idv >>> 8).toUInt8, idv.toUInt8, (word >>> 8).toUInt8, word.toUInt8] =
      [(idv >>> 8).toUInt8, idv.toUInt8] ++ [(word >>> 8).toUInt8, word.toUInt8] from rfl, e1, e2, e3, hidn, hw, rbcd]
  generalize hd : ([(idv >>> 8).toUInt8, idv.toUInt8, (word >>> 8).toUInt8, word.toUInt8] ++ (if m.version = 1 then [0x01] else []) ++
      h.bcdTerminalPhoneNo ++ [(h.PlatformSerialNumber >>> (8 : UInt16)).toUInt8, h.PlatformSerialNumber.toUInt8] ++ body) = d at hplain
  have hdl : d.length ≤ 4 + 1 + m.bcd.length + 2 + body.length := by
    rw [← hd, ← rbcd]; simp only [List.length_append, List.length_cons, List.length_nil]; split <;> simp <;> omega
  rw [createVerifyCode_eq d fuel (by omega)]
  simp only [X.bind_ok]
  rw [escape_eq (d ++ [xorAll d]) fuel (by simp; omega)]
  simp only [X.bind_ok]
  exact ⟨_, by rw [Frame.encode, hplain]⟩

end JT.Gen.GoFrame
