import JT.Proof.GoModel8003
/-! Round trips `Parse(Encode(v)) = v` of fixed-layout bodies on the translated code (generated statements, one generic proof). -/
namespace JT.Gen.GoModel
open JT JT.Go JT.Gen.GoFrame

theorem u16_pair (v : UInt16) : u16 [(v >>> (8 : UInt16)).toUInt8, v.toUInt8] = X.ok v := by
  have := u16_be16 v []; simpa using this
theorem u16_cons2 (v : UInt16) (rest : Bytes) : u16 ((v >>> (8 : UInt16)).toUInt8 :: v.toUInt8 :: rest) = X.ok v := by
  have := u16_be16 v rest; simpa using this
theorem u32_quad (v : UInt32) : u32 (Go.be32 v) = X.ok v := by
  have := u32_be32 v []; simpa using this

theorem P0x8001_roundtrip (fuel : Nat) (t q : model_P0x8001) (j : jt808_JTMessage) :
    ∃ body, model_P0x8001_Encode fuel t = X.ok body ∧
      ∃ r, model_P0x8001_Parse fuel q { j with Body := body } = X.ok (r, none) ∧ r.RespondSerialNumber = t.RespondSerialNumber ∧ r.RespondID = t.RespondID ∧ r.Result = t.Result := by
  simp only [model_P0x8001_Encode, model_P0x8001_Parse, model_P0x8001_Parse_j1]
  simp [make, makeCap, putU16At, putU32At, setIdx, Go.be16, sliceTo, sliceFrom, slice, idx, u16_pair, u16_cons2, u32_quad]

theorem P0x8801_roundtrip (fuel : Nat) (t q : model_P0x8801) (j : jt808_JTMessage) :
    ∃ body, model_P0x8801_Encode fuel t = X.ok body ∧
      ∃ r, model_P0x8801_Parse fuel q { j with Body := body } = X.ok (r, none) ∧ r.ChannelID = t.ChannelID ∧ r.ShootCommand = t.ShootCommand ∧ r.PhotoIntervalOrVideoTime = t.PhotoIntervalOrVideoTime ∧ r.SaveFlag = t.SaveFlag ∧ r.Resolution = t.Resolution ∧ r.VideoQuality = t.VideoQuality ∧ r.Intensity = t.Intensity ∧ r.Contrast = t.Contrast ∧ r.Saturation = t.Saturation ∧ r.Chroma = t.Chroma := by
  simp only [model_P0x8801_Encode, model_P0x8801_Parse, model_P0x8801_Parse_j1]
  simp [make, makeCap, putU16At, putU32At, setIdx, Go.be16, sliceTo, sliceFrom, slice, idx, u16_pair, u16_cons2, u32_quad]

theorem P0x9102_roundtrip (fuel : Nat) (t q : model_P0x9102) (j : jt808_JTMessage) :
    ∃ body, model_P0x9102_Encode fuel t = X.ok body ∧
      ∃ r, model_P0x9102_Parse fuel q { j with Body := body } = X.ok (r, none) ∧ r.ChannelNo = t.ChannelNo ∧ r.ControlCmd = t.ControlCmd ∧ r.CloseAudioVideoData = t.CloseAudioVideoData ∧ r.StreamType = t.StreamType := by
  simp only [model_P0x9102_Encode, model_P0x9102_Parse, model_P0x9102_Parse_j1]
  simp [make, makeCap, putU16At, putU32At, setIdx, Go.be16, sliceTo, sliceFrom, slice, idx, u16_pair, u16_cons2, u32_quad]

theorem P0x9105_roundtrip (fuel : Nat) (t q : model_P0x9105) (j : jt808_JTMessage) :
    ∃ body, model_P0x9105_Encode fuel t = X.ok body ∧
      ∃ r, model_P0x9105_Parse fuel q { j with Body := body } = X.ok (r, none) ∧ r.ChannelNo = t.ChannelNo ∧ r.PackageLossRate = t.PackageLossRate := by
  simp only [model_P0x9105_Encode, model_P0x9105_Parse, model_P0x9105_Parse_j1]
  simp [make, makeCap, putU16At, putU32At, setIdx, Go.be16, sliceTo, sliceFrom, slice, idx, u16_pair, u16_cons2, u32_quad]

theorem P0x9207_roundtrip (fuel : Nat) (t q : model_P0x9207) (j : jt808_JTMessage) :
    ∃ body, model_P0x9207_Encode fuel t = X.ok body ∧
      ∃ r, model_P0x9207_Parse fuel q { j with Body := body } = X.ok (r, none) ∧ r.RespondSerialNumber = t.RespondSerialNumber ∧ r.UploadControl = t.UploadControl := by
  simp only [model_P0x9207_Encode, model_P0x9207_Parse, model_P0x9207_Parse_j1]
  simp [make, makeCap, putU16At, putU32At, setIdx, Go.be16, sliceTo, sliceFrom, slice, idx, u16_pair, u16_cons2, u32_quad]

theorem T0x0001_roundtrip (fuel : Nat) (t q : model_T0x0001) (j : jt808_JTMessage) :
    ∃ body, model_T0x0001_Encode fuel t = X.ok body ∧
      ∃ r, model_T0x0001_Parse fuel q { j with Body := body } = X.ok (r, none) ∧ r.SerialNumber = t.SerialNumber ∧ r.ID = t.ID ∧ r.Result = t.Result := by
  simp only [model_T0x0001_Encode, model_T0x0001_Parse, model_T0x0001_Parse_j1]
  simp [make, makeCap, putU16At, putU32At, setIdx, Go.be16, sliceTo, sliceFrom, slice, idx, u16_pair, u16_cons2, u32_quad]

theorem T0x1003_roundtrip (fuel : Nat) (t q : model_T0x1003) (j : jt808_JTMessage) :
    ∃ body, model_T0x1003_Encode fuel t = X.ok body ∧
      ∃ r, model_T0x1003_Parse fuel q { j with Body := body } = X.ok (r, none) ∧ r.EnterAudioEncoding = t.EnterAudioEncoding ∧ r.EnterAudioChannelsNumber = t.EnterAudioChannelsNumber ∧ r.EnterAudioSampleRate = t.EnterAudioSampleRate ∧ r.EnterAudioSampleDigits = t.EnterAudioSampleDigits ∧ r.AudioFrameLength = t.AudioFrameLength ∧ r.HasSupportedAudioOutput = t.HasSupportedAudioOutput ∧ r.VideoEncoding = t.VideoEncoding ∧ r.TerminalSupportedMaxNumberOfAudioPhysicalChannels = t.TerminalSupportedMaxNumberOfAudioPhysicalChannels ∧ r.TerminalSupportedMaxNumberOfVideoPhysicalChannels = t.TerminalSupportedMaxNumberOfVideoPhysicalChannels := by
  simp only [model_T0x1003_Encode, model_T0x1003_Parse, model_T0x1003_Parse_j1]
  simp [make, makeCap, putU16At, putU32At, setIdx, Go.be16, sliceTo, sliceFrom, slice, idx, u16_pair, u16_cons2, u32_quad]

theorem T0x1206_roundtrip (fuel : Nat) (t q : model_T0x1206) (j : jt808_JTMessage) :
    ∃ body, model_T0x1206_Encode fuel t = X.ok body ∧
      ∃ r, model_T0x1206_Parse fuel q { j with Body := body } = X.ok (r, none) ∧ r.RespondSerialNumber = t.RespondSerialNumber ∧ r.Result = t.Result := by
  simp only [model_T0x1206_Encode, model_T0x1206_Parse, model_T0x1206_Parse_j1]
  simp [make, makeCap, putU16At, putU32At, setIdx, Go.be16, sliceTo, sliceFrom, slice, idx, u16_pair, u16_cons2, u32_quad]

theorem be32_length (v : UInt32) : (Go.be32 v).length = 4 := rfl
theorem be32_lit (v : UInt32) : [(Go.be32 v)[0]?.getD default, (Go.be32 v)[1]?.getD default, (Go.be32 v)[2]?.getD default, (Go.be32 v)[3]?.getD default] = Go.be32 v := by
  simp [Go.be32]
theorem be32_take4 (v : UInt32) (r : Bytes) : (Go.be32 v ++ r).take 4 = Go.be32 v := by simp [Go.be32]

theorem T0x0800_roundtrip (fuel : Nat) (t q : model_T0x0800) (j : jt808_JTMessage) :
    ∃ body, model_T0x0800_Encode fuel t = X.ok body ∧
      ∃ r, model_T0x0800_Parse fuel q { j with Body := body } = X.ok (r, none) ∧ r.MultimediaID = t.MultimediaID ∧ r.MultimediaType = t.MultimediaType ∧ r.MultimediaFormatEncode = t.MultimediaFormatEncode ∧ r.EventItemEncode = t.EventItemEncode ∧ r.ChannelID = t.ChannelID := by
  simp only [model_T0x0800_Encode, model_T0x0800_Parse, model_T0x0800_Parse_j1]
  simp [make, makeCap, putU16At, putU32At, setIdx, Go.be16, sliceTo, sliceFrom, slice, idx, u16_pair, u16_cons2, u32_quad, be32_length, be32_take4, be32_lit,
    show ∀ (v : UInt32) (a b c d : Byte), Go.be32 v ++ [a, b, c, d] = [(Go.be32 v)[0]!, (Go.be32 v)[1]!, (Go.be32 v)[2]!, (Go.be32 v)[3]!, a, b, c, d] from fun v a b c d => by simp [Go.be32]]

end JT.Gen.GoModel
