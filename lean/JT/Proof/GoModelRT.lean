import JT.Proof.GoModel8003
/-! Round trips `Parse(Encode(v)) = v` of fixed-layout bodies on the translated code (generated statements, one generic proof). -/
namespace JT.Gen.GoModel
open JT JT.Go JT.Gen.GoFrame

theorem u16_pair (v : UInt16) : u16 [(v >>> (8 : UInt16)).toUInt8, v.toUInt8] = X.ok v := by
  have := u16_be16 v []; simpa using this
theorem u16_cons2 (v : UInt16) (rest : Bytes) : u16 ((v >>> (8 : UInt16)).toUInt8 :: v.toUInt8 :: rest) = X.ok v := by
  have := u16_be16 v rest; simpa using this
theorem u32_quad (v : UInt32) : u32 (Go.be32 v) = X.ok v := by
  have := u32_be32 v []; simpa using this

theorem P0x8001_roundtrip (fuel : Nat) (t q : model_P0x8001) (j : jt808_JTMessage) :
    ∃ body, model_P0x8001_Encode fuel t = X.ok body ∧
      ∃ r, model_P0x8001_Parse fuel q { j with Body := body } = X.ok (r, none) ∧ r.RespondSerialNumber = t.RespondSerialNumber ∧ r.RespondID = t.RespondID ∧ r.Result = t.Result := by
  simp only [model_P0x8001_Encode, model_P0x8001_Parse, model_P0x8001_Parse_j1]
  simp [make, makeCap, putU16At, putU32At, setIdx, Go.be16, sliceTo, sliceFrom, slice, idx, u16_pair, u16_cons2, u32_quad]

theorem P0x8801_roundtrip (fuel : Nat) (t q : model_P0x8801) (j : jt808_JTMessage) :
    ∃ body, model_P0x8801_Encode fuel t = X.ok body ∧
      ∃ r, model_P0x8801_Parse fuel q { j with Body := body } = X.ok (r, none) ∧ r.ChannelID = t.ChannelID ∧ r.ShootCommand = t.ShootCommand ∧ r.PhotoIntervalOrVideoTime = t.PhotoIntervalOrVideoTime ∧ r.SaveFlag = t.SaveFlag ∧ r.Resolution = t.Resolution ∧ r.VideoQuality = t.VideoQuality ∧ r.Intensity = t.Intensity ∧ r.Contrast = t.Contrast ∧ r.Saturation = t.Saturation ∧ r.Chroma = t.Chroma := by
  simp only [model_P0x8801_Encode, model_P0x8801_Parse, model_P0x8801_Parse_j1]
  simp [make, makeCap, putU16At, putU32At, setIdx, Go.be16, sliceTo, sliceFrom, slice, idx, u16_pair, u16_cons2, u32_quad]

theorem P0x9102_roundtrip (fuel : Nat) (t q : model_P0x9102) (j : jt808_JTMessage) :
    ∃ body, model_P0x9102_Encode fuel t = X.ok body ∧
      ∃ r, model_P0x9102_Parse fuel q { j with Body := body } = X.ok (r, none) ∧ r.ChannelNo = t.ChannelNo ∧ r.ControlCmd = t.ControlCmd ∧ r.CloseAudioVideoData = t.CloseAudioVideoData ∧ r.StreamType = t.StreamType := by
  simp only [model_P0x9102_Encode, model_P0x9102_Parse, model_P0x9102_Parse_j1]
  simp [make, makeCap, putU16At, putU32At, setIdx, Go.be16, sliceTo, sliceFrom, slice, idx, u16_pair, u16_cons2, u32_quad]

theorem P0x9105_roundtrip (fuel : Nat) (t q : model_P0x9105) (j : jt808_JTMessage) :
    ∃ body, model_P0x9105_Encode fuel t = X.ok body ∧
      ∃ r, model_P0x9105_Parse fuel q { j with Body := body } = X.ok (r, none) ∧ r.ChannelNo = t.ChannelNo ∧ r.PackageLossRate = t.PackageLossRate := by
  simp only [model_P0x9105_Encode, model_P0x9105_Parse, model_P0x9105_Parse_j1]
  simp [make, makeCap, putU16At, putU32At, setIdx, Go.be16, sliceTo, sliceFrom, slice, idx, u16_pair, u16_cons2, u32_quad]

theorem P0x9207_roundtrip (fuel : Nat) (t q : model_P0x9207) (j : jt808_JTMessage) :
    ∃ body, model_P0x9207_Encode fuel t = X.ok body ∧
      ∃ r, model_P0x9207_Parse fuel q { j with Body := body } = X.ok (r, none) ∧ r.RespondSerialNumber = t.RespondSerialNumber ∧ r.UploadControl = t.UploadControl := by
  simp only [model_P0x9207_Encode, model_P0x9207_Parse, model_P0x9207_Parse_j1]
  simp [make, makeCap, putU16At, putU32At, setIdx, Go.be16, sliceTo, sliceFrom, slice, idx, u16_pair, u16_cons2, u32_quad]

theorem T0x0001_roundtrip (fuel : Nat) (t q : model_T0x0001) (j : jt808_JTMessage) :
    ∃ body, model_T0x0001_Encode fuel t = X.ok body ∧
      ∃ r, model_T0x0001_Parse fuel q { j with Body := body } = X.ok (r, none) ∧ r.SerialNumber = t.SerialNumber ∧ r.ID = t.ID ∧ r.Result = t.Result := by
  simp only [model_T0x0001_Encode, model_T0x0001_Parse, model_T0x0001_Parse_j1]
  simp [make, makeCap, putU16At, putU32At, setIdx, Go.be16, sliceTo, sliceFrom, slice, idx, u16_pair, u16_cons2, u32_quad]

theorem T0x1003_roundtrip (fuel : Nat) (t q : model_T0x1003) (j : jt808_JTMessage) :
    ∃ body, model_T0x1003_Encode fuel t = X.ok body ∧
      ∃ r, model_T0x1003_Parse fuel q { j with Body := body } = X.ok (r, none) ∧ r.EnterAudioEncoding = t.EnterAudioEncoding ∧ r.EnterAudioChannelsNumber = t.EnterAudioChannelsNumber ∧ r.EnterAudioSampleRate = t.EnterAudioSampleRate ∧ r.EnterAudioSampleDigits = t.EnterAudioSampleDigits ∧ r.AudioFrameLength = t.AudioFrameLength ∧ r.HasSupportedAudioOutput = t.HasSupportedAudioOutput ∧ r.VideoEncoding = t.VideoEncoding ∧ r.TerminalSupportedMaxNumberOfAudioPhysicalChannels = t.TerminalSupportedMaxNumberOfAudioPhysicalChannels ∧ r.TerminalSupportedMaxNumberOfVideoPhysicalChannels = t.TerminalSupportedMaxNumberOfVideoPhysicalChannels := by
  simp only [model_T0x1003_Encode, model_T0x1003_Parse, model_T0x1003_Parse_j1]
  simp [make, makeCap, putU16At, putU32At, setIdx, Go.be16, sliceTo, sliceFrom, slice, idx, u16_pair, u16_cons2, u32_quad]

theorem T0x1206_roundtrip (fuel : Nat) (t q : model_T0x1206) (j : jt808_JTMessage) :
    ∃ body, model_T0x1206_Encode fuel t = X.ok body ∧
      ∃ r, model_T0x1206_Parse fuel q { j with Body := body } = X.ok (r, none) ∧ r.RespondSerialNumber = t.RespondSerialNumber ∧ r.Result = t.Result := by
  simp only [model_T0x1206_Encode, model_T0x1206_Parse, model_T0x1206_Parse_j1]
  simp [make, makeCap, putU16At, putU32At, setIdx, Go.be16, sliceTo, sliceFrom, slice, idx, u16_pair, u16_cons2, u32_quad]

theorem be32_length (v : UInt32) : (Go.be32 v).length = 4 := rfl
theorem be32_lit (v : UInt32) : [(Go.be32 v)[0]?.getD default, (Go.be32 v)[1]?.getD default, (Go.be32 v)[2]?.getD default, (Go.be32 v)[3]?.getD default] = Go.be32 v := by
  simp [Go.be32]
theorem be32_take4 (v : UInt32) (r : Bytes) : (Go.be32 v ++ r).take 4 = Go.be32 v := by simp [Go.be32]

theorem T0x0800_roundtrip (fuel : Nat) (t q : model_T0x0800) (j : jt808_JTMessage) :
    ∃ body, model_T0x0800_Encode fuel t = X.ok body ∧
      ∃ r, model_T0x0800_Parse fuel q { j with Body := body } = X.ok (r, none) ∧ r.MultimediaID = t.MultimediaID ∧ r.MultimediaType = t.MultimediaType ∧ r.MultimediaFormatEncode = t.MultimediaFormatEncode ∧ r.EventItemEncode = t.EventItemEncode ∧ r.ChannelID = t.ChannelID := by
  simp only [model_T0x0800_Encode, model_T0x0800_Parse, model_T0x0800_Parse_j1]
  simp [make, makeCap, putU16At, putU32At, setIdx, Go.be16, sliceTo, sliceFrom, slice, idx, u16_pair, u16_cons2, u32_quad, be32_length, be32_take4, be32_lit,
    show ∀ (v : UInt32) (a b c d : Byte), Go.be32 v ++ [a, b, c, d] = [(Go.be32 v)[0]!, (Go.be32 v)[1]!, (Go.be32 v)[2]!, (Go.be32 v)[3]!, a, b, c, d] from fun v a b c d => by simp [Go.be32]]

theorem drop_cons_append {α : Type} (a x : α) : ∀ (l r : List α), (a :: (l ++ x :: r)).drop (2 + l.length) = r
  | [], r => rfl
  | b :: l, r => by
    have := drop_cons_append a x l r
    simp only [List.length_cons, List.cons_append]
    rw [show 2 + (l.length + 1) = (2 + l.length) + 1 by omega, List.drop_succ_cons]
    rw [show 2 + l.length = (1 + l.length) + 1 by omega, List.drop_succ_cons] at this
    rw [show 2 + l.length = (1 + l.length) + 1 by omega, List.drop_succ_cons]
    exact this

theorem get_cons_append {α : Type} (a x : α) : ∀ (l r : List α), (a :: (l ++ x :: r))[1 + l.length]? = some x
  | [], r => rfl
  | b :: l, r => by
    have := get_cons_append b x l r
    simp only [List.length_cons, List.cons_append]
    rw [show 1 + (l.length + 1) = (1 + l.length) + 1 by omega, List.getElem?_cons_succ]
    exact this

theorem T0x1211_Encode_eq (fuel : Nat) (t : model_T0x1211) :
    model_T0x1211_Encode fuel t = X.ok ([t.FileNameLen] ++ t.FileName ++ [t.FileType] ++ Go.be32 t.FileSize) := by
  simp [model_T0x1211_Encode, makeCap, setIdx]

/-- file information 0x1211 / 0x1212 (name length, name, type, size): `Parse(Encode(v)) = v` on the translated code whenever
the length byte is the length of the name -/
theorem T0x1211_roundtrip (fuel : Nat) (t q : model_T0x1211) (j : jt808_JTMessage) (hl : t.FileNameLen.toNat = t.FileName.length) :
    ∃ body, model_T0x1211_Encode fuel t = X.ok body ∧
      ∃ r, model_T0x1211_Parse fuel q { j with Body := body } = X.ok (r, none) ∧ r.FileNameLen = t.FileNameLen ∧ r.FileName = t.FileName ∧ r.FileType = t.FileType ∧ r.FileSize = t.FileSize := by
  refine ⟨_, T0x1211_Encode_eq fuel t, ?_⟩
  have hblen : ([t.FileNameLen] ++ t.FileName ++ [t.FileType] ++ Go.be32 t.FileSize).length = 6 + t.FileName.length := by
    simp [be32_length]; omega
  have c1 : decide (len ([t.FileNameLen] ++ t.FileName ++ [t.FileType] ++ Go.be32 t.FileSize) < (6 : Int)) = false := by
    rw [len_eq, hblen]; simp; omega
  simp only [model_T0x1211_Parse, c1, Bool.false_eq_true, if_false, model_T0x1211_Parse_j2]
  have hi0 : idx ([t.FileNameLen] ++ t.FileName ++ [t.FileType] ++ Go.be32 t.FileSize) (0 : Int) = X.ok t.FileNameLen := by
    simp [idx]
  rw [hi0]
  simp only [X.bind_ok]
  have c2 : (len ([t.FileNameLen] ++ t.FileName ++ [t.FileType] ++ Go.be32 t.FileSize) != (6 : Int) + Int.ofNat t.FileNameLen.toNat) = false := by
    rw [len_eq, hblen, hl]; simp
  rw [hl] at c2
  simp only [hl, c2, Bool.false_eq_true, if_false, model_T0x1211_Parse_j1]
  have n := t.FileName.length
  have s1 : slice ([t.FileNameLen] ++ t.FileName ++ [t.FileType] ++ Go.be32 t.FileSize) (1 : Int) ((1 : Int) + Int.ofNat t.FileName.length) = X.ok t.FileName := by
    rw [slice_int _ _ _ (by rw [hblen]; simp; omega)]
    have e : ((1 : Int) + Int.ofNat t.FileName.length).toNat - (1 : Int).toNat = t.FileName.length := by simp; omega
    rw [e]; simp
  have s2 : idx ([t.FileNameLen] ++ t.FileName ++ [t.FileType] ++ Go.be32 t.FileSize) ((1 : Int) + Int.ofNat t.FileName.length) = X.ok t.FileType := by
    rw [show ((1 : Int) + Int.ofNat t.FileName.length) = ((1 + t.FileName.length : Nat) : Int) by push_cast; rfl]
    have hb : [t.FileNameLen] ++ t.FileName ++ [t.FileType] ++ Go.be32 t.FileSize = t.FileNameLen :: (t.FileName ++ t.FileType :: Go.be32 t.FileSize) := by simp
    rw [hb]
    unfold idx
    have h0 : (0 : Int) ≤ ((1 + t.FileName.length : Nat) : Int) := by omega
    have e : (((1 + t.FileName.length : Nat) : Int)).toNat = 1 + t.FileName.length := by omega
    rw [if_pos h0, e, get_cons_append]
  have s3 : sliceFrom ([t.FileNameLen] ++ t.FileName ++ [t.FileType] ++ Go.be32 t.FileSize) ((2 : Int) + Int.ofNat t.FileName.length) = X.ok (Go.be32 t.FileSize) := by
    rw [show ((2 : Int) + Int.ofNat t.FileName.length) = ((2 + t.FileName.length : Nat) : Int) by push_cast; rfl]
    have hb : [t.FileNameLen] ++ t.FileName ++ [t.FileType] ++ Go.be32 t.FileSize = t.FileNameLen :: (t.FileName ++ t.FileType :: Go.be32 t.FileSize) := by simp
    rw [sliceFrom_ok _ _ (by rw [hblen]; omega), hb, drop_cons_append]
  rw [s1]; simp only [X.bind_ok]
  rw [s2]; simp only [X.bind_ok]
  rw [s3]; simp only [X.bind_ok, u32_quad]
  exact ⟨_, rfl, rfl, rfl, rfl, rfl⟩

end JT.Gen.GoModel
