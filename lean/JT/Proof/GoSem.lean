import JT.Go.Sem
/-!
# Lemmas about the Go primitives of `JT/Go/Sem.lean` at natural-number arguments
-/
namespace JT.Go
open JT

@[simp] theorem len_eq (d : Bytes) : len d = (d.length : Int) := rfl

theorem idx_lt (d : Bytes) (i : Nat) (h : i < d.length) : idx d (i : Int) = X.ok d[i] := by
  simp [idx, h]

theorem idx_ge (d : Bytes) (i : Nat) (h : d.length ≤ i) : idx d (i : Int) = X.panic := by
  simp [idx, h]

theorem slice_nat (d : Bytes) (a b : Nat) :
    slice d (a : Int) (b : Int) = if a ≤ b ∧ b ≤ d.length then X.ok ((d.drop a).take (b - a)) else X.panic := by
  unfold slice
  by_cases h : a ≤ b ∧ b ≤ d.length
  · have h' : (0 : Int) ≤ (a : Int) ∧ (a : Int) ≤ (b : Int) ∧ (b : Int) ≤ (d.length : Int) := by omega
    rw [if_pos h', if_pos h]; simp
  · have h' : ¬ ((0 : Int) ≤ (a : Int) ∧ (a : Int) ≤ (b : Int) ∧ (b : Int) ≤ (d.length : Int)) := by omega
    rw [if_neg h', if_neg h]

theorem slice_ok (d : Bytes) (a b : Nat) (h1 : a ≤ b) (h2 : b ≤ d.length) :
    slice d (a : Int) (b : Int) = X.ok ((d.drop a).take (b - a)) := by
  rw [slice_nat, if_pos ⟨h1, h2⟩]

theorem sliceFrom_ok (d : Bytes) (a : Nat) (h : a ≤ d.length) : sliceFrom d (a : Int) = X.ok (d.drop a) := by
  unfold sliceFrom
  rw [len_eq, slice_ok d a d.length h (Nat.le_refl _), List.take_of_length_le (by simp)]

end JT.Go
