import JT.Go.Sem
/-!
# Lemmas about the Go primitives of `JT/Go/Sem.lean` at natural-number arguments
-/
namespace JT.Go
open JT

@[simp] theorem len_eq (d : Bytes) : len d = (d.length : Int) := rfl

theorem idx_lt (d : Bytes) (i : Nat) (h : i < d.length) : idx d (i : Int) = X.ok d[i] := by
  simp [idx, h]

theorem idx_ge (d : Bytes) (i : Nat) (h : d.length ≤ i) : idx d (i : Int) = X.panic := by
  simp [idx, h]

theorem slice_nat (d : Bytes) (a b : Nat) :
    slice d (a : Int) (b : Int) = if a ≤ b ∧ b ≤ d.length then X.ok ((d.drop a).take (b - a)) else X.panic := by
  unfold slice
  by_cases h : a ≤ b ∧ b ≤ d.length
  · have h' : (0 : Int) ≤ (a : Int) ∧ (a : Int) ≤ (b : Int) ∧ (b : Int) ≤ (d.length : Int) := by omega
    rw [if_pos h', if_pos h]; simp
  · have h' : ¬ ((0 : Int) ≤ (a : Int) ∧ (a : Int) ≤ (b : Int) ∧ (b : Int) ≤ (d.length : Int)) := by omega
    rw [if_neg h', if_neg h]

theorem slice_ok (d : Bytes) (a b : Nat) (h1 : a ≤ b) (h2 : b ≤ d.length) :
    slice d (a : Int) (b : Int) = X.ok ((d.drop a).take (b - a)) := by
  rw [slice_nat, if_pos ⟨h1, h2⟩]

theorem sliceFrom_ok (d : Bytes) (a : Nat) (h : a ≤ d.length) : sliceFrom d (a : Int) = X.ok (d.drop a) := by
  unfold sliceFrom
  rw [len_eq, slice_ok d a d.length h (Nat.le_refl _), List.take_of_length_le (by simp)]

theorem slice_int (d : Bytes) (lo hi : Int) (h : 0 ≤ lo ∧ lo ≤ hi ∧ hi ≤ (d.length : Int)) :
    slice d lo hi = X.ok ((d.drop lo.toNat).take (hi.toNat - lo.toNat)) := by
  unfold slice; rw [if_pos h]

theorem idx_int (d : Bytes) (i : Int) (h0 : 0 ≤ i) (h1 : i.toNat < d.length) : idx d i = X.ok d[i.toNat] := by
  unfold idx; simp [h0, h1]

theorem setIdx_ok (b : Bytes) (i : Nat) (v : Byte) (h : i < b.length) : setIdx b (i : Int) v = X.ok (b.set i v) := by
  unfold setIdx
  have : (0 : Int) ≤ (i : Int) ∧ (i : Int) < (b.length : Int) := by omega
  rw [if_pos this]; simp

theorem make_ok (n : Nat) : make (n : Int) = X.ok (List.replicate n 0) := by
  unfold make; simp

/-- the value `binary.BigEndian.Uint16` reads -/
theorem u16_cons (a c : Byte) (r : Bytes) : ∃ w : UInt16, u16 (a :: c :: r) = X.ok w ∧ w.toNat = a.toNat * 256 + c.toNat := by
  refine ⟨_, rfl, ?_⟩
  have ha := a.toNat_lt
  have hc := c.toNat_lt
  simp only [UInt16.toNat_or, UInt16.toNat_shiftLeft, UInt8.toNat_toUInt16]
  rw [show (8 : UInt16).toNat % 16 = 8 by decide, Nat.shiftLeft_eq, Nat.mod_eq_of_lt (by omega)]
  rw [show a.toNat * 2 ^ 8 = a.toNat <<< 8 by rw [Nat.shiftLeft_eq], ← Nat.shiftLeft_add_eq_or_of_lt (by omega), Nat.shiftLeft_eq]

theorem u16_two (b : Bytes) (h : b.length = 2) : ∃ w : UInt16, u16 b = X.ok w ∧ w.toNat = beN b := by
  match b, h with
  | [a, c], _ =>
    obtain ⟨w, h1, h2⟩ := u16_cons a c []
    exact ⟨w, h1, by simp [h2, beN]⟩

/-! ### the bit fields of the property word -/
theorem b14 (w : UInt16) : ((w >>> 14) &&& 1).toUInt8.toNat = w.toNat / 16384 % 2 := by
  have := w.toNat_lt
  simp only [UInt16.toNat_toUInt8, UInt16.toNat_and, UInt16.toNat_shiftRight, Nat.shiftRight_eq_div_pow]
  rw [show (14 : UInt16).toNat % 16 = 14 by decide, show (1 : UInt16).toNat = 1 by decide, Nat.and_one_is_mod]
  omega
theorem b13 (w : UInt16) : ((w >>> 13) &&& 1).toUInt8.toNat = w.toNat / 8192 % 2 := by
  have := w.toNat_lt
  simp only [UInt16.toNat_toUInt8, UInt16.toNat_and, UInt16.toNat_shiftRight, Nat.shiftRight_eq_div_pow]
  rw [show (13 : UInt16).toNat % 16 = 13 by decide, show (1 : UInt16).toNat = 1 by decide, Nat.and_one_is_mod]
  omega
theorem b10 (w : UInt16) : ((w &&& 1024) >>> 10).toUInt8.toNat = w.toNat / 1024 % 2 := by
  have := w.toNat_lt
  simp only [UInt16.toNat_toUInt8, UInt16.toNat_and, UInt16.toNat_shiftRight]
  rw [show (10 : UInt16).toNat % 16 = 10 by decide, show (1024 : UInt16).toNat = 1024 by decide, Nat.shiftRight_and_distrib,
    show 1024 >>> 10 = 1 by decide, Nat.and_one_is_mod, Nat.shiftRight_eq_div_pow]
  omega
theorem b0 (w : UInt16) : (w &&& 1023).toNat = w.toNat % 1024 := by
  simp only [UInt16.toNat_and]
  rw [show (1023 : UInt16).toNat = 2 ^ 10 - 1 by decide, Nat.and_two_pow_sub_one_eq_mod]

theorem b15 (w : UInt16) : (w &&& 32768).toUInt8 = 0 := by
  apply UInt8.toNat_inj.mp
  rw [UInt16.toNat_toUInt8, UInt16.toNat_and, show (32768 : UInt16).toNat = 2 ^ 15 by decide]
  apply Nat.eq_of_testBit_eq; intro i
  rw [Nat.testBit_mod_two_pow, Nat.testBit_and, Nat.testBit_two_pow]
  by_cases h : i < 8
  · have : ¬ (15 = i) := by omega
    simp [this]
  · simp [h]


end JT.Go
