import JT.Model.Codec
import JT.Proof.Layout
/-! Round-trip lemmas for counted-list bodies (helper lemmas and struct-level round trips for C07). -/
namespace JT.Codec
open JT JT.Layout

theorem bytesOf_length (w : Nat) (ns : List Nat) : (bytesOf w ns).length = w * ns.length := by
  induction ns with
  | nil => simp [bytesOf]
  | cons n r ih =>
    simp only [bytesOf, List.flatMap_cons, List.length_append, toBE_length, List.length_cons] at ih ⊢
    rw [ih]; rw [Nat.mul_succ]; omega

/-- numbers that fit in `w` bytes survive `bytesOf` / `numsOf`, whatever follows -/
theorem numsOf_bytesOf (w : Nat) : ∀ (ns : List Nat) (rest : Bytes), (∀ n ∈ ns, n < 256 ^ w) →
    numsOf w ns.length (bytesOf w ns ++ rest) = ns
  | [], _, _ => rfl
  | n :: r, rest, h => by
    have hn := h n (by simp)
    have ih := numsOf_bytesOf w r rest (fun m hm => h m (by simp [hm]))
    simp only [bytesOf, List.flatMap_cons, List.length_cons, numsOf, List.append_assoc] at ih ⊢
    have ht : (toBE w n ++ (List.flatMap (toBE w) r ++ rest)).take w = toBE w n := by
      rw [List.take_left' (toBE_length w n)]
    have hd : (toBE w n ++ (List.flatMap (toBE w) r ++ rest)).drop w = List.flatMap (toBE w) r ++ rest := by
      rw [List.drop_left' (toBE_length w n)]
    rw [ht, hd, beN_toBE w n hn, ih]

/-- every byte string of `c * w` bytes is `bytesOf` of the numbers read from it -/
theorem bytesOf_numsOf (w : Nat) : ∀ (c : Nat) (b : Bytes), b.length = c * w → bytesOf w (numsOf w c b) = b
  | 0, b, h => by
    simp at h
    simp [numsOf, bytesOf, h]
  | c + 1, b, h => by
    have hlen : (b.take w).length = w := by
      simp [List.length_take]; rw [h, Nat.succ_mul]; omega
    have ih := bytesOf_numsOf w c (b.drop w) (by simp [List.length_drop]; rw [h, Nat.succ_mul]; omega)
    simp only [numsOf, bytesOf, List.flatMap_cons] at ih ⊢
    have := toBE_beN (b.take w)
    rw [hlen] at this
    rw [this, ih, List.take_append_drop]

theorem numsOf_length (w : Nat) : ∀ (c : Nat) (b : Bytes), (numsOf w c b).length = c
  | 0, _ => rfl
  | c + 1, b => by simp [numsOf, numsOf_length w c]

theorem numsOf_lt (w : Nat) : ∀ (c : Nat) (b : Bytes), ∀ n ∈ numsOf w c b, n < 256 ^ w
  | 0, _, n, h => by simp [numsOf] at h
  | c + 1, b, n, h => by
    simp only [numsOf, List.mem_cons] at h
    rcases h with rfl | h
    · have := beN_lt (b.take w)
      have hl : (b.take w).length ≤ w := by simp [List.length_take]; omega
      exact Nat.lt_of_lt_of_le this (Nat.pow_le_pow_right (by decide) hl)
    · exact numsOf_lt w c _ n h

/-! ### struct-level round trips -/

structure WF8003 (v : P8003) : Prop where
  serial : v.serial < 65536
  count : v.count = v.list.length
  count_lt : v.count < 256
  elems : ∀ n ∈ v.list, n < 256 ^ 2

theorem parse8003_encode (v : P8003) (hw : WF8003 v) : parse8003 (encode8003 v) = .ok v := by
  obtain ⟨hs, hc, hcl, he⟩ := hw
  obtain ⟨serial, count, list⟩ := v
  dsimp only at *
  subst hc
  have hlen : (encode8003 ⟨serial, list.length, list⟩).length = 3 + 2 * list.length := by
    simp [encode8003, toBE_two, bytesOf_length]; omega
  have hb2 : (encode8003 ⟨serial, list.length, list⟩).getD 2 0 = UInt8.ofNat list.length := by
    simp [encode8003, toBE_two]
  have hd : (encode8003 ⟨serial, list.length, list⟩).drop 3 = bytesOf 2 list := by
    simp [encode8003, toBE_two]
  have h01 : be16 ((encode8003 ⟨serial, list.length, list⟩).getD 0 0) ((encode8003 ⟨serial, list.length, list⟩).getD 1 0) = serial := by
    simp only [encode8003, toBE_two, List.cons_append, List.nil_append, List.getD_cons_zero, List.getD_cons_succ]
    exact be16_toBE serial hs
  unfold parse8003
  rw [if_neg (by omega)]
  simp only [hb2, toNat_ofNat_lt _ hcl, hlen, hd, h01]
  rw [if_neg (by omega)]
  have := numsOf_bytesOf 2 list [] he
  simp only [List.append_nil] at this
  rw [this]

theorem encode8003_parse (b : Bytes) (v : P8003) (h : parse8003 b = .ok v) : encode8003 v = b := by
  unfold parse8003 at h
  split at h
  · cases h
  · next h3 =>
    simp only at h
    split at h
    · cases h
    · next hl =>
      injection h with h; subst h
      have hl' : b.length = 3 + 2 * (b.getD 2 0).toNat := by omega
      obtain ⟨l3, r, rfl, hl3⟩ := (⟨b.take 3, b.drop 3, (List.take_append_drop 3 b).symm, by simp; omega⟩ :
        ∃ l r, b = l ++ r ∧ l.length = 3)
      match l3, hl3 with
      | [x0, x1, x2], _ =>
        have hr : r.length = (x2.toNat) * 2 := by simp at hl'; omega
        simp only [encode8003, List.cons_append, List.nil_append, List.getD_cons_zero, List.getD_cons_succ,
          List.drop_succ_cons, List.drop_zero]
        have e1 : toBE 2 (be16 x0 x1) = [x0, x1] := by
          have ha := UInt8.toNat_lt x0; have hb := UInt8.toNat_lt x1
          rw [toBE_two]
          have h1 : be16 x0 x1 / 256 % 256 = x0.toNat := by unfold be16; omega
          have h2 : be16 x0 x1 % 256 = x1.toNat := by unfold be16; omega
          rw [h1, h2]; simp
        rw [e1, ofNat_toNat_byte, bytesOf_numsOf 2 _ r hr]
        rfl

structure WF9212 (v : P9212) : Prop where
  nameLen : v.nameLen = v.name.length
  nameLt : v.nameLen < 256
  ftype : v.ftype < 256
  result : v.result < 256
  count : v.ranges.length = 2 * v.count
  countLt : v.count < 256
  elems : ∀ n ∈ v.ranges, n < 256 ^ 4

/-- **0x9212**: parsing the encoded response yields the response — every (offset, length) pair at its own
8-byte position (the stride defect D13 made this false from the second range on). -/
theorem parse9212_encode (v : P9212) (hw : WF9212 v) : parse9212 (encode9212 v) = .ok v := by
  obtain ⟨h1, h2, h3, h4, h5, h6, h7⟩ := hw
  obtain ⟨nameLen, name, ftype, result, count, ranges⟩ := v
  dsimp only at *
  subst h1
  have hlen : (encode9212 ⟨name.length, name, ftype, result, count, ranges⟩).length = 4 + name.length + 8 * count := by
    simp [encode9212, bytesOf_length, h5]; omega
  have hform : encode9212 ⟨name.length, name, ftype, result, count, ranges⟩ =
      UInt8.ofNat name.length :: (name ++ (UInt8.ofNat ftype :: UInt8.ofNat result :: UInt8.ofNat count :: bytesOf 4 ranges)) := by
    simp [encode9212]
  have g0 : (encode9212 ⟨name.length, name, ftype, result, count, ranges⟩).getD 0 0 = UInt8.ofNat name.length := by
    rw [hform]; rfl
  have gk : ∀ k, (encode9212 ⟨name.length, name, ftype, result, count, ranges⟩).getD (1 + name.length + k) 0 =
      (UInt8.ofNat ftype :: UInt8.ofNat result :: UInt8.ofNat count :: bytesOf 4 ranges).getD k 0 := by
    intro k
    rw [hform, Nat.add_comm 1, Nat.add_assoc, Nat.add_comm name.length]
    simp only [List.getD_eq_getElem?_getD]
    rw [show 1 + k + name.length = (k + name.length) + 1 by omega, List.getElem?_cons_succ,
      List.getElem?_append_right (by omega)]
    simp
  have hd1 : ((encode9212 ⟨name.length, name, ftype, result, count, ranges⟩).drop 1).take name.length = name := by
    rw [hform]; simp
  have hd4 : (encode9212 ⟨name.length, name, ftype, result, count, ranges⟩).drop (4 + name.length) = bytesOf 4 ranges := by
    rw [hform, show 4 + name.length = (name.length + 3) + 1 by omega, List.drop_succ_cons, List.drop_append]
    simp
  unfold parse9212
  rw [if_neg (by omega)]
  simp only [g0, toNat_ofNat_lt _ h2]
  rw [if_neg (by omega)]
  have e1 := gk 0; have e2 := gk 1; have e3 := gk 2
  simp only [Nat.add_zero, List.getD_cons_zero, List.getD_cons_succ] at e1 e2 e3
  rw [show 3 + name.length = 1 + name.length + 2 by omega, e3, show 2 + name.length = 1 + name.length + 1 by omega, e2, e1]
  simp only [toNat_ofNat_lt _ h3, toNat_ofNat_lt _ h4, toNat_ofNat_lt _ h6, hlen]
  rw [if_neg (by omega), hd1, hd4, ← h5]
  have := numsOf_bytesOf 4 ranges [] h7
  simp only [List.append_nil] at this
  rw [this]
end JT.Codec
