import JT.Gen.GoModel
import JT.Proof.GoTotal
/-!
# Message-body decoders as translated from protocol/model: totality

`JT/Gen/GoModel.lean` is regenerated from /repo on every run (`extract golean`). For the loop-free `Parse` methods the
statement "returns a value for every body and every receiver — no index or slice expression leaves the body" is proved
by one tactic: the checked accessors are rewritten into `if`s, every branch is split, and each `panic` branch is refuted
from the length guards on the path (linear arithmetic).
-/
namespace JT.Gen.GoModel
open JT JT.Go JT.Gen.GoFrame

theorem P0x8001_Parse_total (fuel : Nat) (p_6 : model_P0x8001) (jtMsg_1 : jt808_JTMessage) : (model_P0x8001_Parse fuel p_6 jtMsg_1).isOk = true := by
  simp only [model_P0x8001_Parse, model_P0x8001_Parse_j1]
  go_total

theorem P0x8100_Parse_total (fuel : Nat) (p_10 : model_P0x8100) (jtMsg_3 : jt808_JTMessage) : (model_P0x8100_Parse fuel p_10 jtMsg_3).isOk = true := by
  simp only [model_P0x8100_Parse, model_P0x8100_Parse_j1]
  go_total

theorem P0x8104_Parse_total (fuel : Nat) (p_14 : model_P0x8104) (blank_1 : jt808_JTMessage) : (model_P0x8104_Parse fuel p_14 blank_1).isOk = true := by
  simp only [model_P0x8104_Parse]
  go_total

theorem P0x8801_Parse_total (fuel : Nat) (p_18 : model_P0x8801) (jtMsg_6 : jt808_JTMessage) : (model_P0x8801_Parse fuel p_18 jtMsg_6).isOk = true := by
  simp only [model_P0x8801_Parse, model_P0x8801_Parse_j1]
  go_total

theorem P0x9003_Parse_total (fuel : Nat) (p_20 : model_P0x9003) (blank_2 : jt808_JTMessage) : (model_P0x9003_Parse fuel p_20 blank_2).isOk = true := by
  simp only [model_P0x9003_Parse]
  go_total

theorem P0x9101_Parse_total (fuel : Nat) (p_22 : model_P0x9101) (jtMsg_7 : jt808_JTMessage) : (model_P0x9101_Parse fuel p_22 jtMsg_7).isOk = true := by
  simp only [model_P0x9101_Parse, model_P0x9101_Parse_j1, model_P0x9101_Parse_j2]
  go_total

theorem P0x9102_Parse_total (fuel : Nat) (p_24 : model_P0x9102) (jtMsg_8 : jt808_JTMessage) : (model_P0x9102_Parse fuel p_24 jtMsg_8).isOk = true := by
  simp only [model_P0x9102_Parse, model_P0x9102_Parse_j1]
  go_total

theorem P0x9105_Parse_total (fuel : Nat) (p_26 : model_P0x9105) (jtMsg_9 : jt808_JTMessage) : (model_P0x9105_Parse fuel p_26 jtMsg_9).isOk = true := by
  simp only [model_P0x9105_Parse, model_P0x9105_Parse_j1]
  go_total

theorem P0x9207_Parse_total (fuel : Nat) (p_36 : model_P0x9207) (jtMsg_14 : jt808_JTMessage) : (model_P0x9207_Parse fuel p_36 jtMsg_14).isOk = true := by
  simp only [model_P0x9207_Parse, model_P0x9207_Parse_j1]
  go_total

theorem T0x0001_Parse_total (fuel : Nat) (t_9 : model_T0x0001) (jtMsg_17 : jt808_JTMessage) : (model_T0x0001_Parse fuel t_9 jtMsg_17).isOk = true := by
  simp only [model_T0x0001_Parse, model_T0x0001_Parse_j1]
  go_total

theorem T0x0800_Parse_total (fuel : Nat) (t_29 : model_T0x0800) (jtMsg_23 : jt808_JTMessage) : (model_T0x0800_Parse fuel t_29 jtMsg_23).isOk = true := by
  simp only [model_T0x0800_Parse, model_T0x0800_Parse_j1]
  go_total

theorem T0x1003_Parse_total (fuel : Nat) (t_35 : model_T0x1003) (jtMsg_26 : jt808_JTMessage) : (model_T0x1003_Parse fuel t_35 jtMsg_26).isOk = true := by
  simp only [model_T0x1003_Parse, model_T0x1003_Parse_j1]
  go_total

theorem T0x1206_Parse_total (fuel : Nat) (t_41 : model_T0x1206) (jtMsg_29 : jt808_JTMessage) : (model_T0x1206_Parse fuel t_41 jtMsg_29).isOk = true := by
  simp only [model_T0x1206_Parse, model_T0x1206_Parse_j1]
  go_total

theorem T0x1211_Parse_total (fuel : Nat) (t_45 : model_T0x1211) (jtMsg_31 : jt808_JTMessage) : (model_T0x1211_Parse fuel t_45 jtMsg_31).isOk = true := by
  simp only [model_T0x1211_Parse, model_T0x1211_Parse_j1, model_T0x1211_Parse_j2]
  go_total

theorem P0x8001_Encode_total (fuel : Nat) (p_5 : model_P0x8001) : (model_P0x8001_Encode fuel p_5).isOk = true := by
  simp only [model_P0x8001_Encode]
  go_total

theorem P0x8104_Encode_total (fuel : Nat) (p_13 : model_P0x8104) : (model_P0x8104_Encode fuel p_13).isOk = true := by
  simp only [model_P0x8104_Encode]
  go_total

theorem P0x8801_Encode_total (fuel : Nat) (p_17 : model_P0x8801) : (model_P0x8801_Encode fuel p_17).isOk = true := by
  simp only [model_P0x8801_Encode]
  go_total

theorem P0x9003_Encode_total (fuel : Nat) (p_19 : model_P0x9003) : (model_P0x9003_Encode fuel p_19).isOk = true := by
  simp only [model_P0x9003_Encode]
  go_total

theorem P0x9102_Encode_total (fuel : Nat) (p_23 : model_P0x9102) : (model_P0x9102_Encode fuel p_23).isOk = true := by
  simp only [model_P0x9102_Encode]
  go_total

theorem P0x9105_Encode_total (fuel : Nat) (p_25 : model_P0x9105) : (model_P0x9105_Encode fuel p_25).isOk = true := by
  simp only [model_P0x9105_Encode]
  go_total

theorem P0x9207_Encode_total (fuel : Nat) (p_35 : model_P0x9207) : (model_P0x9207_Encode fuel p_35).isOk = true := by
  simp only [model_P0x9207_Encode]
  go_total

theorem T0x0001_Encode_total (fuel : Nat) (t_8 : model_T0x0001) : (model_T0x0001_Encode fuel t_8).isOk = true := by
  simp only [model_T0x0001_Encode]
  go_total

theorem T0x0002_Encode_total (fuel : Nat) (t_10 : model_T0x0002) : (model_T0x0002_Encode fuel t_10).isOk = true := by
  simp only [model_T0x0002_Encode]
  go_total

theorem T0x0104_Encode_total (fuel : Nat) (t_16 : model_T0x0104) : (model_T0x0104_Encode fuel t_16).isOk = true := by
  simp only [model_T0x0104_Encode]
  go_total

theorem T0x0800_Encode_total (fuel : Nat) (t_28 : model_T0x0800) : (model_T0x0800_Encode fuel t_28).isOk = true := by
  simp only [model_T0x0800_Encode]
  go_total

theorem T0x1003_Encode_total (fuel : Nat) (t_34 : model_T0x1003) : (model_T0x1003_Encode fuel t_34).isOk = true := by
  simp only [model_T0x1003_Encode]
  go_total

theorem T0x1206_Encode_total (fuel : Nat) (t_40 : model_T0x1206) : (model_T0x1206_Encode fuel t_40).isOk = true := by
  simp only [model_T0x1206_Encode]
  go_total

/-! ### decoders with a loop: one invariant each -/

theorem isOk_bind {α β} (x : X α) (f : α → X β) (hx : x.isOk = true) (hf : ∀ r, (f r).isOk = true) : (x.bind f).isOk = true := by
  cases x with
  | ok r => exact hf r
  | panic => simp [X.isOk] at hx
  | fuel => simp [X.isOk] at hx

/-- the re-request list of 0x8003: every id is read inside the body the length check admitted -/
theorem P0x8003_loop_ok (j : jt808_JTMessage) (body : Bytes) : ∀ (fuel i : Nat) (p : model_P0x8003) (k : Int), k = (i : Int) →
    i ≤ p.AgainPackageCount.toNat → body.length = 3 + 2 * p.AgainPackageCount.toNat → p.AgainPackageCount.toNat - i < fuel →
    (model_P0x8003_Parse_loop1 fuel p j body k).isOk = true
  | 0, _, _, _, _, _, _, h => by omega
  | fuel + 1, i, p, k, hk, hi, hl, hf => by
    subst hk
    unfold model_P0x8003_Parse_loop1
    simp only [slice, u16_ite, bind_ite', X.bind_ok, X.bind_panic, List.length_take, List.length_drop, X.isOk_ite_iff, X.isOk_ok,
      X.isOk_panic, implies_true, and_true, true_and, decide_eq_true_eq, Int.ofNat_eq_natCast]
    intro hlt
    refine ⟨fun hs => ⟨fun h2 => ?_, fun h2 => ?_⟩, fun hs => ?_⟩
    · exact P0x8003_loop_ok j body fuel (i + 1) _ _ (by omega) (by simp only []; omega) (by simp only []; omega) (by simp only []; omega)
    · omega
    · omega

theorem P0x8003_Parse_total (fuel : Nat) (p : model_P0x8003) (j : jt808_JTMessage) (hf : j.Body.length < fuel) :
    (model_P0x8003_Parse fuel p j).isOk = true := by
  simp only [model_P0x8003_Parse, model_P0x8003_Parse_j3, model_P0x8003_Parse_j2]
  simp only [sliceTo, slice, idx_ite, u16_ite, bind_ite', X.bind_ok, X.bind_panic, List.length_take, List.length_drop, X.isOk_ite_iff,
    X.isOk_ok, X.isOk_panic, implies_true, and_true, true_and, decide_eq_true_eq, bne_iff_ne, ne_eq, Int.ofNat_eq_natCast, Decidable.not_not]
  intro h3
  refine ⟨fun a => ⟨fun b => ⟨fun c hlen => ?_, fun c => ?_⟩, fun b => ?_⟩, fun a => ?_⟩
  all_goals (simp only [len_eq, Int.reduceToNat, Nat.sub_zero] at *)
  · have hl : j.Body.length = 3 + 2 * (j.Body.getD 2 0).toNat := by omega
    refine isOk_bind _ _ ?_ (fun r => rfl)
    exact P0x8003_loop_ok j j.Body fuel 0 _ _ rfl (by simp only []; omega) (by simp only []; exact hl) (by simp only []; omega)
  all_goals omega

/-- the retransmit list of 0x9212: every (offset, length) pair is read inside the body the length check admitted -/
theorem P0x9212_loop_ok (j : jt808_JTMessage) (body : Bytes) (l : Nat) : ∀ (fuel i : Nat) (p : model_P0x9212) (k : Int), k = (i : Int) →
    i ≤ p.RetransmitPacketNumber.toNat → body.length = 4 + l + 8 * p.RetransmitPacketNumber.toNat →
    p.RetransmitPacketNumber.toNat - i < fuel →
    (model_P0x9212_Parse_loop1 fuel p j body (l : Int) k).isOk = true
  | 0, _, _, _, _, _, _, h => by omega
  | fuel + 1, i, p, k, hk, hi, hl, hf => by
    subst hk
    unfold model_P0x9212_Parse_loop1
    simp only [sliceFrom, slice, u32_ite, bind_ite', X.bind_ok, X.bind_panic, List.length_take, List.length_drop, X.isOk_ite_iff, X.isOk_ok,
      X.isOk_panic, implies_true, and_true, true_and, decide_eq_true_eq, Int.ofNat_eq_natCast, len_eq]
    intro hlt
    refine ⟨fun hs => ⟨fun h2 => ⟨fun hs2 => ⟨fun h3 => ?_, fun h3 => ?_⟩, fun hs2 => ?_⟩, fun h2 => ?_⟩, fun hs => ?_⟩
    · exact P0x9212_loop_ok j body l fuel (i + 1) _ _ (by omega) (by simp only []; omega) (by simp only []; omega) (by simp only []; omega)
    all_goals omega

theorem P0x9212_Parse_total (fuel : Nat) (p : model_P0x9212) (j : jt808_JTMessage) (hf : j.Body.length < fuel) :
    (model_P0x9212_Parse fuel p j).isOk = true := by
  simp only [model_P0x9212_Parse, model_P0x9212_Parse_j4, model_P0x9212_Parse_j3, model_P0x9212_Parse_j2]
  simp only [sliceTo, slice, idx_ite, u16_ite, bind_ite', X.bind_ok, X.bind_panic, List.length_take, List.length_drop, X.isOk_ite_iff,
    X.isOk_ok, X.isOk_panic, implies_true, and_true, true_and, decide_eq_true_eq, bne_iff_ne, ne_eq, Int.ofNat_eq_natCast, Decidable.not_not]
  intro h4
  refine ⟨fun a => fun hl4 => ⟨fun b => ⟨fun c => ⟨fun d => ⟨fun e hlen => ?_, fun e => ?_⟩, fun d => ?_⟩, fun c => ?_⟩, fun b => ?_⟩, fun a => ?_⟩
  all_goals (simp only [len_eq, Int.reduceToNat, Nat.sub_zero] at *)
  · generalize hL : (j.Body.getD 0 0).toNat = L at *
    have e3 : ((3 : Int) + (L : Int)).toNat = 3 + L := by omega
    rw [e3] at hlen ⊢
    have hl : j.Body.length = 4 + L + 8 * (j.Body.getD (3 + L) 0).toNat := by omega
    refine isOk_bind _ _ ?_ (fun r => rfl)
    exact P0x9212_loop_ok j j.Body L fuel 0 _ _ rfl (by simp only []; omega) (by simp only []; exact hl) (by simp only []; omega)
  all_goals omega

/-- the multimedia-id list of 0x0805: every id is read inside the body the length check admitted -/
theorem T0x0805_loop_ok (j : jt808_JTMessage) (body : Bytes) : ∀ (fuel i : Nat) (t : model_T0x0805) (k : Int), k = (i : Int) →
    i ≤ t.MultimediaIDNumber.toNat → body.length = 5 + 4 * t.MultimediaIDNumber.toNat → t.MultimediaIDNumber.toNat - i < fuel →
    (model_T0x0805_Parse_loop1 fuel t j body k).isOk = true
  | 0, _, _, _, _, _, _, h => by omega
  | fuel + 1, i, t, k, hk, hi, hl, hf => by
    subst hk
    unfold model_T0x0805_Parse_loop1
    simp only [slice, u32_ite, bind_ite', X.bind_ok, X.bind_panic, List.length_take, List.length_drop, X.isOk_ite_iff, X.isOk_ok,
      X.isOk_panic, implies_true, and_true, true_and, decide_eq_true_eq, Int.ofNat_eq_natCast]
    intro hlt
    refine ⟨fun hs => ⟨fun h2 => ?_, fun h2 => ?_⟩, fun hs => ?_⟩
    · exact T0x0805_loop_ok j body fuel (i + 1) _ _ (by omega) (by simp only []; omega) (by simp only []; omega) (by simp only []; omega)
    · omega
    · omega

theorem T0x0805_Parse_total (fuel : Nat) (t : model_T0x0805) (j : jt808_JTMessage) (hf : j.Body.length < fuel) :
    (model_T0x0805_Parse fuel t j).isOk = true := by
  simp only [model_T0x0805_Parse, model_T0x0805_Parse_j3, model_T0x0805_Parse_j2]
  simp only [sliceTo, slice, idx_ite, u16_ite, bind_ite', X.bind_ok, X.bind_panic, List.length_take, List.length_drop, X.isOk_ite_iff,
    X.isOk_ok, X.isOk_panic, implies_true, and_true, true_and, decide_eq_true_eq, bne_iff_ne, ne_eq, Int.ofNat_eq_natCast, Decidable.not_not]
  intro h5
  refine ⟨fun a => ⟨fun b => ⟨fun c => ⟨fun d => ⟨fun e hlen => ?_, fun e => ?_⟩, fun d => ?_⟩, fun c => ?_⟩, fun b => ?_⟩, fun a => ?_⟩
  all_goals (simp only [len_eq, Int.reduceToNat, Nat.sub_zero] at *)
  · refine isOk_bind _ _ ?_ (fun r => rfl)
    exact T0x0805_loop_ok j j.Body fuel 0 _ _ rfl (by simp only []; omega) (by simp only []; omega) (by simp only []; omega)
  all_goals omega

/-- the re-request list of 0x8800 -/
theorem P0x8800_loop_ok (j : jt808_JTMessage) (body : Bytes) : ∀ (fuel i : Nat) (p : model_P0x8800) (k : Int), k = (i : Int) →
    i ≤ p.AgainPackageCount.toNat → body.length = 5 + 2 * p.AgainPackageCount.toNat → p.AgainPackageCount.toNat - i < fuel →
    (model_P0x8800_Parse_loop1 fuel p j body k).isOk = true
  | 0, _, _, _, _, _, _, h => by omega
  | fuel + 1, i, p, k, hk, hi, hl, hf => by
    subst hk
    unfold model_P0x8800_Parse_loop1
    simp only [slice, u16_ite, bind_ite', X.bind_ok, X.bind_panic, List.length_take, List.length_drop, X.isOk_ite_iff, X.isOk_ok,
      X.isOk_panic, implies_true, and_true, true_and, decide_eq_true_eq, Int.ofNat_eq_natCast]
    intro hlt
    refine ⟨fun hs => ⟨fun h2 => ?_, fun h2 => ?_⟩, fun hs => ?_⟩
    · exact P0x8800_loop_ok j body fuel (i + 1) _ _ (by omega) (by simp only []; omega) (by simp only []; omega) (by simp only []; omega)
    · omega
    · omega

theorem P0x8800_Parse_total (fuel : Nat) (p : model_P0x8800) (j : jt808_JTMessage) (hf : j.Body.length < fuel) :
    (model_P0x8800_Parse fuel p j).isOk = true := by
  simp only [model_P0x8800_Parse, model_P0x8800_Parse_j3, model_P0x8800_Parse_j2]
  simp only [sliceTo, slice, idx_ite, u16_ite, u32_ite, bind_ite', X.bind_ok, X.bind_panic, List.length_take, List.length_drop, X.isOk_ite_iff,
    X.isOk_ok, X.isOk_panic, implies_true, and_true, true_and, decide_eq_true_eq, bne_iff_ne, beq_iff_eq, ne_eq, Int.ofNat_eq_natCast, Decidable.not_not]
  repeat' (first | (intro _) | constructor)
  all_goals (try simp only [len_eq, Int.reduceToNat, Nat.sub_zero] at *)
  all_goals first | omega |
    (refine isOk_bind _ _ ?_ (fun r => rfl)
     exact P0x8800_loop_ok j j.Body fuel 0 _ _ rfl (by simp only []; omega) (by simp only []; omega) (by simp only []; omega))

end JT.Gen.GoModel
