import JT.Spec.Rtp
import JT.Proof.Bytes
import JT.Proof.Frame
/-! Helper lemmas for C17 (JT1078 RTP decode). -/
namespace JT.Rtp
open JT

theorem beN_toBE8 (n : Nat) (h : n < 2 ^ 64) : beN (toBE 8 n) = n := by
  simp only [toBE, beN, List.foldl, Nat.reducePow]
  repeat rw [toNat_ofNat_lt _ (Nat.mod_lt _ (by decide))]
  omega

/-- the 16 fixed bytes every packet starts with -/
def h16 (b4 b5 q0 q1 m0 m1 m2 m3 m4 m5 ch b15 : Byte) (t : Bytes) : Bytes :=
  0x30 :: 0x31 :: 0x63 :: 0x64 :: b4 :: b5 :: q0 :: q1 :: m0 :: m1 :: m2 :: m3 :: m4 :: m5 :: ch :: b15 :: t

/-- length of the type-dependent part of the header (timestamp, intervals, body length) -/
def tailLen (dt : Nat) : Nat := (if dt ≠ 4 then 8 else 0) + (if dt ≤ 2 then 4 else 0) + 2

theorem decode_head_short (b4 b5 q0 q1 m0 m1 m2 m3 m4 m5 ch b15 : Byte) (t : Bytes)
    (ht : t.length < tailLen (b15.toNat / 16)) :
    decode (h16 b4 b5 q0 q1 m0 m1 m2 m3 m4 m5 ch b15 t) = .short := by
  unfold tailLen at ht
  by_cases h4 : b15.toNat / 16 = 4
  · simp [h4] at ht
    simp [decode, h16, marker, h4]
    omega
  · by_cases h2 : b15.toNat / 16 ≤ 2
    · simp [h4, h2] at ht
      simp [decode, h16, marker, h4, h2]
      intro _; omega
    · simp [h4, h2] at ht
      simp [decode, h16, marker, h4, h2]
      intro _; omega

theorem decode_penetrate (b4 b5 q0 q1 m0 m1 m2 m3 m4 m5 ch b15 l0 l1 : Byte) (t : Bytes)
    (hdt : b15.toNat / 16 = 4) :
    decode (h16 b4 b5 q0 q1 m0 m1 m2 m3 m4 m5 ch b15 (l0 :: l1 :: t)) =
    if t.length < be16 l0 l1 then .short else
    .ok ({ v := b4.toNat / 64, p := b4.toNat / 32 % 2, x := b4.toNat / 16 % 2, cc := b4.toNat % 16,
           m := b5.toNat / 128, pt := b5.toNat % 128, seq := be16 q0 q1, sim := [m0, m1, m2, m3, m4, m5],
           ch := ch.toNat, dt := 4, sub := b15.toNat % 16, ts := 0, lifi := 0, lfi := 0,
           body := t.take (be16 l0 l1) }, t.drop (be16 l0 l1)) := by
  simp [decode, h16, marker, hdt]
  rw [if_neg (by omega), if_neg (by omega)]

theorem decode_video (b4 b5 q0 q1 m0 m1 m2 m3 m4 m5 ch b15 t0 t1 t2 t3 t4 t5 t6 t7 i0 i1 j0 j1 l0 l1 : Byte) (t : Bytes)
    (hdt : b15.toNat / 16 ≤ 2) :
    decode (h16 b4 b5 q0 q1 m0 m1 m2 m3 m4 m5 ch b15
      (t0 :: t1 :: t2 :: t3 :: t4 :: t5 :: t6 :: t7 :: i0 :: i1 :: j0 :: j1 :: l0 :: l1 :: t)) =
    if t.length < be16 l0 l1 then .short else
    .ok ({ v := b4.toNat / 64, p := b4.toNat / 32 % 2, x := b4.toNat / 16 % 2, cc := b4.toNat % 16,
           m := b5.toNat / 128, pt := b5.toNat % 128, seq := be16 q0 q1, sim := [m0, m1, m2, m3, m4, m5],
           ch := ch.toNat, dt := b15.toNat / 16, sub := b15.toNat % 16,
           ts := beN [t0, t1, t2, t3, t4, t5, t6, t7], lifi := be16 i0 i1, lfi := be16 j0 j1,
           body := t.take (be16 l0 l1) }, t.drop (be16 l0 l1)) := by
  have h4 : ¬ b15.toNat / 16 = 4 := by omega
  simp [decode, h16, marker, hdt, h4]
  rw [if_neg (by omega), if_neg (by omega)]

theorem decode_other (b4 b5 q0 q1 m0 m1 m2 m3 m4 m5 ch b15 t0 t1 t2 t3 t4 t5 t6 t7 l0 l1 : Byte) (t : Bytes)
    (h4 : ¬ b15.toNat / 16 = 4) (h2 : ¬ b15.toNat / 16 ≤ 2) :
    decode (h16 b4 b5 q0 q1 m0 m1 m2 m3 m4 m5 ch b15
      (t0 :: t1 :: t2 :: t3 :: t4 :: t5 :: t6 :: t7 :: l0 :: l1 :: t)) =
    if t.length < be16 l0 l1 then .short else
    .ok ({ v := b4.toNat / 64, p := b4.toNat / 32 % 2, x := b4.toNat / 16 % 2, cc := b4.toNat % 16,
           m := b5.toNat / 128, pt := b5.toNat % 128, seq := be16 q0 q1, sim := [m0, m1, m2, m3, m4, m5],
           ch := ch.toNat, dt := b15.toNat / 16, sub := b15.toNat % 16,
           ts := beN [t0, t1, t2, t3, t4, t5, t6, t7], lifi := 0, lfi := 0,
           body := t.take (be16 l0 l1) }, t.drop (be16 l0 l1)) := by
  simp [decode, h16, marker, h2, h4]
  rw [if_neg (by omega), if_neg (by omega)]


/-- everything of the standard encoding that precedes the body -/
def hdrBytes (p : Pkt) : Bytes :=
  marker ++ [UInt8.ofNat (p.v * 64 + p.p * 32 + p.x * 16 + p.cc), UInt8.ofNat (p.m * 128 + p.pt)]
    ++ toBE 2 p.seq ++ p.sim ++ [UInt8.ofNat p.ch, UInt8.ofNat (p.dt * 16 + p.sub)]
    ++ (if p.dt ≠ 4 then toBE 8 p.ts else [])
    ++ (if p.dt ≤ 2 then toBE 2 p.lifi ++ toBE 2 p.lfi else [])
    ++ toBE 2 p.body.length

theorem encodeStd_eq (p : Pkt) : encodeStd p = hdrBytes p ++ p.body := by
  simp [encodeStd, hdrBytes]

theorem hdrBytes_length (p : Pkt) (hp : WF p) : (hdrBytes p).length = 16 + tailLen p.dt := by
  have := hp.sim
  simp only [hdrBytes, tailLen, marker, List.length_append, List.length_cons, List.length_nil, toBE_two, this]
  split <;> split <;> simp [toBE] <;> omega

/-- decoding the header of a representable packet followed by arbitrary bytes `t` -/
theorem decode_hdr_append (p : Pkt) (hp : WF p) (t : Bytes) :
    decode (hdrBytes p ++ t) =
      if t.length < p.body.length then .short
      else .ok ({ p with body := t.take p.body.length }, t.drop p.body.length) := by
  obtain ⟨hv, hpp, hx, hcc, hm, hpt, hseq, hsim, hch, hdt, hsub, hts, hts0, hlifi, hlfi, hiv0, hbody⟩ := hp
  obtain ⟨v, pp, x, cc, m, pt, seq, sim, ch, dt, sub, ts, lifi, lfi, body⟩ := p
  dsimp only at *
  obtain ⟨m0, m1, m2, m3, m4, m5, rfl⟩ := Frame.len6 sim hsim
  have hb4 : (UInt8.ofNat (v * 64 + pp * 32 + x * 16 + cc)).toNat = v * 64 + pp * 32 + x * 16 + cc :=
    toNat_ofNat_lt _ (by omega)
  have hb5 : (UInt8.ofNat (m * 128 + pt)).toNat = m * 128 + pt := toNat_ofNat_lt _ (by omega)
  have hb15 : (UInt8.ofNat (dt * 16 + sub)).toNat = dt * 16 + sub := toNat_ofNat_lt _ (by omega)
  have hchn : (UInt8.ofNat ch).toNat = ch := toNat_ofNat_lt _ hch
  have hlen : be16 (UInt8.ofNat (body.length / 256 % 256)) (UInt8.ofNat (body.length % 256)) = body.length :=
    be16_toBE _ hbody
  have hdt15 : (UInt8.ofNat (dt * 16 + sub)).toNat / 16 = dt := by rw [hb15]; omega
  have e1 : (v * 64 + pp * 32 + x * 16 + cc) / 64 = v := by omega
  have e2 : (v * 64 + pp * 32 + x * 16 + cc) / 32 % 2 = pp := by omega
  have e3 : (v * 64 + pp * 32 + x * 16 + cc) / 16 % 2 = x := by omega
  have e4 : (v * 64 + pp * 32 + x * 16 + cc) % 16 = cc := by omega
  have e5 : (m * 128 + pt) / 128 = m := by omega
  have e6 : (m * 128 + pt) % 128 = pt := by omega
  have e7 : (dt * 16 + sub) % 16 = sub := by omega
  have e8 : (dt * 16 + sub) / 16 = dt := by omega
  by_cases h4 : dt = 4
  · subst h4
    have := hts0 rfl; subst this
    obtain ⟨hl0, hl1⟩ := hiv0 (by omega); subst hl0; subst hl1
    have hform : hdrBytes ⟨v, pp, x, cc, m, pt, seq, [m0, m1, m2, m3, m4, m5], ch, 4, sub, 0, 0, 0, body⟩ ++ t =
        h16 (UInt8.ofNat (v * 64 + pp * 32 + x * 16 + cc)) (UInt8.ofNat (m * 128 + pt))
          (UInt8.ofNat (seq / 256 % 256)) (UInt8.ofNat (seq % 256)) m0 m1 m2 m3 m4 m5 (UInt8.ofNat ch)
          (UInt8.ofNat (4 * 16 + sub))
          (UInt8.ofNat (body.length / 256 % 256) :: UInt8.ofNat (body.length % 256) :: t) := by
      simp [hdrBytes, marker, h16, toBE_two]
    rw [hform, decode_penetrate _ _ _ _ _ _ _ _ _ _ _ _ _ _ _ hdt15, hlen]
    simp only [hb4, hb5, hb15, hchn, be16_toBE _ hseq, e1, e2, e3, e4, e5, e6, e7]
  · obtain ⟨t0, t1, t2, t3, t4, t5, t6, t7, h8⟩ : ∃ t0 t1 t2 t3 t4 t5 t6 t7, toBE 8 ts = [t0, t1, t2, t3, t4, t5, t6, t7] :=
      ⟨_, _, _, _, _, _, _, _, by simp only [toBE]; rfl⟩
    have hbe8 : beN [t0, t1, t2, t3, t4, t5, t6, t7] = ts := by rw [← h8]; exact beN_toBE8 ts hts
    by_cases h2 : dt ≤ 2
    · have hform : hdrBytes ⟨v, pp, x, cc, m, pt, seq, [m0, m1, m2, m3, m4, m5], ch, dt, sub, ts, lifi, lfi, body⟩ ++ t =
          h16 (UInt8.ofNat (v * 64 + pp * 32 + x * 16 + cc)) (UInt8.ofNat (m * 128 + pt))
            (UInt8.ofNat (seq / 256 % 256)) (UInt8.ofNat (seq % 256)) m0 m1 m2 m3 m4 m5 (UInt8.ofNat ch)
            (UInt8.ofNat (dt * 16 + sub))
            (t0 :: t1 :: t2 :: t3 :: t4 :: t5 :: t6 :: t7 ::
             UInt8.ofNat (lifi / 256 % 256) :: UInt8.ofNat (lifi % 256) ::
             UInt8.ofNat (lfi / 256 % 256) :: UInt8.ofNat (lfi % 256) ::
             UInt8.ofNat (body.length / 256 % 256) :: UInt8.ofNat (body.length % 256) :: t) := by
        simp [hdrBytes, marker, h16, toBE_two, h4, h2, h8]
      rw [hform, decode_video _ _ _ _ _ _ _ _ _ _ _ _ _ _ _ _ _ _ _ _ _ _ _ _ _ _ _ (by rw [hdt15]; exact h2), hlen]
      simp only [hb4, hb5, hb15, hchn, be16_toBE _ hseq, be16_toBE _ hlifi, be16_toBE _ hlfi, hbe8,
        e1, e2, e3, e4, e5, e6, e7, e8]
    · obtain ⟨hl0, hl1⟩ := hiv0 (by omega); subst hl0; subst hl1
      have hform : hdrBytes ⟨v, pp, x, cc, m, pt, seq, [m0, m1, m2, m3, m4, m5], ch, dt, sub, ts, 0, 0, body⟩ ++ t =
          h16 (UInt8.ofNat (v * 64 + pp * 32 + x * 16 + cc)) (UInt8.ofNat (m * 128 + pt))
            (UInt8.ofNat (seq / 256 % 256)) (UInt8.ofNat (seq % 256)) m0 m1 m2 m3 m4 m5 (UInt8.ofNat ch)
            (UInt8.ofNat (dt * 16 + sub))
            (t0 :: t1 :: t2 :: t3 :: t4 :: t5 :: t6 :: t7 ::
             UInt8.ofNat (body.length / 256 % 256) :: UInt8.ofNat (body.length % 256) :: t) := by
        simp [hdrBytes, marker, h16, toBE_two, h4, h2, h8]
      rw [hform, decode_other _ _ _ _ _ _ _ _ _ _ _ _ _ _ _ _ _ _ _ _ _ _ _ (by rw [hdt15]; exact h4) (by rw [hdt15]; exact h2), hlen]
      simp only [hb4, hb5, hb15, hchn, be16_toBE _ hseq, hbe8, e1, e2, e3, e4, e5, e6, e7, e8]

/-- a strict prefix of the header is too short -/
theorem decode_hdr_prefix (p : Pkt) (hp : WF p) (k : Nat) (hk : k < (hdrBytes p).length) :
    decode ((hdrBytes p).take k) = .short := by
  by_cases h16' : k < 16
  · unfold decode
    rw [if_pos (by simp; omega)]
  · have hlenH := hdrBytes_length p hp
    obtain ⟨hv, hpp, hx, hcc, hm, hpt, hseq, hsim, hch, hdt, hsub, hts, hts0, hlifi, hlfi, hiv0, hbody⟩ := hp
    obtain ⟨v, pp, x, cc, m, pt, seq, sim, ch, dt, sub, ts, lifi, lfi, body⟩ := p
    dsimp only at *
    obtain ⟨m0, m1, m2, m3, m4, m5, rfl⟩ := Frame.len6 sim hsim
    have hb15 : (UInt8.ofNat (dt * 16 + sub)).toNat = dt * 16 + sub := toNat_ofNat_lt _ (by omega)
    have hdt15 : (UInt8.ofNat (dt * 16 + sub)).toNat / 16 = dt := by rw [hb15]; omega
    -- the header is the 16 fixed bytes followed by a tail T of length tailLen dt
    obtain ⟨T, hT, hTl⟩ : ∃ T, hdrBytes ⟨v, pp, x, cc, m, pt, seq, [m0, m1, m2, m3, m4, m5], ch, dt, sub, ts, lifi, lfi, body⟩ =
        h16 (UInt8.ofNat (v * 64 + pp * 32 + x * 16 + cc)) (UInt8.ofNat (m * 128 + pt))
          (UInt8.ofNat (seq / 256 % 256)) (UInt8.ofNat (seq % 256)) m0 m1 m2 m3 m4 m5 (UInt8.ofNat ch)
          (UInt8.ofNat (dt * 16 + sub)) T ∧ T.length = tailLen dt := by
      refine ⟨(if dt ≠ 4 then toBE 8 ts else []) ++ (if dt ≤ 2 then toBE 2 lifi ++ toBE 2 lfi else []) ++ toBE 2 body.length, ?_, ?_⟩
      · simp [hdrBytes, marker, h16, toBE_two]
      · simp only [tailLen, List.length_append, toBE_two]
        split <;> split <;> simp [toBE]
    rw [hT]
    obtain ⟨j, rfl⟩ : ∃ j, k = 16 + j := ⟨k - 16, by omega⟩
    have : (h16 (UInt8.ofNat (v * 64 + pp * 32 + x * 16 + cc)) (UInt8.ofNat (m * 128 + pt))
          (UInt8.ofNat (seq / 256 % 256)) (UInt8.ofNat (seq % 256)) m0 m1 m2 m3 m4 m5 (UInt8.ofNat ch)
          (UInt8.ofNat (dt * 16 + sub)) T).take (16 + j) =
        h16 (UInt8.ofNat (v * 64 + pp * 32 + x * 16 + cc)) (UInt8.ofNat (m * 128 + pt))
          (UInt8.ofNat (seq / 256 % 256)) (UInt8.ofNat (seq % 256)) m0 m1 m2 m3 m4 m5 (UInt8.ofNat ch)
          (UInt8.ofNat (dt * 16 + sub)) (T.take j) := by
      rw [Nat.add_comm]; simp [h16]
    rw [this]
    apply decode_head_short
    rw [hdt15]
    simp only [List.length_take]
    rw [hT] at hk hlenH
    simp [h16] at hk hlenH
    omega
end JT.Rtp
