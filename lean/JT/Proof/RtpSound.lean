import JT.Proof.Rtp
import JT.Proof.FrameSpec
/-! Soundness direction for C17: whatever decodes is a standard encoding. -/
namespace JT.Rtp
open JT JT.C02

theorem toBE8_beN (t0 t1 t2 t3 t4 t5 t6 t7 : Byte) :
    toBE 8 (beN [t0, t1, t2, t3, t4, t5, t6, t7]) = [t0, t1, t2, t3, t4, t5, t6, t7] := by
  have h0 := UInt8.toNat_lt t0; have h1 := UInt8.toNat_lt t1; have h2 := UInt8.toNat_lt t2
  have h3 := UInt8.toNat_lt t3; have h4 := UInt8.toNat_lt t4; have h5 := UInt8.toNat_lt t5
  have h6 := UInt8.toNat_lt t6; have h7 := UInt8.toNat_lt t7
  obtain ⟨N, hN⟩ : ∃ N, N = beN [t0, t1, t2, t3, t4, t5, t6, t7] := ⟨_, rfl⟩
  rw [← hN]
  simp only [beN, List.foldl] at hN
  have e0 : N / 72057594037927936 % 256 = t0.toNat := by omega
  have e1 : N / 281474976710656 % 256 = t1.toNat := by omega
  have e2 : N / 1099511627776 % 256 = t2.toNat := by omega
  have e3 : N / 4294967296 % 256 = t3.toNat := by omega
  have e4 : N / 16777216 % 256 = t4.toNat := by omega
  have e5 : N / 65536 % 256 = t5.toNat := by omega
  have e6 : N / 256 % 256 = t6.toNat := by omega
  have e7 : N / 1 % 256 = t7.toNat := by omega
  simp only [toBE, Nat.reducePow, e0, e1, e2, e3, e4, e5, e6, e7, ofNat_toNat_byte]

theorem beN8_lt (t0 t1 t2 t3 t4 t5 t6 t7 : Byte) : beN [t0, t1, t2, t3, t4, t5, t6, t7] < 2 ^ 64 := by
  have h0 := UInt8.toNat_lt t0; have h1 := UInt8.toNat_lt t1; have h2 := UInt8.toNat_lt t2
  have h3 := UInt8.toNat_lt t3; have h4 := UInt8.toNat_lt t4; have h5 := UInt8.toNat_lt t5
  have h6 := UInt8.toNat_lt t6; have h7 := UInt8.toNat_lt t7
  simp only [beN, List.foldl, Nat.reducePow]; omega

theorem byte_recompose4 (b : Byte) :
    UInt8.ofNat (b.toNat / 64 * 64 + b.toNat / 32 % 2 * 32 + b.toNat / 16 % 2 * 16 + b.toNat % 16) = b := by
  have : b.toNat / 64 * 64 + b.toNat / 32 % 2 * 32 + b.toNat / 16 % 2 * 16 + b.toNat % 16 = b.toNat := by omega
  rw [this]; exact ofNat_toNat_byte b
theorem byte_recompose2 (b : Byte) : UInt8.ofNat (b.toNat / 128 * 128 + b.toNat % 128) = b := by
  have : b.toNat / 128 * 128 + b.toNat % 128 = b.toNat := by omega
  rw [this]; exact ofNat_toNat_byte b
theorem byte_recompose16 (b : Byte) : UInt8.ofNat (b.toNat / 16 * 16 + b.toNat % 16) = b := by
  have : b.toNat / 16 * 16 + b.toNat % 16 = b.toNat := by omega
  rw [this]; exact ofNat_toNat_byte b

/-- every string that decodes starts with the 16-byte fixed header -/
theorem h16_form (d : Bytes) (h : 16 ≤ d.length) (hm : d.take 4 = marker) :
    ∃ b4 b5 q0 q1 m0 m1 m2 m3 m4 m5 ch b15 t, d = h16 b4 b5 q0 q1 m0 m1 m2 m3 m4 m5 ch b15 t := by
  obtain ⟨l8, r, rfl, hl8⟩ := split_at d 8 (by omega)
  obtain ⟨k8, t, rfl, hk8⟩ := split_at r 8 (by simp at h; omega)
  obtain ⟨a0, a1, a2, a3, b4, b5, q0, q1, rfl⟩ := len8 l8 hl8
  obtain ⟨m0, m1, m2, m3, m4, m5, ch, b15, rfl⟩ := len8 k8 hk8
  simp [marker] at hm
  obtain ⟨rfl, rfl, rfl, rfl⟩ := hm
  exact ⟨b4, b5, q0, q1, m0, m1, m2, m3, m4, m5, ch, b15, t, rfl⟩

/-- **soundness**: whatever decodes as a packet is the standard encoding of that packet followed by the remainder -/
theorem decode_sound (d : Bytes) (p : Pkt) (rest : Bytes) (hd : decode d = .ok (p, rest)) :
    d = encodeStd p ++ rest ∧ WF p := by
  have h16' : 16 ≤ d.length := by
    apply Classical.byContradiction; intro hn
    unfold decode at hd; rw [if_pos (by omega)] at hd; cases hd
  have hmk : d.take 4 = marker := by
    apply Classical.byContradiction; intro hn
    unfold decode at hd; rw [if_neg (by omega), if_pos hn] at hd; cases hd
  obtain ⟨b4, b5, q0, q1, m0, m1, m2, m3, m4, m5, ch, b15, t, rfl⟩ := h16_form d h16' hmk
  have hb4 := UInt8.toNat_lt b4; have hb5 := UInt8.toNat_lt b5; have hb15 := UInt8.toNat_lt b15
  have hch := UInt8.toNat_lt ch
  have htl : ¬ t.length < tailLen (b15.toNat / 16) := by
    intro hlt; rw [decode_head_short _ _ _ _ _ _ _ _ _ _ _ _ _ hlt] at hd; cases hd
  by_cases h4 : b15.toNat / 16 = 4
  · simp [tailLen, h4] at htl
    obtain ⟨l2, t', rfl, hl2⟩ := split_at t 2 htl
    obtain ⟨l0, l1, rfl⟩ := len2 l2 hl2
    simp only [List.cons_append, List.nil_append] at hd
    rw [decode_penetrate _ _ _ _ _ _ _ _ _ _ _ _ _ _ _ h4] at hd
    split at hd; · cases hd
    next hlen =>
    injection hd with hd; injection hd with hp hr; subst hp; subst hr
    constructor
    · have e15 : UInt8.ofNat (4 * 16 + b15.toNat % 16) = b15 := by rw [← h4]; exact byte_recompose16 b15
      have elen : (List.take (be16 l0 l1) t').length = be16 l0 l1 := by simp [List.length_take]; omega
      simp only [encodeStd, byte_recompose4, byte_recompose2, ofNat_toNat_byte, e15, elen, toBE_be16]
      simp [marker, h16]
    · refine ⟨by dsimp only; omega, by dsimp only; omega, by dsimp only; omega, by dsimp only; omega,
        by dsimp only; omega, by dsimp only; omega, be16_lt _ _, rfl, hch, by dsimp only; omega, by dsimp only; omega,
        by dsimp only; omega, fun _ => rfl, by dsimp only; omega, by dsimp only; omega, fun _ => ⟨rfl, rfl⟩, ?_⟩
      have := be16_lt l0 l1
      simp [List.length_take]; omega
  · by_cases h2 : b15.toNat / 16 ≤ 2
    · simp [tailLen, h4, h2] at htl
      obtain ⟨l8, u, rfl, hl8⟩ := split_at t 8 (by omega)
      obtain ⟨t0, t1, t2, t3, t4, t5, t6, t7, rfl⟩ := len8 l8 hl8
      obtain ⟨l4, u', rfl, hl4⟩ := split_at u 4 (by simp at htl; omega)
      obtain ⟨i0, i1, j0, j1, rfl⟩ := len4 l4 hl4
      obtain ⟨l2, t', rfl, hl2⟩ := split_at u' 2 (by simp at htl; omega)
      obtain ⟨l0, l1, rfl⟩ := len2 l2 hl2
      simp only [List.cons_append, List.nil_append] at hd
      rw [decode_video _ _ _ _ _ _ _ _ _ _ _ _ _ _ _ _ _ _ _ _ _ _ _ _ _ _ _ h2] at hd
      split at hd; · cases hd
      next hlen =>
      injection hd with hd; injection hd with hp hr; subst hp; subst hr
      constructor
      · have elen : (List.take (be16 l0 l1) t').length = be16 l0 l1 := by simp [List.length_take]; omega
        simp only [encodeStd, byte_recompose4, byte_recompose2, byte_recompose16, ofNat_toNat_byte, elen, toBE_be16,
          toBE8_beN]
        simp [marker, h16, h4, h2]
      · refine ⟨by dsimp only; omega, by dsimp only; omega, by dsimp only; omega, by dsimp only; omega,
          by dsimp only; omega, by dsimp only; omega, be16_lt _ _, rfl, hch, by dsimp only; omega, by dsimp only; omega,
          beN8_lt _ _ _ _ _ _ _ _, fun h => absurd h h4, be16_lt _ _, be16_lt _ _, fun h => by dsimp only at h; omega, ?_⟩
        have := be16_lt l0 l1
        simp [List.length_take]; omega
    · simp [tailLen, h4, h2] at htl
      obtain ⟨l8, u, rfl, hl8⟩ := split_at t 8 (by omega)
      obtain ⟨t0, t1, t2, t3, t4, t5, t6, t7, rfl⟩ := len8 l8 hl8
      obtain ⟨l2, t', rfl, hl2⟩ := split_at u 2 (by simp at htl; omega)
      obtain ⟨l0, l1, rfl⟩ := len2 l2 hl2
      simp only [List.cons_append, List.nil_append] at hd
      rw [decode_other _ _ _ _ _ _ _ _ _ _ _ _ _ _ _ _ _ _ _ _ _ _ _ h4 h2] at hd
      split at hd; · cases hd
      next hlen =>
      injection hd with hd; injection hd with hp hr; subst hp; subst hr
      constructor
      · have elen : (List.take (be16 l0 l1) t').length = be16 l0 l1 := by simp [List.length_take]; omega
        simp only [encodeStd, byte_recompose4, byte_recompose2, byte_recompose16, ofNat_toNat_byte, elen, toBE_be16,
          toBE8_beN]
        simp [marker, h16, h4, h2]
      · refine ⟨by dsimp only; omega, by dsimp only; omega, by dsimp only; omega, by dsimp only; omega,
          by dsimp only; omega, by dsimp only; omega, be16_lt _ _, rfl, hch, by dsimp only; omega, by dsimp only; omega,
          beN8_lt _ _ _ _ _ _ _ _, fun h => absurd h h4, by dsimp only; omega, by dsimp only; omega, fun _ => ⟨rfl, rfl⟩, ?_⟩
        have := be16_lt l0 l1
        simp [List.length_take]; omega
end JT.Rtp
