import JT.Model.Params
import JT.Proof.AttStream
import JT.Proof.Layout
/-! Proofs about the terminal-parameter model: the parser never panics when the generated table is safe; the item
framing round-trips. -/
namespace JT.Params
open JT
open JT.Layout (slice)
open JT.AttStream (idx slice_eq idx_eq)

/-! ### no panic -/

theorem lookup_safe (t : List (Nat × Nat × Nat × String × Bool)) (hs : tableSafe t = true) (id : Nat)
    (g r : Nat) (k : String) (st : Bool)
    (h : (t.find? (·.1 = id)).map (·.2) = some (g, r, k, st)) : r = 0 ∨ (g ≠ 0 ∧ r ≤ g) := by
  cases hf : t.find? (·.1 = id) with
  | none => simp [hf] at h
  | some row =>
    have hm := List.mem_of_find?_eq_some hf
    simp only [tableSafe, List.all_eq_true] at hs
    have := hs row hm
    simp only [hf, Option.map_some, Option.some.injEq] at h
    rw [h] at this
    simp only [Bool.or_eq_true, Bool.and_eq_true, decide_eq_true_eq, bne_iff_ne, ne_eq] at this
    exact this

theorem parseParam_ne_panic (hs : tableSafe Gen.paramTable = true) (id len : Nat) (content : Bytes)
    (hl : content.length = len) : parseParam id len content ≠ .panic := by
  unfold parseParam
  cases hlk : lookup id with
  | none => simp
  | some row =>
    obtain ⟨g, r, k, st⟩ := row
    have := lookup_safe Gen.paramTable hs id g r k st hlk
    simp only
    by_cases hg : g ≠ 0 ∧ len ≠ g
    · simp [hg]
    · simp only [hg, ↓reduceIte]
      have hlt : ¬ content.length < r := by
        rcases this with h0 | ⟨hg0, hle⟩
        · omega
        · have : len = g := by
            by_cases hh : len = g
            · exact hh
            · exact absurd ⟨hg0, hh⟩ hg
          omega
      simp [hlt]

theorem loop_ne_panic (hs : tableSafe Gen.paramTable = true) :
    ∀ (fuel count : Nat) (rest : Bytes) (acc : List Item), loop fuel count rest acc ≠ .panic := by
  intro fuel
  induction fuel with
  | zero => intro count rest acc; simp [loop]
  | succ n ih =>
    intro count rest acc
    unfold loop
    by_cases h0 : rest.length = 0
    · simp [h0]
    · simp only [h0, ↓reduceIte]
      by_cases h5 : rest.length < 5
      · simp [h5]
      · simp only [h5, ↓reduceIte]
        rw [slice_eq rest 0 4 (by omega) (by omega), idx_eq rest 4 (by omega)]
        simp only [Res.bind_ok]
        by_cases he : 5 + (rest[4]'(by omega)).toNat > rest.length
        · simp [he]
        · simp only [he, ↓reduceIte]
          rw [slice_eq rest 5 (5 + (rest[4]'(by omega)).toNat) (by omega) (by omega)]
          simp only [Res.bind_ok]
          have hp := parseParam_ne_panic hs (beN ((rest.drop 0).take (4 - 0))) (rest[4]'(by omega)).toNat
            ((rest.drop 5).take (5 + (rest[4]'(by omega)).toNat - 5))
            (by simp only [List.length_take, List.length_drop]; omega)
          cases hq : parseParam (beN ((rest.drop 0).take (4 - 0))) (rest[4]'(by omega)).toNat
              ((rest.drop 5).take (5 + (rest[4]'(by omega)).toNat - 5)) with
          | ok u => simp only [Res.bind_ok]; exact ih _ _ _
          | err => simp
          | panic => exact absurd hq hp

theorem parseDetails_ne_panic (hs : tableSafe Gen.paramTable = true) (count : Nat) (body : Bytes) :
    parseDetails count body ≠ .panic := by
  unfold parseDetails
  cases h : loop body.length count body [] with
  | ok r => simp only [Res.bind_ok]; split <;> simp
  | err => simp
  | panic => exact absurd h (loop_ne_panic hs _ _ _ _)

theorem parse8103_ne_panic (hs : tableSafe Gen.paramTable = true) (b : Bytes) : parse8103 b ≠ .panic := by
  unfold parse8103
  by_cases h : b.length < 1
  · simp [h]
  · simp only [h, ↓reduceIte]
    rw [idx_eq b 0 (by omega), slice_eq b 1 b.length (by omega) (by omega)]
    simp only [Res.bind_ok]
    cases hp : parseDetails (b[0]'(by omega)).toNat ((b.drop 1).take (b.length - 1)) with
    | ok r => simp
    | err => simp
    | panic => exact absurd hp (parseDetails_ne_panic hs _ _)

theorem parse0104_ne_panic (hs : tableSafe Gen.paramTable = true) (b : Bytes) : parse0104 b ≠ .panic := by
  unfold parse0104
  by_cases h : b.length < 3
  · simp [h]
  · simp only [h, ↓reduceIte]
    rw [slice_eq b 0 2 (by omega) (by omega), idx_eq b 2 (by omega), slice_eq b 3 b.length (by omega) (by omega)]
    simp only [Res.bind_ok]
    cases hp : parseDetails (b[2]'(by omega)).toNat ((b.drop 3).take (b.length - 3)) with
    | ok r => simp
    | err => simp
    | panic => exact absurd hp (parseDetails_ne_panic hs _ _)

/-! ### framing round trip -/

/-- an item the wire format can carry and the parser accepts: 32-bit ID, one length byte that is the content's length,
present in the sense of `encode` (not `ID == 0 && Len == 0`), width as the table demands -/
def ItemWF (it : Item) : Prop :=
  it.id < 256 ^ 4 ∧ it.len = it.val.length ∧ it.len < 256 ∧ ¬ (it.id = 0 ∧ it.len = 0) ∧
  parseParam it.id it.len it.val = .ok ()

theorem encodeItem_wf (it : Item) (h : ItemWF it) :
    encodeItem it = toBE 4 it.id ++ [UInt8.ofNat it.len] ++ it.val := by
  obtain ⟨_, hl, _, hn, _⟩ := h
  unfold encodeItem
  simp only [hn, ↓reduceIte]
  by_cases h0 : it.len = 0
  · have : it.val = [] := by
      have : it.val.length = 0 := by omega
      exact List.eq_nil_of_length_eq_zero this
    simp [h0, this]
  · simp [h0]

theorem flat_cons_wf (it : Item) (rest : List Item) (h : ItemWF it) :
    (it :: rest).flatMap encodeItem = toBE 4 it.id ++ (UInt8.ofNat it.len :: (it.val ++ rest.flatMap encodeItem)) := by
  simp [List.flatMap_cons, encodeItem_wf it h]

/-- one turn of the loop on a well-framed item -/
theorem loop_step (idb val tail : Bytes) (l : UInt8) (h4 : idb.length = 4) (hv : val.length = l.toNat)
    (fuel count : Nat) (acc : List Item) :
    loop (fuel + 1) count (idb ++ (l :: (val ++ tail))) acc =
      (parseParam (beN idb) l.toNat val >>= fun _ =>
        loop fuel ((count + 255) % 256) tail (⟨beN idb, l.toNat, val⟩ :: acc)) := by
  have hlen : (idb ++ (l :: (val ++ tail))).length = 5 + l.toNat + tail.length := by
    simp only [List.length_append, List.length_cons, h4, hv]; omega
  have hs1 : slice (idb ++ (l :: (val ++ tail))) 0 4 = .ok idb := by
    rw [slice_eq _ 0 4 (by omega) (by rw [hlen]; omega)]
    simp only [List.drop_zero, Nat.sub_zero]
    rw [List.take_append_of_le_length (by omega), List.take_of_length_le (by omega)]
  have hs2 : idx (idb ++ (l :: (val ++ tail))) 4 = .ok l := by
    unfold idx
    rw [List.getElem?_append_right (by omega)]
    simp [h4]
  have hd5 : (idb ++ (l :: (val ++ tail))).drop 5 = val ++ tail := by
    rw [List.drop_append, List.drop_eq_nil_of_le (by omega), h4]
    simp
  have hs3 : slice (idb ++ (l :: (val ++ tail))) 5 (5 + l.toNat) = .ok val := by
    rw [slice_eq _ 5 (5 + l.toNat) (by omega) (by rw [hlen]; omega), hd5]
    have h5 : 5 + l.toNat - 5 = val.length := by omega
    rw [h5, List.take_append_of_le_length (by omega), List.take_of_length_le (by omega)]
  have hdrop : (idb ++ (l :: (val ++ tail))).drop (5 + l.toNat) = tail := by
    rw [← List.drop_drop, hd5, ← hv]
    simp
  have hne : ¬ (idb ++ (l :: (val ++ tail))).length = 0 := by rw [hlen]; omega
  have hn5 : ¬ (idb ++ (l :: (val ++ tail))).length < 5 := by rw [hlen]; omega
  have hgt : ¬ 5 + l.toNat > (idb ++ (l :: (val ++ tail))).length := by rw [hlen]; omega
  conv => lhs; unfold loop
  simp only [hne, hn5, ↓reduceIte, hs1, hs2, Res.bind_ok, hgt, hs3, hdrop]

theorem loop_encode (items : List Item) (hw : ∀ it ∈ items, ItemWF it) :
    ∀ (fuel count : Nat) (acc : List Item), count < 256 →
      (items.flatMap encodeItem).length ≤ fuel →
      loop fuel count (items.flatMap encodeItem) acc =
        .ok (acc.reverse ++ items, (count + 255 * items.length) % 256) := by
  induction items with
  | nil =>
    intro fuel count acc hc _
    cases fuel with
    | zero => simp [loop]; omega
    | succ n => simp [loop]; omega
  | cons it rest ih =>
    intro fuel count acc hc hf
    have hwi : ItemWF it := hw it (by simp)
    have hwr : ∀ x ∈ rest, ItemWF x := fun x hx => hw x (by simp [hx])
    obtain ⟨hid, hl, hl256, hn, hpp⟩ := hwi
    have hwi : ItemWF it := ⟨hid, hl, hl256, hn, hpp⟩
    rw [flat_cons_wf it rest hwi] at hf ⊢
    have h4 : (toBE 4 it.id).length = 4 := Layout.toBE_length 4 it.id
    have htn : (UInt8.ofNat it.len).toNat = it.len := by
      simp; omega
    have hlen : (toBE 4 it.id ++ (UInt8.ofNat it.len :: (it.val ++ rest.flatMap encodeItem))).length
        = 5 + it.val.length + (rest.flatMap encodeItem).length := by
      simp only [List.length_append, List.length_cons, h4]; omega
    cases fuel with
    | zero => rw [hlen] at hf; omega
    | succ n =>
      rw [loop_step (toBE 4 it.id) it.val (rest.flatMap encodeItem) (UInt8.ofNat it.len) h4 (by omega) n count acc]
      rw [htn, Layout.beN_toBE 4 it.id hid, hpp]
      simp only [Res.bind_ok]
      rw [ih hwr n ((count + 255) % 256) _ (by omega) (by rw [hlen] at hf; omega)]
      have : it = ⟨it.id, it.len, it.val⟩ := rfl
      simp only [List.reverse_cons, List.append_assoc, List.singleton_append, List.length_cons]
      congr 2
      omega

/-- framing round trip: any list of well-framed items (fewer than 256·k: the counter is a byte), encoded one after the
other, parses back to the same list with the count byte `items.length mod 256` -/
theorem parseDetails_encode (items : List Item) (hw : ∀ it ∈ items, ItemWF it) :
    parseDetails (items.length % 256) (items.flatMap encodeItem) = .ok items := by
  unfold parseDetails
  rw [loop_encode items hw _ _ [] (by omega) (Nat.le_refl _)]
  simp only [Res.bind_ok, List.reverse_nil, List.nil_append]
  have : (items.length % 256 + 255 * items.length) % 256 = 0 := by omega
  simp [this]

/-! ### the parse loses nothing -/

/-- the wire form of an item as it was received -/
def frame (it : Item) : Bytes := toBE 4 it.id ++ [UInt8.ofNat it.len] ++ it.val

theorem frame_eq_encodeItem (it : Item) (h : ItemWF it) : frame it = encodeItem it := by
  rw [encodeItem_wf it h]; rfl

/-- what `parse` guarantees of every item it returns -/
def ItemOK (it : Item) : Prop :=
  it.id < 256 ^ 4 ∧ it.len = it.val.length ∧ it.len < 256 ∧ parseParam it.id it.len it.val = .ok ()

theorem loop_sound :
    ∀ (fuel count : Nat) (rest : Bytes) (acc r : List Item) (c : Nat), rest.length ≤ fuel →
      loop fuel count rest acc = .ok (r, c) →
      ∃ items, r = acc.reverse ++ items ∧ items.flatMap frame = rest ∧ (∀ it ∈ items, ItemOK it) ∧
        c % 256 = (count + 255 * items.length) % 256 := by
  intro fuel
  induction fuel with
  | zero =>
    intro count rest acc r c hf h
    have : rest = [] := List.eq_nil_of_length_eq_zero (by omega)
    simp only [loop, Res.ok.injEq, Prod.mk.injEq] at h
    exact ⟨[], by simp [h.1], by simp [this], by simp, by simp [h.2]⟩
  | succ n ih =>
    intro count rest acc r c hf h
    unfold loop at h
    by_cases h0 : rest.length = 0
    · simp only [h0, ↓reduceIte, Res.ok.injEq, Prod.mk.injEq] at h
      have : rest = [] := List.eq_nil_of_length_eq_zero h0
      exact ⟨[], by simp [h.1], by simp [this], by simp, by simp [h.2]⟩
    · simp only [h0, ↓reduceIte] at h
      by_cases h5 : rest.length < 5
      · simp [h5] at h
      · simp only [h5, ↓reduceIte] at h
        rw [slice_eq rest 0 4 (by omega) (by omega), idx_eq rest 4 (by omega)] at h
        simp only [Res.bind_ok] at h
        by_cases he : 5 + (rest[4]'(by omega)).toNat > rest.length
        · simp [he] at h
        · simp only [he, ↓reduceIte] at h
          rw [slice_eq rest 5 (5 + (rest[4]'(by omega)).toNat) (by omega) (by omega)] at h
          simp only [Res.bind_ok, List.drop_zero, Nat.sub_zero, Nat.add_sub_cancel_left] at h
          cases hq : parseParam (beN (rest.take 4)) (rest[4]'(by omega)).toNat
              ((rest.drop 5).take (rest[4]'(by omega)).toNat) with
          | err => simp [hq] at h
          | panic => simp [hq] at h
          | ok u =>
            simp only [hq, Res.bind_ok] at h
            obtain ⟨items, hr, hfl, hok, hc⟩ := ih _ _ _ _ _ (by simp only [List.length_drop]; omega) h
            refine ⟨⟨beN (rest.take 4), (rest[4]'(by omega)).toNat,
              (rest.drop 5).take (rest[4]'(by omega)).toNat⟩ :: items, ?_, ?_, ?_, ?_⟩
            · simp [hr]
            · simp only [List.flatMap_cons, hfl, frame]
              have h4l : (rest.take 4).length = 4 := by simp only [List.length_take]; omega
              have e1 : toBE 4 (beN (rest.take 4)) = rest.take 4 := by
                have := Layout.toBE_beN (rest.take 4); rwa [h4l] at this
              have e2 : UInt8.ofNat (rest[4]'(by omega)).toNat = rest[4]'(by omega) := by simp
              rw [e1, e2]
              have s1 : rest = rest.take 4 ++ rest.drop 4 := (List.take_append_drop 4 rest).symm
              have s2 : rest.drop 4 = rest[4]'(by omega) :: rest.drop 5 := by
                rw [List.drop_eq_getElem_cons (by omega)]
              have s3 : rest.drop 5 = (rest.drop 5).take (rest[4]'(by omega)).toNat ++
                  (rest.drop 5).drop (rest[4]'(by omega)).toNat := (List.take_append_drop _ _).symm
              have s4 : (rest.drop 5).drop (rest[4]'(by omega)).toNat = rest.drop (5 + (rest[4]'(by omega)).toNat) := by
                rw [List.drop_drop]
              conv => rhs; rw [s1, s2, s3, s4]
              simp only [List.append_assoc, List.singleton_append, List.cons_append, List.nil_append]
            · intro it hit
              rcases List.mem_cons.mp hit with rfl | hm
              · refine ⟨?_, ?_, ?_, ?_⟩
                · have := Layout.beN_lt (rest.take 4)
                  have hl4 : (rest.take 4).length = 4 := by
                    simp only [List.length_take]; omega
                  rwa [hl4] at this
                · simp only [List.length_take, List.length_drop]; omega
                · exact UInt8.toNat_lt _
                · exact hq ▸ rfl
              · exact hok it hm
            · simp only [List.length_cons]; omega

/-- re-framing: an accepted parameter list is exactly the concatenation of the items returned, in order — nothing is
dropped, merged or reordered by the walk — and the count byte is the number of items modulo 256 -/
theorem parseDetails_sound (count : Nat) (body : Bytes) (items : List Item) (hc : count < 256)
    (h : parseDetails count body = .ok items) :
    items.flatMap frame = body ∧ (∀ it ∈ items, ItemOK it) ∧ count = items.length % 256 := by
  unfold parseDetails at h
  cases hl : loop body.length count body [] with
  | err => simp [hl] at h
  | panic => simp [hl] at h
  | ok r =>
    obtain ⟨r1, r2⟩ := r
    simp only [hl, Res.bind_ok] at h
    by_cases h0 : r2 ≠ 0
    · simp [h0] at h
    · simp only [h0, ↓reduceIte, Res.ok.injEq] at h
      obtain ⟨its, hr, hfl, hok, hcc⟩ := loop_sound _ _ _ _ _ _ (Nat.le_refl _) hl
      have h20 : r2 = 0 := by omega
      simp only [List.reverse_nil, List.nil_append] at hr
      subst h; subst hr
      exact ⟨hfl, hok, by rw [h20] at hcc; omega⟩

end JT.Params
