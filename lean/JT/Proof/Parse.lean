import JT.Model.Parse
import JT.Proof.Frame
/-! Helper definitions and lemmas for C04 (stream framing): frames, open buffers, the buffered loop,
the coincidence of fast and buffered path on aligned valid input, decomposition of stream prefixes. -/
namespace JT.Parse
open JT JT.Frame

/-- a frame as the property quantifies over them: delimiters only at the ends, accepted by the decoder -/
structure ValidFrame (f : Bytes) : Prop where
  shape : ∃ i, f = 0x7e :: (i ++ [0x7e]) ∧ (∀ x ∈ i, x ≠ 0x7e) ∧ i ≠ []
  ok : ∃ m, decode f = .ok m

/-- the message `unpack` delivers for frame `f` -/
def msgOf (f : Bytes) : PMsg :=
  match decode f with
  | .ok m => ⟨m.h, m.body, false, f⟩
  | _ => ⟨⟨0, 0, 0, 0, 0, 0, [], 0, 0, 0⟩, [], false, f⟩

/-- a buffer content that holds no complete frame: empty, or an opening delimiter followed by non-delimiters -/
def Open (p : Bytes) : Prop := p = [] ∨ ∃ q, p = 0x7e :: q ∧ ∀ x ∈ q, x ≠ 0x7e

theorem idx7e_none (q : Bytes) (h : ∀ x ∈ q, x ≠ 0x7e) : idx7e q = none := by
  induction q with
  | nil => rfl
  | cons b r ih =>
    have hb : b ≠ 0x7e := h b (by simp)
    simp [idx7e, hb, ih (fun x hx => h x (by simp [hx]))]

theorem idx7e_inner (i rest : Bytes) (h : ∀ x ∈ i, x ≠ 0x7e) :
    idx7e (i ++ 0x7e :: rest) = some i.length := by
  induction i with
  | nil => simp [idx7e]
  | cons b r ih =>
    have hb : b ≠ 0x7e := h b (by simp)
    simp [idx7e, hb, ih (fun x hx => h x (by simp [hx]))]

theorem findEnd_open (p : Bytes) (h : Open p) : findEnd p = none := by
  rcases h with rfl | ⟨q, rfl, hq⟩
  · simp [findEnd]
  · simp [findEnd, idx7e_none q hq]

theorem findEnd_frame (f rest : Bytes) (hv : ValidFrame f) : findEnd (f ++ rest) = some f.length := by
  obtain ⟨⟨i, rfl, hi, hne⟩, _⟩ := hv
  have hlen : 1 ≤ i.length := by cases i with | nil => exact absurd rfl hne | cons _ _ => simp
  have : idx7e ((i ++ [0x7e]) ++ rest) = some i.length := by
    simpa using idx7e_inner i rest hi
  simp only [findEnd]
  rw [if_pos ⟨by simp; omega, rfl⟩]
  have ht : (0x7e :: (i ++ [0x7e]) ++ rest).tail = i ++ [0x7e] ++ rest := rfl
  rw [ht, this]
  simp

/-- the buffered loop extracts every complete frame and keeps the open remainder -/
theorem loop_frames : ∀ (fs : List Bytes) (pre : Bytes) (acc : List PMsg) (fuel : Nat),
    (∀ f ∈ fs, ValidFrame f) → Open pre → fs.length < fuel →
    loop fuel (fs.flatten ++ pre) acc = (acc ++ fs.map msgOf, false, pre)
  | [], pre, acc, fuel, _, hp, hf => by
    cases fuel with
    | zero => simp at hf
    | succ n => simp [loop, findEnd_open pre hp]
  | f :: r, pre, acc, fuel, hv, hp, hf => by
    cases fuel with
    | zero => simp at hf
    | succ n =>
      have hvf := hv f (by simp)
      obtain ⟨m, hm⟩ := hvf.ok
      have hfe := findEnd_frame f (r.flatten ++ pre) hvf
      have htake : (f ++ (r.flatten ++ pre)).take f.length = f := by simp
      have hdrop : (f ++ (r.flatten ++ pre)).drop f.length = r.flatten ++ pre := by simp
      have hmsg : msgOf f = ⟨m.h, m.body, false, f⟩ := by simp [msgOf, hm]
      simp only [List.flatten_cons, List.append_assoc, loop, hfe, htake, hm, hdrop]
      by_cases hend : f.length = (f ++ (r.flatten ++ pre)).length
      · have hnil : r.flatten ++ pre = [] := by
          have : (r.flatten ++ pre).length = 0 := by simp at hend; simp; omega
          exact List.eq_nil_of_length_eq_zero this
        have hpre : pre = [] := by
          cases pre with | nil => rfl | cons _ _ => simp at hnil
        have hr : r = [] := by
          cases r with
          | nil => rfl
          | cons g t =>
            exfalso
            obtain ⟨⟨i, rfl, _, _⟩, _⟩ := hv g (by simp)
            simp at hnil
        subst hpre; subst hr
        simp [hend, hmsg]
      · rw [if_neg hend]
        have ih := loop_frames r pre (acc ++ [⟨m.h, m.body, false, f⟩]) n
          (fun g hg => hv g (by simp [hg])) hp (by simpa using hf)
        rw [ih]
        simp [hmsg]

theorem count7e_append (a b : Bytes) : count7e (a ++ b) = count7e a + count7e b := by
  simp [count7e]

theorem count7e_no (q : Bytes) (h : ∀ x ∈ q, x ≠ 0x7e) : count7e q = 0 := by
  induction q with
  | nil => rfl
  | cons b r ih =>
    have hb : b ≠ 0x7e := h b (by simp)
    simp only [count7e, List.filter_cons] at ih ⊢
    simp [hb]
    simpa [count7e] using ih (fun x hx => h x (by simp [hx]))

theorem count7e_frame (f : Bytes) (hv : ValidFrame f) : count7e f = 2 := by
  obtain ⟨⟨i, rfl, hi, _⟩, _⟩ := hv
  have h1 : count7e [0x7e] = 1 := by decide
  show count7e ([0x7e] ++ (i ++ [0x7e])) = 2
  rw [count7e_append, count7e_append, count7e_no i hi, h1]

theorem count7e_frames (fs : List Bytes) (hv : ∀ f ∈ fs, ValidFrame f) : count7e fs.flatten = 2 * fs.length := by
  induction fs with
  | nil => rfl
  | cons f r ih =>
    simp only [List.flatten_cons, count7e_append, count7e_frame f (hv f (by simp)),
      ih (fun g hg => hv g (by simp [hg])), List.length_cons]
    omega

theorem count7e_open (p : Bytes) (h : Open p) : count7e p ≤ 1 := by
  rcases h with rfl | ⟨q, rfl, hq⟩
  · simp [count7e]
  · have h1 : count7e [0x7e] = 1 := by decide
    show count7e ([0x7e] ++ q) ≤ 1
    rw [count7e_append, count7e_no q hq, h1]; omega

theorem frame_length (f : Bytes) (hv : ValidFrame f) : 3 ≤ f.length := by
  obtain ⟨⟨i, rfl, _, hne⟩, _⟩ := hv
  cases i with | nil => exact absurd rfl hne | cons _ _ => simp

theorem frames_length (fs : List Bytes) (hv : ∀ f ∈ fs, ValidFrame f) : 3 * fs.length ≤ fs.flatten.length := by
  induction fs with
  | nil => simp
  | cons f r ih =>
    have := frame_length f (hv f (by simp))
    have := ih (fun g hg => hv g (by simp [hg]))
    simp only [List.flatten_cons, List.length_append, List.length_cons]; omega

/-- one read: whatever is in the buffer plus the new data is some complete frames followed by an open
remainder; `unpack` (fast path or buffered path) delivers exactly those frames and keeps the remainder -/
theorem unpack_frames (hist data : Bytes) (fs : List Bytes) (pre : Bytes)
    (hv : ∀ f ∈ fs, ValidFrame f) (hp : Open pre) (hh : Open hist)
    (heq : hist ++ data = fs.flatten ++ pre) :
    unpack hist data = (fs.map msgOf, false, pre) := by
  unfold unpack
  split
  · next hc =>
    obtain ⟨hemp, hlen, hlast, hcnt⟩ := hc
    have hh0 : hist = [] := by simpa using hemp
    subst hh0
    simp only [List.nil_append] at heq
    have hc2 := count7e_frames fs hv
    have hc1 := count7e_open pre hp
    rw [heq, count7e_append, hc2] at hcnt
    have hfs : fs.length = 1 := by
      cases hfl : fs.length with
      | zero =>
        exfalso
        have : fs = [] := List.eq_nil_of_length_eq_zero hfl
        subst this
        simp at heq
        rw [hfl] at hcnt; omega
      | succ n => rw [hfl] at hcnt; omega
    have hpc : count7e pre = 0 := by rw [hfs] at hcnt; omega
    have hpre : pre = [] := by
      rcases hp with rfl | ⟨q, rfl, hq⟩
      · rfl
      · exfalso
        have h1 : count7e [0x7e] = 1 := by decide
        have : count7e ([0x7e] ++ q) = 0 := hpc
        rw [count7e_append, h1] at this; omega
    subst hpre
    match fs, hfs with
    | [f], _ =>
      simp only [List.flatten_cons, List.flatten_nil, List.append_nil] at heq
      subst heq
      obtain ⟨m, hm⟩ := (hv data (by simp)).ok
      simp [hm, msgOf]
  · have hfu : fs.length < (hist ++ data).length + 1 := by
      have := frames_length fs hv
      rw [heq]; simp only [List.length_append]; omega
    simp only
    rw [heq] at hfu ⊢
    have := loop_frames fs pre [] _ hv hp hfu
    simpa using this

theorem open_of_strict_prefix (f P t : Bytes) (hv : ValidFrame f) (hf : f = P ++ t) (ht : t ≠ []) : Open P := by
  obtain ⟨⟨i, rfl, hi, _⟩, _⟩ := hv
  cases P with
  | nil => exact Or.inl rfl
  | cons b q =>
    right
    simp only [List.cons_append, List.cons.injEq] at hf
    obtain ⟨hb, hq⟩ := hf
    refine ⟨q, by rw [← hb], ?_⟩
    -- q ++ t = i ++ [7e] with t ≠ [] : q is a prefix of i
    rcases List.append_eq_append_iff.mp hq.symm with ⟨a', ha, _⟩ | ⟨c', hc, hc2⟩
    · intro x hx; exact hi x (by rw [ha]; simp [hx])
    · -- q = i ++ c', [7e] = c' ++ t, t ≠ [] ⇒ c' = []
      have : c' = [] := by
        cases c' with
        | nil => rfl
        | cons y ys =>
          exfalso
          simp only [List.cons_append, List.cons.injEq] at hc2
          have := hc2.2
          cases ys with
          | nil => simp at this; exact ht this
          | cons _ _ => simp at this
      subst this
      intro x hx; exact hi x (by simpa [hc] using hx)

theorem decompose : ∀ (gs : List Bytes) (P R : Bytes), (∀ f ∈ gs, ValidFrame f) → P ++ R = gs.flatten →
    ∃ k pre, k ≤ gs.length ∧ P = (gs.take k).flatten ++ pre ∧ Open pre ∧ pre ++ R = (gs.drop k).flatten ∧
      (R = [] → pre = [] ∧ k = gs.length)
  | [], P, R, _, h => by
    simp at h
    exact ⟨0, [], Nat.le_refl _, by simp [h.1], Or.inl rfl, by simp [h.2], fun _ => ⟨rfl, rfl⟩⟩
  | f :: r, P, R, hv, h => by
    simp only [List.flatten_cons] at h
    rcases List.append_eq_append_iff.mp h with ⟨a', ha, hb⟩ | ⟨c', hc, hc2⟩
    · -- f = P ++ a'
      by_cases hnil : a' = []
      · subst hnil
        simp at ha hb
        obtain ⟨k, pre, hk, h1, h2, h3, h4⟩ := decompose r [] R (fun g hg => hv g (by simp [hg])) (by simpa using hb)
        refine ⟨k + 1, pre, by simpa using hk, ?_, h2, by simpa using h3, fun hr => ?_⟩
        · simp [← ha, ← h1]
        · obtain ⟨e1, e2⟩ := h4 hr; exact ⟨e1, by simp [e2]⟩
      · refine ⟨0, P, Nat.zero_le _, by simp, open_of_strict_prefix f P a' (hv f (by simp)) ha hnil, ?_, ?_⟩
        · simp [ha, hb]
        · intro hr; subst hr
          exfalso
          cases a' with
          | nil => exact hnil rfl
          | cons _ _ => simp at hb
    · -- P = f ++ c'
      obtain ⟨k, pre, hk, h1, h2, h3, h4⟩ := decompose r c' R (fun g hg => hv g (by simp [hg])) hc2.symm
      refine ⟨k + 1, pre, by simpa using hk, ?_, h2, by simpa using h3, fun hr => ?_⟩
      · simp [hc, h1]
      · obtain ⟨e1, e2⟩ := h4 hr; exact ⟨e1, by simp [e2]⟩

/-- feed consecutive reads to `unpack`, as `connection.reader` does; stop at the first error -/
def runUnpack : Bytes → List Bytes → List (List PMsg) × Bool × Bytes
  | h, [] => ([], false, h)
  | h, c :: r =>
    match unpack h c with
    | (ms, true, h') => ([ms], true, h')
    | (ms, false, h') =>
      let (rest, e, hh) := runUnpack h' r
      (ms :: rest, e, hh)

/-- invariant-carrying form: starting with an open buffer `pre` in front of the frames `gs` still to
come, after reads that bring any part `chunks.flatten` of the remaining stream (the rest `R'` is still
in flight): no error, the buffer holds an open remainder `pre'`, and the messages delivered are exactly the
frames `gs.take K` that are complete within the bytes received. -/
theorem runUnpack_frames : ∀ (chunks : List Bytes) (gs : List Bytes) (pre R' : Bytes),
    (∀ f ∈ gs, ValidFrame f) → Open pre → pre ++ chunks.flatten ++ R' = gs.flatten →
    ∃ K pre', K ≤ gs.length ∧ pre ++ chunks.flatten = (gs.take K).flatten ++ pre' ∧ Open pre' ∧
      pre' ++ R' = (gs.drop K).flatten ∧
      (runUnpack pre chunks).2.1 = false ∧ (runUnpack pre chunks).2.2 = pre' ∧
      (runUnpack pre chunks).1.flatten = (gs.take K).map msgOf ∧
      (runUnpack pre chunks).1.length = chunks.length
  | [], gs, pre, R', hv, hp, h => by
    simp only [List.flatten_nil, List.append_nil] at h
    obtain ⟨k, pre', hk, e1, e2, e3, _⟩ := decompose gs pre R' hv h
    -- pre is open, so no complete frame fits in it: k = 0
    have hc := count7e_open pre hp
    rw [e1, count7e_append, count7e_frames _ (fun f hf => hv f (List.mem_of_mem_take hf))] at hc
    have hk0 : k = 0 := by
      have : (gs.take k).length = min k gs.length := List.length_take
      omega
    subst hk0
    simp at e1 e3
    subst e1
    exact ⟨0, pre, Nat.zero_le _, by simp, hp, by simpa using e3, by simp [runUnpack], by simp [runUnpack],
      by simp [runUnpack], by simp [runUnpack]⟩
  | c :: r, gs, pre, R', hv, hp, h => by
    simp only [List.flatten_cons] at h
    obtain ⟨k, pre1, hk, e1, e2, e3, _⟩ := decompose gs (pre ++ c) (r.flatten ++ R') hv (by simpa using h)
    have hu := unpack_frames pre c (gs.take k) pre1 (fun f hf => hv f (List.mem_of_mem_take hf)) e2 hp e1
    obtain ⟨K, pre', hK, i0, i1, i2, i3, i4, i5, i6⟩ := runUnpack_frames r (gs.drop k) pre1 R'
      (fun f hf => hv f (List.mem_of_mem_drop hf)) e2 (by simpa using e3)
    refine ⟨k + K, pre', by simp at hK; omega, ?_, i1, ?_, ?_, ?_, ?_, ?_⟩
    · simp only [List.flatten_cons, ← List.append_assoc, e1]
      rw [List.append_assoc, i0, ← List.append_assoc, ← List.flatten_append]
      congr 2
      rw [List.take_add]
    · rw [i2, List.drop_drop]
    · simp only [runUnpack, hu]; exact i3
    · simp only [runUnpack, hu]; exact i4
    · simp only [runUnpack, hu, List.flatten_cons, i5, ← List.map_append]
      congr 1
      rw [List.take_add]
    · simp only [runUnpack, hu]; simp [i6]
end JT.Parse
