import JT.Model.Term
import JT.Model.Path
import JT.Proof.Frame
/-! Lemmas for the terminal simulator model. -/
namespace JT.Term
open JT JT.Frame

theorem bcdOf_length : ∀ (l : List Nat), (bcdOf l).length = l.length / 2
  | [] => rfl
  | [_] => by simp [bcdOf]
  | a :: b :: r => by
    simp only [bcdOf, List.length_cons, bcdOf_length r]
    omega

theorem padDigits_length (w : Nat) (ds : List Nat) (h : ds.length ≤ w) : (padDigits w ds).length = w := by
  simp [padDigits]; omega

theorem padDigits_digits (w : Nat) (ds : List Nat) (hd : ∀ d ∈ ds, d < 10) : ∀ d ∈ padDigits w ds, d < 10 := by
  intro d hm
  simp only [padDigits, List.mem_append, List.mem_replicate] at hm
  rcases hm with ⟨_, e⟩ | hm
  · omega
  · exact hd d hm

theorem withHeader_bcd_length (v : Nat) (ds : List Nat) (h : ds.length ≤ width v) :
    (withHeader v ds).bcd.length = if (withHeader v ds).version = 1 then 10 else 6 := by
  simp only [withHeader, bcdOf_length]
  rw [padDigits_length _ _ h]
  by_cases hv : v = 3 <;> simp [hv, width]

/-- bytes made of two decimal digits are neither `7d` nor `7e` (nor any byte with a nibble above 9) -/
theorem bcdOf_no_special : ∀ (l : List Nat), (∀ d ∈ l, d < 10) → ∀ x ∈ bcdOf l, x ≠ 0x7d ∧ x ≠ 0x7e
  | [], _, x, hx => by simp [bcdOf] at hx
  | [_], _, x, hx => by simp [bcdOf] at hx
  | a :: b :: r, hd, x, hx => by
    simp only [bcdOf, List.mem_cons] at hx
    rcases hx with e | hx
    · have ha := hd a (by simp)
      have hb := hd b (by simp)
      subst e
      have : ∀ a, a < 10 → ∀ b, b < 10 → UInt8.ofNat (a * 16 + b) ≠ 0x7d ∧ UInt8.ofNat (a * 16 + b) ≠ 0x7e := by decide
      exact this a ha b hb
    · exact bcdOf_no_special r (fun d hm => hd d (by simp [hm])) x hx

theorem escBody_plain : ∀ (d : Bytes), (∀ x ∈ d, x ≠ 0x7d ∧ x ≠ 0x7e) → escBody d = d
  | [], _ => rfl
  | b :: r, h => by
    have hb := h b (by simp)
    simp only [escBody, if_neg hb.2, if_neg hb.1, escBody_plain r (fun x hx => h x (by simp [hx]))]

theorem escBody_append (a b : Bytes) : escBody (a ++ b) = escBody a ++ escBody b := by
  induction a with
  | nil => rfl
  | cons x r ih =>
    simp only [List.cons_append, escBody]
    split
    · simp [ih]
    · split <;> simp [ih]

end JT.Term
