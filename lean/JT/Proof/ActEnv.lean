import JT.Model.Act
/-! Invariant of the platform-command transition system: definition, initial state, environment steps. -/
namespace JT.Act

@[simp] theorem upd_same {α : Type} (f : Nat → α) (r : Nat) (v : α) : upd f r v r = v := by simp [upd]
theorem upd_other {α : Type} (f : Nat → α) (r x : Nat) (v : α) (h : x ≠ r) : upd f r v x = f x := by simp [upd, h]

structure Inv (s : St) : Prop where
  /-- exactly the requests made so far exist -/
  exists_iff : ∀ r, s.place r = .notYet ↔ s.created ≤ r
  /-- a recorded request sits under the serial it was stamped with, which is older than the counter -/
  rec_stamp : ∀ r t, s.place r = .recorded t → s.stamp r = some t
  /-- a response result carries the serial the request was stamped with -/
  resp_stamp : ∀ r e, s.place r = .done (.response e) → s.stamp r = some e
  stamp_lt : ∀ r t, s.stamp r = some t → t < s.serial
  /-- stamps are fresh: no two requests share one -/
  stamp_inj : ∀ r r' t, s.stamp r = some t → s.stamp r' = some t → r = r'
  /-- a request that is still waiting for the manager or the writer has no stamp yet -/
  unstamped : ∀ r, (s.place r = .ops ∨ s.place r = .act ∨ s.place r = .notYet) → s.stamp r = none
  closed_unreg : s.stopClosed = true → s.registered = false
  dead : s.writerAlive = false → s.stopClosed = true ∧ ∀ r, s.place r ≠ .act ∧ ∀ t, s.place r ≠ .recorded t
  /-- every recorded request still has its timeout on the way (or the connection is going down) -/
  timer : ∀ r t, s.place r = .recorded t → t ∈ s.timers ∨ t ∈ s.doneCh ∨ s.stopClosed = true
  leave_once : s.leaveQueued = true → s.leaving = true

theorem inv_init : Inv init := by
  refine ⟨?_, ?_, ?_, ?_, ?_, ?_, ?_, ?_, ?_, ?_⟩ <;> simp [init]

theorem inv_env {s t : St} (h : Inv s) (st : EnvStep s t) : Inv t := by
  obtain ⟨ex, rs, rp, sl, si, us, cu, dd, tm, lo⟩ := h
  cases st with
  | call =>
    refine ⟨?_, ?_, ?_, sl, si, ?_, cu, ?_, ?_, lo⟩
    · intro r
      show upd s.place s.created .ops r = .notYet ↔ s.created + 1 ≤ r
      by_cases hr : r = s.created
      · subst hr; simp
      · rw [upd_other _ _ _ _ hr, ex r]
        have hr' : (r : Nat) ≠ s.created := hr
        constructor <;> intro h <;> omega
    · intro r t hp
      have hp' : upd s.place s.created .ops r = .recorded t := hp
      by_cases hr : r = s.created
      · subst hr; simp at hp'
      · rw [upd_other _ _ _ _ hr] at hp'; exact rs r t hp'
    · intro r e hp
      have hp' : upd s.place s.created .ops r = .done (.response e) := hp
      by_cases hr : r = s.created
      · subst hr; simp at hp'
      · rw [upd_other _ _ _ _ hr] at hp'; exact rp r e hp'
    · intro r hp
      by_cases hr : r = s.created
      · subst hr; exact us _ (Or.inr (Or.inr ((ex _).mpr (Nat.le_refl _))))
      · have hp' : upd s.place s.created .ops r = .ops ∨ upd s.place s.created .ops r = .act ∨ upd s.place s.created .ops r = .notYet := hp
        rw [upd_other _ _ _ _ hr] at hp'; exact us r hp'
    · intro hw
      obtain ⟨d1, d2⟩ := dd hw
      refine ⟨d1, fun r => ?_⟩
      show upd s.place s.created .ops r ≠ .act ∧ ∀ t, upd s.place s.created .ops r ≠ .recorded t
      by_cases hr : r = s.created
      · subst hr; simp
      · rw [upd_other _ _ _ _ hr]; exact d2 r
    · intro r t hp
      have hp' : upd s.place s.created .ops r = .recorded t := hp
      by_cases hr : r = s.created
      · subst hr; simp at hp'
      · rw [upd_other _ _ _ _ hr] at hp'; exact tm r t hp'
  | readerEnds hl =>
    exact ⟨ex, rs, rp, sl, si, us, cu, dd, tm, fun _ => rfl⟩
  | wResponse e r hw hp =>
    refine ⟨?_, ?_, ?_, sl, si, ?_, cu, ?_, ?_, lo⟩
    · intro x
      show upd s.place r (.done (.response e)) x = .notYet ↔ s.created ≤ x
      by_cases hx : x = r
      · subst hx
        simp only [upd_same, reduceCtorEq, false_iff]
        intro hle; have := (ex x).mpr hle; rw [hp] at this; cases this
      · rw [upd_other _ _ _ _ hx]; exact ex x
    · intro x t hx'
      have hx'' : upd s.place r (.done (.response e)) x = .recorded t := hx'
      by_cases hx : x = r
      · subst hx; simp at hx''
      · rw [upd_other _ _ _ _ hx] at hx''; exact rs x t hx''
    · intro x e' hx'
      have hx'' : upd s.place r (.done (.response e)) x = .done (.response e') := hx'
      by_cases hx : x = r
      · subst hx; simp at hx''; subst hx''; exact rs x e hp
      · rw [upd_other _ _ _ _ hx] at hx''; exact rp x e' hx''
    · intro x hx'
      have hx'' : upd s.place r (.done (.response e)) x = .ops ∨ upd s.place r (.done (.response e)) x = .act ∨ upd s.place r (.done (.response e)) x = .notYet := hx'
      by_cases hx : x = r
      · subst hx; simp at hx''
      · rw [upd_other _ _ _ _ hx] at hx''; exact us x hx''
    · intro hw'; rw [hw] at hw'; cases hw'
    · intro x t hx'
      have hx'' : upd s.place r (.done (.response e)) x = .recorded t := hx'
      by_cases hx : x = r
      · subst hx; simp at hx''
      · rw [upd_other _ _ _ _ hx] at hx''; exact tm x t hx''
end JT.Act
