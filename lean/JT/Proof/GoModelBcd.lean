import JT.Gen.GoModel
import JT.Proof.GoTotal
/-!
# `utils.BCD2Time` / `utils.Time2BCD` as translated from the source are total; decoders and encoders that call them

`BCD2Time` writes `result[2*i]` and `result[2*i+1]` for every index `i` of its argument into a buffer of twice the
length (loop invariant: the buffer keeps that length), then — for six bytes — slices the twelve digits apart.
`Time2BCD` pads to an even length and reads `time[i]`, `time[i+1]` for even `i` (invariant: the output buffer has half the
length). Both return a value for every input once the loop budget exceeds the input length.
-/
namespace JT.Gen.GoModel
open JT JT.Go JT.Gen.GoFrame

theorem BCD2Time_loop (bcd rng : Bytes) : ∀ (fuel i : Nat) (res : Bytes), i ≤ rng.length → res.length = 2 * rng.length →
    rng.length - i < fuel →
    ∃ out, utils_BCD2Time_loop1 fuel bcd res rng (i : Int) = X.ok out ∧ out.length = 2 * rng.length
  | 0, _, _, _, _, hf => by omega
  | fuel + 1, i, res, hi, hl, hf => by
    unfold utils_BCD2Time_loop1
    by_cases hlt : i < rng.length
    · have c : decide ((i : Int) < len rng) = true := by simp [hlt]
      simp only [c, if_true]
      rw [idx_lt rng i hlt]
      simp only [X.bind_ok]
      have s1 := setIdx_ok res (2 * i) ((rng[i] >>> (4 : UInt8)) + (48 : UInt8)) (by omega)
      rw [show (2 : Int) * (i : Int) = ((2 * i : Nat) : Int) by push_cast; rfl, s1]
      simp only [X.bind_ok]
      have s2 := setIdx_ok (res.set (2 * i) ((rng[i] >>> (4 : UInt8)) + (48 : UInt8))) (2 * i + 1) ((rng[i] &&& (15 : UInt8)) + (48 : UInt8))
        (by simp; omega)
      rw [show ((2 * i : Nat) : Int) + 1 = ((2 * i + 1 : Nat) : Int) by push_cast; rfl, s2]
      simp only [X.bind_ok]
      have hl' : ((res.set (2 * i) ((rng[i] >>> (4 : UInt8)) + (48 : UInt8))).set (2 * i + 1) ((rng[i] &&& (15 : UInt8)) + (48 : UInt8))).length = 2 * rng.length := by
        rw [List.length_set, List.length_set]; exact hl
      have := BCD2Time_loop bcd rng fuel (i + 1) _ (by omega) hl' (by omega)
      rw [show ((i : Int) + 1) = ((i + 1 : Nat) : Int) by push_cast; rfl]
      exact this
    · have c : decide ((i : Int) < len rng) = false := by simp; omega
      simp only [c, Bool.false_eq_true, if_false]
      exact ⟨res, rfl, hl⟩

/-- the value `BCD2Time` returns (defined through the translated function itself) -/
def bcdTimeV (fuel : Nat) (b : Bytes) : Bytes := match utils_BCD2Time fuel b with | .ok s => s | _ => []

theorem BCD2Time_ok (fuel : Nat) (b : Bytes) (h : b.length < fuel) : utils_BCD2Time fuel b = X.ok (bcdTimeV fuel b) := by
  have key : ∃ s, utils_BCD2Time fuel b = X.ok s := by
    unfold utils_BCD2Time
    have hm : make (len b * (2 : Int)) = X.ok (List.replicate (b.length * 2) 0) := by
      have := make_ok (b.length * 2)
      rw [show ((b.length * 2 : Nat) : Int) = len b * 2 by push_cast; rfl] at this
      exact this
    rw [hm]
    simp only [X.bind_ok]
    obtain ⟨out, ho, hl⟩ := BCD2Time_loop b b fuel 0 (List.replicate (b.length * 2) 0) (by omega) (by simp; omega) (by omega)
    have ho' : utils_BCD2Time_loop1 fuel b (List.replicate (b.length * 2) 0) b (0 : Int) = X.ok out := ho
    rw [ho']
    simp only [X.bind_ok]
    by_cases h6 : b.length = 6
    · have c : (len b == (6 : Int)) = true := by simp [h6]
      simp only [c, if_true]
      have hl12 : out.length = 12 := by omega
      rw [slice_int out 0 2 (by omega)]; simp only [X.bind_ok]
      rw [slice_int out 2 4 (by omega)]; simp only [X.bind_ok]
      rw [slice_int out 4 6 (by omega)]; simp only [X.bind_ok]
      rw [slice_int out 6 8 (by omega)]; simp only [X.bind_ok]
      rw [slice_int out 8 10 (by omega)]; simp only [X.bind_ok]
      rw [slice_int out 10 12 (by omega)]; simp only [X.bind_ok]
      exact ⟨_, rfl⟩
    · have c : (len b == (6 : Int)) = false := by simp; omega
      simp only [c, Bool.false_eq_true, if_false]
      exact ⟨_, rfl⟩
  obtain ⟨s, hs⟩ := key
  unfold bcdTimeV
  rw [hs]

/-- `BCD2Time` applied to a slice of a buffer shorter than the loop budget returns its value -/
theorem slice_bcd {β : Type} (fuel : Nat) (b : Bytes) (lo hi : Int) (f : Bytes → X β) (h : b.length < fuel) :
    X.bind (slice b lo hi) (fun t => X.bind (utils_BCD2Time fuel t) f) = X.bind (slice b lo hi) (fun t => f (bcdTimeV fuel t)) := by
  unfold slice
  split
  · simp only [X.bind_ok]
    rw [BCD2Time_ok fuel _ (by simp only [List.length_take, List.length_drop]; omega)]
    rfl
  · rfl

/-- `go_total` for functions that call `BCD2Time` on slices of the body: the calls are replaced by their values (the loop
budget exceeds the body length, hence the length of every slice of it) before the branches are split -/
macro "go_total_bcd" h:ident : tactic => `(tactic| (
  simp only [sliceTo, sliceFrom, slice_bcd _ _ _ _ _ $h]
  go_total))

theorem P0x9205_Parse_total (fuel : Nat) (p : model_P0x9205) (jtMsg : jt808_JTMessage) (hf : jtMsg.Body.length < fuel) :
    (model_P0x9205_Parse fuel p jtMsg).isOk = true := by
  simp only [model_P0x9205_Parse, model_P0x9205_Parse_j1]
  go_total_bcd hf

theorem P0x9202_Parse_total (fuel : Nat) (p : model_P0x9202) (jtMsg : jt808_JTMessage) (hf : jtMsg.Body.length < fuel) :
    (model_P0x9202_Parse fuel p jtMsg).isOk = true := by
  simp only [model_P0x9202_Parse, model_P0x9202_Parse_j1]
  go_total_bcd hf

theorem T0x1005_Parse_total (fuel : Nat) (p : model_T0x1005) (jtMsg : jt808_JTMessage) (hf : jtMsg.Body.length < fuel) :
    (model_T0x1005_Parse fuel p jtMsg).isOk = true := by
  simp only [model_T0x1005_Parse, model_T0x1005_Parse_j1]
  go_total_bcd hf

theorem P0x9201_Parse_total (fuel : Nat) (p : model_P0x9201) (jtMsg : jt808_JTMessage) (hf : jtMsg.Body.length < fuel) :
    (model_P0x9201_Parse fuel p jtMsg).isOk = true := by
  simp only [model_P0x9201_Parse, model_P0x9201_Parse_j1, model_P0x9201_Parse_j2]
  go_total_bcd hf

theorem P0x9206_Parse_total (fuel : Nat) (p : model_P0x9206) (jtMsg : jt808_JTMessage) (hf : jtMsg.Body.length < fuel) :
    (model_P0x9206_Parse fuel p jtMsg).isOk = true := by
  simp only [model_P0x9206_Parse, model_P0x9206_Parse_j1, model_P0x9206_Parse_j2, model_P0x9206_Parse_j3, model_P0x9206_Parse_j4, model_P0x9206_Parse_j5]
  go_total_bcd hf

/-! ### utils.Time2BCD -/

theorem Time2BCD_loop (time : Bytes) (n : Nat) (hn : time.length = 2 * n) : ∀ (fuel k : Nat) (bcd : Bytes), k ≤ n → bcd.length = n →
    n - k < fuel → ∃ out, utils_Time2BCD_loop1 fuel time bcd ((2 * k : Nat) : Int) = X.ok out ∧ out.length = n
  | 0, _, _, _, _, hf => by omega
  | fuel + 1, k, bcd, hk, hl, hf => by
    unfold utils_Time2BCD_loop1
    by_cases hlt : k < n
    · have c : decide (((2 * k : Nat) : Int) < len time) = true := by simp; omega
      simp only [c, if_true]
      rw [idx_lt time (2 * k) (by omega)]
      simp only [X.bind_ok]
      rw [show ((2 * k : Nat) : Int) + 1 = ((2 * k + 1 : Nat) : Int) by push_cast; rfl, idx_lt time (2 * k + 1) (by omega)]
      simp only [X.bind_ok]
      have hd : Int.tdiv ((2 * k : Nat) : Int) (2 : Int) = (k : Int) := by
        rw [Int.tdiv_eq_ediv_of_nonneg (by omega)]; omega
      rw [hd, setIdx_ok bcd k (((time[2 * k] - (48 : UInt8)) <<< (4 : UInt8)) ||| (time[2 * k + 1] - (48 : UInt8))) (by omega)]
      simp only [X.bind_ok]
      have := Time2BCD_loop time n hn fuel (k + 1) (bcd.set k (((time[2 * k] - (48 : UInt8)) <<< (4 : UInt8)) ||| (time[2 * k + 1] - (48 : UInt8)))) (by omega) (by rw [List.length_set]; exact hl) (by omega)
      rw [show ((2 * k : Nat) : Int) + 2 = ((2 * (k + 1) : Nat) : Int) by push_cast; omega]
      exact this
    · have c : decide (((2 * k : Nat) : Int) < len time) = false := by simp; omega
      simp only [c, Bool.false_eq_true, if_false]
      exact ⟨bcd, rfl, hl⟩

/-- the conversion proper, on an even-length digit string -/
theorem Time2BCD_tail (fuel : Nat) (t : Bytes) (he : t.length % 2 = 0) (hf : t.length < fuel) :
    ∃ out, (X.bind (make (Int.tdiv (len t) (2 : Int))) (fun t240 =>
      (X.bind (utils_Time2BCD_loop1 fuel t t240 (0 : Int)) (fun m244 => (X.ok m244 : X Bytes))))) = X.ok out := by
  obtain ⟨n, hn⟩ : ∃ n, t.length = 2 * n := ⟨t.length / 2, by omega⟩
  have hd : Int.tdiv (len t) (2 : Int) = (n : Int) := by
    rw [len_eq, Int.tdiv_eq_ediv_of_nonneg (by omega)]; omega
  rw [hd, make_ok n]
  simp only [X.bind_ok]
  obtain ⟨out, ho, _⟩ := Time2BCD_loop t n hn fuel 0 (List.replicate n 0) (by omega) (by simp) (by omega)
  have ho' : utils_Time2BCD_loop1 fuel t (List.replicate n 0) (0 : Int) = X.ok out := ho
  rw [ho']
  exact ⟨out, rfl⟩

theorem removeByte_length (s : Bytes) (c : Byte) : (removeByte s c).length ≤ s.length := by
  unfold removeByte; exact List.length_filter_le _ _

/-- `Time2BCD` returns a value for every string (digits or not), once the loop budget exceeds its length by two -/
theorem Time2BCD_total (fuel : Nat) (time : Bytes) (hf : time.length + 1 < fuel) : (utils_Time2BCD fuel time).isOk = true := by
  -- the padded string: even length, at most one byte longer than what the stripping left
  have pad : ∀ t : Bytes, t.length ≤ time.length →
      (X.bind ((if ((Int.tmod (len t) (2 : Int)) != (0 : Int)) then (X.ok (([48] : Bytes) ++ t)) else (X.ok t)) : X Bytes) (fun m239 =>
        (X.bind (make (Int.tdiv (len m239) (2 : Int))) (fun t240 =>
          (X.bind (utils_Time2BCD_loop1 fuel m239 t240 (0 : Int)) (fun m244 => (X.ok m244 : X Bytes))))))).isOk = true := by
    intro t ht
    by_cases hodd : t.length % 2 = 0
    · have c : ((Int.tmod (len t) (2 : Int)) != (0 : Int)) = false := by
        rw [len_eq, Int.tmod_eq_emod_of_nonneg (by omega)]; simp; omega
      simp only [c, Bool.false_eq_true, if_false, X.bind_ok]
      obtain ⟨out, ho⟩ := Time2BCD_tail fuel t hodd (by omega)
      rw [ho]; rfl
    · have c : ((Int.tmod (len t) (2 : Int)) != (0 : Int)) = true := by
        rw [len_eq, Int.tmod_eq_emod_of_nonneg (by omega)]; simp; omega
      simp only [c, if_true, X.bind_ok]
      obtain ⟨out, ho⟩ := Time2BCD_tail fuel (([48] : Bytes) ++ t) (by simp; omega) (by simp; omega)
      rw [ho]; rfl
  unfold utils_Time2BCD
  by_cases hc : time.contains (58 : UInt8) = true
  · simp only [hc, if_true]
    have l3 : (removeByte (removeByte (removeByte time 45) 58) 32).length ≤ time.length :=
      Nat.le_trans (removeByte_length _ _) (Nat.le_trans (removeByte_length _ _) (removeByte_length _ _))
    by_cases h14 : (removeByte (removeByte (removeByte time 45) 58) 32).length = 14
    · have c : (len (removeByte (removeByte (removeByte time 45) 58) 32) == (14 : Int)) = true := by simp [h14]
      simp only [c, if_true]
      have hs : sliceFrom (removeByte (removeByte (removeByte time 45) 58) 32) (2 : Int) = X.ok ((removeByte (removeByte (removeByte time 45) 58) 32).drop 2) :=
        sliceFrom_ok _ 2 (by omega)
      rw [hs]
      simp only [X.bind_ok]
      exact pad _ (by simp; omega)
    · have c : (len (removeByte (removeByte (removeByte time 45) 58) 32) == (14 : Int)) = false := by simp; omega
      simp only [c, Bool.false_eq_true, if_false, X.bind_ok]
      exact pad _ l3
  · simp only [hc, Bool.false_eq_true, if_false, X.bind_ok]
    exact pad _ (Nat.le_refl _)

/-- the value `Time2BCD` returns -/
def t2bV (fuel : Nat) (s : Bytes) : Bytes := match utils_Time2BCD fuel s with | .ok r => r | _ => []

theorem Time2BCD_ok (fuel : Nat) (s : Bytes) (h : s.length + 1 < fuel) : utils_Time2BCD fuel s = X.ok (t2bV fuel s) := by
  have := Time2BCD_total fuel s h
  unfold t2bV
  cases hr : utils_Time2BCD fuel s with
  | ok r => rfl
  | panic => rw [hr] at this; cases this
  | fuel => rw [hr] at this; cases this

theorem P0x9201_Encode_total (fuel : Nat) (p : model_P0x9201) (h1 : p.StartTime.length + 1 < fuel) (h2 : p.EndTime.length + 1 < fuel) :
    (model_P0x9201_Encode fuel p).isOk = true := by
  simp only [model_P0x9201_Encode, Time2BCD_ok _ _ h1, Time2BCD_ok _ _ h2]
  go_total

theorem P0x9205_Encode_total (fuel : Nat) (p : model_P0x9205) (h1 : p.StartTime.length + 1 < fuel) (h2 : p.EndTime.length + 1 < fuel) :
    (model_P0x9205_Encode fuel p).isOk = true := by
  simp only [model_P0x9205_Encode, Time2BCD_ok _ _ h1, Time2BCD_ok _ _ h2]
  go_total

theorem P0x9206_Encode_total (fuel : Nat) (p : model_P0x9206) (h1 : p.StartTime.length + 1 < fuel) (h2 : p.EndTime.length + 1 < fuel) :
    (model_P0x9206_Encode fuel p).isOk = true := by
  simp only [model_P0x9206_Encode, Time2BCD_ok _ _ h1, Time2BCD_ok _ _ h2]
  go_total

theorem P0x9202_Encode_total (fuel : Nat) (p : model_P0x9202) (h1 : p.DateTime.length + 1 < fuel) :
    (model_P0x9202_Encode fuel p).isOk = true := by
  simp only [model_P0x9202_Encode, Time2BCD_ok _ _ h1, copyAt]
  go_total

theorem T0x1005_Encode_total (fuel : Nat) (p : model_T0x1005) (h1 : p.StartTime.length + 1 < fuel) (h2 : p.EndTime.length + 1 < fuel) :
    (model_T0x1005_Encode fuel p).isOk = true := by
  simp only [model_T0x1005_Encode, Time2BCD_ok _ _ h1, Time2BCD_ok _ _ h2, copyAt]
  go_total

/-! ### the alarm-sign block of the active-safety messages and the attachment announcement 0x1210 -/

theorem AlarmSign_parse_total (fuel : Nat) (p : model_P9208AlarmSign) (d : Bytes) (h : d.length < fuel) :
    (model_P9208AlarmSign_parse fuel p d).isOk = true := by
  simp only [model_P9208AlarmSign_parse, model_P9208AlarmSign_parse_j1, model_P9208AlarmSign_getTerminalIDLen]
  go_total_bcd h

/-- the value the alarm-sign parser returns -/
def asV (fuel : Nat) (p : model_P9208AlarmSign) (d : Bytes) : model_P9208AlarmSign :=
  match model_P9208AlarmSign_parse fuel p d with | .ok r => r | _ => p

theorem AlarmSign_parse_ok (fuel : Nat) (p : model_P9208AlarmSign) (d : Bytes) (h : d.length < fuel) :
    model_P9208AlarmSign_parse fuel p d = X.ok (asV fuel p d) := by
  have := AlarmSign_parse_total fuel p d h
  unfold asV
  cases hr : model_P9208AlarmSign_parse fuel p d with
  | ok r => rfl
  | panic => rw [hr] at this; cases this
  | fuel => rw [hr] at this; cases this

theorem slice_as {β : Type} (fuel : Nat) (p : model_P9208AlarmSign) (b : Bytes) (lo hi : Int) (f : model_P9208AlarmSign → X β) (h : b.length < fuel) :
    X.bind (slice b lo hi) (fun t => X.bind (model_P9208AlarmSign_parse fuel p t) f) = X.bind (slice b lo hi) (fun t => f (asV fuel p t)) := by
  unfold slice
  split
  · simp only [X.bind_ok]
    rw [AlarmSign_parse_ok fuel _ _ (by simp only [List.length_take, List.length_drop]; omega)]
    rfl
  · rfl

/-- the attachment list of 0x1210: every round checks its own bounds (`start >= len(body)`, then the name length plus
four bytes of size), so the loop returns for every body, every count and every starting offset -/
theorem T0x1210_loop_total : ∀ (fuel : Nat) (t : model_T0x1210) (j : jt808_JTMessage) (body : Bytes) (idLen asl cursor start i : Int),
    0 ≤ start → i ≤ (t.AttachCount.toNat : Int) → (t.AttachCount.toNat : Int) - i < (fuel : Int) →
    (model_T0x1210_Parse_loop1 fuel t j body idLen asl cursor start i).isOk = true
  | 0, t, j, body, idLen, asl, cursor, start, i, hs, hi, hf => by omega
  | fuel + 1, t, j, body, idLen, asl, cursor, start, i, hs, hi, hf => by
    unfold model_T0x1210_Parse_loop1
    simp only [sliceTo, sliceFrom, slice, idx_ite, u32_ite, bind_ite', X.bind_ok, X.bind_panic, len_eq, List.length_take, List.length_drop]
    simp only [X.isOk_ite_iff, X.isOk_ok, X.isOk_panic, implies_true, and_true, true_and]
    repeat' (first | (intro _) | constructor)
    all_goals first
      | trivial
      | (apply T0x1210_loop_total
         · simp only [decide_eq_true_eq, decide_eq_false_iff_not] at *; omega
         · simp only [decide_eq_true_eq, decide_eq_false_iff_not, Int.ofNat_eq_natCast] at *; omega
         · simp only [decide_eq_true_eq, decide_eq_false_iff_not, Int.ofNat_eq_natCast] at *; push_cast at *; omega)
      | (simp only [bne_iff_ne, beq_iff_eq, ne_eq, Bool.not_eq_true, Bool.not_eq_false, decide_eq_true_eq, decide_eq_false_iff_not,
           Decidable.not_not, Int.reduceToNat, Bool.false_eq_true, Bool.true_eq_false, Int.ofNat_eq_natCast, len_eq, Nat.sub_zero] at *
         omega)

theorem idLen_ok (fuel : Nat) (p : model_P9208AlarmSign) : ∃ v, 0 ≤ v ∧ model_P9208AlarmSign_getTerminalIDLen fuel p = X.ok v := by
  unfold model_P9208AlarmSign_getTerminalIDLen
  repeat' split
  all_goals exact ⟨_, by omega, rfl⟩

theorem asLen_ok (fuel : Nat) (p : model_P9208AlarmSign) : ∃ v, 0 ≤ v ∧ model_P9208AlarmSign_getAlarmSignLen fuel p = X.ok v := by
  unfold model_P9208AlarmSign_getAlarmSignLen
  repeat' split
  all_goals exact ⟨_, by omega, rfl⟩

/-- behind the length guard, for whatever identifier and alarm-sign lengths the dialect has -/
theorem T0x1210_j3_total (fuel : Nat) (t : model_T0x1210) (j : jt808_JTMessage) (idLen asl : Int) (h1 : 0 ≤ idLen) (h2 : 0 ≤ asl)
    (hf : j.Body.length + 256 < fuel) (hg : ¬ ((j.Body.length : Int) < idLen + asl + 32 + 1 + 1)) :
    (model_T0x1210_Parse_j3 fuel t j j.Body idLen asl).isOk = true := by
  have hb : j.Body.length < fuel := by omega
  have loop : ∀ (t : model_T0x1210) (idLen asl cursor : Int), 0 ≤ cursor →
      (model_T0x1210_Parse_loop1 fuel t j j.Body idLen asl cursor cursor 0).isOk = true := by
    intro t idLen asl cursor hc
    have := t.AttachCount.toNat_lt
    exact T0x1210_loop_total fuel t j j.Body idLen asl cursor cursor 0 hc (by omega) (by omega)
  simp only [model_T0x1210_Parse_j3, model_T0x1210_Parse_j2]
  simp only [slice_as _ _ _ _ _ _ hb]
  simp only [slice, idx_ite, bind_ite', X.bind_ok, X.bind_panic, len_eq, List.length_take, List.length_drop]
  simp only [X.isOk_ite_iff, X.isOk_ok, X.isOk_panic, implies_true, and_true, true_and]
  repeat' (first | (intro _) | constructor)
  all_goals first
    | trivial
    | (apply loop; simp only [decide_eq_true_eq, decide_eq_false_iff_not] at *; omega)
    | (simp only [bne_iff_ne, beq_iff_eq, ne_eq, Bool.not_eq_true, Bool.not_eq_false, decide_eq_true_eq, decide_eq_false_iff_not,
         Decidable.not_not, Int.reduceToNat, Bool.false_eq_true, Bool.true_eq_false, Int.ofNat_eq_natCast, len_eq, Nat.sub_zero] at *
       omega)

theorem T0x1210_Parse_total (fuel : Nat) (t : model_T0x1210) (j : jt808_JTMessage) (hf : j.Body.length + 256 < fuel) :
    (model_T0x1210_Parse fuel t j).isOk = true := by
  obtain ⟨a, ha, ea⟩ := idLen_ok fuel t.P9208AlarmSign
  obtain ⟨b, hb, eb⟩ := asLen_ok fuel t.P9208AlarmSign
  simp only [model_T0x1210_Parse, ea, eb, X.bind_ok]
  by_cases hty : t.P9208AlarmSign.ActiveSafetyType = 2
  · simp only [hty, beq_self_eq_true, if_true, X.bind_ok]
    by_cases hg : (len j.Body) < ((0 : Int) + b + 32 + 1 + 1)
    · simp only [hg, decide_true, if_true]; rfl
    · simp only [hg, decide_false, Bool.false_eq_true, if_false]
      exact T0x1210_j3_total fuel t j 0 b (by omega) hb hf (by simpa using hg)
  · have c : (t.P9208AlarmSign.ActiveSafetyType == (2 : UInt8)) = false := by simpa using hty
    simp only [c, Bool.false_eq_true, if_false, X.bind_ok]
    by_cases hg : (len j.Body) < (a + b + 32 + 1 + 1)
    · simp only [hg, decide_true, if_true]; rfl
    · simp only [hg, decide_false, Bool.false_eq_true, if_false]
      exact T0x1210_j3_total fuel t j a b ha hb hf (by simpa using hg)

/-! ### the resource list 0x1205 -/

/-- loop invariant of `T0x1205.Parse`: the `n`-th record lies at `6 + 28·n … 34 + 28·n`, inside a body of `6 + 28·total`
bytes; the two BCD timestamps of a record are converted with the remaining loop budget -/
theorem T0x1205_loop_total : ∀ (fuel : Nat) (t : model_T0x1205) (j : jt808_JTMessage) (body : Bytes) (n : Nat),
    body.length = 6 + 28 * t.AudioVideoResourceTotal.toNat → n ≤ t.AudioVideoResourceTotal.toNat →
    (t.AudioVideoResourceTotal.toNat - n) + 30 < fuel →
    (model_T0x1205_Parse_loop1 fuel t j body ((6 + 28 * n : Nat) : Int) ((34 + 28 * n : Nat) : Int) (n : Int)).isOk = true
  | 0, _, _, _, _, _, _, hf => by omega
  | fuel + 1, t, j, body, n, hl, hn, hf => by
    unfold model_T0x1205_Parse_loop1
    by_cases hlt : n < t.AudioVideoResourceTotal.toNat
    · have c : decide ((n : Int) < Int.ofNat t.AudioVideoResourceTotal.toNat) = true := by simp; omega
      simp only [c, if_true]
      rw [slice_ok body (6 + 28 * n) (34 + 28 * n) (by omega) (by omega)]
      simp only [X.bind_ok]
      have hcl : ((body.drop (6 + 28 * n)).take (34 + 28 * n - (6 + 28 * n))).length = 28 := by
        simp only [List.length_take, List.length_drop]; omega
      generalize (body.drop (6 + 28 * n)).take (34 + 28 * n - (6 + 28 * n)) = cur at hcl
      have hcf : cur.length < fuel := by omega
      simp only [slice_bcd _ _ _ _ _ hcf]
      have ih : ∀ t' : model_T0x1205, t'.AudioVideoResourceTotal = t.AudioVideoResourceTotal →
          (model_T0x1205_Parse_loop1 fuel t' j body ((6 + 28 * (n + 1) : Nat) : Int) ((34 + 28 * (n + 1) : Nat) : Int) ((n + 1 : Nat) : Int)).isOk = true := by
        intro t' ht
        exact T0x1205_loop_total fuel t' j body (n + 1) (by rw [ht]; exact hl) (by rw [ht]; omega) (by rw [ht]; omega)
      have e1 : (((34 + 28 * n : Nat) : Int)) = ((6 + 28 * (n + 1) : Nat) : Int) := by push_cast; omega
      have e2 : (((34 + 28 * n : Nat) : Int) + 28) = ((34 + 28 * (n + 1) : Nat) : Int) := by push_cast; omega
      have e3 : ((n : Int) + 1) = ((n + 1 : Nat) : Int) := by push_cast; rfl
      simp only [e2, e3]
      rw [e1]
      simp only [slice, idx_ite, u32_ite, u64_ite, bind_ite', X.bind_ok, X.bind_panic, len_eq, List.length_take, List.length_drop]
      simp only [X.isOk_ite_iff, X.isOk_ok, X.isOk_panic, implies_true, and_true, true_and]
      repeat' (first | (intro _) | constructor)
      all_goals first
        | trivial
        | (apply ih; rfl)
        | (simp only [bne_iff_ne, beq_iff_eq, ne_eq, Bool.not_eq_true, Bool.not_eq_false, decide_eq_true_eq, decide_eq_false_iff_not,
             Decidable.not_not, Int.reduceToNat, Bool.false_eq_true, Bool.true_eq_false, Int.ofNat_eq_natCast, len_eq, Nat.sub_zero] at *
           omega)
    · have c : decide ((n : Int) < Int.ofNat t.AudioVideoResourceTotal.toNat) = false := by simp; omega
      simp only [c, Bool.false_eq_true, if_false]
      rfl

theorem T0x1205_Parse_total (fuel : Nat) (t : model_T0x1205) (j : jt808_JTMessage) (hf : j.Body.length + 40 < fuel) :
    (model_T0x1205_Parse fuel t j).isOk = true := by
  have loop : ∀ t' : model_T0x1205, j.Body.length = 6 + 28 * t'.AudioVideoResourceTotal.toNat →
      (model_T0x1205_Parse_loop1 fuel t' j j.Body (6 : Int) (34 : Int) (0 : Int)).isOk = true := by
    intro t' hl
    have := T0x1205_loop_total fuel t' j j.Body 0 hl (by omega) (by omega)
    simpa using this
  have bind_ok_isOk : ∀ (x : X (model_T0x1205 × Int × Int)) (g : model_T0x1205 × Int × Int → model_T0x1205 × GoErr),
      x.isOk = true → (X.bind x (fun m => X.ok (g m))).isOk = true := by
    intro x g hx; cases x <;> first | rfl | cases hx
  simp only [model_T0x1205_Parse, model_T0x1205_Parse_j3, model_T0x1205_Parse_j2]
  simp only [slice, idx_ite, u16_ite, u32_ite, bind_ite', X.bind_ok, X.bind_panic, len_eq, List.length_take, List.length_drop]
  simp only [X.isOk_ite_iff, X.isOk_ok, X.isOk_panic, implies_true, and_true, true_and]
  repeat' (first | (intro _) | constructor)
  all_goals first
    | trivial
    | (apply bind_ok_isOk
       apply loop
       simp only [bne_iff_ne, ne_eq, Decidable.not_not, Int.ofNat_eq_natCast, Int.reduceToNat, decide_eq_true_eq, decide_eq_false_iff_not, len_eq] at *
       omega)
    | (simp only [bne_iff_ne, beq_iff_eq, ne_eq, Bool.not_eq_true, Bool.not_eq_false, decide_eq_true_eq, decide_eq_false_iff_not,
         Decidable.not_not, Int.reduceToNat, Bool.false_eq_true, Bool.true_eq_false, Int.ofNat_eq_natCast, len_eq, Nat.sub_zero] at *
       omega)

/-! ### 0x9208 (alarm attachment upload command) -/

theorem P0x9208_Parse_total (fuel : Nat) (p : model_P0x9208) (j : jt808_JTMessage) (hf : j.Body.length < fuel) :
    (model_P0x9208_Parse fuel p j).isOk = true := by
  obtain ⟨b, hb, eb⟩ := asLen_ok fuel p.P9208AlarmSign
  have eb' : ∀ v : UInt8, model_P9208AlarmSign_getAlarmSignLen fuel ({ p with ServerIPLen := v } : model_P0x9208).P9208AlarmSign = X.ok b := fun _ => eb
  simp only [model_P0x9208_Parse, model_P0x9208_Parse_j2, model_P0x9208_Parse_j1, eb, eb', X.bind_ok]
  simp only [sliceFrom, slice_as _ _ _ _ _ _ hf]
  go_total

/-! ### 0x0102 (authentication): the software version is cut at its first NUL byte -/

theorem indexByte_range (b : Bytes) (c : Byte) : indexByte b c = -1 ∨ (0 ≤ indexByte b c ∧ indexByte b c < (b.length : Int)) := by
  unfold indexByte
  cases h : b.findIdx? (· == c) with
  | none => left; rfl
  | some i =>
    right
    have := List.findIdx?_eq_some_iff_getElem.mp h
    obtain ⟨hi, _⟩ := this
    simp only; omega

/-- the value of `data[:index]` behind `if index := bytes.IndexByte(data, 0); index != -1` -/
def cutNul (d : Bytes) : Bytes := if indexByte d 0 != -1 then d.take (indexByte d 0).toNat else d

theorem cutNul_ok (d : Bytes) :
    (if (indexByte d (0 : UInt8) != (-1 : Int)) then (X.bind (sliceTo d (indexByte d (0 : UInt8))) (fun t => (X.ok t : X Bytes))) else (X.ok d)) = X.ok (cutNul d) := by
  unfold cutNul
  rcases indexByte_range d 0 with h | ⟨h0, h1⟩
  · simp [h]
  · have hne : (indexByte d (0 : UInt8) != (-1 : Int)) = true := by simp; omega
    simp only [hne, if_true]
    unfold sliceTo
    rw [slice_int d 0 _ (by omega)]
    simp

theorem T0x0102_Parse_total (fuel : Nat) (t : model_T0x0102) (j : jt808_JTMessage) : (model_T0x0102_Parse fuel t j).isOk = true := by
  simp only [model_T0x0102_Parse, model_T0x0102_Parse_j2, model_T0x0102_Parse_j1, cutNul_ok]
  go_total

/-! ### encoders of the alarm-sign block, 0x9208 and 0x1210 -/

/-- the value `String2FillingBytes` returns for a non-negative size -/
def fillV (t : Bytes) (size : Int) : Bytes :=
  if (t.length : Int) < size then t ++ List.replicate (size - t.length).toNat 0 else if (t.length : Int) > size then t.take size.toNat else t

theorem String2FillingBytes_ok (fuel : Nat) (t : Bytes) (size : Int) (h : 0 ≤ size) :
    utils_String2FillingBytes fuel t size = X.ok (fillV t size) := by
  unfold utils_String2FillingBytes fillV
  by_cases h1 : (t.length : Int) < size
  · have c : decide (len t < size) = true := by simp [h1]
    simp only [c, if_true, make, show (0 : Int) ≤ size - len t from by simp; omega, X.bind_ok, if_pos h1, len_eq]
  · have c : decide (len t < size) = false := by simp [h1]
    simp only [c, Bool.false_eq_true, if_false, if_neg h1]
    by_cases h2 : (t.length : Int) > size
    · have c2 : decide (len t > size) = true := by simp [h2]
      have hs : sliceTo t size = X.ok (t.take size.toNat) := by
        unfold sliceTo; rw [slice_int t 0 size (by omega)]; simp
      simp only [c2, if_true, hs, X.bind_ok, if_pos h2]
    · have c2 : decide (len t > size) = false := by simp [h2]
      simp only [c2, Bool.false_eq_true, if_false, X.bind_ok, if_neg h2]

theorem AlarmSign_encode_total (fuel : Nat) (p : model_P9208AlarmSign) (h : p.Time.length + 1 < fuel) :
    (model_P9208AlarmSign_encode fuel p).isOk = true := by
  obtain ⟨a, ha, ea⟩ := idLen_ok fuel p
  obtain ⟨b, hb, eb⟩ := asLen_ok fuel p
  simp only [model_P9208AlarmSign_encode, ea, eb, X.bind_ok, String2FillingBytes_ok fuel _ a ha, Time2BCD_ok _ _ h]
  go_total

/-- the value the alarm-sign encoder returns -/
def asEncV (fuel : Nat) (p : model_P9208AlarmSign) : model_P9208AlarmSign × Bytes :=
  match model_P9208AlarmSign_encode fuel p with | .ok r => r | _ => (p, [])

theorem AlarmSign_encode_ok (fuel : Nat) (p : model_P9208AlarmSign) (h : p.Time.length + 1 < fuel) :
    model_P9208AlarmSign_encode fuel p = X.ok (asEncV fuel p) := by
  have := AlarmSign_encode_total fuel p h
  unfold asEncV
  cases hr : model_P9208AlarmSign_encode fuel p with
  | ok r => rfl
  | panic => rw [hr] at this; cases this
  | fuel => rw [hr] at this; cases this

theorem P0x9208_Encode_total (fuel : Nat) (p : model_P0x9208) (h : p.P9208AlarmSign.Time.length + 1 < fuel) :
    (model_P0x9208_Encode fuel p).isOk = true := by
  simp only [model_P0x9208_Encode, AlarmSign_encode_ok fuel _ h, String2FillingBytes_ok fuel _ 32 (by omega)]
  go_total

theorem T0x1210_Encode_loop_total (t : model_T0x1210) (rng : List model_T0x1210AlarmItem) : ∀ (fuel i : Nat) (data : Bytes),
    rng.length - i < fuel → (model_T0x1210_Encode_loop1 fuel t data rng (i : Int)).isOk = true
  | 0, _, _, h => by omega
  | fuel + 1, i, data, h => by
    unfold model_T0x1210_Encode_loop1
    by_cases hlt : i < rng.length
    · have c : decide ((i : Int) < Int.ofNat rng.length) = true := by simp; omega
      have hl : lidx rng (i : Int) = X.ok rng[i] := by unfold lidx; simp [hlt]
      simp only [c, if_true, hl, X.bind_ok]
      have := T0x1210_Encode_loop_total t rng fuel (i + 1) (data ++ [rng[i].FileNameLen] ++ rng[i].FileName ++ Go.be32 rng[i].FileSize) (by omega)
      rw [show ((i : Int) + 1) = ((i + 1 : Nat) : Int) by push_cast; rfl]
      exact this
    · have c : decide ((i : Int) < Int.ofNat rng.length) = false := by simp; omega
      simp only [c, Bool.false_eq_true, if_false]; rfl

theorem T0x1210_Encode_total (fuel : Nat) (t : model_T0x1210) (h : t.P9208AlarmSign.Time.length + 1 < fuel)
    (hl : t.T0x1210AlarmItemList.length < fuel) : (model_T0x1210_Encode fuel t).isOk = true := by
  obtain ⟨a, ha, ea⟩ := idLen_ok fuel t.P9208AlarmSign
  have loop : ∀ (t' : model_T0x1210) (d : Bytes), (model_T0x1210_Encode_loop1 fuel t' d t.T0x1210AlarmItemList (0 : Int)).isOk = true :=
    fun t' d => T0x1210_Encode_loop_total t' _ fuel 0 d (by omega)
  have fin : ∀ (t' : model_T0x1210) (d : Bytes),
      (X.bind (model_T0x1210_Encode_loop1 fuel t' d t.T0x1210AlarmItemList (0 : Int)) (fun m => (X.ok (t', m) : X (model_T0x1210 × Bytes)))).isOk = true := by
    intro t' d
    have := loop t' d
    cases hr : model_T0x1210_Encode_loop1 fuel t' d t.T0x1210AlarmItemList (0 : Int) with
    | ok r => rfl
    | panic => rw [hr] at this; cases this
    | fuel => rw [hr] at this; cases this
  simp only [model_T0x1210_Encode, ea, X.bind_ok, String2FillingBytes_ok fuel _ a ha, AlarmSign_encode_ok fuel _ h,
    String2FillingBytes_ok fuel _ 32 (by omega), makeCap]
  by_cases hty : t.P9208AlarmSign.ActiveSafetyType = 2
  · simp only [hty, bne_self_eq_false, Bool.false_eq_true, if_false, X.bind_ok]
    simp only [show ((0 : Int) ≤ 0 ∧ (0 : Int) ≤ 60) from by omega, if_true, X.bind_ok]
    exact fin _ _
  · have c : (t.P9208AlarmSign.ActiveSafetyType != (2 : UInt8)) = true := by simpa using hty
    simp only [c, if_true, X.bind_ok]
    simp only [show ((0 : Int) ≤ 0 ∧ (0 : Int) ≤ 60) from by omega, if_true, X.bind_ok]
    exact fin _ _

end JT.Gen.GoModel
