import JT.Model.Layout
import JT.Proof.Bytes
/-! Generic lemmas about fixed layouts and big-endian numbers of any width. -/
namespace JT.Layout
open JT

theorem readAll_tiling (n : Nat) : ∀ (fs : List Field) (start : Nat) (b : Bytes), Tiling n start fs = true →
    b.length = n → start ≤ n → readAll b fs = .ok (fs.map (fun f => (b.drop f.1).take (f.2.1 - f.1))) ∧
      (fs.map (fun f => (b.drop f.1).take (f.2.1 - f.1))).flatten = b.drop start
  | [], start, b, ht, hb, _ => by
    simp [Tiling] at ht
    subst ht
    simp [readAll, ← hb]
  | (lo, hi, nm) :: r, start, b, ht, hb, hs => by
    simp only [Tiling, Bool.and_eq_true, decide_eq_true_eq] at ht
    obtain ⟨⟨h1, h2⟩, h3⟩ := ht
    subst h1
    -- hi ≤ n follows from the rest of the tiling
    have hhi : hi ≤ n := by
      have : ∀ (fs : List Field) (s : Nat), Tiling n s fs = true → s ≤ n := by
        intro fs
        induction fs with
        | nil => intro s h; simp [Tiling] at h; omega
        | cons f t ih =>
          intro s h
          obtain ⟨a, c, d⟩ := f
          simp only [Tiling, Bool.and_eq_true, decide_eq_true_eq] at h
          have := ih c h.2
          omega
      exact this r hi h3
    obtain ⟨ih1, ih2⟩ := readAll_tiling n r hi b h3 hb hhi
    constructor
    · simp only [readAll, slice, List.map_cons]
      rw [if_pos ⟨by omega, by omega⟩, ih1]
    · simp only [List.map_cons, List.flatten_cons, ih2]
      have e : List.drop hi b = List.drop (hi - lo) (List.drop lo b) := by
        rw [List.drop_drop]; congr 1; omega
      rw [e]
      exact List.take_append_drop _ _

/-- **`Parse` never reads outside the body**: with the length guard and a tiling, no access is out of range -/
theorem parseL_no_panic (n : Nat) (fs : List Field) (ht : Tiling n 0 fs = true) (b : Bytes) :
    parseL n fs b ≠ .panic := by
  unfold parseL
  split
  · simp
  · next h =>
    have h' : b.length = n := by omega
    rw [(readAll_tiling n fs 0 b ht h' (Nat.zero_le _)).1]
    simp

/-- **`Encode (Parse b) = b`** on every accepted body -/
theorem encodeL_parseL (n : Nat) (fs : List Field) (ht : Tiling n 0 fs = true) (b : Bytes) (v : List Bytes)
    (h : parseL n fs b = .ok v) : encodeL v = b := by
  unfold parseL at h
  split at h
  · cases h
  · next hl =>
    have hl' : b.length = n := by omega
    obtain ⟨h1, h2⟩ := readAll_tiling n fs 0 b ht hl' (Nat.zero_le _)
    rw [h1] at h
    injection h with h
    subst h
    simpa [encodeL] using h2

/-- `Parse` accepts exactly the bodies of length `n` -/
theorem parseL_ok_iff (n : Nat) (fs : List Field) (ht : Tiling n 0 fs = true) (b : Bytes) :
    (∃ v, parseL n fs b = .ok v) ↔ b.length = n := by
  constructor
  · rintro ⟨v, h⟩
    unfold parseL at h
    split at h
    · cases h
    · omega
  · intro h
    exact ⟨_, by unfold parseL; rw [if_neg (by omega)]; exact (readAll_tiling n fs 0 b ht h (Nat.zero_le _)).1⟩

/-- chunk lengths match the field widths -/
def Fits : List Bytes → List Field → Prop
  | [], [] => True
  | c :: cs, (lo, hi, _) :: r => c.length = hi - lo ∧ Fits cs r
  | _, _ => False

theorem fits_length : ∀ (v : List Bytes) (fs : List Field) (start n : Nat), Fits v fs → Tiling n start fs = true →
    start + v.flatten.length = n
  | [], [], start, n, _, ht => by simp [Tiling] at ht; simp [ht]
  | c :: cs, (lo, hi, nm) :: r, start, n, hf, ht => by
    simp only [Tiling, Bool.and_eq_true, decide_eq_true_eq] at ht
    obtain ⟨⟨h1, h2⟩, h3⟩ := ht
    obtain ⟨f1, f2⟩ := hf
    have := fits_length cs r hi n f2 h3
    simp only [List.flatten_cons, List.length_append]
    omega
  | [], _ :: _, _, _, hf, _ => by cases hf
  | _ :: _, [], _, _, hf, _ => by cases hf

theorem readAll_flatten : ∀ (v : List Bytes) (fs : List Field) (pre : Bytes) (n : Nat), Fits v fs →
    Tiling n pre.length fs = true → readAll (pre ++ v.flatten) fs = .ok v
  | [], [], _, _, _, _ => rfl
  | c :: cs, (lo, hi, nm) :: r, pre, n, hf, ht => by
    simp only [Tiling, Bool.and_eq_true, decide_eq_true_eq] at ht
    obtain ⟨⟨h1, h2⟩, h3⟩ := ht
    obtain ⟨f1, f2⟩ := hf
    subst h1
    have hlen : (pre ++ c).length = hi := by simp [f1]; omega
    have ih := readAll_flatten cs r (pre ++ c) n f2 (by rw [hlen]; exact h3)
    simp only [List.flatten_cons, readAll, slice]
    rw [if_pos ⟨by omega, by simp; omega⟩]
    have hc : (List.drop pre.length (pre ++ (c ++ cs.flatten))).take (hi - pre.length) = c := by
      rw [List.drop_left' rfl, ← f1, List.take_left' rfl]
    rw [hc]
    rw [List.append_assoc] at ih
    rw [ih]
  | [], _ :: _, _, _, hf, _ => by cases hf
  | _ :: _, [], _, _, hf, _ => by cases hf

/-- **`Parse (Encode v) = v`** for every value whose fields have the layout's widths -/
theorem parseL_encodeL (n : Nat) (fs : List Field) (ht : Tiling n 0 fs = true) (v : List Bytes) (hf : Fits v fs) :
    parseL n fs (encodeL v) = .ok v := by
  have hl := fits_length v fs 0 n hf ht
  unfold parseL encodeL
  rw [if_neg (by omega)]
  have := readAll_flatten v fs [] n hf (by simpa using ht)
  simpa using this


/-! ### big-endian numbers of any width -/

theorem foldl_be (r : Bytes) (acc : Nat) :
    r.foldl (fun a b => a * 256 + b.toNat) acc = acc * 256 ^ r.length + r.foldl (fun a b => a * 256 + b.toNat) 0 := by
  induction r generalizing acc with
  | nil => simp
  | cons x t ih =>
    simp only [List.foldl_cons, List.length_cons, Nat.pow_succ]
    rw [ih (acc * 256 + x.toNat), ih (0 * 256 + x.toNat)]
    simp only [Nat.zero_mul, Nat.zero_add, Nat.add_mul, Nat.mul_assoc, Nat.add_assoc]
    congr 2
    rw [Nat.mul_comm 256]

theorem beN_cons (x : Byte) (r : Bytes) : beN (x :: r) = x.toNat * 256 ^ r.length + beN r := by
  simp only [beN, List.foldl_cons]
  rw [foldl_be]; simp

theorem toBE_length (w n : Nat) : (toBE w n).length = w := by
  induction w with
  | zero => rfl
  | succ k ih => simp [toBE, ih]

/-- reading back what was written gives the number modulo `256^w` (Go's truncating conversion) -/
theorem beN_toBE_mod (w n : Nat) : beN (toBE w n) = n % 256 ^ w := by
  induction w with
  | zero => simp [toBE, beN, Nat.mod_one]
  | succ k ih =>
    simp only [toBE, beN_cons, toBE_length, ih]
    rw [toNat_ofNat_lt _ (Nat.mod_lt _ (by decide))]
    rw [Nat.pow_succ, Nat.mod_mul]
    rw [Nat.mul_comm (256 ^ k)]; omega

/-- **a number that fits in `w` bytes survives the round trip** -/
theorem beN_toBE (w n : Nat) (h : n < 256 ^ w) : beN (toBE w n) = n := by
  rw [beN_toBE_mod, Nat.mod_eq_of_lt h]

theorem beN_lt (bs : Bytes) : beN bs < 256 ^ bs.length := by
  induction bs with
  | nil => simp [beN]
  | cons x r ih =>
    rw [beN_cons]
    have hx := UInt8.toNat_lt x
    simp only [List.length_cons, Nat.pow_succ]
    have : x.toNat * 256 ^ r.length + beN r < (x.toNat + 1) * 256 ^ r.length := by
      rw [Nat.add_mul]; omega
    calc x.toNat * 256 ^ r.length + beN r < (x.toNat + 1) * 256 ^ r.length := this
      _ ≤ 256 * 256 ^ r.length := Nat.mul_le_mul_right _ (by omega)
      _ = 256 ^ r.length * 256 := Nat.mul_comm _ _

theorem toBE_congr_mod (w n m : Nat) (h : n % 256 ^ w = m % 256 ^ w) : toBE w n = toBE w m := by
  induction w generalizing n m with
  | zero => rfl
  | succ k ih =>
    simp only [toBE]
    have hk : n % 256 ^ k = m % 256 ^ k := by
      have e1 : n % 256 ^ k = n % 256 ^ (k + 1) % 256 ^ k := by
        rw [Nat.pow_succ, Nat.mod_mul_right_mod]
      have e2 : m % 256 ^ k = m % 256 ^ (k + 1) % 256 ^ k := by
        rw [Nat.pow_succ, Nat.mod_mul_right_mod]
      rw [e1, e2, h]
    have hd : n / 256 ^ k % 256 = m / 256 ^ k % 256 := by
      have e1 := Nat.mod_mul (x := n) (a := 256 ^ k) (b := 256)
      have e2 := Nat.mod_mul (x := m) (a := 256 ^ k) (b := 256)
      rw [← Nat.pow_succ] at e1 e2
      rw [h, e2, hk] at e1
      have hp : 0 < 256 ^ k := Nat.pow_pos (by decide)
      have := Nat.add_left_cancel e1
      exact (Nat.eq_of_mul_eq_mul_left hp this).symm
    rw [hd, ih n m hk]

/-- **every `w`-byte string is the encoding of the number it denotes** -/
theorem toBE_beN (bs : Bytes) : toBE bs.length (beN bs) = bs := by
  induction bs with
  | nil => rfl
  | cons x r ih =>
    simp only [List.length_cons, toBE, beN_cons]
    have hlt := beN_lt r
    have hp : 0 < 256 ^ r.length := Nat.pow_pos (by decide)
    have h1 : (x.toNat * 256 ^ r.length + beN r) / 256 ^ r.length = x.toNat := by
      rw [Nat.mul_comm, Nat.mul_add_div hp, Nat.div_eq_of_lt hlt]; simp
    have h2 : (x.toNat * 256 ^ r.length + beN r) % 256 ^ r.length = beN r % 256 ^ r.length := by
      rw [Nat.mul_comm, Nat.mul_add_mod]
    rw [h1, Nat.mod_eq_of_lt (UInt8.toNat_lt x), ofNat_toNat_byte, toBE_congr_mod _ _ _ h2, ih]
end JT.Layout
