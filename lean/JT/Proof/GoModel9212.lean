import JT.Proof.GoModel
/-!
# 0x9212 (missing ranges of an attachment) — `Parse ∘ Encode` on the code translated from protocol/model/p_0x9212.go
-/
namespace JT.Gen.GoModel
open JT JT.Go JT.Gen.GoFrame

theorem u32_be32 (v : UInt32) (rest : Bytes) : u32 (Go.be32 v ++ rest) = X.ok v := by
  have hv := v.toNat_lt
  unfold Go.be32 u32
  simp only [List.cons_append, List.nil_append]
  congr 1
  apply UInt32.toNat_inj.mp
  simp only [UInt32.toNat_ofNat', beN, List.foldl_cons, List.foldl_nil, UInt8.toNat_ofNat']
  omega

/-- one retransmit entry on the wire -/
def enc9212 (e : model_P0x9212RetransmitPacket) : Bytes := Go.be32 e.DataOffset ++ Go.be32 e.DataLength

theorem enc9212_length (e : model_P0x9212RetransmitPacket) : (enc9212 e).length = 8 := rfl
theorem flat_length (es : List model_P0x9212RetransmitPacket) : (es.flatMap enc9212).length = 8 * es.length := by
  induction es with
  | nil => rfl
  | cons e r ih => simp only [List.flatMap_cons, List.length_append, enc9212_length, ih, List.length_cons]; omega

theorem lidx_lt {α} (l : List α) (i : Nat) (h : i < l.length) : lidx l (i : Int) = X.ok l[i] := by
  simp [lidx, h]

/-- `Encode`'s loop appends every entry, in order -/
theorem enc_loop (p : model_P0x9212) (rng : List model_P0x9212RetransmitPacket) : ∀ (fuel i : Nat) (data : Bytes) (k : Int), k = (i : Int) →
    i ≤ rng.length → rng.length - i < fuel →
    model_P0x9212_Encode_loop1 fuel p data rng k = X.ok (data ++ (rng.drop i).flatMap enc9212)
  | 0, _, _, _, _, _, h => by omega
  | fuel + 1, i, data, k, hk, hi, hf => by
    subst hk
    unfold model_P0x9212_Encode_loop1
    by_cases hlt : i < rng.length
    · have c : decide ((i : Int) < Int.ofNat rng.length) = true := decide_eq_true (by simp; exact hlt)
      simp only [c, if_true, lidx_lt rng i hlt, X.bind_ok]
      rw [enc_loop p rng fuel (i + 1) _ _ (by omega) (by omega) (by omega)]
      rw [List.drop_eq_getElem_cons hlt]
      simp only [List.flatMap_cons, enc9212, List.append_assoc]
    · have c : decide ((i : Int) < Int.ofNat rng.length) = false := decide_eq_false (by simp; omega)
      simp only [c, Bool.false_eq_true, if_false]
      have : rng.drop i = [] := List.drop_eq_nil_of_le (by omega)
      simp [this]

/-- the body `Encode` produces -/
theorem encode_9212 (fuel : Nat) (p : model_P0x9212) (hf : p.P0x9212RetransmitPacketList.length < fuel) :
    model_P0x9212_Encode fuel p = X.ok ([p.FileNameLen] ++ p.FileName ++ [p.FileType, p.UploadResult, p.RetransmitPacketNumber] ++
      p.P0x9212RetransmitPacketList.flatMap enc9212) := by
  unfold model_P0x9212_Encode
  have hm : makeCap (1 : Int) (10 : Int) = X.ok [0] := rfl
  have hs : setIdx [(0 : UInt8)] (0 : Int) p.FileNameLen = X.ok [p.FileNameLen] := rfl
  simp only [hm, X.bind_ok, hs]
  rw [enc_loop p _ fuel 0 _ 0 rfl (by omega) (by omega)]
  simp


theorem drop_flat0 : ∀ (es : List model_P0x9212RetransmitPacket) (i : Nat), i ≤ es.length →
    (es.flatMap enc9212).drop (8 * i) = (es.drop i).flatMap enc9212
  | [], i, _ => by simp
  | e :: r, 0, _ => by simp
  | e :: r, n + 1, hi => by
    simp only [List.flatMap_cons, List.drop_succ_cons]
    rw [show 8 * (n + 1) = (enc9212 e).length + 8 * n by rw [enc9212_length]; omega, List.drop_length_add_append]
    exact drop_flat0 r n (by simp at hi; omega)

theorem drop_flat (pre : Bytes) (es : List model_P0x9212RetransmitPacket) (i : Nat) (hi : i ≤ es.length) :
    (pre ++ es.flatMap enc9212).drop (pre.length + 8 * i) = (es.drop i).flatMap enc9212 := by
  rw [List.drop_length_add_append, drop_flat0 es i hi]

theorem rp_eta (e : model_P0x9212RetransmitPacket) :
    { model_P0x9212RetransmitPacket.zero with DataOffset := e.DataOffset, DataLength := e.DataLength } = e := by
  cases e; rfl

/-- `Parse`'s loop reads back exactly the entries `Encode` wrote -/
theorem dec_loop (j : jt808_JTMessage) (pre : Bytes) (es : List model_P0x9212RetransmitPacket) (L : Nat) (hpre : pre.length = 4 + L) :
    ∀ (fuel i : Nat) (p : model_P0x9212) (k : Int), k = (i : Int) → i ≤ es.length →
    p.RetransmitPacketNumber.toNat = es.length → es.length - i < fuel →
    model_P0x9212_Parse_loop1 fuel p j (pre ++ es.flatMap enc9212) (L : Int) k =
      X.ok { p with P0x9212RetransmitPacketList := p.P0x9212RetransmitPacketList ++ es.drop i }
  | 0, _, _, _, _, _, _, h => by omega
  | fuel + 1, i, p, k, hk, hi, hc, hf => by
    subst hk
    unfold model_P0x9212_Parse_loop1
    by_cases hlt : i < es.length
    · have c : decide ((i : Int) < Int.ofNat p.RetransmitPacketNumber.toNat) = true := decide_eq_true (by rw [hc]; simp; exact hlt)
      have blen : (pre ++ es.flatMap enc9212).length = 4 + L + 8 * es.length := by simp only [List.length_append, hpre, flat_length]
      have e1 : ((4 : Int) + (L : Int)) + ((8 : Int) * (i : Int)) = ((pre.length + 8 * i : Nat) : Int) := by omega
      have e2 : ((pre.length + 8 * i : Nat) : Int) + (4 : Int) = ((pre.length + 8 * i + 4 : Nat) : Int) := by omega
      simp only [c, if_true, e1, e2]
      rw [sliceFrom_ok _ (pre.length + 8 * i) (by omega), sliceFrom_ok _ (pre.length + 8 * i + 4) (by omega)]
      have d1 := drop_flat pre es i hi
      have hcons : es.drop i = es[i] :: es.drop (i + 1) := List.drop_eq_getElem_cons hlt
      have d2 : (pre ++ es.flatMap enc9212).drop (pre.length + 8 * i + 4) =
          Go.be32 es[i].DataLength ++ (es.drop (i + 1)).flatMap enc9212 := by
        rw [← List.drop_drop, d1, hcons]
        simp only [List.flatMap_cons, enc9212, List.append_assoc]
        exact List.drop_left' rfl
      rw [d1, d2, hcons]
      simp only [List.flatMap_cons, enc9212, List.append_assoc, u32_be32, X.bind_ok]
      have e3 : ((i : Int) + (1 : Int)) = ((i + 1 : Nat) : Int) := by omega
      rw [dec_loop j pre es L hpre fuel (i + 1) _ _ e3 (by omega) (by simp only []; exact hc) (by omega)]
      simp only [List.append_assoc, List.cons_append, List.nil_append]
    · have c : decide ((i : Int) < Int.ofNat p.RetransmitPacketNumber.toNat) = false := decide_eq_false (by rw [hc]; simp; omega)
      simp only [c, Bool.false_eq_true, if_false]
      have : es.drop i = [] := List.drop_eq_nil_of_le (by omega)
      simp [this]

theorem nth_after {α} (a : α) (name rest : List α) (k : Nat) : (a :: (name ++ rest))[(k + 1) + name.length]? = rest[k]? := by
  rw [show k + 1 + name.length = (name.length + k) + 1 by omega, List.getElem?_cons_succ, List.getElem?_append_right (by omega)]
  congr 1; omega

/-- **0x9212 round trip on the translated source**: for every value whose length byte and count byte agree with its file
name and its list (what `Encode` itself requires to produce a decodable body), `Parse` of the body `Encode` produced
returns no error and exactly these fields — in particular every retransmit range (offset, length), in order. -/
theorem roundtrip_9212 (fuel : Nat) (p q : model_P0x9212) (j : jt808_JTMessage)
    (hn : p.FileNameLen.toNat = p.FileName.length) (hc : p.RetransmitPacketNumber.toNat = p.P0x9212RetransmitPacketList.length)
    (hf : p.FileName.length + 8 * p.P0x9212RetransmitPacketList.length + 8 < fuel) :
    ∃ body, model_P0x9212_Encode fuel p = X.ok body ∧
      ∃ r, model_P0x9212_Parse fuel q { j with Body := body } = X.ok (r, none) ∧
        r.FileNameLen = p.FileNameLen ∧ r.FileName = p.FileName ∧ r.FileType = p.FileType ∧ r.UploadResult = p.UploadResult ∧
        r.RetransmitPacketNumber = p.RetransmitPacketNumber ∧ r.P0x9212RetransmitPacketList = p.P0x9212RetransmitPacketList := by
  refine ⟨_, encode_9212 fuel p (by omega), ?_⟩
  generalize hes : p.P0x9212RetransmitPacketList = es at *
  generalize hfn : p.FileName = name at *
  have hpre : ([p.FileNameLen] ++ name ++ [p.FileType, p.UploadResult, p.RetransmitPacketNumber]).length = 4 + name.length := by
    simp only [List.length_append, List.length_cons, List.length_nil]; omega
  generalize hb : [p.FileNameLen] ++ name ++ [p.FileType, p.UploadResult, p.RetransmitPacketNumber] = pre at *
  have blen : (pre ++ es.flatMap enc9212).length = 4 + name.length + 8 * es.length := by
    simp only [List.length_append, hpre, flat_length]
  simp only [model_P0x9212_Parse, model_P0x9212_Parse_j4, model_P0x9212_Parse_j3, model_P0x9212_Parse_j2]
  have c4 : decide (len (pre ++ es.flatMap enc9212) < (4 : Int)) = false := decide_eq_false (by simp only [len_eq]; omega)
  simp only [c4, Bool.false_eq_true, if_false]
  -- the head bytes
  have g0 : idx (pre ++ es.flatMap enc9212) (0 : Int) = X.ok p.FileNameLen := by
    rw [← hb]; rfl
  simp only [g0, X.bind_ok, Int.ofNat_eq_natCast, hn]
  have c5 : decide (len (pre ++ es.flatMap enc9212) < (4 : Int) + (name.length : Int)) = false :=
    decide_eq_false (by simp only [len_eq]; omega)
  simp only [c5, Bool.false_eq_true, if_false]
  have hsl : slice (pre ++ es.flatMap enc9212) (1 : Int) ((1 : Int) + (name.length : Int)) = X.ok name := by
    have := slice_ok (pre ++ es.flatMap enc9212) 1 (1 + name.length) (by omega) (by omega)
    simp only [Int.cast_ofNat_Int, Int.natCast_add] at this
    rw [this, ← hb]
    simp
  have gi : ∀ (k : Nat) (v : UInt8), (pre ++ es.flatMap enc9212)[k + name.length]? = some v →
      idx (pre ++ es.flatMap enc9212) ((k : Int) + (name.length : Int)) = X.ok v := by
    intro k v hv
    have e : ((k : Int) + (name.length : Int)) = ((k + name.length : Nat) : Int) := by omega
    obtain ⟨hlt, hval⟩ := List.getElem?_eq_some_iff.mp hv
    rw [e, idx_lt _ _ hlt, hval]
  have g1 := gi 1 p.FileType (by rw [← hb]; simp only [List.cons_append, List.nil_append, List.append_assoc]; rw [nth_after]; rfl)
  have g2 := gi 2 p.UploadResult (by rw [← hb]; simp only [List.cons_append, List.nil_append, List.append_assoc]; rw [nth_after]; rfl)
  have g3 := gi 3 p.RetransmitPacketNumber (by rw [← hb]; simp only [List.cons_append, List.nil_append, List.append_assoc]; rw [nth_after]; rfl)
  simp only [Int.cast_ofNat_Int] at g1 g2 g3
  simp only [hsl, X.bind_ok, g1, g2, g3, hc]
  have clen : (len (pre ++ es.flatMap enc9212) != (4 : Int) + (name.length : Int) + (8 : Int) * (es.length : Int)) = false := by
    simp only [len_eq, blen, bne_eq_false_iff_eq]; omega
  simp only [clen, Bool.false_eq_true, if_false]
  rw [dec_loop { j with Body := pre ++ es.flatMap enc9212 } pre es name.length hpre fuel 0 _ 0 rfl (by omega) (by simp only []; exact hc) (by omega)]
  simp only [X.bind_ok, List.nil_append, List.drop_zero]
  exact ⟨_, rfl, rfl, rfl, rfl, rfl, rfl, rfl⟩
end JT.Gen.GoModel
