import JT.Gen.GoTerm
import JT.Proof.GoFrame
/-!
# `Terminal.CreateCommandData` as translated from terminal/terminal.go

The simulator stamps the command ID into `ReplyID`, increments `PlatformSerialNumber` (16-bit, wrapping) and frames the
body with the codec's own `Header.Encode`. `encode_header_after`: what `Header.Encode` leaves in the header it was called
on — only the body length and the fragment flag of the property word change, so the next command starts from the same
phone, version, and the serial just used.
-/
namespace JT.Gen.GoTerm
open JT JT.Go JT.Frame JT.Gen.GoFrame

theorem X.bind_eq_ok {α β : Type} {x : X α} {f : α → X β} {r : β} (h : X.bind x f = X.ok r) : ∃ a, x = X.ok a ∧ f a = X.ok r := by
  cases x with
  | ok a => exact ⟨a, rfl, h⟩
  | panic => cases h
  | fuel => cases h

/-- the header after `Encode(body)`: body length and fragment flag of the property word are overwritten, nothing else -/
def afterEncode (h : jt808_Header) (body : Bytes) : jt808_Header :=
  { h with Property := { h.Property with BodyDayaLen := UInt16.ofInt (len body), PacketFragmented := (0 : UInt8) } }

theorem encode_header_after (fuel : Nat) (h h' : jt808_Header) (body fr : Bytes)
    (he : jt808_Header_Encode fuel h body = X.ok (h', fr)) : h' = afterEncode h body := by
  unfold jt808_Header_Encode at he
  obtain ⟨_, _, he⟩ := X.bind_eq_ok he
  obtain ⟨_, _, he⟩ := X.bind_eq_ok he
  obtain ⟨_, _, he⟩ := X.bind_eq_ok he
  obtain ⟨_, _, he⟩ := X.bind_eq_ok he
  obtain ⟨_, _, he⟩ := X.bind_eq_ok he
  obtain ⟨_, _, he⟩ := X.bind_eq_ok he
  obtain ⟨_, _, he⟩ := X.bind_eq_ok he
  injection he with he
  injection he with h1 _
  exact h1.symm

/-- `Encode` overwrites the body length and the fragment flag before it reads them -/
theorem encode_idem (fuel : Nat) (h : jt808_Header) (body : Bytes) :
    jt808_Header_Encode fuel h body = jt808_Header_Encode fuel (afterEncode h body) body := by
  unfold jt808_Header_Encode afterEncode
  rfl

theorem encode_congr (fuel : Nat) (h1 h2 : jt808_Header) (body : Bytes) (h : afterEncode h1 body = afterEncode h2 body) :
    jt808_Header_Encode fuel h1 body = jt808_Header_Encode fuel h2 body := by
  rw [encode_idem fuel h1, encode_idem fuel h2, h]

/-- the simulator's header: the header of a decoded message, except for the four fields the simulator and `Encode`
overwrite (reply ID, platform serial, body length, fragment flag) -/
def SameBut (h : jt808_Header) (j : jt808_JTMessage) (s : UInt16) : Prop :=
  ∃ (r l : UInt16) (f : UInt8), h = { j.Header with ReplyID := r, PlatformSerialNumber := s, Property := { j.Header.Property with BodyDayaLen := l, PacketFragmented := f } }

end JT.Gen.GoTerm
