import JT.Gen.GoModel
import JT.Proof.GoTotal
import JT.Proof.GoModelBcd
/-!
# The alarm and status words of a location report, as translated from protocol/model

`AlarmSignDetails.parse` and `StatusSignDetails.parse` render the 32-bit word with `fmt.Sprintf("%.32b", w)` and test one
character per flag. The translation keeps that shape (`bitsN 32 w`, one checked index and one `if` per flag). The theorems
give the result in closed form: the record whose flag `k` is bit `k` of the word — every field, so flags of an earlier
message cannot survive in a reused receiver.
-/
namespace JT.Gen.GoModel
open JT JT.Go JT.Gen.GoFrame

theorem idx_bitsN (n w : Nat) (i : Int) :
    idx (bitsN n w) i = if 0 ≤ i ∧ i.toNat < n then X.ok (if w.testBit (n - 1 - i.toNat) then (49 : UInt8) else 48) else X.panic := by
  unfold idx bitsN
  by_cases h0 : 0 ≤ i
  · by_cases h1 : i.toNat < n
    · simp [h0, h1]
    · simp [h0, h1]
  · simp [h0]

theorem char_is_one (c : Bool) : ((if c = true then (49 : UInt8) else 48) == (49 : UInt8)) = c := by cases c <;> rfl
theorem char_is_zero (c : Bool) : ((if c = true then (49 : UInt8) else 48) == (48 : UInt8)) = !c := by cases c <;> rfl

theorem ite_ok {α : Type} (c : Bool) (a b : α) : (if c = true then (X.ok a : X α) else X.ok b) = X.ok (if c = true then a else b) := by
  cases c <;> rfl

theorem alarm_step_EmergencyAlarm (c : Bool) (a : model_AlarmSignDetails) : (if c = true then ({ a with EmergencyAlarm := true } : model_AlarmSignDetails) else a) = { a with EmergencyAlarm := (c || a.EmergencyAlarm) } := by
  cases c <;> rfl

theorem alarm_step_OverSpeed (c : Bool) (a : model_AlarmSignDetails) : (if c = true then ({ a with OverSpeed := true } : model_AlarmSignDetails) else a) = { a with OverSpeed := (c || a.OverSpeed) } := by
  cases c <;> rfl

theorem alarm_step_FatigueDriving (c : Bool) (a : model_AlarmSignDetails) : (if c = true then ({ a with FatigueDriving := true } : model_AlarmSignDetails) else a) = { a with FatigueDriving := (c || a.FatigueDriving) } := by
  cases c <;> rfl

theorem alarm_step_DangerousAlarm (c : Bool) (a : model_AlarmSignDetails) : (if c = true then ({ a with DangerousAlarm := true } : model_AlarmSignDetails) else a) = { a with DangerousAlarm := (c || a.DangerousAlarm) } := by
  cases c <;> rfl

theorem alarm_step_GNSSModuleFault (c : Bool) (a : model_AlarmSignDetails) : (if c = true then ({ a with GNSSModuleFault := true } : model_AlarmSignDetails) else a) = { a with GNSSModuleFault := (c || a.GNSSModuleFault) } := by
  cases c <;> rfl

theorem alarm_step_GNSSAntennaFault (c : Bool) (a : model_AlarmSignDetails) : (if c = true then ({ a with GNSSAntennaFault := true } : model_AlarmSignDetails) else a) = { a with GNSSAntennaFault := (c || a.GNSSAntennaFault) } := by
  cases c <;> rfl

theorem alarm_step_GNSSAntennaShortCircuit (c : Bool) (a : model_AlarmSignDetails) : (if c = true then ({ a with GNSSAntennaShortCircuit := true } : model_AlarmSignDetails) else a) = { a with GNSSAntennaShortCircuit := (c || a.GNSSAntennaShortCircuit) } := by
  cases c <;> rfl

theorem alarm_step_TerminalPowerSupply (c : Bool) (a : model_AlarmSignDetails) : (if c = true then ({ a with TerminalPowerSupply := true } : model_AlarmSignDetails) else a) = { a with TerminalPowerSupply := (c || a.TerminalPowerSupply) } := by
  cases c <;> rfl

theorem alarm_step_TerminalPowerSupplyShutdown (c : Bool) (a : model_AlarmSignDetails) : (if c = true then ({ a with TerminalPowerSupplyShutdown := true } : model_AlarmSignDetails) else a) = { a with TerminalPowerSupplyShutdown := (c || a.TerminalPowerSupplyShutdown) } := by
  cases c <;> rfl

theorem alarm_step_TerminalLCDFault (c : Bool) (a : model_AlarmSignDetails) : (if c = true then ({ a with TerminalLCDFault := true } : model_AlarmSignDetails) else a) = { a with TerminalLCDFault := (c || a.TerminalLCDFault) } := by
  cases c <;> rfl

theorem alarm_step_TTSModuleFault (c : Bool) (a : model_AlarmSignDetails) : (if c = true then ({ a with TTSModuleFault := true } : model_AlarmSignDetails) else a) = { a with TTSModuleFault := (c || a.TTSModuleFault) } := by
  cases c <;> rfl

theorem alarm_step_CameraFault (c : Bool) (a : model_AlarmSignDetails) : (if c = true then ({ a with CameraFault := true } : model_AlarmSignDetails) else a) = { a with CameraFault := (c || a.CameraFault) } := by
  cases c <;> rfl

theorem alarm_step_ICCardModuleFault (c : Bool) (a : model_AlarmSignDetails) : (if c = true then ({ a with ICCardModuleFault := true } : model_AlarmSignDetails) else a) = { a with ICCardModuleFault := (c || a.ICCardModuleFault) } := by
  cases c <;> rfl

theorem alarm_step_OverSpeedAlarm (c : Bool) (a : model_AlarmSignDetails) : (if c = true then ({ a with OverSpeedAlarm := true } : model_AlarmSignDetails) else a) = { a with OverSpeedAlarm := (c || a.OverSpeedAlarm) } := by
  cases c <;> rfl

theorem alarm_step_FatigueDrivingAlarm (c : Bool) (a : model_AlarmSignDetails) : (if c = true then ({ a with FatigueDrivingAlarm := true } : model_AlarmSignDetails) else a) = { a with FatigueDrivingAlarm := (c || a.FatigueDrivingAlarm) } := by
  cases c <;> rfl

theorem alarm_step_ViolationDrivingAlarm (c : Bool) (a : model_AlarmSignDetails) : (if c = true then ({ a with ViolationDrivingAlarm := true } : model_AlarmSignDetails) else a) = { a with ViolationDrivingAlarm := (c || a.ViolationDrivingAlarm) } := by
  cases c <;> rfl

theorem alarm_step_TirePressureAlarm (c : Bool) (a : model_AlarmSignDetails) : (if c = true then ({ a with TirePressureAlarm := true } : model_AlarmSignDetails) else a) = { a with TirePressureAlarm := (c || a.TirePressureAlarm) } := by
  cases c <;> rfl

theorem alarm_step_RightTurnBlindAreaAlarm (c : Bool) (a : model_AlarmSignDetails) : (if c = true then ({ a with RightTurnBlindAreaAlarm := true } : model_AlarmSignDetails) else a) = { a with RightTurnBlindAreaAlarm := (c || a.RightTurnBlindAreaAlarm) } := by
  cases c <;> rfl

theorem alarm_step_DrivingTimeout (c : Bool) (a : model_AlarmSignDetails) : (if c = true then ({ a with DrivingTimeout := true } : model_AlarmSignDetails) else a) = { a with DrivingTimeout := (c || a.DrivingTimeout) } := by
  cases c <;> rfl

theorem alarm_step_OverTimeStop (c : Bool) (a : model_AlarmSignDetails) : (if c = true then ({ a with OverTimeStop := true } : model_AlarmSignDetails) else a) = { a with OverTimeStop := (c || a.OverTimeStop) } := by
  cases c <;> rfl

theorem alarm_step_InOutArea (c : Bool) (a : model_AlarmSignDetails) : (if c = true then ({ a with InOutArea := true } : model_AlarmSignDetails) else a) = { a with InOutArea := (c || a.InOutArea) } := by
  cases c <;> rfl

theorem alarm_step_InOutLine (c : Bool) (a : model_AlarmSignDetails) : (if c = true then ({ a with InOutLine := true } : model_AlarmSignDetails) else a) = { a with InOutLine := (c || a.InOutLine) } := by
  cases c <;> rfl

theorem alarm_step_SectionDrivingTime (c : Bool) (a : model_AlarmSignDetails) : (if c = true then ({ a with SectionDrivingTime := true } : model_AlarmSignDetails) else a) = { a with SectionDrivingTime := (c || a.SectionDrivingTime) } := by
  cases c <;> rfl

theorem alarm_step_LineDeviation (c : Bool) (a : model_AlarmSignDetails) : (if c = true then ({ a with LineDeviation := true } : model_AlarmSignDetails) else a) = { a with LineDeviation := (c || a.LineDeviation) } := by
  cases c <;> rfl

theorem alarm_step_VSSFault (c : Bool) (a : model_AlarmSignDetails) : (if c = true then ({ a with VSSFault := true } : model_AlarmSignDetails) else a) = { a with VSSFault := (c || a.VSSFault) } := by
  cases c <;> rfl

theorem alarm_step_OilLevelAbnormality (c : Bool) (a : model_AlarmSignDetails) : (if c = true then ({ a with OilLevelAbnormality := true } : model_AlarmSignDetails) else a) = { a with OilLevelAbnormality := (c || a.OilLevelAbnormality) } := by
  cases c <;> rfl

theorem alarm_step_StealCar (c : Bool) (a : model_AlarmSignDetails) : (if c = true then ({ a with StealCar := true } : model_AlarmSignDetails) else a) = { a with StealCar := (c || a.StealCar) } := by
  cases c <;> rfl

theorem alarm_step_LaneDeviation (c : Bool) (a : model_AlarmSignDetails) : (if c = true then ({ a with LaneDeviation := true } : model_AlarmSignDetails) else a) = { a with LaneDeviation := (c || a.LaneDeviation) } := by
  cases c <;> rfl

theorem alarm_step_LaneOffset (c : Bool) (a : model_AlarmSignDetails) : (if c = true then ({ a with LaneOffset := true } : model_AlarmSignDetails) else a) = { a with LaneOffset := (c || a.LaneOffset) } := by
  cases c <;> rfl

theorem alarm_step_CollisionAlarm (c : Bool) (a : model_AlarmSignDetails) : (if c = true then ({ a with CollisionAlarm := true } : model_AlarmSignDetails) else a) = { a with CollisionAlarm := (c || a.CollisionAlarm) } := by
  cases c <;> rfl

theorem alarm_step_SideSlipAlarm (c : Bool) (a : model_AlarmSignDetails) : (if c = true then ({ a with SideSlipAlarm := true } : model_AlarmSignDetails) else a) = { a with SideSlipAlarm := (c || a.SideSlipAlarm) } := by
  cases c <;> rfl

theorem alarm_step_LaneOpeningAlarm (c : Bool) (a : model_AlarmSignDetails) : (if c = true then ({ a with LaneOpeningAlarm := true } : model_AlarmSignDetails) else a) = { a with LaneOpeningAlarm := (c || a.LaneOpeningAlarm) } := by
  cases c <;> rfl

/-- the alarm word in closed form: flag `k` of the record is bit `k` of the word -/
def alarmOf (w : Nat) : model_AlarmSignDetails :=
  { EmergencyAlarm := w.testBit 0, OverSpeed := w.testBit 1, FatigueDriving := w.testBit 2, DangerousAlarm := w.testBit 3, GNSSModuleFault := w.testBit 4, GNSSAntennaFault := w.testBit 5, GNSSAntennaShortCircuit := w.testBit 6, TerminalPowerSupply := w.testBit 7, TerminalPowerSupplyShutdown := w.testBit 8, TerminalLCDFault := w.testBit 9, TTSModuleFault := w.testBit 10, CameraFault := w.testBit 11, ICCardModuleFault := w.testBit 12, OverSpeedAlarm := w.testBit 13, FatigueDrivingAlarm := w.testBit 14, ViolationDrivingAlarm := w.testBit 15, TirePressureAlarm := w.testBit 16, RightTurnBlindAreaAlarm := w.testBit 17, DrivingTimeout := w.testBit 18, OverTimeStop := w.testBit 19, InOutArea := w.testBit 20, InOutLine := w.testBit 21, SectionDrivingTime := w.testBit 22, LineDeviation := w.testBit 23, VSSFault := w.testBit 24, OilLevelAbnormality := w.testBit 25, StealCar := w.testBit 26, LaneDeviation := w.testBit 27, LaneOffset := w.testBit 28, CollisionAlarm := w.testBit 29, SideSlipAlarm := w.testBit 30, LaneOpeningAlarm := w.testBit 31 }

theorem AlarmSignDetails_parse_eq (fuel : Nat) (a : model_AlarmSignDetails) (v : UInt32) :
    model_AlarmSignDetails_parse fuel a v = X.ok (alarmOf v.toNat) := by
  unfold model_AlarmSignDetails_parse
  simp only [idx_bitsN, Int.reduceToNat, Nat.reduceLT, Nat.reduceSub, Int.reduceLE, and_self, if_true, X.bind_ok, char_is_one, ite_ok,
    alarm_step_EmergencyAlarm, alarm_step_OverSpeed, alarm_step_FatigueDriving, alarm_step_DangerousAlarm, alarm_step_GNSSModuleFault, alarm_step_GNSSAntennaFault, alarm_step_GNSSAntennaShortCircuit, alarm_step_TerminalPowerSupply, alarm_step_TerminalPowerSupplyShutdown, alarm_step_TerminalLCDFault, alarm_step_TTSModuleFault, alarm_step_CameraFault, alarm_step_ICCardModuleFault, alarm_step_OverSpeedAlarm, alarm_step_FatigueDrivingAlarm, alarm_step_ViolationDrivingAlarm, alarm_step_TirePressureAlarm, alarm_step_RightTurnBlindAreaAlarm, alarm_step_DrivingTimeout, alarm_step_OverTimeStop, alarm_step_InOutArea, alarm_step_InOutLine, alarm_step_SectionDrivingTime, alarm_step_LineDeviation, alarm_step_VSSFault, alarm_step_OilLevelAbnormality, alarm_step_StealCar, alarm_step_LaneDeviation, alarm_step_LaneOffset, alarm_step_CollisionAlarm, alarm_step_SideSlipAlarm, alarm_step_LaneOpeningAlarm]
  simp [alarmOf, model_AlarmSignDetails.zero]

theorem status_step_ACC (c : Bool) (a : model_StatusSignDetails) : (if c = true then ({ a with ACC := true } : model_StatusSignDetails) else a) = { a with ACC := (c || a.ACC) } := by
  cases c <;> rfl

theorem status_step_Location (c : Bool) (a : model_StatusSignDetails) : (if c = true then ({ a with Location := true } : model_StatusSignDetails) else a) = { a with Location := (c || a.Location) } := by
  cases c <;> rfl

theorem status_step_South (c : Bool) (a : model_StatusSignDetails) : (if c = true then ({ a with South := true } : model_StatusSignDetails) else a) = { a with South := (c || a.South) } := by
  cases c <;> rfl

theorem status_step_East (c : Bool) (a : model_StatusSignDetails) : (if c = true then ({ a with East := true } : model_StatusSignDetails) else a) = { a with East := (c || a.East) } := by
  cases c <;> rfl

theorem status_step_Suspended (c : Bool) (a : model_StatusSignDetails) : (if c = true then ({ a with Suspended := true } : model_StatusSignDetails) else a) = { a with Suspended := (c || a.Suspended) } := by
  cases c <;> rfl

theorem status_step_Encryption (c : Bool) (a : model_StatusSignDetails) : (if c = true then ({ a with Encryption := true } : model_StatusSignDetails) else a) = { a with Encryption := (c || a.Encryption) } := by
  cases c <;> rfl

theorem status_step_EmergencyBrake (c : Bool) (a : model_StatusSignDetails) : (if c = true then ({ a with EmergencyBrake := true } : model_StatusSignDetails) else a) = { a with EmergencyBrake := (c || a.EmergencyBrake) } := by
  cases c <;> rfl

theorem status_step_LaneOffset (c : Bool) (a : model_StatusSignDetails) : (if c = true then ({ a with LaneOffset := true } : model_StatusSignDetails) else a) = { a with LaneOffset := (c || a.LaneOffset) } := by
  cases c <;> rfl

theorem status_step_Oil (c : Bool) (a : model_StatusSignDetails) : (if c = true then ({ a with Oil := true } : model_StatusSignDetails) else a) = { a with Oil := (c || a.Oil) } := by
  cases c <;> rfl

theorem status_step_Electricity (c : Bool) (a : model_StatusSignDetails) : (if c = true then ({ a with Electricity := true } : model_StatusSignDetails) else a) = { a with Electricity := (c || a.Electricity) } := by
  cases c <;> rfl

theorem status_step_VehicleDoor (c : Bool) (a : model_StatusSignDetails) : (if c = true then ({ a with VehicleDoor := true } : model_StatusSignDetails) else a) = { a with VehicleDoor := (c || a.VehicleDoor) } := by
  cases c <;> rfl

theorem status_step_FrontDoor (c : Bool) (a : model_StatusSignDetails) : (if c = true then ({ a with FrontDoor := true } : model_StatusSignDetails) else a) = { a with FrontDoor := (c || a.FrontDoor) } := by
  cases c <;> rfl

theorem status_step_MiddleDoor (c : Bool) (a : model_StatusSignDetails) : (if c = true then ({ a with MiddleDoor := true } : model_StatusSignDetails) else a) = { a with MiddleDoor := (c || a.MiddleDoor) } := by
  cases c <;> rfl

theorem status_step_BackDoor (c : Bool) (a : model_StatusSignDetails) : (if c = true then ({ a with BackDoor := true } : model_StatusSignDetails) else a) = { a with BackDoor := (c || a.BackDoor) } := by
  cases c <;> rfl

theorem status_step_DriverDoor (c : Bool) (a : model_StatusSignDetails) : (if c = true then ({ a with DriverDoor := true } : model_StatusSignDetails) else a) = { a with DriverDoor := (c || a.DriverDoor) } := by
  cases c <;> rfl

theorem status_step_CustomDoor (c : Bool) (a : model_StatusSignDetails) : (if c = true then ({ a with CustomDoor := true } : model_StatusSignDetails) else a) = { a with CustomDoor := (c || a.CustomDoor) } := by
  cases c <;> rfl

theorem status_step_UseGPS (c : Bool) (a : model_StatusSignDetails) : (if c = true then ({ a with UseGPS := true } : model_StatusSignDetails) else a) = { a with UseGPS := (c || a.UseGPS) } := by
  cases c <;> rfl

theorem status_step_UseBD (c : Bool) (a : model_StatusSignDetails) : (if c = true then ({ a with UseBD := true } : model_StatusSignDetails) else a) = { a with UseBD := (c || a.UseBD) } := by
  cases c <;> rfl

theorem status_step_UseGLONASS (c : Bool) (a : model_StatusSignDetails) : (if c = true then ({ a with UseGLONASS := true } : model_StatusSignDetails) else a) = { a with UseGLONASS := (c || a.UseGLONASS) } := by
  cases c <;> rfl

theorem status_step_UseGalileo (c : Bool) (a : model_StatusSignDetails) : (if c = true then ({ a with UseGalileo := true } : model_StatusSignDetails) else a) = { a with UseGalileo := (c || a.UseGalileo) } := by
  cases c <;> rfl

theorem status_step_VehicleRunning (c : Bool) (a : model_StatusSignDetails) : (if c = true then ({ a with VehicleRunning := true } : model_StatusSignDetails) else a) = { a with VehicleRunning := (c || a.VehicleRunning) } := by
  cases c <;> rfl

/-- the load state as the code reads it: characters 23 and 22 of the rendering are bits 8 and 9 of the word; "00" → 0,
(bit 8 clear, bit 9 set) → 1, (bit 8 set, bit 9 clear) → 2, "11" → 3 -/
def cargoOf (b8 b9 : Bool) : UInt8 := if !b8 && !b9 then 0 else if !b8 && b9 then 1 else if b8 && !b9 then 2 else 3

/-- the status word in closed form -/
def statusOf (w : Nat) : model_StatusSignDetails :=
  { ACC := w.testBit 0, Location := w.testBit 1, South := w.testBit 2, East := w.testBit 3, Suspended := w.testBit 4, Encryption := w.testBit 5, EmergencyBrake := w.testBit 6, LaneOffset := w.testBit 7, Cargo := cargoOf (w.testBit 8) (w.testBit 9), Oil := w.testBit 10, Electricity := w.testBit 11, VehicleDoor := w.testBit 12, FrontDoor := w.testBit 13, MiddleDoor := w.testBit 14, BackDoor := w.testBit 15, DriverDoor := w.testBit 16, CustomDoor := w.testBit 17, UseGPS := w.testBit 18, UseBD := w.testBit 19, UseGLONASS := w.testBit 20, UseGalileo := w.testBit 21, VehicleRunning := w.testBit 22 }

theorem StatusSignDetails_parse_eq (fuel : Nat) (a : model_StatusSignDetails) (v : UInt32) :
    model_StatusSignDetails_parse fuel a v = X.ok (statusOf v.toNat) := by
  unfold model_StatusSignDetails_parse
  simp only [idx_bitsN, Int.reduceToNat, Nat.reduceLT, Nat.reduceSub, Int.reduceLE, and_self, if_true, X.bind_ok, char_is_one, char_is_zero, ite_ok,
    status_step_ACC, status_step_Location, status_step_South, status_step_East, status_step_Suspended, status_step_Encryption, status_step_EmergencyBrake, status_step_LaneOffset, status_step_Oil, status_step_Electricity, status_step_VehicleDoor, status_step_FrontDoor, status_step_MiddleDoor, status_step_BackDoor, status_step_DriverDoor, status_step_CustomDoor, status_step_UseGPS, status_step_UseBD, status_step_UseGLONASS, status_step_UseGalileo, status_step_VehicleRunning]
  unfold statusOf
  generalize v.toNat.testBit 8 = b8
  generalize v.toNat.testBit 9 = b9
  cases b8 <;> cases b9 <;> simp [statusOf, cargoOf, model_StatusSignDetails.zero]

/-! ### the 28-byte base block of a location report -/

/-- the base block in closed form: big-endian words at the standard's offsets, the flag records of the two words, the
BCD time rendered by `BCD2Time` -/
def locOf (fuel : Nat) (b : Bytes) : model_T0x0200LocationItem :=
  { AlarmSign := u32v (b.take 4), StatusSign := u32v ((b.drop 4).take 4), Latitude := u32v ((b.drop 8).take 4),
    Longitude := u32v ((b.drop 12).take 4), Altitude := u16v ((b.drop 16).take 2), Speed := u16v ((b.drop 18).take 2),
    Direction := u16v ((b.drop 20).take 2), DateTime := bcdTimeV fuel ((b.drop 22).take 6),
    AlarmSignDetails := alarmOf (u32v (b.take 4)).toNat, StatusSignDetails := statusOf (u32v ((b.drop 4).take 4)).toNat }

theorem LocationItem_parse_eq (fuel : Nat) (tl : model_T0x0200LocationItem) (b : Bytes) (h28 : 28 ≤ b.length) (hf : 6 < fuel) :
    model_T0x0200LocationItem_parse fuel tl b = X.ok (locOf fuel b, none) := by
  have c : decide (len b < (28 : Int)) = false := by simp; omega
  simp only [model_T0x0200LocationItem_parse, c, Bool.false_eq_true, if_false, model_T0x0200LocationItem_parse_j1, sliceTo]
  rw [slice_int b 0 4 (by omega)]; simp only [X.bind_ok]
  rw [u32_ite, if_pos (by simp only [List.length_take, List.length_drop]; omega)]; simp only [X.bind_ok, AlarmSignDetails_parse_eq]
  rw [slice_int b 4 8 (by omega)]; simp only [X.bind_ok]
  rw [u32_ite, if_pos (by simp only [List.length_take, List.length_drop]; omega)]; simp only [X.bind_ok, StatusSignDetails_parse_eq]
  rw [slice_int b 8 12 (by omega)]; simp only [X.bind_ok]
  rw [u32_ite, if_pos (by simp only [List.length_take, List.length_drop]; omega)]; simp only [X.bind_ok]
  rw [slice_int b 12 16 (by omega)]; simp only [X.bind_ok]
  rw [u32_ite, if_pos (by simp only [List.length_take, List.length_drop]; omega)]; simp only [X.bind_ok]
  rw [slice_int b 16 18 (by omega)]; simp only [X.bind_ok]
  rw [u16_ite, if_pos (by simp only [List.length_take, List.length_drop]; omega)]; simp only [X.bind_ok]
  rw [slice_int b 18 20 (by omega)]; simp only [X.bind_ok]
  rw [u16_ite, if_pos (by simp only [List.length_take, List.length_drop]; omega)]; simp only [X.bind_ok]
  rw [slice_int b 20 22 (by omega)]; simp only [X.bind_ok]
  rw [u16_ite, if_pos (by simp only [List.length_take, List.length_drop]; omega)]; simp only [X.bind_ok]
  rw [slice_int b 22 28 (by omega)]; simp only [X.bind_ok]
  rw [BCD2Time_ok fuel _ (by simp only [List.length_take, List.length_drop]; omega)]
  simp [locOf]

theorem LocationItem_parse_short (fuel : Nat) (tl : model_T0x0200LocationItem) (b : Bytes) (h : b.length < 28) :
    ∃ e, model_T0x0200LocationItem_parse fuel tl b = X.ok (tl, some e) := by
  have c : decide (len b < (28 : Int)) = true := by simp; omega
  exact ⟨"ErrBodyLengthInconsistency", by simp only [model_T0x0200LocationItem_parse, c, if_true]⟩

/-! ### 0x0801 multimedia upload and its response -/

theorem T0x0801_Parse_eq (fuel : Nat) (t : model_T0x0801) (j : jt808_JTMessage) (h36 : 36 ≤ j.Body.length) (hf : 6 < fuel) :
    model_T0x0801_Parse fuel t j = X.ok ({ t with MultimediaID := u32v (j.Body.take 4), MultimediaType := j.Body.getD 4 0, MultimediaFormatEncode := j.Body.getD 5 0, EventItemEncode := j.Body.getD 6 0, ChannelID := j.Body.getD 7 0, T0x0200LocationItem := locOf fuel ((j.Body.drop 8).take 28), MultimediaPackage := j.Body.drop 36 }, none) := by
  have c : decide (len j.Body < (36 : Int)) = false := by simp; omega
  simp only [model_T0x0801_Parse, c, Bool.false_eq_true, if_false, model_T0x0801_Parse_j1]
  rw [slice_int j.Body 0 4 (by omega)]; simp only [X.bind_ok]
  rw [u32_ite, if_pos (by simp only [List.length_take, List.length_drop]; omega)]; simp only [X.bind_ok]
  simp only [idx_ite]
  rw [if_pos (by omega), if_pos (by omega), if_pos (by omega), if_pos (by omega)]; simp only [X.bind_ok]
  rw [slice_int j.Body 8 36 (by omega)]; simp only [X.bind_ok]
  rw [LocationItem_parse_eq fuel _ _ (by simp only [List.length_take, List.length_drop]; omega) hf]
  simp only [X.bind_ok]
  have hs : sliceFrom j.Body (36 : Int) = X.ok (j.Body.drop 36) := sliceFrom_ok j.Body 36 (by omega)
  rw [hs]
  simp

theorem T0x0801_Parse_short (fuel : Nat) (t : model_T0x0801) (j : jt808_JTMessage) (h : j.Body.length < 36) :
    model_T0x0801_Parse fuel t j = X.ok (t, some "ErrBodyLengthInconsistency") := by
  have c : decide (len j.Body < (36 : Int)) = true := by simp; omega
  simp only [model_T0x0801_Parse, c, if_true]

/-- **multimedia response**: `T0x0801.ReplyBody` parses the upload and answers with the four bytes of its multimedia ID -/
theorem T0x0801_ReplyBody_eq (fuel : Nat) (t : model_T0x0801) (j : jt808_JTMessage) (h36 : 36 ≤ j.Body.length) (hf : 6 < fuel) :
    ∃ t', model_T0x0801_ReplyBody fuel t j = X.ok (t', Go.be32 (u32v (j.Body.take 4)), none) := by
  simp only [model_T0x0801_ReplyBody, T0x0801_Parse_eq fuel t j h36 hf, X.bind_ok, model_P0x8800_Encode]
  simp [make, putU32At, model_P0x8800.zero]

/-- a multimedia upload too short to parse is still answered — with the ID the handler holds from the previous upload
on the connection (`_ = t.Parse(jtMsg)`: the error is ignored) -/
theorem T0x0801_ReplyBody_short (fuel : Nat) (t : model_T0x0801) (j : jt808_JTMessage) (h : j.Body.length < 36) :
    model_T0x0801_ReplyBody fuel t j = X.ok (t, Go.be32 t.MultimediaID, none) := by
  simp only [model_T0x0801_ReplyBody, T0x0801_Parse_short fuel t j h, X.bind_ok, model_P0x8800_Encode]
  simp [make, putU32At, model_P0x8800.zero]

end JT.Gen.GoModel
