import JT.Model.Pipe
/-! Inductive invariants of the reader/writer pipeline (helper lemmas for C06). -/
namespace JT.Pipe
structure Inv (s : St) : Prop where
  wf : WF s.log
  read_lt : ∀ i, Ev.readcb i ∈ s.log ↔ i < s.next
  sw_lt : ∀ i, Ev.sockwrite i ∈ s.log → i < s.next
  place : ∀ i, i < s.next → (Ev.writecb i ∈ s.log ∨ s.whold = some i ∨ i ∈ s.queue ∨ s.rhold = some i)
  rhold_new : ∀ i, s.rhold = some i → i < s.next ∧ Ev.sockwrite i ∉ s.log ∧ i ∉ s.queue
  queue_new : ∀ i, i ∈ s.queue → i < s.next ∧ Ev.sockwrite i ∉ s.log
  queue_nodup : s.queue.Nodup
  whold_st : ∀ i, s.whold = some i → Ev.sockwrite i ∈ s.log ∧ Ev.writecb i ∉ s.log
  wcb_sw : ∀ i, Ev.writecb i ∈ s.log → Ev.sockwrite i ∈ s.log

theorem inv_init : Inv init := by
  refine ⟨trivial, ?_, ?_, ?_, ?_, ?_, ?_, ?_, ?_⟩ <;> simp [init]

theorem inv_step {n cap : Nat} {s t : St} (h : Inv s) (st : Step n cap s t) : Inv t := by
  obtain ⟨wf, rl, sl, pl, rh, qn, qd, wh, ws⟩ := h
  cases st with
  | r1 hr hn =>
    refine ⟨⟨?_, wf⟩, ?_, ?_, ?_, ?_, ?_, qd, ?_, ?_⟩
    · show Ev.readcb s.next ∉ s.log
      intro hm; have := (rl s.next).mp hm; omega
    · intro i
      show Ev.readcb i ∈ Ev.readcb s.next :: s.log ↔ i < s.next + 1
      simp only [List.mem_cons, Ev.readcb.injEq]
      constructor
      · rintro (h1 | h1)
        · omega
        · have := (rl i).mp h1; omega
      · intro hi
        by_cases he : i = s.next
        · exact Or.inl he
        · exact Or.inr ((rl i).mpr (by omega))
    · intro i hi
      show i < s.next + 1
      simp only [List.mem_cons, reduceCtorEq, false_or] at hi
      have := sl i hi; omega
    · intro i hi
      have hi' : i < s.next + 1 := hi
      show Ev.writecb i ∈ Ev.readcb s.next :: s.log ∨ s.whold = some i ∨ i ∈ s.queue ∨ some s.next = some i
      simp only [List.mem_cons, reduceCtorEq, false_or]
      by_cases he : i = s.next
      · right; right; right; rw [he]
      · rcases pl i (by omega) with h1 | h1 | h1 | h1
        · exact Or.inl h1
        · exact Or.inr (Or.inl h1)
        · exact Or.inr (Or.inr (Or.inl h1))
        · rw [hr] at h1; cases h1
    · intro i hi
      have hi' : some s.next = some i := hi
      simp only [Option.some.injEq] at hi'
      subst hi'
      refine ⟨by show s.next < s.next + 1; omega, ?_, ?_⟩
      · show Ev.sockwrite s.next ∉ Ev.readcb s.next :: s.log
        simp only [List.mem_cons, reduceCtorEq, false_or]
        intro hm; have := sl _ hm; omega
      · intro hm; have := (qn _ hm).1; omega
    · intro i hi
      obtain ⟨a, b⟩ := qn i hi
      exact ⟨by show i < s.next + 1; omega, by show Ev.sockwrite i ∉ Ev.readcb s.next :: s.log; simp [b]⟩
    · intro i hi
      obtain ⟨a, b⟩ := wh i hi
      exact ⟨by show Ev.sockwrite i ∈ Ev.readcb s.next :: s.log; simp [a],
             by show Ev.writecb i ∉ Ev.readcb s.next :: s.log; simp [b]⟩
    · intro i hi
      have hi' : Ev.writecb i ∈ Ev.readcb s.next :: s.log := hi
      simp only [List.mem_cons, reduceCtorEq, false_or] at hi'
      show Ev.sockwrite i ∈ Ev.readcb s.next :: s.log
      simp [ws i hi']
  | r2 i hr hc =>
    obtain ⟨r1, r2, r3⟩ := rh i hr
    refine ⟨wf, rl, sl, ?_, ?_, ?_, ?_, wh, ws⟩
    · intro j hj
      show Ev.writecb j ∈ s.log ∨ s.whold = some j ∨ j ∈ s.queue ++ [i] ∨ (none : Option Nat) = some j
      rcases pl j hj with h1 | h1 | h1 | h1
      · exact Or.inl h1
      · exact Or.inr (Or.inl h1)
      · exact Or.inr (Or.inr (Or.inl (by simp [h1])))
      · rw [hr] at h1; simp only [Option.some.injEq] at h1; subst h1
        exact Or.inr (Or.inr (Or.inl (by simp)))
    · intro j hj; cases hj
    · intro j hj
      have hj' : j ∈ s.queue ++ [i] := hj
      simp only [List.mem_append, List.mem_singleton] at hj'
      rcases hj' with h1 | h1
      · exact qn j h1
      · subst h1; exact ⟨r1, r2⟩
    · show (s.queue ++ [i]).Nodup
      rw [List.nodup_append]
      refine ⟨qd, by simp, ?_⟩
      intro a ha b hb
      simp only [List.mem_singleton] at hb; subst hb
      intro he; subst he; exact r3 ha
  | w1 i q hw hq =>
    have hiq : i ∈ s.queue := by rw [hq]; simp
    obtain ⟨q1, q2⟩ := qn i hiq
    have hnd : (i :: q).Nodup := by rw [← hq]; exact qd
    rw [List.nodup_cons] at hnd
    refine ⟨⟨?_, wf⟩, ?_, ?_, ?_, ?_, ?_, hnd.2, ?_, ?_⟩
    · exact ⟨(rl i).mpr q1, q2⟩
    · intro j
      show Ev.readcb j ∈ Ev.sockwrite i :: s.log ↔ j < s.next
      simp only [List.mem_cons, reduceCtorEq, false_or]; exact rl j
    · intro j hj
      have hj' : Ev.sockwrite j ∈ Ev.sockwrite i :: s.log := hj
      simp only [List.mem_cons, Ev.sockwrite.injEq] at hj'
      rcases hj' with h1 | h1
      · subst h1; exact q1
      · exact sl j h1
    · intro j hj
      show Ev.writecb j ∈ Ev.sockwrite i :: s.log ∨ some i = some j ∨ j ∈ q ∨ s.rhold = some j
      simp only [List.mem_cons, reduceCtorEq, false_or]
      rcases pl j hj with h1 | h1 | h1 | h1
      · exact Or.inl h1
      · rw [hw] at h1; cases h1
      · rw [hq] at h1; simp only [List.mem_cons] at h1
        rcases h1 with h2 | h2
        · subst h2; exact Or.inr (Or.inl rfl)
        · exact Or.inr (Or.inr (Or.inl h2))
      · exact Or.inr (Or.inr (Or.inr h1))
    · intro j hj
      obtain ⟨a, b, c⟩ := rh j hj
      refine ⟨a, ?_, ?_⟩
      · show Ev.sockwrite j ∉ Ev.sockwrite i :: s.log
        simp only [List.mem_cons, Ev.sockwrite.injEq, not_or]
        refine ⟨?_, b⟩
        intro he; subst he; exact c hiq
      · intro hm; exact c (by rw [hq]; simp [hm])
    · intro j hj
      have hjq : j ∈ s.queue := by rw [hq]; simp [hj]
      obtain ⟨a, b⟩ := qn j hjq
      refine ⟨a, ?_⟩
      show Ev.sockwrite j ∉ Ev.sockwrite i :: s.log
      simp only [List.mem_cons, Ev.sockwrite.injEq, not_or]
      refine ⟨?_, b⟩
      intro he; subst he; exact hnd.1 hj
    · intro j hj
      have hj' : some i = some j := hj
      simp only [Option.some.injEq] at hj'; subst hj'
      refine ⟨by show Ev.sockwrite i ∈ Ev.sockwrite i :: s.log; simp, ?_⟩
      show Ev.writecb i ∉ Ev.sockwrite i :: s.log
      simp only [List.mem_cons, reduceCtorEq, false_or]
      intro hm; exact q2 (ws i hm)
    · intro j hj
      have hj' : Ev.writecb j ∈ Ev.sockwrite i :: s.log := hj
      simp only [List.mem_cons, reduceCtorEq, false_or] at hj'
      show Ev.sockwrite j ∈ Ev.sockwrite i :: s.log
      simp [ws j hj']
  | w2 i hw =>
    obtain ⟨w1, w2⟩ := wh i hw
    refine ⟨⟨⟨w1, w2⟩, wf⟩, ?_, ?_, ?_, ?_, ?_, qd, ?_, ?_⟩
    · intro j
      show Ev.readcb j ∈ Ev.writecb i :: s.log ↔ j < s.next
      simp only [List.mem_cons, reduceCtorEq, false_or]; exact rl j
    · intro j hj
      have hj' : Ev.sockwrite j ∈ Ev.writecb i :: s.log := hj
      simp only [List.mem_cons, reduceCtorEq, false_or] at hj'
      exact sl j hj'
    · intro j hj
      show Ev.writecb j ∈ Ev.writecb i :: s.log ∨ (none : Option Nat) = some j ∨ j ∈ s.queue ∨ s.rhold = some j
      simp only [List.mem_cons, Ev.writecb.injEq]
      rcases pl j hj with h1 | h1 | h1 | h1
      · exact Or.inl (Or.inr h1)
      · rw [hw] at h1; simp only [Option.some.injEq] at h1; exact Or.inl (Or.inl h1.symm)
      · exact Or.inr (Or.inr (Or.inl h1))
      · exact Or.inr (Or.inr (Or.inr h1))
    · intro j hj
      obtain ⟨a, b, c⟩ := rh j hj
      exact ⟨a, by show Ev.sockwrite j ∉ Ev.writecb i :: s.log; simp [b], c⟩
    · intro j hj
      obtain ⟨a, b⟩ := qn j hj
      exact ⟨a, by show Ev.sockwrite j ∉ Ev.writecb i :: s.log; simp [b]⟩
    · intro j hj; cases hj
    · intro j hj
      have hj' : Ev.writecb j ∈ Ev.writecb i :: s.log := hj
      simp only [List.mem_cons, Ev.writecb.injEq] at hj'
      show Ev.sockwrite j ∈ Ev.writecb i :: s.log
      rcases hj' with h1 | h1
      · subst h1; simp [w1]
      · simp [ws j h1]

/-- **every reachable state, under every interleaving of reader and writer** -/
theorem inv_reach {n cap : Nat} {s : St} (h : Reach n cap s) : Inv s := by
  induction h with
  | init => exact inv_init
  | step _ st ih => exact inv_step ih st

theorem mem_sws (log : List Ev) (i : Nat) : i ∈ sws log ↔ Ev.sockwrite i ∈ log := by
  induction log with
  | nil => simp [sws]
  | cons e r ih =>
    cases e with
    | readcb j => simp [sws, ih]
    | sockwrite j => simp [sws, ih]
    | writecb j => simp [sws, ih]

/-- ordering invariant: written < queued (ascending) < held by the reader -/
structure Ord (s : St) : Prop where
  sorted : (sws s.log).Pairwise (· > ·)
  w_lt_q : ∀ j q, Ev.sockwrite j ∈ s.log → q ∈ s.queue → j < q
  w_lt_r : ∀ j r, Ev.sockwrite j ∈ s.log → s.rhold = some r → j < r
  q_sorted : s.queue.Pairwise (· < ·)
  q_lt_r : ∀ q r, q ∈ s.queue → s.rhold = some r → q < r

theorem ord_init : Ord init := by
  refine ⟨?_, ?_, ?_, ?_, ?_⟩ <;> simp [init, sws]

theorem ord_step {n cap : Nat} {s t : St} (hi : Inv s) (h : Ord s) (st : Step n cap s t) : Ord t := by
  obtain ⟨so, wq, wr, qs, qr⟩ := h
  cases st with
  | r1 hr hn =>
    refine ⟨?_, ?_, ?_, qs, ?_⟩
    · show (sws (Ev.readcb s.next :: s.log)).Pairwise (· > ·); simpa [sws] using so
    · intro j q hj hq
      have hj' : Ev.sockwrite j ∈ Ev.readcb s.next :: s.log := hj
      simp only [List.mem_cons, reduceCtorEq, false_or] at hj'
      exact wq j q hj' hq
    · intro j r hj hr'
      have hj' : Ev.sockwrite j ∈ Ev.readcb s.next :: s.log := hj
      simp only [List.mem_cons, reduceCtorEq, false_or] at hj'
      have hr'' : some s.next = some r := hr'
      simp only [Option.some.injEq] at hr''; subst hr''
      exact hi.sw_lt j hj'
    · intro q r hq hr'
      have hr'' : some s.next = some r := hr'
      simp only [Option.some.injEq] at hr''; subst hr''
      exact (hi.queue_new q hq).1
  | r2 i hr hc =>
    refine ⟨so, ?_, ?_, ?_, ?_⟩
    · intro j q hj hq
      have hq' : q ∈ s.queue ++ [i] := hq
      simp only [List.mem_append, List.mem_singleton] at hq'
      rcases hq' with h1 | h1
      · exact wq j q hj h1
      · subst h1; exact wr j q hj hr
    · intro j r _ hr'; cases hr'
    · show (s.queue ++ [i]).Pairwise (· < ·)
      rw [List.pairwise_append]
      refine ⟨qs, by simp, ?_⟩
      intro a ha b hb
      simp only [List.mem_singleton] at hb; subst hb
      exact qr a b ha hr
    · intro q r _ hr'; cases hr'
  | w1 i q hw hq =>
    have hiq : i ∈ s.queue := by rw [hq]; simp
    have hqs : (i :: q).Pairwise (· < ·) := by rw [← hq]; exact qs
    rw [List.pairwise_cons] at hqs
    refine ⟨?_, ?_, ?_, hqs.2, ?_⟩
    · show (sws (Ev.sockwrite i :: s.log)).Pairwise (· > ·)
      simp only [sws, List.pairwise_cons]
      refine ⟨?_, so⟩
      intro j hj
      exact wq j i ((mem_sws _ _).mp hj) hiq
    · intro j x hj hx
      have hj' : Ev.sockwrite j ∈ Ev.sockwrite i :: s.log := hj
      simp only [List.mem_cons, Ev.sockwrite.injEq] at hj'
      rcases hj' with h1 | h1
      · subst h1; exact hqs.1 x hx
      · exact wq j x h1 (by rw [hq]; simp [hx])
    · intro j r hj hr'
      have hj' : Ev.sockwrite j ∈ Ev.sockwrite i :: s.log := hj
      simp only [List.mem_cons, Ev.sockwrite.injEq] at hj'
      rcases hj' with h1 | h1
      · subst h1; exact qr j r hiq hr'
      · exact wr j r h1 hr'
    · intro x r hx hr'
      exact qr x r (by rw [hq]; simp [hx]) hr'
  | w2 i hw =>
    refine ⟨?_, ?_, ?_, qs, qr⟩
    · show (sws (Ev.writecb i :: s.log)).Pairwise (· > ·); simpa [sws] using so
    · intro j q hj hq
      have hj' : Ev.sockwrite j ∈ Ev.writecb i :: s.log := hj
      simp only [List.mem_cons, reduceCtorEq, false_or] at hj'
      exact wq j q hj' hq
    · intro j r hj hr'
      have hj' : Ev.sockwrite j ∈ Ev.writecb i :: s.log := hj
      simp only [List.mem_cons, reduceCtorEq, false_or] at hj'
      exact wr j r hj' hr'

theorem ord_reach {n cap : Nat} {s : St} (h : Reach n cap s) : Ord s := by
  induction h with
  | init => exact ord_init
  | step hr st ih => exact ord_step (inv_reach hr) ih st

theorem quiescent_done {n cap : Nat} (hcap : 0 < cap) {s : St} (hr : Reach n cap s) (hq : Quiescent n cap s) :
    s.next = n ∧ ∀ i, i < n → Ev.readcb i ∈ s.log ∧ Ev.sockwrite i ∈ s.log ∧ Ev.writecb i ∈ s.log := by
  have hi := inv_reach hr
  have hw : s.whold = none := by
    cases h : s.whold with
    | none => rfl
    | some i => exact absurd (Step.w2 s i h) (hq _)
  have hqe : s.queue = [] := by
    cases h : s.queue with
    | nil => rfl
    | cons i q => exact absurd (Step.w1 s i q hw h) (hq _)
  have hrh : s.rhold = none := by
    cases h : s.rhold with
    | none => rfl
    | some i => exact absurd (Step.r2 s i h (by rw [hqe]; exact hcap)) (hq _)
  have hle : ∀ {u : St}, Reach n cap u → u.next ≤ n := by
    intro u hu
    induction hu with
    | init => exact Nat.zero_le _
    | step _ st ih => cases st <;> first | exact ih | (show _ + 1 ≤ n; omega)
  have hn : s.next = n := by
    have := hle hr
    apply Classical.byContradiction; intro hne
    exact absurd (Step.r1 s hrh (by omega)) (hq _)
  refine ⟨hn, fun i hlt => ?_⟩
  have hp := hi.place i (by omega)
  rw [hw, hqe, hrh] at hp
  simp only [reduceCtorEq, List.not_mem_nil, or_false] at hp
  exact ⟨(hi.read_lt i).mpr (by omega), hi.wcb_sw i hp, hp⟩
end JT.Pipe
