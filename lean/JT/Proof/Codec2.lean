import JT.Model.Codec2
import JT.Proof.AttStream
/-!
# No `Parse` of `JT/Model/Codec2.lean` panics

For every model `parseX` the theorem `parseX_ne_panic`: no body (and no context) reaches an out-of-range slice or
index — the guards of the Go code are sufficient. The single exception is `T0x0100` whose `switch` on the protocol
version has no `default`: for a version that is none of the three constants no length guard runs at all, so the
theorem carries the hypothesis `ver = 1 ∨ ver = 2 ∨ ver = 3` and `parseT0x0100_panic_ver0` exhibits a panicking
body for version 0 (the zero value of a header that was never decoded; `Header.decode` only ever stores 2 or 3).
-/
namespace JT.Codec2
open JT
open JT.Layout (slice)
open JT.AttStream (idx be32At Dialect dialectOf parseSign slice_eq idx_eq be32At_eq parseSign_ok)

theorem be16At_eq (b : Bytes) (i : Nat) (h : i + 2 ≤ b.length) :
    be16At b i = .ok (beN ((b.drop i).take 2)) := by
  simp only [be16At, slice_eq b i (i + 2) (by omega) h, Res.bind_ok, Res.pure_eq]
  congr 3; omega

theorem slice_len (b : Bytes) (lo hi : Nat) (h1 : lo ≤ hi) (h2 : hi ≤ b.length) :
    ((b.drop lo).take (hi - lo)).length = hi - lo := by
  simp; omega

/-! ### empty bodies -/
theorem parseT0x0002_ne_panic (b : Bytes) : parseT0x0002 b ≠ .panic := by simp [parseT0x0002]
theorem parseP0x8104_ne_panic (b : Bytes) : parseP0x8104 b ≠ .panic := by simp [parseP0x8104]
theorem parseP0x9003_ne_panic (b : Bytes) : parseP0x9003 b ≠ .panic := by simp [parseP0x9003]

/-! ### 0x0102 -/
theorem findIdx_lt (d : Bytes) (p : Byte → Bool) (i : Nat) (h : d.findIdx? p = some i) : i < d.length :=
  (List.findIdx?_eq_some_iff_getElem.mp h).1

theorem parseT0x0102_ne_panic (ver : Nat) (b : Bytes) : parseT0x0102 ver b ≠ .panic := by
  unfold parseT0x0102
  split
  · split
    · simp
    · rw [idx_eq b 0 (by omega)]
      simp only [Res.bind_ok]
      split
      · simp
      · rw [slice_eq b 1 _ (by omega) (by omega), Res.bind_ok, slice_eq b _ _ (by omega) (by omega), Res.bind_ok,
          slice_eq b _ _ (by omega) (by omega), Res.bind_ok]
        split
        · next i hi =>
          have := findIdx_lt _ _ i hi
          rw [slice_eq _ 0 i (by omega) (by omega)]
          simp
        · simp
  · simp

/-! ### 0x0100 -/
theorem t0100Fields_ok (mLen tLen tIDLen : Nat) (b : Bytes) (h : 4 + mLen + tLen + tIDLen + 1 ≤ b.length) :
    t0100Fields mLen tLen tIDLen b = .ok () := by
  unfold t0100Fields
  rw [slice_eq b 0 2 (by omega) (by omega), Res.bind_ok, slice_eq b 2 4 (by omega) (by omega), Res.bind_ok,
    slice_eq b 4 _ (by omega) (by omega), Res.bind_ok, slice_eq b _ _ (by omega) (by omega), Res.bind_ok,
    slice_eq b _ _ (by omega) (by omega), Res.bind_ok, idx_eq b _ (by omega), Res.bind_ok,
    slice_eq b _ b.length (by omega) (by omega)]
  rfl

theorem parseT0x0100_ne_panic (ver : Nat) (hv : ver = 1 ∨ ver = 2 ∨ ver = 3) (b : Bytes) :
    parseT0x0100 ver b ≠ .panic := by
  unfold parseT0x0100 t0100Version
  by_cases h3 : ver = 3
  · simp only [h3, if_true]
    by_cases hl : b.length < 76
    · simp [hl]
    · simp only [hl, and_false, if_false]
      rw [t0100Fields_ok _ _ _ b (by omega)]
      simp
  · have h12 : ver = 2 ∨ ver = 1 := by omega
    simp only [h3, if_false, h12, if_true]
    by_cases h36 : b.length > 36
    · simp only [h36, if_true]
      rw [t0100Fields_ok _ _ _ b (by omega)]
      simp
    · simp only [h36, if_false]
      by_cases h25 : b.length < 25
      · simp [h25]
      · simp only [h25, and_false, if_false]
        rw [t0100Fields_ok _ _ _ b (by omega)]
        simp

/-- the `switch` without `default`: on a header whose `ProtocolVersion` is none of the three constants (here the zero
value) a fresh `T0x0100` runs no length guard and `body[:2]` panics on the empty body -/
example : parseT0x0100 0 [] = .panic := by decide
theorem parseT0x0100_panic_ver0 : parseT0x0100 0 [] = .panic := by decide
/-- … and so does a 24-byte body (`body[24]`) -/
example : parseT0x0100 0 (List.replicate 24 0) = .panic := by decide

/-! ### 0x8100 -/
theorem parseP0x8100_ne_panic (b : Bytes) : parseP0x8100 b ≠ .panic := by
  unfold parseP0x8100
  split
  · simp
  · rw [slice_eq b 0 2 (by omega) (by omega), Res.bind_ok, idx_eq b 2 (by omega), Res.bind_ok,
      slice_eq b 3 b.length (by omega) (by omega)]
    simp

/-! ### 0x9101 -/
theorem parseP0x9101_ne_panic (b : Bytes) : parseP0x9101 b ≠ .panic := by
  unfold parseP0x9101
  split
  · simp
  · rw [idx_eq b 0 (by omega)]
    simp only [Res.bind_ok]
    split
    · simp
    · next _ hl =>
      have hl' : b.length = 1 + b[0].toNat + 7 := by omega
      rw [slice_eq b 1 _ (by omega) (by omega), Res.bind_ok, be16At_eq b _ (by omega), Res.bind_ok,
        be16At_eq b _ (by omega), Res.bind_ok, idx_eq b _ (by omega), Res.bind_ok, idx_eq b _ (by omega), Res.bind_ok,
        idx_eq b _ (by omega)]
      simp

/-! ### 0x9201 -/
theorem parseP0x9201_ne_panic (b : Bytes) : parseP0x9201 b ≠ .panic := by
  unfold parseP0x9201
  split
  · simp
  · rw [idx_eq b 0 (by omega)]
    simp only [Res.bind_ok]
    split
    · simp
    · next _ hl =>
      have hl' : b.length = 1 + b[0].toNat + 22 := by omega
      rw [slice_eq b 1 _ (by omega) (by omega), Res.bind_ok, be16At_eq b _ (by omega), Res.bind_ok,
        be16At_eq b _ (by omega), Res.bind_ok, idx_eq b _ (by omega), Res.bind_ok, idx_eq b _ (by omega), Res.bind_ok,
        idx_eq b _ (by omega), Res.bind_ok, idx_eq b _ (by omega), Res.bind_ok, idx_eq b _ (by omega), Res.bind_ok,
        idx_eq b _ (by omega), Res.bind_ok, slice_eq b _ _ (by omega) (by omega), Res.bind_ok,
        slice_eq b _ _ (by omega) (by omega)]
      simp

/-! ### 0x9206 -/
theorem parseP0x9206_ne_panic (b : Bytes) : parseP0x9206 b ≠ .panic := by
  unfold parseP0x9206
  split
  · simp
  · rw [idx_eq b 0 (by omega)]
    simp only [Res.bind_ok]
    split
    · simp
    · rw [slice_eq b 1 _ (by omega) (by omega), Res.bind_ok, slice_eq b _ _ (by omega) (by omega), Res.bind_ok,
        idx_eq b _ (by omega)]
      simp only [Res.bind_ok]
      split
      · simp
      · rw [slice_eq b _ _ (by omega) (by omega), Res.bind_ok, idx_eq b _ (by omega)]
        simp only [Res.bind_ok]
        split
        · simp
        · rw [slice_eq b _ _ (by omega) (by omega), Res.bind_ok, idx_eq b _ (by omega)]
          simp only [Res.bind_ok]
          split
          · simp
          · next _ _ _ _ hl =>
            rw [slice_eq b _ _ (by omega) (by omega), Res.bind_ok, idx_eq b _ (by omega), Res.bind_ok,
              slice_eq b _ _ (by omega) (by omega), Res.bind_ok, slice_eq b _ _ (by omega) (by omega), Res.bind_ok,
              slice_eq b _ _ (by omega) (by omega), Res.bind_ok, idx_eq b _ (by omega), Res.bind_ok,
              idx_eq b _ (by omega), Res.bind_ok, idx_eq b _ (by omega), Res.bind_ok, idx_eq b _ (by omega)]
            simp

/-! ### 0x1205 -/
theorem t1205Items_ok (b : Bytes) : ∀ (n start : Nat), start + n * 28 ≤ b.length → t1205Items b n start = .ok ()
  | 0, _, _ => by simp [t1205Items]
  | n + 1, start, h => by
    unfold t1205Items
    rw [slice_eq b start _ (by omega) (by omega), Res.bind_ok]
    have hlen : ((b.drop start).take (start + 28 - start)).length = 28 := by
      rw [slice_len b start (start + 28) (by omega) (by omega)]; omega
    generalize (b.drop start).take (start + 28 - start) = cur at hlen
    rw [idx_eq cur 0 (by omega), Res.bind_ok, slice_eq cur 1 7 (by omega) (by omega), Res.bind_ok,
      slice_eq cur 7 13 (by omega) (by omega), Res.bind_ok, slice_eq cur 13 21 (by omega) (by omega), Res.bind_ok,
      idx_eq cur 21 (by omega), Res.bind_ok, idx_eq cur 22 (by omega), Res.bind_ok, idx_eq cur 23 (by omega),
      Res.bind_ok, slice_eq cur 24 28 (by omega) (by omega), Res.bind_ok]
    exact t1205Items_ok b n (start + 28) (by omega)

theorem parseT0x1205_ne_panic (b : Bytes) : parseT0x1205 b ≠ .panic := by
  unfold parseT0x1205
  split
  · simp
  · rw [slice_eq b 0 2 (by omega) (by omega), Res.bind_ok, be32At_eq b 2 (by omega)]
    simp only [Res.bind_ok]
    split
    · simp
    · next _ hl =>
      rw [t1205Items_ok b _ 6 (by omega)]
      simp

/-! ### fixed-length bodies -/
theorem parseP0x9205_ne_panic (b : Bytes) : parseP0x9205 b ≠ .panic := by
  unfold parseP0x9205
  split
  · simp
  · rw [idx_eq b 0 (by omega), Res.bind_ok, slice_eq b _ _ (by omega) (by omega), Res.bind_ok,
      slice_eq b _ _ (by omega) (by omega), Res.bind_ok, slice_eq b _ _ (by omega) (by omega), Res.bind_ok,
      idx_eq b 21 (by omega), Res.bind_ok, idx_eq b 22 (by omega), Res.bind_ok, idx_eq b 23 (by omega)]
    simp

theorem parseP0x9202_ne_panic (b : Bytes) : parseP0x9202 b ≠ .panic := by
  unfold parseP0x9202
  split
  · simp
  · rw [idx_eq b 0 (by omega), Res.bind_ok, idx_eq b 1 (by omega), Res.bind_ok, idx_eq b 2 (by omega), Res.bind_ok,
      slice_eq b 3 9 (by omega) (by omega)]
    simp

theorem parseP0x8801_ne_panic (b : Bytes) : parseP0x8801 b ≠ .panic := by
  unfold parseP0x8801
  split
  · simp
  · rw [idx_eq b 0 (by omega), Res.bind_ok, slice_eq b 1 3 (by omega) (by omega), Res.bind_ok,
      slice_eq b 3 5 (by omega) (by omega), Res.bind_ok, idx_eq b 5 (by omega), Res.bind_ok,
      idx_eq b 6 (by omega), Res.bind_ok, idx_eq b 7 (by omega), Res.bind_ok, idx_eq b 8 (by omega), Res.bind_ok,
      idx_eq b 9 (by omega), Res.bind_ok, idx_eq b 10 (by omega), Res.bind_ok, idx_eq b 11 (by omega)]
    simp

theorem parseT0x1005_ne_panic (b : Bytes) : parseT0x1005 b ≠ .panic := by
  unfold parseT0x1005
  split
  · simp
  · rw [slice_eq b 0 6 (by omega) (by omega), Res.bind_ok, slice_eq b 6 12 (by omega) (by omega), Res.bind_ok,
      slice_eq b 12 14 (by omega) (by omega), Res.bind_ok, slice_eq b 14 16 (by omega) (by omega)]
    simp

/-! ### 0x9208 -/
theorem parseP0x9208_ne_panic (dl : Dialect) (b : Bytes) : parseP0x9208 dl b ≠ .panic := by
  unfold parseP0x9208
  simp only
  split
  · simp
  · rw [idx_eq b 0 (by omega)]
    simp only [Res.bind_ok]
    split
    · simp
    · rw [slice_eq b 1 _ (by omega) (by omega), Res.bind_ok, slice_eq b _ _ (by omega) (by omega), Res.bind_ok,
        slice_eq b _ _ (by omega) (by omega), Res.bind_ok, slice_eq b _ _ (by omega) (by omega), Res.bind_ok,
        parseSign_ok, Res.bind_ok, slice_eq b _ _ (by omega) (by omega), Res.bind_ok,
        slice_eq b _ b.length (by omega) (by omega)]
      simp

/-- the five dialects by number, as the validation driver calls the model -/
theorem parseP0x9208_ne_panic_no (n : Nat) (b : Bytes) : parseP0x9208 (dialectOf n) b ≠ .panic :=
  parseP0x9208_ne_panic _ b

end JT.Codec2
