import JT.Model.Codec3
import JT.Proof.Codec2
import JT.Proof.Layout
/-!
# Message body round trip for seven bodies of `protocol/model` (value level)

For every type `X` of `JT/Model/Codec3.lean`

* law (1), re-encode:        `encode_parseX : parseX b = .ok v → encodeX v = b`
* law (2), parse-of-encode:  `parse_encodeX : WFX v → parseX (encodeX v) = .ok v`
* `parseX_void`: forgetting the value gives the outcome-only model of `JT/Model/Codec2.lean`, hence
  `parseX_ne_panic` by the theorems of `JT/Proof/Codec2.lean` (`P0x9102` and `P0x9207` have no model there: their
  `parseX_ne_panic` is proved directly).

**Law (1) is FALSE at HEAD for the three types with a BCD time field** (`P0x9201`, `P0x9206`, `T0x1205`): `Parse` accepts
any six bytes, `BCD2Time` renders the nibble `0xA` as `':'`, and `Time2BCD` deletes every `':'` of the string, so
`Encode` gives back other bytes (of another length, in general). For these types law (1) carries the hypothesis
`TimesX v` — no nibble of a time field is `0xA` — which is the exact condition (`reTime_eq_iff`), and a concrete
accepted body that does not re-encode to itself is exhibited (`reenc_P0x9201_changes`, `reenc_P0x9206_changes`,
`reenc_T0x1205_changes`, proved by `decide`; hence `encode_parseX_unconditional_false`). Law (2) carries the same
condition inside `WFX` (`TimeOK`: six bytes, no nibble `0xA`).
-/
namespace JT.Codec3
open JT
open JT.Layout (slice beN_toBE toBE_beN toBE_length beN_lt)
open JT.AttStream (idx be32At slice_eq idx_eq be32At_eq)
open JT.Codec2 (be16At be16At_eq)

/-! ### bytes -/
theorem byte_all (P : Byte → Prop) (h : ∀ n, n < 256 → P (UInt8.ofNat n)) (x : Byte) : P x := by
  have := h x.toNat (UInt8.toNat_lt x)
  rwa [ofNat_toNat_byte] at this

set_option maxRecDepth 100000 in
/-- `Time2BCD`'s pair loop undoes `BCD2Time`'s character loop, for EVERY byte (nibbles above 9 included) -/
theorem pack_nibbles (x : Byte) : (((x >>> 4) + 0x30 - 0x30) <<< 4) ||| ((x &&& 0x0F) + 0x30 - 0x30) = x := by
  revert x; apply byte_all; decide
set_option maxRecDepth 100000 in
theorem hi_ne_2D (x : Byte) : (x >>> 4) + 0x30 ≠ 0x2D := by
  revert x; apply byte_all; decide
set_option maxRecDepth 100000 in
theorem lo_ne_2D (x : Byte) : (x &&& 0x0F) + 0x30 ≠ 0x2D := by
  revert x; apply byte_all; decide
set_option maxRecDepth 100000 in
theorem hi_ne_20 (x : Byte) : (x >>> 4) + 0x30 ≠ 0x20 := by
  revert x; apply byte_all; decide
set_option maxRecDepth 100000 in
theorem lo_ne_20 (x : Byte) : (x &&& 0x0F) + 0x30 ≠ 0x20 := by
  revert x; apply byte_all; decide
set_option maxRecDepth 100000 in
theorem hi_ne_3A (x : Byte) : x >>> 4 ≠ 10 → (x >>> 4) + 0x30 ≠ 0x3A := by
  revert x; apply byte_all; decide
set_option maxRecDepth 100000 in
theorem lo_ne_3A (x : Byte) : x &&& 0x0F ≠ 10 → (x &&& 0x0F) + 0x30 ≠ 0x3A := by
  revert x; apply byte_all; decide

theorem len6 (l : Bytes) (h : l.length = 6) : ∃ a b c d e f, l = [a, b, c, d, e, f] := by
  match l, h with
  | [a, b, c, d, e, f], _ => exact ⟨_, _, _, _, _, _, rfl⟩

theorem toBE_one_toNat (x : Byte) : toBE 1 x.toNat = [x] := by
  simpa [beN] using toBE_beN [x]

theorem toBE_one (n : Nat) : toBE 1 n = [UInt8.ofNat n] := by
  simp only [toBE, Nat.pow_zero, Nat.div_one]
  congr 1
  apply UInt8.toNat_inj.mp; simp

theorem toBE_beN' (s : Bytes) (k : Nat) (h : s.length = k) : toBE k (beN s) = s := by
  subst h; exact toBE_beN s

theorem fill_self (s : Bytes) : fill s s.length = s := by simp [fill]

/-! ### `utils.BCD2Time` / `utils.Time2BCD` -/
theorem bcdDigits_cons (x : Byte) (t : Bytes) :
    bcdDigits (x :: t) = ((x >>> 4) + 0x30) :: ((x &&& 0x0F) + 0x30) :: bcdDigits t := by
  simp [bcdDigits]

/-- the pair loop of `Time2BCD` is a left inverse of the character loop of `BCD2Time` on all bytes -/
theorem bcdPairs_digits (r : Bytes) : bcdPairs (bcdDigits r) = r := by
  induction r with
  | nil => rfl
  | cons x t ih => rw [bcdDigits_cons, bcdPairs, pack_nibbles, ih]

/-- **a six-byte time without the nibble `0xA` survives `BCD2Time` then `Time2BCD`** -/
theorem reTime_eq (r : Bytes) (h : TimeOK r) : reTime r = r := by
  obtain ⟨hl, hn⟩ := h
  obtain ⟨a, b, c, d, e, f, rfl⟩ := len6 r hl
  have ha := hn a (by simp)
  have hb := hn b (by simp)
  have hc := hn c (by simp)
  have hd := hn d (by simp)
  have he := hn e (by simp)
  have hf := hn f (by simp)
  have := bcdPairs_digits [a, b, c, d, e, f]
  simp only [bcdDigits, List.flatMap_cons, List.flatMap_nil, List.append_nil, List.cons_append,
    List.nil_append] at this
  simp [reTime, bcd2time, time2bcd, bcdDigits, dropByte, hi_ne_2D, lo_ne_2D, hi_ne_20, lo_ne_20,
    hi_ne_3A _ ha.1, lo_ne_3A _ ha.2, hi_ne_3A _ hb.1, lo_ne_3A _ hb.2, hi_ne_3A _ hc.1, lo_ne_3A _ hc.2,
    hi_ne_3A _ hd.1, lo_ne_3A _ hd.2, hi_ne_3A _ he.1, lo_ne_3A _ he.2, hi_ne_3A _ hf.1, lo_ne_3A _ hf.2]
  exact this

/-- the twelve digit characters of a rendered time, packed back -/
def unTime (s : Bytes) : Bytes :=
  bcdPairs ((s.drop 2).take 2 ++ (s.drop 5).take 2 ++ (s.drop 8).take 2 ++ (s.drop 11).take 2 ++
    (s.drop 14).take 2 ++ (s.drop 17).take 2)

theorem unTime_bcd2time (r : Bytes) (hl : r.length = 6) : unTime (bcd2time r) = r := by
  obtain ⟨a, b, c, d, e, f, rfl⟩ := len6 r hl
  have := bcdPairs_digits [a, b, c, d, e, f]
  simp only [bcdDigits, List.flatMap_cons, List.flatMap_nil, List.append_nil, List.cons_append,
    List.nil_append] at this
  simp [unTime, bcd2time, bcdDigits]
  exact this

/-- **`BCD2Time` is injective on six-byte inputs**: representing the Go string `BCD2Time(r)` by `r` loses nothing -/
theorem bcd2time_inj (r s : Bytes) (hr : r.length = 6) (hs : s.length = 6) (h : bcd2time r = bcd2time s) : r = s := by
  rw [← unTime_bcd2time r hr, ← unTime_bcd2time s hs, h]

/-! #### the condition is exact: every byte that `Time2BCD` emits for a rendered time is free of the nibble `0xA` -/
/-- a character `'0' + nibble` other than `':'` -/
def Good (c : Byte) : Prop := 0x30 ≤ c ∧ c ≤ 0x3F ∧ c ≠ 0x3A
instance (c : Byte) : Decidable (Good c) := by unfold Good; infer_instance

/-- a character of a rendered time: `'0' + nibble`, or one of the separators `'-'`, `' '` -/
def Rendered (c : Byte) : Prop := (0x30 ≤ c ∧ c ≤ 0x3F) ∨ c = 0x2D ∨ c = 0x20
instance (c : Byte) : Decidable (Rendered c) := by unfold Rendered; infer_instance

set_option maxRecDepth 100000 in
theorem hi_rendered (x : Byte) : Rendered ((x >>> 4) + 0x30) := by
  revert x; apply byte_all; decide
set_option maxRecDepth 100000 in
theorem lo_rendered (x : Byte) : Rendered ((x &&& 0x0F) + 0x30) := by
  revert x; apply byte_all; decide
set_option maxRecDepth 100000 in
theorem good_sub (c : Byte) : Good c → c - 0x30 < 16 ∧ c - 0x30 ≠ 10 := by
  revert c; apply byte_all; decide
set_option maxRecDepth 100000 in
theorem nib_pack_lt : ∀ n, n < 16 → ∀ m, m < 16 →
    ((UInt8.ofNat n <<< 4) ||| UInt8.ofNat m) >>> 4 = UInt8.ofNat n ∧
    ((UInt8.ofNat n <<< 4) ||| UInt8.ofNat m) &&& 0x0F = UInt8.ofNat m := by
  decide

theorem pair_noA (a b : Byte) (ha : Good a) (hb : Good b) :
    (((a - 0x30) <<< 4) ||| (b - 0x30)) >>> 4 ≠ 10 ∧ (((a - 0x30) <<< 4) ||| (b - 0x30)) &&& 0x0F ≠ 10 := by
  obtain ⟨a1, a2⟩ := good_sub a ha
  obtain ⟨b1, b2⟩ := good_sub b hb
  generalize a - 0x30 = x at *
  generalize b - 0x30 = y at *
  have hx : x.toNat < 16 := by simpa using UInt8.lt_iff_toNat_lt.mp a1
  have hy : y.toNat < 16 := by simpa using UInt8.lt_iff_toNat_lt.mp b1
  have := nib_pack_lt x.toNat hx y.toNat hy
  rw [ofNat_toNat_byte, ofNat_toNat_byte] at this
  rw [this.1, this.2]
  exact ⟨a2, b2⟩

theorem bcdPairs_noA : ∀ (l : Bytes), (∀ c ∈ l, Good c) → NoA (bcdPairs l)
  | [], _ => by simp [bcdPairs, NoA]
  | [_], _ => by simp [bcdPairs, NoA]
  | a :: b :: r, h => by
    have ih := bcdPairs_noA r (fun c hc => h c (by simp [hc]))
    intro y hy
    simp only [bcdPairs, List.mem_cons] at hy
    rcases hy with rfl | hy
    · exact pair_noA a b (h a (by simp)) (h b (by simp))
    · exact ih y hy

theorem bcd2time_rendered (r : Bytes) (hl : r.length = 6) : ∀ c ∈ bcd2time r, Rendered c := by
  obtain ⟨a, b, c, d, e, f, rfl⟩ := len6 r hl
  have k : Rendered 0x32 ∧ Rendered 0x30 ∧ Rendered 0x2D ∧ Rendered 0x20 ∧ Rendered 0x3A := by decide
  simp [bcd2time, bcdDigits, hi_rendered, lo_rendered, k]

theorem bcd2time_colon (r : Bytes) (hl : r.length = 6) : (bcd2time r).contains 0x3A = true := by
  obtain ⟨a, b, c, d, e, f, rfl⟩ := len6 r hl
  simp [bcd2time, bcdDigits]

theorem good_trim (t : Bytes) (h : ∀ c ∈ t, Good c) : ∀ c ∈ (if t.length = 14 then t.drop 2 else t), Good c := by
  intro c hc
  split at hc
  · exact h c (List.mem_of_mem_drop hc)
  · exact h c hc

theorem good_pad (s : Bytes) (h : ∀ c ∈ s, Good c) : ∀ c ∈ (if s.length % 2 ≠ 0 then 0x30 :: s else s), Good c := by
  intro c hc
  split at hc
  · rcases List.mem_cons.mp hc with rfl | hc
    · decide
    · exact h c hc
  · exact h c hc

/-- whatever the six bytes, `Encode` never emits the nibble `0xA` for a time field -/
theorem reTime_noA (r : Bytes) (hl : r.length = 6) : NoA (reTime r) := by
  have hr := bcd2time_rendered r hl
  have hg : ∀ c ∈ dropByte 0x20 (dropByte 0x3A (dropByte 0x2D (bcd2time r))), Good c := by
    intro c hc
    simp only [dropByte, List.mem_filter, decide_eq_true_eq] at hc
    obtain ⟨⟨⟨hm, h1⟩, h2⟩, h3⟩ := hc
    rcases hr c hm with ⟨h4, h5⟩ | h4 | h4
    · exact ⟨h4, h5, h2⟩
    · exact absurd h4 h1
    · exact absurd h4 h3
  unfold reTime time2bcd
  simp only [bcd2time_colon r hl, if_true]
  exact bcdPairs_noA _ (good_pad _ (good_trim _ hg))

/-- **the hypothesis of law (1) is the smallest one**: a six-byte time field is re-encoded to itself exactly when
none of its nibbles is `0xA` -/
theorem reTime_eq_iff (r : Bytes) (hl : r.length = 6) : reTime r = r ↔ NoA r := by
  constructor
  · intro h
    have := reTime_noA r hl
    rwa [h] at this
  · intro h
    exact reTime_eq r ⟨hl, h⟩

/-- the smallest example: the time `1a 01 02 03 04 05` comes back as SEVEN bytes -/
example : reTime [0x1a, 1, 2, 3, 4, 5] = [0x02, 0x01, 0x01, 0x02, 0x03, 0x04, 0x05] := by decide
/-- `BCD2Time` gives "201:-01-02 03:04:05" for it -/
example : bcd2time [0x1a, 1, 2, 3, 4, 5] =
    [0x32, 0x30, 0x31, 0x3A, 0x2D, 0x30, 0x31, 0x2D, 0x30, 0x32, 0x20, 0x30, 0x33, 0x3A, 0x30, 0x34, 0x3A, 0x30, 0x35] := by
  decide
/-- the other nibbles above 9 do round-trip -/
example : reTime [0xfb, 0xcd, 0xef, 0x3f, 0x3e, 0x3d] = [0xfb, 0xcd, 0xef, 0x3f, 0x3e, 0x3d] := by decide

/-! ### prefix chains (law 1): consecutive slices of `b`, from 0 to `len b`, concatenate to `b` -/
/-- `x` is the prefix of `b` of length `hi` -/
def Pre (b x : Bytes) (hi : Nat) : Prop := x = b.take hi ∧ hi ≤ b.length

theorem Pre.base_take (b : Bytes) (i k : Nat) (h0 : i = 0) (h : i + k ≤ b.length) :
    Pre b ((b.drop i).take k) (i + k) := by
  subst h0; simp [Pre] at *; exact h

theorem Pre.base_idx (b : Bytes) (i : Nat) (hi : i < b.length) (h0 : i = 0) : Pre b [b[i]] (i + 1) := by
  subst h0
  refine ⟨?_, by omega⟩
  cases b with
  | nil => simp at hi
  | cons x t => simp

theorem Pre.step_take (b x : Bytes) (lo i k : Nat) (hp : Pre b x lo) (h0 : lo = i) (h : i + k ≤ b.length) :
    Pre b (x ++ (b.drop i).take k) (i + k) := by
  subst h0
  obtain ⟨rfl, _⟩ := hp
  refine ⟨?_, h⟩
  rw [List.take_add]

theorem Pre.step_idx (b x : Bytes) (lo i : Nat) (hi : i < b.length) (hp : Pre b x lo) (h0 : lo = i) :
    Pre b (x ++ [b[i]]) (i + 1) := by
  subst h0
  obtain ⟨rfl, _⟩ := hp
  refine ⟨?_, by omega⟩
  rw [List.take_add]
  congr 1
  rw [List.drop_eq_getElem_cons hi]; rfl

theorem Pre.finish (b x : Bytes) (hi : Nat) (hp : Pre b x hi) (h : hi = b.length) : x = b := by
  obtain ⟨rfl, _⟩ := hp
  subst h; simp

/-- closes `X₁ ++ X₂ ++ … ++ Xₙ = b` where every `Xₖ` is `(b.drop i).take k` or `[b[i]]` and the pieces are adjacent -/
macro "pre_chain" : tactic =>
  `(tactic| (apply Pre.finish
             repeat (first | apply Pre.step_take | apply Pre.step_idx | apply Pre.base_take | apply Pre.base_idx)
             all_goals omega))

/-! ### pieces of an encoding (law 2) -/
/-- the piece `x` sits in `E` at offset `lo` -/
def At (E : Bytes) (lo : Nat) (x : Bytes) : Prop := ∃ pre post, E = pre ++ x ++ post ∧ pre.length = lo

theorem At.last (p x : Bytes) : At (p ++ x) p.length x := ⟨p, [], by simp, rfl⟩
theorem At.first (x : Bytes) : At x 0 x := ⟨[], [], by simp, rfl⟩
theorem At.left (p y x : Bytes) (lo : Nat) (h : At p lo x) : At (p ++ y) lo x := by
  obtain ⟨pre, post, rfl, hl⟩ := h
  exact ⟨pre, post ++ y, by simp, hl⟩
theorem At.cast {E x : Bytes} {lo' : Nat} (lo : Nat) (h : At E lo' x) (e : lo = lo') : At E lo x := e ▸ h

/-- finds the piece in a left-nested chain `X₁ ++ X₂ ++ … ++ Xₙ` -/
macro "at_tac" : tactic =>
  `(tactic| with_reducible repeat (first | exact At.last _ _ | exact At.first _ | apply At.left))

theorem slice_at {E x : Bytes} {lo : Nat} (h : At E lo x) (lo' hi : Nat) (e1 : lo' = lo) (e2 : hi = lo' + x.length) :
    slice E lo' hi = .ok x := by
  obtain ⟨pre, post, rfl, rfl⟩ := h
  subst e1 e2
  rw [slice_eq _ _ _ (by omega) (by simp)]
  simp

theorem idx_at {E : Bytes} {c : Byte} {lo : Nat} (h : At E lo [c]) (i : Nat) (e : i = lo) : idx E i = .ok c := by
  obtain ⟨pre, post, rfl, rfl⟩ := h
  subst e
  simp [idx]

theorem be16At_at {E x : Bytes} {lo : Nat} (h : At E lo x) (hx : x.length = 2) (i : Nat) (e : i = lo) :
    be16At E i = .ok (beN x) := by
  unfold be16At
  rw [slice_at h _ _ e (by omega)]; rfl

theorem be32At_at {E x : Bytes} {lo : Nat} (h : At E lo x) (hx : x.length = 4) (i : Nat) (e : i = lo) :
    be32At E i = .ok (beN x) := by
  unfold be32At
  rw [slice_at h _ _ e (by omega)]; rfl

/-! ### forgetting the value -/
/-- the outcome class of a result -/
def void {α} : Res α → Res Unit
  | .ok _ => .ok ()
  | .err => .err
  | .panic => .panic

@[simp] theorem void_bind {α β} (x : Res α) (f : α → Res β) : void (x >>= f) = x >>= fun a => void (f a) := by
  cases x <;> rfl
@[simp] theorem void_ok {α} (a : α) : void (.ok a) = .ok () := rfl
@[simp] theorem void_pure {α} (a : α) : void (pure a : Res α) = .ok () := rfl
@[simp] theorem void_err {α} : void (.err : Res α) = .err := rfl
theorem void_ite {α} (c : Prop) [Decidable c] (a b : Res α) : void (if c then a else b) = if c then void a else void b := by
  split <;> rfl
theorem bind_unit {α} (x : Res α) : (x >>= fun _ => Res.ok ()) = void x := by
  cases x <;> rfl
theorem void_ne_panic {α} (x : Res α) (h : void x ≠ .panic) : x ≠ .panic := by
  cases x <;> simp [void] at h ⊢

/-! ### 0x9207 -/
theorem encode_parseP0x9207 (b : Bytes) (v : P0x9207) (h : parseP0x9207 b = .ok v) : encodeP0x9207 v = b := by
  unfold parseP0x9207 at h
  split at h
  · cases h
  · rw [slice_eq b 0 2 (by omega) (by omega), Res.bind_ok, idx_eq b 2 (by omega), Res.bind_ok, Res.pure_eq] at h
    injection h with h
    subst h
    simp only [encodeP0x9207, toBE_one_toNat]
    rw [toBE_beN' _ 2 (by simp; omega)]
    pre_chain

theorem parse_encodeP0x9207 (v : P0x9207) (h : WFP0x9207 v) : parseP0x9207 (encodeP0x9207 v) = .ok v := by
  obtain ⟨h1, h2⟩ := h
  have hlen : (encodeP0x9207 v).length = 3 := by simp [encodeP0x9207, toBE_length]
  generalize hE : encodeP0x9207 v = E at *
  simp only [encodeP0x9207, toBE_one] at hE
  have a0 : At E 0 (toBE 2 v.respondSerialNumber) := At.cast _ (by rw [← hE]; at_tac) (by simp)
  have a1 : At E 2 [UInt8.ofNat v.uploadControl] := At.cast _ (by rw [← hE]; at_tac) (by simp [toBE_length])
  unfold parseP0x9207
  rw [if_neg (by omega), slice_at a0 _ _ rfl (by simp [toBE_length]), Res.bind_ok, idx_at a1 _ rfl, Res.bind_ok,
    Res.pure_eq, beN_toBE 2 _ h1, toNat_ofNat_lt _ h2]

theorem parseP0x9207_ne_panic (b : Bytes) : parseP0x9207 b ≠ .panic := by
  unfold parseP0x9207
  split
  · simp
  · rw [slice_eq b 0 2 (by omega) (by omega), Res.bind_ok, idx_eq b 2 (by omega)]
    simp

/-! ### 0x9102 -/
theorem encode_parseP0x9102 (b : Bytes) (v : P0x9102) (h : parseP0x9102 b = .ok v) : encodeP0x9102 v = b := by
  unfold parseP0x9102 at h
  split at h
  · cases h
  · rw [idx_eq b 0 (by omega), Res.bind_ok, idx_eq b 1 (by omega), Res.bind_ok, idx_eq b 2 (by omega), Res.bind_ok,
      idx_eq b 3 (by omega), Res.bind_ok, Res.pure_eq] at h
    injection h with h
    subst h
    simp only [encodeP0x9102, toBE_one_toNat]
    pre_chain

theorem parse_encodeP0x9102 (v : P0x9102) (h : WFP0x9102 v) : parseP0x9102 (encodeP0x9102 v) = .ok v := by
  obtain ⟨h1, h2, h3, h4⟩ := h
  have hlen : (encodeP0x9102 v).length = 4 := by simp [encodeP0x9102, toBE_length]
  generalize hE : encodeP0x9102 v = E at *
  simp only [encodeP0x9102, toBE_one] at hE
  have a0 : At E 0 [UInt8.ofNat v.channelNo] := At.cast _ (by rw [← hE]; at_tac) (by simp)
  have a1 : At E 1 [UInt8.ofNat v.controlCmd] := At.cast _ (by rw [← hE]; at_tac) (by simp)
  have a2 : At E 2 [UInt8.ofNat v.closeAudioVideoData] := At.cast _ (by rw [← hE]; at_tac) (by simp)
  have a3 : At E 3 [UInt8.ofNat v.streamType] := At.cast _ (by rw [← hE]; at_tac) (by simp)
  unfold parseP0x9102
  rw [if_neg (by omega), idx_at a0 _ rfl, Res.bind_ok, idx_at a1 _ rfl, Res.bind_ok, idx_at a2 _ rfl, Res.bind_ok,
    idx_at a3 _ rfl, Res.bind_ok, Res.pure_eq, toNat_ofNat_lt _ h1, toNat_ofNat_lt _ h2, toNat_ofNat_lt _ h3,
    toNat_ofNat_lt _ h4]

theorem parseP0x9102_ne_panic (b : Bytes) : parseP0x9102 b ≠ .panic := by
  unfold parseP0x9102
  split
  · simp
  · rw [idx_eq b 0 (by omega), Res.bind_ok, idx_eq b 1 (by omega), Res.bind_ok, idx_eq b 2 (by omega), Res.bind_ok,
      idx_eq b 3 (by omega)]
    simp

/-! ### 0x8100 -/
theorem encode_parseP0x8100 (b : Bytes) (v : P0x8100) (h : parseP0x8100 b = .ok v) : encodeP0x8100 v = b := by
  unfold parseP0x8100 at h
  split at h
  · cases h
  · rw [slice_eq b 0 2 (by omega) (by omega), Res.bind_ok, idx_eq b 2 (by omega), Res.bind_ok,
      slice_eq b 3 b.length (by omega) (by omega), Res.bind_ok, Res.pure_eq] at h
    injection h with h
    subst h
    simp only [encodeP0x8100, toBE_one_toNat, fill_self]
    rw [toBE_beN' _ 2 (by simp; omega)]
    pre_chain

theorem parse_encodeP0x8100 (v : P0x8100) (h : WFP0x8100 v) : parseP0x8100 (encodeP0x8100 v) = .ok v := by
  obtain ⟨h1, h2⟩ := h
  have hlen : (encodeP0x8100 v).length = 3 + v.authCode.length := by
    simp [encodeP0x8100, toBE_length, fill_self]; omega
  generalize hE : encodeP0x8100 v = E at *
  simp only [encodeP0x8100, toBE_one, fill_self] at hE
  have a0 : At E 0 (toBE 2 v.respondSerialNumber) := At.cast _ (by rw [← hE]; at_tac) (by simp)
  have a1 : At E 2 [UInt8.ofNat v.result] := At.cast _ (by rw [← hE]; at_tac) (by simp [toBE_length])
  have a2 : At E 3 v.authCode := At.cast _ (by rw [← hE]; at_tac) (by simp [toBE_length])
  unfold parseP0x8100
  rw [if_neg (by omega), slice_at a0 _ _ rfl (by simp [toBE_length]), Res.bind_ok, idx_at a1 _ rfl, Res.bind_ok,
    slice_at a2 _ _ rfl (by omega), Res.bind_ok, Res.pure_eq, beN_toBE 2 _ h1, toNat_ofNat_lt _ h2]

theorem parseP0x8100_void (b : Bytes) : void (parseP0x8100 b) = Codec2.parseP0x8100 b := by
  simp only [parseP0x8100, Codec2.parseP0x8100, void_ite, void_bind, void_pure, void_err]
  rfl

/-! ### 0x9101 -/
theorem encode_parseP0x9101 (b : Bytes) (v : P0x9101) (h : parseP0x9101 b = .ok v) : encodeP0x9101 v = b := by
  unfold parseP0x9101 at h
  split at h
  · cases h
  · rw [idx_eq b 0 (by omega)] at h
    simp only [Res.bind_ok] at h
    split at h
    · cases h
    · next _ hl =>
      have hl' : b.length = 1 + b[0].toNat + 7 := by omega
      rw [slice_eq b 1 _ (by omega) (by omega), Res.bind_ok, be16At_eq b _ (by omega), Res.bind_ok,
        be16At_eq b _ (by omega), Res.bind_ok, idx_eq b _ (by omega), Res.bind_ok, idx_eq b _ (by omega), Res.bind_ok,
        idx_eq b _ (by omega), Res.bind_ok, Res.pure_eq] at h
      injection h with h
      subst h
      simp only [encodeP0x9101, fill_self, toBE_one_toNat]
      rw [toBE_beN' _ 2 (by simp; omega), toBE_beN' _ 2 (by simp; omega)]
      pre_chain

theorem parse_encodeP0x9101 (v : P0x9101) (h : WFP0x9101 v) : parseP0x9101 (encodeP0x9101 v) = .ok v := by
  obtain ⟨h1, h2, h3, h4, h5, h6, h7⟩ := h
  have hlen : (encodeP0x9101 v).length = 1 + v.serverIPLen + 7 := by
    simp [encodeP0x9101, toBE_length, fill_self]; omega
  generalize hE : encodeP0x9101 v = E at *
  simp only [encodeP0x9101, toBE_one, fill_self] at hE
  have a0 : At E 0 [UInt8.ofNat v.serverIPLen] := At.cast _ (by rw [← hE]; at_tac) (by simp)
  have a1 : At E 1 v.serverIPAddr := At.cast _ (by rw [← hE]; at_tac) (by simp)
  have a2 : At E (v.serverIPLen + 1) (toBE 2 v.tcpPort) :=
    At.cast _ (by rw [← hE]; at_tac) (by simp <;> omega)
  have a3 : At E (v.serverIPLen + 3) (toBE 2 v.udpPort) :=
    At.cast _ (by rw [← hE]; at_tac) (by simp [toBE_length] <;> omega)
  have a4 : At E (v.serverIPLen + 5) [UInt8.ofNat v.channelNo] :=
    At.cast _ (by rw [← hE]; at_tac) (by simp [toBE_length] <;> omega)
  have a5 : At E (v.serverIPLen + 6) [UInt8.ofNat v.dataType] :=
    At.cast _ (by rw [← hE]; at_tac) (by simp [toBE_length] <;> omega)
  have a6 : At E (v.serverIPLen + 7) [UInt8.ofNat v.streamType] :=
    At.cast _ (by rw [← hE]; at_tac) (by simp [toBE_length] <;> omega)
  unfold parseP0x9101
  rw [if_neg (by omega), idx_at a0 _ rfl]
  simp only [Res.bind_ok, toNat_ofNat_lt _ h1]
  rw [if_neg (by omega), slice_at a1 _ _ rfl (by omega), Res.bind_ok, be16At_at a2 (toBE_length _ _) _ rfl,
    Res.bind_ok, be16At_at a3 (toBE_length _ _) _ rfl, Res.bind_ok, idx_at a4 _ rfl, Res.bind_ok, idx_at a5 _ rfl,
    Res.bind_ok, idx_at a6 _ rfl, Res.bind_ok, Res.pure_eq, beN_toBE 2 _ h3, beN_toBE 2 _ h4, toNat_ofNat_lt _ h5,
    toNat_ofNat_lt _ h6, toNat_ofNat_lt _ h7]

theorem parseP0x9101_void (b : Bytes) : void (parseP0x9101 b) = Codec2.parseP0x9101 b := by
  simp only [parseP0x9101, Codec2.parseP0x9101, void_ite, void_bind, void_pure, void_err]
  rfl

/-! ### 0x9201 -/
/-- law (1) under the exact extra hypothesis: no nibble of the two time fields is `0xA` -/
theorem encode_parseP0x9201 (b : Bytes) (v : P0x9201) (h : parseP0x9201 b = .ok v) (ht : TimesP0x9201 v) :
    encodeP0x9201 v = b := by
  unfold parseP0x9201 at h
  split at h
  · cases h
  · rw [idx_eq b 0 (by omega)] at h
    simp only [Res.bind_ok] at h
    split at h
    · cases h
    · next _ hl =>
      have hl' : b.length = 1 + b[0].toNat + 22 := by omega
      rw [slice_eq b 1 _ (by omega) (by omega), Res.bind_ok, be16At_eq b _ (by omega), Res.bind_ok,
        be16At_eq b _ (by omega), Res.bind_ok, idx_eq b _ (by omega), Res.bind_ok, idx_eq b _ (by omega), Res.bind_ok,
        idx_eq b _ (by omega), Res.bind_ok, idx_eq b _ (by omega), Res.bind_ok, idx_eq b _ (by omega), Res.bind_ok,
        idx_eq b _ (by omega), Res.bind_ok, slice_eq b _ _ (by omega) (by omega), Res.bind_ok,
        slice_eq b _ _ (by omega) (by omega), Res.bind_ok, Res.pure_eq] at h
      injection h with h
      subst h
      simp only [TimesP0x9201] at ht
      simp only [encodeP0x9201, toBE_one_toNat]
      rw [toBE_beN' _ 2 (by simp; omega), toBE_beN' _ 2 (by simp; omega),
        reTime_eq _ ⟨by simp; omega, ht.1⟩, reTime_eq _ ⟨by simp; omega, ht.2⟩]
      pre_chain

/-- **law (1) is false at HEAD**: this 23-byte body (empty address, start time `1a 01 02 03 04 05`) is accepted by
`Parse`, and `Encode` then gives 24 bytes -/
theorem reenc_P0x9201_changes :
    reenc parseP0x9201 encodeP0x9201
      [0, 0, 1, 0, 2, 1, 2, 3, 4, 5, 6, 0x1a, 1, 2, 3, 4, 5, 0, 0, 0, 0, 0, 0] =
    .ok [0, 0, 1, 0, 2, 1, 2, 3, 4, 5, 6, 0x02, 1, 1, 2, 3, 4, 5, 0, 0, 0, 0, 0, 0] := by decide

theorem parse_encodeP0x9201 (v : P0x9201) (h : WFP0x9201 v) : parseP0x9201 (encodeP0x9201 v) = .ok v := by
  obtain ⟨h1, h2, h3, h4, h5, h6, h7, h8, h9, h10, hs, he⟩ := h
  have hlen : (encodeP0x9201 v).length = 1 + v.serverIPLen + 22 := by
    simp [encodeP0x9201, toBE_length, reTime_eq _ hs, reTime_eq _ he, hs.1, he.1]; omega
  generalize hE : encodeP0x9201 v = E at *
  simp only [encodeP0x9201, toBE_one, reTime_eq _ hs, reTime_eq _ he] at hE
  have a0 : At E 0 [UInt8.ofNat v.serverIPLen] := At.cast _ (by rw [← hE]; at_tac) (by simp)
  have a1 : At E 1 v.serverIPAddr := At.cast _ (by rw [← hE]; at_tac) (by simp)
  have a2 : At E (v.serverIPLen + 1) (toBE 2 v.tcpPort) :=
    At.cast _ (by rw [← hE]; at_tac) (by simp <;> omega)
  have a3 : At E (v.serverIPLen + 3) (toBE 2 v.udpPort) :=
    At.cast _ (by rw [← hE]; at_tac) (by simp [toBE_length] <;> omega)
  have a4 : At E (v.serverIPLen + 5) [UInt8.ofNat v.channelNo] :=
    At.cast _ (by rw [← hE]; at_tac) (by simp [toBE_length] <;> omega)
  have a5 : At E (v.serverIPLen + 6) [UInt8.ofNat v.mediaType] :=
    At.cast _ (by rw [← hE]; at_tac) (by simp [toBE_length] <;> omega)
  have a6 : At E (v.serverIPLen + 7) [UInt8.ofNat v.streamType] :=
    At.cast _ (by rw [← hE]; at_tac) (by simp [toBE_length] <;> omega)
  have a7 : At E (v.serverIPLen + 8) [UInt8.ofNat v.memoryType] :=
    At.cast _ (by rw [← hE]; at_tac) (by simp [toBE_length] <;> omega)
  have a8 : At E (v.serverIPLen + 9) [UInt8.ofNat v.playbackWay] :=
    At.cast _ (by rw [← hE]; at_tac) (by simp [toBE_length] <;> omega)
  have a9 : At E (v.serverIPLen + 10) [UInt8.ofNat v.playSpeed] :=
    At.cast _ (by rw [← hE]; at_tac) (by simp [toBE_length] <;> omega)
  have a10 : At E (v.serverIPLen + 11) v.startTime :=
    At.cast _ (by rw [← hE]; at_tac) (by simp [toBE_length] <;> omega)
  have a11 : At E (v.serverIPLen + 17) v.endTime :=
    At.cast _ (by rw [← hE]; at_tac) (by simp [toBE_length, hs.1] <;> omega)
  have hs1 := hs.1
  have he1 := he.1
  unfold parseP0x9201
  rw [if_neg (by omega), idx_at a0 _ rfl]
  simp only [Res.bind_ok, toNat_ofNat_lt _ h1]
  rw [if_neg (by omega), slice_at a1 _ _ rfl (by omega), Res.bind_ok, be16At_at a2 (toBE_length _ _) _ rfl,
    Res.bind_ok, be16At_at a3 (toBE_length _ _) _ rfl, Res.bind_ok, idx_at a4 _ rfl, Res.bind_ok, idx_at a5 _ rfl,
    Res.bind_ok, idx_at a6 _ rfl, Res.bind_ok, idx_at a7 _ rfl, Res.bind_ok, idx_at a8 _ rfl, Res.bind_ok,
    idx_at a9 _ rfl, Res.bind_ok, slice_at a10 _ _ rfl (by omega), Res.bind_ok,
    slice_at a11 _ _ (by omega) (by omega), Res.bind_ok, Res.pure_eq, beN_toBE 2 _ h3, beN_toBE 2 _ h4,
    toNat_ofNat_lt _ h5, toNat_ofNat_lt _ h6, toNat_ofNat_lt _ h7, toNat_ofNat_lt _ h8, toNat_ofNat_lt _ h9,
    toNat_ofNat_lt _ h10]

theorem parseP0x9201_void (b : Bytes) : void (parseP0x9201 b) = Codec2.parseP0x9201 b := by
  simp only [parseP0x9201, Codec2.parseP0x9201, void_ite, void_bind, void_pure, void_err]
  rfl

/-! ### 0x9206 -/
/-- law (1) under the exact extra hypothesis: no nibble of the two time fields is `0xA` -/
theorem encode_parseP0x9206 (b : Bytes) (v : P0x9206) (h : parseP0x9206 b = .ok v) (ht : TimesP0x9206 v) :
    encodeP0x9206 v = b := by
  unfold parseP0x9206 at h
  split at h
  · cases h
  · rw [idx_eq b 0 (by omega)] at h
    simp only [Res.bind_ok] at h
    split at h
    · cases h
    · rw [slice_eq b 1 _ (by omega) (by omega), Res.bind_ok, slice_eq b _ _ (by omega) (by omega), Res.bind_ok,
        idx_eq b _ (by omega)] at h
      simp only [Res.bind_ok] at h
      split at h
      · cases h
      · rw [slice_eq b _ _ (by omega) (by omega), Res.bind_ok, idx_eq b _ (by omega)] at h
        simp only [Res.bind_ok] at h
        split at h
        · cases h
        · rw [slice_eq b _ _ (by omega) (by omega), Res.bind_ok, idx_eq b _ (by omega)] at h
          simp only [Res.bind_ok] at h
          split at h
          · cases h
          · next _ _ _ _ hl =>
            rw [slice_eq b _ _ (by omega) (by omega), Res.bind_ok, idx_eq b _ (by omega), Res.bind_ok,
              slice_eq b _ _ (by omega) (by omega), Res.bind_ok, slice_eq b _ _ (by omega) (by omega), Res.bind_ok,
              slice_eq b _ _ (by omega) (by omega), Res.bind_ok, idx_eq b _ (by omega), Res.bind_ok,
              idx_eq b _ (by omega), Res.bind_ok, idx_eq b _ (by omega), Res.bind_ok, idx_eq b _ (by omega),
              Res.bind_ok, Res.pure_eq] at h
            injection h with h
            subst h
            simp only [TimesP0x9206] at ht
            simp only [encodeP0x9206, toBE_one_toNat]
            have hfirst : ∀ s : Bytes, s.length = b[0].toNat → toBE 1 s.length = [b[0]] := by
              intro s hs; rw [hs, toBE_one_toNat]
            rw [hfirst _ (by simp; omega), toBE_beN' _ 2 (by simp; omega), toBE_beN' _ 8 (by simp; omega),
              reTime_eq _ ⟨by simp; omega, ht.1⟩, reTime_eq _ ⟨by simp; omega, ht.2⟩]
            pre_chain

/-- **law (1) is false at HEAD**: this 29-byte body (four empty strings, start time `1a 01 02 03 04 05`) is accepted
by `Parse`, and `Encode` then gives 30 bytes -/
theorem reenc_P0x9206_changes :
    reenc parseP0x9206 encodeP0x9206
      [0, 0, 21, 0, 0, 0, 7, 0x1a, 1, 2, 3, 4, 5, 0x24, 1, 2, 3, 4, 5, 0, 0, 0, 0, 0, 0, 0, 9, 1, 2, 3, 4] =
    .ok [0, 0, 21, 0, 0, 0, 7, 0x02, 1, 1, 2, 3, 4, 5, 0x24, 1, 2, 3, 4, 5, 0, 0, 0, 0, 0, 0, 0, 9, 1, 2, 3, 4] := by
  decide

theorem parse_encodeP0x9206 (v : P0x9206) (h : WFP0x9206 v) : parseP0x9206 (encodeP0x9206 v) = .ok v := by
  obtain ⟨hA, hAl, hport, hU, hUl, hP, hPl, hF, hFl, hch, hs, he, haf, hmt, hst, hmp, htc⟩ := h
  have hs1 := hs.1
  have he1 := he.1
  have hlen : (encodeP0x9206 v).length =
      1 + v.ftpAddrLen + 2 + 1 + v.usernameLen + 1 + v.passwordLen + 1 + v.fileUploadPathLen + 25 := by
    simp [encodeP0x9206, toBE_length, reTime_eq _ hs, reTime_eq _ he]; omega
  generalize hE : encodeP0x9206 v = E at *
  simp only [encodeP0x9206, toBE_one, reTime_eq _ hs, reTime_eq _ he, hAl] at hE
  have hp2 : (toBE 2 v.port).length = 2 := toBE_length _ _
  have hp8 : (toBE 8 v.alarmFlag).length = 8 := toBE_length _ _
  have a0 : At E 0 [UInt8.ofNat v.ftpAddrLen] := At.cast _ (by rw [← hE]; at_tac) (by simp)
  have a1 : At E 1 v.ftpAddr := At.cast _ (by rw [← hE]; at_tac) (by simp)
  have a2 : At E (1 + v.ftpAddrLen) (toBE 2 v.port) :=
    At.cast _ (by rw [← hE]; at_tac) (by simp <;> omega)
  have a3 : At E (1 + v.ftpAddrLen + 2) [UInt8.ofNat v.usernameLen] :=
    At.cast _ (by rw [← hE]; at_tac) (by simp [toBE_length] <;> omega)
  have a4 : At E (1 + v.ftpAddrLen + 3) v.username :=
    At.cast _ (by rw [← hE]; at_tac) (by simp [toBE_length] <;> omega)
  have a5 : At E (1 + v.ftpAddrLen + 3 + v.usernameLen) [UInt8.ofNat v.passwordLen] :=
    At.cast _ (by rw [← hE]; at_tac) (by simp [toBE_length] <;> omega)
  have a6 : At E (1 + v.ftpAddrLen + 3 + v.usernameLen + 1) v.password :=
    At.cast _ (by rw [← hE]; at_tac) (by simp [toBE_length] <;> omega)
  have a7 : At E (1 + v.ftpAddrLen + 3 + v.usernameLen + 1 + v.passwordLen) [UInt8.ofNat v.fileUploadPathLen] :=
    At.cast _ (by rw [← hE]; at_tac) (by simp [toBE_length] <;> omega)
  have a8 : At E (1 + v.ftpAddrLen + 3 + v.usernameLen + 1 + v.passwordLen + 1) v.fileUploadPath :=
    At.cast _ (by rw [← hE]; at_tac) (by simp [toBE_length] <;> omega)
  generalize hS : 1 + v.ftpAddrLen + 3 + v.usernameLen + 1 + v.passwordLen + 1 + v.fileUploadPathLen = S at *
  have a9 : At E S [UInt8.ofNat v.channelNo] :=
    At.cast _ (by rw [← hE]; at_tac) (by simp [toBE_length] <;> omega)
  have a10 : At E (S + 1) v.startTime :=
    At.cast _ (by rw [← hE]; at_tac) (by simp [toBE_length] <;> omega)
  have a11 : At E (S + 7) v.endTime :=
    At.cast _ (by rw [← hE]; at_tac) (by simp [toBE_length] <;> omega)
  have a12 : At E (S + 13) (toBE 8 v.alarmFlag) :=
    At.cast _ (by rw [← hE]; at_tac) (by simp [toBE_length] <;> omega)
  have a13 : At E (S + 21) [UInt8.ofNat v.mediaType] :=
    At.cast _ (by rw [← hE]; at_tac) (by simp [toBE_length] <;> omega)
  have a14 : At E (S + 22) [UInt8.ofNat v.streamType] :=
    At.cast _ (by rw [← hE]; at_tac) (by simp [toBE_length] <;> omega)
  have a15 : At E (S + 23) [UInt8.ofNat v.memoryPosition] :=
    At.cast _ (by rw [← hE]; at_tac) (by simp [toBE_length] <;> omega)
  have a16 : At E (S + 24) [UInt8.ofNat v.taskExecuteCondition] :=
    At.cast _ (by rw [← hE]; at_tac) (by simp [toBE_length] <;> omega)
  unfold parseP0x9206
  rw [if_neg (by omega), idx_at a0 _ rfl]
  simp only [Res.bind_ok, toNat_ofNat_lt _ hA]
  rw [if_neg (by omega), slice_at a1 _ _ rfl (by omega), Res.bind_ok, slice_at a2 _ _ rfl (by omega), Res.bind_ok,
    idx_at a3 _ rfl]
  simp only [Res.bind_ok, toNat_ofNat_lt _ hU]
  rw [if_neg (by omega), slice_at a4 _ _ (by omega) (by omega), Res.bind_ok, idx_at a5 _ (by omega)]
  simp only [Res.bind_ok, toNat_ofNat_lt _ hP]
  rw [if_neg (by omega), slice_at a6 _ _ (by omega) (by omega), Res.bind_ok, idx_at a7 _ (by omega)]
  simp only [Res.bind_ok, toNat_ofNat_lt _ hF]
  rw [if_neg (by omega), slice_at a8 _ _ (by omega) (by omega), Res.bind_ok, idx_at a9 _ (by omega), Res.bind_ok,
    slice_at a10 _ _ (by omega) (by omega), Res.bind_ok, slice_at a11 _ _ (by omega) (by omega), Res.bind_ok,
    slice_at a12 _ _ (by omega) (by omega), Res.bind_ok, idx_at a13 _ (by omega), Res.bind_ok,
    idx_at a14 _ (by omega), Res.bind_ok, idx_at a15 _ (by omega), Res.bind_ok, idx_at a16 _ (by omega), Res.bind_ok,
    Res.pure_eq, beN_toBE 2 _ hport, beN_toBE 8 _ haf, toNat_ofNat_lt _ hch, toNat_ofNat_lt _ hmt,
    toNat_ofNat_lt _ hst, toNat_ofNat_lt _ hmp, toNat_ofNat_lt _ htc]

theorem parseP0x9206_void (b : Bytes) : void (parseP0x9206 b) = Codec2.parseP0x9206 b := by
  simp only [parseP0x9206, Codec2.parseP0x9206, void_ite, void_bind, void_pure, void_err]
  rfl

/-! ### 0x1205 -/
/-- one 28-byte record, law (1) -/
theorem encode_parseT0x1205Item (cur : Bytes) (it : T0x1205Item) (hc : cur.length = 28)
    (h : parseT0x1205Item cur = .ok it) (ht : NoA it.startTime ∧ NoA it.endTime) : encodeT0x1205Item it = cur := by
  unfold parseT0x1205Item at h
  rw [idx_eq cur 0 (by omega), Res.bind_ok, slice_eq cur 1 7 (by omega) (by omega), Res.bind_ok,
    slice_eq cur 7 13 (by omega) (by omega), Res.bind_ok, slice_eq cur 13 21 (by omega) (by omega), Res.bind_ok,
    idx_eq cur 21 (by omega), Res.bind_ok, idx_eq cur 22 (by omega), Res.bind_ok, idx_eq cur 23 (by omega),
    Res.bind_ok, slice_eq cur 24 28 (by omega) (by omega), Res.bind_ok, Res.pure_eq] at h
  injection h with h
  subst h
  simp only at ht
  simp only [encodeT0x1205Item, toBE_one_toNat]
  rw [toBE_beN' _ 8 (by simp; omega), toBE_beN' _ 4 (by simp; omega),
    reTime_eq _ ⟨by simp; omega, ht.1⟩, reTime_eq _ ⟨by simp; omega, ht.2⟩]
  pre_chain

theorem parseT0x1205Item_ne_err (cur : Bytes) : parseT0x1205Item cur ≠ .err := by
  unfold parseT0x1205Item slice idx
  repeat (first | split | simp only [Res.bind_ok, Res.bind_panic, Res.pure_eq] | exact fun h => nomatch h)

theorem encodeT0x1205Item_length (it : T0x1205Item) (h : WFT0x1205Item it) : (encodeT0x1205Item it).length = 28 := by
  obtain ⟨_, hs, he, _⟩ := h
  simp [encodeT0x1205Item, toBE_length, reTime_eq _ hs, reTime_eq _ he, hs.1, he.1]

/-- one 28-byte record, law (2) -/
theorem parse_encodeT0x1205Item (it : T0x1205Item) (h : WFT0x1205Item it) :
    parseT0x1205Item (encodeT0x1205Item it) = .ok it := by
  have hlen := encodeT0x1205Item_length it h
  obtain ⟨h1, hs, he, h4, h5, h6, h7, h8⟩ := h
  have hs1 := hs.1
  have he1 := he.1
  generalize hE : encodeT0x1205Item it = E at *
  simp only [encodeT0x1205Item, toBE_one, reTime_eq _ hs, reTime_eq _ he] at hE
  have hp8 : (toBE 8 it.alarmFlag).length = 8 := toBE_length _ _
  have hp4 : (toBE 4 it.fileSizeByte).length = 4 := toBE_length _ _
  have a0 : At E 0 [UInt8.ofNat it.channelNo] := At.cast _ (by rw [← hE]; at_tac) (by simp)
  have a1 : At E 1 it.startTime := At.cast _ (by rw [← hE]; at_tac) (by simp)
  have a2 : At E 7 it.endTime := At.cast _ (by rw [← hE]; at_tac) (by simp <;> omega)
  have a3 : At E 13 (toBE 8 it.alarmFlag) := At.cast _ (by rw [← hE]; at_tac) (by simp <;> omega)
  have a4 : At E 21 [UInt8.ofNat it.audioVideoResourceType] :=
    At.cast _ (by rw [← hE]; at_tac) (by simp [toBE_length] <;> omega)
  have a5 : At E 22 [UInt8.ofNat it.streamType] := At.cast _ (by rw [← hE]; at_tac) (by simp [toBE_length] <;> omega)
  have a6 : At E 23 [UInt8.ofNat it.memoryType] := At.cast _ (by rw [← hE]; at_tac) (by simp [toBE_length] <;> omega)
  have a7 : At E 24 (toBE 4 it.fileSizeByte) := At.cast _ (by rw [← hE]; at_tac) (by simp [toBE_length] <;> omega)
  unfold parseT0x1205Item
  rw [idx_at a0 _ rfl, Res.bind_ok, slice_at a1 _ _ rfl (by omega), Res.bind_ok, slice_at a2 _ _ rfl (by omega),
    Res.bind_ok, slice_at a3 _ _ rfl (by omega), Res.bind_ok, idx_at a4 _ rfl, Res.bind_ok, idx_at a5 _ rfl,
    Res.bind_ok, idx_at a6 _ rfl, Res.bind_ok, slice_at a7 _ _ rfl (by omega), Res.bind_ok, Res.pure_eq,
    toNat_ofNat_lt _ h1, beN_toBE 8 _ h4, toNat_ofNat_lt _ h5, toNat_ofNat_lt _ h6, toNat_ofNat_lt _ h7,
    beN_toBE 4 _ h8]

/-- the loop, law (1): the records re-encode to the `n * 28` bytes they were read from -/
theorem encode_t1205Items (b : Bytes) : ∀ (n start : Nat) (items : List T0x1205Item),
    start + n * 28 ≤ b.length → t1205Items b n start = .ok items →
    (∀ it ∈ items, NoA it.startTime ∧ NoA it.endTime) →
    items.flatMap encodeT0x1205Item = (b.drop start).take (n * 28)
  | 0, _, items, _, h, _ => by
    simp only [t1205Items, Res.ok.injEq] at h
    subst h; simp
  | n + 1, start, items, hb, h, ht => by
    unfold t1205Items at h
    rw [slice_eq b start _ (by omega) (by omega), Res.bind_ok] at h
    have hlen : ((b.drop start).take (start + 28 - start)).length = 28 := by
      rw [Codec2.slice_len b start (start + 28) (by omega) (by omega)]; omega
    cases hit : parseT0x1205Item ((b.drop start).take (start + 28 - start)) with
    | err => rw [hit] at h; cases h
    | panic => rw [hit] at h; cases h
    | ok it =>
      rw [hit, Res.bind_ok] at h
      cases hrest : t1205Items b n (start + 28) with
      | err => rw [hrest] at h; cases h
      | panic => rw [hrest] at h; cases h
      | ok rest =>
        rw [hrest, Res.bind_ok, Res.pure_eq] at h
        injection h with h
        subst h
        have ih := encode_t1205Items b n (start + 28) rest (by omega) hrest (fun x hx => ht x (by simp [hx]))
        have h1 := encode_parseT0x1205Item _ it hlen hit (ht it (by simp))
        rw [List.flatMap_cons, ih, h1]
        have e : (n + 1) * 28 = 28 + n * 28 := by omega
        rw [e, List.take_add, List.drop_drop]
        congr 2
        omega

theorem t1205Items_length (b : Bytes) : ∀ (n start : Nat) (items : List T0x1205Item),
    t1205Items b n start = .ok items → items.length = n
  | 0, _, items, h => by
    simp only [t1205Items, Res.ok.injEq] at h
    subst h; rfl
  | n + 1, start, items, h => by
    unfold t1205Items at h
    cases hs : slice b start (start + 28) with
    | err => rw [hs] at h; cases h
    | panic => rw [hs] at h; cases h
    | ok cur =>
      rw [hs, Res.bind_ok] at h
      cases hit : parseT0x1205Item cur with
      | err => rw [hit] at h; cases h
      | panic => rw [hit] at h; cases h
      | ok it =>
        rw [hit, Res.bind_ok] at h
        cases hrest : t1205Items b n (start + 28) with
        | err => rw [hrest] at h; cases h
        | panic => rw [hrest] at h; cases h
        | ok rest =>
          rw [hrest, Res.bind_ok, Res.pure_eq] at h
          injection h with h
          subst h
          simp [t1205Items_length b n (start + 28) rest hrest]

/-- law (1) under the exact extra hypothesis: no nibble of a time field of a record is `0xA` -/
theorem encode_parseT0x1205 (b : Bytes) (v : T0x1205) (h : parseT0x1205 b = .ok v) (ht : TimesT0x1205 v) :
    encodeT0x1205 v = b := by
  unfold parseT0x1205 at h
  split at h
  · cases h
  · rw [slice_eq b 0 2 (by omega) (by omega), Res.bind_ok, be32At_eq b 2 (by omega)] at h
    simp only [Res.bind_ok] at h
    split at h
    · cases h
    · next _ hl =>
      cases hitems : t1205Items b (beN ((b.drop 2).take 4)) 6 with
      | err => rw [hitems] at h; cases h
      | panic => rw [hitems] at h; cases h
      | ok items =>
        rw [hitems, Res.bind_ok, Res.pure_eq] at h
        injection h with h
        subst h
        simp only [TimesT0x1205] at ht
        simp only [encodeT0x1205]
        rw [encode_t1205Items b _ 6 items (by omega) hitems ht, toBE_beN' _ 2 (by simp; omega),
          toBE_beN' _ 4 (by simp; omega)]
        pre_chain

/-- the records of a parsed body are as many as the total says -/
theorem parseT0x1205_total (b : Bytes) (v : T0x1205) (h : parseT0x1205 b = .ok v) :
    v.audioVideoResourceList.length = v.audioVideoResourceTotal := by
  unfold parseT0x1205 at h
  split at h
  · cases h
  · rw [slice_eq b 0 2 (by omega) (by omega), Res.bind_ok, be32At_eq b 2 (by omega)] at h
    simp only [Res.bind_ok] at h
    split at h
    · cases h
    · cases hitems : t1205Items b (beN ((b.drop 2).take 4)) 6 with
      | err => rw [hitems] at h; cases h
      | panic => rw [hitems] at h; cases h
      | ok items =>
        rw [hitems, Res.bind_ok, Res.pure_eq] at h
        injection h with h
        subst h
        exact t1205Items_length b _ 6 items hitems

/-- **law (1) is false at HEAD**: this 34-byte body (one record, start time `1a 01 02 03 04 05`) is accepted by
`Parse`, and `Encode` then gives 35 bytes -/
theorem reenc_T0x1205_changes :
    reenc parseT0x1205 encodeT0x1205
      [0, 1, 0, 0, 0, 1, 1, 0x1a, 1, 2, 3, 4, 5, 0, 0, 0, 0, 0, 0, 0, 0, 0, 0, 0, 0, 0, 0, 1, 2, 3, 0, 0, 0, 4] =
    .ok [0, 1, 0, 0, 0, 1, 1, 0x02, 1, 1, 2, 3, 4, 5, 0, 0, 0, 0, 0, 0, 0, 0, 0, 0, 0, 0, 0, 0, 1, 2, 3, 0, 0, 0, 4] := by
  decide

theorem flatMap_encode_length : ∀ (items : List T0x1205Item), (∀ it ∈ items, WFT0x1205Item it) →
    (items.flatMap encodeT0x1205Item).length = items.length * 28
  | [], _ => rfl
  | it :: rest, h => by
    rw [List.flatMap_cons, List.length_append, encodeT0x1205Item_length it (h it (by simp)),
      flatMap_encode_length rest (fun x hx => h x (by simp [hx]))]
    simp only [List.length_cons]; omega

/-- the loop, law (2) -/
theorem t1205Items_encode : ∀ (items : List T0x1205Item) (pre : Bytes) (n start : Nat),
    (∀ it ∈ items, WFT0x1205Item it) → n = items.length → start = pre.length →
    t1205Items (pre ++ items.flatMap encodeT0x1205Item) n start = .ok items
  | [], _, n, _, _, hn, _ => by subst hn; rfl
  | it :: rest, pre, n, start, h, hn, hs => by
    subst hn hs
    have hl := encodeT0x1205Item_length it (h it (by simp))
    simp only [List.length_cons]
    unfold t1205Items
    have a : At (pre ++ (it :: rest).flatMap encodeT0x1205Item) pre.length (encodeT0x1205Item it) :=
      ⟨pre, rest.flatMap encodeT0x1205Item, by simp, rfl⟩
    rw [slice_at a _ _ rfl (by omega), Res.bind_ok, parse_encodeT0x1205Item it (h it (by simp)), Res.bind_ok]
    have e : pre ++ (it :: rest).flatMap encodeT0x1205Item =
        (pre ++ encodeT0x1205Item it) ++ rest.flatMap encodeT0x1205Item := by simp
    rw [e, t1205Items_encode rest (pre ++ encodeT0x1205Item it) rest.length (pre.length + 28)
      (fun x hx => h x (by simp [hx])) rfl (by simp [hl])]
    rfl

theorem parse_encodeT0x1205 (v : T0x1205) (h : WFT0x1205 v) : parseT0x1205 (encodeT0x1205 v) = .ok v := by
  obtain ⟨h1, h2, h3, h4⟩ := h
  have hfl := flatMap_encode_length _ h4
  have hlen : (encodeT0x1205 v).length = 6 + v.audioVideoResourceTotal * 28 := by
    simp [encodeT0x1205, toBE_length, hfl, h3]; omega
  have hitems := t1205Items_encode v.audioVideoResourceList (toBE 2 v.serialNumber ++ toBE 4 v.audioVideoResourceTotal)
    v.audioVideoResourceTotal 6 h4 h3.symm (by simp [toBE_length])
  have a0 : At (encodeT0x1205 v) 0 (toBE 2 v.serialNumber) :=
    At.cast _ (by unfold encodeT0x1205; at_tac) (by simp)
  have a1 : At (encodeT0x1205 v) 2 (toBE 4 v.audioVideoResourceTotal) :=
    At.cast _ (by unfold encodeT0x1205; at_tac) (by simp [toBE_length])
  have hE : toBE 2 v.serialNumber ++ toBE 4 v.audioVideoResourceTotal ++
      v.audioVideoResourceList.flatMap encodeT0x1205Item = encodeT0x1205 v := rfl
  rw [hE] at hitems
  generalize encodeT0x1205 v = E at *
  unfold parseT0x1205
  rw [if_neg (by omega), slice_at a0 _ _ rfl (by simp [toBE_length]), Res.bind_ok,
    be32At_at a1 (toBE_length _ _) _ rfl]
  simp only [Res.bind_ok, beN_toBE 4 _ h2]
  rw [if_neg (by omega), hitems, Res.bind_ok, Res.pure_eq, beN_toBE 2 _ h1]

theorem t1205Items_void (b : Bytes) : ∀ (n start : Nat), void (t1205Items b n start) = Codec2.t1205Items b n start
  | 0, _ => rfl
  | n + 1, start => by
    unfold t1205Items Codec2.t1205Items
    simp only [void_bind, parseT0x1205Item, Res.pure_eq]
    cases slice b start (start + 28) with
    | err => rfl
    | panic => rfl
    | ok cur =>
      simp only [Res.bind_ok]
      cases idx cur 0 <;> try rfl
      cases slice cur 1 7 <;> try rfl
      cases slice cur 7 13 <;> try rfl
      cases slice cur 13 21 <;> try rfl
      cases idx cur 21 <;> try rfl
      cases idx cur 22 <;> try rfl
      cases idx cur 23 <;> try rfl
      cases slice cur 24 28 <;> try rfl
      simp only [Res.bind_ok]
      rw [← t1205Items_void b n (start + 28)]
      cases t1205Items b n (start + 28) <;> rfl

theorem parseT0x1205_void (b : Bytes) : void (parseT0x1205 b) = Codec2.parseT0x1205 b := by
  simp only [parseT0x1205, Codec2.parseT0x1205, void_ite, void_bind, void_pure, void_err, bind_unit,
    t1205Items_void]

/-! ### consequences -/
/-- an accepted body that is re-encoded to other bytes refutes the unconditional law (1) -/
theorem law1_false {α} (parse : Bytes → Res α) (encode : α → Bytes) (b b' : Bytes)
    (h : reenc parse encode b = .ok b') (hne : b' ≠ b) : ¬ ∀ b v, parse b = .ok v → encode v = b := by
  intro H
  unfold reenc at h
  cases hp : parse b with
  | err => rw [hp] at h; cases h
  | panic => rw [hp] at h; cases h
  | ok v =>
    rw [hp] at h
    injection h with h
    exact hne (h ▸ H b v hp)

/-- **the unconditional law (1) does not hold for `P0x9201` at HEAD** -/
theorem encode_parseP0x9201_unconditional_false : ¬ ∀ b v, parseP0x9201 b = .ok v → encodeP0x9201 v = b :=
  law1_false _ _ _ _ reenc_P0x9201_changes (by decide)

/-- **the unconditional law (1) does not hold for `P0x9206` at HEAD** -/
theorem encode_parseP0x9206_unconditional_false : ¬ ∀ b v, parseP0x9206 b = .ok v → encodeP0x9206 v = b :=
  law1_false _ _ _ _ reenc_P0x9206_changes (by decide)

/-- **the unconditional law (1) does not hold for `T0x1205` at HEAD** -/
theorem encode_parseT0x1205_unconditional_false : ¬ ∀ b v, parseT0x1205 b = .ok v → encodeT0x1205 v = b :=
  law1_false _ _ _ _ reenc_T0x1205_changes (by decide)

/-- the value-level models never panic either (through `parseX_void` and `JT/Proof/Codec2.lean`) -/
theorem parseP0x8100_ne_panic (b : Bytes) : parseP0x8100 b ≠ .panic :=
  void_ne_panic _ (by rw [parseP0x8100_void]; exact Codec2.parseP0x8100_ne_panic b)
theorem parseP0x9101_ne_panic (b : Bytes) : parseP0x9101 b ≠ .panic :=
  void_ne_panic _ (by rw [parseP0x9101_void]; exact Codec2.parseP0x9101_ne_panic b)
theorem parseP0x9201_ne_panic (b : Bytes) : parseP0x9201 b ≠ .panic :=
  void_ne_panic _ (by rw [parseP0x9201_void]; exact Codec2.parseP0x9201_ne_panic b)
theorem parseP0x9206_ne_panic (b : Bytes) : parseP0x9206 b ≠ .panic :=
  void_ne_panic _ (by rw [parseP0x9206_void]; exact Codec2.parseP0x9206_ne_panic b)
theorem parseT0x1205_ne_panic (b : Bytes) : parseT0x1205 b ≠ .panic :=
  void_ne_panic _ (by rw [parseT0x1205_void]; exact Codec2.parseT0x1205_ne_panic b)

end JT.Codec3
