import JT.Gen.GoAttach
import JT.Proof.GoTotal
/-!
# Attachment chunk headers as translated from attachment/stream_data_handle.go

The connection loop calls `Parse` only after `HasStreamData` and `HasMinHeadLen` said yes. The theorems: under exactly
that guard `Parse` returns a value (no index or slice leaves the buffer), for the 62-byte layout and for the
Heilongjiang layout with its length-prefixed file name; and `HasMinHeadLen` itself never panics on any buffer.
-/
namespace JT.Gen.GoAttach
open JT JT.Go

theorem base_hasMinHeadLen_total (fuel : Nat) (s : attachment_baseStreamDataHandle) (d : Bytes) :
    (attachment_baseStreamDataHandle_HasMinHeadLen fuel s d).isOk = true := rfl

theorem hlj_hasMinHeadLen_total (fuel : Nat) (h : attachment_heiBiaoStreamDataHandle) (d : Bytes) :
    (attachment_heiBiaoStreamDataHandle_HasMinHeadLen fuel h d).isOk = true := by
  simp only [attachment_heiBiaoStreamDataHandle_HasMinHeadLen, attachment_heiBiaoStreamDataHandle_HasMinHeadLen_j1]
  go_total

/-- 62-byte chunk header: guarded `Parse` is total and reports head length 62 -/
theorem base_parse_guarded (fuel : Nat) (s s' : attachment_baseStreamDataHandle) (d : Bytes)
    (hg : attachment_baseStreamDataHandle_HasMinHeadLen fuel s' d = X.ok true) :
    (attachment_baseStreamDataHandle_Parse fuel s d).isOk = true := by
  simp only [attachment_baseStreamDataHandle_HasMinHeadLen, X.ok.injEq, decide_eq_true_eq, ge_iff_le] at hg
  simp only [attachment_baseStreamDataHandle_Parse]
  go_total

/-- Heilongjiang chunk header: guarded `Parse` is total -/
theorem hlj_parse_guarded (fuel : Nat) (h h' h'' : attachment_heiBiaoStreamDataHandle) (d : Bytes)
    (hg : attachment_heiBiaoStreamDataHandle_HasMinHeadLen fuel h' d = X.ok (h'', true)) :
    (attachment_heiBiaoStreamDataHandle_Parse fuel h d).isOk = true := by
  simp only [attachment_heiBiaoStreamDataHandle_HasMinHeadLen, attachment_heiBiaoStreamDataHandle_HasMinHeadLen_j1] at hg
  by_cases h5 : decide (len d < (5 : Int)) = true
  · simp only [h5, if_true, X.ok.injEq, Prod.mk.injEq] at hg
    exact absurd hg.2 (by decide)
  · simp only [h5, if_false, Bool.false_eq_true, idx_ite] at hg
    by_cases h4 : (0 : Int) ≤ 4 ∧ (4 : Int).toNat < d.length
    · simp only [h4, and_self, if_true, X.bind_ok, X.ok.injEq, Prod.mk.injEq, decide_eq_true_eq, ge_iff_le] at hg
      have hlen := hg.2
      simp only [attachment_heiBiaoStreamDataHandle_Parse]
      go_total
    · simp only [h4, if_false, X.bind_panic] at hg
      cases hg

end JT.Gen.GoAttach
