import JT.Proof.ActEnv
/-! Invariant of the platform-command transition system: steps the server takes on its own. -/
namespace JT.Act

theorem upd_eq {α : Type} (f : Nat → α) (r : Nat) (v : α) (x : Nat) (p : α) :
    upd f r v x = p ↔ (x = r ∧ v = p) ∨ (x ≠ r ∧ f x = p) := by
  unfold upd
  by_cases h : x = r <;> simp [h]

theorem inv_int {s t : St} (h : Inv s) (st : IntStep s t) : Inv t := by
  obtain ⟨ex, rs, rp, sl, si, us, cu, dd, tm, lo⟩ := h
  cases st with
  | mgrWrite r hp hreg hcap =>
    have hwa : s.writerAlive = true := by
      cases hw : s.writerAlive with
      | true => rfl
      | false => have := cu (dd hw).1; rw [hreg] at this; cases this
    refine ⟨?_, ?_, ?_, sl, si, ?_, cu, ?_, ?_, lo⟩
    · intro x
      show upd s.place r .act x = .notYet ↔ s.created ≤ x
      rw [upd_eq]
      constructor
      · rintro (⟨_, h2⟩ | ⟨_, h2⟩)
        · cases h2
        · exact (ex x).mp h2
      · intro hle
        right
        refine ⟨?_, (ex x).mpr hle⟩
        intro e; subst e; rw [(ex x).mpr hle] at hp; cases hp
    · intro x t hx
      rcases (upd_eq _ _ _ _ _).mp hx with ⟨_, h2⟩ | ⟨_, h2⟩
      · cases h2
      · exact rs x t h2
    · intro x e hx
      rcases (upd_eq _ _ _ _ _).mp hx with ⟨_, h2⟩ | ⟨_, h2⟩
      · cases h2
      · exact rp x e h2
    · intro x hx
      by_cases hxr : x = r
      · subst hxr; exact us x (Or.inl hp)
      · apply us x
        rcases hx with h1 | h1 | h1 <;> rcases (upd_eq _ _ _ _ _).mp h1 with ⟨e, _⟩ | ⟨_, h2⟩
        all_goals first | exact absurd e hxr | simp [h2]
    · intro hw; rw [hwa] at hw; cases hw
    · intro x t hx
      rcases (upd_eq _ _ _ _ _).mp hx with ⟨_, h2⟩ | ⟨_, h2⟩
      · cases h2
      · exact tm x t h2
  | mgrNotExist r hp hreg =>
    refine ⟨?_, ?_, ?_, sl, si, ?_, cu, ?_, ?_, lo⟩
    · intro x
      show upd s.place r (.done .notExist) x = .notYet ↔ s.created ≤ x
      rw [upd_eq]
      constructor
      · rintro (⟨_, h2⟩ | ⟨_, h2⟩)
        · cases h2
        · exact (ex x).mp h2
      · intro hle
        right
        refine ⟨?_, (ex x).mpr hle⟩
        intro e; subst e; rw [(ex x).mpr hle] at hp; cases hp
    · intro x t hx
      rcases (upd_eq _ _ _ _ _).mp hx with ⟨_, h2⟩ | ⟨_, h2⟩
      · cases h2
      · exact rs x t h2
    · intro x e hx
      rcases (upd_eq _ _ _ _ _).mp hx with ⟨_, h2⟩ | ⟨_, h2⟩
      · cases h2
      · exact rp x e h2
    · intro x hx
      apply us x
      rcases hx with h1 | h1 | h1 <;> rcases (upd_eq _ _ _ _ _).mp h1 with ⟨_, e2⟩ | ⟨_, h2⟩
      all_goals first | cases e2 | simp [h2]
    · intro hw
      obtain ⟨d1, d2⟩ := dd hw
      refine ⟨d1, fun x => ⟨?_, fun t => ?_⟩⟩
      · intro hx
        rcases (upd_eq _ _ _ _ _).mp hx with ⟨_, h2⟩ | ⟨_, h2⟩
        · cases h2
        · exact (d2 x).1 h2
      · intro hx
        rcases (upd_eq _ _ _ _ _).mp hx with ⟨_, h2⟩ | ⟨_, h2⟩
        · cases h2
        · exact (d2 x).2 t h2
    · intro x t hx
      rcases (upd_eq _ _ _ _ _).mp hx with ⟨_, h2⟩ | ⟨_, h2⟩
      · cases h2
      · exact tm x t h2
  | mgrLeave hq =>
    refine ⟨ex, rs, rp, sl, si, us, fun _ => rfl, ?_, ?_, fun h => by cases h⟩
    · intro hw
      obtain ⟨_, d2⟩ := dd hw
      exact ⟨rfl, d2⟩
    · intro x t hx
      exact Or.inr (Or.inr rfl)
  | wSend r hw hp =>
    have hus := us r (Or.inr (Or.inl hp))
    refine ⟨?_, ?_, ?_, ?_, ?_, ?_, cu, ?_, ?_, lo⟩
    · intro x
      show upd s.place r (.recorded s.serial) x = .notYet ↔ s.created ≤ x
      rw [upd_eq]
      constructor
      · rintro (⟨_, h2⟩ | ⟨_, h2⟩)
        · cases h2
        · exact (ex x).mp h2
      · intro hle
        right
        refine ⟨?_, (ex x).mpr hle⟩
        intro e; subst e; rw [(ex x).mpr hle] at hp; cases hp
    · intro x t hx
      show upd s.stamp r (some s.serial) x = some t
      rcases (upd_eq _ _ _ _ _).mp hx with ⟨e1, h2⟩ | ⟨hne, h2⟩
      · subst e1; injection h2 with h2; subst h2; simp
      · rw [upd_other _ _ _ _ hne]; exact rs x t h2
    · intro x e hx
      show upd s.stamp r (some s.serial) x = some e
      rcases (upd_eq _ _ _ _ _).mp hx with ⟨_, h2⟩ | ⟨hne, h2⟩
      · cases h2
      · rw [upd_other _ _ _ _ hne]; exact rp x e h2
    · intro x t hx
      show t < s.serial + 1
      rcases (upd_eq _ _ _ _ _).mp hx with ⟨_, h2⟩ | ⟨_, h2⟩
      · injection h2 with h2; omega
      · have := sl x t h2; omega
    · intro x x' t hx hx'
      rcases (upd_eq _ _ _ _ _).mp hx with ⟨e1, h2⟩ | ⟨n1, h2⟩ <;>
        rcases (upd_eq _ _ _ _ _).mp hx' with ⟨e1', h2'⟩ | ⟨n1', h2'⟩
      · rw [e1, e1']
      · injection h2 with h2; subst h2; have := sl x' _ h2'; omega
      · injection h2' with h2'; subst h2'; have := sl x _ h2; omega
      · exact si x x' t h2 h2'
    · intro x hx
      show upd s.stamp r (some s.serial) x = none
      have hne : x ≠ r := by
        intro e; subst e
        rcases hx with h1 | h1 | h1 <;> simp at h1
      rw [upd_other _ _ _ _ hne]
      apply us x
      rcases hx with h1 | h1 | h1 <;> rcases (upd_eq _ _ _ _ _).mp h1 with ⟨e, _⟩ | ⟨_, h2⟩
      all_goals first | exact absurd e hne | simp [h2]
    · intro hw'; rw [hw] at hw'; cases hw'
    · intro x t hx
      show t ∈ s.serial :: s.timers ∨ t ∈ s.doneCh ∨ s.stopClosed = true
      rcases (upd_eq _ _ _ _ _).mp hx with ⟨_, h2⟩ | ⟨_, h2⟩
      · injection h2 with h2; subst h2; simp
      · rcases tm x t h2 with h3 | h3 | h3
        · exact Or.inl (List.mem_cons_of_mem _ h3)
        · exact Or.inr (Or.inl h3)
        · exact Or.inr (Or.inr h3)
  | wSendFail r hw hp =>
    refine ⟨?_, ?_, ?_, ?_, ?_, ?_, cu, ?_, ?_, lo⟩
    · intro x
      show upd s.place r (.done .writeFail) x = .notYet ↔ s.created ≤ x
      rw [upd_eq]
      constructor
      · rintro (⟨_, h2⟩ | ⟨_, h2⟩)
        · cases h2
        · exact (ex x).mp h2
      · intro hle
        right
        refine ⟨?_, (ex x).mpr hle⟩
        intro e; subst e; rw [(ex x).mpr hle] at hp; cases hp
    · intro x t hx
      show upd s.stamp r (some s.serial) x = some t
      rcases (upd_eq _ _ _ _ _).mp hx with ⟨_, h2⟩ | ⟨hne, h2⟩
      · cases h2
      · rw [upd_other _ _ _ _ hne]; exact rs x t h2
    · intro x e hx
      show upd s.stamp r (some s.serial) x = some e
      rcases (upd_eq _ _ _ _ _).mp hx with ⟨_, h2⟩ | ⟨hne, h2⟩
      · cases h2
      · rw [upd_other _ _ _ _ hne]; exact rp x e h2
    · intro x t hx
      show t < s.serial + 1
      rcases (upd_eq _ _ _ _ _).mp hx with ⟨_, h2⟩ | ⟨_, h2⟩
      · injection h2 with h2; omega
      · have := sl x t h2; omega
    · intro x x' t hx hx'
      rcases (upd_eq _ _ _ _ _).mp hx with ⟨e1, h2⟩ | ⟨n1, h2⟩ <;>
        rcases (upd_eq _ _ _ _ _).mp hx' with ⟨e1', h2'⟩ | ⟨n1', h2'⟩
      · rw [e1, e1']
      · injection h2 with h2; subst h2; have := sl x' _ h2'; omega
      · injection h2' with h2'; subst h2'; have := sl x _ h2; omega
      · exact si x x' t h2 h2'
    · intro x hx
      show upd s.stamp r (some s.serial) x = none
      have hne : x ≠ r := by
        intro e; subst e
        rcases hx with h1 | h1 | h1 <;> simp at h1
      rw [upd_other _ _ _ _ hne]
      apply us x
      rcases hx with h1 | h1 | h1 <;> rcases (upd_eq _ _ _ _ _).mp h1 with ⟨e, _⟩ | ⟨_, h2⟩
      all_goals first | exact absurd e hne | simp [h2]
    · intro hw'; rw [hw] at hw'; cases hw'
    · intro x t hx
      rcases (upd_eq _ _ _ _ _).mp hx with ⟨_, h2⟩ | ⟨_, h2⟩
      · cases h2
      · exact tm x t h2
  | timerFire t hm hs hc =>
    refine ⟨ex, rs, rp, sl, si, us, cu, dd, ?_, lo⟩
    intro x u hx
    show u ∈ s.timers.erase t ∨ u ∈ s.doneCh ++ [t] ∨ s.stopClosed = true
    rcases tm x u hx with h3 | h3 | h3
    · by_cases hu : u = t
      · subst hu; exact Or.inr (Or.inl (by simp))
      · exact Or.inl ((List.mem_erase_of_ne hu).mpr h3)
    · exact Or.inr (Or.inl (by simp [h3]))
    · exact Or.inr (Or.inr h3)
  | timerQuit t hm hs =>
    refine ⟨ex, rs, rp, sl, si, us, cu, dd, ?_, lo⟩
    intro x u hx
    exact Or.inr (Or.inr hs)
  | wTimeoutHit t rest r hw hd hp =>
    refine ⟨?_, ?_, ?_, sl, si, ?_, cu, ?_, ?_, lo⟩
    · intro x
      show upd s.place r (.done .timeout) x = .notYet ↔ s.created ≤ x
      rw [upd_eq]
      constructor
      · rintro (⟨_, h2⟩ | ⟨_, h2⟩)
        · cases h2
        · exact (ex x).mp h2
      · intro hle
        right
        refine ⟨?_, (ex x).mpr hle⟩
        intro e; subst e; rw [(ex x).mpr hle] at hp; cases hp
    · intro x u hx
      rcases (upd_eq _ _ _ _ _).mp hx with ⟨_, h2⟩ | ⟨_, h2⟩
      · cases h2
      · exact rs x u h2
    · intro x e hx
      rcases (upd_eq _ _ _ _ _).mp hx with ⟨_, h2⟩ | ⟨_, h2⟩
      · cases h2
      · exact rp x e h2
    · intro x hx
      apply us x
      rcases hx with h1 | h1 | h1 <;> rcases (upd_eq _ _ _ _ _).mp h1 with ⟨_, e2⟩ | ⟨_, h2⟩
      all_goals first | cases e2 | simp [h2]
    · intro hw'; rw [hw] at hw'; cases hw'
    · intro x u hx
      show u ∈ s.timers ∨ u ∈ rest ∨ s.stopClosed = true
      rcases (upd_eq _ _ _ _ _).mp hx with ⟨_, h2⟩ | ⟨hne, h2⟩
      · cases h2
      · rcases tm x u h2 with h3 | h3 | h3
        · exact Or.inl h3
        · rw [hd] at h3
          simp only [List.mem_cons] at h3
          rcases h3 with h4 | h4
          · -- u = t: then x and r are both recorded under t, so x = r: contradiction
            subst h4
            exact absurd (si x r u (rs x u h2) (rs r u hp)) hne
          · exact Or.inr (Or.inl h4)
        · exact Or.inr (Or.inr h3)
  | wTimeoutMiss t rest hw hd hnone =>
    refine ⟨ex, rs, rp, sl, si, us, cu, dd, ?_, lo⟩
    intro x u hx
    show u ∈ s.timers ∨ u ∈ rest ∨ s.stopClosed = true
    rcases tm x u hx with h3 | h3 | h3
    · exact Or.inl h3
    · rw [hd] at h3
      simp only [List.mem_cons] at h3
      rcases h3 with h4 | h4
      · subst h4; exact absurd hx (hnone x)
      · exact Or.inr (Or.inl h4)
    · exact Or.inr (Or.inr h3)
  | wStop hw hs =>
    refine ⟨?_, ?_, ?_, sl, si, ?_, cu, ?_, ?_, lo⟩
    · intro x
      show (match s.place x with | .act => Place.done .closed | .recorded _ => .done .closed | p => p) = .notYet ↔ s.created ≤ x
      rw [← ex x]
      cases hx : s.place x <;> simp
    · intro x u hx
      have hx' : (match s.place x with | .act => Place.done .closed | .recorded _ => .done .closed | p => p) = .recorded u := hx
      cases hp : s.place x <;> simp [hp] at hx'
    · intro x e hx
      have hx' : (match s.place x with | .act => Place.done .closed | .recorded _ => .done .closed | p => p) = .done (.response e) := hx
      cases hp : s.place x <;> simp [hp] at hx'
      exact rp x e (by rw [hp, hx'])
    · intro x hx
      apply us x
      have hx' : (match s.place x with | .act => Place.done .closed | .recorded _ => .done .closed | p => p) = .ops ∨
          (match s.place x with | .act => Place.done .closed | .recorded _ => .done .closed | p => p) = .act ∨
          (match s.place x with | .act => Place.done .closed | .recorded _ => .done .closed | p => p) = .notYet := hx
      cases hp : s.place x <;> simp [hp] at hx' ⊢
    · intro _
      refine ⟨hs, fun x => ⟨?_, fun u => ?_⟩⟩
      · show (match s.place x with | .act => Place.done .closed | .recorded _ => .done .closed | p => p) ≠ .act
        cases hp : s.place x <;> simp
      · show (match s.place x with | .act => Place.done .closed | .recorded _ => .done .closed | p => p) ≠ .recorded u
        cases hp : s.place x <;> simp
    · intro x u hx
      exact Or.inr (Or.inr hs)
end JT.Act
