import JT.Model.RtpChecked
import JT.Proof.FrameChecked
/-! The checked RTP decoder equals the total one: no access of `decodeHead` / `Decode` is ever out of range. -/
namespace JT.Rtp
open JT
open JT.Layout (slice)
open JT.AttStream (idx slice_eq idx_eq)
open JT.Frame (be16At be16At_eq)

theorem idx_getD (b : Bytes) (i : Nat) (h : i < b.length) : idx b i = .ok (b.getD i 0) := by
  rw [idx_eq b i h]; simp [List.getD_eq_getElem?_getD, List.getElem?_eq_getElem h]

theorem be64At_eq (b : Bytes) (i : Nat) (h : i + 8 ≤ b.length) :
    be64At b i = .ok (beN ((b.drop i).take 8)) := by
  simp only [be64At, slice_eq b i (i + 8) (by omega) h, Res.bind_ok, Res.pure_eq]
  congr 3; omega

/-- Go `b[:hi]` -/
theorem slice_zero (b : Bytes) (hi : Nat) (h : hi ≤ b.length) : slice b 0 hi = .ok (b.take hi) := by
  rw [slice_eq b 0 hi (by omega) h]; simp

/-- Go `b[lo:]` -/
theorem slice_to_end (b : Bytes) (lo : Nat) (h : lo ≤ b.length) : slice b lo b.length = .ok (b.drop lo) := by
  rw [slice_eq b lo b.length h (by omega)]
  congr 1
  apply List.take_of_length_le
  simp

/-- the tail of `Decode`: `data[headEnd:]`, `body[:n]`, `body[n:]` are in range once `headEnd ≤ len(data)` -/
theorem decodeBodyC_eq (d : Bytes) (h : HeadC) (hle : h.headEnd ≤ d.length) :
    decodeBodyC d h =
      .ok (if (d.drop h.headEnd).length < h.bodyLen then .short
           else .ok ({ h.pkt with body := (d.drop h.headEnd).take h.bodyLen }, (d.drop h.headEnd).drop h.bodyLen)) := by
  unfold decodeBodyC
  rw [slice_to_end d _ hle, Res.bind_ok]
  generalize d.drop h.headEnd = body
  by_cases hs : body.length < h.bodyLen
  · rw [if_pos hs, if_pos hs]; rfl
  · rw [if_neg hs, if_neg hs, slice_zero body _ (by omega), Res.bind_ok]
    by_cases he : body.length = h.bodyLen
    · rw [if_pos he, List.drop_of_length_le (by omega)]; rfl
    · rw [if_neg he, slice_to_end body _ (by omega)]; rfl

/-- **The length guards of the RTP decoder cover every memory access**: written with checked accesses, in the order
the Go code performs them, the decoder is the total model — in particular it never panics. -/
theorem decodeC_eq (d : Bytes) : decodeC d = .ok (decode d) := by
  unfold decodeC decodeHeadC decode
  by_cases h16 : d.length < 16
  · simp [h16]
  · rw [if_neg h16, if_neg h16, slice_zero d 4 (by omega), Res.bind_ok]
    by_cases hm : d.take 4 ≠ marker
    · rw [if_pos hm, if_pos hm, slice_zero d 16 (by omega)]; rfl
    · rw [if_neg hm, if_neg hm, idx_getD d 4 (by omega), Res.bind_ok, idx_getD d 5 (by omega), Res.bind_ok,
        be16At_eq d 6 (by omega), Res.bind_ok, slice_eq d 8 14 (by omega) (by omega), Res.bind_ok,
        idx_getD d 14 (by omega), Res.bind_ok, idx_getD d 15 (by omega), Res.bind_ok, Res.bind_ok]
      simp only []
      have hb : (d.getD 15 0).toNat / 16 % 16 = (d.getD 15 0).toNat / 16 := by
        have := (d.getD 15 0).toNat_lt; omega
      have hv4 : (d.getD 4 0).toNat / 64 % 4 = (d.getD 4 0).toNat / 64 := by
        have := (d.getD 4 0).toNat_lt; omega
      have hm2 : (d.getD 5 0).toNat / 128 % 2 = (d.getD 5 0).toNat / 128 := by
        have := (d.getD 5 0).toNat_lt; omega
      simp only [hb, hv4, hm2]
      generalize (d.getD 15 0).toNat / 16 = dt
      have hvid : (dt = 0 ∨ dt = 1 ∨ dt = 2) ↔ dt ≤ 2 := by omega
      simp only [hvid]
      by_cases hts : dt = 4
      · subst hts
        simp only [ne_eq, not_true_eq_false, decide_false, Bool.false_eq_true, if_false, Nat.add_zero,
          show ¬ (4 ≤ 2) by omega]
        by_cases hl : d.length < 18
        · rw [if_pos hl, if_pos hl]; rfl
        · rw [if_neg hl, if_neg hl]
          simp only [Res.pure_eq, Res.bind_ok]
          rw [be16At_eq d 16 (by omega), Res.bind_ok, Res.bind_ok]
          simp only []
          rw [decodeBodyC_eq d _ (by show _ + 2 ≤ _; omega)]
      · simp only [ne_eq, hts, not_false_eq_true, decide_true, if_true]
        by_cases hv : dt ≤ 2
        · simp only [hv, decide_true, if_true]
          by_cases hl : d.length < 18 + 8 + 4
          · rw [if_pos hl, if_pos hl]; rfl
          · rw [if_neg hl, if_neg hl, be64At_eq d 16 (by omega), Res.bind_ok, be16At_eq d 24 (by omega), Res.bind_ok,
              be16At_eq d (24 + 2) (by omega), Res.bind_ok, be16At_eq d (24 + 4) (by omega), Res.bind_ok,
              Res.pure_eq, Res.bind_ok]
            simp only []
            rw [decodeBodyC_eq d _ (by show _ + 2 ≤ _; omega)]
        · simp only [hv, decide_false, Bool.false_eq_true, if_false, Nat.add_zero]
          by_cases hl : d.length < 18 + 8
          · rw [if_pos hl, if_pos hl]; rfl
          · rw [if_neg hl, if_neg hl, be64At_eq d 16 (by omega), Res.bind_ok]
            simp only [Res.pure_eq, Res.bind_ok]
            rw [be16At_eq d 24 (by omega), Res.bind_ok, Res.bind_ok]
            simp only []
            rw [decodeBodyC_eq d _ (by show _ + 2 ≤ _; omega)]

/-- whatever bytes arrive, no slice or index expression of `decodeHead` / `Decode` is out of range -/
theorem decodeC_ne_panic (d : Bytes) : decodeC d ≠ .panic := by
  rw [decodeC_eq]; intro h; cases h

end JT.Rtp
