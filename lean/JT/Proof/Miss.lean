import JT.Model.Miss
/-! Helper lemmas for C16: the sorted fold reports exactly the uncovered indices. -/
namespace JT.Miss

/-- non-wrapping versions used in the proofs -/
def gaps : Nat → List Seg → List Seg
  | _, [] => []
  | cur, s :: r => (if cur < s.off then [⟨cur, s.off - cur⟩] else []) ++ gaps (s.off + s.len) r

def fin : Nat → List Seg → Nat
  | cur, [] => cur
  | _, s :: r => fin (s.off + s.len) r

def covered (segs : List Seg) (i : Nat) : Prop := ∃ s ∈ segs, s.off ≤ i ∧ i < s.off + s.len

/-- sorted, pairwise disjoint, non-empty, starting at or after `lo` -/
def Chain : Nat → List Seg → Prop
  | _, [] => True
  | lo, s :: r => lo ≤ s.off ∧ 0 < s.len ∧ Chain (s.off + s.len) r

theorem gapsW_eq (F : Nat) (hF : F < W) : ∀ (cur : Nat) (segs : List Seg),
    (∀ s ∈ segs, s.off + s.len ≤ F) → gapsW cur segs = gaps cur segs ∧ finW cur segs = fin cur segs
  | _, [], _ => ⟨rfl, rfl⟩
  | cur, s :: r, h => by
    have hs := h s (by simp)
    have hm : (s.off + s.len) % W = s.off + s.len := Nat.mod_eq_of_lt (by omega)
    have ih := gapsW_eq F hF (s.off + s.len) r (fun t ht => h t (by simp [ht]))
    simp only [gapsW, finW, gaps, fin, hm, ih.1, ih.2, and_self]

theorem fin_ge (lo : Nat) (segs : List Seg) (h : Chain lo segs) : lo ≤ fin lo segs := by
  induction segs generalizing lo with
  | nil => simp [fin]
  | cons s r ih =>
    obtain ⟨h1, h2, h3⟩ := h
    have := ih _ h3
    simp only [fin]; omega

theorem covered_ge (lo : Nat) (segs : List Seg) (h : Chain lo segs) (i : Nat)
    (hc : covered segs i) : lo ≤ i := by
  induction segs generalizing lo with
  | nil => obtain ⟨s, hs, _⟩ := hc; cases hs
  | cons s r ih =>
    obtain ⟨h1, h2, h3⟩ := h
    obtain ⟨t, ht, ht1, ht2⟩ := hc
    cases ht with
    | head => omega
    | tail _ hm => have := ih _ h3 ⟨t, hm, ht1, ht2⟩; omega

theorem covered_lt_fin (lo : Nat) (segs : List Seg) (h : Chain lo segs) (i : Nat)
    (hc : covered segs i) : i < fin lo segs := by
  induction segs generalizing lo with
  | nil => obtain ⟨s, hs, _⟩ := hc; cases hs
  | cons s r ih =>
    obtain ⟨h1, h2, h3⟩ := h
    obtain ⟨t, ht, ht1, ht2⟩ := hc
    simp only [fin]
    cases ht with
    | head => have := fin_ge _ _ h3; omega
    | tail _ hm => exact ih _ h3 ⟨t, hm, ht1, ht2⟩

theorem gaps_ge (lo : Nat) (segs : List Seg) (h : Chain lo segs) (i : Nat)
    (hc : covered (gaps lo segs) i) : lo ≤ i := by
  induction segs generalizing lo with
  | nil => obtain ⟨s, hs, _⟩ := hc; cases hs
  | cons s r ih =>
    obtain ⟨h1, h2, h3⟩ := h
    obtain ⟨t, ht, ht1, ht2⟩ := hc
    simp only [gaps, List.mem_append] at ht
    rcases ht with ht | ht
    · split at ht
      · simp at ht; subst ht; simpa using ht1
      · cases ht
    · have := ih _ h3 ⟨t, ht, ht1, ht2⟩; omega

theorem gaps_lt_fin (lo : Nat) (segs : List Seg) (h : Chain lo segs) (i : Nat)
    (hc : covered (gaps lo segs) i) : i < fin lo segs := by
  induction segs generalizing lo with
  | nil => obtain ⟨s, hs, _⟩ := hc; cases hs
  | cons s r ih =>
    obtain ⟨h1, h2, h3⟩ := h
    obtain ⟨t, ht, ht1, ht2⟩ := hc
    simp only [gaps, List.mem_append] at ht
    simp only [fin]
    rcases ht with ht | ht
    · split at ht
      · simp at ht; subst ht; simp at ht2; have := fin_ge _ _ h3; omega
      · cases ht
    · exact ih _ h3 ⟨t, ht, ht1, ht2⟩

/-- inside `[lo, fin)` an index is in an emitted gap iff it is in no received segment -/
theorem gaps_exact (lo : Nat) (segs : List Seg) (h : Chain lo segs) (i : Nat)
    (hlo : lo ≤ i) (hi : i < fin lo segs) :
    covered (gaps lo segs) i ↔ ¬ covered segs i := by
  induction segs generalizing lo with
  | nil => simp [fin] at hi; omega
  | cons s r ih =>
    obtain ⟨h1, h2, h3⟩ := h
    simp only [fin] at hi
    by_cases hin : i < s.off + s.len
    · have hr : ¬ covered r i := fun hc => by have := covered_ge _ _ h3 i hc; omega
      have hg : ¬ covered (gaps (s.off + s.len) r) i := fun hc => by
        have := gaps_ge _ _ h3 i hc; omega
      constructor
      · rintro ⟨t, ht, ht1, ht2⟩
        simp only [gaps, List.mem_append] at ht
        rcases ht with ht | ht
        · split at ht
          · simp at ht; subst ht
            rintro ⟨u, hu, hu1, hu2⟩
            cases hu with
            | head => simp at ht2; omega
            | tail _ hm => exact hr ⟨u, hm, hu1, hu2⟩
          · cases ht
        · exact absurd ⟨t, ht, ht1, ht2⟩ hg
      · intro hnc
        have hlt : i < s.off := by
          apply Classical.byContradiction; intro hge
          exact hnc ⟨s, List.mem_cons_self, by omega, hin⟩
        refine ⟨⟨lo, s.off - lo⟩, ?_, hlo, by simp; omega⟩
        simp only [gaps, List.mem_append]
        left; rw [if_pos (by omega)]; simp
    · have hin' : s.off + s.len ≤ i := by omega
      have := ih _ h3 hin' hi
      constructor
      · rintro ⟨t, ht, ht1, ht2⟩
        simp only [gaps, List.mem_append] at ht
        rcases ht with ht | ht
        · split at ht
          · simp at ht; subst ht; simp at ht2; omega
          · cases ht
        · have hnr := this.mp ⟨t, ht, ht1, ht2⟩
          rintro ⟨u, hu, hu1, hu2⟩
          cases hu with
          | head => omega
          | tail _ hm => exact hnr ⟨u, hm, hu1, hu2⟩
      · intro hnc
        have hnr : ¬ covered r i := fun ⟨u, hu, hu1, hu2⟩ => hnc ⟨u, List.mem_cons_of_mem _ hu, hu1, hu2⟩
        obtain ⟨t, ht, ht1, ht2⟩ := this.mpr hnr
        exact ⟨t, by simp only [gaps, List.mem_append]; right; exact ht, ht1, ht2⟩

/-- the emitted gaps are a chain themselves: ascending, non-empty, and *strictly* separated
(between two consecutive gaps there is at least one received byte), i.e. they are maximal. -/
def Sep : Nat → List Seg → Prop
  | _, [] => True
  | lo, g :: r => lo ≤ g.off ∧ 0 < g.len ∧ Sep (g.off + g.len + 1) r

theorem sep_mono (a b : Nat) (h : a ≤ b) : ∀ (l : List Seg), Sep b l → Sep a l
  | [], _ => trivial
  | g :: r, ⟨h1, h2, h3⟩ => ⟨by omega, h2, h3⟩

theorem gaps_sep (lo : Nat) (segs : List Seg) (h : Chain lo segs) : Sep lo (gaps lo segs) := by
  induction segs generalizing lo with
  | nil => trivial
  | cons s r ih =>
    obtain ⟨h1, h2, h3⟩ := h
    have := ih _ h3
    simp only [gaps]
    split
    · next hlt =>
      show Sep lo (⟨lo, s.off - lo⟩ :: gaps (s.off + s.len) r)
      exact ⟨Nat.le_refl _, by show 0 < s.off - lo; omega,
        sep_mono _ _ (by show lo + (s.off - lo) + 1 ≤ s.off + s.len; omega) _ this⟩
    · exact sep_mono _ _ (by omega) _ this

end JT.Miss
