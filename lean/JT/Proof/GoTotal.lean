import JT.Proof.GoSem
/-! `if`-forms of the checked accessors and the tactic `go_total` (see JT/Proof/GoModel.lean) -/
namespace JT.Go
open JT

def u16v (l : Bytes) : UInt16 := ((l.getD 0 0).toUInt16 <<< 8) ||| (l.getD 1 0).toUInt16
theorem u16_ite (l : Bytes) : u16 l = if 2 ≤ l.length then X.ok (u16v l) else X.panic := by
  match l with
  | [] => rfl
  | [_] => rfl
  | a :: c :: r => simp [u16, u16v]
def u32v (l : Bytes) : UInt32 := UInt32.ofNat (beN (l.take 4))
theorem u32_ite (l : Bytes) : u32 l = if 4 ≤ l.length then X.ok (u32v l) else X.panic := by
  match l with
  | [] => rfl
  | [_] => rfl
  | [_, _] => rfl
  | [_, _, _] => rfl
  | a :: c :: d :: e :: r => simp [u32, u32v]
def u64v (l : Bytes) : UInt64 := UInt64.ofNat (beN (l.take 8))
theorem u64_ite (l : Bytes) : u64 l = if 8 ≤ l.length then X.ok (u64v l) else X.panic := by
  match l with
  | [] => rfl
  | [_] => rfl
  | [_, _] => rfl
  | [_, _, _] => rfl
  | [_, _, _, _] => rfl
  | [_, _, _, _, _] => rfl
  | [_, _, _, _, _, _] => rfl
  | [_, _, _, _, _, _, _] => rfl
  | a :: c :: d :: e :: f :: g :: h :: i :: r => simp [u64, u64v]
theorem bind_ite {α β} (c : Prop) [Decidable c] (a : α) (f : α → X β) :
    X.bind (if c then X.ok a else X.panic) f = if c then f a else X.panic := by
  split <;> rfl
theorem bind_ite' {α β} (c : Prop) [Decidable c] (a b : X α) (f : α → X β) :
    X.bind (if c then a else b) f = if c then X.bind a f else X.bind b f := by
  split <;> rfl
theorem idx_ite (b : Bytes) (i : Int) : idx b i = if 0 ≤ i ∧ i.toNat < b.length then X.ok (b.getD i.toNat 0) else X.panic := by
  unfold idx
  by_cases h0 : 0 ≤ i
  · by_cases h1 : i.toNat < b.length
    · simp [h0, h1]
    · simp [h0, h1]
  · simp [h0]
theorem make_ite (n : Int) : make n = if 0 ≤ n then X.ok (List.replicate n.toNat 0) else X.panic := rfl
theorem makeCap_ite (n c : Int) : makeCap n c = if 0 ≤ n ∧ n ≤ c then X.ok (List.replicate n.toNat 0) else X.panic := rfl

/-- the run returned a value (no panic, fuel not exhausted) -/
def X.isOk {α} : X α → Bool
  | .ok _ => true
  | _ => false
theorem X.isOk_iff {α} (x : X α) : x.isOk = true ↔ ∃ r, x = X.ok r := by
  cases x <;> simp [X.isOk]

theorem X.isOk_ite_iff {α} (c : Prop) [Decidable c] (a b : X α) :
    ((if c then a else b).isOk = true) ↔ ((c → a.isOk = true) ∧ (¬c → b.isOk = true)) := by
  by_cases h : c <;> simp [h]
theorem X.isOk_ok {α} (a : α) : ((X.ok a : X α).isOk = true) ↔ True := by simp [X.isOk]
theorem X.isOk_panic {α} : ((X.panic : X α).isOk = true) ↔ False := by simp [X.isOk]

/-- every branch returns a value: the `panic` branches contradict the guards on their path -/
macro "go_total" : tactic => `(tactic| (
  try simp only [sliceTo, sliceFrom, slice, putU16At, putU32At, setIdx, Go.be16, Go.be32, List.length_replicate, List.length_set, List.length_append, List.length_cons, List.length_nil, idx_ite, u16_ite, u32_ite, u64_ite, make_ite, makeCap_ite, bind_ite', X.bind_ok, X.bind_panic, len_eq,
    List.length_take, List.length_drop]
  simp only [X.isOk_ite_iff, X.isOk_ok, X.isOk_panic, bind_ite', X.bind_ok, X.bind_panic, implies_true, and_true, true_and]
  repeat' (first | (intro _) | constructor)
  all_goals first | trivial | omega |
    (try simp only [bne_iff_ne, beq_iff_eq, ne_eq, Bool.not_eq_true, Bool.not_eq_false, decide_eq_true_eq, decide_eq_false_iff_not,
       Decidable.not_not, Int.reduceToNat, Bool.false_eq_true, Bool.true_eq_false, Int.ofNat_eq_natCast, len_eq, Nat.sub_zero] at *
     try simp only [decide_eq_false_iff_not, decide_eq_true_eq, Decidable.not_not] at *
     omega)))

end JT.Go
