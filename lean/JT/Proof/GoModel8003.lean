import JT.Proof.GoModel9212
/-!
# 0x8003 (re-request of missing sub-packages) — `Parse ∘ Encode` on the code translated from protocol/model/p_0x8003.go
-/
namespace JT.Gen.GoModel
open JT JT.Go JT.Gen.GoFrame

theorem u16_be16 (v : UInt16) (rest : Bytes) : u16 ([(v >>> (8 : UInt16)).toUInt8, v.toUInt8] ++ rest) = X.ok v := by
  obtain ⟨w, h1, h2⟩ := u16_cons (v >>> (8 : UInt16)).toUInt8 v.toUInt8 rest
  simp only [List.cons_append, List.nil_append]
  rw [h1]
  congr 1
  apply UInt16.toNat_inj.mp
  rw [h2]
  have hv := v.toNat_lt
  simp only [UInt16.toNat_toUInt8, UInt16.toNat_shiftRight, Nat.shiftRight_eq_div_pow]
  rw [show (8 : UInt16).toNat % 16 = 8 by decide]
  omega

def enc8003 (v : UInt16) : Bytes := [(v >>> (8 : UInt16)).toUInt8, v.toUInt8]
theorem flat8003_length (es : List UInt16) : (es.flatMap enc8003).length = 2 * es.length := by
  induction es with
  | nil => rfl
  | cons e r ih => simp only [List.flatMap_cons, List.length_append, enc8003, List.length_cons, List.length_nil, ih]; omega

theorem enc8003_loop (p : model_P0x8003) (rng : List UInt16) : ∀ (fuel i : Nat) (data : Bytes) (k : Int), k = (i : Int) →
    i ≤ rng.length → rng.length - i < fuel →
    model_P0x8003_Encode_loop1 fuel p data rng k = X.ok (data ++ (rng.drop i).flatMap enc8003)
  | 0, _, _, _, _, _, h => by omega
  | fuel + 1, i, data, k, hk, hi, hf => by
    subst hk
    unfold model_P0x8003_Encode_loop1
    by_cases hlt : i < rng.length
    · have c : decide ((i : Int) < Int.ofNat rng.length) = true := decide_eq_true (by simp; exact hlt)
      simp only [c, if_true, lidx_lt rng i hlt, X.bind_ok]
      rw [enc8003_loop p rng fuel (i + 1) _ _ (by omega) (by omega) (by omega)]
      rw [List.drop_eq_getElem_cons hlt]
      simp only [List.flatMap_cons, enc8003, List.append_assoc]
    · have c : decide ((i : Int) < Int.ofNat rng.length) = false := decide_eq_false (by simp; omega)
      simp only [c, Bool.false_eq_true, if_false]
      have : rng.drop i = [] := List.drop_eq_nil_of_le (by omega)
      simp [this]

theorem encode_8003 (fuel : Nat) (p : model_P0x8003) (hf : p.AgainPackageList.length < fuel) :
    model_P0x8003_Encode fuel p = X.ok ([(p.OriginalSerialNumber >>> (8 : UInt16)).toUInt8, p.OriginalSerialNumber.toUInt8, p.AgainPackageCount] ++
      p.AgainPackageList.flatMap enc8003) := by
  unfold model_P0x8003_Encode
  have hm : make (3 : Int) = X.ok [0, 0, 0] := rfl
  have hp : putU16At [(0 : UInt8), 0, 0] (0 : Int) (2 : Int) p.OriginalSerialNumber =
      X.ok [(p.OriginalSerialNumber >>> (8 : UInt16)).toUInt8, p.OriginalSerialNumber.toUInt8, 0] := by
    unfold putU16At; simp [Go.be16]
  have hs : ∀ a b : UInt8, setIdx [a, b, (0 : UInt8)] (2 : Int) p.AgainPackageCount = X.ok [a, b, p.AgainPackageCount] := by
    intro a b; unfold setIdx; simp
  simp only [hm, X.bind_ok, hp, hs]
  rw [enc8003_loop p _ fuel 0 _ 0 rfl (by omega) (by omega)]
  simp

theorem drop_flat8003 : ∀ (es : List UInt16) (i : Nat), i ≤ es.length →
    (es.flatMap enc8003).drop (2 * i) = (es.drop i).flatMap enc8003
  | [], i, _ => by simp
  | e :: r, 0, _ => by simp
  | e :: r, n + 1, hi => by
    simp only [List.flatMap_cons, List.drop_succ_cons]
    rw [show 2 * (n + 1) = (enc8003 e).length + 2 * n by simp [enc8003]; omega, List.drop_length_add_append]
    exact drop_flat8003 r n (by simp at hi; omega)

theorem dec8003_loop (j : jt808_JTMessage) (pre : Bytes) (es : List UInt16) (hpre : pre.length = 3) :
    ∀ (fuel i : Nat) (p : model_P0x8003) (k : Int), k = (i : Int) → i ≤ es.length →
    p.AgainPackageCount.toNat = es.length → es.length - i < fuel →
    model_P0x8003_Parse_loop1 fuel p j (pre ++ es.flatMap enc8003) k =
      X.ok { p with AgainPackageList := p.AgainPackageList ++ es.drop i }
  | 0, _, _, _, _, _, _, h => by omega
  | fuel + 1, i, p, k, hk, hi, hc, hf => by
    subst hk
    unfold model_P0x8003_Parse_loop1
    by_cases hlt : i < es.length
    · have c : decide ((i : Int) < Int.ofNat p.AgainPackageCount.toNat) = true := decide_eq_true (by rw [hc]; simp; exact hlt)
      have blen : (pre ++ es.flatMap enc8003).length = 3 + 2 * es.length := by simp only [List.length_append, hpre, flat8003_length]
      have e1 : ((3 : Int) + ((2 : Int) * (i : Int))) = ((pre.length + 2 * i : Nat) : Int) := by omega
      have e2 : ((pre.length + 2 * i : Nat) : Int) + (2 : Int) = ((pre.length + 2 * i + 2 : Nat) : Int) := by omega
      simp only [c, if_true, e1, e2]
      rw [slice_ok _ (pre.length + 2 * i) (pre.length + 2 * i + 2) (by omega) (by omega)]
      have hcons : es.drop i = es[i] :: es.drop (i + 1) := List.drop_eq_getElem_cons hlt
      have d1 : (pre ++ es.flatMap enc8003).drop (pre.length + 2 * i) = enc8003 es[i] ++ (es.drop (i + 1)).flatMap enc8003 := by
        rw [List.drop_length_add_append, drop_flat8003 es i hi, hcons, List.flatMap_cons]
      have ht : ((pre ++ es.flatMap enc8003).drop (pre.length + 2 * i)).take (pre.length + 2 * i + 2 - (pre.length + 2 * i)) = enc8003 es[i] := by
        rw [d1, show pre.length + 2 * i + 2 - (pre.length + 2 * i) = (enc8003 es[i]).length by simp [enc8003], List.take_left' rfl]
      rw [ht]
      have hu : u16 (enc8003 es[i]) = X.ok es[i] := by
        have := u16_be16 es[i] []
        simpa [enc8003] using this
      simp only [X.bind_ok, hu]
      have e3 : ((i : Int) + (1 : Int)) = ((i + 1 : Nat) : Int) := by omega
      rw [dec8003_loop j pre es hpre fuel (i + 1) _ _ e3 (by omega) (by simp only []; exact hc) (by omega), hcons]
      simp only [List.append_assoc, List.cons_append, List.nil_append]
    · have c : decide ((i : Int) < Int.ofNat p.AgainPackageCount.toNat) = false := decide_eq_false (by rw [hc]; simp; omega)
      simp only [c, Bool.false_eq_true, if_false]
      have : es.drop i = [] := List.drop_eq_nil_of_le (by omega)
      simp [this]

/-- **0x8003 round trip on the translated source**: every list of package numbers whose length fits the count byte
survives the frame body, with the original serial, in order. -/
theorem roundtrip_8003 (fuel : Nat) (p q : model_P0x8003) (j : jt808_JTMessage)
    (hc : p.AgainPackageCount.toNat = p.AgainPackageList.length) (hf : 2 * p.AgainPackageList.length + 8 < fuel) :
    ∃ body, model_P0x8003_Encode fuel p = X.ok body ∧
      ∃ r, model_P0x8003_Parse fuel q { j with Body := body } = X.ok (r, none) ∧
        r.OriginalSerialNumber = p.OriginalSerialNumber ∧ r.AgainPackageCount = p.AgainPackageCount ∧
        r.AgainPackageList = p.AgainPackageList := by
  refine ⟨_, encode_8003 fuel p (by omega), ?_⟩
  generalize hes : p.AgainPackageList = es at *
  have hpre : ([(p.OriginalSerialNumber >>> (8 : UInt16)).toUInt8, p.OriginalSerialNumber.toUInt8, p.AgainPackageCount]).length = 3 := rfl
  generalize hb : [(p.OriginalSerialNumber >>> (8 : UInt16)).toUInt8, p.OriginalSerialNumber.toUInt8, p.AgainPackageCount] = pre at *
  have blen : (pre ++ es.flatMap enc8003).length = 3 + 2 * es.length := by simp only [List.length_append, hpre, flat8003_length]
  simp only [model_P0x8003_Parse, model_P0x8003_Parse_j3, model_P0x8003_Parse_j2]
  have c3 : decide (len (pre ++ es.flatMap enc8003) < (3 : Int)) = false := decide_eq_false (by simp only [len_eq]; omega)
  simp only [c3, Bool.false_eq_true, if_false]
  have hs : sliceTo (pre ++ es.flatMap enc8003) (2 : Int) = X.ok [(p.OriginalSerialNumber >>> (8 : UInt16)).toUInt8, p.OriginalSerialNumber.toUInt8] := by
    unfold sliceTo
    have := slice_ok (pre ++ es.flatMap enc8003) 0 2 (by omega) (by omega)
    simp only [Int.cast_ofNat_Int] at this
    rw [this, ← hb]; rfl
  have hu := u16_be16 p.OriginalSerialNumber []
  simp only [List.append_nil] at hu
  have g2 : idx (pre ++ es.flatMap enc8003) (2 : Int) = X.ok p.AgainPackageCount := by rw [← hb]; rfl
  simp only [hs, X.bind_ok, hu, g2, Int.ofNat_eq_natCast, hc]
  have clen : (len (pre ++ es.flatMap enc8003) != (3 : Int) + (2 : Int) * (es.length : Int)) = false := by
    simp only [len_eq, blen, bne_eq_false_iff_eq]; omega
  simp only [clen, Bool.false_eq_true, if_false]
  rw [dec8003_loop { j with Body := pre ++ es.flatMap enc8003 } pre es hpre fuel 0 _ 0 rfl (by omega) (by simp only []; exact hc) (by omega)]
  simp only [X.bind_ok, List.nil_append, List.drop_zero]
  exact ⟨_, rfl, rfl, rfl, rfl⟩

end JT.Gen.GoModel
