import JT.Model.UnescChecked
import JT.Proof.Frame
import JT.Proof.AttStream
/-! The index-based `unescape` loop equals the list-recursive model and never leaves the frame. -/
namespace JT.Frame
open JT
open JT.AttStream (slice_eq idx_eq)

/-- bytes `a … b-1` of `d` -/
def seg (d : Bytes) (a b : Nat) : Bytes := (d.drop a).take (b - a)

theorem seg_self (d : Bytes) (a : Nat) : seg d a a = [] := by simp [seg]

theorem seg_split (d : Bytes) (a b c : Nat) (h1 : a ≤ b) (h2 : b ≤ c) (_h3 : c ≤ d.length) :
    seg d a c = seg d a b ++ seg d b c := by
  unfold seg
  have e1 : c - a = (b - a) + (c - b) := by omega
  rw [e1, List.take_add]
  congr 1
  rw [List.drop_drop]
  congr 2
  omega

theorem seg_one (d : Bytes) (i : Nat) (h : i < d.length) : seg d i (i + 1) = [d[i]] := by
  unfold seg
  rw [show i + 1 - i = 1 by omega, List.drop_eq_getElem_cons h]
  rfl

theorem seg_succ (d : Bytes) (a i : Nat) (h1 : a ≤ i) (h2 : i < d.length) : seg d a (i + 1) = seg d a i ++ [d[i]] := by
  rw [seg_split d a i (i + 1) h1 (by omega) (by omega), seg_one d i h2]

theorem unescBody_plain : ∀ (l : Bytes), (∀ x ∈ l, x ≠ 0x7d) → unescBody l = some l
  | [], _ => rfl
  | b :: r, h => by
    rw [unescBody_cons_ne b r (h b (by simp)), unescBody_plain r (fun x hx => h x (by simp [hx]))]
    rfl

theorem unescBody_run : ∀ (run rest : Bytes), (∀ x ∈ run, x ≠ 0x7d) →
    unescBody (run ++ rest) = (unescBody rest).map (run ++ ·)
  | [], rest, _ => by simp
  | b :: r, rest, h => by
    rw [List.cons_append, unescBody_cons_ne b _ (h b (by simp)), unescBody_run r rest (fun x hx => h x (by simp [hx]))]
    cases unescBody rest <;> simp

theorem unescBody_7d_01 (r : Bytes) : unescBody (0x7d :: 0x01 :: r) = (unescBody r).map (0x7d :: ·) := by
  simp [unescBody]
theorem unescBody_7d_02 (r : Bytes) : unescBody (0x7d :: 0x02 :: r) = (unescBody r).map (0x7e :: ·) := by
  simp [unescBody]
theorem unescBody_7d_other (w : Byte) (r : Bytes) (h1 : w ≠ 0x01) (h2 : w ≠ 0x02) : unescBody (0x7d :: w :: r) = none := by
  simp [unescBody, h1, h2]

/-- the loop invariant: with the pending run free of `7d`, the loop computes `unescBody` of what is left -/
theorem unescLoopC_spec (d : Bytes) (hlast : d.length ≥ 1) (hz : d[d.length - 1]'(by omega) = 0x7e) :
    ∀ (fuel i index : Nat) (buf : Bytes), index ≤ i → i ≤ d.length - 1 → (∀ x ∈ seg d index i, x ≠ 0x7d) →
      d.length - 1 - i < fuel →
      unescLoopC d fuel i index buf = .ok ((unescBody (seg d index (d.length - 1))).map (buf ++ ·))
  | 0, _, _, _, _, _, _, hf => by omega
  | fuel + 1, i, index, buf, h1, h2, hrun, hf => by
    unfold unescLoopC
    by_cases hi : i < d.length - 1
    · rw [if_pos hi, idx_eq d i (by omega), Res.bind_ok]
      by_cases hv : d[i]'(by omega) = 0x7d
      · rw [if_pos hv, idx_eq d (i + 1) (by omega), Res.bind_ok]
        -- what is left starts with the run, then 7d, then d[i+1]
        have hsplit : seg d index (d.length - 1) = seg d index i ++ (0x7d :: seg d (i + 1) (d.length - 1)) := by
          rw [seg_split d index i (d.length - 1) h1 (by omega) (by omega),
            seg_split d i (i + 1) (d.length - 1) (by omega) (by omega) (by omega), seg_one d i (by omega), hv]
          rfl
        by_cases hw1 : d[i + 1]'(by omega) = 0x01
        · -- i+1 is not the closing delimiter
          have hne : i + 1 ≠ d.length - 1 := by
            intro e
            have : d[i + 1]'(by omega) = 0x7e := by simp only [e]; exact hz
            rw [hw1] at this; cases this
          rw [if_pos hw1, slice_eq d index (i + 1 - 1) (by omega) (by omega), Res.bind_ok,
            unescLoopC_spec d hlast hz fuel (i + 2) (i + 2) _ (Nat.le_refl _) (by omega) (by simp [seg_self]) (by omega)]
          have hsplit2 : seg d (i + 1) (d.length - 1) = 0x01 :: seg d (i + 2) (d.length - 1) := by
            rw [seg_split d (i + 1) (i + 2) (d.length - 1) (by omega) (by omega) (by omega), seg_one d (i + 1) (by omega), hw1]
            rfl
          rw [hsplit, hsplit2, unescBody_run _ _ hrun, unescBody_7d_01]
          have : (d.drop index).take (i + 1 - 1 - index) = seg d index i := by simp [seg]
          rw [this]
          cases unescBody (seg d (i + 2) (d.length - 1)) <;> simp
        · rw [if_neg hw1]
          by_cases hw2 : d[i + 1]'(by omega) = 0x02
          · have hne : i + 1 ≠ d.length - 1 := by
              intro e
              have : d[i + 1]'(by omega) = 0x7e := by simp only [e]; exact hz
              rw [hw2] at this; cases this
            rw [if_pos hw2, slice_eq d index (i + 1 - 1) (by omega) (by omega), Res.bind_ok,
              unescLoopC_spec d hlast hz fuel (i + 2) (i + 2) _ (Nat.le_refl _) (by omega) (by simp [seg_self]) (by omega)]
            have hsplit2 : seg d (i + 1) (d.length - 1) = 0x02 :: seg d (i + 2) (d.length - 1) := by
              rw [seg_split d (i + 1) (i + 2) (d.length - 1) (by omega) (by omega) (by omega), seg_one d (i + 1) (by omega), hw2]
              rfl
            rw [hsplit, hsplit2, unescBody_run _ _ hrun, unescBody_7d_02]
            have : (d.drop index).take (i + 1 - 1 - index) = seg d index i := by simp [seg]
            rw [this]
            cases unescBody (seg d (i + 2) (d.length - 1)) <;> simp
          · rw [if_neg hw2]
            by_cases hend : i + 1 = d.length - 1
            · rw [if_pos hend, slice_eq d index (d.length - 1) (by omega) (by omega), Res.bind_ok]
              have hempty : seg d (i + 1) (d.length - 1) = [] := by rw [hend]; exact seg_self _ _
              rw [hsplit, hempty, unescBody_run _ _ hrun]
              have e7 : unescBody [0x7d] = some [0x7d] := rfl
              rw [e7]
              have : (d.drop index).take (d.length - 1 - index) = seg d index (d.length - 1) := rfl
              rw [this, hsplit, hempty]
              simp
            · rw [if_neg hend]
              have hsplit2 : seg d (i + 1) (d.length - 1) = d[i + 1]'(by omega) :: seg d (i + 2) (d.length - 1) := by
                rw [seg_split d (i + 1) (i + 2) (d.length - 1) (by omega) (by omega) (by omega), seg_one d (i + 1) (by omega)]
                rfl
              rw [hsplit, hsplit2, unescBody_run _ _ hrun, unescBody_7d_other _ _ hw1 hw2]
              rfl
      · rw [if_neg hv]
        exact unescLoopC_spec d hlast hz fuel (i + 1) index buf (by omega) (by omega)
          (by
            intro x hx
            rw [seg_succ d index i h1 (by omega)] at hx
            rcases List.mem_append.mp hx with h | h
            · exact hrun x h
            · simp only [List.mem_singleton] at h; rw [h]; exact hv) (by omega)
    · rw [if_neg hi]
      have hiL : i = d.length - 1 := by omega
      subst hiL
      by_cases hidx : index ≠ d.length - 1
      · rw [if_pos hidx, slice_eq d index (d.length - 1) (by omega) (by omega), Res.bind_ok, unescBody_plain _ hrun]
        rfl
      · rw [if_neg hidx]
        have : index = d.length - 1 := by omega
        rw [this, seg_self]
        simp [unescBody]

theorem seg_inner (b : Byte) (r : Bytes) (h : 2 ≤ r.length) : seg (b :: r) 1 ((b :: r).length - 1) = r.dropLast := by
  simp only [seg, List.length_cons, List.drop_succ_cons, List.drop_zero]
  rw [List.dropLast_eq_take]
  congr 1

/-- **`unescape` written with Go's indices equals the model, on every byte string** — no access outside the frame. -/
theorem unescapeC_eq (d : Bytes) : unescapeC d = .ok (unescape d) := by
  unfold unescapeC unescape inner?
  cases d with
  | nil => simp
  | cons b r =>
    by_cases hlen : (b :: r).length > 2
    · rw [if_pos hlen, idx_eq (b :: r) 0 (by simp), Res.bind_ok, idx_eq (b :: r) ((b :: r).length - 1) (by simp), Res.bind_ok]
      have hr2 : 2 ≤ r.length := by simp only [List.length_cons] at hlen; omega
      have hrne : r ≠ [] := by intro e; rw [e] at hr2; simp at hr2
      have hgl : r.getLast? = some ((b :: r)[(b :: r).length - 1]'(by simp)) := by
        rw [← List.getElem?_eq_getElem, ← List.getLast?_eq_getElem?]
        cases r with
        | nil => exact absurd rfl hrne
        | cons x xs => simp [List.getLast?_cons_cons]
      simp only [List.getElem_cons_zero]
      by_cases hcond : b = 0x7e ∧ (b :: r)[(b :: r).length - 1]'(by simp) = 0x7e
      · rw [if_pos hcond]
        have hz := hcond.2
        have hcond' : b = 0x7e ∧ 2 ≤ r.length ∧ r.getLast? = some 0x7e := ⟨hcond.1, hr2, by rw [hgl, hz]⟩
        rw [if_pos hcond']
        by_cases h7d : (0x7d : Byte) ∈ b :: r
        · rw [if_pos h7d, unescLoopC_spec (b :: r) (by simp) hz (b :: r).length 1 1 [] (Nat.le_refl _) (by simp; omega)
            (by simp [seg_self]) (by simp; omega), seg_inner b r hr2]
          show _ = Res.ok (unescBody r.dropLast)
          cases unescBody r.dropLast <;> simp
        · rw [if_neg h7d, slice_eq (b :: r) 1 _ (by simp; omega) (by simp), Res.bind_ok]
          have : ((b :: r).drop 1).take ((b :: r).length - 1 - 1) = r.dropLast := seg_inner b r hr2
          rw [this]
          simp only []
          rw [unescBody_plain]
          · rfl
          · intro x hx e
            exact h7d (by rw [← e]; exact List.mem_cons_of_mem _ (List.dropLast_subset _ hx))
      · rw [if_neg hcond]
        have hcond' : ¬ (b = 0x7e ∧ 2 ≤ r.length ∧ r.getLast? = some 0x7e) := by
          rintro ⟨h1, _, h3⟩
          apply hcond
          refine ⟨h1, ?_⟩
          rw [hgl] at h3
          exact Option.some.inj h3
        rw [if_neg hcond']
        rfl
    · rw [if_neg hlen]
      have : ¬ (b = 0x7e ∧ 2 ≤ r.length ∧ r.getLast? = some 0x7e) := by
        rintro ⟨_, h2, _⟩
        simp only [List.length_cons] at hlen
        omega
      show _ = Res.ok (match (if b = 0x7e ∧ 2 ≤ r.length ∧ r.getLast? = some 0x7e then some r.dropLast else none) with
        | none => none | some i => unescBody i)
      rw [if_neg this]
      rfl

theorem unescapeC_ne_panic (d : Bytes) : unescapeC d ≠ .panic := by rw [unescapeC_eq]; simp

end JT.Frame
