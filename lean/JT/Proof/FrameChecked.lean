import JT.Model.FrameChecked
import JT.Proof.AttStream
/-! The checked decoder equals the total one: no access of `Header.decode` / `Decode` is ever out of range. -/
namespace JT.Frame
open JT
open JT.AttStream (slice_eq idx_eq)

theorem beN_two (a b : Byte) : beN [a, b] = be16 a b := by
  simp [beN, be16]

theorem take2_drop (p : Bytes) (i : Nat) (h : i + 2 ≤ p.length) :
    (p.drop i).take 2 = [p.getD i 0, p.getD (i + 1) 0] := by
  have h1 : i < p.length := by omega
  have h2 : i + 1 < p.length := by omega
  simp only [List.getD_eq_getElem?_getD, List.getElem?_eq_getElem h1, List.getElem?_eq_getElem h2, Option.getD_some]
  apply List.ext_getElem
  · simp; omega
  · intro k hk1 hk2
    simp only [List.length_cons, List.length_nil] at hk2
    have : k = 0 ∨ k = 1 := by omega
    rcases this with rfl | rfl <;> simp

theorem be16At_eq (p : Bytes) (i : Nat) (h : i + 2 ≤ p.length) :
    be16At p i = .ok (be16 (p.getD i 0) (p.getD (i + 1) 0)) := by
  simp only [be16At, slice_eq p i (i + 2) (by omega) h, Res.bind_ok, Res.pure_eq]
  rw [show i + 2 - i = 2 by omega, take2_drop p i h, beN_two]

/-- **The length guards of the decoder cover every memory access**: written with checked accesses, the decoder is
the same function — in particular it never panics. -/
theorem decodePlainC_eq (p : Bytes) : decodePlainC p = decodePlain p := by
  unfold decodePlainC decodePlain
  by_cases h4 : p.length < 4
  · simp [h4]
  · rw [if_neg h4, if_neg h4, be16At_eq p 0 (by omega), Res.bind_ok, be16At_eq p 2 (by omega), Res.bind_ok]
    simp only []
    generalize be16 (p.getD 2 0) (p.getD (2 + 1) 0) = attr
    generalize (if attr / 16384 % 2 = 1 then 5 else 4) = start
    generalize (if attr / 16384 % 2 = 1 then 10 else 6) = phoneLen
    by_cases hl : p.length < start + phoneLen + 2
    · simp [hl]
    · rw [if_neg hl, if_neg hl, slice_eq p _ _ (by omega) (by omega), Res.bind_ok,
        be16At_eq p _ (by omega), Res.bind_ok]
      by_cases hf : attr / 8192 % 2 = 1
      · simp only [hf, true_and, if_true]
        by_cases he : p.length < start + phoneLen + 6
        · simp [he]
        · rw [if_neg he, if_neg he, be16At_eq p _ (by omega), Res.bind_ok, be16At_eq p _ (by omega), Res.bind_ok]
          by_cases hb : start + phoneLen + 2 + 4 + attr % 1024 + 1 ≠ p.length
          · simp [hb]
          · rw [if_neg hb, if_neg hb, slice_eq p _ _ (by omega) (by omega), Res.bind_ok,
              idx_eq p _ (by omega), Res.bind_ok]
            simp only [List.getD_eq_getElem?_getD, Res.pure_eq, Res.ok.injEq, Msg.mk.injEq, Header.mk.injEq, true_and, and_true]
            refine ⟨?_, by congr 1; omega, by rw [List.getElem?_eq_getElem (by omega)]; rfl⟩
            simp [Nat.add_assoc]
      · simp only [hf, false_and, if_false, Res.pure_eq, Res.bind_ok]
        by_cases hb : start + phoneLen + 2 + 0 + attr % 1024 + 1 ≠ p.length
        · simp [hb]
        · rw [if_neg hb, if_neg hb, slice_eq p _ _ (by omega) (by omega), Res.bind_ok,
            idx_eq p _ (by omega), Res.bind_ok]
          simp only [List.getD_eq_getElem?_getD, Res.pure_eq, Res.ok.injEq, Msg.mk.injEq, Header.mk.injEq, true_and, and_true]
          refine ⟨?_, by congr 1; omega, by rw [List.getElem?_eq_getElem (by omega)]; rfl⟩
          simp [Nat.add_assoc]

theorem decodePlain_err_or_ok (p : Bytes) : decodePlain p = .err ∨ ∃ m, decodePlain p = .ok m := by
  unfold decodePlain
  simp only []
  repeat' split
  all_goals first | exact Or.inl rfl | exact Or.inr ⟨_, rfl⟩

theorem decodePlainC_ne_panic (p : Bytes) : decodePlainC p ≠ .panic := by
  rw [decodePlainC_eq]
  rcases decodePlain_err_or_ok p with h | ⟨m, h⟩ <;> rw [h] <;> simp

end JT.Frame
