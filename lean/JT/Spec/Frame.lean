import JT.Model.Frame
/-!
# Specification of a well-formed JT/T 808 frame (written from the standard, not from the code)

A frame is `7e`, a non-empty escaped interior, `7e`. Un-escaping maps `7d 01 ↦ 7d`, `7d 02 ↦ 7e`,
every other byte to itself; `7d` followed by anything else is malformed, with the single tolerated
deviation of a bare `7d` as the very last interior byte (an unescaped checksum).
The un-escaped bytes are: message ID (2), attribute word (2), [version byte if bit 14], BCD phone
(6, or 10 if bit 14), serial (2), [package total (2) and number (2) if bit 13], body (low ten bits of the
attribute word), XOR checksum (1); the XOR of all of them is 0.
-/
namespace JT.Spec
open JT JT.Frame

inductive Escaped : Bytes → Bytes → Prop
  | nil : Escaped [] []
  | lone7d : Escaped [0x7d] [0x7d]
  | plain {w p : Bytes} (b : Byte) : b ≠ 0x7d → Escaped w p → Escaped (b :: w) (b :: p)
  | esc7d {w p : Bytes} : Escaped w p → Escaped (0x7d :: 0x01 :: w) (0x7d :: p)
  | esc7e {w p : Bytes} : Escaped w p → Escaped (0x7d :: 0x02 :: w) (0x7e :: p)

/-- the standard's layout of the un-escaped bytes `p` of message `m` -/
structure Layout (p : Bytes) (m : Msg) : Prop where
  id_lt : m.h.id < 65536
  attr_lt : m.h.attr < 65536
  serial_lt : m.h.serial < 65536
  sum_lt : m.h.sum < 65536
  no_lt : m.h.no < 65536
  version : m.h.version = m.h.attr / 16384 % 2
  frag : m.h.frag = m.h.attr / 8192 % 2
  encrypt : m.h.encrypt = m.h.attr / 1024 % 2
  bodyLen : m.h.bodyLen = m.h.attr % 1024
  bcd_len : m.h.bcd.length = if m.h.version = 1 then 10 else 6
  nofrag : m.h.frag = 0 → m.h.sum = 0 ∧ m.h.no = 0
  body_len : m.body.length = m.h.bodyLen
  bytes : ∃ ver : Bytes, ver.length = m.h.version ∧
    p = toBE 2 m.h.id ++ toBE 2 m.h.attr ++ ver ++ m.h.bcd ++ toBE 2 m.h.serial ++
        (if m.h.frag = 1 then toBE 2 m.h.sum ++ toBE 2 m.h.no else []) ++ m.body ++ [m.verify]

/-- `f` is a well-formed frame carrying message `m` -/
def WellFormed (f : Bytes) (m : Msg) : Prop :=
  ∃ w p, f = 0x7e :: (w ++ [0x7e]) ∧ w ≠ [] ∧ Escaped w p ∧ xorAll p = 0 ∧ Layout p m

end JT.Spec
