import JT.Model.Rtp
/-!
# JT/T 1078 RTP packet layout (table 19 of the standard), written from the standard

`30 31 63 64` | V(2) P(1) X(1) CC(4) | M(1) PT(7) | sequence (2) | SIM BCD (6) | channel (1) |
data type (4) sub-package mark (4) | timestamp (8, absent for data type 0100 = transparent data) |
last-I-frame interval (2) and last-frame interval (2) (only for video frames: data type 0000/0001/0010) |
body length (2) | body.
-/
namespace JT.Rtp

def encodeStd (p : Pkt) : Bytes :=
  marker ++ [UInt8.ofNat (p.v * 64 + p.p * 32 + p.x * 16 + p.cc), UInt8.ofNat (p.m * 128 + p.pt)]
    ++ toBE 2 p.seq ++ p.sim ++ [UInt8.ofNat p.ch, UInt8.ofNat (p.dt * 16 + p.sub)]
    ++ (if p.dt ≠ 4 then toBE 8 p.ts else [])
    ++ (if p.dt ≤ 2 then toBE 2 p.lifi ++ toBE 2 p.lfi else [])
    ++ toBE 2 p.body.length ++ p.body

/-- values the wire format can represent; absent fields are zero -/
structure WF (p : Pkt) : Prop where
  v : p.v < 4
  p_ : p.p < 2
  x : p.x < 2
  cc : p.cc < 16
  m : p.m < 2
  pt : p.pt < 128
  seq : p.seq < 65536
  sim : p.sim.length = 6
  ch : p.ch < 256
  dt : p.dt < 16
  sub : p.sub < 16
  ts : p.ts < 2 ^ 64
  ts0 : p.dt = 4 → p.ts = 0
  lifi : p.lifi < 65536
  lfi : p.lfi < 65536
  iv0 : 2 < p.dt → p.lifi = 0 ∧ p.lfi = 0
  body : p.body.length < 65536

end JT.Rtp
