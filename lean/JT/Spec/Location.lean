import JT.Basic.Bytes
/-!
# JT/T 808 location report: tables written from the standard (2013/2019 editions)

* table 24 — alarm flag word: `(bit, flag)`; the flag names are the implementation's field names, so that
  the table can be compared with what the extractor finds in the source;
* table 25 — status word, single-bit flags only (bits 8–9 are the two-bit load field, outside C08);
* table 31 — extended vehicle signal status (additional information 0x25);
* IO status (additional information 0x2A);
* admissible lengths of the standard additional-information items (tables 27–32).
-/
namespace JT.Spec

def alarmTable : List (Nat × String) :=
  [(0, "EmergencyAlarm"), (1, "OverSpeed"), (2, "FatigueDriving"), (3, "DangerousAlarm"),
   (4, "GNSSModuleFault"), (5, "GNSSAntennaFault"), (6, "GNSSAntennaShortCircuit"),
   (7, "TerminalPowerSupply"), (8, "TerminalPowerSupplyShutdown"), (9, "TerminalLCDFault"),
   (10, "TTSModuleFault"), (11, "CameraFault"), (12, "ICCardModuleFault"), (13, "OverSpeedAlarm"),
   (14, "FatigueDrivingAlarm"), (15, "ViolationDrivingAlarm"), (16, "TirePressureAlarm"),
   (17, "RightTurnBlindAreaAlarm"), (18, "DrivingTimeout"), (19, "OverTimeStop"), (20, "InOutArea"),
   (21, "InOutLine"), (22, "SectionDrivingTime"), (23, "LineDeviation"), (24, "VSSFault"),
   (25, "OilLevelAbnormality"), (26, "StealCar"), (27, "LaneDeviation"), (28, "LaneOffset"),
   (29, "CollisionAlarm"), (30, "SideSlipAlarm"), (31, "LaneOpeningAlarm")]

def statusTable : List (Nat × String) :=
  [(0, "ACC"), (1, "Location"), (2, "South"), (3, "East"), (4, "Suspended"), (5, "Encryption"),
   (6, "EmergencyBrake"), (7, "LaneOffset"), (10, "Oil"), (11, "Electricity"), (12, "VehicleDoor"),
   (13, "FrontDoor"), (14, "MiddleDoor"), (15, "BackDoor"), (16, "DriverDoor"), (17, "CustomDoor"),
   (18, "UseGPS"), (19, "UseBD"), (20, "UseGLONASS"), (21, "UseGalileo"), (22, "VehicleRunning")]

def extVehicleTable : List (Nat × String) :=
  [(0, "LowBeamSignal"), (1, "HighBeamSignal"), (2, "RightTurnSignal"), (3, "LeftTurnSignal"),
   (4, "BrakeSignal"), (5, "ReverseGearSignal"), (6, "FogLightSignal"), (7, "ClearanceLights"),
   (8, "HornSignal"), (9, "AirConditionerSignal"), (10, "NeutralSignal"), (11, "RetarderWork"),
   (12, "ABSWork"), (13, "HeaterWork"), (14, "ClutchStatus")]

def ioTable : List (Nat × String) := [(0, "DeepSleepStatus"), (1, "SleepStatus")]

/-- `(id, admissible lengths)` of the standard items -/
def stdAddLens : List (Nat × List Nat) :=
  [(0x01, [4]), (0x02, [2]), (0x03, [2]), (0x04, [2]), (0x05, [30]), (0x06, [2]), (0x11, [1, 5]),
   (0x12, [6]), (0x13, [7]), (0x25, [4]), (0x2A, [2]), (0x2B, [4]), (0x30, [1]), (0x31, [1])]

end JT.Spec
