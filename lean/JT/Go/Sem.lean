import JT.Basic.Bytes
/-!
# Semantics of the Go fragment that `extract golean` translates

`harness/cmd/extract/golean.go` translates selected functions of /repo (go/ast + go/types) into Lean definitions
written with the primitives of this file. The generated files (`JT/Gen/Go*.lean`) are regenerated on every run, and
`JT/Proof/Go*.lean` proves each generated function equal to the hand-written model the property theorems are about.
So for the translated functions the model is tied to the source by proof, not by sampling; what remains trusted is
this file (the meaning given to Go's operations) and the translator.

Conventions
* `X α` is the outcome of running Go code: a value, a run-time panic (index / slice bounds out of range), or `fuel`
  (the loop budget handed to the function was used up — never the case when the budget exceeds the input length,
  which the equivalence theorems state).
* `int` is `Int` (no 64-bit wrap-around: every `int` in the translated code is a length or an index plus a small
  constant). `uint8/16/32/64` are Lean's fixed-width types with the same wrap-around as Go.
* `[]byte`, `string` and `*bytes.Buffer` are byte lists (value semantics). A slice expression `b[lo:hi]` beyond
  `len(b)` is a panic (exact-capacity convention of DESIGN §3). The translator refuses code that writes through an
  alias of a slice (see its `unsupported` list).
* `error` is `GoErr = Option String`: `nil` or the name of the sentinel that was returned.
-/
namespace JT.Go
open JT

inductive X (α : Type) where
  | ok (a : α)
  | panic
  | fuel
deriving Repr, DecidableEq

namespace X
@[inline] def bind {α β} (x : X α) (f : α → X β) : X β :=
  match x with
  | .ok a => f a
  | .panic => .panic
  | .fuel => .fuel
instance : Monad X where
  pure := .ok
  bind := X.bind
@[simp] theorem bind_ok {α β} (a : α) (f : α → X β) : X.bind (.ok a) f = f a := rfl
@[simp] theorem bind_panic {α β} (f : α → X β) : X.bind (.panic : X α) f = .panic := rfl
@[simp] theorem bind_fuel {α β} (f : α → X β) : X.bind (.fuel : X α) f = .fuel := rfl
end X

abbrev GoErr := Option String

/-- `len(b)` -/
abbrev len (b : Bytes) : Int := (b.length : Int)

/-- `b[i]` -/
def idx (b : Bytes) (i : Int) : X Byte :=
  if 0 ≤ i then (match b[i.toNat]? with | some v => .ok v | none => .panic) else .panic

/-- `xs[i]` for a slice of another element type -/
def lidx {α} (l : List α) (i : Int) : X α :=
  if 0 ≤ i then (match l[i.toNat]? with | some v => .ok v | none => .panic) else .panic

/-- `b[lo:hi]` -/
def slice (b : Bytes) (lo hi : Int) : X Bytes :=
  if 0 ≤ lo ∧ lo ≤ hi ∧ hi ≤ (b.length : Int) then .ok ((b.drop lo.toNat).take (hi.toNat - lo.toNat)) else .panic

/-- `b[lo:]` -/
def sliceFrom (b : Bytes) (lo : Int) : X Bytes := slice b lo (len b)
/-- `b[:hi]` -/
def sliceTo (b : Bytes) (hi : Int) : X Bytes := slice b 0 hi

/-- `b[i] = v` -/
def setIdx (b : Bytes) (i : Int) (v : Byte) : X Bytes :=
  if 0 ≤ i ∧ i < (b.length : Int) then .ok (b.set i.toNat v) else .panic

/-- `make([]byte, n)` / `make([]byte, n, c)` -/
def make (n : Int) : X Bytes := if 0 ≤ n then .ok (List.replicate n.toNat 0) else .panic

/-- `make([]byte, n, c)`: a length larger than the capacity (or a negative one) panics -/
def makeCap (n c : Int) : X Bytes := if 0 ≤ n ∧ n ≤ c then .ok (List.replicate n.toNat 0) else .panic

/-- `binary.BigEndian.Uint16(b)` -/
def u16 (b : Bytes) : X UInt16 :=
  match b with
  | a :: c :: _ => .ok ((a.toUInt16 <<< 8) ||| c.toUInt16)
  | _ => .panic

/-- `binary.BigEndian.Uint32(b)`: the big-endian value of the first four bytes -/
def u32 (b : Bytes) : X UInt32 :=
  match b with
  | a :: c :: d :: e :: _ => .ok (UInt32.ofNat (beN [a, c, d, e]))
  | _ => .panic

/-- `binary.BigEndian.Uint64(b)`: the big-endian value of the first eight bytes -/
def u64 (b : Bytes) : X UInt64 :=
  match b with
  | a :: c :: d :: e :: f :: g :: h :: i :: _ => .ok (UInt64.ofNat (beN [a, c, d, e, f, g, h, i]))
  | _ => .panic

/-- the two bytes `binary.BigEndian.PutUint16` / `AppendUint16` write -/
def be16 (v : UInt16) : Bytes := [(v >>> 8).toUInt8, v.toUInt8]
/-- the four bytes `PutUint32` / `AppendUint32` write: `byte(v>>24), byte(v>>16), byte(v>>8), byte(v)` -/
def be32 (v : UInt32) : Bytes :=
  [UInt8.ofNat (v.toNat / 16777216), UInt8.ofNat (v.toNat / 65536), UInt8.ofNat (v.toNat / 256), UInt8.ofNat v.toNat]

/-- the eight bytes `PutUint64` / `AppendUint64` write -/
def be64 (v : UInt64) : Bytes :=
  [UInt8.ofNat (v.toNat / 72057594037927936), UInt8.ofNat (v.toNat / 281474976710656), UInt8.ofNat (v.toNat / 1099511627776),
   UInt8.ofNat (v.toNat / 4294967296), UInt8.ofNat (v.toNat / 16777216), UInt8.ofNat (v.toNat / 65536), UInt8.ofNat (v.toNat / 256),
   UInt8.ofNat v.toNat]

/-- `copy(b[lo:hi], src)` for a slice `b` the function owns: the first `min (hi-lo) (len src)` bytes from `lo` are overwritten -/
def copyAt (b : Bytes) (lo hi : Int) (src : Bytes) : X Bytes :=
  if 0 ≤ lo ∧ lo ≤ hi ∧ hi ≤ (b.length : Int) then
    .ok (b.take lo.toNat ++ src.take (hi.toNat - lo.toNat) ++ b.drop (lo.toNat + min (hi.toNat - lo.toNat) src.length))
  else .panic

/-- `fmt.Sprintf("%.Nb", v)` for an unsigned `v` of at most `n` bits: `n` characters `'0'`/`'1'`, most significant first -/
def bitsN (n : Nat) (v : Nat) : Bytes := (List.range n).map (fun i => if v.testBit (n - 1 - i) then (49 : UInt8) else (48 : UInt8))

/-- `strings.ReplaceAll(s, "<c>", "")` for a one-byte ASCII pattern -/
def removeByte (s : Bytes) (c : Byte) : Bytes := s.filter (· != c)

/-- `binary.BigEndian.PutUint16(b[lo:hi], v)` for a slice `b` the function owns: bytes `lo`, `lo+1` are overwritten -/
def putU16At (b : Bytes) (lo hi : Int) (v : UInt16) : X Bytes :=
  if 0 ≤ lo ∧ lo ≤ hi ∧ hi ≤ (b.length : Int) ∧ 2 ≤ hi - lo then
    .ok (b.take lo.toNat ++ be16 v ++ b.drop (lo.toNat + 2))
  else .panic

def putU32At (b : Bytes) (lo hi : Int) (v : UInt32) : X Bytes :=
  if 0 ≤ lo ∧ lo ≤ hi ∧ hi ≤ (b.length : Int) ∧ 4 ≤ hi - lo then
    .ok (b.take lo.toNat ++ be32 v ++ b.drop (lo.toNat + 4))
  else .panic

/-- `bytes.IndexFunc(b, func(r rune) bool { return r != c })` for ASCII data: index of the first byte that is not `c`, or -1 -/
def indexNe (b : Bytes) (c : Byte) : Int :=
  match b.findIdx? (· != c) with
  | some i => (i : Int)
  | none => -1

/-- `bytes.IndexFunc(b, func(r rune) bool { if r == c { count++ }; return count == n })` for an ASCII byte `c` and a
captured counter: the index of the byte at which the running count of `c` (starting from `count`) equals `n`, or -1.
(The predicate is true only where the count has just been raised or already stood at `n`, so evaluating it per byte or
per rune gives the same index: a byte `c < 0x80` is always a rune of its own.) -/
def indexCountFrom (c : Byte) (n : Int) : Bytes → Int → Int → Int
  | [], _, _ => -1
  | b :: r, cnt, pos =>
    let cnt' := if b == c then cnt + 1 else cnt
    if cnt' == n then pos else indexCountFrom c n r cnt' (pos + 1)
def indexCount (b : Bytes) (c : Byte) (count n : Int) : Int := indexCountFrom c n b count 0

/-- `bytes.IndexByte(b, c)` -/
def indexByte (b : Bytes) (c : Byte) : Int :=
  match b.findIdx? (· == c) with
  | some i => (i : Int)
  | none => -1

/-- `bytes.TrimLeft/TrimRight/Trim(b, cutset)` for an ASCII cutset -/
def trimLeft (b cut : Bytes) : Bytes := b.dropWhile (cut.contains ·)
def trimRight (b cut : Bytes) : Bytes := (b.reverse.dropWhile (cut.contains ·)).reverse
def trimBoth (b cut : Bytes) : Bytes := trimRight (trimLeft b cut) cut

/-- Go's `x << n` / `x >> n` for a shift count that may reach the width (Lean reduces the count modulo the width) -/
def shl8 (x : UInt8) (n : Nat) : UInt8 := if n < 8 then x <<< UInt8.ofNat n else 0
def shr8 (x : UInt8) (n : Nat) : UInt8 := if n < 8 then x >>> UInt8.ofNat n else 0
def shl16 (x : UInt16) (n : Nat) : UInt16 := if n < 16 then x <<< UInt16.ofNat n else 0
def shr16 (x : UInt16) (n : Nat) : UInt16 := if n < 16 then x >>> UInt16.ofNat n else 0
def shl32 (x : UInt32) (n : Nat) : UInt32 := if n < 32 then x <<< UInt32.ofNat n else 0
def shr32 (x : UInt32) (n : Nat) : UInt32 := if n < 32 then x >>> UInt32.ofNat n else 0
def shl64 (x : UInt64) (n : Nat) : UInt64 := if n < 64 then x <<< UInt64.ofNat n else 0
def shr64 (x : UInt64) (n : Nat) : UInt64 := if n < 64 then x >>> UInt64.ofNat n else 0

/-- `int` division and remainder (truncated; a zero divisor panics) -/
def idiv (a b : Int) : X Int := if b = 0 then .panic else .ok (Int.tdiv a b)
def imod (a b : Int) : X Int := if b = 0 then .panic else .ok (Int.tmod a b)

end JT.Go
