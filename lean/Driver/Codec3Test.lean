import JT.Model.Codec3
import Std.Data.HashMap
/-!
Validation of `JT/Model/Codec3.lean` (values of `Parse` and bytes of `Encode`) against the Go code.

  cd /verif/lean && lake env lean --run Driver/Codec3Test.lean [ops.txt impl.txt]

`ops.txt` lines: `<idx> rt <TypeName> <ctx> <bodyhex> <valueSpec>`; `impl.txt` lines: `<idx> <result>` with result
`err`, `panic` or `ok <hex>` where `<hex>` is `v.Encode()` after `v.Parse(body)` on a fresh receiver (`ok -` for zero
bytes). For every line of one of the seven modelled types the model computes
`match parse body with | .ok v => "ok " ++ hex (encode v) | .err => "err" | .panic => "panic"` and the two strings are
compared. The two helper pseudo-types whose model the encoders use are compared as well:
`utils.Time2BCD/BCD2Time` (`Time2BCD(BCD2Time(body))` = `reTime body`) and `utils.String2FillingBytes` (ctx `n<size>`).
-/
open JT JT.Codec3

def show3 : Res Bytes → String
  | .ok bs => "ok " ++ hexOrDash bs
  | .err => "err"
  | .panic => "panic"

/-- the model of a type name; `none` for a type that is not ours -/
def modelOf (ty ctx : String) : Option (Bytes → Res Bytes) :=
  match ty with
  | "P0x8100" => some (reenc parseP0x8100 encodeP0x8100)
  | "P0x9101" => some (reenc parseP0x9101 encodeP0x9101)
  | "P0x9201" => some (reenc parseP0x9201 encodeP0x9201)
  | "P0x9206" => some (reenc parseP0x9206 encodeP0x9206)
  | "T0x1205" => some (reenc parseT0x1205 encodeT0x1205)
  | "P0x9102" => some (reenc parseP0x9102 encodeP0x9102)
  | "P0x9207" => some (reenc parseP0x9207 encodeP0x9207)
  | "utils.Time2BCD/BCD2Time" => some (fun b => .ok (reTime b))
  | "utils.String2FillingBytes" =>
    match (ctx.drop 1).toNat? with
    | some n => if ctx.startsWith "n" then some (fun b => .ok (fill b n)) else none
    | none => none
  | _ => none

def typeNames : List String :=
  ["P0x8100", "P0x9101", "P0x9201", "P0x9206", "T0x1205", "P0x9102", "P0x9207",
   "utils.Time2BCD/BCD2Time", "utils.String2FillingBytes"]

/-- the first `n` space-separated tokens of a line -/
def firstToks (line : String) (n : Nat) : List String :=
  let rec go (cs : List Char) (cur : List Char) (acc : List String) (n : Nat) : List String :=
    match n with
    | 0 => acc.reverse
    | n + 1 =>
      match cs with
      | [] => (if cur.isEmpty then acc else String.ofList cur.reverse :: acc).reverse
      | c :: r =>
        if c = ' ' ∨ c = '\n' ∨ c = '\r' then
          if cur.isEmpty then go r [] acc (n + 1) else go r [] (String.ofList cur.reverse :: acc) n
        else go r (c :: cur) acc (n + 1)
  go line.toList [] [] n

structure Stat where
  compared : Nat := 0
  mism : Nat := 0
  nOk : Nat := 0
  nErr : Nat := 0
  nPanic : Nat := 0
  changed : Nat := 0      -- Go re-encoded to something other than the body
  shown : List String := []

partial def readImpl (h : IO.FS.Handle) (m : Std.HashMap String String) : IO (Std.HashMap String String) := do
  let line ← h.getLine
  if line.isEmpty then return m
  match firstToks line 3 with
  | [i, c] => readImpl h (m.insert i c)
  | [i, c, x] => readImpl h (m.insert i (c ++ " " ++ x))
  | _ => readImpl h m

partial def readOps (h : IO.FS.Handle) (impl : Std.HashMap String String) (st : Std.HashMap String Stat)
    (bad : Nat) : IO (Std.HashMap String Stat × Nat) := do
  let line ← h.getLine
  if line.isEmpty then return (st, bad)
  match firstToks line 5 with
  | [i, _, ty, ctx, hex] =>
    match modelOf ty ctx with
    | none => readOps h impl st bad
    | some f =>
      match ofHex hex, impl.get? i with
      | some body, some go =>
        let mine := show3 (f body)
        let s := st.getD ty {}
        let s := { s with compared := s.compared + 1 }
        let s := if go = "panic" then { s with nPanic := s.nPanic + 1 } else s
        let s := if go.startsWith "ok" then { s with nOk := s.nOk + 1 } else s
        let s := if go = "err" then { s with nErr := s.nErr + 1 } else s
        let s := if go.startsWith "ok" ∧ go ≠ "ok " ++ hexOrDash body then { s with changed := s.changed + 1 } else s
        let s :=
          if mine = go then s
          else
            let s := { s with mism := s.mism + 1 }
            if s.shown.length < 5 then
              { s with shown := s.shown ++ [s!"    line {i} ctx {ctx} body {hex}:\n      go    = {go}\n      model = {mine}"] }
            else s
        readOps h impl (st.insert ty s) bad
      | _, _ => readOps h impl st (bad + 1)
  | _ => readOps h impl st bad

def main (args : List String) : IO UInt32 := do
  let (opsPath, implPath) :=
    match args with
    | [a, b] => (a, b)
    | _ => ("/verif/.build/run/C07/ops.txt", "/verif/.build/run/C07/impl.txt")
  let hi ← IO.FS.Handle.mk implPath .read
  let impl ← readImpl hi {}
  let ho ← IO.FS.Handle.mk opsPath .read
  let (st, bad) ← readOps ho impl {} 0
  let mut totalC := 0
  let mut totalM := 0
  IO.println s!"impl results read: {impl.size}; unreadable lines of our types: {bad}"
  for ty in typeNames do
    let s := st.getD ty {}
    totalC := totalC + s.compared
    totalM := totalM + s.mism
    IO.println s!"{ty}: compared {s.compared} (go ok {s.nOk} of which re-encoded differently {s.changed}, err {s.nErr}, panic {s.nPanic}), mismatches {s.mism}"
    for l in s.shown do IO.println l
  IO.println s!"TOTAL: compared {totalC}, mismatches {totalM}"
  return (if totalM = 0 ∧ bad = 0 then 0 else 1)
