import JT.Basic.Bytes
import JT.Model.Frame
/-!
Line-protocol driver: one operation per input line, one result line per operation.
`<idx> <op> <args…>` ↦ `<idx> <result>`.
-/
open JT

def showMsg (m : Frame.Msg) : String :=
  let h := m.h
  s!"ok id={h.id} ver={h.version} frag={h.frag} enc={h.encrypt} len={h.bodyLen} pv={h.version + 2} phone={bcd2dec h.bcd} serial={h.serial} sum={h.sum} no={h.no} body={hexOrDash m.body} verify={m.verify.toNat}"

def runOp (op : String) (args : List String) : String :=
  match op, args with
  | "dec", [f] =>
    match ofHex f with
    | none => "bad-op"
    | some bs =>
      match Frame.decode bs with
      | .ok m => showMsg m
      | .err => "err"
      | .panic => "panic"
  | "decv", [f, _] =>
    match ofHex f with
    | none => "bad-op"
    | some bs =>
      match Frame.decode bs with
      | .ok m => showMsg m
      | .err => "err"
      | .panic => "panic"
  | "enc", [src, rid, ser, body] =>
    match ofHex src, rid.toNat?, ser.toNat?, ofHex body with
    | some s, some rid, some ser, some b =>
      match Frame.decode s with
      | .ok m => s!"ok {toHex (Frame.encode m.h rid ser b)}"
      | _ => "src-err"
    | _, _, _, _ => "bad-op"
  | _, _ => "bad-op"

partial def loop (h : IO.FS.Stream) (out : IO.FS.Stream) : IO Unit := do
  let line ← h.getLine
  if line.isEmpty then return ()
  let toks := (line.trimAscii.toString.splitOn " ").filter (· ≠ "")
  match toks with
  | idx :: op :: args => out.putStrLn s!"{idx} {runOp op args}"
  | _ => out.putStrLn "bad-line"
  loop h out

def main : IO Unit := do
  let out ← IO.getStdout
  loop (← IO.getStdin) out
